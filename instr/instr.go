// Package instr rewrites one Go source file so that its synchronisation, channel,
// goroutine, time and context operations go through the /verif shim packages.
// It works on syntax only (go/ast); anything it cannot rewrite safely makes it fail
// loudly instead of silently leaving an un-scheduled operation behind.
package instr

import (
	"bytes"
	"fmt"
	"go/ast"
	"go/parser"
	"go/printer"
	"go/token"
	"os"
	"strconv"
	"strings"

	"golang.org/x/tools/go/ast/astutil"
)

const shim = "github.com/keep-network/keep-core/pkg/verifshim/"

// Options: Opts is a list of
//
//	sync time ctx atomic  – swap the import for the shim package (default: sync time ctx;
//	                        atomic follows sync unless given / noatomic)
//	go chan               – rewrite go statements / channel operations (default on)
//	nosync notime noctx nogo nochan – switch a default off
//	maprange:<expr>       – route `for … := range <expr>` through vsched.MapOrder
//	loops                 – insert vsched.LoopHook(site) at the top of every for body
//	chanrange:<expr>      – rewrite `for v := range <expr>` over a channel into Recv2 loop
//	racy:<func>           – in function/method <func> (racy:* = every function of the file): a scheduling point before every
//	                        statement, and x.f++ / x.f op= e split into load; yield; store
//	                        (models unsynchronised read-modify-write at statement level)
type Options struct {
	Opts    []string
	Package string
	Imports map[string]string
}

func sel(pkg, name string) ast.Expr {
	return &ast.SelectorExpr{X: ast.NewIdent(pkg), Sel: ast.NewIdent(name)}
}
func call(pkg, name string, args ...ast.Expr) *ast.CallExpr {
	return &ast.CallExpr{Fun: sel(pkg, name), Args: args}
}

type rw struct {
	tmpN     int
	needShed bool
}

func (r *rw) tmp() *ast.Ident { r.tmpN++; return ast.NewIdent("__vc" + strconv.Itoa(r.tmpN)) }

func (r *rw) rewriteSelect(s *ast.SelectStmt) ast.Stmt {
	var pre []ast.Stmt
	var cases []ast.Expr
	hasDefault := false
	sw := &ast.SwitchStmt{Body: &ast.BlockStmt{}}
	idx := 0
	for _, c := range s.Body.List {
		cc := c.(*ast.CommClause)
		if cc.Comm == nil {
			hasDefault = true
			sw.Body.List = append(sw.Body.List, &ast.CaseClause{Body: cc.Body})
			continue
		}
		var body []ast.Stmt
		switch comm := cc.Comm.(type) {
		case *ast.SendStmt:
			ch := r.tmp()
			pre = append(pre, &ast.AssignStmt{Lhs: []ast.Expr{ch}, Tok: token.DEFINE, Rhs: []ast.Expr{comm.Chan}})
			cases = append(cases, call("vsched", "W", ch, comm.Value))
		case *ast.ExprStmt:
			ch := r.tmp()
			pre = append(pre, &ast.AssignStmt{Lhs: []ast.Expr{ch}, Tok: token.DEFINE, Rhs: []ast.Expr{unparen(comm.X).(*ast.UnaryExpr).X}})
			cases = append(cases, call("vsched", "R", ch))
		case *ast.AssignStmt:
			ch := r.tmp()
			pre = append(pre, &ast.AssignStmt{Lhs: []ast.Expr{ch}, Tok: token.DEFINE, Rhs: []ast.Expr{unparen(comm.Rhs[0]).(*ast.UnaryExpr).X}})
			cases = append(cases, call("vsched", "R", ch))
			fn := "GotOf"
			if len(comm.Lhs) == 2 {
				fn = "GotOf2"
			}
			body = append(body, &ast.AssignStmt{Lhs: comm.Lhs, Tok: comm.Tok, Rhs: []ast.Expr{call("vsched", fn, ch)}})
			// silence "declared and not used" for arms that only bind
			if comm.Tok == token.DEFINE {
				for _, l := range comm.Lhs {
					if id, ok := l.(*ast.Ident); ok && id.Name != "_" {
						body = append(body, &ast.AssignStmt{Lhs: []ast.Expr{ast.NewIdent("_")}, Tok: token.ASSIGN, Rhs: []ast.Expr{ast.NewIdent(id.Name)}})
					}
				}
			}
		}
		body = append(body, cc.Body...)
		sw.Body.List = append(sw.Body.List, &ast.CaseClause{
			List: []ast.Expr{&ast.BasicLit{Kind: token.INT, Value: strconv.Itoa(idx)}}, Body: body})
		idx++
	}
	hd := "false"
	if hasDefault {
		hd = "true"
	} else {
		// Select(false, …) never returns -1; the default clause only keeps the switch a
		// terminating statement when the select was one (all arms return).
		sw.Body.List = append(sw.Body.List, &ast.CaseClause{Body: []ast.Stmt{&ast.ExprStmt{X: &ast.CallExpr{
			Fun: ast.NewIdent("panic"), Args: []ast.Expr{&ast.BasicLit{Kind: token.STRING, Value: strconv.Quote("vsched: select returned no arm")}}}}}})
	}
	sw.Tag = call("vsched", "Select", append([]ast.Expr{ast.NewIdent(hd)}, cases...)...)
	r.needShed = true
	return &ast.BlockStmt{List: append(pre, sw)}
}

var opOf = map[token.Token]token.Token{
	token.ADD_ASSIGN: token.ADD, token.SUB_ASSIGN: token.SUB, token.MUL_ASSIGN: token.MUL,
	token.QUO_ASSIGN: token.QUO, token.REM_ASSIGN: token.REM, token.AND_ASSIGN: token.AND,
	token.OR_ASSIGN: token.OR, token.XOR_ASSIGN: token.XOR, token.SHL_ASSIGN: token.SHL,
	token.SHR_ASSIGN: token.SHR, token.AND_NOT_ASSIGN: token.AND_NOT,
}

func yieldStmt() ast.Stmt { return &ast.ExprStmt{X: call("vsched", "Yield")} }

func shared(e ast.Expr) bool {
	switch e.(type) {
	case *ast.SelectorExpr, *ast.IndexExpr, *ast.StarExpr:
		return true
	}
	return false
}

// racyBlock inserts a scheduling point before every statement and splits
// read-modify-write statements on non-local operands.
func (r *rw) racyBlock(b *ast.BlockStmt) {
	var out []ast.Stmt
	for _, st := range b.List {
		out = append(out, yieldStmt())
		switch n := st.(type) {
		case *ast.IncDecStmt:
			if shared(n.X) {
				t := r.tmp()
				op := token.ADD
				if n.Tok == token.DEC {
					op = token.SUB
				}
				out = append(out,
					&ast.AssignStmt{Lhs: []ast.Expr{t}, Tok: token.DEFINE, Rhs: []ast.Expr{n.X}},
					yieldStmt(),
					&ast.AssignStmt{Lhs: []ast.Expr{n.X}, Tok: token.ASSIGN, Rhs: []ast.Expr{&ast.BinaryExpr{X: t, Op: op, Y: &ast.BasicLit{Kind: token.INT, Value: "1"}}}})
				continue
			}
		case *ast.AssignStmt:
			if op, ok := opOf[n.Tok]; ok && len(n.Lhs) == 1 && shared(n.Lhs[0]) {
				t := r.tmp()
				out = append(out,
					&ast.AssignStmt{Lhs: []ast.Expr{t}, Tok: token.DEFINE, Rhs: []ast.Expr{n.Lhs[0]}},
					yieldStmt(),
					&ast.AssignStmt{Lhs: []ast.Expr{n.Lhs[0]}, Tok: token.ASSIGN, Rhs: []ast.Expr{&ast.BinaryExpr{X: t, Op: op, Y: &ast.ParenExpr{X: n.Rhs[0]}}}})
				continue
			}
		case *ast.IfStmt:
			r.racyBlock(n.Body)
			if eb, ok := n.Else.(*ast.BlockStmt); ok {
				r.racyBlock(eb)
			}
		case *ast.ForStmt:
			r.racyBlock(n.Body)
		case *ast.RangeStmt:
			r.racyBlock(n.Body)
		case *ast.BlockStmt:
			r.racyBlock(n)
		}
		out = append(out, st)
	}
	b.List = out
}

func unparen(e ast.Expr) ast.Expr {
	for {
		p, ok := e.(*ast.ParenExpr)
		if !ok {
			return e
		}
		e = p.X
	}
}

func exprString(fset *token.FileSet, e ast.Expr) string {
	var b bytes.Buffer
	printer.Fprint(&b, fset, e)
	return b.String()
}

// File instruments src into dst.
func File(src, dst string, o Options) error {
	on := map[string]bool{"sync": true, "time": true, "ctx": true, "go": true, "chan": true}
	mapRanges := map[string]bool{}
	chanRanges := map[string]bool{}
	racyFuncs := map[string]bool{}
	for _, op := range o.Opts {
		switch {
		case strings.HasPrefix(op, "chanrange:"):
			chanRanges[strings.TrimPrefix(op, "chanrange:")] = false
		case strings.HasPrefix(op, "racy:"):
			racyFuncs[strings.TrimPrefix(op, "racy:")] = false
		case strings.HasPrefix(op, "maprange:"):
			mapRanges[strings.TrimPrefix(op, "maprange:")] = false
		case strings.HasPrefix(op, "no"):
			on[strings.TrimPrefix(op, "no")] = false
		default:
			on[op] = true
		}
	}
	// sync/atomic follows sync unless said otherwise: a file whose mutexes are scheduling
	// points gets its atomics as scheduling points too (a change that replaces a lock by
	// atomics must not fall out of the explored interleavings)
	if _, explicit := on["atomic"]; !explicit {
		on["atomic"] = on["sync"]
	}
	fset := token.NewFileSet()
	f, err := parser.ParseFile(fset, src, nil, parser.ParseComments)
	if err != nil {
		return err
	}
	// keep only build-constraint-free code: comments are dropped in the copy (heavy
	// rewriting confuses comment placement) but the //go:build line must survive.
	var buildLine string
	for _, cg := range f.Comments {
		for _, c := range cg.List {
			if strings.HasPrefix(c.Text, "//go:build ") && c.Pos() < f.Package {
				buildLine = c.Text
			}
		}
	}
	f.Comments = nil
	f.Doc = nil
	if o.Package != "" {
		f.Name.Name = o.Package
	}
	swap := [][3]string{}
	if on["ctx"] {
		swap = append(swap, [3]string{"context", "vctx", "context"})
	}
	if on["time"] {
		swap = append(swap, [3]string{"time", "vtime", "time"})
	}
	if on["sync"] {
		swap = append(swap, [3]string{"sync", "vsync", "sync"})
	}
	if on["atomic"] {
		swap = append(swap, [3]string{"sync/atomic", "vatomic", "atomic"})
	}
	for _, imp := range f.Imports {
		p, _ := strconv.Unquote(imp.Path.Value)
		for _, sw := range swap {
			if p == sw[0] {
				imp.Path.Value = strconv.Quote(shim + sw[1])
				if imp.Name == nil {
					imp.Name = ast.NewIdent(sw[2])
				}
			}
		}
		if np, ok := o.Imports[p]; ok {
			if imp.Name == nil {
				// keep the identifier the code uses: last path element of the old path
				base := p[strings.LastIndex(p, "/")+1:]
				imp.Name = ast.NewIdent(base)
			}
			imp.Path.Value = strconv.Quote(np)
		}
	}

	r := &rw{}
	for _, d := range f.Decls {
		fd, ok := d.(*ast.FuncDecl)
		if !ok || fd.Body == nil {
			continue
		}
		_, all := racyFuncs["*"]
		if _, want := racyFuncs[fd.Name.Name]; want || all {
			if want {
				racyFuncs[fd.Name.Name] = true
			}
			if all {
				racyFuncs["*"] = true
			}
			r.racyBlock(fd.Body)
			r.needShed = true
		}
	}
	for k, found := range racyFuncs {
		if !found {
			return fmt.Errorf("racy function %q not found in %s", k, src)
		}
	}
	skip := map[ast.Node]bool{}
	ast.Inspect(f, func(n ast.Node) bool {
		if cc, ok := n.(*ast.CommClause); ok && cc.Comm != nil {
			switch comm := cc.Comm.(type) {
			case *ast.SendStmt:
				skip[comm] = true
			case *ast.ExprStmt:
				skip[unparen(comm.X)] = true
			case *ast.AssignStmt:
				skip[unparen(comm.Rhs[0])] = true
				skip[comm] = true
			}
		}
		return true
	})
	loopN := 0
	var firstErr error
	astutil.Apply(f, func(c *astutil.Cursor) bool {
		switch n := c.Node().(type) {
		case *ast.AssignStmt:
			if on["chan"] && len(n.Lhs) == 2 && len(n.Rhs) == 1 && !skip[n] {
				if u, ok := unparen(n.Rhs[0]).(*ast.UnaryExpr); ok && u.Op == token.ARROW {
					n.Rhs[0] = call("vsched", "Recv2", u.X)
					skip[u] = true
					r.needShed = true
				}
			}
		case *ast.ValueSpec:
			if on["chan"] && len(n.Names) == 2 && len(n.Values) == 1 {
				if u, ok := unparen(n.Values[0]).(*ast.UnaryExpr); ok && u.Op == token.ARROW {
					n.Values[0] = call("vsched", "Recv2", u.X)
					skip[u] = true
					r.needShed = true
				}
			}
		}
		return true
	}, func(c *astutil.Cursor) bool {
		switch n := c.Node().(type) {
		case *ast.GoStmt:
			if !on["go"] {
				return true
			}
			var fn ast.Expr
			var pre []ast.Stmt
			if fl, ok := n.Call.Fun.(*ast.FuncLit); ok && len(n.Call.Args) == 0 {
				fn = fl
			} else {
				// evaluate the arguments (and a method receiver expression) first, as
				// the go statement does
				call2 := &ast.CallExpr{Fun: n.Call.Fun, Ellipsis: n.Call.Ellipsis}
				for _, a := range n.Call.Args {
					id := r.tmp()
					pre = append(pre, &ast.AssignStmt{Lhs: []ast.Expr{id}, Tok: token.DEFINE, Rhs: []ast.Expr{a}})
					call2.Args = append(call2.Args, id)
				}
				fn = &ast.FuncLit{Type: &ast.FuncType{Params: &ast.FieldList{}}, Body: &ast.BlockStmt{List: []ast.Stmt{&ast.ExprStmt{X: call2}}}}
			}
			r.needShed = true
			st := &ast.ExprStmt{X: call("vsched", "Go", fn)}
			if len(pre) == 0 {
				c.Replace(st)
			} else {
				c.Replace(&ast.BlockStmt{List: append(pre, st)})
			}
		case *ast.SendStmt:
			if on["chan"] && !skip[n] {
				r.needShed = true
				c.Replace(&ast.ExprStmt{X: call("vsched", "Send", n.Chan, n.Value)})
			}
		case *ast.UnaryExpr:
			if on["chan"] && n.Op == token.ARROW && !skip[n] {
				r.needShed = true
				c.Replace(call("vsched", "Recv", n.X))
			}
		case *ast.CallExpr:
			if id, ok := n.Fun.(*ast.Ident); on["chan"] && ok && id.Name == "close" && len(n.Args) == 1 {
				r.needShed = true
				c.Replace(call("vsched", "Close", n.Args[0]))
			}
		case *ast.SelectStmt:
			if on["chan"] {
				c.Replace(r.rewriteSelect(n))
			}
		case *ast.ForStmt:
			if on["loops"] {
				loopN++
				site := fmt.Sprintf("%s:%d", shortName(src), fset.Position(n.Pos()).Line)
				hook := &ast.ExprStmt{X: call("vsched", "LoopHook", &ast.BasicLit{Kind: token.STRING, Value: strconv.Quote(site)})}
				n.Body.List = append([]ast.Stmt{hook}, n.Body.List...)
				r.needShed = true
			}
		case *ast.RangeStmt:
			xs := exprString(fset, n.X)
			if _, want := mapRanges[xs]; want {
				mapRanges[xs] = true
				r.needShed = true
				// for k, v := range m {B}  =>  for _, k := range vsched.MapOrder(m) { v := m[k]; B }
				if n.Tok != token.DEFINE {
					firstErr = fmt.Errorf("maprange %s: only := ranges are supported", xs)
					return true
				}
				key := n.Key
				if key == nil || isBlank(key) {
					key = r.tmp()
				}
				var pre []ast.Stmt
				if n.Value != nil && !isBlank(n.Value) {
					pre = append(pre, &ast.AssignStmt{Lhs: []ast.Expr{n.Value}, Tok: token.DEFINE,
						Rhs: []ast.Expr{&ast.IndexExpr{X: n.X, Index: key}}})
				}
				n.Body.List = append(pre, n.Body.List...)
				n.Value = key
				n.Key = ast.NewIdent("_")
				n.X = call("vsched", "MapOrder", n.X)
			} else if _, want := chanRanges[xs]; want {
				chanRanges[xs] = true
				r.needShed = true
				// for v := range ch {B}  =>  for { v, ok := vsched.Recv2(ch); if !ok {break}; B }
				okID := r.tmp()
				var v ast.Expr = ast.NewIdent("_")
				tok := token.DEFINE
				if n.Key != nil {
					v = n.Key
					if n.Tok == token.ASSIGN {
						tok = token.ASSIGN
					}
				}
				var pre []ast.Stmt
				if tok == token.ASSIGN {
					pre = append(pre, &ast.DeclStmt{Decl: &ast.GenDecl{Tok: token.VAR, Specs: []ast.Spec{&ast.ValueSpec{Names: []*ast.Ident{okID}, Type: ast.NewIdent("bool")}}}})
				}
				pre = append(pre, &ast.AssignStmt{Lhs: []ast.Expr{v, okID}, Tok: tok, Rhs: []ast.Expr{call("vsched", "Recv2", n.X)}})
				pre = append(pre, &ast.IfStmt{Cond: &ast.UnaryExpr{Op: token.NOT, X: okID}, Body: &ast.BlockStmt{List: []ast.Stmt{&ast.BranchStmt{Tok: token.BREAK}}}})
				c.Replace(&ast.ForStmt{Body: &ast.BlockStmt{List: append(pre, n.Body.List...)}})
			}
		}
		return true
	})
	if firstErr != nil {
		return firstErr
	}
	for k, found := range mapRanges {
		if !found {
			return fmt.Errorf("maprange expression %q not found in %s", k, src)
		}
	}
	for k, found := range chanRanges {
		if !found {
			return fmt.Errorf("chanrange expression %q not found in %s", k, src)
		}
	}
	if r.needShed {
		astutil.AddImport(fset, f, shim+"vsched")
	}
	var buf bytes.Buffer
	if buildLine != "" {
		buf.WriteString(buildLine + "\n\n")
	}
	if err := printer.Fprint(&buf, fset, f); err != nil {
		return err
	}
	return os.WriteFile(dst, buf.Bytes(), 0o644)
}

func isBlank(e ast.Expr) bool {
	id, ok := e.(*ast.Ident)
	return ok && id.Name == "_"
}

func shortName(p string) string {
	if i := strings.LastIndex(p, "/"); i >= 0 {
		return p[i+1:]
	}
	return p
}
