//go:build verif

package ethereum

import (
	"bytes"
	"crypto/ecdsa"
	"crypto/sha256"
	"encoding/hex"
	"encoding/json"
	"fmt"
	"math/big"
	"os"
	"path/filepath"
	"sort"
	"sync"
	"testing"

	"github.com/ethereum/go-ethereum/accounts/keystore"
	"github.com/ethereum/go-ethereum/common"
	"github.com/ethereum/go-ethereum/crypto"
	"golang.org/x/crypto/sha3"

	"github.com/keep-network/keep-core/pkg/chain"
	"github.com/keep-network/keep-core/pkg/protocol/group"
	"github.com/keep-network/keep-core/pkg/protocol/inactivity"
	"github.com/keep-network/keep-core/pkg/tbtc"
	"github.com/keep-network/keep-core/pkg/verifshim/vrep"
)

// =====================================================================================
// Reference: a line-by-line Go transcription of the Solidity validation. It uses its own
// ABI encoder and Keccak instance and does not call any code of pkg/chain/ethereum.
// Pinned source digests (a change is reported as reference_stale, not as a violation).
// =====================================================================================

var c40Pins = map[string]string{
	"solidity/ecdsa/contracts/EcdsaDkgValidator.sol":         "9e0dbebbc081dbacbe66d881bcda74f842b021b74b6796f71dddb550bbf5f82c",
	"solidity/ecdsa/contracts/libraries/EcdsaInactivity.sol": "6f0507533301b0dda299472ae1421ef4ac10c5f5323efce63301a2c67237d5e4",
	"solidity/ecdsa/contracts/libraries/Wallets.sol":         "428f28e5a8191b0ec7d0f7dd454ac77c49bc2748eb00cba7b6249bd58430fb29",
}

const (
	c40GroupSize         = 100 // EcdsaDkgValidator.groupSize
	c40GroupThreshold    = 51  // EcdsaDkgValidator.groupThreshold
	c40ActiveThreshold   = 90  // EcdsaDkgValidator.activeThreshold
	c40PublicKeyByteSize = 64
	c40SignatureByteSize = 65
)

func c40Keccak(b []byte) [32]byte {
	h := sha3.NewLegacyKeccak256()
	h.Write(b)
	var out [32]byte
	copy(out[:], h.Sum(nil))
	return out
}

func c40Word(v *big.Int) []byte { // uint256, big endian, 32 bytes
	out := make([]byte, 32)
	v.FillBytes(out)
	return out
}
func c40WordU(v uint64) []byte { return c40Word(new(big.Int).SetUint64(v)) }

// c40EncBytes is the tail of a `bytes` value: length word + data padded to 32 bytes.
func c40EncBytes(b []byte) []byte {
	out := c40WordU(uint64(len(b)))
	out = append(out, b...)
	if pad := (32 - len(b)%32) % 32; pad > 0 {
		out = append(out, make([]byte, pad)...)
	}
	return out
}

// c40EncArray is the tail of a dynamic array of value types: length + one word each.
func c40EncArray(words [][]byte) []byte {
	out := c40WordU(uint64(len(words)))
	for _, w := range words {
		out = append(out, w...)
	}
	return out
}

// abi.encode(block.chainid, result.groupPubKey, result.misbehavedMembersIndices, startBlock)
func c40EncodeResultPreimage(chainID *big.Int, groupPubKey []byte, misbehaved []uint8, startBlock *big.Int) []byte {
	tailKey := c40EncBytes(groupPubKey)
	var ws [][]byte
	for _, m := range misbehaved {
		ws = append(ws, c40WordU(uint64(m)))
	}
	tailArr := c40EncArray(ws)
	head := 4 * 32
	var out []byte
	out = append(out, c40Word(chainID)...)
	out = append(out, c40WordU(uint64(head))...)
	out = append(out, c40WordU(uint64(head+len(tailKey)))...)
	out = append(out, c40Word(startBlock)...)
	out = append(out, tailKey...)
	out = append(out, tailArr...)
	return out
}

// ECDSA.toEthSignedMessageHash(bytes32)
func c40EthSigned(h [32]byte) [32]byte {
	return c40Keccak(append([]byte("\x19Ethereum Signed Message:\n32"), h[:]...))
}

// ECDSA.recover(hash, signature) for 65-byte signatures; zero address on failure.
func c40Recover(h [32]byte, sig []byte) common.Address {
	if len(sig) != 65 {
		return common.Address{}
	}
	v := sig[64]
	if v != 27 && v != 28 { // OpenZeppelin: "ECDSA: invalid signature 'v' value"
		return common.Address{}
	}
	s := new(big.Int).SetBytes(sig[32:64])
	halfN := new(big.Int).Rsh(crypto.S256().Params().N, 1)
	if s.Cmp(halfN) > 0 { // "ECDSA: invalid signature 's' value"
		return common.Address{}
	}
	rs := append([]byte{}, sig[:64]...)
	rs = append(rs, v-27)
	pub, err := crypto.SigToPub(h[:], rs)
	if err != nil {
		return common.Address{}
	}
	return crypto.PubkeyToAddress(*pub)
}

// c40Result mirrors EcdsaDkg.Result.
type c40Result struct {
	submitterMemberIndex     uint64
	groupPubKey              []byte
	misbehavedMembersIndices []uint8
	signatures               []byte
	signingMembersIndices    []uint64
	members                  []uint32
	membersHash              [32]byte
}

// EcdsaDkgValidator.validateFields
func c40ValidateFields(r *c40Result) (bool, string) {
	if len(r.groupPubKey) != c40PublicKeyByteSize {
		return false, "Malformed group public key"
	}
	mis := r.misbehavedMembersIndices
	if c40GroupSize-len(mis) < c40ActiveThreshold {
		return false, "Too many members misbehaving during DKG"
	}
	if len(mis) > 1 {
		if mis[0] < 1 || int(mis[len(mis)-1]) > c40GroupSize {
			return false, "Corrupted misbehaved members indices"
		}
		for i := 1; i < len(mis); i++ {
			if mis[i-1] >= mis[i] {
				return false, "Corrupted misbehaved members indices"
			}
		}
	}
	signaturesCount := len(r.signatures) / c40SignatureByteSize
	if len(r.signatures) == 0 {
		return false, "No signatures provided"
	}
	if len(r.signatures)%c40SignatureByteSize != 0 {
		return false, "Malformed signatures array"
	}
	smi := r.signingMembersIndices
	if signaturesCount != len(smi) {
		return false, "Unexpected signatures count"
	}
	if signaturesCount < c40GroupThreshold {
		return false, "Too few signatures"
	}
	if signaturesCount > c40GroupSize {
		return false, "Too many signatures"
	}
	if smi[0] < 1 || smi[len(smi)-1] > c40GroupSize {
		return false, "Corrupted signing member indices"
	}
	for i := 1; i < len(smi); i++ {
		if smi[i-1] >= smi[i] {
			return false, "Corrupted signing member indices"
		}
	}
	return true, ""
}

// EcdsaDkgValidator.validateSignatures; getIDOperators is the sortition pool's
// id -> operator address mapping.
func c40ValidateSignatures(r *c40Result, startBlock, chainID *big.Int, getIDOperator func(uint32) common.Address) bool {
	hash := c40EthSigned(c40Keccak(c40EncodeResultPreimage(chainID, r.groupPubKey, r.misbehavedMembersIndices, startBlock)))
	addrs := make([]common.Address, len(r.signingMembersIndices))
	for i, idx := range r.signingMembersIndices {
		if idx < 1 || int(idx) > len(r.members) {
			return false // array access out of bounds reverts
		}
		addrs[i] = getIDOperator(r.members[idx-1])
	}
	signaturesCount := len(r.signatures) / c40SignatureByteSize
	for i := 0; i < signaturesCount; i++ {
		current := r.signatures[c40SignatureByteSize*i : c40SignatureByteSize*(i+1)]
		recovered := c40Recover(hash, current)
		if recovered == (common.Address{}) || addrs[i] != recovered {
			return false
		}
	}
	return true
}

// EcdsaDkgValidator.validateMembersHash
func c40ValidateMembersHash(r *c40Result) bool {
	enc := func(ids []uint32) [32]byte { // keccak256(abi.encode(uint32[]))
		var ws [][]byte
		for _, id := range ids {
			ws = append(ws, c40WordU(uint64(id)))
		}
		return c40Keccak(append(c40WordU(32), c40EncArray(ws)...))
	}
	mis := r.misbehavedMembersIndices
	if len(mis) > 0 {
		if len(r.members) < len(mis) {
			return false
		}
		groupMembers := make([]uint32, len(r.members)-len(mis))
		k, j := 0, 0
		for i := 0; i < len(r.members); i++ {
			if mis[k] == 0 {
				return false // uint8 underflow reverts
			}
			if i != int(mis[k])-1 {
				if j >= len(groupMembers) {
					return false // out of bounds reverts
				}
				groupMembers[j] = r.members[i]
				j++
			} else if k < len(mis)-1 {
				k++
			}
		}
		return enc(groupMembers) == r.membersHash
	}
	return enc(r.members) == r.membersHash
}

// EcdsaInactivity.verifyClaim's signed message hash (before toEthSignedMessageHash):
// keccak256(abi.encode(block.chainid, nonce, walletPubKey, claim.inactiveMembersIndices, claim.heartbeatFailed))
func c40ClaimHash(chainID, nonce *big.Int, walletPubKey []byte, inactive []uint64, heartbeatFailed bool) [32]byte {
	tailKey := c40EncBytes(walletPubKey)
	var ws [][]byte
	for _, m := range inactive {
		ws = append(ws, c40WordU(m))
	}
	tailArr := c40EncArray(ws)
	head := 5 * 32
	var out []byte
	out = append(out, c40Word(chainID)...)
	out = append(out, c40Word(nonce)...)
	out = append(out, c40WordU(uint64(head))...)
	out = append(out, c40WordU(uint64(head+len(tailKey)))...)
	hb := uint64(0)
	if heartbeatFailed {
		hb = 1
	}
	out = append(out, c40WordU(hb)...)
	out = append(out, tailKey...)
	out = append(out, tailArr...)
	return c40Keccak(out)
}

// Wallets: walletID = keccak256(publicKey) over the 64-byte X||Y key.
func c40WalletID(x, y *big.Int) [32]byte {
	return c40Keccak(append(c40Word(x), c40Word(y)...))
}

// =====================================================================================
// Client side
// =====================================================================================

func c40Key(k int64) *ecdsa.PrivateKey {
	priv, err := crypto.ToECDSA(c40Word(big.NewInt(k)))
	if err != nil {
		panic(err)
	}
	return priv
}

type c40Case struct {
	Leg        string  `json:"leg"`
	Mis        []uint8 `json:"misbehaved"`
	Supporters string  `json:"supporters"` // "first51" | "gaps51" | "first90" | "all"
	IDs        string  `json:"ids"`        // "distinct" | "pairs" | "same" | "few"
	Key        int64   `json:"key"`        // group key scalar
	ChainID    string  `json:"chain_id"`
	Start      uint64  `json:"start_block"`
	Shuffle    int     `json:"shuffle"` // input order of the misbehaved / operating lists
}

func (c c40Case) String() string {
	return fmt.Sprintf("mis=%v supporters=%s ids=%s key=%d chain=%s start=%d shuffle=%d", c.Mis, c.Supporters, c.IDs, c.Key, c.ChainID, c.Start, c.Shuffle)
}

func c40IDs(kind string) chain.OperatorIDs {
	ids := make(chain.OperatorIDs, c40GroupSize)
	for i := range ids {
		switch kind {
		case "distinct":
			ids[i] = chain.OperatorID(5000 - 7*i)
		case "pairs":
			ids[i] = chain.OperatorID(10 + i/2)
		case "same":
			ids[i] = 42
		case "few":
			ids[i] = chain.OperatorID(1 + (i*i)%7)
		}
	}
	return ids
}

func c40Operator(id uint32) *ecdsa.PrivateKey { return c40Key(int64(100000 + id)) }

var (
	c40SigMu    sync.Mutex
	c40SigCache = map[string][]byte{}
)

func c40Sign(id uint32, hash []byte) ([]byte, error) {
	k := fmt.Sprintf("%d|%x", id, hash)
	c40SigMu.Lock()
	s, ok := c40SigCache[k]
	c40SigMu.Unlock()
	if ok {
		return append([]byte{}, s...), nil
	}
	sig, err := newSigner(&keystore.Key{PrivateKey: c40Operator(id)}).Sign(hash)
	if err != nil {
		return nil, err
	}
	c40SigMu.Lock()
	c40SigCache[k] = sig
	c40SigMu.Unlock()
	return append([]byte{}, sig...), nil
}

func c40Permute(in []group.MemberIndex, mode int) []group.MemberIndex {
	out := append([]group.MemberIndex{}, in...)
	switch mode {
	case 1: // descending
		sort.Slice(out, func(i, j int) bool { return out[i] > out[j] })
	case 2: // rotate
		if len(out) > 1 {
			out = append(out[1:], out[0])
		}
	}
	return out
}

func c40RunDKG(r *vrep.R, c c40Case) {
	r.Eval(1)
	chainID, _ := new(big.Int).SetString(c.ChainID, 10)
	tc := &TbtcChain{baseChain: &baseChain{chainID: chainID}}
	gk := &c40Key(c.Key).PublicKey
	ids := c40IDs(c.IDs)
	isMis := map[uint8]bool{}
	for _, m := range c.Mis {
		isMis[m] = true
	}
	var operating, misbehaved []group.MemberIndex
	for i := 1; i <= c40GroupSize; i++ {
		if isMis[uint8(i)] {
			misbehaved = append(misbehaved, group.MemberIndex(i))
		} else {
			operating = append(operating, group.MemberIndex(i))
		}
	}
	var supporters []group.MemberIndex
	switch c.Supporters {
	case "first51":
		supporters = operating[:51]
	case "first90":
		supporters = operating[:90]
	case "all":
		supporters = operating
	case "gaps51":
		// from the top, skipping every third operating member
		for i := len(operating) - 1; i >= 0 && len(supporters) < 51; i-- {
			if i%3 != 0 {
				supporters = append(supporters, operating[i])
			}
		}
	}
	fp := "dkg " + c.String()
	size := len(c.Mis)*1000 + len(supporters)
	fail := func(kind, what string) {
		r.ViolationMin("dkg-"+kind, size, fp, what+" ["+c.String()+"]", c)
	}
	// what every supporter signs
	hash, err := tc.CalculateDKGResultSignatureHash(gk, c40Permute(misbehaved, c.Shuffle), c.Start)
	if err != nil {
		fail("client-error", "CalculateDKGResultSignatureHash: "+err.Error())
		return
	}
	sigs := map[group.MemberIndex][]byte{}
	for _, s := range supporters {
		sig, err := c40Sign(uint32(ids[s-1]), hash[:])
		if err != nil {
			fail("client-error", "Sign: "+err.Error())
			return
		}
		sigs[s] = sig
	}
	res, err := tc.AssembleDKGResult(supporters[0], gk, c40Permute(operating, c.Shuffle), c40Permute(misbehaved, c.Shuffle), sigs, &tbtc.GroupSelectionResult{OperatorsIDs: ids})
	if err != nil {
		fail("client-error", "AssembleDKGResult: "+err.Error())
		return
	}
	// what goes over the wire (convertDkgResultToAbiType keeps the values)
	ref := &c40Result{
		submitterMemberIndex: uint64(res.SubmitterMemberIndex),
		groupPubKey:          res.GroupPublicKey,
		signatures:           res.Signatures,
		membersHash:          res.MembersHash,
	}
	for _, m := range res.MisbehavedMembersIndexes {
		ref.misbehavedMembersIndices = append(ref.misbehavedMembersIndices, uint8(m))
	}
	for _, m := range res.SigningMembersIndexes {
		ref.signingMembersIndices = append(ref.signingMembersIndices, uint64(m))
	}
	for _, id := range res.Members {
		ref.members = append(ref.members, uint32(id))
	}
	tooMany := len(c.Mis) > c40GroupSize-c40ActiveThreshold
	ok, msg := c40ValidateFields(ref)
	if tooMany {
		// outside the quantifier (the quorum is not met); the reject path of the reference
		r.Outcome("fields-rejected: " + msg)
		if ok {
			fail("reference-accepts-below-quorum", "the reference accepted a result with more misbehaving members than the contract allows")
		}
		return
	}
	if !ok {
		fail("fields", "the contract's validateFields rejects the assembled result: "+msg)
		return
	}
	if !bytes.Equal(ref.groupPubKey, append(c40Word(gk.X), c40Word(gk.Y)...)) {
		fail("group-key", "group public key bytes are not X||Y padded to 32 bytes each")
	}
	if !c40ValidateMembersHash(ref) {
		fail("members-hash", "the contract's validateMembersHash rejects the assembled result")
		return
	}
	getOp := func(id uint32) common.Address { return crypto.PubkeyToAddress(c40Operator(id).PublicKey) }
	if !c40ValidateSignatures(ref, new(big.Int).SetUint64(c.Start), chainID, getOp) {
		fail("signatures", "the contract's validateSignatures rejects the assembled result (a signature does not recover to the signer at its position under the contract's message hash)")
		return
	}
	r.Outcome("dkg-accepted")
	if len(c.Mis) > 0 {
		r.Distinct("dkg|" + c.String())
	}
}

type c40ClaimCase struct {
	Leg       string  `json:"leg"`
	Key       int64   `json:"key"`
	Inactive  []uint8 `json:"inactive"`
	Heartbeat bool    `json:"heartbeat_failed"`
	Nonce     string  `json:"nonce"`
	ChainID   string  `json:"chain_id"`
}

var (
	c40ChainsMu sync.Mutex
	c40Chains   = map[string]*TbtcChain{}
)

func c40RunClaim(r *vrep.R, c c40ClaimCase) {
	r.Eval(1)
	chainID, _ := new(big.Int).SetString(c.ChainID, 10)
	nonce, _ := new(big.Int).SetString(c.Nonce, 10)
	// one chain handle per chain id for the whole run, as a node has: claims for the same
	// wallet and nonce but another inactive set / flag are hashed by the same object
	c40ChainsMu.Lock()
	tc := c40Chains[c.ChainID]
	if tc == nil {
		tc = &TbtcChain{baseChain: &baseChain{chainID: chainID}}
		c40Chains[c.ChainID] = tc
	}
	c40ChainsMu.Unlock()
	pk := &c40Key(c.Key).PublicKey
	var inactive []group.MemberIndex
	var ref []uint64
	for _, m := range c.Inactive {
		inactive = append(inactive, group.MemberIndex(m))
	}
	claim := inactivity.NewClaimPreimage(nonce, pk, inactive, c.Heartbeat)
	for _, m := range claim.InactiveMembersIndexes {
		ref = append(ref, uint64(m))
	}
	got, err := tc.CalculateInactivityClaimHash(claim)
	fp := fmt.Sprintf("claim key=%d inactive=%v hb=%v nonce=%s chain=%s", c.Key, c.Inactive, c.Heartbeat, c.Nonce, c.ChainID)
	if err != nil {
		r.ViolationMin("claim-client-error", len(c.Inactive), fp, "CalculateInactivityClaimHash: "+err.Error(), c)
		return
	}
	want := c40ClaimHash(chainID, nonce, append(c40Word(pk.X), c40Word(pk.Y)...), ref, c.Heartbeat)
	if [32]byte(got) != want {
		r.ViolationMin("claim-hash", len(c.Inactive), fp, fmt.Sprintf("inactivity claim hash %x differs from the contract's keccak256(abi.encode(chainid, nonce, walletPubKey, inactiveMembersIndices, heartbeatFailed)) = %x", got, want), c)
	}
	// the signature made by the client must recover under the contract's prefixed hash
	sig, err := newSigner(&keystore.Key{PrivateKey: c40Operator(7)}).Sign(got[:])
	if err != nil || c40Recover(c40EthSigned(want), sig) != crypto.PubkeyToAddress(c40Operator(7).PublicKey) {
		r.ViolationMin("claim-signature", len(c.Inactive), fp, "a client signature over the claim hash does not recover to the signer under the contract's message hash", c)
	}
	r.Outcome("claim-hash-equal")
	r.Distinct(fp)
}

type c40WalletCase struct {
	Leg string `json:"leg"`
	Key int64  `json:"key"`
}

func c40RunWallet(r *vrep.R, c c40WalletCase) {
	r.Eval(1)
	tc := &TbtcChain{baseChain: &baseChain{chainID: big.NewInt(1)}}
	pk := &c40Key(c.Key).PublicKey
	got, err := tc.CalculateWalletID(pk)
	fp := fmt.Sprintf("wallet-id key=%d", c.Key)
	if err != nil {
		r.ViolationMin("wallet-id-error", int(c.Key), fp, err.Error(), c)
		return
	}
	if got != c40WalletID(pk.X, pk.Y) {
		r.ViolationMin("wallet-id", int(c.Key), fp, fmt.Sprintf("wallet ID %x differs from keccak256(X||Y)", got), c)
	}
	short := len(pk.X.Bytes()) < 32 || len(pk.Y.Bytes()) < 32
	r.Outcome(fmt.Sprintf("wallet-id-equal short-coordinate=%v", short))
	r.Distinct(fp)
}

func c40Subsets(base []uint8, max int) [][]uint8 {
	out := [][]uint8{{}}
	for i := range base {
		out = append(out, []uint8{base[i]})
		if max >= 2 {
			for j := i + 1; j < len(base); j++ {
				out = append(out, []uint8{base[i], base[j]})
			}
		}
	}
	return out
}

func c40Range(a, b int) []uint8 {
	var out []uint8
	for i := a; i <= b; i++ {
		out = append(out, uint8(i))
	}
	return out
}

func TestVerifC40(t *testing.T) {
	r := vrep.Start(t, "C40", "rules")
	defer r.Finish()
	if rd := r.ReplayData(); rd != nil {
		var probe struct {
			Leg string `json:"leg"`
		}
		if json.Unmarshal(rd, &probe) != nil {
			return
		}
		switch probe.Leg {
		case "dkg":
			var c c40Case
			json.Unmarshal(rd, &c)
			c40RunDKG(r, c)
		case "claim":
			var c c40ClaimCase
			json.Unmarshal(rd, &c)
			c40RunClaim(r, c)
		case "wallet":
			var c c40WalletCase
			json.Unmarshal(rd, &c)
			c40RunWallet(r, c)
		}
		return
	}
	// the reference is only as good as the Solidity text it was transcribed from
	wd, _ := os.Getwd()
	root := filepath.Join(wd, "..", "..", "..")
	stale := []string{}
	for rel, want := range c40Pins {
		b, err := os.ReadFile(filepath.Join(root, rel))
		sum := sha256.Sum256(b)
		if err != nil || hex.EncodeToString(sum[:]) != want {
			stale = append(stale, rel)
		}
	}
	sort.Strings(stale)
	if len(stale) > 0 {
		r.Set("reference_stale", stale)
		t.Logf("reference_stale: %v changed since the transcription was made", stale)
	} else {
		r.Set("reference_stale", "no")
	}

	// keys: two ordinary ones plus scalars whose X or Y coordinate has a leading zero byte
	keys := []int64{3, 1000003}
	var short []int64
	for k := int64(1); k < 4000 && len(short) < 4; k++ {
		pk := c40Key(k).PublicKey
		if len(pk.X.Bytes()) < 32 || len(pk.Y.Bytes()) < 32 {
			short = append(short, k)
		}
	}
	r.Set("short_coordinate_keys", fmt.Sprint(short))

	misSets := c40Subsets([]uint8{1, 2, 50, 99, 100}, 2)
	misSets = append(misSets, c40Range(1, 9), c40Range(92, 100), c40Range(1, 10), c40Range(91, 100),
		[]uint8{1, 2, 3, 50, 51, 52, 98, 99, 100}, []uint8{1, 3, 5, 7, 9, 92, 94, 96, 98, 100},
		c40Range(1, 11), c40Range(90, 100))
	supporters := []string{"first51", "gaps51", "first90", "all"}
	idKinds := []string{"distinct", "pairs", "few"}
	chainIDs := []string{"1", "18446744073709551615"}
	starts := []uint64{0, 1 << 32}
	dkgKeys := []int64{3}
	shuffles := []int{0, 1}
	if len(short) > 0 {
		dkgKeys = append(dkgKeys, short[0])
	}
	if r.Thorough() {
		idKinds = []string{"distinct", "pairs", "same", "few"}
		starts = []uint64{0, 1, 1 << 32, 1<<63 - 1}
		dkgKeys = append(keys, short...)
		shuffles = []int{0, 1, 2}
	}
	var cases []c40Case
	for _, mis := range misSets {
		for _, sup := range supporters {
			if sup == "first90" && c40GroupSize-len(mis) < 90 {
				continue
			}
			for _, idk := range idKinds {
				for _, k := range dkgKeys {
					for _, cid := range chainIDs {
						for _, st := range starts {
							for _, sh := range shuffles {
								if !r.Thorough() && (sh != 0) != (idk == "few") {
									continue // quick: the shuffled inputs only with one id list
								}
								cases = append(cases, c40Case{"dkg", mis, sup, idk, k, cid, st, sh})
							}
						}
					}
				}
			}
		}
	}
	r.Set("dkg_cases", len(cases))
	r.Sample(cases[len(cases)/2])
	vrep.Parallel(vrep.Workers(), len(cases), func(i int) {
		if !r.Expired() {
			c40RunDKG(r, cases[i])
		}
	})

	// inactivity claims
	inactiveSets := [][]uint8{{1}, {100}, {1, 2}, {2, 1}, {1, 100}, {50, 51, 52}, c40Range(1, 49), {3, 3, 4}}
	nonces := []string{"0", "1", "255", "256", "115792089237316195423570985008687907853269984665640564039457584007913129639935"}
	var claims []c40ClaimCase
	for _, k := range append(append([]int64{}, keys...), short...) {
		for _, in := range inactiveSets {
			for _, hb := range []bool{false, true} {
				for _, n := range nonces {
					for _, cid := range chainIDs {
						claims = append(claims, c40ClaimCase{"claim", k, in, hb, n, cid})
					}
				}
			}
		}
	}
	r.Set("claim_cases", len(claims))
	vrep.Parallel(vrep.Workers(), len(claims), func(i int) { c40RunClaim(r, claims[i]) })

	// wallet ids
	walletKeys := append(append([]int64{1, 2}, keys...), short...)
	limit := int64(300)
	if r.Thorough() {
		limit = 4000
	}
	for k := int64(4); k < limit; k++ {
		walletKeys = append(walletKeys, k)
	}
	for _, k := range walletKeys {
		c40RunWallet(r, c40WalletCase{"wallet", k})
	}
	if r.Expired() {
		r.Cap("deadline")
	}
}
