//go:build verif

package bitcoin

import (
	"bytes"
	"crypto/sha256"
	"encoding/binary"
	"encoding/hex"
	"encoding/json"
	"fmt"
	"math/big"
	"strings"
	"sync"
	"testing"

	"github.com/keep-network/keep-core/pkg/verifshim/venum"
	"github.com/keep-network/keep-core/pkg/verifshim/vrep"
)

// ---------------------------------------------------------------------------------
// Harness blockchain: real transactions, real Merkle trees (double SHA-256, last node
// duplicated on odd levels), real 80-byte headers linked by previous-header hash and
// carrying regtest-style proof of work. Nothing here uses the code under test except
// the plain data types and Transaction.Serialize.
// ---------------------------------------------------------------------------------

func c31DSha(b []byte) [32]byte {
	a := sha256.Sum256(b)
	return sha256.Sum256(a[:])
}

type c31Block struct {
	height uint
	txs    []*Transaction
	txids  [][32]byte // internal byte order
	header BlockHeader
	raw    [80]byte
	hash   [32]byte
}

type c31Blockchain struct {
	base   uint
	blocks []*c31Block      // blocks[i] has height base+i
	where  map[[32]byte]int // txid -> block index
}

const (
	c31Base     = 1000
	c31TxOffset = 3 // the transaction under test is in block base+3
	c31Blocks   = 24
	c31Bits     = 0x207fffff
)

func c31Target(bits uint32) *big.Int {
	exp := uint(bits >> 24)
	mant := big.NewInt(int64(bits & 0x7fffff))
	if exp <= 3 {
		return mant.Rsh(mant, 8*(3-exp))
	}
	return mant.Lsh(mant, 8*(exp-3))
}

func c31LEValue(h [32]byte) *big.Int {
	var be [32]byte
	for i := range h {
		be[31-i] = h[i]
	}
	return new(big.Int).SetBytes(be[:])
}

func c31MakeTx(height uint, index, n int) *Transaction {
	t := &Transaction{Version: 2}
	if index == 0 {
		// coinbase (with witness commitment style witness, so that the witness and the
		// standard serialisations differ)
		hb := make([]byte, 4)
		binary.LittleEndian.PutUint32(hb, uint32(height))
		t.Inputs = []*TransactionInput{{
			Outpoint:        &TransactionOutpoint{OutputIndex: 0xffffffff},
			SignatureScript: append([]byte{0x03}, hb[:3]...),
			Witness:         [][]byte{make([]byte, 32)},
			Sequence:        0xffffffff,
		}}
		t.Outputs = []*TransactionOutput{{Value: 625000000 + int64(n), PublicKeyScript: Script{0x51}}}
		return t
	}
	var prev Hash
	prev[0], prev[1], prev[2], prev[3] = byte(height), byte(height>>8), byte(index), 0x31
	t.Inputs = []*TransactionInput{{
		Outpoint: &TransactionOutpoint{TransactionHash: prev, OutputIndex: uint32(index)},
		Witness:  [][]byte{{0x30, byte(index)}, {0x02, byte(height)}},
		Sequence: 0xffffffff,
	}}
	t.Outputs = []*TransactionOutput{{Value: int64(1000*index) + int64(height), PublicKeyScript: Script{0x00, 0x14, byte(index), 1, 2, 3, 4, 5, 6, 7, 8, 9, 10, 11, 12, 13, 14, 15, 16, 17, 18, 19}}}
	return t
}

// c31MerkleLevels returns all levels of the tree, leaves first.
func c31MerkleLevels(leaves [][32]byte) [][][32]byte {
	levels := [][][32]byte{leaves}
	cur := leaves
	for len(cur) > 1 {
		var next [][32]byte
		for i := 0; i < len(cur); i += 2 {
			l := cur[i]
			r := l
			if i+1 < len(cur) {
				r = cur[i+1]
			}
			next = append(next, c31DSha(append(append([]byte{}, l[:]...), r[:]...)))
		}
		levels = append(levels, next)
		cur = next
	}
	return levels
}

// c31Branch returns the sibling path of leaf pos (deepest first).
func c31Branch(leaves [][32]byte, pos int) [][32]byte {
	var br [][32]byte
	levels := c31MerkleLevels(leaves)
	for _, lv := range levels[:len(levels)-1] {
		sib := pos ^ 1
		if sib >= len(lv) {
			sib = pos // duplicated last node
		}
		br = append(br, lv[sib])
		pos >>= 1
	}
	return br
}

// c31BuildChain builds the chain whose block base+c31TxOffset has nTx transactions;
// the other blocks have sizes that differ from it and from each other.
func c31BuildChain(nTx int) *c31Blockchain {
	bc := &c31Blockchain{base: c31Base, where: map[[32]byte]int{}}
	var prevHash [32]byte
	prevHash[0] = 0x99
	for i := 0; i < c31Blocks; i++ {
		h := uint(c31Base + i)
		n := nTx
		if i != c31TxOffset {
			n = (i*5+nTx+2)%8 + 1
			if i == c31TxOffset+1 || i == c31TxOffset+2 {
				// the successors have a different tree depth whenever possible, so that a
				// proof taken from the wrong block is never accidentally well-formed
				n = (nTx+3)%8 + 1
				if i == c31TxOffset+2 {
					n = (nTx*2+1)%8 + 1
				}
			}
		}
		b := &c31Block{height: h}
		for k := 0; k < n; k++ {
			tx := c31MakeTx(h, k, n)
			id := c31DSha(tx.Serialize(Standard))
			if k%2 == 1 && i >= c31TxOffset && i <= c31TxOffset+2 {
				// odd-indexed transactions of the blocks a proof can touch get a txid whose
				// display form starts with a zero byte (common for real hashes, and a
				// classic source of dropped-leading-zero bugs in hex/number conversions)
				for id[31] != 0 {
					tx.Locktime++
					id = c31DSha(tx.Serialize(Standard))
				}
			}
			b.txs = append(b.txs, tx)
			b.txids = append(b.txids, id)
			if _, dup := bc.where[id]; dup {
				panic("c31: duplicate txid in harness chain")
			}
			bc.where[id] = i
		}
		levels := c31MerkleLevels(b.txids)
		root := levels[len(levels)-1][0]
		b.header = BlockHeader{
			Version:                 0x20000000,
			PreviousBlockHeaderHash: Hash(prevHash),
			MerkleRootHash:          Hash(root),
			Time:                    1700000000 + uint32(i)*600,
			Bits:                    c31Bits,
		}
		target := c31Target(c31Bits)
		for nonce := uint32(0); ; nonce++ {
			b.header.Nonce = nonce
			raw := c31SerializeHeader(&b.header)
			hh := c31DSha(raw[:])
			if c31LEValue(hh).Cmp(target) <= 0 {
				b.raw, b.hash = raw, hh
				break
			}
		}
		prevHash = b.hash
		bc.blocks = append(bc.blocks, b)
	}
	return bc
}

// c31SerializeHeader is the harness' own header serialisation (Bitcoin wire format).
func c31SerializeHeader(h *BlockHeader) [80]byte {
	var out [80]byte
	binary.LittleEndian.PutUint32(out[0:], uint32(h.Version))
	copy(out[4:36], h.PreviousBlockHeaderHash[:])
	copy(out[36:68], h.MerkleRootHash[:])
	binary.LittleEndian.PutUint32(out[68:], h.Time)
	binary.LittleEndian.PutUint32(out[72:], h.Bits)
	binary.LittleEndian.PutUint32(out[76:], h.Nonce)
	return out
}

// ---- the chain as seen through bitcoin.Chain (answers like an Electrum server) ----

type c31Server struct {
	Chain // unimplemented methods panic
	bc      *c31Blockchain
	tip     uint
	c       *venum.C
	maxGrow int
	lenient bool // probe only: Merkle query ignores the height argument
	queries int
	grown   int
	failed  int
	tips    []uint // tip seen by each query (state trace)
	names   []string
}

// step is called at the start of every query: the environment may mine blocks first.
func (s *c31Server) step(name string) error {
	g := s.c.Deviate(s.maxGrow+2, fmt.Sprintf("mine@q%d", s.queries))
	if g == s.maxGrow+1 {
		// the last alternative: no block is mined but this one request fails (a transient
		// server / connection error); the next request works again
		s.queries++
		s.tips = append(s.tips, s.tip)
		s.names = append(s.names, name+":failed")
		s.failed++
		return fmt.Errorf("transient failure of the %s request", name)
	}
	if int(s.tip)+g > c31Base+c31Blocks-1 {
		panic("c31: harness chain too short")
	}
	s.tip += uint(g)
	s.grown += g
	s.queries++
	s.tips = append(s.tips, s.tip)
	s.names = append(s.names, name)
	return nil
}

func (s *c31Server) block(height uint) *c31Block {
	if height < s.bc.base || height > s.tip {
		return nil
	}
	return s.bc.blocks[height-s.bc.base]
}

func (s *c31Server) find(h Hash) (*c31Block, int) {
	i, ok := s.bc.where[[32]byte(h)]
	if !ok {
		return nil, 0
	}
	b := s.bc.blocks[i]
	if b.height > s.tip {
		return nil, 0
	}
	for k, id := range b.txids {
		if id == [32]byte(h) {
			return b, k
		}
	}
	return nil, 0
}

func (s *c31Server) GetTransactionConfirmations(h Hash) (uint, error) {
	if err := s.step("confirmations"); err != nil {
		return 0, err
	}
	b, _ := s.find(h)
	if b == nil {
		return 0, fmt.Errorf("transaction not found")
	}
	return s.tip - b.height + 1, nil
}

func (s *c31Server) GetTransaction(h Hash) (*Transaction, error) {
	if err := s.step("transaction"); err != nil {
		return nil, err
	}
	b, k := s.find(h)
	if b == nil {
		return nil, fmt.Errorf("transaction not found")
	}
	return b.txs[k], nil
}

func (s *c31Server) GetLatestBlockHeight() (uint, error) {
	if err := s.step("height"); err != nil {
		return 0, err
	}
	return s.tip, nil
}

func (s *c31Server) GetBlockHeader(height uint) (*BlockHeader, error) {
	if err := s.step("header"); err != nil {
		return nil, err
	}
	b := s.block(height)
	if b == nil {
		return nil, fmt.Errorf("header at height %d not found", height)
	}
	hd := b.header
	return &hd, nil
}

func (s *c31Server) GetTransactionMerkleProof(h Hash, height uint) (*TransactionMerkleProof, error) {
	if err := s.step("merkle"); err != nil {
		return nil, err
	}
	b := s.block(height)
	pos := -1
	if b != nil {
		for k, id := range b.txids {
			if id == [32]byte(h) {
				pos = k
			}
		}
	}
	if pos < 0 && s.lenient {
		if bb, k := s.find(h); bb != nil {
			b, pos = bb, k
		}
	}
	if pos < 0 {
		return nil, fmt.Errorf("tx %x not in block at height %d", h[:4], height)
	}
	var nodes []string
	for _, n := range c31Branch(b.txids, pos) {
		// Electrum renders hashes in the reversed (display) byte order
		var rev [32]byte
		for i := range n {
			rev[31-i] = n[i]
		}
		nodes = append(nodes, hex.EncodeToString(rev[:]))
	}
	return &TransactionMerkleProof{BlockHeight: b.height, MerkleNodes: nodes, Position: uint(pos)}, nil
}

func (s *c31Server) GetCoinbaseTxHash(height uint) (Hash, error) {
	if err := s.step("coinbase-hash"); err != nil {
		return Hash{}, err
	}
	b := s.block(height)
	if b == nil {
		return Hash{}, fmt.Errorf("no block at height %d", height)
	}
	return Hash(b.txids[0]), nil
}

// ---- independent SPV verifier (what the Bridge checks, minus relay difficulty) ----

func c31Prove(leaf, root [32]byte, proof []byte, index uint) string {
	if len(proof)%32 != 0 {
		return fmt.Sprintf("Merkle proof length %d is not a multiple of 32", len(proof))
	}
	cur := leaf
	idx := index
	for off := 0; off < len(proof); off += 32 {
		node := proof[off : off+32]
		if idx%2 == 1 {
			cur = c31DSha(append(append([]byte{}, node...), cur[:]...))
		} else {
			cur = c31DSha(append(append([]byte{}, cur[:]...), node...))
		}
		idx >>= 1
	}
	if idx != 0 {
		return fmt.Sprintf("index %d does not fit a tree of depth %d", index, len(proof)/32)
	}
	if cur != root {
		return "Merkle path does not lead to the Merkle root of the first header"
	}
	return ""
}

// c31Verify returns "" when the proof is acceptable, else (rule, explanation).
func c31Verify(wantTx Hash, required uint, tx *Transaction, p *SpvProof) (rule, why string) {
	if tx == nil || p == nil {
		return "nil-result", "no error but nil transaction or proof"
	}
	txid := c31DSha(tx.Serialize(Standard))
	if Hash(txid) != wantTx {
		return "wrong-transaction", "returned transaction is not the requested one"
	}
	if len(p.BitcoinHeaders) != int(required)*80 {
		return "header-count", fmt.Sprintf("%d bytes of headers = %d headers, required %d", len(p.BitcoinHeaders), len(p.BitcoinHeaders)/80, required)
	}
	if required == 0 {
		return "header-count", "no headers"
	}
	var root [32]byte
	copy(root[:], p.BitcoinHeaders[36:68])
	if why := c31Prove(txid, root, p.MerkleProof, p.TxIndexInBlock); why != "" {
		return "tx-merkle", why
	}
	cb := sha256.Sum256(p.CoinbasePreimage[:])
	if why := c31Prove(cb, root, p.CoinbaseProof, 0); why != "" {
		return "coinbase-merkle", "coinbase: " + why
	}
	if len(p.CoinbaseProof) != len(p.MerkleProof) {
		return "coinbase-level", fmt.Sprintf("coinbase proof has %d nodes, transaction proof %d (not the same tree level)", len(p.CoinbaseProof)/32, len(p.MerkleProof)/32)
	}
	for i := 0; i < int(required); i++ {
		hd := p.BitcoinHeaders[i*80 : (i+1)*80]
		digest := c31DSha(hd)
		bits := binary.LittleEndian.Uint32(hd[72:76])
		if c31LEValue(digest).Cmp(c31Target(bits)) > 0 {
			return "header-work", fmt.Sprintf("header %d does not meet its target", i)
		}
		if i > 0 {
			prev := c31DSha(p.BitcoinHeaders[(i-1)*80 : i*80])
			if !bytes.Equal(hd[4:36], prev[:]) {
				return "header-link", fmt.Sprintf("header %d does not point to header %d", i, i-1)
			}
		}
	}
	return "", ""
}

// ---- scenarios ------------------------------------------------------------------

type c31Scenario struct {
	TxCount  int  `json:"block_tx_count"`
	Position int  `json:"tx_position"`
	Required uint `json:"required_confirmations"`
	Extra    int  `json:"confirmations_minus_required"` // at the first query
	MaxGrow  int  `json:"max_blocks_per_growth"`
	Lenient  bool `json:"lenient_server,omitempty"`
}

type c31Replay struct {
	Scenario c31Scenario `json:"scenario"`
	Script   []int       `json:"script"`
	Bound    int         `json:"bound"`
}

var (
	c31ChainMu sync.Mutex
	c31Chains  = map[int]*c31Blockchain{}
)

func c31ChainFor(n int) *c31Blockchain {
	c31ChainMu.Lock()
	defer c31ChainMu.Unlock()
	if bc, ok := c31Chains[n]; ok {
		return bc
	}
	bc := c31BuildChain(n)
	c31Chains[n] = bc
	return bc
}

type c31Flush struct {
	states   []string
	trans    int
	outcome  string
	distinct string
}

// c31Body is one execution: fresh server state over the immutable chain.
func c31Body(r *vrep.R, sc c31Scenario, bound int, fl *c31Flush) func(c *venum.C) {
	bc := c31ChainFor(sc.TxCount)
	txBlock := bc.blocks[c31TxOffset]
	want := Hash(txBlock.txids[sc.Position])
	return func(c *venum.C) {
		conf := int(sc.Required) + sc.Extra
		srv := &c31Server{bc: bc, c: c, maxGrow: sc.MaxGrow, lenient: sc.Lenient}
		if conf >= 1 {
			srv.tip = txBlock.height + uint(conf) - 1
		} else {
			srv.tip = txBlock.height - 1 // not mined yet
		}
		var (
			tx    *Transaction
			proof *SpvProof
			err   error
		)
		p, stack := vrep.Guard(func() {
			tx, proof, err = AssembleSpvProof(want, sc.Required, srv)
		})
		// observable state after every query: (query number, query kind, tip)
		if fl != nil {
			for i, tip := range srv.tips {
				fl.states = append(fl.states, fmt.Sprintf("n%d p%d r%d e%d|q%d %s tip+%d", sc.TxCount, sc.Position, sc.Required, sc.Extra, i, srv.names[i], int(tip)-int(txBlock.height)))
			}
			fl.trans += srv.queries
			if srv.grown > 0 || sc.TxCount >= 2 {
				fl.distinct = fmt.Sprintf("%+v|%v", sc, c.Script())
			}
		}
		fp := fmt.Sprintf("txs=%d pos=%d required=%d conf0=%d %s", sc.TxCount, sc.Position, sc.Required, conf, c.Trace())
		size := len(c.Script())*100 + sc.TxCount*10 + int(sc.Required)
		rp := c31Replay{sc, c.Script(), bound}
		report := func(kind, what string) {
			if sc.Lenient {
				return // probe runs are measured, not judged
			}
			r.ViolationMin(kind, size, fp, what, rp)
		}
		outcome := ""
		switch {
		case p != nil:
			if ps, isStr := p.(string); isStr && (strings.HasPrefix(ps, "c31:") || strings.HasPrefix(ps, "venum:")) {
				panic(p) // harness failure, not a property violation
			}
			outcome = "panic"
			report("panic", fmt.Sprintf("AssembleSpvProof panicked: %v\n%s", p, stack))
		case err != nil:
			switch {
			case strings.Contains(err.Error(), "is not enough"):
				outcome = "error:not-enough-confirmations"
			case strings.Contains(err.Error(), "not in block"):
				outcome = "error:merkle-query-at-wrong-height"
			case strings.Contains(err.Error(), "not found"):
				outcome = "error:not-found"
			default:
				outcome = "error:other"
			}
		default:
			rule, why := c31Verify(want, sc.Required, tx, proof)
			if rule == "" {
				// anchor: the first header must be the header of the transaction's block,
				// and the stated index the transaction's real position
				if !bytes.Equal(proof.BitcoinHeaders[:80], txBlock.raw[:]) {
					rule, why = "first-header", "the first header is not the header of the transaction's block"
				} else if proof.TxIndexInBlock != uint(sc.Position) {
					rule, why = "position", fmt.Sprintf("stated index %d, real position %d", proof.TxIndexInBlock, sc.Position)
				}
			}
			if rule == "" {
				outcome = "proof-verified"
			} else {
				outcome = "proof-rejected:" + rule
				report("unverifiable:"+rule, fmt.Sprintf("assembly returned a proof the independent verifier rejects: %s [queries: %s]", why, c31QueryTrace(srv, txBlock.height)))
			}
		}
		if fl != nil {
			fl.outcome = outcome
		}
	}
}

func c31QueryTrace(s *c31Server, txHeight uint) string {
	var b strings.Builder
	for i, n := range s.names {
		fmt.Fprintf(&b, "%s@tip+%d ", n, int(s.tips[i])-int(txHeight))
	}
	return b.String()
}

func TestVerifC31(t *testing.T) {
	r := vrep.Start(t, "C31", "assemble")
	defer r.Finish()
	if rd := r.ReplayData(); rd != nil {
		var rp c31Replay
		if json.Unmarshal(rd, &rp) == nil && rp.Scenario.TxCount > 0 {
			fl := &c31Flush{}
			venum.Replay(rp.Script, rp.Bound, c31Body(r, rp.Scenario, rp.Bound, fl))
			r.Eval(1)
			r.Outcome(fl.outcome)
		}
		return
	}

	// self-test of the oracle on every chain: the honest proof built by the harness
	// itself verifies, and each single corruption is rejected (an oracle that accepts
	// everything would make the check vacuous)
	for n := 1; n <= 8; n++ {
		if why := c31OracleSelfTest(c31ChainFor(n), n); why != "" {
			t.Fatalf("oracle self-test failed for %d txs: %s", n, why)
		}
	}

	bound, maxGrow := 2, 2
	extras := []int{-1, 0, 1, 3}
	requireds := []uint{1, 2, 3, 4, 5, 6}
	if r.Thorough() {
		bound = 3
	}
	var scenarios []c31Scenario
	for n := 1; n <= 8; n++ {
		for pos := 0; pos < n; pos++ {
			for _, req := range requireds {
				for _, ex := range extras {
					scenarios = append(scenarios, c31Scenario{n, pos, req, ex, maxGrow, false})
				}
			}
		}
	}
	r.Set("scenarios", len(scenarios))
	r.Set("max_growth_events", bound)
	r.Set("max_blocks_per_growth_event", maxGrow)
	r.Sample(map[string]any{"scenario": scenarios[len(scenarios)/2], "script": "mine@q2=1 (one block mined before the latest-height query)"})

	run := func(list []c31Scenario, judged bool) (rejected, runs int64) {
		var mu sync.Mutex
		vrep.Parallel(vrep.Workers(), len(list), func(i int) {
			if r.Expired() {
				return
			}
			sc := list[i]
			var all []*c31Flush
			cur := &c31Flush{}
			st := venum.Explore(venum.Options{Bound: bound, Stop: r.Expired}, func(c *venum.C) {
				cur = &c31Flush{}
				c31Body(r, sc, bound, cur)(c)
				all = append(all, cur)
			})
			if st.Stopped {
				r.Cap(fmt.Sprintf("scenario %+v not completed", sc))
			}
			rej := int64(0)
			for _, fl := range all {
				if strings.HasPrefix(fl.outcome, "proof-rejected") {
					rej++
				}
				if !judged {
					continue
				}
				for _, s := range fl.states {
					r.State(s)
				}
				r.Transition(fl.trans)
				r.Outcome(fl.outcome)
				if fl.distinct != "" {
					r.Distinct(fl.distinct)
				}
			}
			if judged {
				r.Eval(int(st.Runs))
			}
			mu.Lock()
			rejected += rej
			runs += int64(len(all))
			mu.Unlock()
		})
		return
	}
	run(scenarios, true)

	// Probe (measured, not judged; see NOTES.md): the same exploration against a server
	// that ignores the height argument of the Merkle query, as the repository's own
	// test chain does. Shows what the faithful server's error protects against.
	var probe []c31Scenario
	for _, sc := range scenarios {
		if sc.Extra >= 0 && sc.Required <= 2 {
			sc.Lenient = true
			probe = append(probe, sc)
		}
	}
	rej, probeRuns := run(probe, false)
	r.Set("probe.lenient_server_scenarios", len(probe))
	r.Set("probe.lenient_server_runs", probeRuns)
	r.Set("probe.lenient_server_unverifiable_proofs", rej)
}

// c31OracleSelfTest builds an honest proof for every position by hand and checks that
// the verifier accepts it and rejects single corruptions.
func c31OracleSelfTest(bc *c31Blockchain, n int) string {
	b := bc.blocks[c31TxOffset]
	for pos := 0; pos < n; pos++ {
		cat := func(nodes [][32]byte) []byte {
			var out []byte
			for _, x := range nodes {
				out = append(out, x[:]...)
			}
			return out
		}
		const req = 3
		var hdrs []byte
		for i := 0; i < req; i++ {
			hdrs = append(hdrs, bc.blocks[c31TxOffset+i].raw[:]...)
		}
		good := func() *SpvProof {
			return &SpvProof{
				MerkleProof:      cat(c31Branch(b.txids, pos)),
				TxIndexInBlock:   uint(pos),
				BitcoinHeaders:   append([]byte{}, hdrs...),
				CoinbasePreimage: sha256.Sum256(b.txs[0].Serialize(Standard)),
				CoinbaseProof:    cat(c31Branch(b.txids, 0)),
			}
		}
		want := Hash(b.txids[pos])
		if rule, why := c31Verify(want, req, b.txs[pos], good()); rule != "" {
			return fmt.Sprintf("honest proof for position %d rejected: %s %s", pos, rule, why)
		}
		bad := good()
		bad.BitcoinHeaders = append([]byte{}, hdrs[80:]...)
		bad.BitcoinHeaders = append(bad.BitcoinHeaders, bc.blocks[c31TxOffset+req].raw[:]...)
		if rule, _ := c31Verify(want, req, b.txs[pos], bad); rule == "" {
			return "headers starting one block late accepted"
		}
		if n > 1 {
			bad = good()
			bad.TxIndexInBlock = uint((pos + 1) % n)
			if rule, _ := c31Verify(want, req, b.txs[pos], bad); rule == "" {
				return "wrong index accepted"
			}
			bad = good()
			bad.MerkleProof[0] ^= 1
			if rule, _ := c31Verify(want, req, b.txs[pos], bad); rule == "" {
				return "corrupted Merkle node accepted"
			}
		}
		bad = good()
		bad.CoinbasePreimage[5] ^= 1
		if rule, _ := c31Verify(want, req, b.txs[pos], bad); rule == "" {
			return "wrong coinbase preimage accepted"
		}
		bad = good()
		bad.BitcoinHeaders[80+10] ^= 1
		if rule, _ := c31Verify(want, req, b.txs[pos], bad); rule == "" {
			return "broken header link accepted"
		}
	}
	return ""
}
