//go:build verif

package tbtc

// C28: for every deposit parameter tuple of the alphabet the real Deposit.Script() output
// is locked behind P2SH and P2WSH, and every (signing key, presented public key) pair over
// {wallet, refund, third} x spending-transaction locktime x input sequence x transaction
// version is executed by btcd's script interpreter (StandardVerifyFlags). The verdict must
// equal the statement: wallet key always; refund key only when the spending transaction's
// locktime has reached the refund locktime (same kind, input not final); nobody else.
// Spending transactions and signatures are made with btcd directly (txscript.RawTxIn*).

import (
	"bytes"
	"crypto/sha256"
	"encoding/binary"
	"encoding/hex"
	"encoding/json"
	"fmt"
	"math/big"
	"testing"

	"github.com/btcsuite/btcd/btcec"
	"github.com/btcsuite/btcd/chaincfg/chainhash"
	"github.com/btcsuite/btcd/txscript"
	"github.com/btcsuite/btcd/wire"
	"github.com/btcsuite/btcutil"

	"github.com/keep-network/keep-core/pkg/chain"
	"github.com/keep-network/keep-core/pkg/verifshim/vrep"
)

type c28Params struct {
	Depositor string `json:"depositor"`
	Blinding  string `json:"blinding"`        // 16 hex
	Extra     string `json:"extra,omitempty"` // "" = absent, else 64 hex
	Locktime  uint32 `json:"locktime"`        // little-endian into RefundLocktime
	SameKeys  bool   `json:"same_keys,omitempty"`
}

type c28Spend struct {
	Witness   bool   `json:"witness"`
	Signer    int    `json:"signer"`    // 0 wallet, 1 refund, 2 third
	Presented int    `json:"presented"` // public key pushed next to the signature
	TxLock    uint32 `json:"tx_locktime"`
	Sequence  uint32 `json:"sequence"`
	Version   int32  `json:"version"`
}

type c28Case struct {
	P c28Params `json:"params"`
	S c28Spend  `json:"spend"`
}

func (c c28Case) String() string {
	x := "-"
	if c.P.Extra != "" {
		x = c.P.Extra[:4]
	}
	return fmt.Sprintf("dep=%.6s.. blind=%.4s.. extra=%s lock=%#x same=%v | witness=%v signer=%d presented=%d txlock=%#x seq=%#x v=%d",
		c.P.Depositor, c.P.Blinding, x, c.P.Locktime, c.P.SameKeys, c.S.Witness, c.S.Signer, c.S.Presented, c.S.TxLock, c.S.Sequence, c.S.Version)
}

var c28Keys = func() []*btcec.PrivateKey {
	var ks []*btcec.PrivateKey
	for i := 0; i < 3; i++ {
		seed := sha256.Sum256([]byte(fmt.Sprintf("verif-c28-key-%d", i)))
		d := new(big.Int).SetBytes(seed[:])
		d.Mod(d, new(big.Int).Sub(btcec.S256().N, big.NewInt(1)))
		d.Add(d, big.NewInt(1))
		k, _ := btcec.PrivKeyFromBytes(btcec.S256(), d.FillBytes(make([]byte, 32)))
		ks = append(ks, k)
	}
	return ks
}()

func c28PKH(k *btcec.PrivateKey) (out [20]byte) {
	copy(out[:], btcutil.Hash160(k.PubKey().SerializeCompressed()))
	return
}

func (p c28Params) deposit() *Deposit {
	d := &Deposit{Depositor: chain.Address(p.Depositor)}
	b, _ := hex.DecodeString(p.Blinding)
	copy(d.BlindingFactor[:], b)
	d.WalletPublicKeyHash = c28PKH(c28Keys[0])
	d.RefundPublicKeyHash = c28PKH(c28Keys[1])
	if p.SameKeys {
		d.RefundPublicKeyHash = d.WalletPublicKeyHash
	}
	binary.LittleEndian.PutUint32(d.RefundLocktime[:], p.Locktime)
	if p.Extra != "" {
		var x [32]byte
		e, _ := hex.DecodeString(p.Extra)
		copy(x[:], e)
		d.ExtraData = &x
	}
	return d
}

// c28Model is the statement written out. lockBytes is the 4-byte little-endian refund
// locktime as it sits in the script.
func c28Model(p c28Params, s c28Spend) (accept bool, why string) {
	if s.Signer != s.Presented {
		return false, "signature not made by the presented key"
	}
	key := s.Presented
	if p.SameKeys && key == 1 {
		// the embedded refund key hash is the wallet's: the refund *key* matches nothing
		return false, "refund key does not hash to any embedded key hash"
	}
	switch key {
	case 0:
		return true, "wallet key"
	case 1:
		var lb [4]byte
		binary.LittleEndian.PutUint32(lb[:], p.Locktime)
		// script number: sign-magnitude, little endian
		if lb[3]&0x80 != 0 {
			return false, "refund locktime encodes a negative script number: refund branch unspendable"
		}
		if lb[3]&0x7f == 0 && lb[2]&0x80 == 0 {
			return false, "refund locktime is not minimally encoded: refund branch non-standard"
		}
		L := int64(p.Locktime)
		const threshold = 500000000
		if (L < threshold) != (int64(s.TxLock) < threshold) {
			return false, "locktime kinds differ"
		}
		if int64(s.TxLock) < L {
			return false, "refund locktime not reached"
		}
		if s.Sequence == 0xffffffff {
			return false, "input final: transaction locktime not enforced"
		}
		return true, "refund key after locktime"
	default:
		return false, "third key"
	}
}

// c28Execute builds the spend with btcd and runs the interpreter.
func c28Execute(script []byte, s c28Spend, flags txscript.ScriptFlags) error {
	const amount = int64(123456)
	var pk []byte
	if s.Witness {
		h := sha256.Sum256(script)
		pk = append([]byte{0x00, 0x20}, h[:]...)
	} else {
		pk = append(append([]byte{0xa9, 0x14}, btcutil.Hash160(script)...), 0x87)
	}
	tx := wire.NewMsgTx(s.Version)
	prev := chainhash.Hash{0xc2, 0x8c}
	tx.AddTxIn(&wire.TxIn{PreviousOutPoint: wire.OutPoint{Hash: prev, Index: 1}, Sequence: s.Sequence})
	tx.AddTxOut(wire.NewTxOut(amount-500, []byte{0x00, 0x14, 1, 2, 3, 4, 5, 6, 7, 8, 9, 10, 11, 12, 13, 14, 15, 16, 17, 18, 19, 20}))
	tx.LockTime = s.TxLock
	signer := c28Keys[s.Signer]
	pub := c28Keys[s.Presented].PubKey().SerializeCompressed()
	if s.Witness {
		sig, err := txscript.RawTxInWitnessSignature(tx, txscript.NewTxSigHashes(tx), 0, amount, script, txscript.SigHashAll, signer)
		if err != nil {
			return fmt.Errorf("harness: cannot sign: %v", err)
		}
		tx.TxIn[0].Witness = wire.TxWitness{sig, pub, script}
	} else {
		sig, err := txscript.RawTxInSignature(tx, 0, script, txscript.SigHashAll, signer)
		if err != nil {
			return fmt.Errorf("harness: cannot sign: %v", err)
		}
		ss, err := txscript.NewScriptBuilder().AddData(sig).AddData(pub).AddData(script).Script()
		if err != nil {
			return fmt.Errorf("harness: cannot build scriptSig: %v", err)
		}
		tx.TxIn[0].SignatureScript = ss
	}
	vm, err := txscript.NewEngine(pk, tx, 0, flags, nil, txscript.NewTxSigHashes(tx), amount)
	if err != nil {
		return err
	}
	return vm.Execute()
}

func c28TxLocks(l uint32) []uint32 {
	set := []uint32{l, 0, 499999999, 500000000, 0xffffffff}
	if l > 0 {
		set = append(set, l-1)
	}
	if l < 0xffffffff {
		set = append(set, l+1)
	}
	var out []uint32
	seen := map[uint32]bool{}
	for _, v := range set {
		if !seen[v] {
			seen[v] = true
			out = append(out, v)
		}
	}
	return out
}

// c28Script runs the real Deposit.Script and checks the embedded fields.
func c28Script(r *vrep.R, p c28Params) []byte {
	d := p.deposit()
	fp := c28Case{P: p}.String()
	var script []byte
	var err error
	if pn, stack := vrep.Guard(func() { script, err = d.Script() }); pn != nil {
		r.ViolationMin("script-panic", 1, fp, fmt.Sprintf("Deposit.Script panicked: %v\n%s", pn, stack), c28Case{P: p})
		return nil
	}
	if err != nil {
		// a deposit with a well-formed 20-byte depositor address has a script (the
		// wallet could not sweep it otherwise); only malformed parameters may be refused
		if raw, derr := hex.DecodeString(c28Trim0x(p.Depositor)); derr == nil && len(raw) == 20 {
			r.ViolationMin("script-refused", len(p.Extra)+1, fp, fmt.Sprintf("Deposit.Script refused a well-formed deposit (depositor %s): %v", p.Depositor, err), c28Case{P: p})
		}
		r.Outcome("script:error")
		return nil
	}
	pushes, perr := txscript.PushedData(script)
	want := [][]byte{}
	dep, _ := hex.DecodeString(c28Trim0x(p.Depositor))
	want = append(want, dep)
	if d.ExtraData != nil {
		want = append(want, d.ExtraData[:])
	}
	want = append(want, d.BlindingFactor[:], d.WalletPublicKeyHash[:], d.RefundPublicKeyHash[:], d.RefundLocktime[:])
	ok := perr == nil && len(pushes) == len(want)
	if ok {
		for i := range want {
			if !bytes.Equal(pushes[i], want[i]) {
				ok = false
			}
		}
	}
	if !ok {
		r.ViolationMin("embedded-fields", len(p.Extra)+1, fp, fmt.Sprintf("data pushes of the script are %x (parse error %v), expected %x", pushes, perr, want), c28Case{P: p})
	}
	if d.ExtraData != nil {
		r.Outcome("script:with-extra-data")
	} else {
		r.Outcome("script:plain")
	}
	return script
}

func c28Trim0x(s string) string {
	if len(s) >= 2 && s[:2] == "0x" {
		return s[2:]
	}
	return s
}

func c28Check(r *vrep.R, script []byte, c c28Case) {
	want, why := c28Model(c.P, c.S)
	err := c28Execute(script, c.S, txscript.StandardVerifyFlags)
	if err != nil && len(err.Error()) > 8 && err.Error()[:8] == "harness:" {
		r.ViolationMin("harness", 0, c.String(), err.Error(), c)
		return
	}
	got := err == nil
	size := 0
	if c.P.Extra != "" {
		size++
	}
	if c.S.Witness {
		size++
	}
	if got != want {
		kind := "unauthorised-spend"
		switch {
		case want && c.S.Presented == 0:
			kind = "wallet-cannot-spend"
		case want:
			kind = "refund-blocked-after-locktime"
		case c.S.Signer == 1 && c.S.Presented == 1:
			kind = "refund-before-locktime"
		}
		r.ViolationMin(kind, size, c.String(), fmt.Sprintf("interpreter verdict accept=%v (%v), statement says accept=%v (%s)", got, err, want, why), c)
	}
	switch {
	case got && c.S.Presented == 0:
		r.Outcome("spend:wallet-accepted")
	case got:
		r.Outcome("spend:refund-accepted")
	default:
		r.Outcome("spend:rejected:" + why)
	}
	// informational: consensus-level rules without the minimal-encoding policy
	if !got {
		if c28Execute(script, c.S, txscript.StandardVerifyFlags&^txscript.ScriptVerifyMinimalData) == nil {
			r.Add("info.accepted_only_without_minimaldata_policy", 1)
			if c.P.Locktime == 0x80000000 {
				r.Add("info.negative_zero_locktime_refund_accepted_without_minimaldata", 1)
			}
		}
	}
}

func TestVerifC28(t *testing.T) {
	r := vrep.Start(t, "C28", "script")
	defer r.Finish()
	if rd := r.ReplayData(); rd != nil {
		var c c28Case
		if json.Unmarshal(rd, &c) == nil && c.P.Depositor != "" {
			if script := c28Script(r, c.P); script != nil && c.S.Version != 0 {
				c28Check(r, script, c)
			}
			r.Eval(1)
		}
		return
	}
	depositors := []string{
		"0x" + hex.EncodeToString(bytes.Repeat([]byte{0x00}, 20)),
		"0x" + hex.EncodeToString(bytes.Repeat([]byte{0xff}, 20)),
		"934B98637cA318a4D6e7Ca6ffd1690b8e77df637",                // no prefix, mixed case
		"0x0" + hex.EncodeToString(bytes.Repeat([]byte{0x5a}, 20))[1:], // leading zero nibble
		"00" + hex.EncodeToString(bytes.Repeat([]byte{0xe1}, 19)),      // leading zero byte, no prefix
		"0x" + hex.EncodeToString(bytes.Repeat([]byte{0x75}, 19)), // malformed: 19 bytes
		"0x" + hex.EncodeToString(bytes.Repeat([]byte{0xac}, 21)), // malformed: 21 bytes
		"0xzz",
	}
	blindings := []string{"0000000000000000", "ffffffffffffffff"}
	extras := []string{"", hex.EncodeToString(make([]byte, 32)), hex.EncodeToString(bytes.Repeat([]byte{0xac}, 32))}
	locktimes := []uint32{0, 1, 0x7f, 0x80, 0xffff, 0x800000, 499999999, 500000000, 1700000000, 0x7fffffff, 0x80000000, 0x80000001, 0xffffffff}
	sequences := []uint32{0xffffffff, 0xfffffffe, 0}
	versions := []int32{2}
	same := []bool{false}
	if r.Thorough() {
		blindings = append(blindings, "7576a91487636888")
		extras = append(extras, hex.EncodeToString(bytes.Repeat([]byte{0x68}, 32)))
		locktimes = append(locktimes, 2, 0x100, 0x7fff, 0x8000, 0x7fffff, 0x1000000, 499999998, 500000001, 0x65000000, 0x7ffffffe, 0xfffffffe)
		sequences = append(sequences, 1, 0x80000000, 0x7fffffff)
		same = []bool{false, true}
		versions = []int32{1, 2}
	}
	var params []c28Params
	for _, dp := range depositors {
		for _, b := range blindings {
			for _, x := range extras {
				for _, l := range locktimes {
					for _, sk := range same {
						params = append(params, c28Params{dp, b, x, l, sk})
					}
				}
			}
		}
	}
	r.Set("parameter_tuples", len(params))
	r.Sample(c28Case{P: params[0], S: c28Spend{true, 1, 1, 1, 0xfffffffe, 2}})
	vrep.Parallel(vrep.Workers(), len(params), func(i int) {
		if r.Expired() {
			return
		}
		p := params[i]
		script := c28Script(r, p)
		evals := 1
		if script == nil {
			r.Eval(evals)
			return
		}
		for _, witness := range []bool{false, true} {
			for signer := 0; signer < 3; signer++ {
				for presented := 0; presented < 3; presented++ {
					for _, tl := range c28TxLocks(p.Locktime) {
						for _, seq := range sequences {
							for _, v := range versions {
								c := c28Case{p, c28Spend{witness, signer, presented, tl, seq, v}}
								c28Check(r, script, c)
								evals++
								r.Distinct(c.String())
							}
						}
					}
				}
			}
		}
		r.Eval(evals)
	})
}
