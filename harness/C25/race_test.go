//go:build verif

package tbtc

import (
	"sync"
	"sync/atomic"
	"testing"

	"github.com/keep-network/keep-core/pkg/verifshim/vrep"
)

type c25RaceAction struct {
	w       wallet
	running *int32
	over    *int32
	done    *sync.WaitGroup
}

func (a *c25RaceAction) wallet() wallet               { return a.w }
func (a *c25RaceAction) actionType() WalletActionType { return ActionHeartbeat }
func (a *c25RaceAction) execute() error {
	defer a.done.Done()
	if atomic.AddInt32(a.running, 1) > 1 {
		atomic.StoreInt32(a.over, 1)
	}
	atomic.AddInt32(a.running, -1)
	return nil
}

// Free-running pass under the race detector: dispatcher goroutines hammer two wallets
// of one (uninstrumented) walletDispatcher with short actions. Side condition of the
// scheduled unit; the overlap flag is tallied as an outcome only.
func TestVerifC25Race(t *testing.T) {
	r := vrep.Start(t, "C25", "race")
	defer r.Finish()
	if r.ReplayData() != nil {
		return
	}
	rounds := 50
	if r.Thorough() {
		rounds = 2000
	}
	w := [2]wallet{c25Wallet(1), c25Wallet(2)}
	for i := 0; i < rounds; i++ {
		wd := newWalletDispatcher()
		var running [2]int32
		var over int32
		var actions, callers sync.WaitGroup
		for g := 0; g < 6; g++ {
			callers.Add(1)
			go func(g int) {
				defer callers.Done()
				for k := 0; k < 6; k++ {
					actions.Add(1)
					a := &c25RaceAction{w: w[(g+k)%2], running: &running[(g+k)%2], over: &over, done: &actions}
					if err := wd.dispatch(a); err != nil {
						actions.Done()
					}
				}
			}(g)
		}
		callers.Wait()
		actions.Wait()
		r.Eval(1)
		if atomic.LoadInt32(&over) != 0 {
			r.Outcome("overlap observed")
		} else {
			r.Outcome("no overlap observed")
		}
		r.Distinct("6 dispatcher goroutines x 6 dispatches x 2 wallets")
		r.Distinct("walletDispatcher.dispatch vs action completion")
	}
	r.Sample("6 goroutines dispatch 6 short actions each over 2 wallets on one walletDispatcher, real goroutines under -race")
}
