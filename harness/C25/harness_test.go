//go:build verif

package tbtc

import (
	"crypto/ecdsa"
	"encoding/json"
	"fmt"
	"math/big"
	"strings"
	"testing"
	"time"

	golog "github.com/ipfs/go-log/v2"

	"github.com/keep-network/keep-core/pkg/tecdsa"
	"github.com/keep-network/keep-core/pkg/verifshim/vrep"
	"github.com/keep-network/keep-core/pkg/verifshim/vsched"
	"github.com/keep-network/keep-core/pkg/verifshim/vtime"
)

// ---- scenario ----------------------------------------------------------------------

// c25Op is one dispatch made by a dispatcher thread.
//
//	Dur: "y0" "y1" "y2" = the action yields that many times; "gate" = the action runs
//	until every dispatcher thread has returned from all its dispatch calls; "tick" =
//	the action lasts one unit of virtual time.
type c25Op struct {
	Wallet int    `json:"w"`
	Dur    string `json:"d"`
	Err    bool   `json:"err,omitempty"`
	Sleep  bool   `json:"sleep,omitempty"` // wait one unit of virtual time before dispatching
}

type c25Scenario struct {
	Threads [][]c25Op `json:"threads"`
}

func (sc c25Scenario) String() string {
	var ts []string
	for _, t := range sc.Threads {
		var os []string
		for _, o := range t {
			s := fmt.Sprintf("w%d:%s", o.Wallet, o.Dur)
			if o.Err {
				s += "!"
			}
			if o.Sleep {
				s = "~" + s
			}
			os = append(os, s)
		}
		ts = append(ts, strings.Join(os, ","))
	}
	return "[" + strings.Join(ts, " | ") + "]"
}

// wallets: 1 and 2 are unrelated keys; 3 is the negation of 1 (same X coordinate).
func c25Wallet(i int) wallet {
	k := big.NewInt(100)
	switch i {
	case 2:
		k = big.NewInt(101)
	case 3:
		k = new(big.Int).Sub(tecdsa.Curve.Params().N, big.NewInt(100))
	default:
		if i > 3 {
			k = big.NewInt(int64(200 + i))
		}
	}
	x, y := tecdsa.Curve.ScalarBaseMult(k.Bytes())
	return wallet{publicKey: &ecdsa.PublicKey{Curve: tecdsa.Curve, X: x, Y: y}}
}

var c25Wallets = map[int]wallet{}

const c25MaxWallet = 12

// ---- observation -------------------------------------------------------------------

type c25Dispatch struct {
	id                int
	op                c25Op
	probe             bool
	callStep, retStep int
	callVT            int64
	returned          bool
	err               error
	execs             int
	startStep         int
	endStep           int
	endVT             int64
}

type c25Obs struct {
	clock       int
	running     map[int]int
	all         []*c25Dispatch
	threadsDone int
	ended       int
	problems    []string // kind|text found while running
	finished    bool
}

func (o *c25Obs) tick() int { o.clock++; return o.clock }

type c25Action struct {
	obs *c25Obs
	d   *c25Dispatch
	n   int // number of dispatcher threads
}

func (a *c25Action) wallet() wallet               { return c25Wallets[a.d.op.Wallet] }
// action types differ between dispatches: what the wallet is busy with must not matter
func (a *c25Action) actionType() WalletActionType {
	return []WalletActionType{ActionHeartbeat, ActionDepositSweep, ActionRedemption}[a.d.id%3]
}
func (a *c25Action) execute() error {
	o, d := a.obs, a.d
	d.execs++
	d.startStep = o.tick()
	o.running[d.op.Wallet]++
	if o.running[d.op.Wallet] > 1 {
		o.problems = append(o.problems, fmt.Sprintf("two-at-once|%d actions of wallet %d execute at the same time", o.running[d.op.Wallet], d.op.Wallet))
	}
	switch d.op.Dur {
	case "y0":
	case "y1":
		vsched.Yield()
	case "y2":
		vsched.Yield()
		vsched.Yield()
	case "gate":
		vsched.Block("gate", func() bool { return o.threadsDone == a.n })
	case "tick":
		vtime.Sleep(time.Second)
	case "chain":
		// runs until every dispatcher thread has returned and all actions dispatched
		// before this one have ended: many actions in flight at once, ending one by one
		vsched.Block("chain", func() bool { return o.threadsDone == a.n && o.ended == d.id })
	default:
		panic("c25: unknown duration " + d.op.Dur)
	}
	o.running[d.op.Wallet]--
	d.endStep, d.endVT = o.tick(), vsched.Now()
	o.ended++
	if d.op.Err {
		return fmt.Errorf("action failed")
	}
	return nil
}

func c25Body(sc c25Scenario, obs *c25Obs) func() {
	return func() {
		*obs = c25Obs{running: map[int]int{}}
		wd := newWalletDispatcher()
		n := len(sc.Threads)
		dispatch := func(op c25Op, probe bool) *c25Dispatch {
			d := &c25Dispatch{id: len(obs.all), op: op, probe: probe}
			obs.all = append(obs.all, d)
			d.callStep, d.callVT = obs.tick(), vsched.Now()
			d.err = wd.dispatch(&c25Action{obs, d, n})
			d.retStep, d.returned = obs.tick(), true
			return d
		}
		for _, ops := range sc.Threads {
			ops := ops
			vsched.Go(func() {
				for _, op := range ops {
					if op.Sleep {
						vtime.Sleep(time.Second)
					}
					dispatch(op, false)
				}
				obs.threadsDone++
			})
		}
		// quiescence: all dispatcher threads done, every accepted action has ended
		vsched.Block("all-ended", func() bool {
			if obs.threadsDone != n {
				return false
			}
			for _, d := range obs.all {
				if d.err == nil && d.endStep == 0 {
					return false
				}
			}
			return true
		})
		vtime.Sleep(time.Second) // lets the actions' goroutines finish
		wallets := map[int]bool{}
		for _, ops := range sc.Threads {
			for _, op := range ops {
				wallets[op.Wallet] = true
			}
		}
		for w := 1; w <= c25MaxWallet; w++ {
			if wallets[w] {
				dispatch(c25Op{Wallet: w, Dur: "y0"}, true)
				vtime.Sleep(time.Second) // one probe at a time (no factorial of probe action orders)
			}
		}
		vtime.Sleep(time.Second)
		obs.finished = true
	}
}

// c25Check is the oracle (see NOTES.md): at most one action per wallet at any step;
// a dispatch is refused only if an action of that wallet may still be unfinished;
// it is not accepted while an accepted action of that wallet is certainly unfinished;
// every accepted action runs exactly once, refused ones never; dispatch never blocks
// on actions; after everything ended every wallet accepts a new action.
func c25Check(obs *c25Obs) (kind, what string) {
	if len(obs.problems) > 0 {
		p := strings.SplitN(obs.problems[0], "|", 2)
		return p[0], p[1]
	}
	for _, d := range obs.all {
		if !d.returned {
			continue
		}
		name := fmt.Sprintf("dispatch #%d (wallet %d, %s)", d.id, d.op.Wallet, d.op.Dur)
		if d.err != nil && d.err != errWalletBusy {
			return "unexpected-error", fmt.Sprintf("%s returned %v", name, d.err)
		}
		if d.err != nil {
			if d.execs > 0 {
				return "refused-but-executed", name + " was refused but its action executed"
			}
			justified := false
			for _, a := range obs.all {
				if a == d || !a.returned || a.err != nil || a.op.Wallet != d.op.Wallet {
					continue
				}
				if a.callStep < d.retStep && (a.endStep == 0 || a.endStep > d.callStep || a.endVT == d.callVT) {
					justified = true
				}
			}
			if !justified {
				kind := "refused-while-free"
				if d.probe {
					kind = "not-available-after-end"
				}
				return kind, fmt.Sprintf("%s was refused as busy although no action of wallet %d could still be running (%s)", name, d.op.Wallet, c25Timeline(obs))
			}
			continue
		}
		// accepted
		if obs.finished && d.execs != 1 {
			return "accepted-not-executed-once", fmt.Sprintf("%s was accepted and its action executed %d times", name, d.execs)
		}
		for _, a := range obs.all {
			if a == d || !a.returned || a.err != nil || a.op.Wallet != d.op.Wallet {
				continue
			}
			if a.retStep < d.callStep && (a.endStep == 0 || a.endStep > d.retStep) {
				return "accepted-while-busy", fmt.Sprintf("%s was accepted although the action of dispatch #%d on the same wallet had been accepted before and had not ended (%s)", name, a.id, c25Timeline(obs))
			}
		}
	}
	return "", ""
}

func c25Timeline(obs *c25Obs) string {
	var p []string
	for _, d := range obs.all {
		res := "accepted"
		if d.err != nil {
			res = "refused"
		}
		if !d.returned {
			res = "pending"
		}
		p = append(p, fmt.Sprintf("#%d w%d call@%d ret@%d %s exec@%d..%d", d.id, d.op.Wallet, d.callStep, d.retStep, res, d.startStep, d.endStep))
	}
	return strings.Join(p, "; ")
}

// ---- driver ------------------------------------------------------------------------

type c25Replay struct {
	Scenario c25Scenario `json:"scenario"`
	Choices  []int       `json:"choices"`
	Bound    int         `json:"bound"`
}

// c25Leg is a scenario family explored at one preemption bound.
type c25Leg struct {
	name  string
	bound int
	scs   []c25Scenario
}

func c25Legs(thorough bool) []c25Leg {
	durs := []string{"y0", "y2", "gate", "tick"}
	// two: two dispatcher threads, one dispatch each (same wallet, unrelated wallets,
	// wallets sharing the X coordinate)
	var two []c25Scenario
	for _, ws := range [][2]int{{1, 1}, {1, 2}, {1, 3}} {
		for _, d1 := range durs {
			for _, d2 := range durs {
				for _, e := range []bool{false, true} {
					two = append(two, c25Scenario{[][]c25Op{{{Wallet: ws[0], Dur: d1, Err: e}}, {{Wallet: ws[1], Dur: d2}}}})
				}
			}
		}
	}
	// again: re-dispatch after the first action ended, next to a competitor
	var again []c25Scenario
	for _, d1 := range []string{"y0", "y2", "tick"} {
		for _, e := range []bool{false, true} {
			for _, sl := range []bool{false, true} {
				again = append(again, c25Scenario{[][]c25Op{
					{{Wallet: 1, Dur: d1, Err: e}, {Wallet: 1, Dur: "y0", Sleep: sl}},
					{{Wallet: 1, Dur: "y0"}}}})
			}
		}
	}
	// three: two threads on one wallet and one on another
	d3 := []string{"y0", "gate"}
	if thorough {
		d3 = []string{"y0", "y2", "gate"}
	}
	var three []c25Scenario
	for _, a := range d3 {
		for _, b := range d3 {
			for _, c := range d3 {
				three = append(three, c25Scenario{[][]c25Op{{{Wallet: 1, Dur: a}}, {{Wallet: 1, Dur: b}}, {{Wallet: 2, Dur: c}}}})
			}
		}
	}
	// long: the lifetime of a node - one thread dispatches many actions one after the
	// other (each after the previous one ended), failing ones included: whatever the
	// dispatcher accumulates per finished action shows up after enough of them.
	// wide: many wallets busy at the same time (every dispatch accepted before any
	// action ends; the actions then end one by one).
	var long, wide []c25Scenario
	nLong, nWide := 12, 10
	if thorough {
		nLong, nWide = 24, c25MaxWallet
	}
	for _, pat := range []string{"err", "alt", "one"} {
		var ops []c25Op
		for i := 0; i < nLong; i++ {
			op := c25Op{Wallet: 1 + i%3, Dur: "y0", Err: true, Sleep: true}
			switch pat {
			case "alt":
				op.Err = i%2 == 0
			case "one":
				op.Wallet = 1
			}
			ops = append(ops, op)
		}
		long = append(long, c25Scenario{[][]c25Op{ops}})
	}
	{
		var ops []c25Op
		for w := 1; w <= nWide; w++ {
			// (the pause lets each action reach its waiting point before the next dispatch:
			// one enabled thread at a time, no factorial of start orders)
			ops = append(ops, c25Op{Wallet: w, Dur: "chain", Err: w%4 == 0, Sleep: true})
		}
		wide = append(wide, c25Scenario{[][]c25Op{ops}})
	}
	if !thorough {
		return []c25Leg{{"two", 2, two}, {"again", 2, again}, {"three", 1, three}, {"long", 1, long}, {"wide", 1, wide}}
	}
	// four threads, two per wallet
	var four []c25Scenario
	for _, a := range d3[:2] {
		for _, b := range d3[:2] {
			four = append(four, c25Scenario{[][]c25Op{{{Wallet: 1, Dur: a}}, {{Wallet: 1, Dur: b}}, {{Wallet: 2, Dur: "gate"}}, {{Wallet: 2, Dur: "y0"}}}})
		}
	}
	return []c25Leg{{"two", 3, two}, {"again", 3, again}, {"three", 2, three}, {"four", 1, four}, {"long", 2, long}, {"wide", 2, wide}}
}

// c25Racy: scenarios for the unit whose dispatch carries a scheduling point before
// every statement (two dispatcher threads only: the statement-level points multiply).
func c25RacyLegs(thorough bool) []c25Leg {
	var out []c25Scenario
	durs := []string{"y0", "gate"}
	if thorough {
		durs = []string{"y0", "y1", "gate", "tick"}
	}
	for _, ws := range [][2]int{{1, 1}, {1, 2}, {1, 3}} {
		for _, d1 := range durs {
			for _, d2 := range durs {
				if ws != [2]int{1, 1} && (d1 != "gate" || !thorough && d2 != "gate") {
					continue
				}
				out = append(out, c25Scenario{[][]c25Op{{{Wallet: ws[0], Dur: d1}}, {{Wallet: ws[1], Dur: d2}}}})
			}
		}
	}
	return []c25Leg{{"racy-two", 2, out}}
}

func TestVerifC25(t *testing.T) {
	c25Run(t, "sched", c25Legs)
}

func TestVerifC25Racy(t *testing.T) {
	c25Run(t, "racy", c25RacyLegs)
}

func c25Run(t *testing.T, unit string, legsOf func(thorough bool) []c25Leg) {
	r := vrep.Start(t, "C25", unit)
	defer r.Finish()
	for i := 1; i <= c25MaxWallet; i++ {
		c25Wallets[i] = c25Wallet(i)
	}
	golog.SetAllLoggers(golog.LevelFatal) // the dispatcher logs every action
	var obs c25Obs
	opts := func(bound int) vsched.Options {
		return vsched.Options{Bound: bound, Horizon: 64, Stop: r.Expired}
	}
	evaluate := func(sc c25Scenario, bound int, s *vsched.Sched) {
		r.Eval(1)
		r.Transition(len(s.Choices()) + 1)
		var res []string
		for _, d := range obs.all {
			switch {
			case !d.returned:
				res = append(res, "pending")
			case d.err == nil:
				res = append(res, "ok")
			default:
				res = append(res, "busy")
			}
		}
		r.State(sc.String() + "|" + strings.Join(res, ","))
		r.Outcome(fmt.Sprintf("refusals=%d", strings.Count(strings.Join(res, ","), "busy")))
		rp := c25Replay{sc, s.Choices(), bound}
		ops := 0
		for _, th := range sc.Threads {
			ops += len(th)
		}
		fail := func(kind, what string) {
			r.ViolationMin(kind, ops*1000+len(s.Choices()), fmt.Sprintf("%s %s", kind, sc), what+" [scenario "+sc.String()+"; schedule "+s.Trace()+"]", rp)
		}
		if p, stack := s.Failed(); p != nil {
			fail("panic", fmt.Sprintf("panic: %v\n%s", p, stack))
			return
		}
		if s.StepCapHit {
			r.Cap("step-cap")
			return
		}
		if s.HorizonHit {
			r.Cap("clock-horizon")
		}
		if kind, what := c25Check(&obs); kind != "" {
			fail(kind, what)
			return
		}
		if len(s.Deadlock) > 0 || !obs.finished {
			fail("stuck", fmt.Sprintf("blocked forever: %v (a dispatch waited for an action, or an accepted action never ran); %s", s.Deadlock, c25Timeline(&obs)))
		}
	}
	if rd := r.ReplayData(); rd != nil {
		var rp c25Replay
		if json.Unmarshal(rd, &rp) == nil && len(rp.Scenario.Threads) > 0 {
			s := vsched.Replay(rp.Choices, opts(rp.Bound), c25Body(rp.Scenario, &obs))
			evaluate(rp.Scenario, rp.Bound, s)
			t.Logf("replayed %s: %s", rp.Scenario, c25Timeline(&obs))
		}
		return
	}
	legs := legsOf(r.Thorough())
	maxBound := 0
	total := 0
	for _, lg := range legs {
		if lg.bound > maxBound {
			maxBound = lg.bound
		}
		total += len(lg.scs)
	}
	shard, _ := r.Shard()
	if shard == 0 {
		sc := legs[0].scs[0]
		a := vsched.Replay(nil, opts(0), c25Body(sc, &obs))
		ta := c25Timeline(&obs)
		b := vsched.Replay(nil, opts(0), c25Body(sc, &obs))
		if !vsched.SameRun(a, b) || ta != c25Timeline(&obs) {
			t.Fatalf("NONDETERMINISM: two runs of the empty script differ")
		}
		r.ReplayedTwice(1)
		r.Sample(map[string]any{"scenario": sc.String(), "timeline": ta})
		r.Set("scenarios", total)
		r.Set("max_preemption_bound", maxBound)
	}
	idx := 0
	for _, lg := range legs {
		for _, sc := range lg.scs {
			idx++
			if !r.Mine(idx) || r.Expired() {
				continue
			}
			sc, bound := sc, lg.bound
			r.Distinct(sc.String())
			st := vsched.Explore(opts(bound), c25Body(sc, &obs), func(s *vsched.Sched) { evaluate(sc, bound, s) })
			r.Add("leg."+lg.name+".execs", st.Execs)
			if st.Stopped {
				r.Cap("scenario " + sc.String() + " not completed")
			}
		}
		if shard == 0 {
			r.Set("leg."+lg.name+".bound", lg.bound)
			r.Set("leg."+lg.name+".scenarios", len(lg.scs))
		}
	}
}
