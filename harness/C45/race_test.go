//go:build verif

package generator

import (
	"context"
	"sync"
	"sync/atomic"
	"testing"

	"github.com/keep-network/keep-core/pkg/verifshim/vrep"
)

// Free-running pass under the race detector: the scenario of the scheduled harness with
// real goroutines (side condition of the model checker, not the deciding enumeration).
func TestVerifC45Race(t *testing.T) {
	r := vrep.Start(t, "C45", "race")
	defer r.Finish()
	if r.ReplayData() != nil {
		return
	}
	rounds := 50
	if r.Thorough() {
		rounds = 2000
	}
	for i := 0; i < rounds; i++ {
		s := &Scheduler{}
		l0, l1 := NewProtocolLatch(), NewProtocolLatch()
		s.RegisterProtocol(l0)
		s.RegisterProtocol(l1)
		var iterations int64
		work := func(ctx context.Context) {
			atomic.AddInt64(&iterations, 1)
			select {
			case <-ctx.Done():
			default:
			}
		}
		s.compute(work)
		var wg sync.WaitGroup
		wg.Add(4)
		go func() { defer wg.Done(); s.compute(work) }()
		go func() {
			defer wg.Done()
			l0.Lock()
			l0.Lock()
			l0.Unlock()
			l0.Unlock()
		}()
		go func() {
			defer wg.Done()
			l1.Lock()
			l0.Lock()
			l0.Unlock()
			l1.Unlock()
		}()
		go func() {
			defer wg.Done()
			for k := 0; k < 6; k++ {
				s.checkProtocols()
			}
		}()
		wg.Wait()
		s.checkProtocols() // all idle: resume
		s.stop()           // end the worker loops of this round
		r.Eval(1)
		// fixed keys: the counts of a free-running pass must not depend on timing
		r.Distinct("nested+crossed-latches")
		r.Distinct("concurrent-compute")
	}
	r.Outcome("completed")
	r.Sample("2 latches (nested and crossed Lock/Unlock), 6 concurrent checkProtocols, compute() from 2 goroutines, real goroutines under -race")
}
