//go:build verif

package generator

import (
	"context"
	"encoding/json"
	"fmt"
	"os"
	"strconv"
	"strings"
	"testing"

	"github.com/keep-network/keep-core/pkg/verifshim/vrep"
	"github.com/keep-network/keep-core/pkg/verifshim/vsched"
	"github.com/keep-network/keep-core/pkg/verifshim/vtime"
)

// A protocol program is a string of two-character operations: L<i> = Lock latch i,
// U<i> = Unlock latch i (well-formed: never more unlocks than locks, balanced at the
// end), executed by one protocol thread.

type c45Scenario struct {
	// Mode "driven": a harness thread calls checkProtocols Checks times.
	// Mode "ticker": the real StartScheduler loop runs on the virtual clock; protocol
	// threads sleep Gap virtual milliseconds before every operation.
	Mode    string   `json:"mode"`
	Progs   []string `json:"progs"`   // one protocol thread per program
	Checks  int      `json:"checks"`  // driven: number of scheduler checks
	Order   int      `json:"order"`   // driven: 0 = protocol threads spawned first, 1 = checker first
	Workers int      `json:"workers"` // worker functions (the second one is registered by its own thread)
	Budget  int      `json:"budget"`  // worker iterations that return by themselves; afterwards a worker computes until cancelled
	Gaps    []int    `json:"gaps"`    // ticker: per thread, virtual ms slept before each operation
	Horizon int      `json:"horizon"`
	Preempt bool     `json:"clock_preempt"`
	// MaxBound is the preemption bound this scenario is explored to (iterated from 0).
	MaxBound int `json:"max_bound"`
}

func (sc c45Scenario) key() string {
	return fmt.Sprintf("%s|%s|c%d|o%d|w%d|b%d|g%v|h%d|%v", sc.Mode, strings.Join(sc.Progs, ","), sc.Checks, sc.Order, sc.Workers, sc.Budget, sc.Gaps, sc.Horizon, sc.Preempt)
}

type c45Invocation struct {
	worker int
	ctx    context.Context
}

type c45Obs struct {
	sched *Scheduler
	ref   [2]int // reference count of started-and-not-finished executions per latch
	// current check (delimited by the poll of protocol 0, which every check asks first)
	inCheck    bool
	saw        []bool
	checksDone int
	expect     state // state demanded by the last completed check
	haveExpect bool
	pending    bool // ticker mode: a check's polls were seen, its effect not validated yet
	registered int  // worker functions handed to compute() (call returned)
	inside     []c45Invocation
	budget     int
	entries    int
	liveStarts int
	deadStarts int
	threadsEnd int
	problems   []string // "kind\x00text"
	states     []string
	outcomes   []string
}

func (o *c45Obs) fail(kind, format string, a ...any) {
	o.problems = append(o.problems, kind+"\x00"+fmt.Sprintf(format, a...))
}

// c45Proto wraps a real latch: it is what gets registered in the scheduler. It compares
// every answer of the real latch with the reference count and records what the check saw.
type c45Proto struct {
	idx   int
	latch *ProtocolLatch
	obs   *c45Obs
}

func (p *c45Proto) IsExecuting() bool {
	o := p.obs
	if p.idx == 0 {
		// a new check starts: in ticker mode the previous check's effect is validated
		// here, nobody but checkProtocols changes the scheduler state in between
		o.validatePending("at the start of the next check")
		o.saw = o.saw[:0]
		o.inCheck = true
	}
	v := p.latch.IsExecuting()
	// no scheduling point between the latch reading its counter and this line
	want := o.ref[p.idx] > 0
	if v != want {
		o.fail("latch-count", "latch %d answered IsExecuting=%v while %d of its executions are running (locks minus unlocks)", p.idx, v, o.ref[p.idx])
	}
	if o.ref[p.idx] > 1 {
		o.outcomes = append(o.outcomes, "poll:nested>1")
	}
	o.saw = append(o.saw, v)
	vsched.Logf("poll %d=%v", p.idx, v)
	if v {
		o.expect, o.haveExpect = stopped, true
		o.pending = true
	} else if len(o.saw) == len(o.sched.protocols) {
		// every registered latch answered idle
		o.expect, o.haveExpect = working, true
		o.pending = true
	}
	return v
}

// validatePending checks the effect of the last check whose polls were observed (ticker
// mode, where the return of checkProtocols is not visible to the harness).
func (o *c45Obs) validatePending(when string) {
	if !o.pending {
		return
	}
	o.pending = false
	o.checkEffect(when)
}

// checkEffect is the oracle for "a check has returned".
func (o *c45Obs) checkEffect(when string) {
	s := o.sched
	o.checksDone++
	sawExec := false
	for _, v := range o.saw {
		sawExec = sawExec || v
	}
	live := 0
	for _, in := range o.inside {
		if in.ctx.Err() == nil {
			live++
		}
	}
	o.states = append(o.states, fmt.Sprintf("ref=%v saw=%v state=%d live=%d stops=%d reg=%d", o.ref, o.saw, s.state, live, len(s.stops), o.registered))
	if sawExec {
		if s.state != stopped {
			o.fail("not-stopped", "%s: the check saw an executing protocol (polls %v) but the scheduler state is not stopped", when, o.saw)
		}
		if live > 0 {
			o.fail("context-live-after-stop", "%s: the check saw an executing protocol (polls %v) but %d running worker invocation(s) still have a live context", when, o.saw, live)
		}
		o.outcomes = append(o.outcomes, "check:executing->stopped")
	} else {
		if s.state != working {
			o.fail("not-resumed", "%s: the check saw no executing protocol (polls %v) but the scheduler state is not working", when, o.saw)
		}
		o.outcomes = append(o.outcomes, "check:idle->working")
	}
	o.inCheck = false
}

func (o *c45Obs) workerFn(w int) func(context.Context) {
	return func(ctx context.Context) {
		o.entries++
		if ctx.Err() == nil {
			o.liveStarts++
			// a worker function starts with a live context: generation work is running
			if o.sched.state != working {
				o.fail("start-while-stopped", "worker %d started an iteration with a live context while the scheduler is stopped", w)
			}
		} else {
			o.deadStarts++
		}
		vsched.Logf("enter w%d live=%v", w, ctx.Err() == nil)
		in := c45Invocation{w, ctx}
		o.inside = append(o.inside, in)
		leave := func() {
			for i := range o.inside {
				if o.inside[i] == in {
					o.inside = append(o.inside[:i], o.inside[i+1:]...)
					break
				}
			}
		}
		vsched.Yield() // one unit of work
		if o.budget > 0 {
			o.budget--
			leave()
			return
		}
		// a long computation that only ends when it is told to stop
		vsched.Recv(ctx.Done())
		leave()
	}
}

func c45Body(sc c45Scenario, obs *c45Obs) func() {
	return func() {
		*obs = c45Obs{budget: sc.Budget}
		var s *Scheduler
		if sc.Mode == "ticker" {
			// registration happens before the first check can run: StartScheduler's
			// goroutine is spawned but main keeps running until it blocks
			s = StartScheduler()
		} else {
			s = &Scheduler{}
		}
		obs.sched = s
		latches := [2]*ProtocolLatch{NewProtocolLatch(), NewProtocolLatch()}
		for i := range latches {
			s.RegisterProtocol(&c45Proto{idx: i, latch: latches[i], obs: obs})
		}
		s.compute(obs.workerFn(0))
		obs.registered++
		if sc.Workers > 1 {
			vsched.Go(func() {
				s.compute(obs.workerFn(1))
				obs.registered++
				obs.threadsEnd++
			})
		} else {
			obs.threadsEnd++
		}
		proto := func(ti int) func() {
			return func() {
				prog := sc.Progs[ti]
				for k := 0; k+1 < len(prog); k += 2 {
					if sc.Mode == "ticker" {
						vtime.Sleep(vtime.Duration(sc.Gaps[ti]) * vtime.Millisecond)
					}
					l := int(prog[k+1] - '0')
					// Lock/Unlock park once (on the latch mutex) and then change the counter and
					// return without another scheduling point: the reference count changes in
					// the same atomic step as the latch's own counter.
					if prog[k] == 'L' {
						latches[l].Lock()
						obs.ref[l]++
					} else {
						latches[l].Unlock()
						obs.ref[l]--
					}
					vsched.Logf("t%d %s", ti, prog[k:k+2])
				}
				obs.threadsEnd++
			}
		}
		checker := func() {
			for i := 0; i < sc.Checks; i++ {
				s.checkProtocols()
				obs.pending = false
				obs.checkEffect(fmt.Sprintf("at the return of check %d", i+1))
			}
			obs.threadsEnd++
		}
		if sc.Mode == "ticker" {
			obs.threadsEnd++ // no harness checker
			for ti := range sc.Progs {
				vsched.Go(proto(ti))
			}
		} else if sc.Order == 0 {
			for ti := range sc.Progs {
				vsched.Go(proto(ti))
			}
			vsched.Go(checker)
		} else {
			vsched.Go(checker)
			for ti := range sc.Progs {
				vsched.Go(proto(ti))
			}
		}
	}
}

type c45Replay struct {
	Scenario c45Scenario `json:"scenario"`
	Choices  []int       `json:"choices"`
	Bound    int         `json:"bound"`
}

func c45Options(sc c45Scenario, bound int) vsched.Options {
	return vsched.Options{Bound: bound, Horizon: sc.Horizon, ClockPreempt: sc.Preempt}
}

func c45Scenarios(thorough bool) []c45Scenario {
	var out []c45Scenario
	add := func(sc c45Scenario, bq, bt int) {
		sc.MaxBound = bq
		if thorough {
			sc.MaxBound = bt
		}
		if sc.MaxBound >= 0 {
			out = append(out, sc)
		}
	}
	// small: one or two protocol threads, 2 checks, deeper preemption bound
	add(c45Scenario{Mode: "driven", Progs: []string{"L0L0U0U0"}, Checks: 2, Workers: 1, Budget: 0}, 2, 3)
	add(c45Scenario{Mode: "driven", Progs: []string{"L0L0U0U0"}, Checks: 2, Order: 1, Workers: 1, Budget: 1}, 2, 3)
	add(c45Scenario{Mode: "driven", Progs: []string{"L0U0", "L1U1"}, Checks: 2, Workers: 1, Budget: 0}, 2, 3)
	add(c45Scenario{Mode: "driven", Progs: []string{"L1U1"}, Checks: 2, Workers: 2, Budget: 0}, 2, 3)
	add(c45Scenario{Mode: "driven", Progs: []string{"L0L1U0U1"}, Checks: 3, Workers: 1, Budget: 0}, 2, 3)
	// large: pairs of protocol programs (nested execution of one protocol, two protocols,
	// a thread that runs both protocols interleaved), 3 checks, 2 workers
	pairs := [][]string{
		{"L0L0U0U0", "L1U1"},
		{"L0L1U0U1", "L0U0"},
		{"L0U0L0U0", "L1L1U1U1"},
		{"L0L0U0U0", "L0U0"},
		{"L1L0U0U1", "L1U1"},
		{"L0L0L0U0U0U0", "L1U1"},
	}
	for i, p := range pairs {
		// (the spawn order does not matter here: main blocks after spawning and every
		// order of the threads is then a free choice)
		bq := 1
		if i >= 3 {
			bq = -1
		}
		add(c45Scenario{Mode: "driven", Progs: p, Checks: 3, Workers: 2, Budget: 1}, bq, 1)
	}
	// medium, thorough only
	add(c45Scenario{Mode: "driven", Progs: []string{"L0L0U0U0", "L1U1"}, Checks: 2, Workers: 1, Budget: 0}, -1, 3)
	add(c45Scenario{Mode: "driven", Progs: []string{"L0L1U0U1", "L0U0"}, Checks: 2, Workers: 1, Budget: 1}, -1, 2)
	// the real polling loop on the virtual clock: checks at t = 0,1,2,... s
	add(c45Scenario{Mode: "ticker", Progs: []string{"L0L0U0U0"}, Workers: 1, Budget: 0, Gaps: []int{700}, Horizon: 6, Preempt: true}, 2, 2)
	add(c45Scenario{Mode: "ticker", Progs: []string{"L0L0U0U0", "L1U1"}, Workers: 2, Budget: 1, Gaps: []int{700, 1600}, Horizon: 10, Preempt: true}, -1, 1)
	add(c45Scenario{Mode: "ticker", Progs: []string{"L0L1U0U1", "L0U0"}, Workers: 1, Budget: 2, Gaps: []int{1000, 1500}, Horizon: 10, Preempt: true}, 1, 2)
	return out
}

func TestVerifC45(t *testing.T) {
	r := vrep.Start(t, "C45", "sched")
	defer r.Finish()
	var obs c45Obs
	evaluate := func(sc c45Scenario, bound int, s *vsched.Sched) {
		r.Eval(1)
		r.Transition(len(s.Choices()) + 1)
		rp := c45Replay{sc, s.Choices(), bound}
		fail := func(kind, what string) {
			r.ViolationMin(kind, c45Size(s.Choices()), fmt.Sprintf("%s %s", sc.key(), kind), what+" [schedule "+s.Trace()+"]", rp)
		}
		if p, stack := s.Failed(); p != nil {
			fail("panic", fmt.Sprintf("panic: %v\n%s", p, stack))
			return
		}
		if s.StepCapHit {
			r.Cap("step-cap")
			return
		}
		// the last check's effect (ticker mode) and the end state
		obs.validatePending("at the end of the run")
		for _, st := range obs.states {
			r.State(st)
		}
		for _, oc := range obs.outcomes {
			r.Outcome(oc)
		}
		if obs.liveStarts > 0 {
			r.Outcome("worker:start-live")
		}
		if obs.deadStarts > 0 {
			r.Outcome("worker:start-cancelled")
		}
		if s.Trace() != "" {
			r.Distinct(sc.key() + fmt.Sprint(s.Choices()))
		}
		if obs.threadsEnd < len(sc.Progs)+2 {
			if sc.Mode == "ticker" && s.HorizonHit {
				r.Add("ticker.horizon_cut", 1)
			} else {
				fail("stuck", fmt.Sprintf("a protocol, registration or checker thread never finished (%d of %d did); blocked: %v", obs.threadsEnd, len(sc.Progs)+2, s.Deadlock))
			}
		}
		if obs.haveExpect && obs.sched != nil {
			live := map[int]bool{}
			nLive := 0
			for _, in := range obs.inside {
				if in.ctx.Err() == nil {
					live[in.worker] = true
					nLive++
				}
			}
			r.State(fmt.Sprintf("end ref=%v state=%d live=%d reg=%d", obs.ref, obs.sched.state, nLive, obs.registered))
			if obs.expect == stopped {
				if obs.sched.state != stopped || nLive > 0 {
					fail("end-not-stopped", fmt.Sprintf("the last check saw an executing protocol but at quiescence state=%d and %d worker invocation(s) run with a live context", obs.sched.state, nLive))
				}
				r.Outcome("end:stopped")
			} else {
				// resumed: every registered worker function has a running iteration with
				// a live context (the budget is spent at quiescence, so it computes
				// until cancelled)
				if obs.sched.state != working {
					fail("end-not-resumed", "the last check saw no executing protocol but at quiescence the scheduler is stopped")
				}
				for w := 0; w < obs.registered; w++ {
					if !live[w] {
						fail("end-not-resumed", fmt.Sprintf("the last check saw no executing protocol but worker %d has no running iteration with a live context at quiescence", w))
					}
				}
				r.Outcome("end:working")
			}
		}
		for _, p := range obs.problems {
			kv := strings.SplitN(p, "\x00", 2)
			fail(kv[0], kv[1])
		}
	}
	if rd := r.ReplayData(); rd != nil {
		var rp c45Replay
		if json.Unmarshal(rd, &rp) == nil && rp.Scenario.Mode != "" {
			s := vsched.Replay(rp.Choices, c45Options(rp.Scenario, rp.Bound), c45Body(rp.Scenario, &obs))
			evaluate(rp.Scenario, rp.Bound, s)
		}
		return
	}
	maxBound := 0
	shard, shards := r.Shard()
	scs := c45Scenarios(r.Thorough())
	for i, sc := range scs {
		if shard == 0 {
			// determinism gate for every scenario: the empty script twice
			a := vsched.Replay(nil, c45Options(sc, 0), c45Body(sc, &obs))
			sa := fmt.Sprint(obs.states, obs.problems, obs.entries)
			b := vsched.Replay(nil, c45Options(sc, 0), c45Body(sc, &obs))
			if !vsched.SameRun(a, b) || sa != fmt.Sprint(obs.states, obs.problems, obs.entries) {
				t.Fatalf("NONDETERMINISM: two runs of the empty script differ (%s)", sc.key())
			}
			r.ReplayedTwice(1)
			if i == 0 || sc.Mode == "ticker" {
				r.Sample(map[string]any{"scenario": sc, "script": a.Choices(), "log": a.Log})
			}
		}
		mb := sc.MaxBound
		if v := os.Getenv("C45_MAXBOUND"); v != "" {
			mb, _ = strconv.Atoi(v)
		}
		if mb > maxBound {
			maxBound = mb
		}
		for bound := 0; bound <= mb; bound++ {
			if bound < mb && shard != 0 {
				continue
			}
			o := c45Options(sc, bound)
			o.Shard, o.Shards, o.Stop = shard, shards, r.Expired
			st := vsched.Explore(o, c45Body(sc, &obs), func(s *vsched.Sched) { evaluate(sc, bound, s) })
			if bound < mb {
				r.Set(fmt.Sprintf("s%d.bound%d_execs", i, bound), st.Execs)
			} else {
				r.Add(fmt.Sprintf("s%d.bound%d_execs", i, bound), st.Execs)
			}
			t.Logf("scenario %d %s bound %d: %d execs", i, sc.key(), bound, st.Execs)
			if st.Stopped {
				r.Cap(fmt.Sprintf("scenario %d bound %d not completed", i, bound))
			}
			if r.Violations() > 0 && bound < mb {
				break
			}
		}
	}
	if shard == 0 {
		r.Set("max_preemption_bound", maxBound)
		r.Set("scenarios", len(scs))
	}
}

// c45Size orders counterexamples: fewest non-default choices (deviations, preemptions)
// first, then the shortest script.
func c45Size(choices []int) int {
	n := 0
	for _, c := range choices {
		if c != 0 {
			n++
		}
	}
	return n*1000 + len(choices)
}
