//go:build verif

package tbtc

import (
	"context"
	"encoding/hex"
	"encoding/json"
	"fmt"
	"math/big"
	"sync"
	"testing"
	"time"

	"github.com/keep-network/keep-core/pkg/bitcoin"
	"github.com/keep-network/keep-core/pkg/protocol/group"
	"github.com/keep-network/keep-core/pkg/tbtc/internal/test"
	"github.com/keep-network/keep-core/pkg/tecdsa"
	"github.com/keep-network/keep-core/pkg/verifshim/vrep"
)

// The numbers the property statement refers to as "documented": the doc comments of
// the *SigningTimeoutSafetyMarginBlocks / heartbeat* constants and the nominal block
// time of the host chain.
const (
	c46DocumentedSigningMargin   = 300 // blocks between the signing timeout and the proposal expiry
	c46DocumentedHeartbeatMargin = 25  // blocks between the inactivity claim timeout and the expiry
	c46NominalBlockTime          = 12 * time.Second
	c46HangGuard                 = 120 * time.Second // real time; only decides "this context is never cancelled"
)

// c46Case is one configuration: an action type (heartbeat has three flavours that
// differ in what the signing step reports) and the block the action starts at; the
// expiry block is derived like node.go does (start + proposal.ValidityBlocks()).
type c46Case struct {
	Action string `json:"action"`
	Start  uint64 `json:"start"`
}

// c46Waits records the blocks handed to waitForBlockFn. Every call returns at once, so
// that a context built by withCancelOnBlock is cancelled as soon as its goroutine ran:
// "the context is done" then implies "its deadline block has been recorded".
type c46Waits struct {
	mu     sync.Mutex
	blocks []uint64
}

func (w *c46Waits) wait(ctx context.Context, block uint64) error {
	w.mu.Lock()
	w.blocks = append(w.blocks, block)
	w.mu.Unlock()
	return nil
}

// deadlineOf waits for ctx to be cancelled and returns the block recorded last, i.e.
// the block this context was bound to. ok=false: the context was never cancelled.
func (w *c46Waits) deadlineOf(ctx context.Context) (uint64, bool) {
	select {
	case <-ctx.Done():
	case <-time.After(c46HangGuard):
		return 0, false
	}
	w.mu.Lock()
	defer w.mu.Unlock()
	if len(w.blocks) == 0 {
		return 0, false
	}
	return w.blocks[len(w.blocks)-1], true
}

// c46Obs is what one execution of an action showed.
type c46Obs struct {
	signCalled    bool
	signStart     uint64
	signDeadline  uint64
	signBound     bool
	messages      int
	claimCalled   bool
	claimDeadline uint64
	claimBound    bool
	broadcast     time.Duration
	hasBroadcast  bool
	err           error
}

var errC46Stop = fmt.Errorf("c46: stop after the signing step")

// c46Signer is both walletSigningExecutor and heartbeatSigningExecutor.
type c46Signer struct {
	waits  *c46Waits
	obs    *c46Obs
	active int // heartbeat: number of active members reported
}

func (s *c46Signer) signBatch(ctx context.Context, messages []*big.Int, startBlock uint64) ([]*tecdsa.Signature, error) {
	s.obs.signCalled, s.obs.signStart, s.obs.messages = true, startBlock, len(messages)
	s.obs.signDeadline, s.obs.signBound = s.waits.deadlineOf(ctx)
	// the broadcast step is not executed (it runs on the wall clock); its bound is
	// read from the action built by the production constructor
	return nil, errC46Stop
}

func (s *c46Signer) sign(ctx context.Context, message *big.Int, startBlock uint64) (*tecdsa.Signature, *signingActivityReport, uint64, error) {
	s.obs.signCalled, s.obs.signStart, s.obs.messages = true, startBlock, 1
	s.obs.signDeadline, s.obs.signBound = s.waits.deadlineOf(ctx)
	rep := &signingActivityReport{}
	for m := 1; m <= 100; m++ {
		if m <= s.active {
			rep.activeMembers = append(rep.activeMembers, group.MemberIndex(m))
		} else {
			rep.inactiveMembers = append(rep.inactiveMembers, group.MemberIndex(m))
		}
	}
	return &tecdsa.Signature{}, rep, startBlock + 1, nil
}

type c46Claimer struct {
	waits *c46Waits
	obs   *c46Obs
}

func (c *c46Claimer) claimInactivity(ctx context.Context, inactive []group.MemberIndex, failed bool, sessionID *big.Int) error {
	c.obs.claimCalled = true
	c.obs.claimDeadline, c.obs.claimBound = c.waits.deadlineOf(ctx)
	return nil
}

// c46Env builds, once per action type, the chains and fixtures the action needs to get
// through its validation steps (the setup of the package's own *_Execute tests) and
// returns a function that constructs a fresh action exactly like node.go does and
// executes it.
type c46Env struct {
	validity uint64
	run      func(start, expiry uint64, obs *c46Obs)
}

func c46Heartbeat(active int, failuresBefore int) (*c46Env, error) {
	keyHex, _ := hex.DecodeString("0471e30bca60f6548d7b42582a478ea37ada63b402af7b3ddd57f0c95bb6843175" +
		"aa0d2053a91a050a6797d85c38f2909cb7027f2344a01986aa2f9f8ca7a0c289")
	proposal := &HeartbeatProposal{Message: [16]byte{0xff, 0xff, 0xff, 0xff, 0xff, 0xff, 0xff, 0xff, 0, 0, 0, 0, 0, 0, 0, 1}}
	hostChain := Connect()
	hostChain.setOperatorsEligibleStake(big.NewInt(100000))
	hostChain.setHeartbeatProposalValidationResult(proposal, true)
	return &c46Env{validity: proposal.ValidityBlocks(), run: func(start, expiry uint64, obs *c46Obs) {
		waits := &c46Waits{}
		counter := newHeartbeatFailureCounter()
		for i := 0; i < failuresBefore; i++ {
			counter.increment(hex.EncodeToString(keyHex))
		}
		action := newHeartbeatAction(logger, hostChain, wallet{publicKey: unmarshalPublicKey(keyHex)},
			&c46Signer{waits: waits, obs: obs, active: active}, proposal, counter,
			&c46Claimer{waits: waits, obs: obs}, start, expiry, waits.wait)
		obs.err = action.execute()
	}}, nil
}

func c46DepositSweep() (*c46Env, error) {
	scenarios, err := test.LoadDepositSweepTestScenarios()
	if err != nil || len(scenarios) == 0 {
		return nil, fmt.Errorf("deposit sweep scenarios: %v", err)
	}
	scenario := scenarios[0]
	hostChain, bitcoinChain := Connect(), newLocalBitcoinChain()
	w := wallet{publicKey: scenario.WalletPublicKey}
	pkh := bitcoin.PublicKeyHash(w.publicKey)
	for _, tx := range scenario.InputTransactions {
		if err := bitcoinChain.BroadcastTransaction(tx); err != nil {
			return nil, err
		}
	}
	keys := make([]struct {
		FundingTxHash      bitcoin.Hash
		FundingOutputIndex uint32
	}, len(scenario.Deposits))
	extra := make([]struct {
		*Deposit
		FundingTx *bitcoin.Transaction
	}, len(scenario.Deposits))
	reveal := make([]*big.Int, len(scenario.Deposits))
	for i, deposit := range scenario.Deposits {
		h, idx := deposit.Utxo.Outpoint.TransactionHash, deposit.Utxo.Outpoint.OutputIndex
		fundingTx, err := bitcoinChain.GetTransaction(h)
		if err != nil {
			return nil, err
		}
		keys[i].FundingTxHash, keys[i].FundingOutputIndex = h, idx
		extra[i].Deposit, extra[i].FundingTx = (*Deposit)(deposit), fundingTx
		rb := uint64(100 * i)
		reveal[i] = big.NewInt(int64(rb))
		err = hostChain.setPastDepositRevealedEvents(
			&DepositRevealedEventFilter{StartBlock: rb, EndBlock: &rb, WalletPublicKeyHash: [][20]byte{pkh}},
			[]*DepositRevealedEvent{{
				FundingTxHash: h, FundingOutputIndex: idx, Depositor: deposit.Depositor,
				Amount: uint64(deposit.Utxo.Value), BlindingFactor: deposit.BlindingFactor,
				WalletPublicKeyHash: deposit.WalletPublicKeyHash, RefundPublicKeyHash: deposit.RefundPublicKeyHash,
				RefundLocktime: deposit.RefundLocktime, Vault: deposit.Vault, BlockNumber: rb,
			}})
		if err != nil {
			return nil, err
		}
		hostChain.setDepositRequest(h, idx, &DepositChainRequest{
			Depositor: deposit.Depositor, Amount: uint64(deposit.Utxo.Value), Vault: deposit.Vault, ExtraData: deposit.ExtraData})
	}
	proposal := &DepositSweepProposal{DepositsKeys: keys, SweepTxFee: big.NewInt(scenario.Fee), DepositsRevealBlocks: reveal}
	if err := hostChain.setDepositSweepProposalValidationResult(pkh, proposal, extra, true); err != nil {
		return nil, err
	}
	var mainUtxoHash [32]byte
	if scenario.WalletMainUtxo != nil {
		mainUtxoHash = hostChain.ComputeMainUtxoHash(scenario.WalletMainUtxo)
	}
	hostChain.setWallet(pkh, &WalletChainData{MainUtxoHash: mainUtxoHash})
	return &c46Env{validity: proposal.ValidityBlocks(), run: func(start, expiry uint64, obs *c46Obs) {
		waits := &c46Waits{}
		action := newDepositSweepAction(logger.With(), hostChain, bitcoinChain, w,
			&c46Signer{waits: waits, obs: obs}, proposal, start, expiry, waits.wait)
		action.requiredFundingTxConfirmations = 1 // fixture transactions have one confirmation
		obs.broadcast, obs.hasBroadcast = action.broadcastTimeout, true
		obs.err = action.execute()
	}}, nil
}

func c46Redemption() (*c46Env, error) {
	scenarios, err := test.LoadRedemptionTestScenarios()
	if err != nil || len(scenarios) == 0 {
		return nil, fmt.Errorf("redemption scenarios: %v", err)
	}
	scenario := scenarios[0]
	hostChain, bitcoinChain := Connect(), newLocalBitcoinChain()
	w := wallet{publicKey: scenario.WalletPublicKey}
	pkh := bitcoin.PublicKeyHash(w.publicKey)
	if err := bitcoinChain.BroadcastTransaction(scenario.InputTransaction); err != nil {
		return nil, err
	}
	scripts := make([]bitcoin.Script, len(scenario.RedemptionRequests))
	for i, request := range scenario.RedemptionRequests {
		hostChain.setPendingRedemptionRequest(pkh, &RedemptionRequest{
			Redeemer: request.Redeemer, RedeemerOutputScript: request.RedeemerOutputScript,
			RequestedAmount: request.RequestedAmount, TreasuryFee: request.TreasuryFee,
			TxMaxFee: request.TxMaxFee, RequestedAt: request.RequestedAt})
		scripts[i] = request.RedeemerOutputScript
	}
	totalFee := int64(0)
	for _, s := range scenario.FeeShares {
		totalFee += s
	}
	proposal := &RedemptionProposal{RedeemersOutputScripts: scripts, RedemptionTxFee: big.NewInt(totalFee)}
	if err := hostChain.setRedemptionProposalValidationResult(pkh, proposal, true); err != nil {
		return nil, err
	}
	var mainUtxoHash [32]byte
	if scenario.WalletMainUtxo != nil {
		mainUtxoHash = hostChain.ComputeMainUtxoHash(scenario.WalletMainUtxo)
	}
	hostChain.setWallet(pkh, &WalletChainData{MainUtxoHash: mainUtxoHash})
	return &c46Env{validity: proposal.ValidityBlocks(), run: func(start, expiry uint64, obs *c46Obs) {
		waits := &c46Waits{}
		action := newRedemptionAction(logger.With(), hostChain, bitcoinChain, w,
			&c46Signer{waits: waits, obs: obs}, proposal, start, expiry, waits.wait)
		action.feeDistribution = func([]*RedemptionRequest) []int64 { return scenario.FeeShares }
		action.transactionShape = RedemptionChangeLast
		obs.broadcast, obs.hasBroadcast = action.broadcastTimeout, true
		obs.err = action.execute()
	}}, nil
}

func c46MovingFunds() (*c46Env, error) {
	scenarios, err := test.LoadMovingFundsTestScenarios()
	if err != nil || len(scenarios) == 0 {
		return nil, fmt.Errorf("moving funds scenarios: %v", err)
	}
	scenario := scenarios[0]
	// the action waits 32 blocks of the host chain for the commitment to confirm: a
	// fast local chain keeps that a latency only
	hostChain, bitcoinChain := Connect(time.Millisecond), newLocalBitcoinChain()
	w := wallet{publicKey: scenario.WalletPublicKey}
	pkh := bitcoin.PublicKeyHash(w.publicKey)
	if err := bitcoinChain.BroadcastTransaction(scenario.InputTransaction); err != nil {
		return nil, err
	}
	proposal := &MovingFundsProposal{TargetWallets: scenario.TargetWallets, MovingFundsTxFee: big.NewInt(scenario.Fee)}
	hostChain.SetMovingFundsParameters(0, 0, 0, 604800, big.NewInt(0), 0, 0, 0, 0, big.NewInt(0), 0)
	if err := hostChain.setMovingFundsProposalValidationResult(pkh, scenario.WalletMainUtxo, proposal, true); err != nil {
		return nil, err
	}
	hostChain.setPastMovingFundsCommitmentSubmittedEvents(
		&MovingFundsCommitmentSubmittedEventFilter{StartBlock: 0}, []*MovingFundsCommitmentSubmittedEvent{})
	hostChain.setWallet(pkh, &WalletChainData{
		MainUtxoHash:                           hostChain.ComputeMainUtxoHash(scenario.WalletMainUtxo),
		MovingFundsTargetWalletsCommitmentHash: hostChain.ComputeMovingFundsCommitmentHash(scenario.TargetWallets),
	})
	return &c46Env{validity: proposal.ValidityBlocks(), run: func(start, expiry uint64, obs *c46Obs) {
		waits := &c46Waits{}
		action := newMovingFundsAction(logger.With(), hostChain, bitcoinChain, w,
			&c46Signer{waits: waits, obs: obs}, proposal, start, expiry, waits.wait)
		obs.broadcast, obs.hasBroadcast = action.broadcastTimeout, true
		obs.err = action.execute()
	}}, nil
}

func c46MovedFundsSweep() (*c46Env, error) {
	scenarios, err := test.LoadMovedFundsSweepTestScenarios()
	if err != nil || len(scenarios) == 0 {
		return nil, fmt.Errorf("moved funds sweep scenarios: %v", err)
	}
	scenario := scenarios[0]
	hostChain, bitcoinChain := Connect(), newLocalBitcoinChain()
	w := wallet{publicKey: scenario.WalletPublicKey}
	pkh := bitcoin.PublicKeyHash(w.publicKey)
	for _, tx := range scenario.InputTransactions {
		if err := bitcoinChain.BroadcastTransaction(tx); err != nil {
			return nil, err
		}
	}
	proposal := &MovedFundsSweepProposal{
		SweepTxFee:               big.NewInt(scenario.Fee),
		MovingFundsTxHash:        scenario.MovedFundsUtxo.Outpoint.TransactionHash,
		MovingFundsTxOutputIndex: scenario.MovedFundsUtxo.Outpoint.OutputIndex,
	}
	if err := hostChain.setMovedFundsSweepProposalValidationResult(pkh, proposal, true); err != nil {
		return nil, err
	}
	var mainUtxoHash [32]byte
	if scenario.WalletMainUtxo != nil {
		mainUtxoHash = hostChain.ComputeMainUtxoHash(scenario.WalletMainUtxo)
	}
	hostChain.setWallet(pkh, &WalletChainData{MainUtxoHash: mainUtxoHash})
	return &c46Env{validity: proposal.ValidityBlocks(), run: func(start, expiry uint64, obs *c46Obs) {
		waits := &c46Waits{}
		action := newMovedFundsSweepAction(logger.With(), hostChain, bitcoinChain, w,
			&c46Signer{waits: waits, obs: obs}, proposal, start, expiry, waits.wait)
		obs.broadcast, obs.hasBroadcast = action.broadcastTimeout, true
		obs.err = action.execute()
	}}, nil
}

var c46Builders = map[string]func() (*c46Env, error){
	"deposit_sweep":     c46DepositSweep,
	"redemption":        c46Redemption,
	"moving_funds":      c46MovingFunds,
	"moved_funds_sweep": c46MovedFundsSweep,
	// heartbeat: enough members active; too few active, first failure; too few active,
	// failure threshold reached => inactivity claim
	"heartbeat_active":   func() (*c46Env, error) { return c46Heartbeat(heartbeatSigningMinimumActiveMembers, 1) },
	"heartbeat_inactive": func() (*c46Env, error) { return c46Heartbeat(heartbeatSigningMinimumActiveMembers-1, 0) },
	"heartbeat_claim": func() (*c46Env, error) {
		return c46Heartbeat(heartbeatSigningMinimumActiveMembers-1, heartbeatConsecutiveFailureThreshold-1)
	},
}

var c46Actions = []string{"deposit_sweep", "redemption", "moving_funds", "moved_funds_sweep",
	"heartbeat_active", "heartbeat_inactive", "heartbeat_claim"}

// c46Check runs one case on the real action code and applies the statement.
func c46Check(r *vrep.R, env *c46Env, c c46Case) string {
	expiry := c.Start + env.validity // node.go: processCoordinationResult
	var obs c46Obs
	p, stack := vrep.Guard(func() { env.run(c.Start, expiry, &obs) })
	fp := fmt.Sprintf("%s start=%d", c.Action, c.Start)
	report := func(kind, what string) {
		size := 1
		if c.Start > 1<<20 {
			size = 2
		}
		r.ViolationMin(c.Action+":"+kind, size, fp, what, c)
	}
	if p != nil {
		report("panic", fmt.Sprintf("action panicked: %v\n%s", p, stack))
		return c.Action + " panic"
	}
	if !obs.signCalled {
		// the alphabet only has proposals that pass validation: not reaching the
		// signing step means the harness environment is broken, not the property
		r.Cap(fmt.Sprintf("%s did not reach the signing step: %v", c.Action, obs.err))
		return c.Action + " no-signing"
	}
	if !obs.signBound {
		report("signing-unbounded", "the context handed to the signing executor is never cancelled by a block deadline")
		return c.Action + " unbounded"
	}
	if obs.signStart < c.Start {
		report("signing-before-start", fmt.Sprintf("signing starts at block %d, before the action start %d", obs.signStart, c.Start))
	}
	if obs.signDeadline > expiry || expiry-obs.signDeadline < c46DocumentedSigningMargin {
		report("signing-margin", fmt.Sprintf("signing may run until block %d; the proposal expires at %d, the documented safety margin is %d blocks",
			obs.signDeadline, expiry, c46DocumentedSigningMargin))
	}
	loop := uint64(signingAttemptsLimit * signingAttemptMaximumBlocks())
	if obs.signDeadline < obs.signStart || obs.signDeadline-obs.signStart < loop {
		report("signing-too-short", fmt.Sprintf("signing window [%d, %d] is shorter than one full retry loop of a single message (%d attempts x %d blocks = %d)",
			obs.signStart, obs.signDeadline, signingAttemptsLimit, signingAttemptMaximumBlocks(), loop))
	}
	class := c.Action + " signed"
	if obs.hasBroadcast {
		// the broadcast starts when signing ends, at the latest at the signing deadline
		blocks := uint64((obs.broadcast + c46NominalBlockTime - 1) / c46NominalBlockTime)
		if obs.signDeadline+blocks > expiry || obs.signDeadline+blocks < obs.signDeadline {
			report("broadcast-after-expiry", fmt.Sprintf("a broadcast started at the signing deadline %d may last %v = %d blocks at 12 s/block, past the expiry %d",
				obs.signDeadline, obs.broadcast, blocks, expiry))
		}
		class += "+broadcast-bound"
	}
	if obs.claimCalled {
		class += "+claim"
		if !obs.claimBound {
			report("claim-unbounded", "the context handed to the inactivity claim executor is never cancelled by a block deadline")
		} else {
			if obs.claimDeadline > expiry || expiry-obs.claimDeadline < c46DocumentedHeartbeatMargin {
				report("claim-margin", fmt.Sprintf("the inactivity claim may run until block %d; the proposal expires at %d, the documented safety margin is %d blocks",
					obs.claimDeadline, expiry, c46DocumentedHeartbeatMargin))
			}
			if obs.claimDeadline <= obs.signDeadline {
				report("claim-window-empty", fmt.Sprintf("the inactivity claim must end by block %d but signing may run until %d: no time is left for the claim",
					obs.claimDeadline, obs.signDeadline))
			}
		}
	}
	if c.Action == "heartbeat_claim" && !obs.claimCalled {
		r.Cap(fmt.Sprintf("heartbeat_claim did not reach the inactivity claim: %v", obs.err))
	}
	return class
}

func TestVerifC46(t *testing.T) {
	r := vrep.Start(t, "C46", "deadlines")
	defer r.Finish()
	envs := map[string]*c46Env{}
	var envMu sync.Mutex
	envOf := func(action string) *c46Env {
		envMu.Lock()
		defer envMu.Unlock()
		if e, ok := envs[action]; ok {
			return e
		}
		b, ok := c46Builders[action]
		if !ok {
			t.Fatalf("unknown action %q", action)
		}
		e, err := b()
		if err != nil {
			t.Fatalf("cannot build the environment of %s: %v", action, err)
		}
		envs[action] = e
		return e
	}
	if rd := r.ReplayData(); rd != nil {
		var c c46Case
		if json.Unmarshal(rd, &c) == nil && c.Action != "" {
			c46Check(r, envOf(c.Action), c)
		}
		return
	}
	windows, mfWindows := 1024, 64
	if r.Thorough() {
		windows, mfWindows = 16384, 512
	}
	var cases []c46Case
	for _, a := range c46Actions {
		env := envOf(a)
		n := windows
		if a == "moving_funds" {
			n = mfWindows // every execution waits 32 blocks of the local chain
		}
		// action start = end of the coordination window with index k (node.go)
		for k := 1; k <= n; k++ {
			cases = append(cases, c46Case{a, newCoordinationWindow(uint64(k) * coordinationFrequencyBlocks).endBlock()})
		}
		for _, s := range []uint64{0, 1, 299, 300, 301, 1<<32 - 1, 1 << 32, 1<<32 + 1000, 1 << 63, ^uint64(0) - env.validity - 1, ^uint64(0) - env.validity} {
			cases = append(cases, c46Case{a, s})
		}
	}
	r.Set("cases", len(cases))
	r.Sample(cases[0])
	r.Sample(cases[len(cases)-1])
	vrep.Parallel(vrep.Workers(), len(cases), func(i int) {
		if r.Expired() {
			return
		}
		c := cases[i]
		r.Outcome(c46Check(r, envOf(c.Action), c))
		r.Eval(1)
		r.Distinct(fmt.Sprintf("%s|%d", c.Action, c.Start))
	})
}
