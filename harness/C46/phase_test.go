//go:build verif

package tbtc

// C46, unit "phase": the real signingExecutor.sign (signing.go), signingRetryLoop.start
// (signing_loop.go), withCancelOnBlock (node.go) and the real announcer, all recompiled
// for the cooperative scheduler, on a virtual block clock. The caller bounds the signing
// phase exactly as the wallet actions do - a context made by withCancelOnBlock(..., D) -
// and the node controls one seat of a 3-seat wallet whose other members never announce
// readiness, so every attempt ends after its announcement phase and the retry loop keeps
// going until something stops it. The deadline computations of unit "deadlines" say when
// the signing phase is *meant* to end; this unit checks that the executor really ends it
// there: in every schedule in which the executor is not starved (no preemption; the miner
// produces a block only when nothing else can run) no attempt activity happens after
// min(D, loop timeout block) and sign returns by then.

import (
	"context"
	"crypto/ecdsa"
	"encoding/json"
	"fmt"
	"math/big"
	"testing"

	"github.com/keep-network/keep-core/internal/testutils"
	"github.com/keep-network/keep-core/pkg/chain"
	"github.com/keep-network/keep-core/pkg/chain/local_v1"
	"github.com/keep-network/keep-core/pkg/generator"
	"github.com/keep-network/keep-core/pkg/net"
	"github.com/keep-network/keep-core/pkg/operator"
	"github.com/keep-network/keep-core/pkg/protocol/group"
	"github.com/keep-network/keep-core/pkg/verifshim/vctx"
	"github.com/keep-network/keep-core/pkg/verifshim/vrep"
	"github.com/keep-network/keep-core/pkg/verifshim/vsched"
)

type c46pReg struct {
	ctx context.Context
	h   func(net.Message)
}

type c46pSend struct {
	block uint64
	typ   string
	alive bool // the caller's signing context was still alive
}

type c46pMsg struct {
	payload interface{}
	key     []byte
	typ     string
}

func (m *c46pMsg) TransportSenderID() net.TransportIdentifier { return nil }
func (m *c46pMsg) SenderPublicKey() []byte                    { return m.key }
func (m *c46pMsg) Payload() interface{}                       { return m.payload }
func (m *c46pMsg) Type() string                               { return m.typ }
func (m *c46pMsg) Seqno() uint64                              { return 0 }

// c46pChan is the wallet's broadcast channel: whatever is sent reaches every live handler
// (the sender's own included); nobody else ever sends.
type c46pChan struct {
	caller context.Context
	env    *c46pEnv
	regs   []*c46pReg
	sends  []c46pSend
}

func (c *c46pChan) Name() string { return "c46-phase" }
func (c *c46pChan) Send(ctx context.Context, m net.TaggedMarshaler, _ ...net.RetransmissionStrategy) error {
	vsched.Yield()
	c.sends = append(c.sends, c46pSend{c.env.now, m.Type(), c.caller != nil && c.caller.Err() == nil})
	msg := &c46pMsg{payload: m, key: c.env.key, typ: m.Type()}
	for _, r := range c.regs {
		if r.ctx.Err() == nil {
			r.h(msg)
		}
	}
	return nil
}
func (c *c46pChan) Recv(ctx context.Context, h func(net.Message)) {
	vsched.Yield()
	c.regs = append(c.regs, &c46pReg{ctx, h})
}
func (c *c46pChan) SetUnmarshaler(func() net.TaggedUnmarshaler) {}
func (c *c46pChan) SetFilter(net.BroadcastChannelFilter) error  { return nil }

type c46pEnv struct {
	now  uint64
	key  []byte
	stop bool
	// failBlock: every wait for exactly this block height fails (the waiter for the
	// action's deadline block cannot be set up: chain client trouble at that call site)
	failBlock uint64
}

// waitForBlock: like node.waitForBlockHeight, returns when the block is reached or the
// context is done.
func (e *c46pEnv) waitForBlock(ctx context.Context, b uint64) error {
	if e.failBlock != 0 && b == e.failBlock {
		vsched.Yield()
		return fmt.Errorf("block counter failure")
	}
	if b > e.now && ctx.Err() == nil {
		vsched.Block(fmt.Sprintf("block>=%d", b), func() bool { return e.now >= b || ctx.Err() != nil })
	}
	return nil
}
func (e *c46pEnv) currentBlock() (uint64, error) { return e.now, nil }

type c46pScenario struct {
	Start uint64 `json:"start"`
	// Deadline is the block at which the caller's signing phase ends, relative to Start
	// (the action's proposal expiry block minus the safety margin).
	Deadline uint64 `json:"deadline_offset"`
	Limit    uint   `json:"attempts_limit"`
	// FailDeadlineWait: waiting for the caller's deadline block fails whenever it is tried.
	FailDeadlineWait bool `json:"fail_deadline_wait,omitempty"`
}

func (sc c46pScenario) String() string {
	s := fmt.Sprintf("phase start=%d deadline=start+%d attempts-limit=%d", sc.Start, sc.Deadline, sc.Limit)
	if sc.FailDeadlineWait {
		s += " deadline-wait-fails"
	}
	return s
}

type c46pResult struct {
	ch         *c46pChan
	err        error
	returned   bool
	returnedAt uint64
	signed     bool
}

var c46pOperators []chain.Address
var c46pValidator *group.MembershipValidator
var c46pKey []byte
var c46pWalletKey *ecdsa.PublicKey

func c46pSetup(t *testing.T) {
	signing := local_v1.Connect(3, 2).Signing()
	for i := 0; i < 3; i++ {
		_, pub, err := operator.GenerateKeyPair(local_v1.DefaultCurve)
		if err != nil {
			t.Fatal(err)
		}
		addr, err := signing.PublicKeyToAddress(pub)
		if err != nil {
			t.Fatal(err)
		}
		c46pOperators = append(c46pOperators, addr)
		if i == 0 {
			c46pKey = operator.MarshalUncompressed(pub)
		}
	}
	c46pWalletKey = createMockSigner(t).wallet.publicKey
	c46pValidator = group.NewMembershipValidator(&testutils.MockLogger{}, c46pOperators, signing)
}

func c46pBody(sc c46pScenario, res *c46pResult) func() {
	return func() {
		*res = c46pResult{}
		env := &c46pEnv{now: sc.Start - 2, key: c46pKey}
		if sc.FailDeadlineWait {
			env.failBlock = sc.Start + sc.Deadline
		}
		ch := &c46pChan{env: env}
		res.ch = ch
		end := sc.Start + uint64(sc.Limit*signingAttemptMaximumBlocks()) + 60
		if d := sc.Start + sc.Deadline + 60; d > end {
			end = d
		}
		vsched.GoLow("miner", func() {
			for env.now < end && !env.stop {
				env.now++
				vsched.Yield()
			}
		})
		w := wallet{publicKey: c46pWalletKey, signingGroupOperators: c46pOperators}
		executor := newSigningExecutor(
			[]*signer{{wallet: w, signingGroupMemberIndex: 1}},
			ch, c46pValidator,
			&GroupParameters{GroupSize: 3, GroupQuorum: 3, HonestThreshold: 2},
			generator.NewProtocolLatch(),
			env.currentBlock, env.waitForBlock, sc.Limit,
		)
		root, cancelRoot := vctx.WithCancel(context.Background())
		// exactly what walletTransactionExecutor.signTransaction / heartbeatAction do
		signingCtx, cancelSigningCtx := withCancelOnBlock(root, sc.Start+sc.Deadline, env.waitForBlock)
		ch.caller = signingCtx
		sig, _, _, err := executor.sign(signingCtx, big.NewInt(100), sc.Start)
		res.err, res.returned, res.returnedAt, res.signed = err, true, env.now, sig != nil
		cancelSigningCtx()
		cancelRoot()
		env.stop = true
	}
}

type c46pReplay struct {
	Phase   c46pScenario `json:"phase"`
	Choices []int        `json:"choices"`
	Bound   int          `json:"bound"`
}

func c46pEvaluate(r *vrep.R, sc c46pScenario, bound int, s *vsched.Sched, res *c46pResult) {
	r.Eval(1)
	r.Transition(len(s.Choices()) + 1)
	rp := c46pReplay{sc, s.Choices(), bound}
	fail := func(kind, what string) {
		r.ViolationMin("phase-"+kind, len(s.Choices()), fmt.Sprintf("%s %s", sc, kind), what+" [schedule "+s.Trace()+"]", rp)
	}
	if p, stack := s.Failed(); p != nil {
		fail("panic", fmt.Sprintf("panic: %v\n%s", p, stack))
		return
	}
	if s.StepCapHit {
		r.Cap("phase step-cap")
		return
	}
	if !res.returned {
		fail("no-return", fmt.Sprintf("signingExecutor.sign never returned; blocked: %v", s.Deadlock))
		return
	}
	loopTimeout := sc.Start + uint64(sc.Limit*signingAttemptMaximumBlocks())
	phaseEnd := sc.Start + sc.Deadline
	if loopTimeout < phaseEnd {
		phaseEnd = loopTimeout
	}
	if res.signed {
		fail("signed", "a signature was returned although no other member ever announced readiness")
	}
	timely := s.Cost() == 0
	last := uint64(0)
	for _, sd := range res.ch.sends {
		// (waits return at once when their context is over, as node.waitForBlockHeight's
		// do: what a loop still sends on its way out of a cancelled phase is not the
		// start of a signing phase)
		if sd.block < sc.Start && sd.alive {
			fail("early", fmt.Sprintf("a %s message was sent at block %d, before the signing start block %d", sd.typ, sd.block, sc.Start))
		}
		if sd.block > last {
			last = sd.block
		}
	}
	if timely {
		if last > phaseEnd {
			fail("activity-after-phase-end", fmt.Sprintf("the signing phase ends at block %d (caller's deadline %d, retry loop timeout %d) but the executor still sent a readiness announcement at block %d (announcements at %v)",
				phaseEnd, sc.Start+sc.Deadline, loopTimeout, last, res.ch.sends))
		}
		if res.returnedAt > phaseEnd {
			fail("late-return", fmt.Sprintf("the signing phase ends at block %d (caller's deadline %d, retry loop timeout %d) but sign returned at block %d", phaseEnd, sc.Start+sc.Deadline, loopTimeout, res.returnedAt))
		}
	}
	r.Outcome(fmt.Sprintf("phase: announcements=%d returned%+d timely=%v", len(res.ch.sends), int64(res.returnedAt)-int64(phaseEnd), timely))
	r.State(fmt.Sprintf("%s|%d|%d", sc, len(res.ch.sends), res.returnedAt))
	if s.Trace() != "" {
		r.Distinct(fmt.Sprintf("%s|%v", sc, s.Choices()))
	}
}

func TestVerifC46Phase(t *testing.T) {
	r := vrep.Start(t, "C46", "phase")
	defer r.Finish()
	c46pSetup(t)
	var res c46pResult
	opts := func(bound int) vsched.Options {
		return vsched.Options{Bound: bound, MaxSteps: 200000, Stop: r.Expired}
	}
	if rd := r.ReplayData(); rd != nil {
		var rp c46pReplay
		if json.Unmarshal(rd, &rp) == nil && rp.Phase.Limit > 0 {
			s := vsched.Replay(rp.Choices, opts(rp.Bound), c46pBody(rp.Phase, &res))
			c46pEvaluate(r, rp.Phase, rp.Bound, s, &res)
		}
		return
	}
	L := uint64(signingAttemptMaximumBlocks())
	offsets := []uint64{0, 1, 3, 6, 20, L + 1, L + 3, 2*L + 20}
	limits := []uint{signingAttemptsLimit}
	maxBound := 1
	if r.Thorough() {
		offsets = append(offsets, 2, 7, L, L+6, 3*L+1, uint64(signingAttemptsLimit)*L-1, uint64(signingAttemptsLimit)*L, uint64(signingAttemptsLimit)*L+1, uint64(signingAttemptsLimit)*L+40)
		limits = append(limits, 2)
		maxBound = 2
	} else {
		offsets = append(offsets, uint64(signingAttemptsLimit)*L+40)
	}
	idx := 0
	for _, lim := range limits {
		for _, off := range offsets {
			idx++
			if !r.Mine(idx) {
				continue
			}
			sc := c46pScenario{Start: 1000, Deadline: off, Limit: lim, FailDeadlineWait: off == 3 || off == L+3}
			if idx == 1 {
				a := vsched.Replay(nil, opts(0), c46pBody(sc, &res))
				oa := fmt.Sprint(res.ch.sends, res.returnedAt, res.err)
				b := vsched.Replay(nil, opts(0), c46pBody(sc, &res))
				if !vsched.SameRun(a, b) || oa != fmt.Sprint(res.ch.sends, res.returnedAt, res.err) {
					t.Fatalf("NONDETERMINISM: two runs of the empty script differ")
				}
				r.ReplayedTwice(1)
				r.Sample(map[string]any{"scenario": sc.String(), "observed": oa})
			}
			for bound := 0; bound <= maxBound; bound++ {
				st := vsched.Explore(opts(bound), c46pBody(sc, &res), func(s *vsched.Sched) { c46pEvaluate(r, sc, bound, s, &res) })
				if bound == maxBound {
					r.Add("phase_execs_at_max_bound", st.Execs)
				}
				if st.Stopped {
					r.Cap(fmt.Sprintf("%s bound %d not completed", sc, bound))
				}
			}
		}
	}
	r.Set("phase_max_preemption_bound", maxBound)
}
