//go:build verif

package tbtc

// C46, second unit: the start / expiry derivation of node.go itself. A real node that
// controls a signer of the wallet processes a coordination result (heartbeat proposal)
// through the production processCoordinationResult. The host chain's block counter is
// frozen at the action start block and records every block height anybody starts waiting
// for; heights lying more than one signing attempt ahead are the cancellation signals of
// the signing phase (the action's signing deadline and the retry loop's own timeout).
// No sleeping or polling: the recorder signals a channel when such a wait is registered.

import (
	"context"
	"fmt"
	"math/big"
	"sync"
	"testing"
	"time"

	"github.com/keep-network/keep-core/pkg/bitcoin"
	"github.com/keep-network/keep-core/pkg/generator"
	"github.com/keep-network/keep-core/pkg/net/local"
	"github.com/keep-network/keep-core/pkg/verifshim/vrep"
)

type c46nBlocks struct {
	mu      sync.Mutex
	current uint64
	far     chan uint64
	farFrom uint64
}

func (b *c46nBlocks) WaitForBlockHeight(h uint64) error {
	w, _ := b.BlockHeightWaiter(h)
	<-w
	return nil
}
func (b *c46nBlocks) BlockHeightWaiter(h uint64) (<-chan uint64, error) {
	b.mu.Lock()
	defer b.mu.Unlock()
	w := make(chan uint64, 1)
	if h <= b.current {
		w <- b.current
		close(w)
		return w, nil
	}
	if h > b.farFrom {
		select {
		case b.far <- h:
		default:
		}
	}
	return w, nil // never fires: the chain is frozen
}
func (b *c46nBlocks) CurrentBlock() (uint64, error)             { return b.current, nil }
func (b *c46nBlocks) WatchBlocks(context.Context) <-chan uint64 { return make(chan uint64) }

func TestVerifC46Node(t *testing.T) {
	r := vrep.Start(t, "C46", "node")
	defer r.Finish()
	if r.ReplayData() != nil {
		return
	}
	windows := []uint64{900, 1800, 900 * 7}
	if r.Thorough() {
		windows = append(windows, 900*2, 900*100, 900*4000)
	}
	oneAttempt := uint64(signingAttemptMaximumBlocks())
	oneLoop := uint64(signingAttemptsLimit) * oneAttempt
	for _, cb := range windows {
		window := newCoordinationWindow(cb)
		start := window.endBlock()
		proposal := &HeartbeatProposal{Message: [16]byte{0xff, 0xff, 0xff, 0xff, 0xff, 0xff, 0xff, 0xff, 0, 0, 0, 0, 0, 0, 0, byte(cb / 900)}}
		expiry := start + proposal.ValidityBlocks()
		blocks := &c46nBlocks{current: start, far: make(chan uint64, 32), farFrom: start + oneAttempt}
		localChain := Connect()
		localChain.blockCounter = blocks
		signer := createMockSigner(t)
		walletPublicKeyHash := bitcoin.PublicKeyHash(signer.wallet.publicKey)
		walletID, err := localChain.CalculateWalletID(signer.wallet.publicKey)
		if err != nil {
			t.Fatal(err)
		}
		localChain.setWallet(walletPublicKeyHash, &WalletChainData{EcdsaWalletID: walletID, State: StateLive})
		localChain.setOperatorsEligibleStake(big.NewInt(100000))
		localChain.setHeartbeatProposalValidationResult(proposal, true)
		n, err := newNode(
			&GroupParameters{GroupSize: 5, GroupQuorum: 4, HonestThreshold: 3},
			localChain, newLocalBitcoinChain(), local.Connect(),
			createMockKeyStorePersistence(t, signer), &mockPersistenceHandle{},
			generator.StartScheduler(), &mockCoordinationProposalGenerator{}, Config{},
		)
		if err != nil {
			t.Fatal(err)
		}
		processCoordinationResult(n, &coordinationResult{wallet: signer.wallet, window: window, proposal: proposal})
		// the two cancellation signals of the signing phase: the action's deadline and the
		// retry loop's timeout
		var signals []uint64
		guard := time.After(180 * time.Second)
	collect:
		for len(signals) < 2 {
			select {
			case h := <-blocks.far:
				signals = append(signals, h)
			case <-guard:
				break collect
			}
		}
		r.Eval(1)
		r.Distinct(fmt.Sprintf("heartbeat window %d", cb))
		if len(signals) < 2 {
			r.Cap(fmt.Sprintf("window %d: the signing phase did not register its deadlines within 180 s", cb))
			continue
		}
		end := signals[0]
		for _, h := range signals {
			if h < end {
				end = h
			}
		}
		fp := fmt.Sprintf("node heartbeat coordination-block=%d", cb)
		switch {
		case end < start+oneLoop:
			r.ViolationMin("node-signing-too-short", int(cb/900), fp, fmt.Sprintf("action starts at block %d (end of the coordination window), its signing phase is cancelled at block %d: %d blocks, shorter than one full retry loop of %d blocks", start, end, end-start, oneLoop), nil)
		case end > expiry:
			r.ViolationMin("node-signing-after-expiry", int(cb/900), fp, fmt.Sprintf("signing phase may run until block %d, the proposal expires at block %d (start %d + validity %d)", end, expiry, start, proposal.ValidityBlocks()), nil)
		default:
			r.Outcome("signing phase inside the validity window, >= one retry loop")
		}
		r.Sample(map[string]any{"coordination_block": cb, "action_start": start, "expiry": expiry, "signing_phase_cancelled_at": end})
	}
}
