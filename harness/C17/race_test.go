//go:build verif

package retransmission

import (
	"context"
	"sync"
	"testing"

	"github.com/keep-network/keep-core/internal/testutils"
	"github.com/keep-network/keep-core/pkg/verifshim/vrep"
)

// Free-running pass under the race detector: the same bodies as the scheduled harness
// but with real goroutines. A cooperative scheduler's hand-offs are happens-before
// edges, so unsynchronised accesses must be caught here. This is a side condition of
// the model checker (DRF => the interleavings at synchronisation points are all there
// is), not the deciding enumeration.
func TestVerifC17Race(t *testing.T) {
	r := vrep.Start(t, "C17", "race")
	defer r.Finish()
	if r.ReplayData() != nil {
		return
	}
	rounds := 50
	if r.Thorough() {
		rounds = 2000
	}
	for _, strat := range []string{"standard", "backoff"} {
		for i := 0; i < rounds; i++ {
			ticks := make(chan uint64)
			ticker := NewTicker(ticks)
			ctx, cancel := context.WithCancel(context.Background())
			var s Strategy = WithStandardStrategy()
			if strat == "backoff" {
				s = WithBackoffStrategy()
			}
			var mu sync.Mutex
			n := 0
			ScheduleRetransmissions(ctx, &testutils.MockLogger{}, ticker, func() error {
				mu.Lock()
				n++
				mu.Unlock()
				return nil
			}, s)
			for k := 0; k < 8; k++ {
				ticks <- uint64(k)
			}
			cancel()
			// the tick channel is deliberately not closed: closing it while the
			// registration goroutine of ScheduleRetransmissions is still running
			// provokes a (real, but ticker-shutdown related) race between
			// Ticker.start's final cleanup and Ticker.onTick that is outside C17.
			r.Eval(1)
			r.Distinct(strat)
		}
	}
	r.Outcome("completed")
	r.Sample("8 ticks through NewTicker with real goroutines, both strategies, under -race")
}
