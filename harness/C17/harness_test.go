//go:build verif

package retransmission

import (
	"context"
	"encoding/json"
	"fmt"
	"testing"
	"time"

	"github.com/keep-network/keep-core/internal/testutils"
	"github.com/keep-network/keep-core/pkg/net"
	"github.com/keep-network/keep-core/pkg/verifshim/vctx"
	"github.com/keep-network/keep-core/pkg/verifshim/vrep"
	"github.com/keep-network/keep-core/pkg/verifshim/vsched"
	"github.com/keep-network/keep-core/pkg/verifshim/vtime"
)

// c17Counting wraps the strategy under test and counts Tick invocations: T is the
// number of ticks the strategy was asked about, which the schedule is defined over.
type c17Counting struct {
	inner Strategy
	obs   *c17Obs
}

func (c *c17Counting) Tick(fn RetransmitFn) error {
	c.obs.calls++
	return c.inner.Tick(fn)
}

// c17Backoff is the reference: retransmissions after T ticks = |{1,3,6,11,20,...} ∩ [1,T]|.
func c17Backoff(T int) int {
	n, next, delay := 0, 1, 1
	for next <= T {
		n++
		next += delay + 1
		delay *= 2
	}
	return n
}

type c17Scenario struct {
	Strategy string `json:"strategy"`
	Ticks    int    `json:"ticks"`
}

type c17Obs struct {
	calls, retrans, sentBeforeCancel, sent int
	failedAt                               int // which retransmission attempt returned an error (0 = none)
	cancelled                              bool
}

func c17Body(sc c17Scenario, obs *c17Obs) func() {
	return func() {
		*obs = c17Obs{}
		ticks := make(chan uint64)
		ticker := NewTicker(ticks)
		ctx, cancel := vctx.WithCancel(context.Background())
		var inner Strategy
		// through the factory the channels use
		if sc.Strategy == "backoff" {
			inner = WithStrategy(net.BackoffRetransmissionStrategy)
		} else {
			inner = WithStrategy(net.StandardRetransmissionStrategy)
		}
		st := &c17Counting{inner: inner, obs: obs}
		// one retransmission attempt may fail (publish error): the schedule is a schedule
		// of attempts, a failed attempt must not derail the following ones
		failAt := 0 // 0 = never, k = the k-th attempt fails
		if sc.Strategy == "backoff" {
			failAt = vsched.Choose(2, "retransmitErrAt")
		}
		ScheduleRetransmissions(ctx, &testutils.MockLogger{}, ticker, func() error {
			obs.retrans++
			if obs.retrans == failAt {
				obs.failedAt = failAt
				return fmt.Errorf("publish failed")
			}
			return nil
		}, st)
		// cancellation position: 0 = never, k = after k ticks were handed over
		cancelAt := vsched.Choose(sc.Ticks+2, "cancelAt") - 1
		for i := 0; i < sc.Ticks; i++ {
			if cancelAt == i {
				cancel()
				obs.cancelled = true
				obs.sentBeforeCancel = obs.sent
			}
			vsched.Send(ticks, uint64(i))
			obs.sent++
		}
		if cancelAt == sc.Ticks {
			cancel()
			obs.cancelled = true
			obs.sentBeforeCancel = obs.sent
		}
		vsched.Close(ticks)
		// quiescence: every spawned tick goroutine has run to completion when no thread
		// is enabled any more; the explorer's check callback reads obs then.
		_ = cancel
		vsched.Block("quiesce", func() bool { return false })
	}
}

// c17SharedBody: one Ticker serves several messages, as a channel's does. Message A's
// context ends after the first tick, message C is sent after A's handler is gone; B lives
// throughout. got[i] counts the retransmissions of message i.
func c17SharedBody(strategy net.RetransmissionStrategy, got *[3]int, ticksSeen *[3]int) func() {
	return func() {
		*got, *ticksSeen = [3]int{}, [3]int{}
		ticks := make(chan uint64)
		ticker := NewTicker(ticks)
		var ctxs [3]context.Context
		var cancels [3]context.CancelFunc
		// a virtual pause returns only when nothing else can run: every registration and
		// every tick callback has finished before the next event
		settle := func() { vtime.Sleep(time.Millisecond) }
		send := func(i int) {
			ctxs[i], cancels[i] = vctx.WithCancel(context.Background())
			ScheduleRetransmissions(ctxs[i], &testutils.MockLogger{}, ticker, func() error {
				got[i]++
				return nil
			}, WithStrategy(strategy))
			settle()
		}
		tick := func(n uint64) {
			vsched.Send(ticks, n)
			settle()
			for i := range ctxs {
				if ctxs[i] != nil && ctxs[i].Err() == nil {
					ticksSeen[i]++
				}
			}
		}
		send(0)
		send(1)
		tick(1)
		cancels[0]()
		tick(2) // the ticker drops A's handler here
		send(2)
		for n := uint64(3); n <= 8; n++ {
			tick(n)
		}
		vsched.Close(ticks)
		vsched.Block("quiesce", func() bool { return false })
	}
}

func TestVerifC17(t *testing.T) {
	r := vrep.Start(t, "C17", "sched")
	defer r.Finish()
	type replay struct {
		Scenario c17Scenario `json:"scenario"`
		Choices  []int       `json:"choices"`
		Bound    int         `json:"bound"`
	}
	var obs c17Obs
	evaluate := func(sc c17Scenario, bound int, s *vsched.Sched) {
		r.Eval(1)
		r.Transition(len(s.Choices()) + 1)
		key := fmt.Sprintf("%s/%d calls=%d retrans=%d cancelled=%v sentBefore=%d", sc.Strategy, sc.Ticks, obs.calls, obs.retrans, obs.cancelled, obs.sentBeforeCancel)
		r.State(key)
		r.Outcome(fmt.Sprintf("%s calls=%d retrans=%d", sc.Strategy, obs.calls, obs.retrans))
		if s.Trace() != "" {
			r.Distinct(fmt.Sprintf("%s/%d|%v", sc.Strategy, sc.Ticks, s.Choices()))
		}
		rp := replay{sc, s.Choices(), bound}
		fail := func(kind, what string) {
			r.ViolationMin(sc.Strategy+":"+kind, len(s.Choices()), fmt.Sprintf("%s ticks=%d %s", sc.Strategy, sc.Ticks, kind), what+" [schedule "+s.Trace()+"]", rp)
		}
		if p, stack := s.Failed(); p != nil {
			fail("panic", fmt.Sprintf("panic: %v\n%s", p, stack))
			return
		}
		if s.StepCapHit {
			r.Cap("step-cap")
			return
		}
		want := obs.calls
		if sc.Strategy == "backoff" {
			want = c17Backoff(obs.calls)
		}
		if obs.retrans != want {
			fail("schedule", fmt.Sprintf("%d ticks reached the strategy but %d retransmissions happened, schedule demands %d", obs.calls, obs.retrans, want))
		}
		if obs.cancelled && obs.calls > obs.sentBeforeCancel {
			fail("after-cancel", fmt.Sprintf("%d ticks were handed over before cancellation returned but the strategy was ticked %d times", obs.sentBeforeCancel, obs.calls))
		}
	}
	if rd := r.ReplayData(); rd != nil {
		var rp replay
		if json.Unmarshal(rd, &rp) == nil && rp.Scenario.Strategy != "" {
			s := vsched.Replay(rp.Choices, vsched.Options{Bound: rp.Bound}, c17Body(rp.Scenario, &obs))
			evaluate(rp.Scenario, rp.Bound, s)
		}
		return
	}
	// Two messages sent with the same strategy kind have independent schedules (a channel
	// asks the factory for a strategy per Send): alternate 12 ticks between two strategies
	// from the factory, sequentially.
	for _, kind := range []net.RetransmissionStrategy{net.StandardRetransmissionStrategy, net.BackoffRetransmissionStrategy} {
		a, b := WithStrategy(kind), WithStrategy(kind)
		var na, nb int
		for i := 1; i <= 12; i++ {
			_ = a.Tick(func() error { na++; return nil })
			_ = b.Tick(func() error { nb++; return nil })
			wa := i
			if kind == net.BackoffRetransmissionStrategy {
				wa = c17Backoff(i)
			}
			if na != wa || nb != wa {
				r.ViolationMin("two-messages", i, fmt.Sprintf("two messages, strategy %v", kind),
					fmt.Sprintf("after %d ticks each, two messages sent with the same strategy were retransmitted %d and %d times, the schedule demands %d for each", i, na, nb, wa), nil)
				break
			}
		}
		r.Eval(1)
	}
	// shared ticker: messages come and go, the others keep their schedule
	if shard0, _ := r.Shard(); shard0 == 0 {
		for _, kind := range []net.RetransmissionStrategy{net.StandardRetransmissionStrategy, net.BackoffRetransmissionStrategy} {
			var got, seen [3]int
			for bound := 0; bound <= 1; bound++ {
				vsched.Explore(vsched.Options{Bound: bound, Stop: r.Expired}, c17SharedBody(kind, &got, &seen), func(s *vsched.Sched) {
					r.Eval(1)
					if p, stack := s.Failed(); p != nil {
						r.ViolationMin("shared-ticker-panic", len(s.Choices()), fmt.Sprintf("shared ticker %v", kind), fmt.Sprintf("panic: %v\n%s", p, stack), nil)
						return
					}
					for i, name := range []string{"A (context ended after tick 1)", "B (live throughout)", "C (sent after A's handler was dropped)"} {
						want := seen[i]
						if kind == net.BackoffRetransmissionStrategy {
							want = c17Backoff(seen[i])
						}
						if i == 0 {
							if got[0] != want {
								r.ViolationMin("shared-ticker", i, fmt.Sprintf("shared ticker %v message %d", kind, i), fmt.Sprintf("message %s was retransmitted %d times", name, got[0]), nil)
							}
							continue
						}
						if got[i] != want {
							r.ViolationMin("shared-ticker", i, fmt.Sprintf("shared ticker %v message %d", kind, i),
								fmt.Sprintf("three messages on one ticker: message %s saw %d ticks while its context was live and was retransmitted %d times, the schedule demands %d [schedule %s]", name, seen[i], got[i], want, s.Trace()), nil)
						}
					}
					r.Outcome(fmt.Sprintf("shared ticker %v: retransmissions %v", kind, got))
				})
			}
		}
	}
	maxBound, ticks := 2, []int{3}
	if r.Thorough() {
		maxBound, ticks = 2, []int{3, 4, 6}
	}
	shard, shards := r.Shard()
	first := true
	for _, strat := range []string{"standard", "backoff"} {
		for _, n := range ticks {
			sc := c17Scenario{strat, n}
			if first && shard == 0 {
				// determinism gate: the same script twice must observe the same thing
				a := vsched.Replay(nil, vsched.Options{}, c17Body(sc, &obs))
				ca := obs
				b := vsched.Replay(nil, vsched.Options{}, c17Body(sc, &obs))
				if !vsched.SameRun(a, b) || ca != obs {
					t.Fatalf("NONDETERMINISM: two runs of the empty script differ")
				}
				r.ReplayedTwice(1)
				r.Sample(map[string]any{"scenario": sc, "script": a.Choices(), "observed": fmt.Sprintf("%+v", obs)})
			}
			first = false
			// the space grows by more than two orders of magnitude per unit of the bound for
			// the long tick sequences: they are explored to bound 1
			maxBound := maxBound
			if n >= 6 {
				maxBound = 1
				if strat == "backoff" {
					maxBound = 0 // 2 * 10^3 executions without preemption, > 10^8 with one
				}
			}
			for bound := 0; bound <= maxBound; bound++ {
				if bound < maxBound && shard != 0 {
					continue // lower bounds are subsumed; run once for the iteration report
				}
				st := vsched.Explore(vsched.Options{Bound: bound, Shard: shard, Shards: shards, Stop: r.Expired},
					c17Body(sc, &obs), func(s *vsched.Sched) { evaluate(sc, bound, s) })
				if bound < maxBound {
					// iterated bounds: counted by shard 0 only, as a report
					r.Set(fmt.Sprintf("%s.%d.bound%d_execs", strat, n, bound), st.Execs)
				} else {
					r.Add(fmt.Sprintf("%s.%d.bound%d_execs", strat, n, bound), st.Execs)
				}
				if st.Stopped {
					r.Cap(fmt.Sprintf("%s/%d bound %d not completed", strat, n, bound))
				}
				if r.Violations() > 0 && bound < maxBound {
					break // fewest-deviation counterexample found; no need to go deeper
				}
			}
		}
	}
	r.Set("max_preemption_bound", maxBound)
}
