//go:build verif

package gjkr

// C01 / C02 harness: the real GJKR state objects of every member are driven in
// lock-step (Initiate on all, adversary rewrites what corrupt members emitted,
// delivery through the real Receive with per-member operator keys, Next), with one
// group view per member (NewMember), so that disagreement between honest members is
// observable. The adversary's behaviour per corrupt member and phase, and the
// cross-sender delivery order per receiver, are venum choices; the explorer runs
// every script within the deviation bound.

import (
	"bytes"
	"context"
	"crypto/rand"
	"encoding/hex"
	"encoding/json"
	"fmt"
	"math/big"
	"sort"
	"strings"
	"testing"

	bn256 "github.com/ethereum/go-ethereum/crypto/bn256/cloudflare"

	"github.com/keep-network/keep-core/internal/testutils"
	"github.com/keep-network/keep-core/pkg/chain"
	"github.com/keep-network/keep-core/pkg/crypto/ephemeral"
	"github.com/keep-network/keep-core/pkg/net"
	"github.com/keep-network/keep-core/pkg/operator"
	"github.com/keep-network/keep-core/pkg/protocol/group"
	"github.com/keep-network/keep-core/pkg/protocol/state"
	"github.com/keep-network/keep-core/pkg/verifshim/venum"
	"github.com/keep-network/keep-core/pkg/verifshim/vrep"
	"github.com/keep-network/keep-core/pkg/verifshim/vsched"
)

// ---- environment fakes ----

// c01Signing maps operator public key bytes to an address (hex of the bytes); the
// membership validator needs nothing else.
type c01Signing struct{}

func (c01Signing) Address() chain.Address                          { return "" }
func (c01Signing) PublicKey() []byte                               { return nil }
func (c01Signing) Sign([]byte) ([]byte, error)                     { return nil, nil }
func (c01Signing) Verify([]byte, []byte) (bool, error)             { return false, nil }
func (c01Signing) VerifyWithPublicKey(_, _, _ []byte) (bool, error) { return false, nil }
func (c01Signing) PublicKeyToAddress(pk *operator.PublicKey) (chain.Address, error) {
	return "", fmt.Errorf("unused")
}
func (c01Signing) PublicKeyBytesToAddress(pk []byte) chain.Address {
	return chain.Address(hex.EncodeToString(pk))
}

type c01Chan struct{ out []net.TaggedMarshaler }

func (c *c01Chan) Name() string { return "c01" }
func (c *c01Chan) Send(_ context.Context, m net.TaggedMarshaler, _ ...net.RetransmissionStrategy) error {
	c.out = append(c.out, m)
	return nil
}
func (c *c01Chan) Recv(context.Context, func(net.Message))          {}
func (c *c01Chan) SetUnmarshaler(func() net.TaggedUnmarshaler)      {}
func (c *c01Chan) SetFilter(net.BroadcastChannelFilter) error       { return nil }

type c01Msg struct {
	payload interface{}
	key     []byte
	typ     string
}

func (m *c01Msg) TransportSenderID() net.TransportIdentifier { return nil }
func (m *c01Msg) SenderPublicKey() []byte                     { return m.key }
func (m *c01Msg) Payload() interface{}                        { return m.payload }
func (m *c01Msg) Type() string                                { return m.typ }
func (m *c01Msg) Seqno() uint64                               { return 0 }

// ---- configuration ----

type c01Cfg struct {
	N       int   `json:"n"`
	T       int   `json:"t"`
	Corrupt []int `json:"corrupt"`
	// Operators[i] is the operator holding seat i+1 (nil: one operator per seat).
	Operators []int `json:"operators,omitempty"`
	// Plan fixes the behaviour of corrupt members in given phases ("m4.commitment" ->
	// option name) without spending deviations: a joint plan of the corrupt coalition on
	// top of which the bounded exploration runs. Used by the quick tier to reach
	// two-member interactions that otherwise need two deviations.
	Plan map[string]string `json:"plan,omitempty"`
}

func (c c01Cfg) String() string {
	s := fmt.Sprintf("n=%d,t=%d,corrupt=%v", c.N, c.T, c.Corrupt)
	if c.Operators != nil {
		s += fmt.Sprintf(",operators=%v", c.Operators)
	}
	if len(c.Plan) > 0 {
		var ks []string
		for k, v := range c.Plan {
			ks = append(ks, k+"="+v)
		}
		sort.Strings(ks)
		s += ",plan=" + strings.Join(ks, "+")
	}
	return s
}

func (c c01Cfg) isCorrupt(i int) bool {
	for _, x := range c.Corrupt {
		if x == i {
			return true
		}
	}
	return false
}

func (c c01Cfg) honest() []int {
	var h []int
	for i := 1; i <= c.N; i++ {
		if !c.isCorrupt(i) {
			h = append(h, i)
		}
	}
	return h
}

func (c c01Cfg) key(i int) []byte {
	if c.Operators != nil {
		return []byte{0xa0, byte(c.Operators[i-1])}
	}
	return []byte{0xa0, byte(i)}
}

// ---- one member ----

type c01Member struct {
	idx     int
	st      state.SyncState
	ch      *c01Chan
	corrupt bool
	err     error // fatal error returned by Initiate/Next
}

type c01View struct {
	core *memberCore
	ek   *EphemeralKeyPairGeneratingMember
	sk   *SymmetricKeyGeneratingMember
	cm   *CommittingMember
	cv   *CommitmentsVerifyingMember
	sh   *SharingMember
	rv   *RevealingMember
}

func c01ViewOf(st state.SyncState) c01View {
	var v c01View
	switch s := st.(type) {
	case *ephemeralKeyPairGenerationState:
		v.ek = s.member
	case *symmetricKeyGenerationState:
		v.sk = s.member
	case *commitmentState:
		v.cm = s.member
	case *commitmentsVerificationState:
		v.cv = s.member
	case *sharesJustificationState:
		v.cv = s.member.CommitmentsVerifyingMember
	case *qualificationState:
		v.cv = s.member.CommitmentsVerifyingMember
	case *pointsShareState:
		v.sh = s.member
	case *pointsValidationState:
		v.sh = s.member
	case *pointsJustificationState:
		v.sh = s.member.SharingMember
	case *keyRevealState:
		v.rv = s.member
	case *reconstructionState:
		v.rv = s.member.RevealingMember
	case *combinationState:
		v.rv = s.member.RevealingMember
	case *finalizationState:
		v.rv = s.member.RevealingMember
	}
	if v.rv != nil {
		v.sh = v.rv.SharingMember
	}
	if v.sh != nil {
		v.cv = v.sh.CommitmentsVerifyingMember
	}
	if v.cv != nil {
		v.cm = v.cv.CommittingMember
	}
	if v.cm != nil {
		v.sk = v.cm.SymmetricKeyGeneratingMember
	}
	if v.sk != nil {
		v.ek = v.sk.EphemeralKeyPairGeneratingMember
	}
	if v.ek != nil {
		v.core = v.ek.memberCore
	}
	return v
}

func c01Sorted(xs []group.MemberIndex) string {
	ys := append([]group.MemberIndex{}, xs...)
	sort.Slice(ys, func(i, j int) bool { return ys[i] < ys[j] })
	return fmt.Sprint(ys)
}

func c01Keys[V any](m map[group.MemberIndex]V) string {
	var ks []group.MemberIndex
	for k := range m {
		ks = append(ks, k)
	}
	return c01Sorted(ks)
}

// ---- the run ----

type c01Run struct {
	cfg     c01Cfg
	c       *venum.C
	members []*c01Member // index 0 unused
	r       *vrep.R
	phase   int
	notes   []string
}

func (run *c01Run) note(format string, a ...any) {
	run.notes = append(run.notes, fmt.Sprintf(format, a...))
}

// roundTrip passes a forged/mutated message through the wire format, as the network
// would; a message the real decoder refuses never reaches a member.
func c01RoundTrip(m net.TaggedMarshaler) (out net.TaggedMarshaler, ok bool) {
	defer func() {
		if r := recover(); r != nil {
			out, ok = nil, false
		}
	}()
	b, err := m.Marshal()
	if err != nil {
		return nil, false
	}
	var u net.TaggedUnmarshaler
	switch m.(type) {
	case *EphemeralPublicKeyMessage:
		u = &EphemeralPublicKeyMessage{}
	case *MemberCommitmentsMessage:
		u = &MemberCommitmentsMessage{}
	case *PeerSharesMessage:
		u = &PeerSharesMessage{}
	case *SecretSharesAccusationsMessage:
		u = &SecretSharesAccusationsMessage{}
	case *MemberPublicKeySharePointsMessage:
		u = &MemberPublicKeySharePointsMessage{}
	case *PointsAccusationsMessage:
		u = &PointsAccusationsMessage{}
	case *MisbehavedEphemeralKeysMessage:
		u = &MisbehavedEphemeralKeysMessage{}
	default:
		return nil, false
	}
	if err := u.Unmarshal(b); err != nil {
		return nil, false
	}
	return u.(net.TaggedMarshaler), true
}

type c01Out struct {
	msg     net.TaggedMarshaler
	mutated bool
}

func c01RandScalar() *big.Int {
	for {
		k, err := rand.Int(rand.Reader, bn256.Order)
		if err == nil && k.Sign() > 0 {
			return k
		}
	}
}

func c01FreshKeyPair() *ephemeral.KeyPair {
	kp, err := ephemeral.GenerateKeyPair()
	if err != nil {
		panic(err)
	}
	return kp
}

// option is one adversarial behaviour of a corrupt member in one phase.
type c01Option struct {
	name  string
	apply func(outs []c01Out) []c01Out
}

func c01CopyEph(m *EphemeralPublicKeyMessage) *EphemeralPublicKeyMessage {
	c := &EphemeralPublicKeyMessage{senderID: m.senderID, sessionID: m.sessionID, ephemeralPublicKeys: map[group.MemberIndex]*ephemeral.PublicKey{}}
	for k, v := range m.ephemeralPublicKeys {
		c.ephemeralPublicKeys[k] = v
	}
	return c
}

func c01CopyShares(m *PeerSharesMessage) *PeerSharesMessage {
	c := newPeerSharesMessage(m.senderID, m.sessionID)
	for k, v := range m.shares {
		c.shares[k] = v
	}
	return c
}

func c01CopyPriv(m map[group.MemberIndex]*ephemeral.PrivateKey) map[group.MemberIndex]*ephemeral.PrivateKey {
	c := map[group.MemberIndex]*ephemeral.PrivateKey{}
	for k, v := range m {
		c[k] = v
	}
	return c
}

// options builds the behaviour menu of corrupt member j for the messages it just
// emitted in the current state. Option 0 is always "honest".
func (run *c01Run) options(j int, st state.SyncState, outs []c01Out) []c01Option {
	cfg := run.cfg
	view := c01ViewOf(st)
	others := func() []int { // members other than j, honest first
		var o []int
		o = append(o, cfg.honest()...)
		for _, x := range cfg.Corrupt {
			if x != j {
				o = append(o, x)
			}
		}
		return o
	}()
	honest := cfg.honest()
	opts := []c01Option{{"honest", func(o []c01Out) []c01Out { return o }}}
	add := func(name string, f func(o []c01Out) []c01Out) {
		opts = append(opts, c01Option{name, f})
	}
	silent := func(o []c01Out) []c01Out { return nil }
	mut := func(m net.TaggedMarshaler) c01Out { return c01Out{m, true} }

	switch st.(type) {
	case *ephemeralKeyPairGenerationState:
		orig := outs[0].msg.(*EphemeralPublicKeyMessage)
		add("silent", silent)
		for _, v := range honest {
			v := v
			add(fmt.Sprintf("omitKeyFor%d", v), func(o []c01Out) []c01Out {
				m := c01CopyEph(orig)
				delete(m.ephemeralPublicKeys, group.MemberIndex(v))
				return []c01Out{mut(m)}
			})
			add(fmt.Sprintf("replaceKeyFor%d", v), func(o []c01Out) []c01Out {
				m := c01CopyEph(orig)
				m.ephemeralPublicKeys[group.MemberIndex(v)] = c01FreshKeyPair().PublicKey
				return []c01Out{mut(m)}
			})
			add(fmt.Sprintf("forgeAs%dThenHonest", v), func(o []c01Out) []c01Out {
				m := c01CopyEph(orig)
				m.senderID = group.MemberIndex(v)
				delete(m.ephemeralPublicKeys, group.MemberIndex(v))
				m.ephemeralPublicKeys[group.MemberIndex(j)] = c01FreshKeyPair().PublicKey
				return []c01Out{mut(m), o[0]}
			})
		}
		add("wrongSession", func(o []c01Out) []c01Out {
			m := c01CopyEph(orig)
			m.sessionID = "other-session"
			return []c01Out{mut(m)}
		})
		add("dupHonestThenMutated", func(o []c01Out) []c01Out {
			m := c01CopyEph(orig)
			delete(m.ephemeralPublicKeys, group.MemberIndex(honest[0]))
			return []c01Out{o[0], mut(m)}
		})
		add("dupMutatedThenHonest", func(o []c01Out) []c01Out {
			m := c01CopyEph(orig)
			delete(m.ephemeralPublicKeys, group.MemberIndex(honest[0]))
			return []c01Out{mut(m), o[0]}
		})
		add("selfIndexZero", func(o []c01Out) []c01Out {
			m := c01CopyEph(orig)
			m.senderID = 0
			return []c01Out{mut(m)}
		})

	case *commitmentState:
		var sharesMsg *PeerSharesMessage
		var comMsg *MemberCommitmentsMessage
		for _, o := range outs {
			switch m := o.msg.(type) {
			case *PeerSharesMessage:
				sharesMsg = m
			case *MemberCommitmentsMessage:
				comMsg = m
			}
		}
		if sharesMsg == nil || comMsg == nil {
			return opts
		}
		cm := view.cm
		add("silent", silent)
		add("sharesOnly", func(o []c01Out) []c01Out { return []c01Out{{sharesMsg, false}} })
		add("commitmentsOnly", func(o []c01Out) []c01Out { return []c01Out{{comMsg, false}} })
		add("commitmentsFirst", func(o []c01Out) []c01Out { return []c01Out{{comMsg, false}, {sharesMsg, false}} })
		badShare := func(m *PeerSharesMessage, v int) {
			key, ok := cm.symmetricKeys[group.MemberIndex(v)]
			if !ok {
				return
			}
			s := cm.evaluateMemberShare(group.MemberIndex(v), cm.secretCoefficients)
			s = new(big.Int).Mod(new(big.Int).Add(s, big.NewInt(1)), bn256.Order)
			_ = m.addShares(group.MemberIndex(v), s, big.NewInt(7), key)
		}
		for _, v := range honest {
			v := v
			add(fmt.Sprintf("noSharesFor%d", v), func(o []c01Out) []c01Out {
				m := c01CopyShares(sharesMsg)
				delete(m.shares, group.MemberIndex(v))
				return []c01Out{mut(m), {comMsg, false}}
			})
			add(fmt.Sprintf("garbageSharesFor%d", v), func(o []c01Out) []c01Out {
				m := c01CopyShares(sharesMsg)
				m.shares[group.MemberIndex(v)] = &peerShares{[]byte{1, 2, 3}, []byte{4, 5, 6}}
				return []c01Out{mut(m), {comMsg, false}}
			})
			add(fmt.Sprintf("inconsistentSharesFor%d", v), func(o []c01Out) []c01Out {
				m := c01CopyShares(sharesMsg)
				badShare(m, v)
				return []c01Out{mut(m), {comMsg, false}}
			})
		}
		for _, v := range cfg.Corrupt {
			v := v
			if v == j {
				continue
			}
			add(fmt.Sprintf("inconsistentSharesFor%d", v), func(o []c01Out) []c01Out {
				m := c01CopyShares(sharesMsg)
				badShare(m, v)
				return []c01Out{mut(m), {comMsg, false}}
			})
		}
		add("inconsistentSharesForAll", func(o []c01Out) []c01Out {
			m := c01CopyShares(sharesMsg)
			for _, v := range others {
				badShare(m, v)
			}
			return []c01Out{mut(m), {comMsg, false}}
		})
		add("tooFewCommitments", func(o []c01Out) []c01Out {
			m := &MemberCommitmentsMessage{senderID: comMsg.senderID, sessionID: comMsg.sessionID,
				commitments: append([]*bn256.G1{}, comMsg.commitments[:len(comMsg.commitments)-1]...)}
			return []c01Out{{sharesMsg, false}, mut(m)}
		})
		add("tooManyCommitments", func(o []c01Out) []c01Out {
			m := &MemberCommitmentsMessage{senderID: comMsg.senderID, sessionID: comMsg.sessionID,
				commitments: append(append([]*bn256.G1{}, comMsg.commitments...), new(bn256.G1).ScalarBaseMult(big.NewInt(5)))}
			return []c01Out{{sharesMsg, false}, mut(m)}
		})
		add("dupSharesHonestThenBad", func(o []c01Out) []c01Out {
			m := c01CopyShares(sharesMsg)
			delete(m.shares, group.MemberIndex(honest[0]))
			return []c01Out{{sharesMsg, false}, mut(m), {comMsg, false}}
		})
		add("dupSharesBadThenHonest", func(o []c01Out) []c01Out {
			m := c01CopyShares(sharesMsg)
			badShare(m, honest[0])
			return []c01Out{mut(m), {sharesMsg, false}, {comMsg, false}}
		})

	case *commitmentsVerificationState, *pointsValidationState:
		// accusation phases (P4 / P8)
		if len(outs) == 0 {
			return opts
		}
		var keys map[group.MemberIndex]*ephemeral.PrivateKey
		rebuild := func(k map[group.MemberIndex]*ephemeral.PrivateKey) net.TaggedMarshaler {
			switch m := outs[0].msg.(type) {
			case *SecretSharesAccusationsMessage:
				return &SecretSharesAccusationsMessage{senderID: m.senderID, sessionID: m.sessionID, accusedMembersKeys: k}
			case *PointsAccusationsMessage:
				return &PointsAccusationsMessage{senderID: m.senderID, sessionID: m.sessionID, accusedMembersKeys: k}
			}
			return nil
		}
		switch m := outs[0].msg.(type) {
		case *SecretSharesAccusationsMessage:
			keys = m.accusedMembersKeys
		case *PointsAccusationsMessage:
			keys = m.accusedMembersKeys
		}
		ek := view.ek
		add("silent", silent)
		for _, v := range others {
			v := v
			kp, ok := ek.ephemeralKeyPairs[group.MemberIndex(v)]
			if !ok {
				continue
			}
			add(fmt.Sprintf("falselyAccuse%d", v), func(o []c01Out) []c01Out {
				k := c01CopyPriv(keys)
				k[group.MemberIndex(v)] = kp.PrivateKey
				return []c01Out{mut(rebuild(k))}
			})
			add(fmt.Sprintf("accuse%dWithWrongKey", v), func(o []c01Out) []c01Out {
				k := c01CopyPriv(keys)
				k[group.MemberIndex(v)] = c01FreshKeyPair().PrivateKey
				return []c01Out{mut(rebuild(k))}
			})
		}
		add("accuseIndexZero", func(o []c01Out) []c01Out {
			k := c01CopyPriv(keys)
			k[0] = c01FreshKeyPair().PrivateKey
			return []c01Out{mut(rebuild(k))}
		})
		add("accuseIndexBeyondGroup", func(o []c01Out) []c01Out {
			k := c01CopyPriv(keys)
			k[group.MemberIndex(cfg.N+1)] = c01FreshKeyPair().PrivateKey
			return []c01Out{mut(rebuild(k))}
		})
		add("accuseSelf", func(o []c01Out) []c01Out {
			k := c01CopyPriv(keys)
			k[group.MemberIndex(j)] = c01FreshKeyPair().PrivateKey
			return []c01Out{mut(rebuild(k))}
		})
		add("dropOwnAccusations", func(o []c01Out) []c01Out {
			return []c01Out{mut(rebuild(map[group.MemberIndex]*ephemeral.PrivateKey{}))}
		})

	case *pointsShareState:
		if len(outs) == 0 {
			return opts
		}
		orig := outs[0].msg.(*MemberPublicKeySharePointsMessage)
		rebuild := func(p []*bn256.G2) net.TaggedMarshaler {
			return &MemberPublicKeySharePointsMessage{senderID: orig.senderID, sessionID: orig.sessionID, publicKeySharePoints: p}
		}
		add("silent", silent)
		add("tooFewPoints", func(o []c01Out) []c01Out {
			return []c01Out{mut(rebuild(append([]*bn256.G2{}, orig.publicKeySharePoints[:len(orig.publicKeySharePoints)-1]...)))}
		})
		add("pointsInvalidForAll", func(o []c01Out) []c01Out {
			p := append([]*bn256.G2{}, orig.publicKeySharePoints...)
			p[0] = new(bn256.G2).Add(p[0], new(bn256.G2).ScalarBaseMult(big.NewInt(3)))
			return []c01Out{mut(rebuild(p))}
		})
		// points that verify exactly for the receivers in F (|F| <= t): add
		// delta(x) = c * prod_{f in F}(x - f), which vanishes on F only.
		shifted := func(F []int) []*bn256.G2 {
			coeff := []*big.Int{big.NewInt(1)} // polynomial in x, ascending powers
			for _, f := range F {
				next := make([]*big.Int, len(coeff)+1)
				for i := range next {
					next[i] = big.NewInt(0)
				}
				for i, c := range coeff {
					next[i+1].Add(next[i+1], c)
					next[i].Sub(next[i], new(big.Int).Mul(c, big.NewInt(int64(f))))
				}
				coeff = next
			}
			p := append([]*bn256.G2{}, orig.publicKeySharePoints...)
			for k := 0; k < len(coeff) && k < len(p); k++ {
				d := new(big.Int).Mod(coeff[k], bn256.Order)
				if d.Sign() == 0 {
					continue
				}
				p[k] = new(bn256.G2).Add(p[k], new(bn256.G2).ScalarBaseMult(d))
			}
			return p
		}
		var subsets [][]int
		for _, a := range honest {
			subsets = append(subsets, []int{a})
		}
		if cfg.T >= 2 {
			for x := 0; x < len(honest); x++ {
				for y := x + 1; y < len(honest); y++ {
					subsets = append(subsets, []int{honest[x], honest[y]})
				}
			}
		}
		for _, F := range subsets {
			F := F
			add(fmt.Sprintf("pointsValidOnlyFor%v", F), func(o []c01Out) []c01Out {
				return []c01Out{mut(rebuild(shifted(F)))}
			})
		}
		// more points than T+1: the extra coefficients come from delta(x) = prod over ALL
		// honest receivers (x - f), so every honest member's share check would pass
		if len(honest) > cfg.T {
			add("tooManyPointsValidForAllHonest", func(o []c01Out) []c01Out {
				coeff := []*big.Int{big.NewInt(1)}
				for _, f := range honest {
					next := make([]*big.Int, len(coeff)+1)
					for i := range next {
						next[i] = big.NewInt(0)
					}
					for i, c := range coeff {
						next[i+1].Add(next[i+1], c)
						next[i].Sub(next[i], new(big.Int).Mul(c, big.NewInt(int64(f))))
					}
					coeff = next
				}
				p := append([]*bn256.G2{}, orig.publicKeySharePoints...)
				for k := 0; k < len(coeff); k++ {
					d := new(big.Int).Mod(coeff[k], bn256.Order)
					dp := new(bn256.G2).ScalarBaseMult(d)
					if k < len(p) {
						if d.Sign() != 0 {
							p[k] = new(bn256.G2).Add(p[k], dp)
						}
					} else {
						p = append(p, dp)
					}
				}
				return []c01Out{mut(rebuild(p))}
			})
		}
		add("dupPointsHonestThenBad", func(o []c01Out) []c01Out {
			return []c01Out{o[0], mut(rebuild(shifted(honest[:1])))}
		})
		add("dupPointsBadThenHonest", func(o []c01Out) []c01Out {
			return []c01Out{mut(rebuild(shifted(honest[:1]))), o[0]}
		})

	case *keyRevealState:
		if len(outs) == 0 {
			return opts
		}
		orig := outs[0].msg.(*MisbehavedEphemeralKeysMessage)
		rebuild := func(k map[group.MemberIndex]*ephemeral.PrivateKey) net.TaggedMarshaler {
			return &MisbehavedEphemeralKeysMessage{senderID: orig.senderID, sessionID: orig.sessionID, privateKeys: k}
		}
		ek := view.ek
		add("silent", silent)
		var expected []group.MemberIndex
		for k := range orig.privateKeys {
			expected = append(expected, k)
		}
		sort.Slice(expected, func(a, b int) bool { return expected[a] < expected[b] })
		for _, e := range expected {
			e := e
			add(fmt.Sprintf("omitRevealOf%d", e), func(o []c01Out) []c01Out {
				k := c01CopyPriv(orig.privateKeys)
				delete(k, e)
				return []c01Out{mut(rebuild(k))}
			})
			add(fmt.Sprintf("wrongRevealOf%d", e), func(o []c01Out) []c01Out {
				k := c01CopyPriv(orig.privateKeys)
				k[e] = c01FreshKeyPair().PrivateKey
				return []c01Out{mut(rebuild(k))}
			})
		}
		for _, v := range others {
			v := v
			if _, isExp := orig.privateKeys[group.MemberIndex(v)]; isExp {
				continue
			}
			kp, ok := ek.ephemeralKeyPairs[group.MemberIndex(v)]
			if !ok {
				continue
			}
			add(fmt.Sprintf("revealKeyOf%d", v), func(o []c01Out) []c01Out {
				k := c01CopyPriv(orig.privateKeys)
				k[group.MemberIndex(v)] = kp.PrivateKey
				return []c01Out{mut(rebuild(k))}
			})
		}
		if kp, ok := c01AnyKey(ek); ok {
			add("revealKeyOfSelf", func(o []c01Out) []c01Out {
				k := c01CopyPriv(orig.privateKeys)
				k[group.MemberIndex(j)] = kp
				return []c01Out{mut(rebuild(k))}
			})
		}
		add("revealIndexBeyondGroup", func(o []c01Out) []c01Out {
			k := c01CopyPriv(orig.privateKeys)
			k[group.MemberIndex(cfg.N+1)] = c01FreshKeyPair().PrivateKey
			return []c01Out{mut(rebuild(k))}
		})
	}
	return opts
}

func c01AnyKey(ek *EphemeralKeyPairGeneratingMember) (*ephemeral.PrivateKey, bool) {
	var ks []group.MemberIndex
	for k := range ek.ephemeralKeyPairs {
		ks = append(ks, k)
	}
	if len(ks) == 0 {
		return nil, false
	}
	sort.Slice(ks, func(a, b int) bool { return ks[a] < ks[b] })
	return ek.ephemeralKeyPairs[ks[0]].PrivateKey, true
}

func c01PhaseName(st state.SyncState) string {
	return strings.TrimSuffix(strings.TrimPrefix(fmt.Sprintf("%T", st), "*gjkr."), "State")
}

// step runs one protocol state on all members. It returns false when the protocol is over.
func (run *c01Run) step() bool {
	cfg := run.cfg
	ctx := context.Background()
	alive := false
	var sample state.SyncState
	for i := 1; i <= cfg.N; i++ {
		m := run.members[i]
		if m.st == nil || m.err != nil {
			continue
		}
		alive = true
		if sample == nil {
			sample = m.st
		}
		m.ch.out = nil
		if p, stack := vrep.Guard(func() { m.err = m.st.Initiate(ctx) }); p != nil {
			m.err = fmt.Errorf("panic in %s.Initiate: %v\n%s", c01PhaseName(m.st), p, stack)
		}
	}
	if !alive {
		return false
	}
	run.phase++
	// what every member emitted, after the adversary had its say
	emitted := make([][]c01Out, cfg.N+1)
	anyMsg := false
	for i := 1; i <= cfg.N; i++ {
		m := run.members[i]
		if m.st == nil || m.err != nil {
			continue
		}
		var outs []c01Out
		for _, o := range m.ch.out {
			outs = append(outs, c01Out{o, false})
		}
		if m.corrupt && len(outs) > 0 {
			opts := run.options(i, m.st, outs)
			label := fmt.Sprintf("m%d.%s", i, c01PhaseName(m.st))
			if forced, ok := cfg.Plan[label]; ok {
				found := false
				for _, o := range opts {
					if o.name == forced {
						outs = o.apply(outs)
						found = true
						break
					}
				}
				if !found {
					run.note("plan option %s=%s not available", label, forced)
				}
			} else if len(opts) > 1 {
				k := run.c.Deviate(len(opts), label)
				if k != 0 {
					run.note("%s=%s", label, opts[k].name)
				}
				outs = opts[k].apply(outs)
			}
		}
		// mutated messages go through the wire format like any network message
		var final []c01Out
		for _, o := range outs {
			if o.mutated {
				rt, ok := c01RoundTrip(o.msg)
				if !ok {
					run.note("m%d message refused by the decoder", i)
					continue
				}
				o.msg = rt
			}
			final = append(final, o)
		}
		emitted[i] = final
		if len(final) > 0 {
			anyMsg = true
		}
	}
	if anyMsg {
		// cross-sender delivery order: ascending for everyone by default; one honest
		// receiver seeing the senders in descending order costs one deviation.
		honest := cfg.honest()
		d := run.c.Deviate(1+len(honest), fmt.Sprintf("order.%s", c01PhaseName(sample)))
		desc := 0
		if d > 0 {
			desc = honest[d-1]
			run.note("order.%s: member %d receives senders in descending order", c01PhaseName(sample), desc)
		}
		for r := 1; r <= cfg.N; r++ {
			rm := run.members[r]
			if rm.st == nil || rm.err != nil {
				continue
			}
			deliver := func(s int) {
				if s == r {
					return
				}
				for _, o := range emitted[s] {
					msg := &c01Msg{payload: o.msg, key: cfg.key(s), typ: o.msg.Type()}
					if p, stack := vrep.Guard(func() {
						if err := rm.st.Receive(msg); err != nil && rm.err == nil {
							rm.err = fmt.Errorf("%s.Receive: %v", c01PhaseName(rm.st), err)
						}
					}); p != nil && rm.err == nil {
						rm.err = fmt.Errorf("panic in %s.Receive: %v\n%s", c01PhaseName(rm.st), p, stack)
					}
				}
			}
			if r == desc {
				for s := cfg.N; s >= 1; s-- {
					deliver(s)
				}
			} else {
				for s := 1; s <= cfg.N; s++ {
					deliver(s)
				}
			}
		}
	}
	for i := 1; i <= cfg.N; i++ {
		m := run.members[i]
		if m.st == nil || m.err != nil {
			continue
		}
		var next state.SyncState
		if p, stack := vrep.Guard(func() {
			var err error
			next, err = m.st.Next()
			if err != nil {
				m.err = err
			}
		}); p != nil {
			m.err = fmt.Errorf("panic in %s.Next: %v\n%s", c01PhaseName(m.st), p, stack)
		}
		if m.err == nil {
			if next == nil {
				// finalization reached: keep the last state for the oracle
				m.st = &c01Done{m.st}
			} else {
				m.st = next
			}
		}
	}
	return true
}

// c01Done marks a member whose machine returned (Next() == nil).
type c01Done struct{ state.SyncState }

func (d *c01Done) Initiate(context.Context) error { return nil }

func (run *c01Run) stateKey() string {
	var b strings.Builder
	fmt.Fprintf(&b, "%s|p%d", run.cfg, run.phase)
	for _, h := range run.cfg.honest() {
		m := run.members[h]
		if m.err != nil {
			fmt.Fprintf(&b, "|%d:ERR", h)
			continue
		}
		st := m.st
		if d, ok := st.(*c01Done); ok {
			st = d.SyncState
		}
		v := c01ViewOf(st)
		fmt.Fprintf(&b, "|%d:dq%s,ia%s", h, c01Sorted(v.core.group.DisqualifiedMemberIndexes()), c01Sorted(v.core.group.InactiveMemberIndexes()))
		if v.cv != nil {
			fmt.Fprintf(&b, ",q%s", c01Keys(v.cv.receivedQualifiedSharesS))
		}
		if v.sh != nil {
			fmt.Fprintf(&b, ",v%s", c01Keys(v.sh.receivedValidPeerPublicKeySharePoints))
		}
		if v.rv != nil {
			fmt.Fprintf(&b, ",e%s", c01Sorted(v.rv.expectedMembersForReconstruction))
		}
	}
	return b.String()
}

type c01Replay struct {
	Cfg    c01Cfg `json:"cfg"`
	Script []int  `json:"script"`
	Bound  int    `json:"bound"`
}

// c01Cur is the chooser of the run in progress (one run at a time per process): the
// iteration order of the accusation / revealed-key maps inside protocol.go is routed to
// it through vsched.MapOrder; any non-ascending order costs one deviation (maps with two
// or more entries only occur once a corrupt member deviated).
var c01Cur *venum.C

func init() {
	vsched.MapChooser = func(n int, label string) int {
		if c01Cur == nil {
			return 0
		}
		return c01Cur.Deviate(n, label)
	}
}

// c01Execute runs one script and evaluates the C01 and C02 oracles.
func c01Execute(r01, r02 *vrep.R, cfg c01Cfg, c *venum.C, bound int) {
	c01Cur = c
	defer func() { c01Cur = nil }()
	run := &c01Run{cfg: cfg, c: c, r: r01, members: make([]*c01Member, cfg.N+1)}
	seed := big.NewInt(12345)
	ops := make([]chain.Address, cfg.N)
	for i := 1; i <= cfg.N; i++ {
		ops[i-1] = c01Signing{}.PublicKeyBytesToAddress(cfg.key(i))
	}
	validator := group.NewMembershipValidator(&testutils.MockLogger{}, ops, c01Signing{})
	for i := 1; i <= cfg.N; i++ {
		lm, err := NewMember(&testutils.MockLogger{}, group.MemberIndex(i), cfg.N, cfg.T, validator, seed, "session-1")
		if err != nil {
			panic(err)
		}
		ch := &c01Chan{}
		run.members[i] = &c01Member{idx: i, ch: ch, corrupt: cfg.isCorrupt(i),
			st: &ephemeralKeyPairGenerationState{channel: ch, member: lm.InitializeEphemeralKeysGeneration()}}
	}
	prev := run.stateKey()
	r01.State(prev)
	for step := 0; step < 20; step++ {
		done := true
		for i := 1; i <= cfg.N; i++ {
			if m := run.members[i]; m.err == nil {
				if _, fin := m.st.(*c01Done); !fin {
					done = false
				}
			}
		}
		if done {
			break
		}
		if !run.step() {
			break
		}
		k := run.stateKey()
		r01.State(k)
		r01.Transition(1)
		if r02 != nil {
			r02.State(k)
			r02.Transition(1)
		}
		prev = k
	}
	_ = prev

	// drain the asynchronous public-key-share computation of every member that got
	// that far, otherwise its goroutine stays blocked forever (one per member per run)
	for i := 1; i <= cfg.N; i++ {
		if d, ok := run.members[i].st.(*c01Done); ok && run.members[i].err == nil {
			if fs, ok := d.SyncState.(*finalizationState); ok {
				res := fs.result()
				if cfg.isCorrupt(i) || r02 == nil {
					<-res.groupPublicKeySharesChannel
				}
			}
		}
	}

	// ---- oracles ----
	trace := c.Trace()
	fp := cfg.String() + " " + strings.Join(run.notes, "; ")
	rp := c01Replay{cfg, c.Script(), bound}
	size := c.Used()*100 + len(trace)
	report := func(r *vrep.R, kind, what string) {
		if r == nil {
			return
		}
		r.ViolationMin(kind, size, fp, what+" ["+trace+"]", rp)
	}
	type fin struct {
		idx     int
		res     *Result
		key     []byte
		dq, ia  string
		mis     string
		dqs, ias []group.MemberIndex
	}
	var finishers []fin
	aborted := 0
	for _, h := range cfg.honest() {
		m := run.members[h]
		if m.err != nil {
			aborted++
			em := m.err.Error()
			if len(em) > 70 {
				em = em[:70]
			}
			r01.Outcome("abort: " + strings.Join(run.notes, ";") + " => " + em)
			if strings.Contains(m.err.Error(), "panic in ") {
				report(r01, "honest-panic", fmt.Sprintf("honest member %d crashed: %v", h, m.err))
			}
			continue
		}
		d, ok := m.st.(*c01Done)
		if !ok {
			continue
		}
		fs, ok := d.SyncState.(*finalizationState)
		if !ok {
			report(r01, "wrong-final-state", fmt.Sprintf("honest member %d ended in %T", h, d.SyncState))
			continue
		}
		res := fs.result()
		var kb []byte
		if res.GroupPublicKey != nil {
			kb = res.GroupPublicKey.Marshal()
		}
		g := res.Group
		finishers = append(finishers, fin{h, res, kb, c01Sorted(g.DisqualifiedMemberIndexes()), c01Sorted(g.InactiveMemberIndexes()),
			c01Sorted(append(append([]group.MemberIndex{}, g.DisqualifiedMemberIndexes()...), g.InactiveMemberIndexes()...)),
			g.DisqualifiedMemberIndexes(), g.InactiveMemberIndexes()})
	}
	outcome := fmt.Sprintf("finishers=%d aborted=%d", len(finishers), aborted)
	if len(finishers) > 0 {
		outcome += fmt.Sprintf(" misbehaved=%s", finishers[0].mis)
	}
	r01.Outcome(outcome)
	if aborted > 0 {
		// The statement quantifies over honest members that finish; an abort is not a
		// violation, but it is recorded so that it shows up in the evidence.
		r01.Add("runs_with_honest_abort", 1)
	}
	agree := true
	for _, f := range finishers {
		for _, h := range cfg.honest() {
			for _, x := range f.dqs {
				if int(x) == h {
					agree = false
					report(r01, "honest-disqualified", fmt.Sprintf("honest member %d disqualified honest member %d", f.idx, h))
				}
			}
			for _, x := range f.ias {
				if int(x) == h {
					agree = false
					report(r01, "honest-inactive", fmt.Sprintf("honest member %d marked honest member %d inactive", f.idx, h))
				}
			}
		}
		a := finishers[0]
		if !bytes.Equal(f.key, a.key) {
			agree = false
			report(r01, "key-disagreement", fmt.Sprintf("honest members %d and %d output different group public keys", a.idx, f.idx))
		}
		// The observable the statement names is "the set of inactive and disqualified
		// members": the union (it is what the result conversion publishes as the
		// misbehaved list). Whether a member that both went silent and was proven
		// guilty is filed under IA or DQ may legitimately differ between members
		// (one disqualified it locally before it went silent), so only the union is
		// compared; the split is recorded as an outcome for information.
		if f.mis != a.mis {
			agree = false
			report(r01, "misbehaved-disagreement", fmt.Sprintf("honest member %d has IA+DQ=%s (IA=%s DQ=%s) but member %d has IA+DQ=%s (IA=%s DQ=%s)", a.idx, a.mis, a.ia, a.dq, f.idx, f.mis, f.ia, f.dq))
		} else if f.dq != a.dq || f.ia != a.ia {
			r01.Add("runs_with_different_ia_dq_split", 1)
		}
	}
	if r02 == nil {
		return
	}
	// ---- C02: shares consistent with the group key (only for runs covered by C01) ----
	r02.Outcome(fmt.Sprintf("finishers=%d agree=%v", len(finishers), agree))
	if !agree || len(finishers) == 0 {
		return
	}
	for _, f := range finishers {
		if f.res.GroupPrivateKeyShare == nil || f.res.GroupPublicKey == nil {
			report(r02, "missing-output", fmt.Sprintf("honest member %d finished without key share or group key", f.idx))
			return
		}
	}
	for _, fi := range finishers {
		pub := new(bn256.G2).ScalarBaseMult(fi.res.GroupPrivateKeyShare)
		for _, fj := range finishers {
			if fi.idx == fj.idx {
				continue
			}
			shares := fj.res.GroupPublicKeyShares()
			got, ok := shares[group.MemberIndex(fi.idx)]
			if !ok {
				report(r02, "public-share-missing", fmt.Sprintf("member %d has no public key share for honest member %d", fj.idx, fi.idx))
				continue
			}
			if got.String() != pub.String() {
				report(r02, "public-share-mismatch", fmt.Sprintf("member %d's public key share for member %d differs from G2*z_%d", fj.idx, fi.idx, fi.idx))
			}
		}
	}
	// every (t+1)-subset of honest finishers interpolates to the group key
	k := cfg.T + 1
	if len(finishers) >= k {
		idxs := make([]int, len(finishers))
		for i := range idxs {
			idxs[i] = i
		}
		var rec func(start int, chosen []int)
		rec = func(start int, chosen []int) {
			if len(chosen) == k {
				secret := big.NewInt(0)
				for _, a := range chosen {
					xa := big.NewInt(int64(finishers[a].idx))
					num, den := big.NewInt(1), big.NewInt(1)
					for _, b := range chosen {
						if a == b {
							continue
						}
						xb := big.NewInt(int64(finishers[b].idx))
						num.Mod(num.Mul(num, xb), bn256.Order)
						den.Mod(den.Mul(den, new(big.Int).Sub(xb, xa)), bn256.Order)
					}
					l := new(big.Int).Mul(num, new(big.Int).ModInverse(den, bn256.Order))
					secret.Mod(secret.Add(secret, new(big.Int).Mul(l, finishers[a].res.GroupPrivateKeyShare)), bn256.Order)
				}
				if new(bn256.G2).ScalarBaseMult(secret).String() != finishers[0].res.GroupPublicKey.String() {
					var who []int
					for _, a := range chosen {
						who = append(who, finishers[a].idx)
					}
					report(r02, "interpolation-mismatch", fmt.Sprintf("shares of honest members %v interpolate to a secret whose public key is not the group public key", who))
				}
				r02.Add("subsets_interpolated", 1)
				return
			}
			for i := start; i < len(finishers); i++ {
				rec(i+1, append(chosen, i))
			}
		}
		rec(0, nil)
	}
}

func c01Configs(thorough bool) []c01Cfg {
	var cfgs []c01Cfg
	addAll := func(n, t, maxCorrupt int) {
		cfgs = append(cfgs, c01Cfg{N: n, T: t})
		for a := 1; a <= n; a++ {
			cfgs = append(cfgs, c01Cfg{N: n, T: t, Corrupt: []int{a}})
		}
		if maxCorrupt >= 2 {
			for a := 1; a <= n; a++ {
				for b := a + 1; b <= n; b++ {
					cfgs = append(cfgs, c01Cfg{N: n, T: t, Corrupt: []int{a, b}})
				}
			}
		}
	}
	addAll(3, 1, 1)
	addAll(4, 1, 1)
	plans := []c01Cfg{
		// 4 sends 2 a bad share; 2 (running the honest code) accuses 4 and adds a false
		// accusation of honest member 1 in the same message
		{N: 5, T: 2, Corrupt: []int{2, 4}, Plan: map[string]string{"m4.commitment": "inconsistentSharesFor2", "m2.commitmentsVerification": "falselyAccuse1"}},
		// both fall silent after qualification: two individual keys must be reconstructed
		{N: 5, T: 2, Corrupt: []int{2, 4}, Plan: map[string]string{"m2.pointsShare": "silent", "m4.pointsShare": "silent"}},
		// each reveals, in phase 10, the ephemeral key of the other (still operating) one
		{N: 5, T: 2, Corrupt: []int{1, 2}, Plan: map[string]string{"m1.keyReveal": "revealKeyOf2", "m2.keyReveal": "revealKeyOf1"}},
		// selective points from 2, silent accuser 4
		{N: 5, T: 2, Corrupt: []int{2, 4}, Plan: map[string]string{"m2.pointsShare": "pointsValidOnlyFor[1 3]", "m4.pointsValidation": "silent"}},
	}
	if thorough {
		addAll(5, 2, 2)
		cfgs = append(cfgs, plans...)
		// two seats of one (corrupt) operator
		cfgs = append(cfgs, c01Cfg{N: 5, T: 2, Corrupt: []int{2, 3}, Operators: []int{1, 2, 2, 4, 5}})
	} else {
		cfgs = append(cfgs, c01Cfg{N: 5, T: 2, Corrupt: []int{2, 4}})
		// joint plans of the two corrupt members (each explored with <=1 further deviation)
		cfgs = append(cfgs, plans...)
	}
	return cfgs
}

func c01Main(t *testing.T, id string) {
	r := vrep.Start(t, id, "gjkr")
	defer r.Finish()
	var r01, r02 *vrep.R
	// one exploration serves both ids; each vcheck invocation reports its own oracle
	// (C01 violations are not repeated under C02 and vice versa).
	sink := vrep.Start(c01NullTB{}, "sink", "sink")
	if id == "C01" {
		r01, r02 = r, nil
	} else {
		r01, r02 = sink, r
	}
	if rd := r.ReplayData(); rd != nil {
		var rp c01Replay
		if json.Unmarshal(rd, &rp) == nil && rp.Cfg.N > 0 {
			c := venum.Replay(rp.Script, rp.Bound, func(c *venum.C) { c01Execute(r01, r02, rp.Cfg, c, rp.Bound) })
			_ = c
			r.Eval(1)
		}
		return
	}
	cfgs := c01Configs(r.Thorough())
	for ci, cfg := range cfgs {
		cfg := cfg
		bound := 2
		if !r.Thorough() && cfg.N == 5 {
			bound = 1
		}
		if r.Thorough() && cfg.N <= 4 && len(cfg.Corrupt) > 0 {
			bound = 3
		}
		if len(cfg.Corrupt) == 0 {
			bound = 1 // only delivery orders can deviate
		}
		shard, shards := r.Shard()
		st := venum.Explore(venum.Options{Bound: bound, Workers: 1, Shard: shard, Shards: shards, Stop: r.Expired}, func(c *venum.C) {
			c01Execute(r01, r02, cfg, c, bound)
			r.Eval(1)
			if c.Used() > 0 {
				r.Distinct(cfg.String() + "|" + fmt.Sprint(c.Script()))
			}
		})
		r.Set(fmt.Sprintf("cfg%02d", ci), fmt.Sprintf("%s bound=%d", cfg, bound))
		r.Add(fmt.Sprintf("cfg%02d.runs", ci), st.Runs)
		if st.Stopped {
			r.Cap(fmt.Sprintf("%s bound %d not completed", cfg, bound))
		}
		if ci < 3 {
			r.Sample(map[string]any{"cfg": cfg, "bound": bound, "scripts": st.Runs})
		}
	}
	if id == "C02" {
		// C02 counts the same executions; carry over the state/transition counts
		r.Set("shares_graph_with", "C01")
	}
}

type c01NullTB struct{}

func (c01NullTB) Logf(string, ...any)   {}
func (c01NullTB) Fatalf(string, ...any) {}

func TestVerifC01(t *testing.T) { c01Main(t, "C01") }
func TestVerifC02(t *testing.T) { c01Main(t, "C02") }
