//go:build verif

package libp2p

import (
	"bytes"
	"context"
	"encoding/hex"
	"encoding/json"
	"fmt"
	"testing"

	"github.com/btcsuite/btcd/btcec/v2"
	pubsub "github.com/libp2p/go-libp2p-pubsub"
	pubsubpb "github.com/libp2p/go-libp2p-pubsub/pb"
	libp2pcrypto "github.com/libp2p/go-libp2p/core/crypto"
	cryptopb "github.com/libp2p/go-libp2p/core/crypto/pb"
	"github.com/libp2p/go-libp2p/core/peer"
	"google.golang.org/protobuf/proto"

	"github.com/keep-network/keep-core/pkg/net"
	"github.com/keep-network/keep-core/pkg/net/gen/pb"
	"github.com/keep-network/keep-core/pkg/verifshim/vrep"
)

// ---- protocol messages of the harness ---------------------------------------------------

// c18Msg is a protocol message with a strict decoder: "C18!" magic + one body byte.
type c18Msg struct {
	typ  string
	body byte
	set  bool
}

func (m *c18Msg) Type() string { return m.typ }
func (m *c18Msg) Unmarshal(b []byte) error {
	if len(b) != 5 || string(b[:4]) != "C18!" {
		return fmt.Errorf("c18: malformed payload")
	}
	m.body, m.set = b[4], true
	return nil
}

func c18Payload(body byte) []byte { return append([]byte("C18!"), body) }

const (
	c18TypeA = "c18/message"
	c18TypeB = "c18/other"
)

// ---- peers ----------------------------------------------------------------------------------

type c18Peer struct {
	name     string
	id       peer.ID
	identity []byte // what the peer puts into the envelope's sender field
	// operatorKey is the uncompressed secp256k1 operator key (nil for other key types),
	// derived from the private scalar without using the code under test
	operatorKey []byte
}

func c18Secp(name string, seed byte) *c18Peer {
	raw := make([]byte, 32)
	raw[0], raw[31] = 2, seed
	priv, err := libp2pcrypto.UnmarshalSecp256k1PrivateKey(raw)
	if err != nil {
		panic(err)
	}
	_, pub := btcec.PrivKeyFromBytes(raw)
	return c18FromKey(name, priv.GetPublic(), pub.SerializeUncompressed())
}

func c18Ed(name string, seed byte) *c18Peer {
	sk := bytes.Repeat([]byte{seed}, 32)
	priv, _, err := libp2pcrypto.GenerateEd25519Key(bytes.NewReader(sk))
	if err != nil {
		panic(err)
	}
	return c18FromKey(name, priv.GetPublic(), nil)
}

func c18FromKey(name string, pub libp2pcrypto.PubKey, operatorKey []byte) *c18Peer {
	id, err := peer.IDFromPublicKey(pub)
	if err != nil {
		panic(err)
	}
	keyBytes, err := libp2pcrypto.MarshalPublicKey(pub)
	if err != nil {
		panic(err)
	}
	// field 1 (pub_key), length-delimited — written by hand, not with pb.Identity
	ident := append([]byte{0x0a, byte(len(keyBytes))}, keyBytes...)
	if len(keyBytes) > 127 {
		panic("c18: key too long for the one-byte length")
	}
	return &c18Peer{name: name, id: id, identity: ident, operatorKey: operatorKey}
}

// ---- envelope alphabet ------------------------------------------------------------------------

type c18Inner struct {
	name  string
	bytes []byte
	is    *c18Peer // identity these bytes decode to (nil: undecodable)
}

type c18Type struct {
	name       string
	bytes      []byte
	registered bool
}

type c18Body struct {
	name  string
	bytes []byte
	ok    bool
	body  byte
}

type c18Envelope struct {
	Outer   string `json:"outer"`
	Inner   string `json:"inner"`
	Type    string `json:"type"`
	Payload string `json:"payload"`
	Seqno   uint64 `json:"seqno"`
	// raw form (what is actually processed; enough for a replay)
	OuterHex   string `json:"outer_hex"`
	InnerHex   string `json:"inner_hex"`
	TypeHex    string `json:"type_hex"`
	PayloadHex string `json:"payload_hex"`
	Via        string `json:"via"` // container | pubsub | raw (RawHex is the pubsub data)
	RawHex     string `json:"raw_hex,omitempty"`
	// expectation by construction
	ExpectDeliver string `json:"expect"` // yes | no | either
	ExpectKeyHex  string `json:"expect_key_hex"`
	ExpectBody    byte   `json:"expect_body"`
}

type c18World struct {
	peers  map[string]*c18Peer
	outers []struct {
		name string
		id   peer.ID
	}
	inners   []c18Inner
	types    []c18Type
	payloads []c18Body
}

func c18Build(thorough bool) *c18World {
	w := &c18World{peers: map[string]*c18Peer{}}
	A, B, E := c18Secp("A", 1), c18Secp("B", 2), c18Ed("E", 3)
	for _, p := range []*c18Peer{A, B, E} {
		w.peers[p.name] = p
	}
	add := func(n string, id peer.ID) {
		w.outers = append(w.outers, struct {
			name string
			id   peer.ID
		}{n, id})
	}
	add("A", A.id)
	add("B", B.id)
	add("E", E.id)
	add("empty", peer.ID(""))
	add("garbage", peer.ID("not-a-multihash"))
	add("A-truncated", A.id[:len(A.id)-1])

	in := func(n string, b []byte, is *c18Peer) { w.inners = append(w.inners, c18Inner{n, b, is}) }
	in("A", A.identity, A)
	in("B", B.identity, B)
	in("E(ed25519)", E.identity, E)
	in("A+unknown-field", append(append([]byte{}, A.identity...), 0x10, 0x07), A)
	in("empty", nil, nil)
	in("empty-key-field", []byte{0x0a, 0x00}, nil)
	for _, p := range []*c18Peer{A, E} {
		for l := 1; l < len(p.identity); l++ {
			if !thorough && p == E && l%4 != 0 {
				continue
			}
			in(fmt.Sprintf("%s-truncated@%d", p.name, l), p.identity[:l], nil)
		}
	}
	// well-formed key envelope, unusable key material
	wrap := func(t cryptopb.KeyType, data []byte) []byte {
		kb := []byte{0x08, byte(t)} // field 1: key type (varint)
		if data != nil {
			kb = append(append(kb, 0x12, byte(len(data))), data...) // field 2: key data
		}
		return append([]byte{0x0a, byte(len(kb))}, kb...)
	}
	in("secp256k1-not-on-curve", wrap(cryptopb.KeyType_Secp256k1, append([]byte{0x02}, bytes.Repeat([]byte{0xff}, 32)...)), nil)
	in("secp256k1-short", wrap(cryptopb.KeyType_Secp256k1, []byte{0x02, 0x01}), nil)
	in("secp256k1-no-data", wrap(cryptopb.KeyType_Secp256k1, nil), nil)
	in("unknown-key-type", wrap(cryptopb.KeyType(77), []byte{1, 2, 3}), nil)
	in("rsa-garbage", wrap(cryptopb.KeyType_RSA, []byte{1, 2, 3}), nil)
	in("garbage", []byte{0xff, 0xff, 0xff}, nil)
	in("A-key-bit-flipped", func() []byte {
		o := append([]byte{}, A.identity...)
		o[len(o)-1] ^= 1
		return o
	}(), nil) // decodes (if at all) to an identity no outer author of the alphabet has

	w.types = []c18Type{
		{"registered", []byte(c18TypeA), true},
		{"registered-other", []byte(c18TypeB), true},
		{"unknown", []byte("c18/unknown"), false},
		{"empty", nil, false},
		{"registered-prefix", []byte(c18TypeA[:len(c18TypeA)-1]), false},
		{"registered+suffix", []byte(c18TypeA + "x"), false},
	}
	good := c18Payload(0x5a)
	w.payloads = []c18Body{{"valid", good, true, 0x5a}, {"valid-2", c18Payload(0x11), true, 0x11}, {"empty", nil, false, 0}, {"valid+1", append(append([]byte{}, good...), 0), false, 0}}
	for l := 1; l < len(good); l++ {
		w.payloads = append(w.payloads, c18Body{fmt.Sprintf("truncated@%d", l), good[:l], false, 0})
	}
	return w
}

// c18Channel builds a channel exactly as the channel manager does for the fields the
// receive path uses, with one handler whose queue the harness drains.
func c18Channel(self *c18Peer) (*channel, chan net.Message) {
	q := make(chan net.Message, 64)
	ch := &channel{
		name:               "c18",
		unmarshalersByType: map[string]func() net.TaggedUnmarshaler{},
	}
	ch.messageHandlers = []*messageHandler{{ctx: context.Background(), channel: q}}
	ch.SetUnmarshaler(func() net.TaggedUnmarshaler { return &c18Msg{typ: c18TypeA} })
	ch.SetUnmarshaler(func() net.TaggedUnmarshaler { return &c18Msg{typ: c18TypeB} })
	return ch, q
}

func c18Drain(q chan net.Message) []net.Message {
	var out []net.Message
	for {
		select {
		case m := <-q:
			out = append(out, m)
		default:
			return out
		}
	}
}

// c18Process feeds one envelope to the real receive path.
func c18Process(ch *channel, e *c18Envelope) (p any, stack string) {
	outer, _ := hex.DecodeString(e.OuterHex)
	inner, _ := hex.DecodeString(e.InnerHex)
	typ, _ := hex.DecodeString(e.TypeHex)
	payload, _ := hex.DecodeString(e.PayloadHex)
	env := &pb.BroadcastNetworkMessage{Sender: inner, Payload: payload, Type: typ, SequenceNumber: e.Seqno}
	return vrep.Guard(func() {
		if e.Via == "raw" {
			raw, _ := hex.DecodeString(e.RawHex)
			_ = ch.processPubsubMessage(&pubsub.Message{Message: &pubsubpb.Message{From: outer, Data: raw}})
		} else if e.Via == "pubsub" {
			data, err := proto.Marshal(env)
			if err != nil {
				panic("c18: marshal: " + err.Error())
			}
			_ = ch.processPubsubMessage(&pubsub.Message{Message: &pubsubpb.Message{From: outer, Data: data}})
		} else {
			_ = ch.processContainerMessage(peer.ID(outer), env)
		}
	})
}

// c18Check compares the deliveries caused by one envelope with the expectation.
func c18Check(e *c18Envelope, got []net.Message) string {
	switch e.ExpectDeliver {
	case "no":
		if len(got) != 0 {
			return fmt.Sprintf("dropped-envelope delivered: envelope must be dropped but %d message(s) were delivered (sender key %x)", len(got), got[0].SenderPublicKey())
		}
		return ""
	case "either":
		if len(got) == 0 {
			return ""
		}
	}
	if len(got) != 1 {
		return fmt.Sprintf("good-envelope not delivered once: a well-formed envelope from its authenticated author was delivered %d times", len(got))
	}
	m := got[0]
	outer, _ := hex.DecodeString(e.OuterHex)
	if m.TransportSenderID() == nil || m.TransportSenderID().String() != peer.ID(outer).String() {
		return fmt.Sprintf("wrong transport sender: delivered transport sender %v is not the authenticated author %v", m.TransportSenderID(), peer.ID(outer))
	}
	if e.ExpectKeyHex != "" && hex.EncodeToString(m.SenderPublicKey()) != e.ExpectKeyHex {
		return fmt.Sprintf("wrong sender key: delivered sender public key %x is not the authenticated author's key %s", m.SenderPublicKey(), e.ExpectKeyHex)
	}
	if e.ExpectKeyHex == "" {
		return "undeliverable key delivered: message of a peer whose key has no operator-key form was delivered"
	}
	pm, ok := m.Payload().(*c18Msg)
	typ, _ := hex.DecodeString(e.TypeHex)
	if !ok || !pm.set || pm.body != e.ExpectBody || pm.typ != string(typ) || m.Type() != string(typ) {
		return fmt.Sprintf("wrong payload: delivered payload/type (%+v, %q) is not this envelope's (%#x, %q)", m.Payload(), m.Type(), e.ExpectBody, typ)
	}
	if m.Seqno() != e.Seqno {
		return fmt.Sprintf("wrong seqno: delivered %d, envelope had %d", m.Seqno(), e.Seqno)
	}
	return ""
}

func (w *c18World) envelope(oi, ii, ti, pi int, seq uint64, via string) *c18Envelope {
	o, in, ty, pl := w.outers[oi], w.inners[ii], w.types[ti], w.payloads[pi]
	e := &c18Envelope{Outer: o.name, Inner: in.name, Type: ty.name, Payload: pl.name, Seqno: seq, Via: via,
		OuterHex: hex.EncodeToString([]byte(o.id)), InnerHex: hex.EncodeToString(in.bytes),
		TypeHex: hex.EncodeToString(ty.bytes), PayloadHex: hex.EncodeToString(pl.bytes)}
	e.ExpectDeliver = "no"
	if in.is != nil && in.is.id == o.id && ty.registered && pl.ok {
		if in.is.operatorKey != nil {
			e.ExpectDeliver = "yes"
			e.ExpectKeyHex = hex.EncodeToString(in.is.operatorKey)
			e.ExpectBody = pl.body
		} else {
			// matching identity of a key type that has no operator-key form: the
			// statement allows dropping it; a delivery could not carry "that peer's key"
			e.ExpectDeliver = "either"
		}
	}
	return e
}

func (e *c18Envelope) fp() string {
	if e.Via == "raw" {
		return fmt.Sprintf("via=raw container-prefix-%d-bytes outer=%s inner=%s type=%s payload=%s", len(e.RawHex)/2, e.Outer, e.Inner, e.Type, e.Payload)
	}
	return fmt.Sprintf("via=%s outer=%s inner=%s type=%s payload=%s seqno=%d", e.Via, e.Outer, e.Inner, e.Type, e.Payload, e.Seqno)
}

type c18Replay struct {
	Seq []*c18Envelope `json:"sequence"`
}

// c18RunSeq processes a sequence of envelopes on ONE fresh channel and checks that the
// deliveries are exactly those each envelope would cause on its own.
func c18RunSeq(r *vrep.R, seq []*c18Envelope) {
	ch, q := c18Channel(nil)
	var all [][]net.Message
	var okAtDelivery []bool
	fp := ""
	for i, e := range seq {
		if i > 0 {
			fp += " ; "
		}
		fp += e.fp()
	}
	report := func(kind, what string) {
		if i := bytes.IndexByte([]byte(kind), ':'); i > 0 {
			kind = kind[:i]
		}
		r.ViolationMin(kind, len(seq)*1000+len(fp), fp, what+" — "+fp, c18Replay{seq})
	}
	for _, e := range seq {
		p, stack := c18Process(ch, e)
		if p != nil {
			report("panic", fmt.Sprintf("receive path panicked: %v\n%s", p, stack))
			return
		}
		got := c18Drain(q)
		all = append(all, got)
		problem := c18Check(e, got)
		if problem != "" {
			report(problem, problem)
		}
		okAtDelivery = append(okAtDelivery, problem == "")
		switch {
		case len(got) > 0:
			r.Outcome("delivered")
		default:
			r.Outcome("dropped:" + c18Reason(e))
		}
	}
	// messages delivered earlier are not affected by later envelopes
	if len(seq) > 1 {
		for i, e := range seq {
			if problem := c18Check(e, all[i]); problem != "" && okAtDelivery[i] {
				report("affected-later:"+problem, "a delivered message changed after later envelopes were processed: "+problem)
			}
		}
	}
}

func c18Reason(e *c18Envelope) string {
	switch {
	case e.Type != "registered" && e.Type != "registered-other":
		return "type"
	case e.Payload != "valid" && e.Payload != "valid-2":
		return "payload"
	case e.ExpectDeliver == "either":
		return "key-type"
	default:
		return "identity"
	}
}

func TestVerifC18(t *testing.T) {
	r := vrep.Start(t, "C18", "channel")
	defer r.Finish()
	if rd := r.ReplayData(); rd != nil {
		var rp c18Replay
		if json.Unmarshal(rd, &rp) == nil && len(rp.Seq) > 0 {
			c18RunSeq(r, rp.Seq)
			r.Eval(len(rp.Seq))
		}
		return
	}
	w := c18Build(r.Thorough())
	r.Set("alphabet.outer", len(w.outers))
	r.Set("alphabet.inner", len(w.inners))
	r.Set("alphabet.type", len(w.types))
	r.Set("alphabet.payload", len(w.payloads))

	// (1) every single envelope of the cross product, on a fresh channel each
	type idx struct{ o, i, t, p int }
	var singles []idx
	for o := range w.outers {
		for i := range w.inners {
			for ty := range w.types {
				for p := range w.payloads {
					singles = append(singles, idx{o, i, ty, p})
				}
			}
		}
	}
	seqnos := []uint64{0, 7, ^uint64(0)}
	vrep.Parallel(vrep.Workers(), len(singles), func(k int) {
		if r.Expired() {
			return
		}
		s := singles[k]
		for vi, via := range []string{"container", "pubsub"} {
			e := w.envelope(s.o, s.i, s.t, s.p, seqnos[(k+vi)%len(seqnos)], via)
			c18RunSeq(r, []*c18Envelope{e})
			r.Eval(1)
			in := w.inners[s.i]
			if in.is != nil || w.types[s.t].registered && w.payloads[s.p].ok {
				// non-trivial: the envelope passes at least one of the gates
				r.Distinct(e.fp())
			}
		}
	})
	r.Sample(w.envelope(0, 0, 0, 0, 7, "pubsub"))
	r.Sample(w.envelope(0, 1, 0, 0, 7, "pubsub"))

	// (2) sequences of three envelopes on one channel over envelope classes: a dropped
	// envelope does not affect the others
	var classes []*c18Envelope
	name := func(list any, n string) int {
		switch l := list.(type) {
		case []c18Inner:
			for i := range l {
				if l[i].name == n {
					return i
				}
			}
		case []c18Type:
			for i := range l {
				if l[i].name == n {
					return i
				}
			}
		case []c18Body:
			for i := range l {
				if l[i].name == n {
					return i
				}
			}
		}
		panic("c18: no " + n)
	}
	cls := func(outer int, inner, typ, payload string, seq uint64) {
		classes = append(classes, w.envelope(outer, name(w.inners, inner), name(w.types, typ), name(w.payloads, payload), seq, "pubsub"))
	}
	cls(0, "A", "registered", "valid", 1)         // good from A
	cls(1, "B", "registered-other", "valid-2", 2) // good from B, other type and body
	cls(0, "A", "registered", "valid-2", 3)       // good from A, other body
	cls(0, "B", "registered", "valid", 4)         // B's identity published by A
	cls(1, "A", "registered", "valid-2", 5)       // A's identity published by B
	cls(0, "A", "unknown", "valid", 6)
	cls(0, "A", "registered", "truncated@3", 7)
	cls(0, "A", "registered", "empty", 8)
	cls(0, "empty", "registered", "valid", 9)
	cls(0, "A-truncated@20", "registered", "valid", 10)
	cls(0, "secp256k1-not-on-curve", "registered", "valid", 11)
	cls(2, "E(ed25519)", "registered", "valid", 12)
	if r.Thorough() {
		cls(0, "A+unknown-field", "registered-other", "valid", 13)
		cls(3, "empty", "registered", "valid", 14)
		cls(4, "garbage", "empty", "empty", 15)
		cls(0, "unknown-key-type", "registered", "valid", 16)
	}
	n := len(classes)
	seqLen := 3
	if r.Thorough() {
		seqLen = 4
	}
	total := 1
	for i := 0; i < seqLen; i++ {
		total *= n
	}
	r.Set("sequence.classes", n)
	r.Set("sequence.length", seqLen)
	vrep.Parallel(vrep.Workers(), total, func(k int) {
		if r.Expired() {
			return
		}
		seq := make([]*c18Envelope, seqLen)
		for i, x := seqLen-1, k; i >= 0; i-- {
			seq[i] = classes[x%n]
			x /= n
		}
		c18RunSeq(r, seq)
		r.Eval(seqLen)
		r.Distinct(fmt.Sprintf("seq %d", k))
	})

	// (3) every prefix of the marshalled container of good and bad envelopes through
	// processPubsubMessage: judged by what the (trusted) container parser makes of it
	for _, e := range classes[:6] {
		inner, _ := hex.DecodeString(e.InnerHex)
		typ, _ := hex.DecodeString(e.TypeHex)
		payload, _ := hex.DecodeString(e.PayloadHex)
		full, err := proto.Marshal(&pb.BroadcastNetworkMessage{Sender: inner, Payload: payload, Type: typ, SequenceNumber: e.Seqno})
		if err != nil {
			t.Fatal(err)
		}
		for l := 0; l <= len(full); l++ {
			var parsed pb.BroadcastNetworkMessage
			raw := *e
			raw.Via, raw.RawHex, raw.ExpectDeliver = "raw", hex.EncodeToString(full[:l]), "no"
			if proto.Unmarshal(full[:l], &parsed) == nil &&
				bytes.Equal(parsed.Sender, inner) && bytes.Equal(parsed.Type, typ) && bytes.Equal(parsed.Payload, payload) {
				raw.ExpectDeliver = e.ExpectDeliver
				raw.Seqno = parsed.SequenceNumber
			}
			c18RunSeq(r, []*c18Envelope{&raw})
			r.Eval(1)
			r.Distinct(raw.fp())
		}
	}
}
