//go:build verif

package spv

import (
	"encoding/json"
	"fmt"
	"math/big"
	"testing"

	"github.com/keep-network/keep-core/pkg/bitcoin"
	"github.com/keep-network/keep-core/pkg/maintainer/btcdiff"
	"github.com/keep-network/keep-core/pkg/verifshim/vrep"
)

// ---- fakes: only the five queries getProofInfo makes are implemented; every other
// method of the embedded (nil) interfaces would panic, which vrep.Guard turns into a
// reported violation ("unexpected query") rather than a silent pass.

type c32Btc struct {
	bitcoin.Chain
	latest        uint
	confirmations uint
}

func (b *c32Btc) GetLatestBlockHeight() (uint, error) { return b.latest, nil }
func (b *c32Btc) GetTransactionConfirmations(bitcoin.Hash) (uint, error) {
	return b.confirmations, nil
}

type c32Spv struct {
	Chain
	factor *big.Int
}

func (s *c32Spv) TxProofDifficultyFactor() (*big.Int, error) {
	return new(big.Int).Set(s.factor), nil
}

type c32Relay struct {
	btcdiff.Chain
	epoch     uint64
	cur, prev *big.Int
	failDiff  bool // reading the epoch difficulties fails (relay / RPC trouble)
	diffAsked int
}

func (d *c32Relay) CurrentEpoch() (uint64, error) { return d.epoch, nil }
func (d *c32Relay) GetCurrentAndPrevEpochDifficulty() (*big.Int, *big.Int, error) {
	d.diffAsked++
	if d.failDiff {
		return nil, nil, fmt.Errorf("relay read failed")
	}
	return new(big.Int).Set(d.cur), new(big.Int).Set(d.prev), nil
}

// c32Case is one input of getProofInfo (also the replay payload).
type c32Case struct {
	Epoch  uint64 `json:"relay_epoch"`
	Start  uint64 `json:"tx_block"`
	Conf   uint   `json:"confirmations"`
	Factor int64  `json:"factor"`
	Prev   string `json:"prev_difficulty"`
	Cur    string `json:"cur_difficulty"`
}

const c32EpochLen = 2016

// c32EpochOf is the reference notion of "difficulty epoch of a block".
func c32EpochOf(block uint64) uint64 {
	e := uint64(0)
	for (e+1)*c32EpochLen <= block {
		e++
	}
	return e
}

// c32Reference classifies the range of `factor` headers starting at the transaction's
// block and, when it is inside the relay's window, brute-forces the smallest number of
// headers whose summed difficulty reaches factor x difficulty(first header).
func c32Reference(c c32Case, prev, cur *big.Int, epochOf func(uint64) uint64) (within bool, class string, required uint64) {
	within = true
	startEpoch := epochOf(c.Start)
	endEpoch := epochOf(c.Start + uint64(c.Factor) - 1)
	for b := c.Start; b < c.Start+uint64(c.Factor); b++ {
		e := epochOf(b)
		inCur := e == c.Epoch
		inPrev := c.Epoch >= 1 && e == c.Epoch-1
		if !inCur && !inPrev {
			within = false
		}
	}
	if !within {
		return false, "outside", 0
	}
	diffOf := func(b uint64) *big.Int {
		if epochOf(b) == c.Epoch {
			return cur
		}
		return prev
	}
	target := new(big.Int).Mul(big.NewInt(c.Factor), diffOf(c.Start))
	sum := new(big.Int)
	n := uint64(0)
	for sum.Cmp(target) < 0 {
		sum.Add(sum, diffOf(c.Start+n))
		n++
		if n > 4*c32EpochLen {
			panic("c32: reference does not terminate (domain error)")
		}
	}
	switch {
	case startEpoch == endEpoch && startEpoch == c.Epoch:
		class = "within-current"
	case startEpoch == endEpoch:
		class = "within-previous"
	case n > uint64(c.Factor):
		class = "crossing-more-headers"
	case n < uint64(c.Factor):
		class = "crossing-fewer-headers"
	default:
		class = "crossing-same"
	}
	return true, class, n
}

func c32Run(r *vrep.R, c c32Case, epochOf func(uint64) uint64) (class string) {
	prev, ok1 := new(big.Int).SetString(c.Prev, 10)
	cur, ok2 := new(big.Int).SetString(c.Cur, 10)
	if !ok1 || !ok2 {
		panic("c32: bad difficulty literal")
	}
	btc := &c32Btc{latest: uint(c.Start) + c.Conf - 1, confirmations: c.Conf}
	spvChain := &c32Spv{factor: big.NewInt(c.Factor)}
	relay := &c32Relay{epoch: c.Epoch, cur: cur, prev: prev}

	size := int(c.Factor)*100 + int(c.Conf)
	report := func(kind, what string) {
		fp := fmt.Sprintf("relayEpoch=%d txBlock=%d(epoch %d, offset %d) conf=%d factor=%d prev=%s cur=%s",
			c.Epoch, c.Start, c.Start/c32EpochLen, c.Start%c32EpochLen, c.Conf, c.Factor, c.Prev, c.Cur)
		r.ViolationMin(kind, size, fp, what, c)
	}

	var (
		within        bool
		acc, required uint
		err           error
	)
	if p, stack := vrep.Guard(func() {
		within, acc, required, err = getProofInfo(bitcoin.Hash{1}, btc, spvChain, relay)
	}); p != nil {
		report("panic", fmt.Sprintf("getProofInfo panicked: %v\n%s", p, stack))
		return "panic"
	}
	if err != nil {
		report("error", fmt.Sprintf("getProofInfo returned an error although every query succeeded: %v", err))
		return "error"
	}
	wantWithin, class, wantRequired := c32Reference(c, prev, cur, epochOf)
	if within != wantWithin {
		report("classification:"+class, fmt.Sprintf(
			"range [%d,%d] (epochs %d..%d, relay previous/current = %d/%d) classified within=%v, reference says %v",
			c.Start, c.Start+uint64(c.Factor)-1, epochOf(c.Start), epochOf(c.Start+uint64(c.Factor)-1),
			int64(c.Epoch)-1, c.Epoch, within, wantWithin))
		return class
	}
	if !wantWithin {
		return class // numbers returned with "outside" are unspecified
	}
	if acc != c.Conf {
		report("accumulated", fmt.Sprintf("accumulated confirmations %d returned, chain says %d", acc, c.Conf))
	}
	// the same question while the relay cannot tell its epoch difficulties: wherever the
	// code needs them (it asked for them above), a required-confirmations number that
	// differs from the right one must not come out as if nothing had happened
	if relay.diffAsked > 0 {
		relay.failDiff = true
		var fw bool
		var freq uint
		var ferr error
		p, _ := vrep.Guard(func() { fw, _, freq, ferr = getProofInfo(bitcoin.Hash{1}, btc, spvChain, relay) })
		relay.failDiff = false
		if p == nil && ferr == nil && fw && uint64(freq) != wantRequired {
			report("required-on-relay-failure:"+class, fmt.Sprintf(
				"the relay's epoch difficulties could not be read, yet getProofInfo answered within=true with %d required confirmations (the right number is %d)", freq, wantRequired))
		}
	}
	if uint64(required) != wantRequired {
		kind := "required:" + class
		report(kind, fmt.Sprintf(
			"required confirmations %d, but the smallest header count whose difficulty sum reaches %d x difficulty(first header) is %d (class %s)",
			required, c.Factor, wantRequired, class))
	}
	return class
}

func TestVerifC32(t *testing.T) {
	r := vrep.Start(t, "C32", "proofinfo")
	defer r.Finish()

	epochOfSlow := c32EpochOf

	if rd := r.ReplayData(); rd != nil {
		var c c32Case
		if json.Unmarshal(rd, &c) == nil && c.Factor > 0 {
			r.Eval(1)
			r.Outcome(c32Run(r, c, epochOfSlow))
		}
		return
	}

	// The reference epoch function is evaluated through a per-run table built with the
	// slow loop for exactly the blocks in the alphabet (boring and independent of the
	// code's division, but fast enough for ~10^6 cases).
	relayEpochs := []uint64{3, 392}
	offsets := []int{-8, -7, -6, -5, -4, -3, -2, -1, 0, 1, 2, 3, 4, 5, 6, 7, 8}
	confs := []uint{1, 2, 6, 12}
	factors := []int64{1, 2, 3, 4, 5, 6, 7, 8}
	maxDiff := 12
	bigPairs := [][2]string{}
	if r.Thorough() {
		maxDiff = 14
		offsets = nil
		for o := -12; o <= 12; o++ {
			offsets = append(offsets, o)
		}
		factors = append(factors, 9, 10)
		relayEpochs = []uint64{0, 1, 2, 3, 392, 415}
		confs = []uint{1, 2, 3, 4, 5, 6, 7, 8, 9, 10, 11, 12}
		// realistic magnitudes and values beyond 64 bits (ratios stay small so that the
		// brute-force reference terminates quickly)
		bigPairs = [][2]string{
			{"30000000000000", "50000000000000"}, {"50000000000000", "30000000000000"},
			{"60000000000000", "30000000000000"}, {"53911173001054", "52391178981379"},
			{"1180591620717411303424", "1180591620717411303425"}, // 2^70, 2^70+1
			{"1180591620717411303425", "1180591620717411303424"},
			{"3541774862152233910272", "1180591620717411303424"}, // 3*2^70, 2^70
			{"1180591620717411303424", "3541774862152233910273"},
		}
	}
	var diffs []string
	for d := 1; d <= maxDiff; d++ {
		diffs = append(diffs, fmt.Sprint(d))
	}
	type pair struct{ prev, cur string }
	var pairs []pair
	for _, p := range diffs {
		for _, c := range diffs {
			pairs = append(pairs, pair{p, c})
		}
	}
	for _, bp := range bigPairs {
		pairs = append(pairs, pair{bp[0], bp[1]})
	}

	// work list: (relay epoch, transaction block)
	type job struct {
		epoch, start uint64
	}
	var jobs []job
	epochTable := map[uint64]uint64{}
	for _, e := range relayEpochs {
		seen := map[uint64]bool{}
		// boundaries: start of previous epoch, previous/current, current/next, and
		// next/next+1 (transaction epochs current-2 .. current+1), plus mid-epoch points
		for de := -1; de <= 2; de++ {
			be := int64(e) + int64(de)
			if be < 0 {
				continue
			}
			for _, off := range offsets {
				s := be*c32EpochLen + int64(off)
				if s < 1 {
					continue
				}
				if !seen[uint64(s)] {
					seen[uint64(s)] = true
					jobs = append(jobs, job{e, uint64(s)})
				}
			}
			mid := be*c32EpochLen + 1000
			if !seen[uint64(mid)] {
				seen[uint64(mid)] = true
				jobs = append(jobs, job{e, uint64(mid)})
			}
		}
	}
	for _, j := range jobs {
		for b := j.start; b < j.start+16; b++ {
			if _, ok := epochTable[b]; !ok {
				epochTable[b] = epochOfSlow(b)
			}
		}
	}
	epochOf := func(b uint64) uint64 {
		if e, ok := epochTable[b]; ok {
			return e
		}
		return epochOfSlow(b)
	}
	r.Set("relay_epochs", len(relayEpochs))
	r.Set("tx_blocks", len(jobs))
	r.Set("difficulty_pairs", len(pairs))
	r.Sample(c32Case{392, 790270, 31, 6, "50", "30"})

	vrep.Parallel(vrep.Workers(), len(jobs), func(i int) {
		j := jobs[i]
		evals := 0
		classes := map[string]bool{}
		for _, f := range factors {
			if r.Expired() {
				return
			}
			for _, conf := range confs {
				for _, pc := range pairs {
					c := c32Case{j.epoch, j.start, conf, f, pc.prev, pc.cur}
					class := c32Run(r, c, epochOf)
					evals++
					classes[class] = true
					// non-trivial: the code had to compute something (the range crosses the
					// previous/current boundary); confirmations only pass through, so they
					// are not part of the key
					if class[0] == 'c' && conf == confs[0] {
						r.Distinct(fmt.Sprintf("%d|%d|%d|%s|%s", j.epoch, j.start, f, pc.prev, pc.cur))
					}
				}
			}
		}
		r.Eval(evals)
		for _, k := range []string{"within-current", "within-previous", "crossing-more-headers", "crossing-fewer-headers", "crossing-same", "outside", "panic", "error"} {
			if classes[k] {
				r.Outcome(k)
			}
		}
	})
}
