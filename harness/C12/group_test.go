//go:build verif

package group_test

import (
	"testing"

	"github.com/keep-network/keep-core/pkg/chain/local_v1"
	"github.com/keep-network/keep-core/pkg/protocol/group"
	"github.com/keep-network/keep-core/pkg/verifshim/c12"
)

// The membership check itself, plus the receiver-side group view every protocol
// combines it with (IsOperating of the claimed index).
func TestVerifC12Group(t *testing.T) {
	signing := local_v1.Connect(5, 3).Signing()
	c12.Run(t, "group", signing, []c12.Step{
		{
			Name: "IsValidMembership", NoStatus: true, NoSession: true,
			Accept: func(env *c12.Env, c c12.Case) bool {
				return env.Validator.IsValidMembership(group.MemberIndex(c.Claimed), env.KeyBytes(c.Key))
			},
		},
		{
			// the conjunction used by every shouldAcceptMessage copy
			Name: "IsValidMembership&&IsOperating", NoSession: true, Rule: c12.Rule{Operating: true},
			Accept: func(env *c12.Env, c c12.Case) bool {
				g := group.NewGroup(env.DishonestThreshold(), env.GroupSize())
				c12.MarkStatus(g, c)
				return env.Validator.IsValidMembership(group.MemberIndex(c.Claimed), env.KeyBytes(c.Key)) &&
					g.IsOperating(group.MemberIndex(c.Claimed))
			},
		},
	})
}
