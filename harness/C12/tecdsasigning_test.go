//go:build verif

package signing

import (
	"testing"

	"github.com/keep-network/keep-core/internal/testutils"
	"github.com/keep-network/keep-core/pkg/chain/local_v1"
	"github.com/keep-network/keep-core/pkg/net"
	"github.com/keep-network/keep-core/pkg/protocol/group"
	"github.com/keep-network/keep-core/pkg/protocol/state"
	"github.com/keep-network/keep-core/pkg/verifshim/c12"
)

type c12Receiver interface {
	Receive(net.Message) error
	GetAllReceivedMessages(string) []net.Message
}

// tECDSA signing: every message-receiving state with its own message type. The member
// chain is built with struct literals (private key share and TSS party play no part in
// admission).
func TestVerifC12TecdsaSigning(t *testing.T) {
	signing := local_v1.Connect(5, 3).Signing()
	rule := c12.Rule{IgnoreSelf: true, Session: true, Operating: true}
	base := func(env *c12.Env, c c12.Case) *symmetricKeyGeneratingMember {
		m := &member{
			logger:              &testutils.MockLogger{},
			id:                  group.MemberIndex(c.Self),
			group:               group.NewGroup(env.DishonestThreshold(), env.GroupSize()),
			membershipValidator: env.Validator,
			sessionID:           c12.RightSession,
		}
		c12.MarkStatus(m.group, c)
		return m.initializeEphemeralKeysGeneration().initializeSymmetricKeyGeneration()
	}
	r1 := func(env *c12.Env, c c12.Case) *tssRoundOneMember {
		return &tssRoundOneMember{symmetricKeyGeneratingMember: base(env, c)}
	}
	type stateDef struct {
		name    string
		payload func(id group.MemberIndex, s string) message
		mk      func(env *c12.Env, c c12.Case) c12Receiver
	}
	states := []stateDef{
		{"ephemeralKeyPairGenerationState/ephemeralPublicKeyMessage",
			func(id group.MemberIndex, s string) message { return &ephemeralPublicKeyMessage{senderID: id, sessionID: s} },
			func(env *c12.Env, c c12.Case) c12Receiver {
				return &ephemeralKeyPairGenerationState{BaseAsyncState: state.NewBaseAsyncState(), member: base(env, c).ephemeralKeyPairGeneratingMember}
			}},
		{"ephemeralKeyPairGenerationState/tssRoundNineMessage",
			func(id group.MemberIndex, s string) message { return &tssRoundNineMessage{senderID: id, sessionID: s} },
			func(env *c12.Env, c c12.Case) c12Receiver {
				return &ephemeralKeyPairGenerationState{BaseAsyncState: state.NewBaseAsyncState(), member: base(env, c).ephemeralKeyPairGeneratingMember}
			}},
		{"symmetricKeyGenerationState/ephemeralPublicKeyMessage",
			func(id group.MemberIndex, s string) message { return &ephemeralPublicKeyMessage{senderID: id, sessionID: s} },
			func(env *c12.Env, c c12.Case) c12Receiver {
				return &symmetricKeyGenerationState{BaseAsyncState: state.NewBaseAsyncState(), member: base(env, c)}
			}},
		{"tssRoundOneState/tssRoundOneMessage",
			func(id group.MemberIndex, s string) message { return &tssRoundOneMessage{senderID: id, sessionID: s} },
			func(env *c12.Env, c c12.Case) c12Receiver {
				return &tssRoundOneState{BaseAsyncState: state.NewBaseAsyncState(), member: r1(env, c)}
			}},
		{"tssRoundTwoState/tssRoundTwoMessage",
			func(id group.MemberIndex, s string) message { return &tssRoundTwoMessage{senderID: id, sessionID: s} },
			func(env *c12.Env, c c12.Case) c12Receiver {
				return &tssRoundTwoState{BaseAsyncState: state.NewBaseAsyncState(), member: r1(env, c).initializeTssRoundTwo()}
			}},
		{"tssRoundThreeState/tssRoundThreeMessage",
			func(id group.MemberIndex, s string) message { return &tssRoundThreeMessage{senderID: id, sessionID: s} },
			func(env *c12.Env, c c12.Case) c12Receiver {
				return &tssRoundThreeState{BaseAsyncState: state.NewBaseAsyncState(), member: r1(env, c).initializeTssRoundTwo().initializeTssRoundThree()}
			}},
		{"tssRoundFourState/tssRoundFourMessage",
			func(id group.MemberIndex, s string) message { return &tssRoundFourMessage{senderID: id, sessionID: s} },
			func(env *c12.Env, c c12.Case) c12Receiver {
				return &tssRoundFourState{BaseAsyncState: state.NewBaseAsyncState(), member: r1(env, c).initializeTssRoundTwo().initializeTssRoundThree().initializeTssRoundFour()}
			}},
		{"tssRoundFiveState/tssRoundFiveMessage",
			func(id group.MemberIndex, s string) message { return &tssRoundFiveMessage{senderID: id, sessionID: s} },
			func(env *c12.Env, c c12.Case) c12Receiver {
				return &tssRoundFiveState{BaseAsyncState: state.NewBaseAsyncState(), member: r1(env, c).initializeTssRoundTwo().initializeTssRoundThree().initializeTssRoundFour().initializeTssRoundFive()}
			}},
		{"tssRoundSixState/tssRoundSixMessage",
			func(id group.MemberIndex, s string) message { return &tssRoundSixMessage{senderID: id, sessionID: s} },
			func(env *c12.Env, c c12.Case) c12Receiver {
				return &tssRoundSixState{BaseAsyncState: state.NewBaseAsyncState(), member: r1(env, c).initializeTssRoundTwo().initializeTssRoundThree().initializeTssRoundFour().initializeTssRoundFive().initializeTssRoundSix()}
			}},
		{"tssRoundSevenState/tssRoundSevenMessage",
			func(id group.MemberIndex, s string) message { return &tssRoundSevenMessage{senderID: id, sessionID: s} },
			func(env *c12.Env, c c12.Case) c12Receiver {
				return &tssRoundSevenState{BaseAsyncState: state.NewBaseAsyncState(), member: r1(env, c).initializeTssRoundTwo().initializeTssRoundThree().initializeTssRoundFour().initializeTssRoundFive().initializeTssRoundSix().initializeTssRoundSeven()}
			}},
		{"tssRoundEightState/tssRoundEightMessage",
			func(id group.MemberIndex, s string) message { return &tssRoundEightMessage{senderID: id, sessionID: s} },
			func(env *c12.Env, c c12.Case) c12Receiver {
				return &tssRoundEightState{BaseAsyncState: state.NewBaseAsyncState(), member: r1(env, c).initializeTssRoundTwo().initializeTssRoundThree().initializeTssRoundFour().initializeTssRoundFive().initializeTssRoundSix().initializeTssRoundSeven().initializeTssRoundEight()}
			}},
		{"tssRoundNineState/tssRoundNineMessage",
			func(id group.MemberIndex, s string) message { return &tssRoundNineMessage{senderID: id, sessionID: s} },
			func(env *c12.Env, c c12.Case) c12Receiver {
				return &tssRoundNineState{BaseAsyncState: state.NewBaseAsyncState(), member: r1(env, c).initializeTssRoundTwo().initializeTssRoundThree().initializeTssRoundFour().initializeTssRoundFive().initializeTssRoundSix().initializeTssRoundSeven().initializeTssRoundEight().initializeTssRoundNine()}
			}},
	}
	var steps []c12.Step
	for _, s := range states {
		s := s
		steps = append(steps, c12.Step{Name: s.name, Rule: rule,
			Accept: func(env *c12.Env, c c12.Case) bool {
				st := s.mk(env, c)
				p := s.payload(group.MemberIndex(c.Claimed), c12.SessionOf(c))
				if err := st.Receive(&c12.Msg{Key: env.KeyBytes(c.Key), T: p.Type(), P: p}); err != nil {
					panic(err)
				}
				return len(st.GetAllReceivedMessages(p.Type())) == 1
			}})
	}
	c12.Run(t, "tecdsasigning", signing, steps)
}
