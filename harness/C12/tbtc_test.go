//go:build verif

package tbtc

import (
	"context"
	"encoding/hex"
	"math/big"
	"testing"

	"github.com/keep-network/keep-core/pkg/chain"
	"github.com/keep-network/keep-core/pkg/net"
	"github.com/keep-network/keep-core/pkg/protocol/group"
	"github.com/keep-network/keep-core/pkg/tecdsa"
	"github.com/keep-network/keep-core/pkg/verifshim/c12"
)

// Wallet coordination (follower routine) and the signing-done check: the real
// listening loops with one incoming message.
func TestVerifC12Tbtc(t *testing.T) {
	localChain := Connect()
	publicKeyBytes, err := hex.DecodeString(
		"0471e30bca60f6548d7b42582a478ea37ada63b402af7b3ddd57f0c95bb6843175" +
			"aa0d2053a91a050a6797d85c38f2909cb7027f2344a01986aa2f9f8ca7a0c289")
	if err != nil {
		t.Fatal(err)
	}
	walletPublicKey := unmarshalPublicKey(publicKeyBytes)
	const rightBlock, otherBlock = 900, 901
	const rightAttempt, otherAttempt = 2, 3

	c12.Run(t, "tbtc", localChain.Signing(), []c12.Step{
		{Name: "coordination executeFollowerRoutine/coordinationMessage", NoStatus: true,
			Rule: c12.Rule{IgnoreSelf: true, OwnIsOperator: true, Session: true},
			Accept: func(env *c12.Env, c c12.Case) bool {
				w := wallet{publicKey: walletPublicKey, signingGroupOperators: env.Addresses}
				self := env.Addresses[c.Self-1]
				// the leader is the first operator other than the follower's own (the
				// follower's own when it holds every seat: then nothing can be accepted)
				leader := self
				for _, a := range env.Addresses {
					if a != self {
						leader = a
						break
					}
				}
				leaderID := w.membersByOperator(leader)[0]
				block := uint64(rightBlock)
				if c.Session != 0 {
					block = otherBlock
				}
				ctx, cancel := context.WithCancel(context.Background())
				defer cancel()
				ce := &coordinationExecutor{
					chain:               localChain,
					coordinatedWallet:   w,
					membersIndexes:      w.membersByOperator(self),
					operatorAddress:     self,
					membershipValidator: env.Validator,
				}
				ce.broadcastChannel = &c12.Channel{OnDrained: cancel, Inbox: []net.Message{&c12.Msg{
					Key: env.KeyBytes(c.Key), T: "coordination",
					P: &coordinationMessage{senderID: group.MemberIndex(c.Claimed), coordinationBlock: block,
						walletPublicKeyHash: ce.walletPublicKeyHash(), proposal: &NoopProposal{}},
				}}}
				proposal, faults, err := ce.executeFollowerRoutine(ctx, leader, rightBlock, []WalletActionType{ActionNoop})
				acted := proposal != nil
				for _, f := range faults {
					switch f.faultType {
					case FaultLeaderImpersonation:
						// attributed to the address of the network key: acting on the message
						if f.culprit != env.Address(c.Key) {
							panic("impersonation fault attributed to somebody else than the sender")
						}
						acted = true
					case FaultLeaderMistake:
						acted = true
					}
				}
				if proposal != nil && (err != nil || int(leaderID) != c.Claimed) {
					panic("proposal returned with an error or from a non-leader index")
				}
				return acted
			}},
		{Name: "signingDoneCheck listen/signingDoneMessage", NoStatus: true, Rule: c12.Rule{Session: true},
			Accept: func(env *c12.Env, c c12.Case) bool {
				ctx, cancel := context.WithCancel(context.Background())
				defer cancel()
				drained := make(chan struct{})
				attempt := uint64(rightAttempt)
				if c.Session != 0 {
					attempt = otherAttempt
				}
				ch := &c12.Channel{OnDrained: func() { close(drained) }, Inbox: []net.Message{&c12.Msg{
					Key: env.KeyBytes(c.Key), T: "done",
					P: &signingDoneMessage{senderID: group.MemberIndex(c.Claimed), message: big.NewInt(100), attemptNumber: attempt,
						signature: &tecdsa.Signature{R: big.NewInt(200), S: big.NewInt(300), RecoveryID: 1}, endBlock: 10},
				}}}
				sdc := newSigningDoneCheck(env.GroupSize(), ch, env.Validator)
				var members []group.MemberIndex
				for i := 1; i <= env.GroupSize() && i <= 255; i++ {
					members = append(members, group.MemberIndex(i))
				}
				sdc.listen(ctx, big.NewInt(100), rightAttempt, 20, members)
				<-drained
				sdc.doneSignersMutex.Lock()
				n := len(sdc.doneSigners)
				_, stored := sdc.doneSigners[group.MemberIndex(c.Claimed)]
				sdc.doneSignersMutex.Unlock()
				if n > 1 || (n == 1 && !stored) {
					panic("signing done check stored a sender nobody claimed")
				}
				return stored
			}},
	})
}

var _ chain.Address
