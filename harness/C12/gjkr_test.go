//go:build verif

package gjkr

import (
	"math/big"
	"testing"

	"github.com/keep-network/keep-core/internal/testutils"
	"github.com/keep-network/keep-core/pkg/chain/local_v1"
	"github.com/keep-network/keep-core/pkg/protocol/group"
	"github.com/keep-network/keep-core/pkg/verifshim/c12"
)

// c12Params is computed once: hashing the seed to a curve point per case would
// dominate the run and is irrelevant to admission.
var c12Params = newProtocolParameters(big.NewInt(100))

// c12Member is NewMember with the shared protocol parameters.
func c12Member(env *c12.Env, c c12.Case) *LocalMember {
	m := &LocalMember{
		memberCore: &memberCore{
			&testutils.MockLogger{},
			group.MemberIndex(c.Self),
			group.NewGroup(env.DishonestThreshold(), env.GroupSize()),
			env.Validator,
			newDkgEvidenceLog(),
			c12Params,
			c12.RightSession,
		},
	}
	c12.MarkStatus(m.group, c)
	return m
}

// Every GJKR state that receives messages, with every message type it handles.
func TestVerifC12Gjkr(t *testing.T) {
	signing := local_v1.Connect(5, 3).Signing()
	rule := c12.Rule{IgnoreSelf: true, Session: true, Operating: true}
	sender := func(c c12.Case) group.MemberIndex { return group.MemberIndex(c.Claimed) }
	msg := func(env *c12.Env, c c12.Case, payload interface{}) *c12.Msg {
		return &c12.Msg{P: payload, Key: env.KeyBytes(c.Key), T: "gjkr"}
	}
	c12.Run(t, "gjkr", signing, []c12.Step{
		{Name: "phase1 ephemeralKeyPairGenerationState/EphemeralPublicKeyMessage", Rule: rule,
			Accept: func(env *c12.Env, c c12.Case) bool {
				st := &ephemeralKeyPairGenerationState{member: c12Member(env, c).InitializeEphemeralKeysGeneration()}
				if err := st.Receive(msg(env, c, &EphemeralPublicKeyMessage{senderID: sender(c), sessionID: c12.SessionOf(c)})); err != nil {
					panic(err)
				}
				return len(st.phaseMessages) == 1
			}},
		{Name: "phase3 commitmentState/PeerSharesMessage", Rule: rule,
			Accept: func(env *c12.Env, c c12.Case) bool {
				st := &commitmentState{member: c12Member(env, c).InitializeEphemeralKeysGeneration().InitializeSymmetricKeyGeneration().InitializeCommitting()}
				if err := st.Receive(msg(env, c, newPeerSharesMessage(sender(c), c12.SessionOf(c)))); err != nil {
					panic(err)
				}
				return len(st.phaseSharesMessages) == 1 && len(st.phaseCommitmentsMessages) == 0
			}},
		{Name: "phase3 commitmentState/MemberCommitmentsMessage", Rule: rule,
			Accept: func(env *c12.Env, c c12.Case) bool {
				st := &commitmentState{member: c12Member(env, c).InitializeEphemeralKeysGeneration().InitializeSymmetricKeyGeneration().InitializeCommitting()}
				if err := st.Receive(msg(env, c, &MemberCommitmentsMessage{senderID: sender(c), sessionID: c12.SessionOf(c)})); err != nil {
					panic(err)
				}
				return len(st.phaseCommitmentsMessages) == 1 && len(st.phaseSharesMessages) == 0
			}},
		{Name: "phase4 commitmentsVerificationState/SecretSharesAccusationsMessage", Rule: rule,
			Accept: func(env *c12.Env, c c12.Case) bool {
				st := &commitmentsVerificationState{member: c12Member(env, c).InitializeEphemeralKeysGeneration().InitializeSymmetricKeyGeneration().
					InitializeCommitting().InitializeCommitmentsVerification()}
				if err := st.Receive(msg(env, c, &SecretSharesAccusationsMessage{senderID: sender(c), sessionID: c12.SessionOf(c)})); err != nil {
					panic(err)
				}
				return len(st.phaseAccusationsMessages) == 1
			}},
		{Name: "phase7 pointsShareState/MemberPublicKeySharePointsMessage", Rule: rule,
			Accept: func(env *c12.Env, c c12.Case) bool {
				st := &pointsShareState{member: c12Member(env, c).InitializeEphemeralKeysGeneration().InitializeSymmetricKeyGeneration().
					InitializeCommitting().InitializeCommitmentsVerification().InitializeSharesJustification().InitializeQualified().InitializeSharing()}
				if err := st.Receive(msg(env, c, &MemberPublicKeySharePointsMessage{senderID: sender(c), sessionID: c12.SessionOf(c)})); err != nil {
					panic(err)
				}
				return len(st.phaseMessages) == 1
			}},
		{Name: "phase8 pointsValidationState/PointsAccusationsMessage", Rule: rule,
			Accept: func(env *c12.Env, c c12.Case) bool {
				st := &pointsValidationState{member: c12Member(env, c).InitializeEphemeralKeysGeneration().InitializeSymmetricKeyGeneration().
					InitializeCommitting().InitializeCommitmentsVerification().InitializeSharesJustification().InitializeQualified().InitializeSharing()}
				if err := st.Receive(msg(env, c, &PointsAccusationsMessage{senderID: sender(c), sessionID: c12.SessionOf(c)})); err != nil {
					panic(err)
				}
				return len(st.phaseMessages) == 1
			}},
		// Phases 4 and 8 also take the accusations of a member the receiver itself accused -
		// and thereby disqualified - in this very phase (see commitmentsVerificationState):
		// the claimed member is in the state's accused set and disqualified in the
		// receiver's view; everything else of the rule still applies.
		{Name: "phase4 commitmentsVerificationState/SecretSharesAccusationsMessage from a member accused in this phase",
			Rule: c12.Rule{IgnoreSelf: true, Session: true}, NoStatus: true,
			Accept: func(env *c12.Env, c c12.Case) bool {
				m := c12Member(env, c)
				m.group.MarkMemberAsDisqualified(sender(c))
				st := &commitmentsVerificationState{member: m.InitializeEphemeralKeysGeneration().InitializeSymmetricKeyGeneration().
					InitializeCommitting().InitializeCommitmentsVerification(),
					accusedMembers: map[group.MemberIndex]bool{sender(c): true}}
				if err := st.Receive(msg(env, c, &SecretSharesAccusationsMessage{senderID: sender(c), sessionID: c12.SessionOf(c)})); err != nil {
					panic(err)
				}
				return len(st.phaseAccusationsMessages) == 1
			}},
		{Name: "phase8 pointsValidationState/PointsAccusationsMessage from a member accused in this phase",
			Rule: c12.Rule{IgnoreSelf: true, Session: true}, NoStatus: true,
			Accept: func(env *c12.Env, c c12.Case) bool {
				m := c12Member(env, c)
				m.group.MarkMemberAsDisqualified(sender(c))
				st := &pointsValidationState{member: m.InitializeEphemeralKeysGeneration().InitializeSymmetricKeyGeneration().
					InitializeCommitting().InitializeCommitmentsVerification().InitializeSharesJustification().InitializeQualified().InitializeSharing(),
					accusedMembers: map[group.MemberIndex]bool{sender(c): true}}
				if err := st.Receive(msg(env, c, &PointsAccusationsMessage{senderID: sender(c), sessionID: c12.SessionOf(c)})); err != nil {
					panic(err)
				}
				return len(st.phaseMessages) == 1
			}},
		{Name: "phase10 keyRevealState/MisbehavedEphemeralKeysMessage", Rule: rule,
			Accept: func(env *c12.Env, c c12.Case) bool {
				st := &keyRevealState{member: c12Member(env, c).InitializeEphemeralKeysGeneration().InitializeSymmetricKeyGeneration().
					InitializeCommitting().InitializeCommitmentsVerification().InitializeSharesJustification().InitializeQualified().InitializeSharing().
					InitializePointsJustification().InitializeRevealing()}
				if err := st.Receive(msg(env, c, &MisbehavedEphemeralKeysMessage{senderID: sender(c), sessionID: c12.SessionOf(c)})); err != nil {
					panic(err)
				}
				return len(st.phaseMessages) == 1
			}},
	})
}
