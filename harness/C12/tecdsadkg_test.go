//go:build verif

package dkg

import (
	"testing"

	"github.com/keep-network/keep-core/internal/testutils"
	"github.com/keep-network/keep-core/pkg/chain/local_v1"
	"github.com/keep-network/keep-core/pkg/net"
	"github.com/keep-network/keep-core/pkg/protocol/group"
	"github.com/keep-network/keep-core/pkg/protocol/state"
	"github.com/keep-network/keep-core/pkg/verifshim/c12"
)

type c12Receiver interface {
	Receive(net.Message) error
	GetAllReceivedMessages(string) []net.Message
}

// tECDSA key generation: every message-receiving state. The member chain is built
// with struct literals (the TSS party set up by initializeTssRoundOne plays no part
// in admission).
func TestVerifC12TecdsaDkg(t *testing.T) {
	signing := local_v1.Connect(5, 3).Signing()
	rule := c12.Rule{IgnoreSelf: true, Session: true, Operating: true}
	base := func(env *c12.Env, c c12.Case) *symmetricKeyGeneratingMember {
		m := &member{
			logger:              &testutils.MockLogger{},
			id:                  group.MemberIndex(c.Self),
			group:               group.NewGroup(env.DishonestThreshold(), env.GroupSize()),
			membershipValidator: env.Validator,
			sessionID:           c12.RightSession,
		}
		c12.MarkStatus(m.group, c)
		return m.initializeEphemeralKeysGeneration().initializeSymmetricKeyGeneration()
	}
	r1 := func(env *c12.Env, c c12.Case) *tssRoundOneMember {
		return &tssRoundOneMember{symmetricKeyGeneratingMember: base(env, c)}
	}
	payloads := map[string]func(id group.MemberIndex, session string) message{
		"ephemeralPublicKeyMessage": func(id group.MemberIndex, s string) message {
			return &ephemeralPublicKeyMessage{senderID: id, sessionID: s}
		},
		"tssRoundOneMessage": func(id group.MemberIndex, s string) message { return &tssRoundOneMessage{senderID: id, sessionID: s} },
		"tssRoundTwoMessage": func(id group.MemberIndex, s string) message { return &tssRoundTwoMessage{senderID: id, sessionID: s} },
		"tssRoundThreeMessage": func(id group.MemberIndex, s string) message {
			return &tssRoundThreeMessage{senderID: id, sessionID: s}
		},
		"tssFinalizationMessage": func(id group.MemberIndex, s string) message {
			return &tssFinalizationMessage{senderID: id, sessionID: s}
		},
	}
	states := []struct {
		name  string
		types []string
		mk    func(env *c12.Env, c c12.Case) c12Receiver
	}{
		{"ephemeralKeyPairGenerationState", []string{"ephemeralPublicKeyMessage", "tssRoundOneMessage", "tssRoundTwoMessage", "tssRoundThreeMessage", "tssFinalizationMessage"},
			func(env *c12.Env, c c12.Case) c12Receiver {
				return &ephemeralKeyPairGenerationState{BaseAsyncState: state.NewBaseAsyncState(), member: base(env, c).ephemeralKeyPairGeneratingMember}
			}},
		{"symmetricKeyGenerationState", []string{"ephemeralPublicKeyMessage", "tssRoundOneMessage"},
			func(env *c12.Env, c c12.Case) c12Receiver {
				return &symmetricKeyGenerationState{BaseAsyncState: state.NewBaseAsyncState(), member: base(env, c)}
			}},
		{"tssRoundOneState", []string{"tssRoundOneMessage"},
			func(env *c12.Env, c c12.Case) c12Receiver {
				return &tssRoundOneState{BaseAsyncState: state.NewBaseAsyncState(), member: r1(env, c)}
			}},
		{"tssRoundTwoState", []string{"tssRoundTwoMessage"},
			func(env *c12.Env, c c12.Case) c12Receiver {
				return &tssRoundTwoState{BaseAsyncState: state.NewBaseAsyncState(), member: r1(env, c).initializeTssRoundTwo()}
			}},
		{"tssRoundThreeState", []string{"tssRoundThreeMessage"},
			func(env *c12.Env, c c12.Case) c12Receiver {
				return &tssRoundThreeState{BaseAsyncState: state.NewBaseAsyncState(), member: r1(env, c).initializeTssRoundTwo().initializeTssRoundThree()}
			}},
		{"finalizationState", []string{"tssFinalizationMessage", "tssRoundThreeMessage"},
			func(env *c12.Env, c c12.Case) c12Receiver {
				return &finalizationState{BaseAsyncState: state.NewBaseAsyncState(),
					member: r1(env, c).initializeTssRoundTwo().initializeTssRoundThree().initializeFinalization()}
			}},
	}
	var steps []c12.Step
	for _, s := range states {
		for _, typ := range s.types {
			s, typ := s, typ
			steps = append(steps, c12.Step{Name: s.name + "/" + typ, Rule: rule,
				Accept: func(env *c12.Env, c c12.Case) bool {
					st := s.mk(env, c)
					p := payloads[typ](group.MemberIndex(c.Claimed), c12.SessionOf(c))
					if err := st.Receive(&c12.Msg{Key: env.KeyBytes(c.Key), T: p.Type(), P: p}); err != nil {
						panic(err)
					}
					return len(st.GetAllReceivedMessages(p.Type())) == 1
				}})
		}
	}
	steps = append(steps, c12.Step{Name: "resultSigningState/resultSignatureMessage", Rule: rule,
		Accept: func(env *c12.Env, c c12.Case) bool {
			g := group.NewGroup(env.DishonestThreshold(), env.GroupSize())
			c12.MarkStatus(g, c)
			st := &resultSigningState{BaseAsyncState: state.NewBaseAsyncState(),
				member: newSigningMember(&testutils.MockLogger{}, group.MemberIndex(c.Self), g, env.Validator, c12.RightSession)}
			p := &resultSignatureMessage{senderID: group.MemberIndex(c.Claimed), publicKey: env.KeyBytes(c.Key), sessionID: c12.SessionOf(c)}
			if err := st.Receive(&c12.Msg{Key: env.KeyBytes(c.Key), T: p.Type(), P: p}); err != nil {
				panic(err)
			}
			return len(st.GetAllReceivedMessages(p.Type())) == 1
		}})
	c12.Run(t, "tecdsadkg", signing, steps)
}
