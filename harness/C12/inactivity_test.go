//go:build verif

package inactivity

import (
	"testing"

	"github.com/keep-network/keep-core/internal/testutils"
	"github.com/keep-network/keep-core/pkg/chain/local_v1"
	"github.com/keep-network/keep-core/pkg/protocol/group"
	"github.com/keep-network/keep-core/pkg/protocol/state"
	"github.com/keep-network/keep-core/pkg/verifshim/c12"
)

// Inactivity claim signing: claimSigningState.Receive.
func TestVerifC12Inactivity(t *testing.T) {
	signing := local_v1.Connect(5, 3).Signing()
	c12.Run(t, "inactivity", signing, []c12.Step{
		{Name: "claimSigningState/claimSignatureMessage", Rule: c12.Rule{IgnoreSelf: true, Session: true, Operating: true},
			Accept: func(env *c12.Env, c c12.Case) bool {
				m := newSigningMember(&testutils.MockLogger{}, group.MemberIndex(c.Self), env.GroupSize(), env.DishonestThreshold(),
					env.Validator, c12.RightSession)
				c12.MarkStatus(m.group, c)
				st := &claimSigningState{BaseAsyncState: state.NewBaseAsyncState(), member: m}
				p := &claimSignatureMessage{senderID: group.MemberIndex(c.Claimed), publicKey: env.KeyBytes(c.Key), sessionID: c12.SessionOf(c)}
				if err := st.Receive(&c12.Msg{Key: env.KeyBytes(c.Key), T: p.Type(), P: p}); err != nil {
					panic(err)
				}
				return len(st.GetAllReceivedMessages(p.Type())) == 1
			}},
	})
}
