//go:build verif

package announcer

import (
	"context"
	"testing"

	"github.com/keep-network/keep-core/pkg/chain/local_v1"
	"github.com/keep-network/keep-core/pkg/net"
	"github.com/keep-network/keep-core/pkg/protocol/group"
	"github.com/keep-network/keep-core/pkg/verifshim/c12"
)

// Readiness announcements: the real Announce loop with one incoming announcement.
func TestVerifC12Announcer(t *testing.T) {
	signing := local_v1.Connect(5, 3).Signing()
	c12.Run(t, "announcer", signing, []c12.Step{
		{Name: "Announce/announcementMessage", NoStatus: true, Rule: c12.Rule{IgnoreSelf: true, Session: true},
			Accept: func(env *c12.Env, c c12.Case) bool {
				ctx, cancel := context.WithCancel(context.Background())
				defer cancel()
				// warm-up: the same network key first sends a legitimate announcement for a
				// seat it really holds (if it holds one other than the receiver's and the
				// claimed one); whatever the announcer learned from it must not help the
				// message under test
				var inbox []net.Message
				warm := 0
				for seat := 1; seat <= len(env.Seats); seat++ {
					if env.Seats[seat-1] == c.Key[0] && seat != c.Self && seat != c.Claimed {
						warm = seat
						break
					}
				}
				if warm != 0 {
					inbox = append(inbox, &c12.Msg{Key: env.KeyBytes(c.Key), T: "announcement",
						P: &announcementMessage{senderID: group.MemberIndex(warm), protocolID: "proto", sessionID: c12.RightSession}})
				}
				inbox = append(inbox, &c12.Msg{
					Key: env.KeyBytes(c.Key), T: "announcement",
					P: &announcementMessage{senderID: group.MemberIndex(c.Claimed), protocolID: "proto", sessionID: c12.SessionOf(c)},
				})
				ch := &c12.Channel{OnDrained: cancel, Inbox: inbox}
				ready, err := New("proto", ch, env.Validator).Announce(ctx, group.MemberIndex(c.Self), c12.RightSession)
				if err != nil {
					panic(err)
				}
				selfListed, claimedListed := false, false
				for _, m := range ready {
					if int(m) == c.Self {
						selfListed = true
					} else if int(m) == c.Claimed {
						claimedListed = true
					} else if int(m) == warm {
						// the warm-up announcement
					} else {
						panic("announcer listed a member nobody announced")
					}
				}
				if !selfListed {
					panic("announcer did not list the announcing member itself")
				}
				return claimedListed
			}},
	})
}
