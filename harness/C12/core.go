//go:build verif

// Package c12 is the shared part of the C12 harness (message admission by controlled
// member index). It is injected as pkg/verifshim/c12 and used by one white-box unit per
// protocol package: the unit supplies, for every protocol step, an adapter that builds
// the real receiving object, delivers ONE message described by a Case and reports
// whether the step acted on it; this package enumerates the cases, holds the reference
// (the property statement) and reports.
package c12

import (
	"context"
	"encoding/json"
	"fmt"
	"sort"
	"strings"
	"sync"

	"github.com/keep-network/keep-core/internal/testutils"
	"github.com/keep-network/keep-core/pkg/chain"
	"github.com/keep-network/keep-core/pkg/chain/local_v1"
	"github.com/keep-network/keep-core/pkg/net"
	"github.com/keep-network/keep-core/pkg/operator"
	"github.com/keep-network/keep-core/pkg/protocol/group"
	"github.com/keep-network/keep-core/pkg/verifshim/vrep"
)

// Operators of the alphabet. X never holds a seat (outsider).
var OperatorNames = []string{"A", "B", "C", "X"}

const (
	RightSession = "session-right"
	OtherSession = "session-other"
)

// Case is one admission: a receiver (seat Self of Layout) gets one message that
// claims member index Claimed, was sent over the network with the key of operator
// Key, carries the right or another session, while the receiver's view of the
// claimed member is operating / inactive / disqualified.
type Case struct {
	Layout  string `json:"layout"` // one operator letter per seat; "255:<pattern>" = pattern repeated to 255 seats
	Self    int    `json:"self"`
	Claimed int    `json:"claimed"`
	Key     string `json:"key"`
	Session int    `json:"session"` // 0 right, 1 other
	Status  int    `json:"status"`  // 0 operating, 1 inactive, 2 disqualified
}

func (c Case) String() string {
	return fmt.Sprintf("layout=%s self=%d claimed=%d key=%s session=%d status=%d", c.Layout, c.Self, c.Claimed, c.Key, c.Session, c.Status)
}

// Seats expands the layout.
func Seats(layout string) string {
	if strings.HasPrefix(layout, "255:") {
		p := layout[4:]
		var b strings.Builder
		for b.Len() < 255 {
			b.WriteString(p)
		}
		return b.String()[:255]
	}
	return layout
}

// Holds: the operator of the network key holds the claimed seat.
func (c Case) Holds() bool {
	s := Seats(c.Layout)
	return c.Claimed >= 1 && c.Claimed <= len(s) && s[c.Claimed-1] == c.Key[0]
}

// Rule says which of the documented ignore-rules a step applies besides the
// membership check.
type Rule struct {
	// IgnoreSelf: messages claiming the receiver's own index are ignored.
	IgnoreSelf bool
	// OwnIsOperator: "own" means every seat of the receiver's operator (wallet
	// coordination), not only the receiving seat.
	OwnIsOperator bool
	// Session: messages of another session are ignored.
	Session bool
	// Operating: messages from members the receiver excluded (IA/DQ) are ignored.
	Operating bool
}

func (c Case) isOwn(rule Rule) bool {
	s := Seats(c.Layout)
	if c.Claimed == c.Self {
		return true
	}
	if rule.OwnIsOperator && c.Claimed >= 1 && c.Claimed <= len(s) && s[c.Claimed-1] == s[c.Self-1] {
		return true
	}
	return false
}

// Reason returns "" when the documented rules of the step admit the message, else
// the first rule that demands ignoring it.
func (c Case) Reason(rule Rule) string {
	switch {
	case !c.Holds():
		return "index-not-held"
	case rule.IgnoreSelf && c.isOwn(rule):
		return "own-index"
	case rule.Session && c.Session != 0:
		return "other-session"
	case rule.Operating && c.Status != 0:
		return "excluded-member"
	}
	return ""
}

// Env is what an adapter needs to build the real objects for one layout.
type Env struct {
	Layout    string
	Seats     string
	Signing   chain.Signing
	Addresses []chain.Address // per seat
	Validator *group.MembershipValidator
	keys      *Keys
}

// KeyBytes returns the network public key bytes of an operator name.
func (e *Env) KeyBytes(name string) []byte { return e.keys.Pub[name] }

// Address returns the chain address of an operator name.
func (e *Env) Address(name string) chain.Address { return e.keys.Addr[name] }

// SessionOf maps the case's session selector to a session id.
func SessionOf(c Case) string {
	if c.Session == 0 {
		return RightSession
	}
	return OtherSession
}

// GroupSize / DishonestThreshold used for the receiver's group object.
func (e *Env) GroupSize() int { return len(e.Seats) }
func (e *Env) DishonestThreshold() int {
	return (len(e.Seats) - 1) / 2
}

// MarkStatus applies the case's sender status to the receiver's group view.
func MarkStatus(g *group.Group, c Case) {
	if c.Claimed < 0 || c.Claimed > 255 {
		return
	}
	switch c.Status {
	case 1:
		g.MarkMemberAsInactive(group.MemberIndex(c.Claimed))
	case 2:
		g.MarkMemberAsDisqualified(group.MemberIndex(c.Claimed))
	}
}

// Keys are the operator key pairs of one run (random; the harness only ever refers to
// them by operator name, so counts and fingerprints do not depend on them).
type Keys struct {
	Pub  map[string][]byte
	Addr map[string]chain.Address
	Priv map[string]*operator.PrivateKey
}

func NewKeys(signing chain.Signing) (*Keys, error) {
	k := &Keys{Pub: map[string][]byte{}, Addr: map[string]chain.Address{}, Priv: map[string]*operator.PrivateKey{}}
	for _, n := range OperatorNames {
		priv, pub, err := operator.GenerateKeyPair(local_v1.DefaultCurve)
		if err != nil {
			return nil, err
		}
		addr, err := signing.PublicKeyToAddress(pub)
		if err != nil {
			return nil, err
		}
		k.Pub[n] = operator.MarshalUncompressed(pub)
		k.Addr[n] = addr
		k.Priv[n] = priv
	}
	return k, nil
}

func newEnv(layout string, signing chain.Signing, keys *Keys) *Env {
	seats := Seats(layout)
	addrs := make([]chain.Address, len(seats))
	for i := range seats {
		addrs[i] = keys.Addr[seats[i:i+1]]
	}
	return &Env{
		Layout: layout, Seats: seats, Signing: signing, Addresses: addrs, keys: keys,
		Validator: group.NewMembershipValidator(&testutils.MockLogger{}, addrs, signing),
	}
}

// Msg is a received network message.
type Msg struct {
	P   interface{}
	Key []byte
	T   string
}

func (m *Msg) TransportSenderID() net.TransportIdentifier { return nil }
func (m *Msg) SenderPublicKey() []byte                    { return m.Key }
func (m *Msg) Payload() interface{}                       { return m.P }
func (m *Msg) Type() string                               { return m.T }
func (m *Msg) Seqno() uint64                              { return 1 }

// Step is one protocol step's admission path.
type Step struct {
	Name string
	Rule Rule
	// NoStatus: the step has no notion of excluded members (only Status 0 is enumerated).
	NoStatus bool
	// NoSession: the step has no session (only Session 0 is enumerated).
	NoSession bool
	// Accept delivers the message of c to a FRESH receiver and reports whether the
	// step acted on it (stored it / listed the sender / returned its proposal).
	Accept func(env *Env, c Case) bool
}

type replay struct {
	Step string `json:"step"`
	Case Case   `json:"case"`
}

// Layouts of the tier.
func Layouts(thorough bool) []string {
	var out []string
	maxN := 4
	if thorough {
		maxN = 5
	}
	for n := 3; n <= maxN; n++ {
		var rec func(p string)
		rec = func(p string) {
			if len(p) == n {
				out = append(out, p)
				return
			}
			for _, o := range []string{"A", "B", "C"} {
				rec(p + o)
			}
		}
		rec("")
	}
	// the largest group a uint8 member index can address: seat 255 exists, index 0
	// converts to position 255 which does not
	out = append(out, "255:AB", "255:ABC")
	if thorough {
		out = append(out, "255:A", "255:BAAC")
	}
	return out
}

func claimedOf(n int) []int {
	set := map[int]bool{0: true, 254: true, 255: true}
	for i := 1; i <= n+1 && i <= 255; i++ {
		if n <= 8 || i <= 4 || i >= n-2 {
			set[i] = true
		}
	}
	var out []int
	for k := range set {
		out = append(out, k)
	}
	sort.Ints(out)
	return out
}

func selfOf(n int) []int {
	if n <= 8 {
		out := make([]int, n)
		for i := range out {
			out[i] = i + 1
		}
		return out
	}
	return []int{1, 2, n}
}

// Run enumerates every case for every step and reports through vrep.
func Run(t vrep.TB, unit string, signing chain.Signing, steps []Step) {
	r := vrep.Start(t, "C12", unit)
	defer r.Finish()
	keys, err := NewKeys(signing)
	if err != nil {
		t.Fatalf("cannot generate operator keys: %v", err)
	}
	byName := map[string]*Step{}
	for i := range steps {
		byName[steps[i].Name] = &steps[i]
	}
	var accMu sync.Mutex
	accepts := map[string]int{}
	one := func(st *Step, env *Env, c Case) {
		var got bool
		p, stack := vrep.Guard(func() { got = st.Accept(env, c) })
		fp := fmt.Sprintf("%s %s %s", unit, st.Name, c.String())
		rp := replay{st.Name, c}
		size := len(env.Seats)*1000 + c.Claimed
		if p != nil {
			r.ViolationMin(st.Name+":panic", size, fp, fmt.Sprintf("panic while receiving the message: %v\n%s", p, stack), rp)
			return
		}
		reason := c.Reason(st.Rule)
		switch {
		case got && reason != "":
			r.Outcome(st.Name + " ACCEPTED " + reason)
			what := map[string]string{
				"index-not-held":  "the step acted on a message whose claimed member index is not held by the network key that sent it",
				"own-index":       "the step acted on a message claiming the receiver's own member index",
				"other-session":   "the step acted on a message of another session",
				"excluded-member": "the step acted on a message from a member it had already excluded",
			}[reason]
			r.ViolationMin(st.Name+":"+reason, size, fp, what+" ["+c.String()+"]", rp)
		case got:
			r.Outcome(st.Name + " accept")
			accMu.Lock()
			accepts[st.Name]++
			accMu.Unlock()
		case reason == "":
			// not demanded by the statement; shows up in the outcome list
			r.Outcome(st.Name + " ignore legitimate")
			r.Add("legitimate_ignored", 1)
		default:
			r.Outcome(st.Name + " ignore " + reason)
		}
		if c.Key != "X" {
			r.Distinct(st.Name + "|" + c.String())
		}
	}
	if rd := r.ReplayData(); rd != nil {
		var rp replay
		if json.Unmarshal(rd, &rp) == nil && rp.Step != "" {
			if st := byName[rp.Step]; st != nil {
				one(st, newEnv(rp.Case.Layout, signing, keys), rp.Case)
				r.Eval(1)
			}
		}
		return
	}
	layouts := Layouts(r.Thorough())
	r.Set("layouts", len(layouts))
	r.Set("steps", len(steps))
	vrep.Parallel(vrep.Workers(), len(layouts), func(li int) {
		if r.Expired() {
			return
		}
		env := newEnv(layouts[li], signing, keys)
		n := len(env.Seats)
		evals := 0
		for si := range steps {
			st := &steps[si]
			statuses := []int{0, 1, 2}
			if st.NoStatus {
				statuses = []int{0}
			}
			for _, self := range selfOf(n) {
				for _, claimed := range claimedOf(n) {
					for _, key := range OperatorNames {
						for session := 0; session < 2; session++ {
							if st.NoSession && session != 0 {
								continue
							}
							for _, status := range statuses {
								one(st, env, Case{layouts[li], self, claimed, key, session, status})
								evals++
							}
						}
					}
				}
			}
		}
		r.Eval(evals)
	})
	r.Sample(map[string]any{"step": steps[0].Name, "case": Case{"ABA", 2, 3, "A", 0, 0}.String(), "expected": "accepted: operator A holds seat 3"})
	r.Sample(map[string]any{"step": steps[0].Name, "case": Case{"ABA", 2, 3, "B", 0, 0}.String(), "expected": "ignored: operator B does not hold seat 3"})
	if r.Expired() {
		r.Cap("deadline")
		return
	}
	for _, st := range steps {
		if accepts[st.Name] == 0 {
			t.Fatalf("VACUOUS: step %s never accepted a message; the adapter does not reach the admission path", st.Name)
		}
	}
}

// Channel is an in-memory broadcast channel for the steps that listen in a loop
// (announcer, coordination follower, signing-done check): when the step installs its
// handler every message of Inbox is handed over synchronously, followed by a sentinel
// whose Payload() call (made by the step's loop when it takes the sentinel out of its
// queue, i.e. after every earlier message was processed) runs OnDrained.
type Channel struct {
	Inbox     []net.Message
	OnDrained func()
	Sent      int
}

type sentinel struct{ f func() }

func (s *sentinel) TransportSenderID() net.TransportIdentifier { return nil }
func (s *sentinel) SenderPublicKey() []byte                    { return nil }
func (s *sentinel) Payload() interface{} {
	if s.f != nil {
		f := s.f
		s.f = nil
		f()
	}
	return nil
}
func (s *sentinel) Type() string  { return "c12/sentinel" }
func (s *sentinel) Seqno() uint64 { return 0 }

func (ch *Channel) Name() string { return "c12" }
func (ch *Channel) Send(context.Context, net.TaggedMarshaler, ...net.RetransmissionStrategy) error {
	ch.Sent++
	return nil
}
func (ch *Channel) Recv(_ context.Context, handler func(m net.Message)) {
	for _, m := range ch.Inbox {
		handler(m)
	}
	handler(&sentinel{f: ch.OnDrained})
}
func (ch *Channel) SetUnmarshaler(func() net.TaggedUnmarshaler) {}
func (ch *Channel) SetFilter(net.BroadcastChannelFilter) error  { return nil }
