//go:build verif

package result

import (
	"testing"

	"github.com/keep-network/keep-core/internal/testutils"
	"github.com/keep-network/keep-core/pkg/chain/local_v1"
	"github.com/keep-network/keep-core/pkg/protocol/group"
	"github.com/keep-network/keep-core/pkg/verifshim/c12"
)

// Beacon DKG result signing (phase 13): resultSigningState.Receive.
func TestVerifC12BeaconResult(t *testing.T) {
	signing := local_v1.Connect(5, 3).Signing()
	c12.Run(t, "beaconresult", signing, []c12.Step{
		{Name: "resultSigningState/DKGResultHashSignatureMessage", Rule: c12.Rule{IgnoreSelf: true, Session: true, Operating: true},
			Accept: func(env *c12.Env, c c12.Case) bool {
				g := group.NewGroup(env.DishonestThreshold(), env.GroupSize())
				c12.MarkStatus(g, c)
				st := &resultSigningState{
					member: NewSigningMember(&testutils.MockLogger{}, group.MemberIndex(c.Self), g, env.Validator, c12.RightSession),
				}
				// the key inside the message is the network key (the key binding is C13's subject)
				err := st.Receive(&c12.Msg{Key: env.KeyBytes(c.Key), T: "result", P: &DKGResultHashSignatureMessage{
					senderIndex: group.MemberIndex(c.Claimed), publicKey: env.KeyBytes(c.Key), sessionID: c12.SessionOf(c),
				}})
				if err != nil {
					panic(err)
				}
				return len(st.signatureMessages) == 1
			}},
	})
}
