//go:build verif

package handshake

import (
	crand "crypto/rand"
	"crypto/sha256"
	"encoding/binary"
	"encoding/json"
	"errors"
	"fmt"
	"io"
	"strings"
	"testing"

	"github.com/keep-network/keep-core/pkg/verifshim/venum"
	"github.com/keep-network/keep-core/pkg/verifshim/vrep"
)

// ---- deterministic entropy --------------------------------------------------------------

// c20Entropy replaces crypto/rand.Reader for the duration of the test: the real
// constructors (InitiateHandshake, AnswerHandshake) draw their nonce from it, so the
// harness decides the nonce without touching the code under test.
type c20Entropy struct {
	next []uint64 // nonces to hand out, in order
	fail bool     // entropy source broken
}

func (e *c20Entropy) Read(p []byte) (int, error) {
	if e.fail {
		return 0, errors.New("c20: entropy source failure")
	}
	if len(p) != 8 || len(e.next) == 0 {
		panic(fmt.Sprintf("c20: unexpected entropy request len=%d queued=%d", len(p), len(e.next)))
	}
	binary.LittleEndian.PutUint64(p, e.next[0])
	e.next = e.next[1:]
	return 8, nil
}

var c20Rand = &c20Entropy{}

// ---- reference ------------------------------------------------------------------------------

// c20RefChallenge is the statement's "challenge derived from both nonces":
// sha256 over the 32-byte block nonce1(LE) || nonce2(LE) || 16 zero bytes (RFC-2 wire
// format as implemented since the first release; written independently of the code).
func c20RefChallenge(n1, n2 uint64) [32]byte {
	block := make([]byte, 32)
	for i := 0; i < 8; i++ {
		block[i] = byte(n1 >> (8 * uint(i)))
		block[8+i] = byte(n2 >> (8 * uint(i)))
	}
	return sha256.Sum256(block)
}

var (
	c20Protocols = []string{"a", "b", ""}
	c20Nonces    = []uint64{0, 1, ^uint64(0)}
)

// ---- messages as delivered ----------------------------------------------------------------------

// c20Wire is what travels: the marshalled act (nil = nothing could be produced).
type c20Wire []byte

type c20Session struct {
	pI, pR string
	n1, n2 uint64
	// honest transcript of the session (wire bytes), produced by the real code
	a1, a2, a3 c20Wire
}

// c20Honest runs a complete honest session on the real code and returns its acts.
func c20Honest(p string, n1, n2 uint64) (*c20Session, error) {
	s := &c20Session{pI: p, pR: p, n1: n1, n2: n2}
	c20Rand.next = []uint64{n1, n2}
	ia1, err := InitiateHandshake(p)
	if err != nil {
		return nil, err
	}
	if s.a1, err = ia1.Message().Marshal(); err != nil {
		return nil, err
	}
	ia2 := ia1.Next()
	ra2, err := AnswerHandshake(ia1.Message(), p)
	if err != nil {
		return nil, err
	}
	if s.a2, err = ra2.Message().Marshal(); err != nil {
		return nil, err
	}
	ia3, err := ia2.Next(ra2.Message())
	if err != nil {
		return nil, err
	}
	if s.a3, err = ia3.Message().Marshal(); err != nil {
		return nil, err
	}
	if err := ra2.Next().FinalizeHandshake(ia3.Message()); err != nil {
		return nil, err
	}
	return s, nil
}

// otherNonce returns the k-th alphabet nonce different from n (fresh nonce of the
// second session).
func c20OtherNonce(n uint64, k int) uint64 {
	var o []uint64
	for _, x := range c20Nonces {
		if x != n {
			o = append(o, x)
		}
	}
	return o[k%len(o)]
}

// ---- one explored run ------------------------------------------------------------------------------

type c20Replay struct {
	Script []int    `json:"script"`
	Bound  int      `json:"bound"`
	Nonces []uint64 `json:"nonce_alphabet"`
}

// c20EndToEndMismatches counts runs whose completion differs from the end-to-end clause
// (used for the beyond-the-property measurement only).
var c20EndToEndMismatches int

type c20Outcome struct {
	iOK, rOK bool
}

func c20Flip(b []byte, i int, mask byte) []byte {
	o := append([]byte{}, b...)
	o[i] ^= mask
	return o
}

// c20Body is one run of the composed system initiator || attacker || responder. Every
// act travels as wire bytes through the attacker, who delivers the honest bytes, an
// authentic act of a second concurrent session, or an act of the wrong kind (free
// choices: signatures do not stop them), and may alter ONE field of one act
// (deviation).
func c20Body(r *vrep.R, bound int) func(c *venum.C) {
	return func(c *venum.C) {
		pI := c20Protocols[c.Choose(3, "pI")]
		pR := c20Protocols[c.Choose(3, "pR")]
		n1 := c20Nonces[c.Choose(len(c20Nonces), "n1")]
		n2 := c20Nonces[c.Choose(len(c20Nonces), "n2")]

		var s2 *c20Session
		second := func() *c20Session {
			if s2 != nil {
				return s2
			}
			p2 := pI
			if pI != pR && c.Choose(2, "s2.protocol") == 1 {
				p2 = pR
			}
			m1 := c20OtherNonce(n1, c.Choose(2, "s2.n1"))
			m2 := c20OtherNonce(n2, c.Choose(2, "s2.n2"))
			s, err := c20Honest(p2, m1, m2)
			if err != nil {
				panic(fmt.Sprintf("c20: honest second session failed: %v", err))
			}
			s2 = s
			return s
		}

		trace := []string{fmt.Sprintf("pI=%q pR=%q n1=%d n2=%d", pI, pR, n1, n2)}
		state := func(phase string) {
			r.State(strings.Join(trace, " | ") + " @" + phase)
			r.Transition(1)
		}
		altered := [4]bool{} // act k delivered differs from what its sender produced
		tampers := 0

		// deliver decides what arrives in place of `honest` (nil when the sender
		// aborted) for act k; returns the bytes and whether they equal the honest ones.
		deliver := func(k int, honest c20Wire, own ...c20Wire) c20Wire {
			label := fmt.Sprintf("act%d", k)
			// sources: 0 honest, 1 same act of the second session, 2.. the other acts
			// of the second session (wrong kind), then the earlier acts of this session
			// reflected back
			opts := []string{"honest", "s2.same", "s2.other1", "s2.other2"}
			for i := range own {
				opts = append(opts, fmt.Sprintf("reflected-own-act%d", i+1))
			}
			src := c.Choose(len(opts), label+".source")
			var b c20Wire
			switch {
			case src == 0:
				b = honest
			case src <= 3:
				s := second()
				acts := []c20Wire{s.a1, s.a2, s.a3}
				b = acts[(k-1+src-1)%3]
			default:
				b = own[src-4]
			}
			if src != 0 {
				trace = append(trace, fmt.Sprintf("%s<-%s", label, opts[src]))
			}
			if b == nil {
				altered[k] = true
				return nil
			}
			// one altered field (deviation). Alterations are applied to the decoded
			// act and re-encoded with the real marshaller, or to the raw bytes.
			var alts []string
			switch k {
			case 1:
				alts = []string{"none", "nonce+1", "nonce-1", "protocol=a", "protocol=b", "protocol=", "nonce-short", "lastbyte^1"}
			case 2:
				alts = []string{"none", "nonce+1", "nonce-1", "challenge[0]^1", "challenge[31]^80", "challenge=0", "protocol=a", "protocol=b", "protocol=", "challenge-short", "lastbyte^1"}
			case 3:
				alts = []string{"none", "challenge[0]^1", "challenge[31]^80", "challenge[31]^1", "challenge=0", "challenge-short"}
			}
			t := c.Deviate(len(alts), label+".alter")
			if t != 0 {
				tampers++
				trace = append(trace, label+":"+alts[t])
				b = c20Alter(k, b, alts[t])
			}
			if honest == nil || string(b) != string(honest) {
				altered[k] = true
			}
			return b
		}

		var out c20Outcome
		var problems []string
		fail := func(format string, a ...any) { problems = append(problems, fmt.Sprintf(format, a...)) }

		p, stack := vrep.Guard(func() {
			// ---- act 1: initiator -> responder
			c20Rand.next = []uint64{n1}
			ia1, err := InitiateHandshake(pI)
			if err != nil {
				panic("c20: InitiateHandshake failed with working entropy: " + err.Error())
			}
			s1, err := ia1.Message().Marshal()
			if err != nil {
				panic(err)
			}
			ia2 := ia1.Next()
			state("act1-sent")

			d1bytes := deliver(1, s1)
			var ra2 *ResponderAct2
			var d1 *Act1Message
			if d1bytes != nil {
				m := &Act1Message{}
				if err := m.Unmarshal(d1bytes); err == nil {
					d1 = m
					c20Rand.next = []uint64{n2}
					ra2, err = AnswerHandshake(m, pR)
					if err != nil {
						ra2 = nil
					}
					c20Rand.next = nil
				}
			}
			// (2) the responder answers exactly acts for its own protocol
			if want := d1 != nil && d1.protocol1 == pR; (ra2 != nil) != want {
				fail("responder answered=%v but delivered act1 decodes=%v with protocol %q vs responder protocol %q", ra2 != nil, d1 != nil, c20Proto(d1), pR)
			}
			var s2w c20Wire
			if ra2 != nil {
				if ra2.nonce2 != n2 {
					panic("c20: responder did not draw its nonce from the entropy source")
				}
				if s2w, err = ra2.Message().Marshal(); err != nil {
					panic(err)
				}
				state("act2-sent")
			} else {
				state("responder-aborted")
			}

			// ---- act 2: responder -> initiator
			d2bytes := deliver(2, s2w, s1)
			var ia3 *InitiatorAct3
			var d2 *Act2Message
			if d2bytes != nil {
				m := &Act2Message{}
				if err := m.Unmarshal(d2bytes); err == nil {
					d2 = m
					ia3, err = ia2.Next(m)
					if err != nil {
						ia3 = nil
					}
				}
			}
			// (1) the initiator proceeds exactly when act2 carries its protocol and the
			// challenge derived from its own nonce and the nonce in the act
			if want := d2 != nil && d2.protocol2 == pI && d2.challenge == c20RefChallenge(n1, d2.nonce2); (ia3 != nil) != want {
				fail("initiator proceeded=%v but delivered act2 (decodes=%v) protocol-ok=%v challenge==sha256(nonce1||nonce2)=%v", ia3 != nil, d2 != nil, d2 != nil && d2.protocol2 == pI, d2 != nil && d2.challenge == c20RefChallenge(n1, d2.nonce2))
			}
			out.iOK = ia3 != nil
			var s3 c20Wire
			if ia3 != nil {
				if s3, err = ia3.Message().Marshal(); err != nil {
					panic(err)
				}
				state("act3-sent")
			} else {
				state("initiator-aborted")
			}

			// ---- act 3: initiator -> responder (only a responder that answered waits)
			if ra2 != nil {
				ra3 := ra2.Next()
				d3bytes := deliver(3, s3, s1, s2w)
				var d3 *Act3Message
				if d3bytes != nil {
					m := &Act3Message{}
					if err := m.Unmarshal(d3bytes); err == nil {
						d3 = m
						out.rOK = ra3.FinalizeHandshake(m) == nil
					}
				}
				// (3) the responder completes exactly when act3 carries the challenge
				// derived from the nonce it received and its own nonce
				if want := d3 != nil && d3.challenge == c20RefChallenge(d1.nonce1, n2); out.rOK != want {
					fail("responder completed=%v but delivered act3 (decodes=%v) challenge==sha256(nonce1||nonce2)=%v", out.rOK, d3 != nil, want)
				}
				if out.rOK {
					state("completed")
				} else {
					state("responder-rejected")
				}
			}
		})
		r.Eval(1)
		fp := strings.Join(trace, " | ")
		rp := c20Replay{c.Script(), bound, c20Nonces}
		if p != nil {
			if s, ok := p.(string); ok && strings.HasPrefix(s, "c20:") || strings.HasPrefix(fmt.Sprint(p), "venum") {
				panic(p) // harness problem, not a property violation
			}
			r.ViolationMin("panic", len(c.Script()), fp, fmt.Sprintf("panic: %v\n%s", p, stack), rp)
			return
		}
		// (4) end to end: both complete <=> same protocol and every act arrived as its
		// sender produced it in this session
		untouched := !altered[1] && !altered[2] && !altered[3]
		completed := out.iOK && out.rOK
		want := pI == pR && untouched
		if completed != want {
			c20EndToEndMismatches++
			fail("handshake completed=%v (initiator ok=%v responder ok=%v) but same-protocol=%v and all acts untouched=%v", completed, out.iOK, out.rOK, pI == pR, untouched)
		}
		r.Outcome(fmt.Sprintf("initiator-ok=%v responder-ok=%v same-protocol=%v untouched=%v", out.iOK, out.rOK, pI == pR, untouched))
		if len(trace) > 1 || pI != pR {
			r.Distinct(fp)
		}
		if tampers > bound {
			panic("c20: more alterations than the bound allows")
		}
		for _, pr := range problems {
			kind := pr
			if i := strings.IndexAny(kind, "=("); i > 0 {
				kind = kind[:i]
			}
			r.ViolationMin(kind, len(trace)*100+len(c.Script()), fp, pr+" — run: "+fp, rp)
		}
	}
}

func c20Proto(m *Act1Message) string {
	if m == nil {
		return "<undecodable>"
	}
	return m.protocol1
}

// c20Alter applies one named alteration to the wire bytes of act k.
func c20Alter(k int, b c20Wire, what string) c20Wire {
	if what == "lastbyte^1" {
		return c20Flip(b, len(b)-1, 1)
	}
	reenc := func(m interface{ Marshal() ([]byte, error) }) c20Wire {
		o, err := m.Marshal()
		if err != nil {
			panic("c20: re-marshal failed: " + err.Error())
		}
		return o
	}
	switch k {
	case 1:
		m := &Act1Message{}
		if err := m.Unmarshal(b); err != nil {
			return c20Flip(b, 0, 1) // wrong-kind bytes: any change will do
		}
		switch what {
		case "nonce+1":
			m.nonce1++
		case "nonce-1":
			m.nonce1--
		case "nonce-short":
			// drop the last nonce byte on the wire: field 1 is first, 8 bytes long
			o := append([]byte{}, b...)
			if len(o) >= 10 && o[0] == 0x0a && o[1] == 8 {
				o = append([]byte{0x0a, 7}, o[2:9]...)
				o = append(o, b[10:]...)
			}
			return o
		default:
			m.protocol1 = strings.TrimPrefix(what, "protocol=")
		}
		return reenc(m)
	case 2:
		m := &Act2Message{}
		if err := m.Unmarshal(b); err != nil {
			return c20Flip(b, 0, 1)
		}
		switch what {
		case "nonce+1":
			m.nonce2++
		case "nonce-1":
			m.nonce2--
		case "challenge[0]^1":
			m.challenge[0] ^= 1
		case "challenge[31]^80":
			m.challenge[31] ^= 0x80
		case "challenge=0":
			m.challenge = [32]byte{}
		case "challenge-short":
			o := reenc(m)
			// field 2 (challenge) follows the 10-byte nonce field: 0x12 0x20 <32 bytes>
			if len(o) >= 44 && o[10] == 0x12 && o[11] == 32 {
				short := append([]byte{}, o[:10]...)
				short = append(short, 0x12, 31)
				short = append(short, o[12:43]...)
				short = append(short, o[44:]...)
				return short
			}
			return o[:len(o)-1]
		default:
			m.protocol2 = strings.TrimPrefix(what, "protocol=")
		}
		return reenc(m)
	default:
		m := &Act3Message{}
		if err := m.Unmarshal(b); err != nil {
			return c20Flip(b, 0, 1)
		}
		switch what {
		case "challenge[0]^1":
			m.challenge[0] ^= 1
		case "challenge[31]^80":
			m.challenge[31] ^= 0x80
		case "challenge[31]^1":
			m.challenge[31] ^= 1
		case "challenge=0":
			m.challenge = [32]byte{}
		case "challenge-short":
			o := reenc(m)
			return append([]byte{0x0a, 31}, o[2:33]...)
		}
		return reenc(m)
	}
}

func TestVerifC20(t *testing.T) {
	r := vrep.Start(t, "C20", "proto")
	defer r.Finish()
	saved := crand.Reader
	crand.Reader = io.Reader(c20Rand)
	defer func() { crand.Reader = saved }()

	bound := 1
	if r.Thorough() {
		c20Nonces = []uint64{0, 1, 1 << 32, 1 << 63, ^uint64(0)}
	}
	if rd := r.ReplayData(); rd != nil {
		var rp c20Replay
		if json.Unmarshal(rd, &rp) == nil && len(rp.Script) > 0 {
			if len(rp.Nonces) >= 3 {
				c20Nonces = rp.Nonces
			}
			venum.Replay(rp.Script, rp.Bound, c20Body(r, rp.Bound))
		}
		return
	}

	// the reference challenge is injective on the nonce alphabet (assumption of the
	// end-to-end clause) and the code's derivation agrees with it
	seen := map[[32]byte]string{}
	var all []uint64
	for _, x := range append([]uint64{2, ^uint64(0) - 1, 1 << 32, 1 << 63}, c20Nonces...) {
		dup := false
		for _, y := range all {
			dup = dup || x == y
		}
		if !dup {
			all = append(all, x)
		}
	}
	for _, a := range all {
		for _, b := range all {
			h := c20RefChallenge(a, b)
			k := fmt.Sprintf("%d,%d", a, b)
			if prev, dup := seen[h]; dup {
				t.Fatalf("reference challenge collides on %s and %s", prev, k)
			}
			seen[h] = k
			r.Eval(1)
			if got := hashToChallenge(a, b); got != h {
				r.ViolationMin("derivation", 0, "hashToChallenge "+k, fmt.Sprintf("hashToChallenge(%d,%d) is not sha256(nonce1||nonce2)", a, b), nil)
			}
		}
	}

	// a broken entropy source never yields a handshake state
	c20Rand.fail = true
	if ia1, err := InitiateHandshake("a"); err == nil || ia1 != nil {
		r.Violation("entropy-failure initiator", "InitiateHandshake returned a state although no nonce could be drawn", nil)
	}
	if ra2, err := AnswerHandshake(&Act1Message{nonce1: 1, protocol1: "a"}, "a"); err == nil || ra2 != nil {
		r.Violation("entropy-failure responder", "AnswerHandshake returned a state although no nonce could be drawn", nil)
	}
	c20Rand.fail = false
	r.Eval(2)
	r.Outcome("entropy-failure refused")

	// determinism gate
	{
		script := []int{0, 0, 1, 2, 1, 0, 1, 0, 0}
		a := venum.Replay(script, 1, func(c *venum.C) { c20Body(vrepNull(t), 1)(c) })
		b := venum.Replay(script, 1, func(c *venum.C) { c20Body(vrepNull(t), 1)(c) })
		if a.FullTrace() != b.FullTrace() {
			t.Fatalf("NONDETERMINISM: %s vs %s", a.FullTrace(), b.FullTrace())
		}
		r.ReplayedTwice(1)
		r.Sample(map[string]any{"script": script, "trace": a.FullTrace()})
	}

	st := venum.Explore(venum.Options{Bound: bound, Workers: 1, Stop: r.Expired}, c20Body(r, bound))
	r.Set("runs", st.Runs)
	r.Set("alteration_bound", bound)
	if st.Stopped {
		r.Cap("exploration stopped before exhausting the space")
	}

	// beyond the property (measurement, never a violation): two coordinated alterations
	// need forged signatures on two acts; count how many of those runs complete
	if r.Thorough() {
		before := c20EndToEndMismatches
		st2 := venum.Explore(venum.Options{Bound: 2, Workers: 1, Stop: r.Expired}, c20Body(vrepNull(t), 2))
		r.Set("beyond.two_alteration_runs", st2.Runs)
		r.Set("beyond.two_alteration_runs_completing_against_end_to_end_clause", c20EndToEndMismatches-before)
	}
}

// vrepNull returns a reporter that writes nowhere (used for replays whose counts must
// not be mixed into the evidence).
func vrepNull(t *testing.T) *vrep.R {
	return vrep.Start(t, "C20", "_detached") // never Finish()ed: nothing is written
}
