//go:build verif

package libp2p

import (
	"bufio"
	crand "crypto/rand"
	"encoding/binary"
	"encoding/json"
	"fmt"
	"io"
	"net"
	"strings"
	"sync"
	"testing"

	libp2pcrypto "github.com/libp2p/go-libp2p/core/crypto"
	"github.com/libp2p/go-libp2p/core/peer"
	protodelim "google.golang.org/protobuf/dev/encoding/protodelim"
	"google.golang.org/protobuf/proto"

	"github.com/keep-network/keep-core/pkg/net/gen/pb"
	"github.com/keep-network/keep-core/pkg/verifshim/venum"
	"github.com/keep-network/keep-core/pkg/verifshim/vrep"
)

// ---- deterministic entropy (handshake nonces) ------------------------------------------------

type c20cEntropy struct {
	mu   sync.Mutex
	next uint64
}

func (e *c20cEntropy) Read(p []byte) (int, error) {
	e.mu.Lock()
	defer e.mu.Unlock()
	for i := 0; i+8 <= len(p); i += 8 {
		e.next++
		binary.LittleEndian.PutUint64(p[i:], e.next)
	}
	return len(p), nil
}

func (e *c20cEntropy) reset(v uint64) { e.mu.Lock(); e.next = v; e.mu.Unlock() }

var c20cRand = &c20cEntropy{}

// ---- identities ------------------------------------------------------------------------------------

type c20cPeer struct {
	priv libp2pcrypto.PrivKey
	pub  libp2pcrypto.PubKey
	id   peer.ID
}

func c20cMakePeer(seed byte) *c20cPeer {
	raw := make([]byte, 32)
	raw[31] = seed
	raw[0] = 1
	priv, err := libp2pcrypto.UnmarshalSecp256k1PrivateKey(raw)
	if err != nil {
		panic(err)
	}
	id, err := peer.IDFromPrivateKey(priv)
	if err != nil {
		panic(err)
	}
	return &c20cPeer{priv, priv.GetPublic(), id}
}

var c20cI, c20cR, c20cC = c20cMakePeer(11), c20cMakePeer(22), c20cMakePeer(33)

// ---- one session through a relay -----------------------------------------------------------------------

// c20cRelayFn decides what is delivered in place of envelope k (1..3) sent by its
// author; returning nil drops the connection.
type c20cRelayFn func(k int, sent *pb.HandshakeEnvelope) *pb.HandshakeEnvelope

type c20cResult struct {
	iErr, rErr      error
	iPanic, rPanic  any
	iStack, rStack  string
	sent, delivered [4][]byte // marshalled envelopes per act as sent / as delivered
	responderPinned peer.ID
}

func c20cSession(pI, pR string, relay c20cRelayFn) *c20cResult {
	res := &c20cResult{}
	cI, rI := net.Pipe() // initiator <-> relay
	rR, cR := net.Pipe() // relay <-> responder
	var wg sync.WaitGroup
	wg.Add(2)
	go func() {
		defer wg.Done()
		ac := &authenticatedConnection{
			Conn: cI, localPeerID: c20cI.id, localPeerPrivateKey: c20cI.priv,
			remotePeerID: c20cR.id, remotePeerPublicKey: c20cR.pub, protocol: pI,
		}
		ac.initializePipe()
		res.iPanic, res.iStack = vrep.Guard(func() { res.iErr = ac.runHandshakeAsInitiator() })
		cI.Close()
	}()
	go func() {
		defer wg.Done()
		ac := &authenticatedConnection{
			Conn: cR, localPeerID: c20cR.id, localPeerPrivateKey: c20cR.priv, protocol: pR,
		}
		ac.initializePipe()
		res.rPanic, res.rStack = vrep.Guard(func() { res.rErr = ac.runHandshakeAsResponder() })
		res.responderPinned = ac.remotePeerID
		cR.Close()
	}()
	readerI, readerR := bufio.NewReader(rI), bufio.NewReader(rR)
	recv := func(rd *bufio.Reader) *pb.HandshakeEnvelope {
		env := &pb.HandshakeEnvelope{}
		if err := (&protodelim.UnmarshalOptions{MaxSize: maxFrameSize}).UnmarshalFrom(rd, env); err != nil {
			return nil
		}
		return env
	}
	send := func(w io.Writer, env *pb.HandshakeEnvelope) bool {
		_, err := (&protodelim.MarshalOptions{}).MarshalTo(w, env)
		return err == nil
	}
	hop := func(k int, from *bufio.Reader, to io.Writer) bool {
		env := recv(from)
		if env == nil {
			return false
		}
		res.sent[k], _ = proto.MarshalOptions{Deterministic: true}.Marshal(env)
		out := relay(k, env)
		if out == nil {
			return false
		}
		res.delivered[k], _ = proto.MarshalOptions{Deterministic: true}.Marshal(out)
		return send(to, out)
	}
	if hop(1, readerI, rR) && hop(2, readerR, rI) {
		hop(3, readerI, rR)
	}
	// whatever happened, unblock both ends
	done := make(chan struct{})
	go func() { wg.Wait(); close(done) }()
	// a side still waiting for a frame that will never come sees EOF once its pipe closes;
	// close the relay ends only after the side that may still be writing has been served
	rI.Close()
	rR.Close()
	<-done
	return res
}

// ---- recorded second session (authentic envelopes for replay) -------------------------------------------

var c20cRecorded = map[string][4]*pb.HandshakeEnvelope{}

func c20cSecond(p string) [4]*pb.HandshakeEnvelope {
	if rec, ok := c20cRecorded[p]; ok {
		return rec
	}
	var rec [4]*pb.HandshakeEnvelope
	c20cRand.reset(1000)
	res := c20cSession(p, p, func(k int, e *pb.HandshakeEnvelope) *pb.HandshakeEnvelope {
		rec[k] = proto.Clone(e).(*pb.HandshakeEnvelope)
		return e
	})
	if res.iErr != nil || res.rErr != nil || res.iPanic != nil || res.rPanic != nil {
		panic(fmt.Sprintf("c20: honest recorded session failed: %v %v", res.iErr, res.rErr))
	}
	c20cRecorded[p] = rec
	return rec
}

type c20cReplay struct {
	Script []int `json:"script"`
	Bound  int   `json:"bound"`
}

var c20cProtocols = []string{"keep", "other", ""}

func c20cBody(r *vrep.R, bound int, nproto int) func(c *venum.C) {
	return func(c *venum.C) {
		pI := c20cProtocols[c.Choose(nproto, "pI")]
		pR := c20cProtocols[c.Choose(nproto, "pR")]
		trace := []string{fmt.Sprintf("pI=%q pR=%q", pI, pR)}
		relay := func(k int, sent *pb.HandshakeEnvelope) *pb.HandshakeEnvelope {
			label := fmt.Sprintf("act%d", k)
			r.State(strings.Join(trace, " | ") + " @" + label + "-in-flight")
			r.Transition(1)
			out := proto.Clone(sent).(*pb.HandshakeEnvelope)
			// authentic envelopes of a recorded second session between the same two
			// peers (same author as act k): free choice
			srcs := []string{"honest", "s2.same"}
			if k != 2 {
				srcs = append(srcs, "s2.other-act-of-same-author")
			}
			if pI != pR {
				srcs = append(srcs, "s2'.same") // recorded on the other side's protocol
			}
			src := c.Choose(len(srcs), label+".source")
			if src != 0 {
				p2 := pI
				if srcs[src] == "s2'.same" {
					p2 = pR
				}
				rec := c20cSecond(p2)
				kk := k
				if srcs[src] == "s2.other-act-of-same-author" {
					kk = 4 - k // 1 <-> 3
				}
				out = proto.Clone(rec[kk]).(*pb.HandshakeEnvelope)
				trace = append(trace, label+"<-"+srcs[src])
			}
			alts := []string{"none", "message[0]^1", "message[last]^1", "signature[0]^1", "signature[last]^1", "signature-truncated", "signature-empty",
				"peerid=third", "peerid=receiver", "resigned-by-third", "message-of-s2-same-signature"}
			t := c.Deviate(len(alts), label+".alter")
			if t != 0 {
				trace = append(trace, label+":"+alts[t])
				flip := func(b []byte, i int) []byte {
					o := append([]byte{}, b...)
					if len(o) > 0 {
						o[(i+len(o))%len(o)] ^= 1
					}
					return o
				}
				switch alts[t] {
				case "message[0]^1":
					out.Message = flip(out.Message, 0)
				case "message[last]^1":
					out.Message = flip(out.Message, -1)
				case "signature[0]^1":
					out.Signature = flip(out.Signature, 0)
				case "signature[last]^1":
					out.Signature = flip(out.Signature, -1)
				case "signature-truncated":
					out.Signature = out.Signature[:len(out.Signature)-1]
				case "signature-empty":
					out.Signature = nil
				case "peerid=third":
					out.PeerID = []byte(c20cC.id)
				case "peerid=receiver":
					if k == 2 {
						out.PeerID = []byte(c20cI.id)
					} else {
						out.PeerID = []byte(c20cR.id)
					}
				case "resigned-by-third":
					sig, err := c20cC.priv.Sign(out.Message)
					if err != nil {
						panic(err)
					}
					out.Signature, out.PeerID = sig, []byte(c20cC.id)
				case "message-of-s2-same-signature":
					out.Message = c20cSecond(pI)[k].Message
				}
			}
			return out
		}
		c20cRand.reset(0)
		res := c20cSession(pI, pR, relay)
		r.Eval(1)
		r.Transition(1)
		fp := strings.Join(trace, " | ")
		rp := c20cReplay{c.Script(), bound}
		if res.iPanic != nil || res.rPanic != nil {
			r.ViolationMin("conn:panic", len(c.Script()), fp, fmt.Sprintf("handshake panicked: initiator=%v responder=%v\n%s%s", res.iPanic, res.rPanic, res.iStack, res.rStack), rp)
			return
		}
		untouched := true
		for k := 1; k <= 3; k++ {
			if res.sent[k] == nil || string(res.sent[k]) != string(res.delivered[k]) {
				untouched = false
			}
		}
		completed := res.iErr == nil && res.rErr == nil
		want := pI == pR && untouched
		r.State(fmt.Sprintf("%s @end initiator-ok=%v responder-ok=%v", fp, res.iErr == nil, res.rErr == nil))
		r.Outcome(fmt.Sprintf("initiator-ok=%v responder-ok=%v same-protocol=%v untouched=%v", res.iErr == nil, res.rErr == nil, pI == pR, untouched))
		if len(trace) > 1 || pI != pR {
			r.Distinct(fp)
		}
		if completed != want {
			r.ViolationMin("conn:end-to-end", len(trace)*100+len(c.Script()), fp,
				fmt.Sprintf("signed handshake completed=%v (initiator err=%v, responder err=%v) but same-protocol=%v and all envelopes untouched=%v — run: %s", completed, res.iErr, res.rErr, pI == pR, untouched, fp), rp)
		}
		// a responder that completed is pinned to the author of the acts it accepted
		if res.rErr == nil && res.responderPinned != c20cI.id && untouched {
			r.ViolationMin("conn:pinning", len(c.Script()), fp, "responder completed an untouched handshake but is pinned to another peer than the initiator", rp)
		}
	}
}

func TestVerifC20Conn(t *testing.T) {
	r := vrep.Start(t, "C20", "conn")
	defer r.Finish()
	saved := crand.Reader
	crand.Reader = io.Reader(c20cRand)
	defer func() { crand.Reader = saved }()

	// authentic envelopes for replay: one honest recorded session per protocol id
	for _, p := range c20cProtocols {
		c20cSecond(p)
	}
	if rd := r.ReplayData(); rd != nil {
		var rp c20cReplay
		if json.Unmarshal(rd, &rp) == nil && len(rp.Script) > 0 {
			venum.Replay(rp.Script, rp.Bound, c20cBody(r, rp.Bound, 3))
		}
		return
	}
	nproto := 3
	// determinism gate
	{
		script := []int{0, 1, 1, 3}
		det := vrep.Start(t, "C20", "_detached")
		a := venum.Replay(script, 1, c20cBody(det, 1, 3))
		b := venum.Replay(script, 1, c20cBody(det, 1, 3))
		if a.FullTrace() != b.FullTrace() {
			t.Fatalf("NONDETERMINISM: %s vs %s", a.FullTrace(), b.FullTrace())
		}
		r.ReplayedTwice(1)
		r.Sample(map[string]any{"script": script, "trace": a.FullTrace()})
	}
	st := venum.Explore(venum.Options{Bound: 1, Workers: 1, Stop: r.Expired}, c20cBody(r, 1, nproto))
	r.Set("runs", st.Runs)
	if st.Stopped {
		r.Cap("exploration stopped before exhausting the space")
	}
}
