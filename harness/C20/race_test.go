//go:build verif

package handshake

// C20, unit "race": the handshake constructors are called for every inbound and outbound
// connection, concurrently. The state-space units are sequential (the property quantifies
// over inputs), so unsynchronised shared state of the package is looked for here: real
// goroutines, the race detector, entropy written by Go code.

import (
	crand "crypto/rand"
	"encoding/binary"
	"sync"
	"sync/atomic"
	"testing"

	"github.com/keep-network/keep-core/pkg/verifshim/vrep"
)

type c20RaceEntropy struct{ n atomic.Uint64 }

func (e *c20RaceEntropy) Read(p []byte) (int, error) {
	v := e.n.Add(0x9e3779b97f4a7c15)
	var b [8]byte
	binary.LittleEndian.PutUint64(b[:], v)
	for i := range p {
		p[i] = b[i%8]
	}
	return len(p), nil
}

func TestVerifC20Race(t *testing.T) {
	r := vrep.Start(t, "C20", "race")
	defer r.Finish()
	if r.ReplayData() != nil {
		return
	}
	// entropy written by Go code (the kernel's writes into a buffer are invisible to the
	// race detector): every request gets a fresh value
	old := crand.Reader
	defer func() { crand.Reader = old }()
	crand.Reader = &c20RaceEntropy{}
	rounds := 200
	if r.Thorough() {
		rounds = 5000
	}
	var wg sync.WaitGroup
	var mu sync.Mutex
	failed := 0
	for g := 0; g < 8; g++ {
		wg.Add(1)
		go func() {
			defer wg.Done()
			for i := 0; i < rounds; i++ {
				ok := func() bool {
					ia1, err := InitiateHandshake("keep")
					if err != nil {
						return false
					}
					ia2 := ia1.Next()
					ra2, err := AnswerHandshake(ia1.Message(), "keep")
					if err != nil {
						return false
					}
					ia3, err := ia2.Next(ra2.Message())
					if err != nil {
						return false
					}
					return ra2.Next().FinalizeHandshake(ia3.Message()) == nil
				}()
				if !ok {
					mu.Lock()
					failed++
					mu.Unlock()
				}
			}
		}()
	}
	wg.Wait()
	r.Eval(8 * rounds)
	r.Distinct("8 goroutines x honest handshakes")
	if failed > 0 {
		r.ViolationMin("honest-handshake-failed", failed, "concurrent honest handshakes", "honest handshakes running concurrently with others failed", nil)
	}
	r.Outcome("race: honest handshakes completed")
	r.Sample("8 goroutines run complete honest handshakes (initiator and responder) concurrently with fresh entropy per request under -race")
}
