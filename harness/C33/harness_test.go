//go:build verif

package tbtcpg

import (
	"encoding/json"
	"fmt"
	"sort"
	"strings"
	"testing"
	"time"

	"github.com/keep-network/keep-core/internal/testutils"
	"github.com/keep-network/keep-core/pkg/bitcoin"
	"github.com/keep-network/keep-core/pkg/tbtc"
	"github.com/keep-network/keep-core/pkg/verifshim/vrep"
	"github.com/keep-network/keep-core/pkg/verifshim/vtime"
)

// deposit_sweep.go and redemptions.go are compiled with "time" -> vtime: outside a
// scheduled execution vtime.Now() is the constant vtime.Epoch, so request ages can be
// placed exactly on, one second before and one second after every boundary.

var (
	c33Wallet = [20]byte{0xaa, 1}
	c33Other  = [20]byte{0xbb, 2}
)

// c33Chain is the harness chain: the repository's LocalChain for everything that is a
// plain lookup, with event queries that apply the filter the way a real chain does
// (wallet, start block) over one full event log, and the two size getters the
// LocalChain does not implement.
type c33Chain struct {
	*LocalChain
	deposits    []*tbtc.DepositRevealedEvent
	redemptions []*tbtc.RedemptionRequestedEvent
	sweepMax    uint16
	redeemMax   uint16
}

func c33HasWallet(ws [][20]byte, w [20]byte) bool {
	if len(ws) == 0 {
		return true
	}
	for _, x := range ws {
		if x == w {
			return true
		}
	}
	return false
}

func (c *c33Chain) PastDepositRevealedEvents(f *tbtc.DepositRevealedEventFilter) ([]*tbtc.DepositRevealedEvent, error) {
	var out []*tbtc.DepositRevealedEvent
	for _, e := range c.deposits {
		if f != nil && (e.BlockNumber < f.StartBlock || f.EndBlock != nil && e.BlockNumber > *f.EndBlock || !c33HasWallet(f.WalletPublicKeyHash, e.WalletPublicKeyHash)) {
			continue
		}
		cp := *e
		out = append(out, &cp)
	}
	return out, nil
}

func (c *c33Chain) PastRedemptionRequestedEvents(f *tbtc.RedemptionRequestedEventFilter) ([]*tbtc.RedemptionRequestedEvent, error) {
	var out []*tbtc.RedemptionRequestedEvent
	for _, e := range c.redemptions {
		if f != nil && (e.BlockNumber < f.StartBlock || f.EndBlock != nil && e.BlockNumber > *f.EndBlock || !c33HasWallet(f.WalletPublicKeyHash, e.WalletPublicKeyHash)) {
			continue
		}
		cp := *e
		out = append(out, &cp)
	}
	return out, nil
}

func (c *c33Chain) GetDepositSweepMaxSize() (uint16, error) { return c.sweepMax, nil }
func (c *c33Chain) GetRedemptionMaxSize() (uint16, error)   { return c.redeemMax, nil }

// ---- deposits -------------------------------------------------------------------

const c33DepositMinAge = 3600 // seconds

type c33DepKind struct {
	name   string
	age    int // seconds relative to the minimum age
	swept  bool
	conf   uint
	noconf bool // the Bitcoin chain cannot tell the confirmations of the funding transaction (lookup fails)
	other  bool
	status int // 1 eligible, 0 not eligible, 2 exactly on the age boundary
}

var c33DepKinds = []c33DepKind{
	{name: "ok", age: +1, conf: 6, status: 1},
	{name: "old", age: +7200, conf: 100, status: 1},
	{name: "edge", age: 0, conf: 6, status: 2},
	{name: "young", age: -1, conf: 6},
	{name: "swept", age: +1, swept: true, conf: 6},
	{name: "conf5", age: +1, conf: 5},
	{name: "other", age: +1, conf: 6, other: true},
	// the funding transaction is unknown to the Bitcoin chain: not "sufficiently confirmed"
	{name: "unknown", age: +1, noconf: true},
}

var c33DepBlocks = []uint64{20, 10, 30}

type c33DepEvent struct {
	K int `json:"k"` // kind
	B int `json:"b"` // index into c33DepBlocks
}

type c33DepCase struct {
	Events []c33DepEvent `json:"events"`
	Max    uint16        `json:"max"`
	// SharedTx: all deposits are outputs 0, 1, 2 ... of ONE funding transaction
	// (a depositor funding several deposits at once) instead of one transaction each.
	SharedTx bool `json:"shared_tx,omitempty"`
	// Twice: the search runs twice on the same task object (two coordination windows);
	// the second result is judged.
	Twice bool `json:"twice,omitempty"`
}

func (c c33DepCase) String() string {
	var b strings.Builder
	for _, e := range c.Events {
		fmt.Fprintf(&b, "%s@%d ", c33DepKinds[e.K].name, c33DepBlocks[e.B])
	}
	s := fmt.Sprintf("deposits[%s] max=%d", strings.TrimSpace(b.String()), c.Max)
	if c.SharedTx {
		s += " one-funding-tx"
	}
	if c.Twice {
		s += " second-search"
	}
	return s
}

// c33DepOutpoint is the funding outpoint of event i of a case.
func (c c33DepCase) outpoint(i int) (bitcoin.Hash, uint32) {
	if c.SharedTx {
		return c33DepHash(0), uint32(i)
	}
	return c33DepHash(i), 0
}

func c33DepHash(i int) bitcoin.Hash { return bitcoin.Hash{byte(i + 1), 0xd0} }

func c33RunDeposits(r *vrep.R, c c33DepCase) {
	lc := NewLocalChain()
	btc := NewLocalBitcoinChain()
	lc.SetDepositMinAge(c33DepositMinAge)
	ch := &c33Chain{LocalChain: lc, sweepMax: c.Max}
	now := vtime.Epoch
	for i, e := range c.Events {
		k := c33DepKinds[e.K]
		w := c33Wallet
		if k.other {
			w = c33Other
		}
		h, oi := c.outpoint(i)
		ch.deposits = append(ch.deposits, &tbtc.DepositRevealedEvent{
			FundingTxHash: h, FundingOutputIndex: oi, WalletPublicKeyHash: w, BlockNumber: c33DepBlocks[e.B], Amount: 100000,
		})
		swept := time.Unix(0, 0)
		if k.swept {
			swept = now.Add(-10 * time.Second)
		}
		lc.SetDepositRequest(h, oi, &tbtc.DepositChainRequest{
			Amount:     100000,
			RevealedAt: now.Add(-time.Duration(c33DepositMinAge+k.age) * time.Second),
			SweptAt:    swept,
		})
		if !k.noconf {
			btc.SetTransactionConfirmations(h, k.conf)
		}
	}
	task := NewDepositSweepTask(ch, btc)
	var got []*DepositReference
	var err error
	p, stack := vrep.Guard(func() {
		got, err = task.FindDepositsToSweep(&testutils.MockLogger{}, c33Wallet, c.Max)
		if c.Twice && err == nil {
			got, err = task.FindDepositsToSweep(&testutils.MockLogger{}, c33Wallet, c.Max)
		}
	})
	report := func(kind, what string) {
		r.ViolationMin("deposits:"+kind, len(c.Events)*10+int(c.Max), "deposits:"+kind+" "+c.String(), c.String()+": "+what, map[string]any{"deposits": c})
	}
	if p != nil {
		report("panic", fmt.Sprintf("panic: %v\n%s", p, stack))
		return
	}
	if err != nil {
		report("error", fmt.Sprintf("unexpected error: %v", err))
		return
	}
	// map the result back to event indices
	var idx []int
	seen := map[int]bool{}
	for _, d := range got {
		found := -1
		for i := range c.Events {
			if h, oi := c.outpoint(i); h == d.FundingTxHash && d.FundingOutputIndex == oi {
				found = i
			}
		}
		if found < 0 {
			report("unknown-deposit", fmt.Sprintf("result contains a deposit that was never revealed: %x", d.FundingTxHash[:2]))
			return
		}
		if seen[found] {
			report("duplicate", fmt.Sprintf("event %d returned twice", found))
			return
		}
		seen[found] = true
		if d.RevealBlock != c33DepBlocks[c.Events[found].B] {
			report("reveal-block", fmt.Sprintf("event %d returned with reveal block %d, revealed at %d", found, d.RevealBlock, c33DepBlocks[c.Events[found].B]))
		}
		idx = append(idx, found)
	}
	// The statement does not say whether "old enough" is strict at the exact boundary:
	// both readings are accepted, but one reading must explain the whole result.
	var problems []string
	for _, edgeEligible := range []bool{false, true} {
		elig := func(i int) bool {
			s := c33DepKinds[c.Events[i].K].status
			return s == 1 || s == 2 && edgeEligible
		}
		blk := func(i int) uint64 { return c33DepBlocks[c.Events[i].B] }
		n := 0
		for i := range c.Events {
			if elig(i) {
				n++
			}
		}
		want := n
		if c.Max > 0 && int(c.Max) < n {
			want = int(c.Max)
		}
		prob := ""
		for j, i := range idx {
			if !elig(i) {
				prob = fmt.Sprintf("event %d (%s) is not eligible but was returned", i, c33DepKinds[c.Events[i].K].name)
				break
			}
			if j > 0 && blk(idx[j-1]) > blk(i) {
				prob = fmt.Sprintf("result is not in reveal order: block %d before block %d", blk(idx[j-1]), blk(i))
				break
			}
		}
		if prob == "" && len(idx) != want {
			prob = fmt.Sprintf("%d deposits returned, %d eligible, max %d: expected %d", len(idx), n, c.Max, want)
		}
		if prob == "" && len(idx) > 0 {
			last := blk(idx[len(idx)-1])
			for i := range c.Events {
				if elig(i) && !seen[i] && blk(i) < last {
					prob = fmt.Sprintf("eligible event %d revealed at block %d was left out although a deposit revealed later (block %d) was returned", i, blk(i), last)
					break
				}
			}
		}
		if prob == "" {
			problems = nil
			break
		}
		problems = append(problems, prob)
	}
	if problems != nil {
		report("selection", fmt.Sprintf("returned events %v; strict-age reading: %s; inclusive-age reading: %s", idx, problems[0], problems[1]))
	}
	r.Outcome(fmt.Sprintf("deposits:returned%d", len(idx)))
}

func c33Deposits(r *vrep.R, maxEvents int) {
	var cases [][]c33DepEvent
	var gen func(p []c33DepEvent)
	gen = func(p []c33DepEvent) {
		cases = append(cases, append([]c33DepEvent{}, p...))
		if len(p) == maxEvents {
			return
		}
		for k := range c33DepKinds {
			for b := range c33DepBlocks {
				gen(append(p, c33DepEvent{k, b}))
			}
		}
	}
	gen(nil)
	r.Set("deposits.event_lists", len(cases))
	r.Sample(c33DepCase{Events: []c33DepEvent{{0, 0}, {2, 1}, {4, 1}}, Max: 1}.String())
	vrep.Parallel(vrep.Workers(), len(cases), func(i int) {
		if r.Expired() {
			return
		}
		ev := cases[i]
		el := 0
		for _, e := range ev {
			if c33DepKinds[e.K].status != 0 {
				el++
			}
		}
		// one funding transaction for all deposits: only where all events have the same
		// confirmation count (it is a property of the transaction)
		sameConf := true
		for _, e := range ev {
			k := c33DepKinds[e.K]
			if k.noconf || k.conf != c33DepKinds[ev[0].K].conf {
				sameConf = false
			}
		}
		n := 0
		for _, max := range []uint16{0, 1, 2} {
			for _, shared := range []bool{false, true} {
				if shared && (!sameConf || len(ev) < 2) {
					continue
				}
				for _, twice := range []bool{false, true} {
					if twice && max != 0 && !shared {
						continue
					}
					c := c33DepCase{Events: ev, Max: max, SharedTx: shared, Twice: twice}
					c33RunDeposits(r, c)
					n++
					if el >= 1 && len(ev) >= 2 {
						r.Distinct(c.String())
					}
				}
			}
		}
		r.Eval(n)
	})
}

// ---- redemptions ----------------------------------------------------------------

const (
	c33RedMinAge  = 600  // seconds
	c33RedDelay   = 900  // a per-request delay larger than the minimum age
	c33RedTimeout = 7200 // seconds
)

// age classes of a pending request, relative to eff = max(minAge, delay) and timeout
type c33AgeClass struct {
	name   string
	fromT  bool // offset counted from the timeout instead of eff
	off    int
	status int // 1 inside, 0 outside, 2 on the lower boundary, 3 on the upper boundary
}

var c33Ages = []c33AgeClass{
	{"eff-1", false, -1, 0},
	{"eff", false, 0, 2},
	{"eff+1", false, +1, 1},
	{"mid", false, +1000, 1},
	{"mid2", false, +2000, 1},
	{"T-1", true, -1, 1},
	{"T", true, 0, 3},
	{"T+1", true, +1, 0},
}

// state of one redemption key: Events = number of RedemptionRequested events (0 =
// key absent, 2 = the key was requested twice), Pending = -1 no pending request, else
// index into c33Ages; Delay = the request has a delay above the minimum age.
type c33RedKey struct {
	Events  int  `json:"events"`
	Pending int  `json:"pending"`
	Delay   bool `json:"delay"`
}

type c33RedCase struct {
	Keys  []c33RedKey `json:"keys"`
	Other bool        `json:"other"` // another wallet has an eligible request for script 0
	Limit uint16      `json:"limit"`
}

func (k c33RedKey) String() string {
	if k.Events == 0 {
		return "-"
	}
	s := fmt.Sprintf("%dev:", k.Events)
	if k.Pending < 0 {
		return s + "notpending"
	}
	s += c33Ages[k.Pending].name
	if k.Delay {
		s += "/delay"
	}
	return s
}

func (c c33RedCase) String() string {
	var parts []string
	for _, k := range c.Keys {
		parts = append(parts, k.String())
	}
	return fmt.Sprintf("redemptions[%s] other=%v limit=%d", strings.Join(parts, " "), c.Other, c.Limit)
}

func c33Script(i int) bitcoin.Script {
	return bitcoin.Script{0x00, 0x14, byte(i + 1), 0xee, 0xee, 0xee, 0xee, 0xee, 0xee, 0xee, 0xee, 0xee, 0xee, 0xee, 0xee, 0xee, 0xee, 0xee, 0xee, 0xee, 0xee, 0xee}
}

func (k c33RedKey) age() int {
	eff := c33RedMinAge
	if k.Delay {
		eff = c33RedDelay
	}
	a := c33Ages[k.Pending]
	if a.fromT {
		return c33RedTimeout + a.off
	}
	return eff + a.off
}

func c33RunRedemptions(r *vrep.R, c c33RedCase) {
	lc := NewLocalChain()
	btc := NewLocalBitcoinChain()
	bc := NewMockBlockCounter()
	bc.SetCurrentBlock(5000)
	lc.SetBlockCounter(bc)
	lc.SetAverageBlockTime(12 * time.Second)
	lc.SetRedemptionRequestMinAge(c33RedMinAge)
	lc.SetRedemptionParameters(0, 0, 0, 0, c33RedTimeout, nil, 0)
	ch := &c33Chain{LocalChain: lc, redeemMax: c.Limit}
	now := vtime.Epoch
	// event log: first events of every key in key order, then the repeated ones, all
	// inside the look-back range [5000 - (7200/12 + 1000), 5000]
	block := uint64(4000)
	add := func(w [20]byte, s bitcoin.Script) {
		block += 7
		ch.redemptions = append(ch.redemptions, &tbtc.RedemptionRequestedEvent{
			WalletPublicKeyHash: w, RedeemerOutputScript: s, RequestedAmount: 50000, BlockNumber: block,
		})
	}
	for round := 1; round <= 2; round++ {
		for i := len(c.Keys) - 1; i >= 0; i-- { // log order differs from key order
			if c.Keys[i].Events >= round {
				add(c33Wallet, c33Script(i))
			}
		}
		if round == 1 && c.Other {
			add(c33Other, c33Script(0))
		}
	}
	for i, k := range c.Keys {
		s := c33Script(i)
		d := time.Duration(0)
		if k.Delay {
			d = c33RedDelay * time.Second
		}
		lc.SetRedemptionDelay(c33Wallet, s, d)
		if k.Pending >= 0 {
			lc.SetPendingRedemptionRequest(c33Wallet, &tbtc.RedemptionRequest{
				RedeemerOutputScript: s, RequestedAmount: 50000,
				RequestedAt: now.Add(-time.Duration(k.age()) * time.Second),
			})
		}
	}
	if c.Other {
		lc.SetRedemptionDelay(c33Other, c33Script(0), 0)
		lc.SetPendingRedemptionRequest(c33Other, &tbtc.RedemptionRequest{
			RedeemerOutputScript: c33Script(0), RequestedAmount: 50000,
			RequestedAt: now.Add(-time.Duration(c33RedMinAge+5000) * time.Second),
		})
	}
	task := NewRedemptionTask(ch, btc)
	var got []bitcoin.Script
	var err error
	p, stack := vrep.Guard(func() {
		got, err = task.FindPendingRedemptions(&testutils.MockLogger{}, c33Wallet, c.Limit)
	})
	report := func(kind, what string) {
		r.ViolationMin("redemptions:"+kind, len(c.Keys)*10+int(c.Limit), "redemptions:"+kind+" "+c.String(), c.String()+": "+what, map[string]any{"redemptions": c})
	}
	if p != nil {
		report("panic", fmt.Sprintf("panic: %v\n%s", p, stack))
		return
	}
	if err != nil {
		report("error", fmt.Sprintf("unexpected error: %v", err))
		return
	}
	var idx []int
	seen := map[int]bool{}
	for _, s := range got {
		found := -1
		for i := range c.Keys {
			if string(c33Script(i)) == string(s) {
				found = i
			}
		}
		if found < 0 {
			report("unknown-script", fmt.Sprintf("result contains a script nobody requested for this wallet: %x", []byte(s)))
			return
		}
		if seen[found] {
			report("duplicate-key", fmt.Sprintf("redemption key %d returned twice", found))
			return
		}
		seen[found] = true
		idx = append(idx, found)
	}
	// boundary readings: lower/upper boundary inclusive or not (the statement says
	// "between"); one reading must explain the whole result
	var problems []string
	ok := false
	for reading := 0; reading < 4 && !ok; reading++ {
		loIncl, hiIncl := reading&1 == 1, reading&2 == 2
		elig := func(i int) bool {
			k := c.Keys[i]
			if k.Events == 0 || k.Pending < 0 {
				return false
			}
			switch c33Ages[k.Pending].status {
			case 1:
				return true
			case 2:
				return loIncl
			case 3:
				return hiIncl
			}
			return false
		}
		n := 0
		for i := range c.Keys {
			if elig(i) {
				n++
			}
		}
		want := n
		if c.Limit > 0 && int(c.Limit) < n {
			want = int(c.Limit)
		}
		prob := ""
		for j, i := range idx {
			if !elig(i) {
				prob = fmt.Sprintf("key %d (%s) is not eligible but was returned", i, c.Keys[i])
				break
			}
			if j > 0 && c.Keys[idx[j-1]].age() < c.Keys[i].age() {
				prob = fmt.Sprintf("result is not oldest first: age %ds before age %ds", c.Keys[idx[j-1]].age(), c.Keys[i].age())
				break
			}
		}
		if prob == "" && len(idx) != want {
			prob = fmt.Sprintf("%d requests returned, %d eligible, limit %d: expected %d", len(idx), n, c.Limit, want)
		}
		if prob == "" && len(idx) > 0 {
			youngest := c.Keys[idx[len(idx)-1]].age()
			for i := range c.Keys {
				if elig(i) && !seen[i] && c.Keys[i].age() > youngest {
					prob = fmt.Sprintf("eligible key %d (age %ds) was left out although a younger request (age %ds) was returned", i, c.Keys[i].age(), youngest)
					break
				}
			}
		}
		if prob == "" {
			ok = true
		} else {
			problems = append(problems, prob)
		}
	}
	if !ok {
		report("selection", fmt.Sprintf("returned keys %v; under every boundary reading the result is wrong, e.g. exclusive/exclusive: %s; inclusive/inclusive: %s", idx, problems[0], problems[3]))
	}
	r.Outcome(fmt.Sprintf("redemptions:returned%d", len(idx)))
}

// c33KeyStates lists the states of one key; repeats = allow the key to be requested twice
func c33KeyStates(repeats bool) []c33RedKey {
	out := []c33RedKey{{Events: 0, Pending: -1}}
	maxEv := 1
	if repeats {
		maxEv = 2
	}
	for ev := 1; ev <= maxEv; ev++ {
		out = append(out, c33RedKey{Events: ev, Pending: -1})
		for a := range c33Ages {
			out = append(out, c33RedKey{ev, a, false}, c33RedKey{ev, a, true})
		}
	}
	return out
}

func c33Redemptions(r *vrep.R, keys int, repeatKeys int) {
	var cases [][]c33RedKey
	var gen func(p []c33RedKey)
	gen = func(p []c33RedKey) {
		if len(p) == keys {
			cases = append(cases, append([]c33RedKey{}, p...))
			return
		}
		for _, s := range c33KeyStates(len(p) < repeatKeys) {
			gen(append(p, s))
		}
	}
	gen(nil)
	r.Add("redemptions.key_state_vectors", int64(len(cases)))
	r.Sample(c33RedCase{Keys: []c33RedKey{{2, 3, false}, {1, 3, true}, {1, 7, false}}, Other: true, Limit: 1}.String())
	vrep.Parallel(vrep.Workers(), len(cases), func(i int) {
		if r.Expired() {
			return
		}
		ks := cases[i]
		pend := 0
		for _, k := range ks {
			if k.Events > 0 && k.Pending >= 0 {
				pend++
			}
		}
		n := 0
		for _, other := range []bool{false, true} {
			for _, limit := range []uint16{0, 1, 2} {
				c := c33RedCase{ks, other, limit}
				c33RunRedemptions(r, c)
				n++
				if pend >= 2 {
					r.Distinct(c.String())
				}
			}
		}
		r.Eval(n)
	})
}

// ---- generator ------------------------------------------------------------------

type c33Stub struct {
	action tbtc.WalletActionType
	res    int // 0 no proposal, 1 proposal, 2 error
}

func (s *c33Stub) Run(*tbtc.CoordinationProposalRequest) (tbtc.CoordinationProposal, bool, error) {
	switch s.res {
	case 1:
		return &tbtc.HeartbeatProposal{Message: [16]byte{byte(s.action), 0x33}}, true, nil
	case 2:
		return nil, false, fmt.Errorf("c33: task %s failed", s.action)
	}
	return nil, false, nil
}
func (s *c33Stub) ActionType() tbtc.WalletActionType { return s.action }

// the order NewProposalGenerator registers the tasks in
var c33TaskOrder = []tbtc.WalletActionType{tbtc.ActionDepositSweep, tbtc.ActionRedemption, tbtc.ActionHeartbeat, tbtc.ActionMovingFunds, tbtc.ActionMovedFundsSweep}

// checklist alphabet: the five supported actions plus one without a task
var c33Actions = []tbtc.WalletActionType{tbtc.ActionRedemption, tbtc.ActionDepositSweep, tbtc.ActionMovedFundsSweep, tbtc.ActionMovingFunds, tbtc.ActionHeartbeat, tbtc.ActionNoop}

type c33GenCase struct {
	Checklist []int `json:"checklist"` // indices into c33Actions
	Results   []int `json:"results"`   // per task in c33TaskOrder
}

func (c c33GenCase) String() string {
	var cl, rs []string
	for _, a := range c.Checklist {
		cl = append(cl, c33Actions[a].String())
	}
	for i, x := range c.Results {
		rs = append(rs, fmt.Sprintf("%s:%s", c33TaskOrder[i], []string{"none", "proposal", "error"}[x]))
	}
	return fmt.Sprintf("generator checklist=[%s] tasks=[%s]", strings.Join(cl, ","), strings.Join(rs, ","))
}

func c33RunGenerator(r *vrep.R, c c33GenCase) {
	var tasks []ProposalTask
	resOf := map[tbtc.WalletActionType]int{}
	for i, a := range c33TaskOrder {
		tasks = append(tasks, &c33Stub{a, c.Results[i]})
		resOf[a] = c.Results[i]
	}
	pg := &ProposalGenerator{tasks: tasks}
	var checklist []tbtc.WalletActionType
	for _, a := range c.Checklist {
		checklist = append(checklist, c33Actions[a])
	}
	var got tbtc.CoordinationProposal
	var err error
	p, stack := vrep.Guard(func() {
		got, err = pg.Generate(&tbtc.CoordinationProposalRequest{WalletPublicKeyHash: c33Wallet, ActionsChecklist: checklist})
	})
	report := func(kind, what string) {
		r.ViolationMin("generator:"+kind, len(c.Checklist), "generator:"+kind+" "+c.String(), c.String()+": "+what, map[string]any{"generator": c})
	}
	if p != nil {
		report("panic", fmt.Sprintf("panic: %v\n%s", p, stack))
		return
	}
	// reference: walk the checklist; what happens after a task error is not stated
	// (any outcome accepted from there on)
	want := "noop"
	for _, a := range checklist {
		res, supported := resOf[a]
		if !supported {
			continue
		}
		if res == 2 {
			want = "any"
			break
		}
		if res == 1 {
			want = "proposal:" + a.String()
			break
		}
	}
	desc := "error"
	if err == nil {
		switch g := got.(type) {
		case *tbtc.NoopProposal:
			desc = "noop"
		case *tbtc.HeartbeatProposal:
			desc = "proposal:" + tbtc.WalletActionType(g.Message[0]).String()
		default:
			desc = fmt.Sprintf("%T", got)
		}
	}
	r.Outcome("generator:" + strings.SplitN(desc, ":", 2)[0])
	if want != "any" && desc != want {
		report("dispatch", fmt.Sprintf("got %s (err=%v), the first checklist action that yields a proposal gives %s", desc, err, want))
	}
}

func c33Generator(r *vrep.R, maxLen int) {
	var lists [][]int
	var gen func(p []int)
	gen = func(p []int) {
		lists = append(lists, append([]int{}, p...))
		if len(p) == maxLen {
			return
		}
		for a := range c33Actions {
			gen(append(p, a))
		}
	}
	gen(nil)
	r.Set("generator.checklists", len(lists))
	r.Sample(c33GenCase{[]int{5, 0, 1}, []int{1, 0, 2, 0, 0}}.String())
	vrep.Parallel(vrep.Workers(), len(lists), func(i int) {
		if r.Expired() {
			return
		}
		n := 0
		res := make([]int, len(c33TaskOrder))
		var rec func(k int)
		rec = func(k int) {
			if k == len(res) {
				c := c33GenCase{lists[i], append([]int{}, res...)}
				c33RunGenerator(r, c)
				n++
				if len(lists[i]) >= 2 {
					r.Distinct(c.String())
				}
				return
			}
			for x := 0; x < 3; x++ {
				res[k] = x
				rec(k + 1)
			}
		}
		rec(0)
		r.Eval(n)
	})
}

func TestVerifC33(t *testing.T) {
	r := vrep.Start(t, "C33", "discovery")
	defer r.Finish()
	if rd := r.ReplayData(); rd != nil {
		var rp struct {
			Deposits    *c33DepCase `json:"deposits"`
			Redemptions *c33RedCase `json:"redemptions"`
			Generator   *c33GenCase `json:"generator"`
		}
		if json.Unmarshal(rd, &rp) == nil {
			switch {
			case rp.Deposits != nil:
				c33RunDeposits(r, *rp.Deposits)
			case rp.Redemptions != nil:
				c33RunRedemptions(r, *rp.Redemptions)
			case rp.Generator != nil:
				c33RunGenerator(r, *rp.Generator)
			}
			r.Eval(1)
		}
		return
	}
	if !vtime.Now().Equal(vtime.Epoch) {
		t.Fatalf("virtual clock is not fixed outside a scheduled execution")
	}
	// self-check of the age table (infrastructure, not a property)
	ages := map[int]bool{}
	for a := range c33Ages {
		for _, d := range []bool{false, true} {
			ages[c33RedKey{1, a, d}.age()] = true
		}
	}
	var al []int
	for a := range ages {
		al = append(al, a)
	}
	sort.Ints(al)
	r.Set("redemptions.distinct_ages_s", al)
	if r.Thorough() {
		c33Deposits(r, 4)
		c33Redemptions(r, 3, 3)
		c33Redemptions(r, 4, 0)
		c33Generator(r, 4)
	} else {
		c33Deposits(r, 3)
		c33Redemptions(r, 3, 1)
		c33Generator(r, 3)
	}
}
