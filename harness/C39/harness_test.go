//go:build verif

package generator

import (
	"context"
	"encoding/json"
	"errors"
	"fmt"
	"sort"
	"strings"
	"testing"

	"github.com/keep-network/keep-core/internal/testutils"
	"github.com/keep-network/keep-core/pkg/verifshim/vrep"
	"github.com/keep-network/keep-core/pkg/verifshim/vsched"
)

// c39Param is the generated parameter: a small tagged value. It is valid iff Check is
// the tag of ID.
type c39Param struct {
	ID    int
	Check uint64
}

func c39Tag(id int) uint64 { return uint64(id)*0x9e3779b97f4a7c15 + 0xc39 }

func c39File(id int) string { return fmt.Sprintf("p%03d", id) }

// c39Disk is what survives a restart: named files in insertion order.
type c39Disk struct {
	files   map[string]c39Param
	order   []string
	liveGen int // generation (process) that is alive; older ones are frozen
}

func (d *c39Disk) has(name string) bool { _, ok := d.files[name]; return ok }

func (d *c39Disk) put(name string, p c39Param) {
	if !d.has(name) {
		d.order = append(d.order, name)
	}
	d.files[name] = p
}

func (d *c39Disk) remove(name string) {
	delete(d.files, name)
	for i, n := range d.order {
		if n == name {
			d.order = append(d.order[:i], d.order[i+1:]...)
			break
		}
	}
}

func (d *c39Disk) names() string { return strings.Join(d.order, ",") }

func c39Freeze() { vsched.Block("process is dead", func() bool { return false }) }

// c39Pers is the Persistence of one process generation over the shared disk, with
// fault choices (one deviation each) on every call.
type c39Pers struct {
	disk *c39Disk
	gen  int
	obs  *c39Obs
	sc   *c39Scenario
}

var errC39Fault = errors.New("injected storage fault")

func (p *c39Pers) Save(v *c39Param) (*Persisted[c39Param], error) {
	if p.disk.liveGen != p.gen {
		c39Freeze()
	}
	p.obs.saves++
	if p.sc.Faults {
		switch vsched.Deviate(3, "save.err") {
		case 1:
			p.obs.saveErrs++
			vsched.Logf("g%d save %d: error", p.gen, v.ID)
			return nil, errC39Fault
		case 2:
			// the write reached the disk, the error comes from what follows (final sync):
			// an error is reported although the file stays behind
			p.obs.saveErrs++
			p.disk.put(c39File(v.ID), *v)
			vsched.Logf("g%d save %d: error after the file was written", p.gen, v.ID)
			return nil, errC39Fault
		}
	}
	name := c39File(v.ID)
	p.disk.put(name, *v)
	vsched.Logf("g%d save %d", p.gen, v.ID)
	return &Persisted[c39Param]{Data: *v, ID: name}, nil
}

func (p *c39Pers) Delete(e *Persisted[c39Param]) error {
	if p.disk.liveGen != p.gen {
		c39Freeze()
	}
	if e == nil {
		// the real preParamsStorage.Delete dereferences the element (e.ID)
		p.obs.fail("missing-parameter", "GetNow took a nil element out of the pool and handed it to Persistence.Delete: a parameter whose Save failed had been queued")
		return nil
	}
	if p.sc.Faults && vsched.Deviate(2, "delete.err") == 1 {
		p.obs.deleteErrs++
		vsched.Logf("g%d delete %s: error", p.gen, e.ID)
		return errC39Fault
	}
	p.disk.remove(e.ID)
	vsched.Logf("g%d delete %s", p.gen, e.ID)
	return nil
}

func (p *c39Pers) ReadAll() ([]*Persisted[c39Param], error) {
	if p.disk.liveGen != p.gen {
		c39Freeze()
	}
	if p.sc.Faults && vsched.Deviate(2, "readall.err") == 1 {
		return nil, errC39Fault
	}
	var all []*Persisted[c39Param]
	for _, n := range p.disk.order {
		all = append(all, &Persisted[c39Param]{Data: p.disk.files[n], ID: n})
	}
	return all, nil
}

type c39Scenario struct {
	Size      int   `json:"size"`      // pool size
	Preload   int   `json:"preload"`   // parameters already on disk at the first start
	Horizon   int   `json:"horizon"`   // parameters the generator yields over the whole run
	Consumers []int `json:"consumers"` // GetNow calls per consumer thread (every generation)
	Control   bool  `json:"control"`   // a thread stops and resumes the scheduler
	Restarts  int   `json:"restarts"`  // process restarts over the surviving disk (at any point)
	Faults    bool  `json:"faults"`    // Save / Delete / ReadAll errors as deviations
	MaxBound  int   `json:"max_bound"`
}

func (sc c39Scenario) key() string {
	return fmt.Sprintf("size%d pre%d gen%d cons%v ctl%v rst%d faults%v", sc.Size, sc.Preload, sc.Horizon, sc.Consumers, sc.Control, sc.Restarts, sc.Faults)
}

type c39Obs struct {
	disk       *c39Disk
	nextID     int
	known      map[int]bool // ids that exist: preloaded or yielded by the generator
	served     map[int]int  // id -> times handed out
	servedN    int
	empties    int
	getErrs    int
	saves      int
	saveErrs   int
	deleteErrs int
	restarts   int
	maxCount   int
	problems   []string
	consDone   int
	building   map[int]bool // generation -> NewParameterPool entered and not returned
}

func (o *c39Obs) fail(kind, format string, a ...any) {
	o.problems = append(o.problems, kind+"\x00"+fmt.Sprintf(format, a...))
}

// c39Start builds one process generation: scheduler, pool over the disk, consumers.
func c39Start(sc *c39Scenario, obs *c39Obs, gen int) {
	disk := obs.disk
	pers := &c39Pers{disk: disk, gen: gen, obs: obs, sc: sc}
	s := &Scheduler{}
	generate := func(ctx context.Context) *c39Param {
		if disk.liveGen != gen {
			c39Freeze()
		}
		vsched.Yield() // the computation takes time
		if disk.liveGen != gen {
			c39Freeze()
		}
		if ctx.Err() != nil {
			return nil // interrupted
		}
		if obs.nextID >= sc.Preload+sc.Horizon {
			// nothing more will be found in this run: compute until told to stop
			vsched.Recv(ctx.Done())
			return nil
		}
		id := obs.nextID
		obs.nextID++
		obs.known[id] = true
		vsched.Logf("g%d generated %d", gen, id)
		return &c39Param{ID: id, Check: c39Tag(id)}
	}
	// the constructor loads from the disk; it must come back
	obs.building[gen] = true
	pool := NewParameterPool[c39Param](&testutils.MockLogger{}, s, pers, sc.Size, generate, 0)
	obs.building[gen] = false
	if n := pool.ParametersCount(); n > sc.Size {
		obs.fail("oversize", "generation %d: the pool holds %d parameters right after construction, configured size %d", gen, n, sc.Size)
	}
	for ci, calls := range sc.Consumers {
		ci, calls := ci, calls
		vsched.Go(func() {
			for k := 0; k < calls; k++ {
				if disk.liveGen != gen {
					c39Freeze()
				}
				p, err := pool.GetNow()
				if disk.liveGen != gen {
					c39Freeze()
				}
				n := pool.ParametersCount()
				if n > obs.maxCount {
					obs.maxCount = n
				}
				if n > sc.Size {
					obs.fail("oversize", "generation %d: the pool holds %d parameters, configured size %d", gen, n, sc.Size)
				}
				switch {
				case err == ErrEmptyPool:
					obs.empties++
					vsched.Logf("g%d c%d empty", gen, ci)
				case err != nil:
					obs.getErrs++
					vsched.Logf("g%d c%d error", gen, ci)
				case p == nil:
					obs.fail("missing-parameter", "generation %d: GetNow returned no error and a nil parameter", gen)
				default:
					vsched.Logf("g%d c%d got %d", gen, ci, p.ID)
					obs.servedN++
					if !obs.known[p.ID] || p.Check != c39Tag(p.ID) {
						obs.fail("invalid-parameter", "generation %d: GetNow handed out %+v which is not a parameter that was generated or persisted", gen, *p)
						break
					}
					obs.served[p.ID]++
					if obs.served[p.ID] > 1 {
						obs.fail("served-twice", "generation %d: parameter %d was handed out %d times", gen, p.ID, obs.served[p.ID])
					}
					if disk.has(c39File(p.ID)) {
						obs.fail("not-removed", "generation %d: parameter %d was handed out while it is still in storage (disk: %s)", gen, p.ID, disk.names())
					}
				}
			}
			obs.consDone++
		})
	}
	if sc.Control {
		vsched.Go(func() {
			if disk.liveGen != gen {
				c39Freeze()
			}
			s.stop()
			vsched.Logf("g%d stop", gen)
			if disk.liveGen != gen {
				c39Freeze()
			}
			s.resume()
			vsched.Logf("g%d resume", gen)
		})
	}
}

func c39Body(sc c39Scenario, obs *c39Obs) func() {
	return func() {
		disk := &c39Disk{files: map[string]c39Param{}}
		*obs = c39Obs{disk: disk, known: map[int]bool{}, served: map[int]int{}, building: map[int]bool{}}
		for i := 0; i < sc.Preload; i++ {
			disk.put(c39File(i), c39Param{ID: i, Check: c39Tag(i)})
			obs.known[i] = true
		}
		obs.nextID = sc.Preload
		if sc.Restarts > 0 {
			// the restart thread is an environment thread: by default it runs when the
			// running generation is quiescent, one deviation lets it strike at any
			// scheduling point (crash: the old generation's threads freeze at their
			// next storage, generator or consumer step)
			vsched.GoLow("restart", func() {
				for g := 1; g <= sc.Restarts; g++ {
					disk.liveGen = g
					obs.restarts++
					vsched.Logf("restart -> g%d disk=%s", g, disk.names())
					c39Start(&sc, obs, g)
					vsched.Yield()
				}
			})
		}
		c39Start(&sc, obs, 0)
	}
}

type c39Replay struct {
	Scenario c39Scenario `json:"scenario"`
	Choices  []int       `json:"choices"`
	Bound    int         `json:"bound"`
}

func c39Scenarios(thorough bool) []c39Scenario {
	var out []c39Scenario
	add := func(sc c39Scenario, bq, bt int) {
		sc.MaxBound = bq
		if thorough {
			sc.MaxBound = bt
		}
		if sc.MaxBound >= 0 {
			out = append(out, sc)
		}
	}
	// generation and retrieval with storage faults
	add(c39Scenario{Size: 1, Horizon: 2, Consumers: []int{2}, Faults: true}, 3, 4)
	add(c39Scenario{Size: 2, Horizon: 3, Consumers: []int{2, 1}, Faults: true}, 2, 3)
	add(c39Scenario{Size: 1, Horizon: 3, Consumers: []int{1, 1}, Faults: true}, 2, 3)
	// restart over the surviving disk, more persisted than the pool holds
	add(c39Scenario{Size: 1, Preload: 2, Horizon: 1, Consumers: []int{2}, Restarts: 1, Faults: true}, 3, 4)
	add(c39Scenario{Size: 2, Preload: 3, Horizon: 1, Consumers: []int{1, 1}, Restarts: 1, Faults: true}, 2, 3)
	add(c39Scenario{Size: 1, Horizon: 2, Consumers: []int{1}, Restarts: 2, Faults: true}, 3, 4)
	add(c39Scenario{Size: 2, Preload: 1, Horizon: 3, Consumers: []int{2}, Restarts: 2, Faults: true}, -1, 2)
	// scheduler stop/resume while generating and consuming
	add(c39Scenario{Size: 1, Horizon: 2, Consumers: []int{2}, Control: true, Faults: true}, 2, 3)
	add(c39Scenario{Size: 2, Preload: 1, Horizon: 2, Consumers: []int{2}, Control: true, Restarts: 1, Faults: true}, 2, 2)
	return out
}

func TestVerifC39(t *testing.T) {
	r := vrep.Start(t, "C39", "pool")
	defer r.Finish()
	var obs c39Obs
	evaluate := func(sc c39Scenario, bound int, s *vsched.Sched) {
		r.Eval(1)
		r.Transition(len(s.Choices()) + 1)
		rp := c39Replay{sc, s.Choices(), bound}
		fail := func(kind, what string) {
			r.ViolationMin(kind, c39Size(s.Choices()), fmt.Sprintf("%s | %s %s", sc.key(), kind, s.DevTrace()), what+" [schedule "+s.Trace()+"]", rp)
		}
		if p, stack := s.Failed(); p != nil {
			fail("panic", fmt.Sprintf("panic: %v\n%s", p, stack))
		}
		if s.StepCapHit {
			r.Cap("step-cap")
			return
		}
		// the constructor must have returned in the generation that is alive at the
		// end; a thread parked on a channel send inside it means the pool tried to
		// take more than it can hold
		if obs.building[obs.disk.liveGen] {
			fail("oversize", fmt.Sprintf("NewParameterPool never returned: it blocks sending a loaded parameter into the full pool (it tries to hold more than the configured size %d; disk: %s)", sc.Size, obs.disk.names()))
		}
		for _, p := range obs.problems {
			kv := strings.SplitN(p, "\x00", 2)
			fail(kv[0], kv[1])
		}
		var ids []int
		for id := range obs.served {
			ids = append(ids, id)
		}
		sort.Ints(ids)
		r.State(fmt.Sprintf("%s served=%v disk=%s empties=%d errs=%d restarts=%d", sc.key(), ids, obs.disk.names(), obs.empties, obs.getErrs, obs.restarts))
		if s.DevTrace() != "" || s.Trace() != "" {
			r.Distinct(sc.key() + fmt.Sprint(s.Choices()))
		}
		if obs.servedN > 0 {
			r.Outcome("get:served")
		}
		if obs.empties > 0 {
			r.Outcome("get:empty")
		}
		if obs.getErrs > 0 {
			r.Outcome("get:delete-error")
		}
		if obs.saveErrs > 0 {
			r.Outcome("save:error")
		}
		if obs.restarts > 0 {
			r.Outcome(fmt.Sprintf("restarts:%d", obs.restarts))
		}
		if obs.maxCount == sc.Size {
			r.Outcome("pool:full-seen")
		}
	}
	if rd := r.ReplayData(); rd != nil {
		var rp c39Replay
		if json.Unmarshal(rd, &rp) == nil && rp.Scenario.Size > 0 {
			s := vsched.Replay(rp.Choices, vsched.Options{Bound: rp.Bound}, c39Body(rp.Scenario, &obs))
			evaluate(rp.Scenario, rp.Bound, s)
			t.Logf("replay log:\n%s", strings.Join(s.Log, "\n"))
		}
		return
	}
	shard, shards := r.Shard()
	scs := c39Scenarios(r.Thorough())
	maxBound := 0
	for i, sc := range scs {
		if shard == 0 {
			a := vsched.Replay(nil, vsched.Options{}, c39Body(sc, &obs))
			sa := fmt.Sprint(obs.served, obs.problems, obs.disk.names())
			b := vsched.Replay(nil, vsched.Options{}, c39Body(sc, &obs))
			if !vsched.SameRun(a, b) || sa != fmt.Sprint(obs.served, obs.problems, obs.disk.names()) {
				t.Fatalf("NONDETERMINISM: two runs of the empty script differ (%s)", sc.key())
			}
			r.ReplayedTwice(1)
			if i == 0 || i == 2 {
				r.Sample(map[string]any{"scenario": sc, "script": a.Choices(), "log": a.Log})
			}
		}
		if sc.MaxBound > maxBound {
			maxBound = sc.MaxBound
		}
		for bound := 0; bound <= sc.MaxBound; bound++ {
			if bound < sc.MaxBound && shard != 0 {
				continue
			}
			st := vsched.Explore(vsched.Options{Bound: bound, Shard: shard, Shards: shards, Stop: r.Expired},
				c39Body(sc, &obs), func(s *vsched.Sched) { evaluate(sc, bound, s) })
			if bound < sc.MaxBound {
				r.Set(fmt.Sprintf("s%d.bound%d_execs", i, bound), st.Execs)
			} else {
				r.Add(fmt.Sprintf("s%d.bound%d_execs", i, bound), st.Execs)
			}
			t.Logf("scenario %d %s bound %d: %d execs", i, sc.key(), bound, st.Execs)
			if st.Stopped {
				r.Cap(fmt.Sprintf("scenario %d bound %d not completed", i, bound))
			}
			if r.Violations() > 0 && bound < sc.MaxBound {
				break
			}
		}
	}
	if shard == 0 {
		r.Set("max_bound", fmt.Sprint(maxBound))
		r.Set("scenarios", fmt.Sprint(len(scs)))
	}
}

// c39Size orders counterexamples: fewest non-default choices (deviations, preemptions)
// first, then the shortest script.
func c39Size(choices []int) int {
	n := 0
	for _, c := range choices {
		if c != 0 {
			n++
		}
	}
	return n*1000 + len(choices)
}
