//go:build verif

package generator

import (
	"context"
	"fmt"
	"runtime"
	"sync"
	"sync/atomic"
	"testing"

	"github.com/keep-network/keep-core/internal/testutils"
	"github.com/keep-network/keep-core/pkg/verifshim/vrep"
)

type c39RacePers struct {
	mu    sync.Mutex
	files map[string]c39RaceParam
}

type c39RaceParam struct{ ID int64 }

func (p *c39RacePers) Save(v *c39RaceParam) (*Persisted[c39RaceParam], error) {
	p.mu.Lock()
	defer p.mu.Unlock()
	id := fmt.Sprint(v.ID)
	p.files[id] = *v
	return &Persisted[c39RaceParam]{Data: *v, ID: id}, nil
}

func (p *c39RacePers) Delete(e *Persisted[c39RaceParam]) error {
	p.mu.Lock()
	defer p.mu.Unlock()
	delete(p.files, e.ID)
	return nil
}

func (p *c39RacePers) ReadAll() ([]*Persisted[c39RaceParam], error) {
	p.mu.Lock()
	defer p.mu.Unlock()
	var all []*Persisted[c39RaceParam]
	for id, v := range p.files {
		all = append(all, &Persisted[c39RaceParam]{Data: v, ID: id})
	}
	return all, nil
}

// Free-running pass under the race detector: generation, two consumers and a
// stop/resume of the scheduler with real goroutines and an always-succeeding store
// (side condition of the schedule exploration, not the deciding enumeration).
func TestVerifC39Race(t *testing.T) {
	r := vrep.Start(t, "C39", "race")
	defer r.Finish()
	if r.ReplayData() != nil {
		return
	}
	rounds := 50
	if r.Thorough() {
		rounds = 2000
	}
	for i := 0; i < rounds; i++ {
		pers := &c39RacePers{files: map[string]c39RaceParam{"-1": {ID: -1}}}
		s := &Scheduler{}
		var next int64
		pool := NewParameterPool[c39RaceParam](&testutils.MockLogger{}, s, pers, 2, func(ctx context.Context) *c39RaceParam {
			id := atomic.AddInt64(&next, 1)
			if id > 8 {
				<-ctx.Done()
				return nil
			}
			return &c39RaceParam{ID: id}
		}, 0)
		var mu sync.Mutex
		served := map[int64]int{}
		var wg sync.WaitGroup
		wg.Add(3)
		for c := 0; c < 2; c++ {
			go func() {
				defer wg.Done()
				for k := 0; k < 30; k++ {
					p, err := pool.GetNow()
					if err == nil && p != nil {
						mu.Lock()
						served[p.ID]++
						mu.Unlock()
					}
					runtime.Gosched()
				}
			}()
		}
		go func() {
			defer wg.Done()
			s.stop()
			runtime.Gosched()
			s.resume()
		}()
		wg.Wait()
		s.stop()
		for id, n := range served {
			if n > 1 {
				r.Violation("race-run served-twice", fmt.Sprintf("parameter %d handed out %d times in the free-running pass", id, n), nil)
			}
		}
		r.Eval(1)
		// fixed keys: the counts of a free-running pass must not depend on timing
		r.Distinct("consumers-vs-worker")
		r.Distinct("stop-resume")
	}
	r.Outcome("completed")
	r.Sample("pool size 2, 1 preloaded + 8 generated parameters, 2 consumers x 30 GetNow, stop/resume, real goroutines under -race")
}
