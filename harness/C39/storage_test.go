//go:build verif

package dkg

import (
	"bytes"
	"context"
	"encoding/json"
	"errors"
	"fmt"
	"sort"
	"strings"
	"sync"
	"sync/atomic"
	"testing"
	"time"

	"github.com/keep-network/keep-common/pkg/persistence"
	"github.com/keep-network/keep-core/internal/testutils"
	"github.com/keep-network/keep-core/pkg/generator"
	"github.com/keep-network/keep-core/pkg/internal/tecdsatest"
	"github.com/keep-network/keep-core/pkg/verifshim/venum"
	"github.com/keep-network/keep-core/pkg/verifshim/vrep"
)

// The storage unit of C39: the real preParamsStorage and the real ParameterPool[PreParams]
// over an in-memory persistence.BasicHandle. The generator never yields here (it computes
// until cancelled), so everything the pool serves comes from the storage and the run is
// sequential and deterministic. The pool unit covers generation and interleavings with
// tagged values.

type c39sFile struct {
	dir, name  string
	content    []byte
	unreadable bool
}

// c39sHandle is the in-memory persistence.BasicHandle (what survives a restart).
type c39sHandle struct {
	mu    sync.Mutex
	files []*c39sFile
	// fault answers, asked on the calling goroutine
	fault func(label string) bool
}

var errC39sFault = errors.New("injected storage fault")

func (h *c39sHandle) find(dir, name string) int {
	for i, f := range h.files {
		if f.dir == dir && f.name == name {
			return i
		}
	}
	return -1
}

func (h *c39sHandle) Save(data []byte, dir, name string) error {
	h.mu.Lock()
	defer h.mu.Unlock()
	if h.fault("save.err") {
		return errC39sFault
	}
	if i := h.find(dir, name); i >= 0 {
		h.files[i].content = append([]byte{}, data...)
		return nil
	}
	h.files = append(h.files, &c39sFile{dir: dir, name: name, content: append([]byte{}, data...)})
	return nil
}

func (h *c39sHandle) Delete(dir, name string) error {
	h.mu.Lock()
	defer h.mu.Unlock()
	if h.fault("delete.err") {
		return errC39sFault
	}
	i := h.find(dir, name)
	if i < 0 {
		return fmt.Errorf("remove %s/%s: no such file", dir, name)
	}
	h.files = append(h.files[:i], h.files[i+1:]...)
	return nil
}

type c39sDescriptor struct{ f c39sFile }

func (d *c39sDescriptor) Name() string      { return d.f.name }
func (d *c39sDescriptor) Directory() string { return d.f.dir }
func (d *c39sDescriptor) Content() ([]byte, error) {
	if d.f.unreadable {
		return nil, errors.New("read error")
	}
	return d.f.content, nil
}

func (h *c39sHandle) ReadAll() (<-chan persistence.DataDescriptor, <-chan error) {
	h.mu.Lock()
	snapshot := make([]c39sFile, len(h.files))
	for i, f := range h.files {
		snapshot[i] = *f
	}
	withErr := h.fault("readall.err")
	h.mu.Unlock()
	data := make(chan persistence.DataDescriptor)
	errs := make(chan error)
	go func() {
		defer close(data)
		defer close(errs)
		if withErr {
			errs <- errors.New("could not read a directory")
		}
		for i := range snapshot {
			data <- &c39sDescriptor{snapshot[i]}
		}
	}()
	return data, errs
}

func (h *c39sHandle) has(dir, name string) bool {
	h.mu.Lock()
	defer h.mu.Unlock()
	return h.find(dir, name) >= 0
}

func (h *c39sHandle) listing() string {
	h.mu.Lock()
	defer h.mu.Unlock()
	var s []string
	for _, f := range h.files {
		s = append(s, f.dir+"/"+f.name)
	}
	sort.Strings(s)
	return strings.Join(s, ",")
}

// the kinds of files that may be on the disk at the first start
const (
	c39sValidA     = iota // complete pre-parameters
	c39sValidB            // complete pre-parameters, created later
	c39sEmpty             // file created, nothing written (crash inside the non-atomic Save)
	c39sTorn              // prefix cut in the middle of the message
	c39sNoStamp           // complete key material, timestamp field cut off
	c39sGarbage           // not a protobuf message
	c39sForeignDir        // complete pre-parameters in another directory of the same handle
	c39sUnreadable        // complete pre-parameters whose content cannot be read
	c39sKinds
)

var c39sKindName = []string{"validA", "validB", "empty", "torn", "nostamp", "garbage", "foreign-dir", "unreadable"}

type c39sFixtures struct {
	pp       [5]*PreParams // A, B, C (nostamp), D (foreign), E (saved during the run)
	material [5]string     // canonical key material
	encoded  [5][]byte
	// stampLess is the encoding of C cut right after the key material (field 1), i.e.
	// without the timestamp field
	stampLess []byte
}

const c39sWatchdog = 120 * time.Second

// c39sHung is set once a constructor hung: the rest of the enumeration is abandoned
// (every further case with enough files would wait for the watchdog again).
var c39sHung atomic.Bool

var c39sEpoch = time.Date(2024, 1, 1, 0, 0, 0, 0, time.UTC)

// c39sMaterial renders the key material of pre-parameters (everything but the timestamp).
func c39sMaterial(pp *PreParams) (s string, ok bool) {
	p, _ := vrep.Guard(func() {
		b, err := (&PreParams{data: pp.data, creationTimestamp: c39sEpoch}).Marshal()
		if err == nil {
			s, ok = string(b), true
		}
	})
	if p != nil {
		return "", false
	}
	return s, ok
}

func c39sLoad(t *testing.T) *c39sFixtures {
	shares, err := tecdsatest.LoadPrivateKeyShareTestFixtures(5)
	if err != nil {
		t.Fatalf("fixtures: %v", err)
	}
	fx := &c39sFixtures{}
	for i := range fx.pp {
		lp := shares[i].LocalPreParams
		if !lp.ValidateWithProof() {
			t.Fatalf("fixture %d does not validate", i)
		}
		fx.pp[i] = &PreParams{data: &lp, creationTimestamp: c39sEpoch.Add(time.Duration(i+1) * time.Minute)}
		b, err := fx.pp[i].Marshal()
		if err != nil {
			t.Fatalf("fixture %d: %v", i, err)
		}
		fx.encoded[i] = b
		m, ok := c39sMaterial(fx.pp[i])
		if !ok {
			t.Fatalf("fixture %d: no material", i)
		}
		fx.material[i] = m
	}
	enc := fx.encoded[2]
	for cut := len(enc) - 1; cut > 0 && fx.stampLess == nil; cut-- {
		probe := &PreParams{}
		if p, _ := vrep.Guard(func() { _ = probe.Unmarshal(enc[:cut]) }); p == nil && probe.data != nil {
			if m, ok := c39sMaterial(probe); ok && m == fx.material[2] && probe.creationTimestamp.Unix() == 0 {
				fx.stampLess = enc[:cut]
			}
		}
	}
	if fx.stampLess == nil {
		t.Fatalf("no timestamp-less prefix found")
	}
	return fx
}

type c39sCase struct {
	Mask   uint  `json:"mask"` // kinds of files on the disk at the first start
	Size   int   `json:"size"` // pool size
	Script []int `json:"script"`
	Bound  int   `json:"bound"`
}

func (c c39sCase) files() string {
	var s []string
	for k := 0; k < c39sKinds; k++ {
		if c.Mask>>uint(k)&1 == 1 {
			s = append(s, c39sKindName[k])
		}
	}
	return strings.Join(s, "+")
}

func c39sDisk(fx *c39sFixtures, mask uint) []*c39sFile {
	var out []*c39sFile
	add := func(kind int, dir string, content []byte, unreadable bool) {
		if mask>>uint(kind)&1 == 1 {
			out = append(out, &c39sFile{dir: dir, name: fmt.Sprintf("pp_%d_%s", 1700000000000+kind, c39sKindName[kind]), content: content, unreadable: unreadable})
		}
	}
	add(c39sValidA, dirName, fx.encoded[0], false)
	add(c39sValidB, dirName, fx.encoded[1], false)
	add(c39sEmpty, dirName, []byte{}, false)
	add(c39sTorn, dirName, fx.encoded[2][:len(fx.encoded[2])/2], false)
	add(c39sNoStamp, dirName, fx.stampLess, false)
	add(c39sGarbage, dirName, bytes.Repeat([]byte{0xff, 0x00, 0x13}, 40), false)
	add(c39sForeignDir, "other", fx.encoded[3], false)
	add(c39sUnreadable, dirName, fx.encoded[3], true)
	return out
}

// c39sRun executes one case: up to three process generations over the same disk.
func c39sRun(r *vrep.R, fx *c39sFixtures, cs c39sCase, c *venum.C) {
	handle := &c39sHandle{files: c39sDisk(fx, cs.Mask)}
	handle.fault = func(label string) bool { return c.Deviate(2, label) == 1 }
	// key material that complete files hold: these may be served, nothing else
	acceptable := map[string]string{}
	if cs.Mask>>c39sValidA&1 == 1 {
		acceptable[fx.material[0]] = "A"
	}
	if cs.Mask>>c39sValidB&1 == 1 {
		acceptable[fx.material[1]] = "B"
	}
	if cs.Mask>>c39sNoStamp&1 == 1 {
		acceptable[fx.material[2]] = "C"
	}
	served := map[string]int{}
	fp := fmt.Sprintf("storage files=%s size=%d", cs.files(), cs.Size)
	report := func(kind, what string) {
		rp := cs
		rp.Script = c.Script()
		r.ViolationMin("storage:"+kind, len(rp.Script)*1000+int(cs.Mask), fp+" | "+kind+" "+c.Trace(), what+" [disk: "+handle.listing()+"]", rp)
	}
	idle := func(ctx context.Context) *PreParams {
		<-ctx.Done() // computes until cancelled, finds nothing
		return nil
	}
	for gen := 0; gen < 3; gen++ {
		storage := newPreParamsStorage(handle, &testutils.MockLogger{})
		if gen == 1 {
			// a parameter generated and saved by the running process (the pool's
			// worker does exactly this call); it is served after the next restart
			var persisted *PersistedPreParams
			var err error
			before := handle.listing()
			p, stack := vrep.Guard(func() { persisted, err = storage.Save(fx.pp[4]) })
			if p != nil {
				report("panic", fmt.Sprintf("Save panicked: %v\n%s", p, stack))
				return
			}
			if err != nil {
				r.Outcome("save:error")
				if persisted != nil {
					report("save-contract", "Save returned an error and a non-nil element")
				}
				if handle.listing() != before {
					r.Outcome("save:error-but-written")
				}
			} else {
				r.Outcome("save:ok")
				if persisted == nil || !handle.has(dirName, persisted.ID) {
					report("save-contract", "Save returned no error but the element is not in storage under the returned ID")
				} else {
					acceptable[fx.material[4]] = "E"
				}
			}
		}
		var pool *generator.ParameterPool[PreParams]
		var p any
		var stack string
		built := make(chan struct{})
		go func() {
			defer close(built)
			p, stack = vrep.Guard(func() {
				pool = generator.NewParameterPool[PreParams](&testutils.MockLogger{}, &generator.Scheduler{}, &storage, cs.Size, idle, 0)
			})
		}()
		// Watchdog only: the constructor does a handful of in-memory steps. If it is
		// still not back after c39sWatchdog it is parked forever on a channel send
		// into the full pool (the scheduled pool unit shows the same deterministically).
		select {
		case <-built:
		case <-time.After(c39sWatchdog):
			c39sHung.Store(true)
			report("oversize", fmt.Sprintf("generation %d: NewParameterPool did not return (watchdog %s): it blocks loading more parameters than the configured size %d", gen, c39sWatchdog, cs.Size))
			return
		}
		if p != nil {
			report("panic", fmt.Sprintf("generation %d: NewParameterPool panicked: %v\n%s", gen, p, stack))
			return
		}
		if n := pool.ParametersCount(); n > cs.Size {
			report("oversize", fmt.Sprintf("generation %d: the pool holds %d parameters, configured size %d", gen, n, cs.Size))
		}
		for k := 0; k <= cs.Size; k++ {
			var got *PreParams
			var err error
			p, stack := vrep.Guard(func() { got, err = pool.GetNow() })
			if p != nil {
				report("panic", fmt.Sprintf("generation %d: GetNow panicked: %v\n%s", gen, p, stack))
				return
			}
			if err == generator.ErrEmptyPool {
				r.Outcome("get:empty")
				break
			}
			if err != nil {
				r.Outcome("get:delete-error")
				continue
			}
			if got == nil || got.data == nil {
				report("missing-parameter", fmt.Sprintf("generation %d: GetNow returned no error and a nil parameter", gen))
				continue
			}
			m, ok := c39sMaterial(got)
			name, known := acceptable[m]
			if !ok || !known {
				zero := got.data.PaillierSK != nil && got.data.PaillierSK.N != nil && got.data.PaillierSK.N.Sign() == 0
				report("invalid-parameter", fmt.Sprintf("generation %d: GetNow handed out pre-parameters that are not the content of any completely written file (Paillier modulus is zero: %v)", gen, zero))
				r.Outcome("get:INVALID")
				continue
			}
			r.Outcome("get:served-" + name)
			served[name]++
			if served[name] > 1 {
				report("served-twice", fmt.Sprintf("generation %d: pre-parameters %s handed out %d times", gen, name, served[name]))
			}
			// removed from storage before use: no file holding this material is left
			handle.mu.Lock()
			for _, f := range handle.files {
				probe := &PreParams{}
				if f.dir == dirName && !f.unreadable && probe.Unmarshal(f.content) == nil {
					if fm, ok := c39sMaterial(probe); ok && fm == m {
						handle.mu.Unlock()
						report("not-removed", fmt.Sprintf("generation %d: pre-parameters %s handed out while file %s still holds them", gen, name, f.name))
						handle.mu.Lock()
					}
				}
			}
			handle.mu.Unlock()
		}
	}
}

func TestVerifC39Storage(t *testing.T) {
	r := vrep.Start(t, "C39", "storage")
	defer r.Finish()
	fx := c39sLoad(t)
	if rd := r.ReplayData(); rd != nil {
		var cs c39sCase
		if json.Unmarshal(rd, &cs) == nil && cs.Size > 0 {
			venum.Replay(cs.Script, cs.Bound, func(c *venum.C) { c39sRun(r, fx, cs, c) })
			r.Eval(1)
		}
		return
	}
	bound := 1
	sizes := []int{1, 2}
	if r.Thorough() {
		bound = 2
		sizes = []int{1, 2, 3, 4}
	}
	type job struct {
		mask uint
		size int
	}
	var jobs []job
	for mask := uint(0); mask < 1<<c39sKinds; mask++ {
		for _, s := range sizes {
			jobs = append(jobs, job{mask, s})
		}
	}
	r.Set("fault_bound", fmt.Sprint(bound))
	r.Sample(map[string]any{"files": c39sKindName, "sizes": sizes, "fault_bound": bound, "generations": 3})
	vrep.Parallel(vrep.Workers(), len(jobs), func(i int) {
		if r.Expired() {
			return
		}
		if c39sHung.Load() {
			r.Cap("a constructor hung: enumeration abandoned after the report")
			return
		}
		j := jobs[i]
		cs := c39sCase{Mask: j.mask, Size: j.size, Bound: bound}
		st := venum.Explore(venum.Options{Bound: bound, Workers: 1, Stop: func() bool { return c39sHung.Load() || r.Expired() }}, func(c *venum.C) {
			c39sRun(r, fx, cs, c)
			// non-trivial: the storage had to tell complete files from others
			valid := j.mask & (1<<c39sValidA | 1<<c39sValidB | 1<<c39sNoStamp)
			if valid != 0 && j.mask&^valid != 0 || c.Used() > 0 {
				r.Distinct(fmt.Sprintf("%d|%d|%v", j.mask, j.size, c.Script()))
			}
		})
		r.Eval(int(st.Runs))
		if st.Stopped {
			r.Cap("storage enumeration not completed")
		}
	})
}
