//go:build verif

package bitcoin

// C29: exhaustive enumeration of structured transactions (input/output counts across the
// compact-size boundary, script and witness item lengths across the boundaries, witness
// placement patterns, numeric extremes), hashes, compact sizes, length-prefixed scripts and
// block headers; each clause of the statement is checked against a serializer written out
// in the harness (plain byte appends) and by round trip.

import (
	"bytes"
	"crypto/sha256"
	"encoding/binary"
	"encoding/hex"
	"encoding/json"
	"fmt"
	"testing"

	"github.com/keep-network/keep-core/pkg/verifshim/vrep"
)

// ---- reference encoder ------------------------------------------------------------

func c29CompactSize(n uint64) []byte {
	switch {
	case n < 0xfd:
		return []byte{byte(n)}
	case n <= 0xffff:
		return []byte{0xfd, byte(n), byte(n >> 8)}
	case n <= 0xffffffff:
		return []byte{0xfe, byte(n), byte(n >> 8), byte(n >> 16), byte(n >> 24)}
	default:
		b := make([]byte, 9)
		b[0] = 0xff
		binary.LittleEndian.PutUint64(b[1:], n)
		return b
	}
}

func c29U32(v uint32) []byte {
	return []byte{byte(v), byte(v >> 8), byte(v >> 16), byte(v >> 24)}
}

func c29HasWitness(tx *Transaction) bool {
	for _, in := range tx.Inputs {
		if len(in.Witness) > 0 {
			return true
		}
	}
	return false
}

func c29Inputs(tx *Transaction) []byte {
	b := c29CompactSize(uint64(len(tx.Inputs)))
	for _, in := range tx.Inputs {
		b = append(b, in.Outpoint.TransactionHash[:]...)
		b = append(b, c29U32(in.Outpoint.OutputIndex)...)
		b = append(b, c29CompactSize(uint64(len(in.SignatureScript)))...)
		b = append(b, in.SignatureScript...)
		b = append(b, c29U32(in.Sequence)...)
	}
	return b
}

func c29Outputs(tx *Transaction) []byte {
	b := c29CompactSize(uint64(len(tx.Outputs)))
	for _, o := range tx.Outputs {
		v := make([]byte, 8)
		binary.LittleEndian.PutUint64(v, uint64(o.Value))
		b = append(b, v...)
		b = append(b, c29CompactSize(uint64(len(o.PublicKeyScript)))...)
		b = append(b, o.PublicKeyScript...)
	}
	return b
}

func c29Encode(tx *Transaction, witness bool) []byte {
	b := c29U32(uint32(tx.Version))
	witness = witness && c29HasWitness(tx)
	if witness {
		b = append(b, 0x00, 0x01)
	}
	b = append(b, c29Inputs(tx)...)
	b = append(b, c29Outputs(tx)...)
	if witness {
		for _, in := range tx.Inputs {
			b = append(b, c29CompactSize(uint64(len(in.Witness)))...)
			for _, item := range in.Witness {
				b = append(b, c29CompactSize(uint64(len(item)))...)
				b = append(b, item...)
			}
		}
	}
	return append(b, c29U32(tx.Locktime)...)
}

func c29DoubleSHA(b []byte) Hash {
	a := sha256.Sum256(b)
	return sha256.Sum256(a[:])
}

// c29Same: same transaction (nil and empty byte strings / stacks are the same thing).
func c29Same(a, b *Transaction, ignoreWitness bool) string {
	if a.Version != b.Version {
		return fmt.Sprintf("version %d vs %d", a.Version, b.Version)
	}
	if a.Locktime != b.Locktime {
		return fmt.Sprintf("locktime %d vs %d", a.Locktime, b.Locktime)
	}
	if len(a.Inputs) != len(b.Inputs) || len(a.Outputs) != len(b.Outputs) {
		return fmt.Sprintf("%d inputs %d outputs vs %d inputs %d outputs", len(a.Inputs), len(a.Outputs), len(b.Inputs), len(b.Outputs))
	}
	for i := range a.Inputs {
		x, y := a.Inputs[i], b.Inputs[i]
		if x.Outpoint == nil || y.Outpoint == nil {
			return fmt.Sprintf("input %d: nil outpoint", i)
		}
		if *x.Outpoint != *y.Outpoint {
			return fmt.Sprintf("input %d: outpoint differs", i)
		}
		if !bytes.Equal(x.SignatureScript, y.SignatureScript) {
			return fmt.Sprintf("input %d: signature script differs (%d vs %d bytes)", i, len(x.SignatureScript), len(y.SignatureScript))
		}
		if x.Sequence != y.Sequence {
			return fmt.Sprintf("input %d: sequence %#x vs %#x", i, x.Sequence, y.Sequence)
		}
		if ignoreWitness {
			continue
		}
		if len(x.Witness) != len(y.Witness) {
			return fmt.Sprintf("input %d: witness stack of %d vs %d items", i, len(x.Witness), len(y.Witness))
		}
		for j := range x.Witness {
			if !bytes.Equal(x.Witness[j], y.Witness[j]) {
				return fmt.Sprintf("input %d: witness item %d differs", i, j)
			}
		}
	}
	for i := range a.Outputs {
		if a.Outputs[i].Value != b.Outputs[i].Value {
			return fmt.Sprintf("output %d: value %d vs %d", i, a.Outputs[i].Value, b.Outputs[i].Value)
		}
		if !bytes.Equal(a.Outputs[i].PublicKeyScript, b.Outputs[i].PublicKeyScript) {
			return fmt.Sprintf("output %d: script differs", i)
		}
	}
	return ""
}

// ---- transaction alphabet ---------------------------------------------------------

type c29Tx struct {
	NIn     int  `json:"n_in"`
	NOut    int  `json:"n_out"`
	WitPat  int  `json:"witness_pattern"` // 0 none, 1 first, 2 last, 3 all, 4 all but first
	Stack   int  `json:"stack"`           // index into c29Stacks
	SigLen  int  `json:"sig_script_len"`  // length of the signature script of input SigAt
	SigAt   int  `json:"sig_at"`          // 0 first input, 1 last input, 2 every input (small lengths only)
	PkLen   int  `json:"pk_script_len"`   // length of the script of the first output
	Numeric int  `json:"numeric"`         // index into numeric extremes
	Nested  bool `json:"nested"`          // inputs with a witness also carry a signature script
}

var c29Stacks = [][]int{{0}, {1}, {72, 33}, {252, 253, 1}, {65536}, {0, 0, 0}, {65535, 2}}

type c29Num struct {
	version  int32
	locktime uint32
	sequence uint32
	index    uint32
	value    int64
}

var c29Nums = []c29Num{
	{1, 0, 0xffffffff, 0, 0},
	{2, 1, 0xfffffffe, 1, 1},
	{-1, 0xffffffff, 0, 0xffffffff, 2100000000000000},
	{-2147483648, 500000000, 0x80000000, 0x01020304, 9223372036854775807},
	{2147483647, 0x01020304, 1, 252, -1},
}

func c29Pattern(n int, salt byte) []byte {
	b := make([]byte, n)
	for i := range b {
		b[i] = byte(i*7) + salt
	}
	return b
}

func (c c29Tx) build() *Transaction {
	num := c29Nums[c.Numeric]
	tx := &Transaction{Version: num.version, Locktime: num.locktime}
	for i := 0; i < c.NIn; i++ {
		in := &TransactionInput{
			Outpoint: &TransactionOutpoint{OutputIndex: num.index + uint32(i)},
			Sequence: num.sequence - uint32(i%2),
		}
		copy(in.Outpoint.TransactionHash[:], c29Pattern(32, byte(i)))
		hasWit := false
		switch c.WitPat {
		case 1:
			hasWit = i == 0
		case 2:
			hasWit = i == c.NIn-1
		case 3:
			hasWit = true
		case 4:
			hasWit = i != 0
		}
		if hasWit {
			for j, l := range c29Stacks[c.Stack] {
				in.Witness = append(in.Witness, c29Pattern(l, byte(i+j)))
			}
		}
		sigHere := (c.SigAt == 0 && i == 0) || (c.SigAt == 1 && i == c.NIn-1) || c.SigAt == 2
		if sigHere && (!hasWit || c.Nested) {
			in.SignatureScript = c29Pattern(c.SigLen, byte(i))
		} else if !hasWit {
			in.SignatureScript = c29Pattern(3+i%2, byte(i))
		}
		tx.Inputs = append(tx.Inputs, in)
	}
	for i := 0; i < c.NOut; i++ {
		o := &TransactionOutput{Value: num.value - int64(i%3), PublicKeyScript: c29Pattern(22+i%13, byte(i))}
		if i == 0 {
			o.PublicKeyScript = c29Pattern(c.PkLen, 0x11)
		}
		tx.Outputs = append(tx.Outputs, o)
	}
	return tx
}

func (c c29Tx) String() string {
	b, _ := json.Marshal(c)
	return string(b)
}

func c29CheckTx(r *vrep.R, c c29Tx) {
	tx := c.build()
	fp := "tx " + c.String()
	size := c.NIn + c.NOut + c.SigLen/100 + c.PkLen/100 + c.WitPat
	report := func(kind, what string) { r.ViolationMin("tx:"+kind, size, fp, what, map[string]any{"tx": c}) }
	hasWit := c29HasWitness(tx)

	var std, wit, def []byte
	if p, stack := vrep.Guard(func() {
		std = tx.Serialize(Standard)
		wit = tx.Serialize(Witness)
		def = tx.Serialize()
	}); p != nil {
		report("panic", fmt.Sprintf("Serialize panicked: %v\n%s", p, stack))
		return
	}
	if !bytes.Equal(def, wit) {
		report("default-format", "Serialize() without argument differs from Serialize(Witness)")
	}
	refStd, refWit := c29Encode(tx, false), c29Encode(tx, true)
	if !bytes.Equal(std, refStd) {
		report("standard-bytes", fmt.Sprintf("standard serialization (%d bytes) differs from the reference encoding (%d bytes)", len(std), len(refStd)))
	}
	if !bytes.Equal(wit, refWit) {
		report("witness-bytes", fmt.Sprintf("witness serialization (%d bytes) differs from the reference encoding (%d bytes)", len(wit), len(refWit)))
	}

	// round trips
	for _, f := range []struct {
		name   string
		data   []byte
		noWit  bool
		format TransactionSerializationFormat
	}{{"standard", std, true, Standard}, {"witness", wit, false, Witness}} {
		back := &Transaction{}
		var err error
		if p, stack := vrep.Guard(func() { err = back.Deserialize(f.data) }); p != nil {
			report("deserialize-panic:"+f.name, fmt.Sprintf("Deserialize panicked: %v\n%s", p, stack))
			continue
		}
		if err != nil {
			report("deserialize-error:"+f.name, fmt.Sprintf("Deserialize of the %s serialization failed: %v", f.name, err))
			continue
		}
		if d := c29Same(tx, back, f.noWit); d != "" {
			report("roundtrip:"+f.name, fmt.Sprintf("deserializing the %s serialization gives another transaction: %s", f.name, d))
		}
		if f.noWit && c29HasWitness(back) {
			report("roundtrip:standard-has-witness", "the standard serialization carried witness data")
		}
		if again := back.Serialize(f.format); !bytes.Equal(again, f.data) {
			report("reserialize:"+f.name, "serialize(deserialize(bytes)) != bytes")
		}
	}

	// hash ignores witness data
	stripped := c.build()
	for _, in := range stripped.Inputs {
		in.Witness = nil
	}
	if tx.Hash() != stripped.Hash() {
		report("hash-witness", "Hash() changes when the witness data is removed")
	}
	if tx.Hash() != c29DoubleSHA(refStd) {
		report("hash", "Hash() is not the double SHA-256 of the standard serialization")
	}
	if tx.WitnessHash() != c29DoubleSHA(refWit) {
		report("witness-hash", "WitnessHash() is not the double SHA-256 of the witness serialization")
	}
	if hasWit && tx.WitnessHash() == tx.Hash() {
		report("witness-hash", "WitnessHash() equals Hash() although the transaction has witness data")
	}

	// parts
	var ver, lock [4]byte
	var ins, outs []byte
	if p, stack := vrep.Guard(func() {
		ver, lock = tx.SerializeVersion(), tx.SerializeLocktime()
		ins, outs = tx.SerializeInputs(), tx.SerializeOutputs()
	}); p != nil {
		report("parts-panic", fmt.Sprintf("part serialization panicked: %v\n%s", p, stack))
		return
	}
	concat := append(append(append(append([]byte{}, ver[:]...), ins...), outs...), lock[:]...)
	if !bytes.Equal(concat, std) {
		report("parts-concat", fmt.Sprintf("version|inputs|outputs|locktime (%d+%d+%d+%d bytes) is not the standard serialization (%d bytes)", 4, len(ins), len(outs), 4, len(std)))
	}
	if !bytes.Equal(ins, c29Inputs(tx)) {
		report("parts-inputs", fmt.Sprintf("SerializeInputs (%d bytes) is not the input vector of the serialization (%d bytes)", len(ins), len(c29Inputs(tx))))
	}
	if !bytes.Equal(outs, c29Outputs(tx)) {
		report("parts-outputs", fmt.Sprintf("SerializeOutputs (%d bytes) is not the output vector of the serialization (%d bytes)", len(outs), len(c29Outputs(tx))))
	}
	if hasWit {
		// in the witness format the parts sit after the marker and flag
		off := 6
		if len(wit) < off+len(ins)+len(outs)+4 || !bytes.Equal(wit[:4], ver[:]) || !bytes.Equal(wit[off:off+len(ins)], ins) ||
			!bytes.Equal(wit[off+len(ins):off+len(ins)+len(outs)], outs) || !bytes.Equal(wit[len(wit)-4:], lock[:]) {
			report("parts-witness", "the parts are not at their places in the witness serialization")
		}
		r.Outcome("tx:witness-format")
	} else {
		if !bytes.Equal(wit, std) {
			report("no-witness-formats", "transaction without witness data: witness serialization differs from the standard one")
		}
		r.Outcome("tx:standard-only")
	}
}

// ---- hashes, compact sizes, scripts, headers ----------------------------------------

type c29Bytes struct {
	Kind string `json:"kind"` // hash | compact | script | header
	Hex  string `json:"hex,omitempty"`
	N    uint64 `json:"n,omitempty"`
}

func c29Reverse(b []byte) []byte {
	out := make([]byte, len(b))
	for i := range b {
		out[len(b)-1-i] = b[i]
	}
	return out
}

func c29CheckHash(r *vrep.R, raw []byte) {
	c := c29Bytes{Kind: "hash", Hex: hex.EncodeToString(raw)}
	fp := "hash " + c.Hex
	report := func(kind, what string) { r.ViolationMin("hash:"+kind, len(raw), fp, what, map[string]any{"bytes": c}) }
	for _, order := range []ByteOrder{InternalByteOrder, ReversedByteOrder} {
		h, err := NewHash(raw, order)
		if len(raw) != HashByteLength {
			if err == nil {
				report("length", fmt.Sprintf("NewHash accepted %d bytes", len(raw)))
			}
			r.Outcome("hash:wrong-length-refused")
			continue
		}
		if err != nil {
			report("refused", "NewHash refused 32 bytes: "+err.Error())
			continue
		}
		internal := raw
		if order == ReversedByteOrder {
			internal = c29Reverse(raw)
		}
		if !bytes.Equal(h[:], internal) {
			report("order", fmt.Sprintf("NewHash(order %d) stored %x", order, h[:]))
		}
		// Hex in the same order gives the input back, in the other order its reverse
		if h.Hex(order) != hex.EncodeToString(raw) {
			report("hex", fmt.Sprintf("Hex(order %d) = %s", order, h.Hex(order)))
		}
		other := ReversedByteOrder - order
		if h.Hex(other) != hex.EncodeToString(c29Reverse(raw)) {
			report("hex-other", fmt.Sprintf("Hex(order %d) = %s", other, h.Hex(other)))
		}
		if h.String() != hex.EncodeToString(internal) {
			report("string", "String() is not the internal byte order hex")
		}
		for _, o2 := range []ByteOrder{InternalByteOrder, ReversedByteOrder} {
			back, err := NewHashFromString(h.Hex(o2), o2)
			if err != nil || back != h {
				report("string-roundtrip", fmt.Sprintf("NewHashFromString(Hex(order %d)) = %x, %v", o2, back[:], err))
			}
		}
		r.Outcome("hash:roundtrip")
	}
}

func c29CheckCompact(r *vrep.R, n uint64) {
	c := c29Bytes{Kind: "compact", N: n}
	fp := fmt.Sprintf("compact %d", n)
	report := func(kind, what string) { r.ViolationMin("compact:"+kind, 0, fp, what, map[string]any{"bytes": c}) }
	enc, err := writeCompactSizeUint(CompactSizeUint(n))
	if err != nil {
		report("write", err.Error())
		return
	}
	if !bytes.Equal(enc, c29CompactSize(n)) {
		report("encoding", fmt.Sprintf("encoded as %x, reference %x", enc, c29CompactSize(n)))
	}
	for _, tail := range [][]byte{nil, {0xfd}, {0xff, 0xff, 0xff}} {
		v, l, err := readCompactSizeUint(append(append([]byte{}, enc...), tail...))
		if err != nil || uint64(v) != n || l != len(enc) {
			report("read", fmt.Sprintf("read back (%d, %d, %v) from %x + %x", v, l, err, enc, tail))
		}
	}
	r.Outcome(fmt.Sprintf("compact:%d-bytes", len(enc)))
}

func c29CheckScript(r *vrep.R, n int) {
	c := c29Bytes{Kind: "script", N: uint64(n)}
	fp := fmt.Sprintf("script len %d", n)
	report := func(kind, what string) { r.ViolationMin("script:"+kind, n, fp, what, map[string]any{"bytes": c}) }
	script := Script(c29Pattern(n, 0x5a))
	data, err := script.ToVarLenData()
	if err != nil {
		report("to", err.Error())
		return
	}
	want := append(c29CompactSize(uint64(n)), script...)
	if !bytes.Equal(data, want) {
		report("to", "ToVarLenData is not compact-size(length) | script")
	}
	back, err := NewScriptFromVarLenData(data)
	if err != nil || !bytes.Equal(back, script) {
		report("roundtrip", fmt.Sprintf("NewScriptFromVarLenData(ToVarLenData(s)) != s (err %v)", err))
	}
	if err == nil {
		again, err2 := back.ToVarLenData()
		if err2 != nil || !bytes.Equal(again, data) {
			report("roundtrip-back", "ToVarLenData(NewScriptFromVarLenData(d)) != d")
		}
	}
	if !bytes.Equal(script, c29Pattern(n, 0x5a)) {
		report("mutated", "the script was modified")
	}
	// information: truncated / extended data
	if _, err := NewScriptFromVarLenData(append(append([]byte{}, data...), 0x00)); err != nil {
		r.Outcome("script:trailing-byte-refused")
	} else {
		r.Outcome("script:trailing-byte-accepted")
	}
	r.Outcome("script:roundtrip")
}

func c29CheckHeader(r *vrep.R, raw [BlockHeaderByteLength]byte) {
	c := c29Bytes{Kind: "header", Hex: hex.EncodeToString(raw[:])}
	fp := "header " + c.Hex
	report := func(kind, what string) { r.ViolationMin("header:"+kind, 0, fp, what, map[string]any{"bytes": c}) }
	var h BlockHeader
	h.Deserialize(raw)
	if h.Serialize() != raw {
		report("roundtrip", "Serialize(Deserialize(raw)) != raw")
	}
	// field placement
	if uint32(h.Version) != binary.LittleEndian.Uint32(raw[0:]) || !bytes.Equal(h.PreviousBlockHeaderHash[:], raw[4:36]) ||
		!bytes.Equal(h.MerkleRootHash[:], raw[36:68]) || h.Time != binary.LittleEndian.Uint32(raw[68:]) ||
		h.Bits != binary.LittleEndian.Uint32(raw[72:]) || h.Nonce != binary.LittleEndian.Uint32(raw[76:]) {
		report("fields", fmt.Sprintf("fields read from the wrong place: %+v", h))
	}
	var h2 BlockHeader
	h2.Deserialize(h.Serialize())
	if h2 != h {
		report("roundtrip-struct", "Deserialize(Serialize(h)) != h")
	}
	// the hash fields print in both byte orders consistently
	if h.PreviousBlockHeaderHash.Hex(ReversedByteOrder) != hex.EncodeToString(c29Reverse(raw[4:36])) ||
		h.MerkleRootHash.Hex(InternalByteOrder) != hex.EncodeToString(raw[36:68]) {
		report("hash-order", "header hash fields print in the wrong byte order")
	}
	r.Outcome("header:roundtrip")
}

// ---- driver -----------------------------------------------------------------------

func TestVerifC29(t *testing.T) {
	r := vrep.Start(t, "C29", "serialize")
	defer r.Finish()
	if rd := r.ReplayData(); rd != nil {
		var p struct {
			Tx    *c29Tx    `json:"tx"`
			Bytes *c29Bytes `json:"bytes"`
		}
		if json.Unmarshal(rd, &p) != nil {
			return
		}
		switch {
		case p.Tx != nil && p.Tx.NIn > 0:
			c29CheckTx(r, *p.Tx)
		case p.Bytes != nil && p.Bytes.Kind == "hash":
			b, _ := hex.DecodeString(p.Bytes.Hex)
			c29CheckHash(r, b)
		case p.Bytes != nil && p.Bytes.Kind == "compact":
			c29CheckCompact(r, p.Bytes.N)
		case p.Bytes != nil && p.Bytes.Kind == "script":
			c29CheckScript(r, int(p.Bytes.N))
		case p.Bytes != nil && p.Bytes.Kind == "header":
			b, _ := hex.DecodeString(p.Bytes.Hex)
			var raw [BlockHeaderByteLength]byte
			copy(raw[:], b)
			c29CheckHeader(r, raw)
		}
		r.Eval(1)
		return
	}

	// transactions
	counts := []int{1, 2, 252, 253}
	outCounts := []int{0, 1, 2, 252, 253}
	lens := []int{0, 1, 252, 253, 65535, 65536}
	if r.Thorough() {
		counts = []int{1, 2, 3, 252, 253, 254, 300}
		outCounts = []int{0, 1, 2, 3, 252, 253, 254, 300}
		lens = []int{0, 1, 2, 75, 76, 252, 253, 254, 255, 256, 65535, 65536, 65537}
	}
	var txs []c29Tx
	for _, nin := range counts {
		for _, nout := range outCounts {
			for wp := 0; wp <= 4; wp++ {
				stacks := len(c29Stacks)
				if wp == 0 {
					stacks = 1
				}
				for st := 0; st < stacks; st++ {
					if nin > 3 && (wp == 3 || wp == 4) && (c29Stacks[st][0] >= 65535) {
						continue // hundreds of 64 KiB items: nothing new, only slow
					}
					for li, l := range lens {
						for sigAt := 0; sigAt <= 2; sigAt++ {
							if sigAt == 2 && (l > 300 || nin == 1) {
								continue
							}
							if sigAt == 1 && nin == 1 {
								continue
							}
							txs = append(txs, c29Tx{NIn: nin, NOut: nout, WitPat: wp, Stack: st, SigLen: l, SigAt: sigAt,
								PkLen: lens[(li+st+wp)%len(lens)], Numeric: (li + st + wp + sigAt) % len(c29Nums), Nested: (li+wp)%2 == 1})
						}
					}
				}
			}
		}
	}
	// every small transaction: one input, no or one output, every script length 0..40
	// (all stripped sizes from 51 to 140 bytes, 64 - the size of a Merkle inner node -
	// included)
	for nout := 0; nout <= 1; nout++ {
		for sl := 0; sl <= 40; sl++ {
			for pl := 0; pl <= 40; pl++ {
				if nout == 0 && pl != 0 {
					continue
				}
				txs = append(txs, c29Tx{NIn: 1, NOut: nout, SigLen: sl, PkLen: pl, Numeric: (sl + pl) % len(c29Nums)})
			}
		}
	}
	r.Set("transactions", len(txs))
	r.Sample(txs[len(txs)/3])
	r.Sample(txs[len(txs)-1])
	vrep.Parallel(vrep.Workers(), len(txs), func(i int) {
		if r.Expired() {
			return
		}
		c29CheckTx(r, txs[i])
		r.Distinct("tx|" + txs[i].String())
		r.Eval(1)
	})
	// every numeric extreme with every witness pattern on a small transaction
	small := 0
	for num := range c29Nums {
		for wp := 0; wp <= 4; wp++ {
			for st := range c29Stacks {
				for _, nested := range []bool{false, true} {
					c := c29Tx{NIn: 2, NOut: 2, WitPat: wp, Stack: st, SigLen: 107, SigAt: 2, PkLen: 25, Numeric: num, Nested: nested}
					c29CheckTx(r, c)
					r.Distinct("tx|" + c.String())
					small++
				}
			}
		}
	}
	r.Eval(small)
	r.Set("transactions_numeric", small)

	// hashes: every single-byte pattern, ramps, wrong lengths
	hashes := 0
	for pos := 0; pos < 32; pos++ {
		for _, v := range []byte{0x01, 0x7f, 0x80, 0xff} {
			b := make([]byte, 32)
			b[pos] = v
			c29CheckHash(r, b)
			r.Distinct("hash|" + hex.EncodeToString(b))
			hashes++
		}
	}
	for _, b := range [][]byte{make([]byte, 32), bytes.Repeat([]byte{0xff}, 32), c29Pattern(32, 0), c29Pattern(32, 0x80),
		{}, make([]byte, 31), make([]byte, 33), make([]byte, 64)} {
		c29CheckHash(r, b)
		r.Distinct("hash|" + hex.EncodeToString(b))
		hashes++
	}
	for _, s := range []string{"", "zz", hex.EncodeToString(make([]byte, 31)), hex.EncodeToString(make([]byte, 33)),
		"zz" + hex.EncodeToString(make([]byte, 31))} {
		if _, err := NewHashFromString(s, InternalByteOrder); err == nil {
			r.Violation("hash string "+s, "NewHashFromString accepted a malformed string", nil)
		} else {
			r.Outcome("hash:malformed-string-refused")
		}
		hashes++
	}
	r.Eval(hashes)

	// compact sizes and length-prefixed scripts
	compacts := []uint64{0, 1, 2, 0x7f, 0x80, 251, 252, 253, 254, 255, 256, 0x7fff, 0x8000, 0xfffe, 0xffff, 0x10000, 0x10001,
		0x7fffffff, 0x80000000, 0xfffffffe, 0xffffffff, 0x100000000, 0x100000001, 0x7fffffffffffffff, 0x8000000000000000, 0xffffffffffffffff}
	for _, n := range compacts {
		c29CheckCompact(r, n)
		r.Distinct(fmt.Sprintf("compact|%d", n))
	}
	r.Eval(len(compacts))
	maxScript := 1200
	if r.Thorough() {
		maxScript = 70000
	}
	var scriptLens []int
	for n := 0; n <= maxScript; n++ {
		scriptLens = append(scriptLens, n)
	}
	if !r.Thorough() {
		scriptLens = append(scriptLens, 65534, 65535, 65536, 65537, 70000)
	}
	vrep.Parallel(vrep.Workers(), len(scriptLens), func(i int) {
		c29CheckScript(r, scriptLens[i])
		r.Distinct(fmt.Sprintf("script|%d", scriptLens[i]))
	})
	r.Eval(len(scriptLens))

	// block headers: every byte position with a few values, ramps
	headers := 0
	for pos := 0; pos < BlockHeaderByteLength; pos++ {
		for _, v := range []byte{0x01, 0x80, 0xff} {
			var raw [BlockHeaderByteLength]byte
			raw[pos] = v
			c29CheckHeader(r, raw)
			r.Distinct("header|" + hex.EncodeToString(raw[:]))
			headers++
		}
	}
	for _, salt := range []byte{0, 0x55, 0x80, 0xff} {
		var raw [BlockHeaderByteLength]byte
		copy(raw[:], c29Pattern(BlockHeaderByteLength, salt))
		if salt == 0xff {
			copy(raw[:], bytes.Repeat([]byte{0xff}, BlockHeaderByteLength))
		}
		c29CheckHeader(r, raw)
		r.Distinct("header|" + hex.EncodeToString(raw[:]))
		headers++
	}
	r.Eval(headers)
}
