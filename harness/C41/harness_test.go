//go:build verif

package ephemeral

import (
	"bytes"
	"encoding/json"
	"fmt"
	"math/big"
	"sort"
	"testing"

	"github.com/btcsuite/btcd/btcec"
	"github.com/keep-network/keep-core/pkg/verifshim/vrep"
)

// ---------- key alphabet ----------

var c41Fixed = []string{
	"c90fdaa22168c234c4c6628b80dc1cd129024e088a67cc74020bbea63b139b22",
	"3243f6a8885a308d313198a2e03707344a4093822299f31d0082efa98ec4e6c8",
	"7fffffffffffffffffffffffffffffff5d576e7357a4501ddfe92f46681b20a0", // (N-1)/2
	"00000000000000000000000000000000ffffffffffffffffffffffffffffffff",
	"b7e151628aed2a6abf7158809cf4f3c762e7160f38b4da56a784d9045190cfef",
	"0000000000000000000000000000000000000000000000010000000000000000",
	"a54ff53a5f1d36f1510e527fade682d19b05688c2b3e6c1f1f83d9abfb41bd6b",
	"5be0cd19137e21791f83d9ab9b05688c510e527fa54ff53a3c6ef372bb67ae85",
}

type c41Key struct {
	name   string
	scalar *big.Int
	priv   *PrivateKey
	pub    *PublicKey // as the peer holds it: parsed from the marshalled form
}

func c41Keys(t *testing.T, thorough bool) []*c41Key {
	N := btcec.S256().N
	var scalars []*big.Int
	var names []string
	small := 3
	fixed := 4
	if thorough {
		small, fixed = 8, 8
	}
	for k := 1; k <= small; k++ {
		scalars = append(scalars, big.NewInt(int64(k)))
		names = append(names, fmt.Sprint(k))
	}
	for k := 1; k <= small && (thorough || k <= 2); k++ {
		scalars = append(scalars, new(big.Int).Sub(N, big.NewInt(int64(k))))
		names = append(names, fmt.Sprintf("N-%d", k))
	}
	for i, h := range c41Fixed[:fixed] {
		v, ok := new(big.Int).SetString(h, 16)
		if !ok || v.Sign() <= 0 || v.Cmp(N) >= 0 {
			t.Fatalf("c41: bad fixed scalar %d", i)
		}
		scalars = append(scalars, v)
		names = append(names, fmt.Sprintf("F%d", i))
	}
	var keys []*c41Key
	for i, s := range scalars {
		b := make([]byte, 32)
		s.FillBytes(b)
		priv := UnmarshalPrivateKey(b)
		own := (*PublicKey)((*btcec.PrivateKey)(priv).PubKey())
		pub, err := UnmarshalPublicKey(own.Marshal())
		if err != nil {
			t.Fatalf("c41: public key of %s does not parse: %v", names[i], err)
		}
		keys = append(keys, &c41Key{names[i], s, priv, pub})
	}
	return keys
}

// c41Secret is the reference ECDH secret of two scalars: the x coordinate of (a*b mod N)*G,
// computed without the code's ScalarMult path. Two channels have "different keys" when
// their secrets differ ((a,b) and (N-a,b) share one: the points differ only in y).
func c41Secret(a, b *big.Int) string {
	N := btcec.S256().N
	m := new(big.Int).Mul(a, b)
	m.Mod(m, N)
	x, _ := btcec.S256().ScalarBaseMult(m.Bytes())
	return x.Text(16)
}

func c41Plain(n int) []byte {
	p := make([]byte, n)
	for i := range p {
		p[i] = byte(i*7 + n + i>>8)
	}
	return p
}

// c41Case: channel between key I (encrypting side) and key J, one plaintext length.
type c41Case struct {
	I   int `json:"i"`
	J   int `json:"j"`
	Len int `json:"len"`
}

type c41Chan struct {
	i, j   int
	secret string
	key    *SymmetricEcdhKey // derived by i from j's public key
}

func c41Positions(n int) []int {
	if n <= 2048 {
		out := make([]int, n)
		for i := range out {
			out[i] = i
		}
		return out
	}
	seen := map[int]bool{}
	var out []int
	add := func(p int) {
		if p >= 0 && p < n && !seen[p] {
			seen[p] = true
			out = append(out, p)
		}
	}
	for p := 0; p < 128; p++ { // nonce, tag, first blocks
		add(p)
		add(n - 1 - p)
	}
	if n > 70000 {
		// very large ciphertexts (added for the size-limit cases): both ends and 32
		// evenly spread positions; the block-boundary sweep is done at 64 KiB
		for k := 1; k <= 32; k++ {
			add(k * (n / 33))
		}
		sort.Ints(out)
		return out
	}
	for b := 64; b < n; b += 64 { // around every 64-byte keystream block boundary (offset by nonce+tag)
		add(24 + 16 + b - 1)
		add(24 + 16 + b)
	}
	for p := 0; p < n; p += 251 {
		add(p)
	}
	return out
}

func c41Run(r *vrep.R, keys []*c41Key, chans []*c41Chan, c c41Case) {
	ki, kj := keys[c.I], keys[c.J]
	fp := fmt.Sprintf("channel %s->%s len=%d", ki.name, kj.name, c.Len)
	report := func(kind string, size int, what string) {
		r.ViolationMin(kind, size, fp, what, c)
		r.Outcome(kind)
	}
	size := c.Len*100 + c.I + c.J
	// outcome classes are counted once per case and class; the number of individual
	// checks goes to the x.channel.checks.* counters
	counts := map[string]int64{}
	defer func() {
		for _, k := range []string{"tamper:rejected", "resized:rejected", "other-key:rejected", "other-channel:same-secret(nothing demanded)"} {
			if counts[k] > 0 {
				r.Outcome(k)
				r.Add("checks."+k, counts[k])
			}
		}
	}()
	var kSend, kRecv *SymmetricEcdhKey
	if p, _ := vrep.Guard(func() { kSend = ki.priv.Ecdh(kj.pub); kRecv = kj.priv.Ecdh(ki.pub) }); p != nil {
		report("ecdh-panic", size, fmt.Sprintf("Ecdh panicked: %v", p))
		return
	}
	pt := c41Plain(c.Len)
	evals := 0
	var ct []byte
	var err error
	if p, _ := vrep.Guard(func() { ct, err = kSend.Encrypt(append([]byte{}, pt...)) }); p != nil || err != nil {
		report("encrypt-failed", size, fmt.Sprintf("Encrypt failed: %v %v", p, err))
		return
	}
	dec := func(k *SymmetricEcdhKey, in []byte) (out []byte, err error) {
		evals++
		p, _ := vrep.Guard(func() { out, err = k.Decrypt(append([]byte{}, in...)) })
		if p != nil {
			return nil, fmt.Errorf("panic: %v", p)
		}
		return
	}
	// decrypting an encryption returns the plaintext; both sides hold the same key
	if out, err := dec(kSend, ct); err != nil || !bytes.Equal(out, pt) {
		report("own-decrypt", size, fmt.Sprintf("the encrypting side cannot decrypt its own ciphertext: err=%v, %d bytes", err, len(out)))
		return
	}
	if out, err := dec(kRecv, ct); err != nil || !bytes.Equal(out, pt) {
		report("sides-disagree", size, fmt.Sprintf("%s.Ecdh(%s) encrypts, %s.Ecdh(%s) does not decrypt to the plaintext: err=%v", ki.name, kj.name, kj.name, ki.name, err))
		return
	}
	r.Outcome("roundtrip:ok")
	// every single-byte modification
	masks := []byte{0x01, 0x80, 0xff}
	for _, pos := range c41Positions(len(ct)) {
		for _, m := range masks {
			mod := append([]byte{}, ct...)
			mod[pos] ^= m
			if out, err := dec(kRecv, mod); err == nil {
				report("tamper-accepted", size+pos, fmt.Sprintf("ciphertext with byte %d of %d xor %#02x was accepted (%d plaintext bytes, equal to original: %v)", pos, len(ct), m, len(out), bytes.Equal(out, pt)))
			} else {
				counts["tamper:rejected"]++
			}
		}
	}
	// shortened / extended by a byte, header only, empty
	resized := map[string][]byte{
		"last byte dropped":              ct[:len(ct)-1],
		"first byte dropped":             ct[1:],
		"zero byte appended":             append(append([]byte{}, ct...), 0),
		"0xff byte appended":             append(append([]byte{}, ct...), 0xff),
		"zero byte inserted after nonce": append(append(append([]byte{}, ct[:24]...), 0), ct[24:]...),
		"nonce only":                     ct[:24],
		"23 bytes":                       ct[:23],
		"empty":                          {},
	}
	for _, name := range []string{"last byte dropped", "first byte dropped", "zero byte appended", "0xff byte appended", "zero byte inserted after nonce", "nonce only", "23 bytes", "empty"} {
		if _, err := dec(kRecv, resized[name]); err == nil {
			report("resized-accepted", size, fmt.Sprintf("modified ciphertext (%s) was accepted", name))
		} else {
			counts["resized:rejected"]++
		}
	}
	// every other channel's key
	mySecret := c41Secret(ki.scalar, kj.scalar)
	for _, o := range chans {
		if o.secret == mySecret {
			// same ECDH secret (same or mirrored pair): not a different key
			if o.i != c.I || o.j != c.J {
				counts["other-channel:same-secret(nothing demanded)"]++
			}
			continue
		}
		if _, err := dec(o.key, ct); err == nil {
			report("other-key-accepted", size, fmt.Sprintf("the key of channel %s->%s (a different ECDH secret) decrypts the ciphertext of %s->%s", keys[o.i].name, keys[o.j].name, ki.name, kj.name))
		} else {
			counts["other-key:rejected"]++
		}
	}
	r.Eval(evals)
}

func TestVerifC41(t *testing.T) {
	r := vrep.Start(t, "C41", "channel")
	defer r.Finish()
	keys := c41Keys(t, r.Thorough())
	// one key per ordered pair, derived once with the real Ecdh (fresh keys are derived
	// again inside every case for the channel under test)
	var chans []*c41Chan
	for i := range keys {
		for j := range keys {
			chans = append(chans, &c41Chan{i, j, c41Secret(keys[i].scalar, keys[j].scalar), keys[i].priv.Ecdh(keys[j].pub)})
		}
	}
	if rd := r.ReplayData(); rd != nil {
		var c c41Case
		if string(rd) != "null" && json.Unmarshal(rd, &c) == nil && c.I < len(keys) && c.J < len(keys) {
			if c.Len < 0 {
				c41Match(r, keys, c.I, c.J)
			} else {
				c41Run(r, keys, chans, c)
			}
		}
		return
	}
	lens := []int{0, 1, 15, 16, 17, 1024}
	var cases []c41Case
	for i := range keys {
		for j := range keys {
			for _, l := range lens {
				cases = append(cases, c41Case{i, j, l})
			}
			if i < 9 && j < 9 && (r.Thorough() || i == 0 && j == 1 || i == 4 && j == 8 || i == 8 && j == 8) {
				cases = append(cases, c41Case{i, j, 65536})
			}
		}
	}
	// large plaintexts around every power of two up to 4 MiB (the ciphertext is 40 bytes
	// longer than the plaintext: a size limit applied on one side only shows up here)
	maxPow := 21
	if r.Thorough() {
		maxPow = 22
	}
	for k := 17; k <= maxPow; k++ {
		for _, d := range []int{-41, -40, -24, -16, -1, 0} {
			cases = append(cases, c41Case{0, 1, 1<<uint(k) + d})
		}
	}
	r.Set("keys", len(keys))
	r.Set("channels", len(chans))
	secrets := map[string]bool{}
	for _, c := range chans {
		secrets[c.secret] = true
	}
	r.Set("distinct_ecdh_secrets", len(secrets))
	r.Sample(map[string]any{"channel": keys[0].name + "->" + keys[len(keys)-1].name, "len": 17, "modifications": "every byte x {01,80,ff}, resized, every other channel's key"})
	vrep.Parallel(vrep.Workers(), len(cases), func(n int) {
		if r.Expired() {
			return
		}
		c := cases[n]
		r.Distinct(fmt.Sprintf("chan|%d|%d|%d", c.I, c.J, c.Len))
		c41Run(r, keys, chans, c)
	})
	// revealed private key vs public key
	for i := range keys {
		for j := range keys {
			r.Distinct(fmt.Sprintf("match|%d|%d", i, j))
			c41Match(r, keys, i, j)
		}
	}
}

// c41Match: public key I against revealed private key J (as received: unmarshalled).
func c41Match(r *vrep.R, keys []*c41Key, i, j int) {
	pub, privKey := keys[i], keys[j]
	revealed := UnmarshalPrivateKey(privKey.priv.Marshal())
	var got bool
	p, _ := vrep.Guard(func() { got = pub.pub.IsKeyMatching(revealed) })
	r.Eval(1)
	want := pub.scalar.Cmp(privKey.scalar) == 0 // distinct scalars in [1,N-1] generate distinct points
	fp := fmt.Sprintf("IsKeyMatching pub=%s*G priv=%s", pub.name, privKey.name)
	c := c41Case{I: i, J: j, Len: -1}
	switch {
	case p != nil:
		r.ViolationMin("match-panic", i+j, fp, fmt.Sprintf("IsKeyMatching panicked: %v", p), c)
	case got && !want:
		r.ViolationMin("match-false-positive", i+j, fp, fmt.Sprintf("private key %s is reported as matching the public key of %s, which it does not generate", privKey.name, pub.name), c)
	case !got && want:
		r.ViolationMin("match-false-negative", i+j, fp, fmt.Sprintf("private key %s is reported as not matching its own public key", privKey.name), c)
	case got:
		r.Outcome("match:true")
	default:
		r.Outcome("match:false")
	}
}
