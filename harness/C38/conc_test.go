//go:build verif

package tbtc

// C38, unit "conc": signers are registered by one goroutine per seat (the DKG executor
// does that for an operator holding several seats of a new wallet). registry.go is
// recompiled for the cooperative scheduler; 2-3 threads register signers of the same /
// of different wallets (with or without an earlier registration), every interleaving
// within the preemption bound. After all of them returned, the live registry must know
// exactly what a node restarted over the same storage knows (the reference is the
// restarted registry itself), and the three lookups must agree.

import (
	"encoding/json"
	"fmt"
	"sort"
	"strings"
	"testing"

	"github.com/keep-network/keep-core/pkg/verifshim/vrep"
	"github.com/keep-network/keep-core/pkg/verifshim/vsched"
)

// c38SlowDisk is the in-memory storage with scheduling points around every write (a
// real write blocks: other goroutines run meanwhile).
type c38SlowDisk struct{ *c38Disk }

func (d c38SlowDisk) Save(data []byte, directory, name string) error {
	vsched.Yield()
	err := d.c38Disk.Save(data, directory, name)
	vsched.Yield()
	return err
}

type c38ConcScenario struct {
	// Before: registrations made sequentially first; Threads: per thread the (wallet,
	// member) pairs it registers one after the other.
	Before  [][2]int   `json:"before"`
	Threads [][][2]int `json:"threads"`
}

func (sc c38ConcScenario) String() string {
	f := func(ps [][2]int) string {
		var s []string
		for _, p := range ps {
			s = append(s, fmt.Sprintf("w%dm%d", p[0], p[1]))
		}
		return strings.Join(s, ",")
	}
	var ts []string
	for _, t := range sc.Threads {
		ts = append(ts, f(t))
	}
	return fmt.Sprintf("before[%s] threads[%s]", f(sc.Before), strings.Join(ts, " | "))
}

type c38ConcObs struct {
	errs                      []string
	live                      string
	want, restartErr, lookups string
	finished                  bool
	disk                      *c38Disk
	reg                       *walletRegistry
	done                      int
}

func c38LiveSet(reg *walletRegistry, fx *c38Fixtures) string {
	var s []string
	for wi, pk := range fx.keys {
		var ms []int
		for _, sg := range reg.getSigners(pk) {
			ms = append(ms, int(sg.signingGroupMemberIndex))
		}
		sort.Ints(ms)
		if len(ms) > 0 {
			s = append(s, fmt.Sprintf("w%d%v", wi, ms))
		}
	}
	return strings.Join(s, " ")
}

func c38ConcBody(fx *c38Fixtures, sc c38ConcScenario, obs *c38ConcObs) func() {
	return func() {
		*obs = c38ConcObs{disk: newC38Disk()}
		reg, err := newWalletRegistry(c38SlowDisk{obs.disk}, c38WalletID)
		if err != nil {
			panic(err)
		}
		obs.reg = reg
		for _, p := range sc.Before {
			if err := reg.registerSigner(fx.signers[p[0]][p[1]-1]); err != nil {
				obs.errs = append(obs.errs, err.Error())
			}
		}
		n := len(sc.Threads)
		for _, ops := range sc.Threads {
			ops := ops
			vsched.Go(func() {
				for _, p := range ops {
					if err := reg.registerSigner(fx.signers[p[0]][p[1]-1]); err != nil {
						obs.errs = append(obs.errs, err.Error())
					}
				}
				obs.done++
			})
		}
		vsched.Block("registrations done", func() bool { return obs.done == n })
		obs.live = c38LiveSet(reg, fx)
		// the reference: a node restarted over the same storage (built inside the
		// execution: loading uses goroutines and channels of the recompiled registry)
		restarted, err := newWalletRegistry(obs.disk, c38WalletID)
		if err != nil {
			obs.restartErr = err.Error()
			return
		}
		obs.want = c38LiveSet(restarted, fx)
		obs.lookups = c38LookupsAgree(fx, reg)
		obs.finished = true
	}
}

type c38ConcReplay struct {
	Conc    c38ConcScenario `json:"conc"`
	Choices []int           `json:"choices"`
	Bound   int             `json:"bound"`
}

func TestVerifC38Conc(t *testing.T) {
	r := vrep.Start(t, "C38", "conc")
	defer r.Finish()
	fx := c38Load(t, 2, 3)
	var obs c38ConcObs
	evaluate := func(sc c38ConcScenario, bound int, s *vsched.Sched) {
		r.Eval(1)
		r.Transition(len(s.Choices()) + 1)
		rp := c38ConcReplay{sc, s.Choices(), bound}
		fail := func(kind, what string) {
			r.ViolationMin("conc-"+kind, len(s.Choices()), fmt.Sprintf("conc %s %s", sc, kind), what+" [schedule "+s.Trace()+"]", rp)
		}
		if p, stack := s.Failed(); p != nil {
			fail("panic", fmt.Sprintf("panic: %v\n%s", p, stack))
			return
		}
		if s.StepCapHit {
			r.Cap("conc step-cap")
			return
		}
		if len(s.Deadlock) > 0 || obs.done != len(sc.Threads) {
			fail("stuck", fmt.Sprintf("registrations never returned: %v", s.Deadlock))
			return
		}
		if len(obs.errs) > 0 {
			fail("error", fmt.Sprintf("registerSigner failed without any storage fault: %v", obs.errs))
			return
		}
		if obs.restartErr != "" || !obs.finished {
			fail("restart", "restart failed: "+obs.restartErr)
			return
		}
		want := obs.want
		if obs.live != want {
			fail("live-differs-from-restarted", fmt.Sprintf("after all registrations returned the running node knows signers {%s}, a node restarted over the same storage knows {%s}", obs.live, want))
		}
		if obs.lookups != "" {
			fail("lookups", "running node: "+obs.lookups)
		}
		r.State(sc.String() + "|" + obs.live)
		r.Outcome("conc: live=" + obs.live)
		if s.Trace() != "" {
			r.Distinct(fmt.Sprintf("%s|%v", sc, s.Choices()))
		}
	}
	if rd := r.ReplayData(); rd != nil {
		var rp c38ConcReplay
		if json.Unmarshal(rd, &rp) == nil && len(rp.Conc.Threads) > 0 {
			s := vsched.Replay(rp.Choices, vsched.Options{Bound: rp.Bound}, c38ConcBody(fx, rp.Conc, &obs))
			evaluate(rp.Conc, rp.Bound, s)
		}
		return
	}
	scs := []c38ConcScenario{
		{Threads: [][][2]int{{{0, 1}}, {{0, 2}}}},                           // two seats of a new wallet
		{Threads: [][][2]int{{{0, 1}}, {{1, 1}}}},                           // two new wallets
		{Before: [][2]int{{0, 3}}, Threads: [][][2]int{{{0, 1}}, {{0, 2}}}}, // wallet already known
		{Threads: [][][2]int{{{0, 1}, {1, 1}}, {{1, 2}, {0, 2}}}},           // crossing
	}
	maxBound := 2
	if r.Thorough() {
		scs = append(scs,
			c38ConcScenario{Threads: [][][2]int{{{0, 1}}, {{0, 2}}, {{0, 3}}}},
			c38ConcScenario{Threads: [][][2]int{{{0, 1}}, {{0, 2}}, {{1, 1}}}},
		)
		maxBound = 3
	}
	for i, sc := range scs {
		if !r.Mine(i) {
			continue
		}
		if i == 0 {
			a := vsched.Replay(nil, vsched.Options{}, c38ConcBody(fx, sc, &obs))
			la := obs.live
			b := vsched.Replay(nil, vsched.Options{}, c38ConcBody(fx, sc, &obs))
			if !vsched.SameRun(a, b) || la != obs.live {
				t.Fatalf("NONDETERMINISM: two runs of the empty script differ")
			}
			r.ReplayedTwice(1)
			r.Sample(map[string]any{"scenario": sc.String(), "live": la})
		}
		bound := maxBound
		if len(sc.Threads) > 2 {
			bound = 2
		}
		for b := 0; b <= bound; b++ {
			st := vsched.Explore(vsched.Options{Bound: b, Stop: r.Expired}, c38ConcBody(fx, sc, &obs), func(s *vsched.Sched) { evaluate(sc, b, s) })
			if b == bound {
				r.Add("conc_execs_at_max_bound", st.Execs)
			}
			if st.Stopped {
				r.Cap(fmt.Sprintf("conc %s bound %d not completed", sc, b))
			}
		}
	}
	r.Set("conc_max_preemption_bound", maxBound)
}
