//go:build verif

package tbtc

import (
	"bytes"
	"crypto/ecdsa"
	"crypto/sha256"
	"encoding/json"
	"errors"
	"fmt"
	"math/big"
	"sort"
	"strings"
	"testing"

	"github.com/keep-network/keep-common/pkg/persistence"
	"github.com/keep-network/keep-core/pkg/bitcoin"
	"github.com/keep-network/keep-core/pkg/chain"
	"github.com/keep-network/keep-core/pkg/internal/tecdsatest"
	"github.com/keep-network/keep-core/pkg/protocol/group"
	"github.com/keep-network/keep-core/pkg/tecdsa"
	"github.com/keep-network/keep-core/pkg/verifshim/vrep"
)

// ---- in-memory persistence.ProtectedHandle with a write log and fault plan ----

type c38Crash struct{}

const (
	c38None = iota
	c38Err
	c38CrashBefore // the process dies when the call is made, nothing written
	c38CrashAfter  // the call is applied, the process dies before it returns
)

var c38FaultName = []string{"", "storage-error", "crash-before", "crash-after"}

type c38Fault struct {
	Kind int `json:"kind"`
	At   int `json:"at"` // 1-based index among the mutating storage calls of the operation
}

type c38Disk struct {
	current map[string]map[string][]byte // directory -> name -> content
	archive map[string]map[string][]byte
	log     []string
	// per operation
	fault    c38Fault
	mutCalls int
	fired    bool
}

func newC38Disk() *c38Disk {
	return &c38Disk{current: map[string]map[string][]byte{}, archive: map[string]map[string][]byte{}}
}

func (d *c38Disk) arm(f c38Fault) { d.fault, d.mutCalls, d.fired = f, 0, false }

var errC38Fault = errors.New("injected storage error")

func (d *c38Disk) mutate(label string, apply func() error) error {
	d.mutCalls++
	if d.fault.Kind != c38None && d.mutCalls == d.fault.At {
		d.fired = true
		switch d.fault.Kind {
		case c38Err:
			d.log = append(d.log, label+" -> error")
			return errC38Fault
		case c38CrashBefore:
			d.log = append(d.log, label+" -> crash before")
			panic(c38Crash{})
		case c38CrashAfter:
			_ = apply()
			d.log = append(d.log, label+" -> applied, crash")
			panic(c38Crash{})
		}
	}
	err := apply()
	d.log = append(d.log, fmt.Sprintf("%s -> %v", label, err))
	return err
}

func (d *c38Disk) Save(data []byte, directory, name string) error {
	return d.mutate("save "+c38Short(directory)+name, func() error {
		if d.current[directory] == nil {
			d.current[directory] = map[string][]byte{}
		}
		d.current[directory][name] = append([]byte{}, data...)
		return nil
	})
}

func (d *c38Disk) Snapshot(data []byte, directory, name string) error {
	return d.mutate("snapshot "+c38Short(directory)+name, func() error { return nil })
}

func (d *c38Disk) Archive(directory string) error {
	return d.mutate("archive "+c38Short(directory), func() error {
		files, ok := d.current[directory]
		if !ok {
			return fmt.Errorf("error occurred while moving a dir: no such directory")
		}
		if d.archive[directory] == nil {
			d.archive[directory] = map[string][]byte{}
		}
		for n, c := range files {
			d.archive[directory][n] = c
		}
		delete(d.current, directory)
		return nil
	})
}

type c38Descriptor struct {
	name, dir string
	content   []byte
}

func (x *c38Descriptor) Name() string             { return x.name }
func (x *c38Descriptor) Directory() string        { return x.dir }
func (x *c38Descriptor) Content() ([]byte, error) { return x.content, nil }

func (d *c38Disk) ReadAll() (<-chan persistence.DataDescriptor, <-chan error) {
	var all []persistence.DataDescriptor
	for _, dir := range c38Keys(d.current) {
		for _, n := range c38Keys(d.current[dir]) {
			all = append(all, &c38Descriptor{n, dir, d.current[dir][n]})
		}
	}
	data := make(chan persistence.DataDescriptor, len(all))
	errs := make(chan error)
	for _, x := range all {
		data <- x
	}
	close(data)
	close(errs)
	return data, errs
}

func c38Keys[V any](m map[string]V) []string {
	ks := make([]string, 0, len(m))
	for k := range m {
		ks = append(ks, k)
	}
	sort.Strings(ks)
	return ks
}

func c38Short(dir string) string {
	if len(dir) > 6 {
		return dir[:6]
	}
	return dir
}

func (d *c38Disk) canon() string {
	var b strings.Builder
	for _, dir := range c38Keys(d.current) {
		fmt.Fprintf(&b, "%s{", c38Short(dir))
		for _, n := range c38Keys(d.current[dir]) {
			h := sha256.Sum256(d.current[dir][n])
			fmt.Fprintf(&b, "%s:%x,", n, h[:3])
		}
		b.WriteString("}")
	}
	return b.String()
}

// ---- the alphabet ----

const (
	c38Register = "register"
	c38Archive  = "archive"
	c38Restart  = "restart"
)

type c38Op struct {
	Kind   string   `json:"op"`
	Wallet int      `json:"wallet"`
	Member int      `json:"member,omitempty"` // 1-based member index
	Fault  c38Fault `json:"fault"`
}

func (o c38Op) String() string {
	s := o.Kind
	switch o.Kind {
	case c38Register:
		s += fmt.Sprintf("(w%d,m%d)", o.Wallet, o.Member)
	case c38Archive:
		s += fmt.Sprintf("(w%d)", o.Wallet)
	}
	if o.Fault.Kind != c38None {
		s += fmt.Sprintf("!%s@%d", c38FaultName[o.Fault.Kind], o.Fault.At)
	}
	return s
}

type c38Fixtures struct {
	keys    []*ecdsa.PublicKey
	signers [][]*signer // [wallet][member-1]
	bytes   [][][]byte
	pkh     [][20]byte
	ids     [][32]byte
}

func c38WalletID(pk *ecdsa.PublicKey) ([32]byte, error) {
	return sha256.Sum256(append(pk.X.Bytes(), pk.Y.Bytes()...)), nil
}

func c38Load(t *testing.T, wallets, members int) *c38Fixtures {
	shares, err := tecdsatest.LoadPrivateKeyShareTestFixtures(members)
	if err != nil {
		t.Fatalf("fixtures: %v", err)
	}
	fx := &c38Fixtures{}
	base := tecdsa.NewPrivateKeyShare(shares[0]).PublicKey()
	for w := 0; w < wallets; w++ {
		pk := base
		if w > 0 {
			// another wallet: a different point on the same curve; the registry does
			// not relate the wallet key to the share
			x, y := base.Curve.ScalarBaseMult(big.NewInt(int64(1000 + w)).Bytes())
			pk = &ecdsa.PublicKey{Curve: base.Curve, X: x, Y: y}
		}
		fx.keys = append(fx.keys, pk)
		fx.pkh = append(fx.pkh, bitcoin.PublicKeyHash(pk))
		id, _ := c38WalletID(pk)
		fx.ids = append(fx.ids, id)
		var ss []*signer
		var bs [][]byte
		for m := 1; m <= members; m++ {
			s := &signer{
				wallet: wallet{
					publicKey:             pk,
					signingGroupOperators: []chain.Address{"address-1", "address-2", "address-3", "address-3", "address-5"},
				},
				signingGroupMemberIndex: group.MemberIndex(m),
				privateKeyShare:         tecdsa.NewPrivateKeyShare(shares[m-1]),
			}
			b, err := s.Marshal()
			if err != nil {
				t.Fatalf("marshal: %v", err)
			}
			ss = append(ss, s)
			bs = append(bs, b)
		}
		fx.signers = append(fx.signers, ss)
		fx.bytes = append(fx.bytes, bs)
	}
	return fx
}

// c38World is everything one history produces.
type c38World struct {
	fx    *c38Fixtures
	disk  *c38Disk
	reg   *walletRegistry
	model map[[2]int]bool // (wallet, member) persisted and not archived
	// classification of the last operation, for outcome statistics
	last      string
	lastFired bool // the last operation's fault fired
	lastMut   int  // mutating storage calls the last operation made
}

func (w *c38World) boot() error {
	w.disk.arm(c38Fault{})
	reg, err := newWalletRegistry(w.disk, c38WalletID)
	if err != nil {
		return err
	}
	w.reg = reg
	return nil
}

// apply executes one operation on the live registry and updates the reference model.
func (w *c38World) apply(op c38Op) (problem string) {
	w.lastFired, w.lastMut = false, 0
	if op.Kind == c38Restart {
		w.last = "restart"
		if err := w.boot(); err != nil {
			return "restart failed: " + err.Error()
		}
		return ""
	}
	w.disk.arm(op.Fault)
	var err error
	p, stack := vrep.Guard(func() {
		switch op.Kind {
		case c38Register:
			err = w.reg.registerSigner(w.fx.signers[op.Wallet][op.Member-1])
		case c38Archive:
			err = w.reg.archiveWallet(w.fx.pkh[op.Wallet])
		}
	})
	crashed := false
	if p != nil {
		if _, ok := p.(c38Crash); !ok {
			return fmt.Sprintf("%s panicked: %v\n%s", op, p, stack)
		}
		crashed = true
	}
	w.lastFired, w.lastMut = w.disk.fired, w.disk.mutCalls
	// reference model: what the operation persisted, decided from its result and
	// from whether its storage call was applied before the crash
	applied := false
	switch {
	case crashed:
		applied = op.Fault.Kind == c38CrashAfter
	case err == nil:
		applied = true
	}
	if applied {
		switch op.Kind {
		case c38Register:
			w.model[[2]int{op.Wallet, op.Member}] = true
		case c38Archive:
			for k := range w.model {
				if k[0] == op.Wallet {
					delete(w.model, k)
				}
			}
		}
	}
	switch {
	case crashed:
		w.last = op.Kind + ":" + c38FaultName[op.Fault.Kind]
	case err != nil && w.lastFired:
		w.last = op.Kind + ":storage-error-reported"
	case err != nil:
		w.last = op.Kind + ":refused"
	case w.lastFired:
		w.last = op.Kind + ":ok-despite-storage-error"
	default:
		w.last = op.Kind + ":ok"
	}
	if crashed {
		// the process is gone: a fresh registry over the surviving storage
		if err := w.boot(); err != nil {
			return "restart after crash failed: " + err.Error()
		}
	}
	return ""
}

func (w *c38World) modelCanon() string {
	var s []string
	for k := range w.model {
		s = append(s, fmt.Sprintf("w%dm%d", k[0], k[1]))
	}
	sort.Strings(s)
	return strings.Join(s, ",")
}

// liveCanon renders the live registry (white-box) in a canonical form.
func (w *c38World) liveCanon() string {
	var s []string
	for key, v := range w.reg.walletCache {
		var ms []string
		for _, sg := range v.signers {
			ms = append(ms, fmt.Sprint(sg.signingGroupMemberIndex))
		}
		s = append(s, c38Short(key)+"["+strings.Join(ms, " ")+"]")
	}
	sort.Strings(s)
	return strings.Join(s, ",")
}

// lookupsAgree checks on any registry that the three lookups and the key list tell
// the same story for every wallet of the alphabet.
func c38LookupsAgree(fx *c38Fixtures, reg *walletRegistry) (problem string) {
	// a lookup that crashes on a registry state the operations produced is a violation
	// (the node cannot serve its own registry), not a harness failure
	if p, stack := vrep.Guard(func() { problem = c38LookupsAgreeUnguarded(fx, reg) }); p != nil {
		return fmt.Sprintf("a registry lookup panicked: %v\n%s", p, stack)
	}
	return problem
}

func c38LookupsAgreeUnguarded(fx *c38Fixtures, reg *walletRegistry) string {
	listed := map[string]bool{}
	for _, k := range reg.getWalletsPublicKeys() {
		listed[getWalletStorageKey(k)] = true
	}
	for wi, pk := range fx.keys {
		signers := reg.getSigners(pk)
		byHash, okHash := reg.getWalletByPublicKeyHash(fx.pkh[wi])
		byID, okID := reg.getWalletByID(fx.ids[wi])
		known := len(signers) > 0
		if okHash != known || okID != known || listed[getWalletStorageKey(pk)] != known {
			return fmt.Sprintf("lookups disagree for wallet %d: by public key %d signer(s), by public key hash found=%v, by wallet ID found=%v, listed=%v", wi, len(signers), okHash, okID, listed[getWalletStorageKey(pk)])
		}
		if known {
			if !byHash.publicKey.Equal(pk) || !byID.publicKey.Equal(pk) {
				return fmt.Sprintf("lookups for wallet %d return a wallet with another public key", wi)
			}
			for _, s := range signers {
				if !s.wallet.publicKey.Equal(pk) {
					return fmt.Sprintf("getSigners for wallet %d returns a signer of another wallet", wi)
				}
			}
		}
	}
	return ""
}

// restartedKnowsExactly builds a fresh registry over the storage (read-only) and
// compares it with the reference model.
func (w *c38World) restartedKnowsExactly() string {
	w.disk.arm(c38Fault{})
	var reg *walletRegistry
	var err error
	p, stack := vrep.Guard(func() { reg, err = newWalletRegistry(w.disk, c38WalletID) })
	if p != nil {
		return fmt.Sprintf("restart panicked: %v\n%s", p, stack)
	}
	if err != nil {
		return "restart failed: " + err.Error()
	}
	if s := c38LookupsAgree(w.fx, reg); s != "" {
		return "after restart: " + s
	}
	for wi, pk := range w.fx.keys {
		got := map[int][]byte{}
		for _, s := range reg.getSigners(pk) {
			m := int(s.signingGroupMemberIndex)
			if _, dup := got[m]; dup {
				return fmt.Sprintf("after restart wallet %d has member %d twice", wi, m)
			}
			b, err := s.Marshal()
			if err != nil {
				return fmt.Sprintf("after restart signer (w%d,m%d) cannot be marshalled: %v", wi, m, err)
			}
			got[m] = b
		}
		for m := 1; m <= len(w.fx.signers[wi]); m++ {
			want := w.model[[2]int{wi, m}]
			b, have := got[m]
			switch {
			case want && !have:
				return fmt.Sprintf("after restart the node does not know signer (wallet %d, member %d) that was persisted and not archived", wi, m)
			case !want && have:
				return fmt.Sprintf("after restart the node knows signer (wallet %d, member %d) that was archived or never persisted", wi, m)
			case want && !bytes.Equal(b, w.fx.bytes[wi][m-1]):
				return fmt.Sprintf("after restart signer (wallet %d, member %d) has different key material", wi, m)
			}
		}
		for m := range got {
			if m < 1 || m > len(w.fx.signers[wi]) {
				return fmt.Sprintf("after restart wallet %d has an unknown member %d", wi, m)
			}
		}
	}
	return ""
}

func c38Run(fx *c38Fixtures, history []c38Op) (w *c38World, kind, problem string) {
	w = &c38World{fx: fx, disk: newC38Disk(), model: map[[2]int]bool{}}
	if err := w.boot(); err != nil {
		return w, "infra", err.Error()
	}
	for _, op := range history {
		if p := w.apply(op); p != "" {
			return w, "operation", p
		}
	}
	if s := c38LookupsAgree(fx, w.reg); s != "" {
		return w, "lookups", "live node: " + s
	}
	if s := w.restartedKnowsExactly(); s != "" {
		return w, "restart", s
	}
	return w, "", ""
}

func c38HistoryString(h []c38Op) string {
	var s []string
	for _, o := range h {
		s = append(s, o.String())
	}
	return strings.Join(s, " ; ")
}

func TestVerifC38Tbtc(t *testing.T) {
	r := vrep.Start(t, "C38", "tbtc")
	defer r.Finish()
	const wallets, members = 2, 2
	fx := c38Load(t, wallets, members)
	report := func(h []c38Op, kind, problem string, w *c38World) {
		r.ViolationMin("tbtc:"+kind, len(h), "tbtc "+c38HistoryString(h), problem+" [storage log: "+strings.Join(w.disk.log, " | ")+"]", h)
	}
	if rd := r.ReplayData(); rd != nil {
		var h []c38Op
		if json.Unmarshal(rd, &h) == nil && len(h) > 0 && (h[0].Kind == c38Register || h[0].Kind == c38Archive || h[0].Kind == c38Restart) {
			w, kind, problem := c38Run(fx, h)
			r.Eval(1)
			if problem != "" {
				report(h, kind, problem, w)
			}
			t.Logf("replay %s\nmodel=%s live=%s disk=%s\n%s", c38HistoryString(h), w.modelCanon(), w.liveCanon(), w.disk.canon(), strings.Join(w.disk.log, "\n"))
		}
		return
	}
	depth := 5
	if r.Thorough() {
		depth = 7
	}
	// the alphabet; faults at the 1st and 2nd mutating storage call (an operation whose
	// fault did not fire is the fault-free operation again and is dropped)
	var alphabet []c38Op
	faults := []c38Fault{{}, {c38Err, 1}, {c38CrashBefore, 1}, {c38CrashAfter, 1}, {c38Err, 2}, {c38CrashBefore, 2}, {c38CrashAfter, 2}}
	for w := 0; w < wallets; w++ {
		for m := 1; m <= members; m++ {
			for _, f := range faults {
				alphabet = append(alphabet, c38Op{Kind: c38Register, Wallet: w, Member: m, Fault: f})
			}
		}
		for _, f := range faults {
			alphabet = append(alphabet, c38Op{Kind: c38Archive, Wallet: w, Fault: f})
		}
	}
	alphabet = append(alphabet, c38Op{Kind: c38Restart})
	r.Set("alphabet", fmt.Sprint(len(alphabet)))
	frontier := [][]c38Op{nil}
	r.State("|||")
	for d := 1; d <= depth && len(frontier) > 0; d++ {
		type succ struct {
			h   []c38Op
			key string
		}
		results := make([][]succ, len(frontier))
		vrep.Parallel(vrep.Workers(), len(frontier), func(i int) {
			if r.Expired() {
				return
			}
			for _, op := range alphabet {
				h := append(append([]c38Op{}, frontier[i]...), op)
				w, kind, problem := c38Run(fx, h)
				if op.Fault.Kind != c38None && !w.lastFired && problem == "" {
					continue // the operation made fewer storage calls: same as fault-free
				}
				r.Eval(1)
				r.Transition(1)
				r.Outcome(w.last)
				if problem != "" {
					if kind == "infra" {
						t.Errorf("infrastructure: %s", problem)
						continue
					}
					report(h, kind, problem, w)
					continue
				}
				if op.Fault.Kind != c38None || op.Kind == c38Restart || op.Kind == c38Archive {
					r.Distinct(c38HistoryString(h))
				}
				results[i] = append(results[i], succ{h, w.disk.canon() + "|" + w.liveCanon() + "|" + w.modelCanon()})
			}
		})
		var next [][]c38Op
		for _, rs := range results {
			for _, s := range rs {
				if r.State(s.key) {
					next = append(next, s.h)
				}
			}
		}
		r.Set(fmt.Sprintf("depth%d_new_states", d), fmt.Sprint(len(next)))
		frontier = next
		if r.Expired() {
			break
		}
	}
	if len(frontier) > 0 {
		r.Set("frontier_left_at_depth_bound", fmt.Sprint(len(frontier)))
	} else {
		r.Set("fixpoint", "state space closed before the depth bound")
	}
	r.Set("depth_bound", fmt.Sprint(depth))
	r.Sample(map[string]any{"alphabet_size": len(alphabet), "example_history": c38HistoryString([]c38Op{{Kind: c38Register, Wallet: 0, Member: 1}, {Kind: c38Register, Wallet: 0, Member: 2, Fault: c38Fault{c38CrashAfter, 1}}, {Kind: c38Archive, Wallet: 0, Fault: c38Fault{c38Err, 1}}, {Kind: c38Restart}})})
}
