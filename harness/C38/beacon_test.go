//go:build verif

package registry

import (
	"bytes"
	"crypto/sha256"
	"encoding/hex"
	"encoding/json"
	"errors"
	"fmt"
	"math/big"
	"runtime"
	"sort"
	"strconv"
	"strings"
	"sync"
	"testing"

	bn256 "github.com/ethereum/go-ethereum/crypto/bn256/cloudflare"
	"google.golang.org/protobuf/proto"

	"github.com/keep-network/keep-common/pkg/persistence"
	"github.com/keep-network/keep-core/internal/testutils"
	"github.com/keep-network/keep-core/pkg/beacon/dkg"
	"github.com/keep-network/keep-core/pkg/beacon/event"
	"github.com/keep-network/keep-core/pkg/beacon/registry/gen/pb"
	"github.com/keep-network/keep-core/pkg/chain"
	"github.com/keep-network/keep-core/pkg/protocol/group"
	"github.com/keep-network/keep-core/pkg/subscription"
	"github.com/keep-network/keep-core/pkg/verifshim/vrep"
	"github.com/keep-network/keep-core/pkg/verifshim/vsched"
)

// ---- in-memory persistence.ProtectedHandle with a write log and fault plan ----

type c38Crash struct{}

const (
	c38None = iota
	c38Err
	c38CrashBefore // the process dies when the call is made, nothing written
	c38CrashAfter  // the call is applied, the process dies before it returns
)

var c38FaultName = []string{"", "storage-error", "crash-before", "crash-after"}

type c38Fault struct {
	Kind int `json:"kind"`
	At   int `json:"at"` // 1-based index among the mutating storage calls of the operation
}

type c38Disk struct {
	current map[string]map[string][]byte // directory -> name -> content
	archive map[string]map[string][]byte
	log     []string
	// per operation
	fault    c38Fault
	mutCalls int
	fired    bool
}

func newC38Disk() *c38Disk {
	return &c38Disk{current: map[string]map[string][]byte{}, archive: map[string]map[string][]byte{}}
}

func (d *c38Disk) arm(f c38Fault) { d.fault, d.mutCalls, d.fired = f, 0, false }

var errC38Fault = errors.New("injected storage error")

func (d *c38Disk) mutate(label string, apply func() error) error {
	d.mutCalls++
	if d.fault.Kind != c38None && d.mutCalls == d.fault.At {
		d.fired = true
		switch d.fault.Kind {
		case c38Err:
			d.log = append(d.log, label+" -> error")
			return errC38Fault
		case c38CrashBefore:
			d.log = append(d.log, label+" -> crash before")
			panic(c38Crash{})
		case c38CrashAfter:
			_ = apply()
			d.log = append(d.log, label+" -> applied, crash")
			panic(c38Crash{})
		}
	}
	err := apply()
	d.log = append(d.log, fmt.Sprintf("%s -> %v", label, err))
	return err
}

func (d *c38Disk) Save(data []byte, directory, name string) error {
	return d.mutate("save "+c38Short(directory)+name, func() error {
		if d.current[directory] == nil {
			d.current[directory] = map[string][]byte{}
		}
		d.current[directory][name] = append([]byte{}, data...)
		return nil
	})
}

func (d *c38Disk) Snapshot(data []byte, directory, name string) error {
	return d.mutate("snapshot "+c38Short(directory)+name, func() error { return nil })
}

func (d *c38Disk) Archive(directory string) error {
	return d.mutate("archive "+c38Short(directory), func() error {
		files, ok := d.current[directory]
		if !ok {
			return fmt.Errorf("error occurred while moving a dir: no such directory")
		}
		if d.archive[directory] == nil {
			d.archive[directory] = map[string][]byte{}
		}
		for n, c := range files {
			d.archive[directory][n] = c
		}
		delete(d.current, directory)
		return nil
	})
}

type c38Descriptor struct {
	name, dir string
	content   []byte
}

func (x *c38Descriptor) Name() string             { return x.name }
func (x *c38Descriptor) Directory() string        { return x.dir }
func (x *c38Descriptor) Content() ([]byte, error) { return x.content, nil }

func (d *c38Disk) ReadAll() (<-chan persistence.DataDescriptor, <-chan error) {
	var all []persistence.DataDescriptor
	for _, dir := range c38Keys(d.current) {
		for _, n := range c38Keys(d.current[dir]) {
			all = append(all, &c38Descriptor{n, dir, d.current[dir][n]})
		}
	}
	data := make(chan persistence.DataDescriptor, len(all))
	errs := make(chan error)
	for _, x := range all {
		data <- x
	}
	close(data)
	close(errs)
	return data, errs
}

func c38Keys[V any](m map[string]V) []string {
	ks := make([]string, 0, len(m))
	for k := range m {
		ks = append(ks, k)
	}
	sort.Strings(ks)
	return ks
}

func c38Short(dir string) string {
	if len(dir) > 6 {
		return dir[:6]
	}
	return dir
}

func (d *c38Disk) canon() string {
	var b strings.Builder
	for _, dir := range c38Keys(d.current) {
		fmt.Fprintf(&b, "%s{", c38Short(dir))
		for _, n := range c38Keys(d.current[dir]) {
			// the stored bytes contain a protobuf map whose wire order varies from
			// encoding to encoding: hash the canonical re-encoding
			var m pb.Membership
			content := string(d.current[dir][n])
			if proto.Unmarshal(d.current[dir][n], &m) == nil {
				content = c38CanonSigner(m.Signer) + "#" + m.Channel
			}
			h := sha256.Sum256([]byte(content))
			fmt.Fprintf(&b, "%s:%x,", n, h[:3])
		}
		b.WriteString("}")
	}
	return b.String()
}

// ---- the alphabet ----

const (
	c38Register   = "register"
	c38Unregister = "unregister-stale"
	c38Restart    = "restart"
)

// chain answers to IsStaleGroup
const (
	c38NotStale = iota
	c38Stale
	c38ChainErr
)

type c38Op struct {
	Kind   string   `json:"op"`
	Group  int      `json:"group"`
	Member int      `json:"member,omitempty"`
	Latest int      `json:"latest"`          // unregister: -1 = a group this node is not in
	Stale  [2]int   `json:"stale"`           // unregister: chain answer per group
	Order  int      `json:"order,omitempty"` // unregister: permutation index of the registry's map iteration
	Fault  c38Fault `json:"fault"`
}

func (o c38Op) String() string {
	s := o.Kind
	switch o.Kind {
	case c38Register:
		s += fmt.Sprintf("(g%d,m%d)", o.Group, o.Member)
	case c38Unregister:
		names := []string{"not-stale", "stale", "chain-error"}
		s += fmt.Sprintf("(latest=%d,g0:%s,g1:%s,order=%d)", o.Latest, names[o.Stale[0]], names[o.Stale[1]], o.Order)
	}
	if o.Fault.Kind != c38None {
		s += fmt.Sprintf("!%s@%d", c38FaultName[o.Fault.Kind], o.Fault.At)
	}
	return s
}

type c38Fixtures struct {
	keys    [][]byte // uncompressed group public keys
	signers [][]*dkg.ThresholdSigner
	bytes   [][][]byte
}

func c38Load(t *testing.T, groups, members int) *c38Fixtures {
	fx := &c38Fixtures{}
	for g := 0; g < groups; g++ {
		gpk := new(bn256.G2).ScalarBaseMult(big.NewInt(int64(10 * (g + 1))))
		shares := map[group.MemberIndex]*bn256.G2{}
		for m := 1; m <= members; m++ {
			shares[group.MemberIndex(m)] = new(bn256.G2).ScalarBaseMult(big.NewInt(int64(100*(g+1) + m)))
		}
		var ss []*dkg.ThresholdSigner
		var bs [][]byte
		for m := 1; m <= members; m++ {
			s := dkg.NewThresholdSigner(group.MemberIndex(m), gpk, big.NewInt(int64(7000+100*g+m)), shares, []chain.Address{"address1", "address2"})
			b, err := s.Marshal()
			if err != nil {
				t.Fatalf("marshal: %v", err)
			}
			ss = append(ss, s)
			bs = append(bs, b)
		}
		fx.keys = append(fx.keys, ss[0].GroupPublicKeyBytes())
		fx.signers = append(fx.signers, ss)
		fx.bytes = append(fx.bytes, bs)
	}
	return fx
}

// c38CanonSigner re-encodes a marshalled ThresholdSigner deterministically: the message
// has a protobuf map field (public key shares) whose wire order is not fixed, so two
// encodings of the same signer may differ byte-wise.
func c38CanonSigner(b []byte) string {
	var m pb.ThresholdSigner
	if err := proto.Unmarshal(b, &m); err != nil {
		return "undecodable:" + err.Error()
	}
	out, err := proto.MarshalOptions{Deterministic: true}.Marshal(&m)
	if err != nil {
		return "unencodable:" + err.Error()
	}
	return string(out)
}

// c38Chain answers IsStaleGroup as the current operation says.
type c38Chain struct {
	fx    *c38Fixtures
	stale [2]int
	asked []int
}

func (c *c38Chain) OnGroupRegistered(func(groupRegistration *event.GroupRegistration)) subscription.EventSubscription {
	panic("not used")
}
func (c *c38Chain) IsGroupRegistered(groupPublicKey []byte) (bool, error) { panic("not used") }
func (c *c38Chain) IsStaleGroup(groupPublicKey []byte) (bool, error) {
	for g, k := range c.fx.keys {
		if bytes.Equal(k, groupPublicKey) {
			c.asked = append(c.asked, g)
			switch c.stale[g] {
			case c38Stale:
				return true, nil
			case c38ChainErr:
				return false, errors.New("chain error")
			}
			return false, nil
		}
	}
	return false, errors.New("unknown group")
}

// The instrumented registry asks vsched.MapChooser (a process-global hook) for the
// iteration order of its group map. Histories are replayed on several goroutines at
// once, so the hook looks the answer up by the calling goroutine: UnregisterStaleGroups
// ranges over the map on the goroutine that called it.
var c38Orders sync.Map // goroutine id -> permutation index

func c38GID() int64 {
	var buf [64]byte
	n := runtime.Stack(buf[:], false)
	f := strings.Fields(string(buf[:n]))
	if len(f) < 2 {
		return -1
	}
	id, _ := strconv.ParseInt(f[1], 10, 64)
	return id
}

func c38MapChooser(n int, label string) int {
	if v, ok := c38Orders.Load(c38GID()); ok && v.(int) < n {
		return v.(int)
	}
	return 0
}

type c38World struct {
	fx        *c38Fixtures
	disk      *c38Disk
	chain     *c38Chain
	reg       *Groups
	model     map[[2]int]bool
	last      string
	lastFired bool
}

func (w *c38World) boot() {
	w.disk.arm(c38Fault{})
	w.reg = NewGroupRegistry(&testutils.MockLogger{}, w.chain, w.disk)
	w.reg.LoadExistingGroups()
}

func (w *c38World) modelGroups() []int {
	seen := map[int]bool{}
	for k := range w.model {
		seen[k[0]] = true
	}
	var gs []int
	for g := range seen {
		gs = append(gs, g)
	}
	sort.Ints(gs)
	return gs
}

// due returns the groups an unregister operation has to archive, in the order the
// registry meets them: the registry's map keys ascending, permuted by op.Order.
func (w *c38World) due(op c38Op) []int {
	present := w.modelGroups()
	sort.Slice(present, func(i, j int) bool {
		return hex.EncodeToString(w.fx.keys[present[i]]) < hex.EncodeToString(w.fx.keys[present[j]])
	})
	if len(present) == 2 && op.Order == 1 {
		present[0], present[1] = present[1], present[0]
	}
	var out []int
	for _, g := range present {
		if g != op.Latest && op.Stale[g] == c38Stale {
			out = append(out, g)
		}
	}
	return out
}

func (w *c38World) apply(op c38Op) (problem string) {
	w.lastFired = false
	if op.Kind == c38Restart {
		w.last = "restart"
		w.boot()
		return ""
	}
	var due []int
	if op.Kind == c38Unregister {
		due = w.due(op)
		w.chain.stale = op.Stale
		gid := c38GID()
		c38Orders.Store(gid, op.Order)
		defer c38Orders.Delete(gid)
	}
	w.disk.arm(op.Fault)
	var err error
	p, stack := vrep.Guard(func() {
		switch op.Kind {
		case c38Register:
			err = w.reg.RegisterGroup(w.fx.signers[op.Group][op.Member-1], fmt.Sprintf("channel-%d", op.Group))
		case c38Unregister:
			var latest []byte
			if op.Latest >= 0 {
				latest = w.fx.keys[op.Latest]
			} else {
				latest = []byte{0x01, 0x02}
			}
			w.reg.UnregisterStaleGroups(latest)
		}
	})
	w.lastFired = w.disk.fired
	crashed := false
	if p != nil {
		if _, ok := p.(c38Crash); !ok {
			return fmt.Sprintf("%s panicked: %v\n%s", op, p, stack)
		}
		crashed = true
	}
	switch op.Kind {
	case c38Register:
		applied := false
		switch {
		case crashed:
			applied = op.Fault.Kind == c38CrashAfter
		case err == nil:
			applied = true
		}
		if applied {
			w.model[[2]int{op.Group, op.Member}] = true
		}
	case c38Unregister:
		// the k-th mutating storage call belongs to the k-th due group
		for i, g := range due {
			k := i + 1
			archived := true
			if op.Fault.Kind != c38None {
				switch {
				case k == op.Fault.At:
					archived = op.Fault.Kind == c38CrashAfter
				case k > op.Fault.At:
					archived = op.Fault.Kind == c38Err // a crash ends the operation, an error does not
				}
			}
			if archived {
				for key := range w.model {
					if key[0] == g {
						delete(w.model, key)
					}
				}
			}
		}
	}
	switch {
	case crashed:
		w.last = op.Kind + ":" + c38FaultName[op.Fault.Kind]
	case w.lastFired:
		w.last = op.Kind + ":storage-error"
	case err != nil:
		w.last = op.Kind + ":refused"
	case op.Kind == c38Unregister:
		w.last = fmt.Sprintf("%s:archived-%d", op.Kind, len(due))
	default:
		w.last = op.Kind + ":ok"
	}
	if crashed {
		w.boot()
	}
	return ""
}

func (w *c38World) modelCanon() string {
	var s []string
	for k := range w.model {
		s = append(s, fmt.Sprintf("g%dm%d", k[0], k[1]))
	}
	sort.Strings(s)
	return strings.Join(s, ",")
}

func (w *c38World) liveCanon() string {
	var s []string
	for key, ms := range w.reg.myGroups {
		var ids []string
		for _, m := range ms {
			ids = append(ids, fmt.Sprint(m.Signer.MemberID()))
		}
		s = append(s, c38Short(key)+"["+strings.Join(ids, " ")+"]")
	}
	sort.Strings(s)
	return strings.Join(s, ",")
}

// restartedKnowsExactly builds a fresh registry over the storage (read-only) and
// compares it with the reference model.
func (w *c38World) restartedKnowsExactly() string {
	w.disk.arm(c38Fault{})
	var reg *Groups
	p, stack := vrep.Guard(func() {
		reg = NewGroupRegistry(&testutils.MockLogger{}, w.chain, w.disk)
		reg.LoadExistingGroups()
	})
	if p != nil {
		return fmt.Sprintf("restart panicked: %v\n%s", p, stack)
	}
	for g, key := range w.fx.keys {
		got := map[int][]byte{}
		for _, ms := range reg.GetGroup(key) {
			m := int(ms.Signer.MemberID())
			if _, dup := got[m]; dup {
				return fmt.Sprintf("after restart group %d has member %d twice", g, m)
			}
			if !bytes.Equal(ms.Signer.GroupPublicKeyBytes(), key) {
				return fmt.Sprintf("after restart GetGroup(group %d) returns a membership of another group", g)
			}
			b, err := ms.Signer.Marshal()
			if err != nil {
				return fmt.Sprintf("after restart signer (g%d,m%d) cannot be marshalled: %v", g, m, err)
			}
			got[m] = b
		}
		for m := 1; m <= len(w.fx.signers[g]); m++ {
			want := w.model[[2]int{g, m}]
			b, have := got[m]
			switch {
			case want && !have:
				return fmt.Sprintf("after restart the node does not know membership (group %d, member %d) that was persisted and not archived", g, m)
			case !want && have:
				return fmt.Sprintf("after restart the node knows membership (group %d, member %d) that was archived or never persisted", g, m)
			case want && c38CanonSigner(b) != c38CanonSigner(w.fx.bytes[g][m-1]):
				return fmt.Sprintf("after restart membership (group %d, member %d) has different key material", g, m)
			}
		}
		for m := range got {
			if m < 1 || m > len(w.fx.signers[g]) {
				return fmt.Sprintf("after restart group %d has an unknown member %d", g, m)
			}
		}
	}
	total := 0
	for _, ms := range reg.myGroups {
		total += len(ms)
	}
	if total != len(w.model) {
		return fmt.Sprintf("after restart the node holds %d memberships, %d were persisted and not archived", total, len(w.model))
	}
	return ""
}

func c38Run(fx *c38Fixtures, history []c38Op) (w *c38World, kind, problem string) {
	w = &c38World{fx: fx, disk: newC38Disk(), chain: &c38Chain{fx: fx}, model: map[[2]int]bool{}}
	w.boot()
	for _, op := range history {
		if p := w.apply(op); p != "" {
			return w, "operation", p
		}
	}
	if s := w.restartedKnowsExactly(); s != "" {
		return w, "restart", s
	}
	return w, "", ""
}

func c38HistoryString(h []c38Op) string {
	var s []string
	for _, o := range h {
		s = append(s, o.String())
	}
	return strings.Join(s, " ; ")
}

// c38Successors lists the operations worth executing in the state reached by a history
// (pruned by the reference model: chain answers for groups the node is not in, or for
// the latest group, do not matter and are fixed to not-stale; the iteration order only
// matters when a fault hits one of two archivals).
func c38Successors(w *c38World, groups, members int) []c38Op {
	var out []c38Op
	regFaults := []c38Fault{{}, {c38Err, 1}, {c38CrashBefore, 1}, {c38CrashAfter, 1}, {c38Err, 2}, {c38CrashBefore, 2}, {c38CrashAfter, 2}}
	for g := 0; g < groups; g++ {
		for m := 1; m <= members; m++ {
			for _, f := range regFaults {
				out = append(out, c38Op{Kind: c38Register, Group: g, Member: m, Fault: f})
			}
		}
	}
	present := map[int]bool{}
	for _, g := range w.modelGroups() {
		present[g] = true
	}
	for latest := -1; latest < groups; latest++ {
		if latest >= 0 && !present[latest] {
			continue
		}
		for s0 := 0; s0 < 3; s0++ {
			for s1 := 0; s1 < 3; s1++ {
				st := [2]int{s0, s1}
				canonical := true
				for g := 0; g < groups; g++ {
					if (!present[g] || g == latest) && st[g] != c38NotStale {
						canonical = false
					}
				}
				if !canonical {
					continue
				}
				base := c38Op{Kind: c38Unregister, Latest: latest, Stale: st}
				nDue := len(w.due(base))
				out = append(out, base)
				for k := 1; k <= nDue+1; k++ {
					for _, kind := range []int{c38Err, c38CrashBefore, c38CrashAfter} {
						orders := 1
						if nDue == 2 {
							orders = 2
						}
						for o := 0; o < orders; o++ {
							op := base
							op.Fault = c38Fault{kind, k}
							op.Order = o
							out = append(out, op)
						}
					}
				}
			}
		}
	}
	out = append(out, c38Op{Kind: c38Restart})
	return out
}

func TestVerifC38Beacon(t *testing.T) {
	r := vrep.Start(t, "C38", "beacon")
	defer r.Finish()
	const groups, members = 2, 2
	fx := c38Load(t, groups, members)
	report := func(h []c38Op, kind, problem string, w *c38World) {
		r.ViolationMin("beacon:"+kind, len(h), "beacon "+c38HistoryString(h), problem+" [storage log: "+strings.Join(w.disk.log, " | ")+"]", h)
	}
	if rd := r.ReplayData(); rd != nil {
		var h []c38Op
		if json.Unmarshal(rd, &h) == nil && len(h) > 0 && (h[0].Kind == c38Register || h[0].Kind == c38Unregister || h[0].Kind == c38Restart) {
			w, kind, problem := c38Run(fx, h)
			r.Eval(1)
			if problem != "" {
				report(h, kind, problem, w)
			}
			t.Logf("replay %s\nmodel=%s live=%s disk=%s\n%s", c38HistoryString(h), w.modelCanon(), w.liveCanon(), w.disk.canon(), strings.Join(w.disk.log, "\n"))
		}
		return
	}
	depth := 4
	if r.Thorough() {
		depth = 6
	}
	vsched.MapChooser = c38MapChooser
	defer func() { vsched.MapChooser = nil }()
	frontier := [][]c38Op{nil}
	r.State("||")
	for d := 1; d <= depth && len(frontier) > 0; d++ {
		type succ struct {
			h   []c38Op
			key string
		}
		results := make([][]succ, len(frontier))
		vrep.Parallel(vrep.Workers(), len(frontier), func(i int) {
			if r.Expired() {
				return
			}
			hist := frontier[i]
			base, _, problem := c38Run(fx, hist)
			if problem != "" {
				return // reported when it was reached
			}
			for _, op := range c38Successors(base, groups, members) {
				h := append(append([]c38Op{}, hist...), op)
				w, kind, problem := c38Run(fx, h)
				if op.Fault.Kind != c38None && !w.lastFired && problem == "" {
					continue // fewer storage calls than the fault position: fault-free again
				}
				r.Eval(1)
				r.Transition(1)
				r.Outcome(w.last)
				if problem != "" {
					report(h, kind, problem, w)
					continue
				}
				if op.Fault.Kind != c38None || op.Kind != c38Register {
					r.Distinct(c38HistoryString(h))
				}
				results[i] = append(results[i], succ{h, w.disk.canon() + "|" + w.liveCanon() + "|" + w.modelCanon()})
			}
		})
		var next [][]c38Op
		for _, rs := range results {
			for _, x := range rs {
				if r.State(x.key) {
					next = append(next, x.h)
				}
			}
		}
		r.Set(fmt.Sprintf("depth%d_new_states", d), fmt.Sprint(len(next)))
		frontier = next
		if r.Expired() {
			break
		}
	}
	if len(frontier) > 0 {
		r.Set("frontier_left_at_depth_bound", fmt.Sprint(len(frontier)))
	} else {
		r.Set("fixpoint", "state space closed before the depth bound")
	}
	r.Set("depth_bound", fmt.Sprint(depth))
	r.Sample(map[string]any{"example_history": c38HistoryString([]c38Op{{Kind: c38Register, Group: 0, Member: 1}, {Kind: c38Register, Group: 1, Member: 2, Fault: c38Fault{c38CrashAfter, 1}}, {Kind: c38Unregister, Latest: -1, Stale: [2]int{c38Stale, c38Stale}, Order: 1, Fault: c38Fault{c38CrashBefore, 2}}, {Kind: c38Restart}})})
}
