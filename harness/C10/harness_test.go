//go:build verif

package tbtc

import (
	"encoding/json"
	"fmt"
	"math/big"
	"sort"
	"testing"

	"github.com/keep-network/keep-core/internal/testutils"
	"github.com/keep-network/keep-core/pkg/chain"
	"github.com/keep-network/keep-core/pkg/protocol/group"
	"github.com/keep-network/keep-core/pkg/verifshim/venum"
	"github.com/keep-network/keep-core/pkg/verifshim/vrep"
)

// c10Case is one selection: a wallet layout (operator of every seat, one letter per
// seat), the threshold (signing) or quorum (dkg), the attempt number, the message /
// seed value and two (member, ready list order) pairs that must agree. Ready lists are
// strings of seat digits ("3142" = seats 3,1,4,2 reported in that order).
type c10Case struct {
	Kind    string `json:"kind"` // signing | dkg
	Layout  string `json:"layout"`
	Need    int    `json:"need"`
	Attempt uint   `json:"attempt"`
	Msg     int64  `json:"msg"`
	MemberA int    `json:"member_a"`
	ReadyA  string `json:"ready_a"`
	MemberB int    `json:"member_b"`
	ReadyB  string `json:"ready_b"`
}

var c10Names = []chain.Address{"0xB1", "0xa2", "0xC3", "0xA4"} // raw string order: A4 < B1 < C3 < a2

func c10Operators(layout string) chain.Addresses {
	out := make(chain.Addresses, len(layout))
	for i := range layout {
		out[i] = c10Names[layout[i]-'A']
	}
	return out
}

func c10Ready(s string) []group.MemberIndex {
	out := make([]group.MemberIndex, len(s))
	for i := range s {
		out[i] = group.MemberIndex(s[i] - '0')
	}
	return out
}

func c10Mask(m []group.MemberIndex) uint {
	var x uint
	for _, i := range m {
		x |= 1 << uint(i)
	}
	return x
}

func c10Bits(x uint) int {
	n := 0
	for ; x != 0; x &= x - 1 {
		n++
	}
	return n
}

// c10Select runs the real selection of one member. Returns the excluded set as a
// bit mask (bit i = seat i), whether the list had duplicates / out-of-range entries,
// and the error of the selection.
type c10Result struct {
	excluded uint
	malformed string
	err       error
	panicked  any
}

func c10Select(kind, layout string, need int, attempt uint, msg int64, member int, ready string) (res c10Result) {
	ops := c10Operators(layout)
	n := len(layout)
	rd := c10Ready(ready)
	var excluded []group.MemberIndex
	p, _ := vrep.Guard(func() {
		if kind == "signing" {
			srl := newSigningRetryLoop(&testutils.MockLogger{}, big.NewInt(msg), 100, group.MemberIndex(member), ops,
				// the wallet is one seat smaller than the nominal group size (members
				// that misbehaved in DKG are not part of the wallet)
				&GroupParameters{GroupSize: n + 1, GroupQuorum: n, HonestThreshold: need}, nil, nil)
			srl.attemptCounter = attempt
			excluded, res.err = srl.performMembersSelection(rd)
		} else {
			drl := newDkgRetryLoop(&testutils.MockLogger{}, big.NewInt(msg), 100, group.MemberIndex(member), ops,
				&GroupParameters{GroupSize: n, GroupQuorum: need, HonestThreshold: need}, nil, 0)
			drl.attemptCounter = attempt
			excluded, res.err = drl.performMembersSelection(rd)
		}
	})
	res.panicked = p
	for i := range rd {
		if rd[i] != group.MemberIndex(ready[i]-'0') {
			res.malformed = "the ready list passed in was modified"
		}
	}
	seen := uint(0)
	for _, e := range excluded {
		if e < 1 || int(e) > n {
			res.malformed = fmt.Sprintf("excluded list %v has an index outside 1..%d", excluded, n)
			continue
		}
		if seen&(1<<uint(e)) != 0 {
			res.malformed = fmt.Sprintf("excluded list %v has a duplicate", excluded)
		}
		seen |= 1 << uint(e)
	}
	res.excluded = seen
	return res
}

func c10Set(x uint) string {
	s := ""
	for i := 1; i < 16; i++ {
		if x&(1<<uint(i)) != 0 {
			s += string(rune('0' + i))
		}
	}
	return "{" + s + "}"
}

// c10Single checks the clauses that concern one result (member, ready list) of case c
// and returns its outcome class.
func c10Single(r *vrep.R, c c10Case, member int, ready string, res c10Result) string {
	n := len(c.Layout)
	all := uint(0)
	for i := 1; i <= n; i++ {
		all |= 1 << uint(i)
	}
	size := n*100000 + len(ready)*1000 + int(c.Attempt)*10
	report := func(kind, what string) {
		one := c
		one.MemberA, one.ReadyA, one.MemberB, one.ReadyB = member, ready, member, ready
		fp := fmt.Sprintf("%s layout=%s need=%d attempt=%d msg=%d member=%d ready=%s", c.Kind, c.Layout, c.Need, c.Attempt, c.Msg, member, ready)
		r.ViolationMin(c.Kind+":"+kind, size, fp, fmt.Sprintf("member %d with ready list %s: ", member, ready)+what, one)
	}
	readyMask := c10Mask(c10Ready(ready))
	if res.panicked != nil {
		report("panic", fmt.Sprintf("selection panicked: %v", res.panicked))
		return c.Kind + ":panic"
	}
	if res.malformed != "" {
		report("malformed", res.malformed)
	}
	if res.err != nil {
		if c.Kind == "signing" {
			// the ready set has at least the threshold: the signing selection has no
			// reason to fail
			report("error", fmt.Sprintf("selection failed although %d >= %d members are ready: %v", c10Bits(readyMask), c.Need, res.err))
		}
		return c.Kind + ":error"
	}
	included := all &^ res.excluded
	if included&^readyMask != 0 {
		report("unready-included", fmt.Sprintf("included %s contains members that are not ready", c10Set(included)))
	}
	if c.Kind == "signing" {
		if c10Bits(included) != c.Need {
			report("count", fmt.Sprintf("%d members included %s, the honest threshold is %d", c10Bits(included), c10Set(included), c.Need))
		}
		return "signing:ready-surplus=" + string(rune('0'+c10Bits(readyMask)-c.Need))
	}
	if c10Bits(included) < c.Need {
		report("below-quorum", fmt.Sprintf("selection succeeded with %d members %s, below the quorum %d", c10Bits(included), c10Set(included), c.Need))
	}
	// included = ready members of a set of (qualified) operators: an operator with an
	// included seat has all its ready seats included
	var opsIn, opsReady [8]bool
	for s := 1; s <= n; s++ {
		if included&(1<<uint(s)) != 0 {
			opsIn[c.Layout[s-1]-'A'] = true
		}
		if readyMask&(1<<uint(s)) != 0 {
			opsReady[c.Layout[s-1]-'A'] = true
		}
	}
	want := uint(0)
	for s := 1; s <= n; s++ {
		if readyMask&(1<<uint(s)) != 0 && opsIn[c.Layout[s-1]-'A'] {
			want |= 1 << uint(s)
		}
	}
	if want != included {
		report("not-operator-closed", fmt.Sprintf("included %s is not the set of ready members of a set of operators (would be %s)", c10Set(included), c10Set(want)))
	}
	dropped := 0
	for i := range opsIn {
		if opsReady[i] && !opsIn[i] {
			dropped++
		}
	}
	return "dkg:operators-dropped=" + string(rune('0'+dropped))
}

// c10Agree checks that the two results of case c are the same selection.
func c10Agree(r *vrep.R, c c10Case, ra, rb c10Result) {
	if ra.panicked != nil || rb.panicked != nil {
		return
	}
	size := len(c.Layout)*100000 + len(c.ReadyA)*1000 + int(c.Attempt)*10
	if (ra.err == nil) == (rb.err == nil) && (ra.err != nil || ra.excluded == rb.excluded) {
		return
	}
	fp := fmt.Sprintf("%s layout=%s need=%d attempt=%d msg=%d A=%d/%s B=%d/%s", c.Kind, c.Layout, c.Need, c.Attempt, c.Msg, c.MemberA, c.ReadyA, c.MemberB, c.ReadyB)
	if (ra.err == nil) != (rb.err == nil) {
		r.ViolationMin(c.Kind+":disagree", size, fp, fmt.Sprintf("member %d (ready %s) got error %v, member %d (ready %s) got error %v", c.MemberA, c.ReadyA, ra.err, c.MemberB, c.ReadyB, rb.err), c)
	} else if ra.err == nil && ra.excluded != rb.excluded {
		r.ViolationMin(c.Kind+":disagree", size, fp, fmt.Sprintf("member %d (ready %s) excludes %s, member %d (ready %s) excludes %s", c.MemberA, c.ReadyA, c10Set(ra.excluded), c.MemberB, c.ReadyB, c10Set(rb.excluded)), c)
	}
}

// c10Check evaluates one written-out case (both results) from scratch.
func c10Check(r *vrep.R, c c10Case) {
	ra := c10Select(c.Kind, c.Layout, c.Need, c.Attempt, c.Msg, c.MemberA, c.ReadyA)
	rb := c10Select(c.Kind, c.Layout, c.Need, c.Attempt, c.Msg, c.MemberB, c.ReadyB)
	c10Single(r, c, c.MemberA, c.ReadyA, ra)
	c10Single(r, c, c.MemberB, c.ReadyB, rb)
	c10Agree(r, c, ra, rb)
}

type c10Work struct {
	kind   string
	layout string
	need   int
}

func TestVerifC10(t *testing.T) {
	r := vrep.Start(t, "C10", "select")
	defer r.Finish()
	if rd := r.ReplayData(); rd != nil {
		var c c10Case
		if json.Unmarshal(rd, &c) == nil && c.Layout != "" {
			c10Check(r, c)
		}
		return
	}
	// (seats, operators) pairs: every layout of that many seats over that many names
	type dim struct{ seats, ops int }
	dims := []dim{{2, 4}, {3, 4}, {4, 4}, {5, 3}}
	attempts, msgs := uint(3), []int64{100}
	allNeeds := false
	if r.Thorough() {
		dims = []dim{{2, 4}, {3, 4}, {4, 4}, {5, 4}, {6, 3}}
		attempts, msgs = 4, []int64{100, 1 << 40}
		allNeeds = true
	}
	var work []c10Work
	for _, d := range dims {
		var gen func(p string)
		gen = func(p string) {
			if len(p) == d.seats {
				lo := d.seats/2 + 1
				if allNeeds && d.seats <= 5 {
					lo = 2 // also thresholds below the majority: larger surplus to trim
				}
				for need := lo; need <= d.seats; need++ {
					if need == d.seats && d.seats > 2 {
						continue // only the full set is ready: nothing to select
					}
					work = append(work, c10Work{"signing", p, need}, c10Work{"dkg", p, need})
				}
				return
			}
			for o := 0; o < d.ops; o++ {
				gen(p + string(rune('A'+o)))
			}
		}
		gen("")
	}
	r.Set("layout_need_pairs", len(work))
	r.Sample(c10Case{"signing", "ABCAB", 3, 2, 100, 1, "12345", 4, "53142"})
	r.Sample(c10Case{"dkg", "ABCAB", 3, 2, 100, 1, "1245", 2, "5421"})

	vrep.Parallel(vrep.Workers(), len(work), func(wi int) {
		if r.Expired() {
			return
		}
		w := work[wi]
		n := len(w.layout)
		nops := map[byte]bool{}
		for i := range w.layout {
			nops[w.layout[i]] = true
		}
		evals := 0
		classes := map[string]int{}
		venum.Subsets(n, func(mask uint) bool {
			if c10Bits(mask) < w.need {
				return true
			}
			var seats []int
			sorted := ""
			for s := 1; s <= n; s++ {
				if mask&(1<<uint(s-1)) != 0 {
					seats = append(seats, s)
					sorted += string(rune('0' + s))
				}
			}
			// every order of the ready list
			var orders []string
			venum.Perms(len(seats), func(p []int) bool {
				o := make([]byte, len(p))
				for i, k := range p {
					o[i] = byte('0' + seats[k])
				}
				orders = append(orders, string(o))
				return true
			})
			for att := uint(1); att <= attempts; att++ {
				for _, msg := range msgs {
					base := c10Case{w.kind, w.layout, w.need, att, msg, 1, sorted, 1, sorted}
					ref := c10Select(w.kind, w.layout, w.need, att, msg, 1, sorted)
					classes[c10Single(r, base, 1, sorted, ref)]++
					evals++
					// every other member with the sorted list against member 1
					for m := 2; m <= n; m++ {
						c := base
						c.MemberB = m
						res := c10Select(w.kind, w.layout, w.need, att, msg, m, sorted)
						c10Single(r, c, m, sorted, res)
						c10Agree(r, c, ref, res)
						evals++
					}
					// every order (reported to a rotating member) against member 1 / sorted
					for k, o := range orders {
						if o == sorted {
							continue
						}
						c := base
						c.MemberB, c.ReadyB = 1+k%n, o
						res := c10Select(w.kind, w.layout, w.need, att, msg, c.MemberB, o)
						c10Single(r, c, c.MemberB, o, res)
						c10Agree(r, c, ref, res)
						evals++
					}
					if len(nops) >= 2 {
						r.Distinct(fmt.Sprintf("%s|%s|%d|%s|%d|%d", w.kind, w.layout, w.need, sorted, att, msg))
					}
				}
			}
			return true
		})
		var ks []string
		for k := range classes {
			ks = append(ks, k)
		}
		sort.Strings(ks)
		for _, k := range ks {
			for i := 0; i < classes[k]; i++ {
				r.Outcome(k)
			}
		}
		r.Eval(evals)
	})
}
