//go:build verif

package tbtc

import (
	"context"
	"encoding/json"
	"fmt"
	"sort"
	"testing"

	"github.com/keep-network/keep-core/pkg/verifshim/vctx"
	"github.com/keep-network/keep-core/pkg/verifshim/vrep"
	"github.com/keep-network/keep-core/pkg/verifshim/vsched"
)

// c23Scenario fixes the alphabet and the stream bound of one exploration; the stream
// itself, the cancellation point and the blocks offered after cancellation are explorer
// choices inside the body.
type c23Scenario struct {
	Alphabet  []uint64 `json:"alphabet"`
	MaxLen    int      `json:"max_len"`
	PostBlock int      `json:"post_cancel_blocks"` // blocks still offered after cancel()
	// Closes: how many times the block source may close its channel (a dropped blocks
	// subscription). A watcher that asks watchBlocksFn again gets a fresh channel on which
	// the stream continues; one that keeps reading the closed channel spins, which ends
	// the execution through the loop budget (liveness is not in the statement).
	Closes int `json:"closes,omitempty"`
}

// c23LoopBudget bounds the iterations of the watcher's loop in a scenario with closes: a
// healthy execution needs one per block handed over plus a few.
const c23LoopBudget = 40

type c23Call struct {
	thread int // logical thread id of the callback goroutine = dispatch order
	block  uint64
}

type c23Obs struct {
	handed    []uint64 // blocks the watcher took from the channel, in order
	postTaken int      // how many of them were taken after cancel() had returned
	calls     []c23Call
	cancelAt  int // number of blocks handed over when cancel() was called
	returned  bool
	closes    int // channels closed by the block source
	subs      int // calls of watchBlocksFn
}

func c23Body(sc c23Scenario, obs *c23Obs) func() {
	return func() {
		*obs = c23Obs{cancelAt: -1}
		ctx, cancel := vctx.WithCancel(context.Background())
		blocks := make(chan uint64)
		first := true
		watchBlocksFn := func(context.Context) <-chan uint64 {
			obs.subs++
			if !first {
				blocks = make(chan uint64)
			}
			first = false
			return blocks
		}
		vsched.ResetLoops(0)
		if sc.Closes > 0 {
			vsched.ResetLoops(c23LoopBudget)
		}
		onWindowFn := func(w *coordinationWindow) {
			obs.calls = append(obs.calls, c23Call{vsched.ThreadID(), w.coordinationBlock})
		}
		vsched.GoDaemon("watcher", func() {
			watchCoordinationWindows(ctx, watchBlocksFn, onWindowFn)
			obs.returned = true
		})
		n := len(sc.Alphabet)
		// the block source: any finite stream over the alphabet, then cancellation
		for i := 0; i < sc.MaxLen; i++ {
			menu := n + 1
			if obs.closes < sc.Closes {
				menu++
			}
			k := vsched.Choose(menu, "block")
			if k == n {
				break
			}
			if k == n+1 {
				// the subscription is dropped (there must be one first): the stream
				// continues once the watcher has subscribed again (never, if it does not)
				vsched.Block("watcher subscribes", func() bool { return obs.subs >= 1 })
				vsched.Close(blocks)
				obs.closes++
				want := obs.subs + 1
				vsched.Block("watcher subscribes again", func() bool { return obs.subs >= want })
				continue
			}
			vsched.Send(blocks, sc.Alphabet[k])
			obs.handed = append(obs.handed, sc.Alphabet[k])
		}
		cancel()
		obs.cancelAt = len(obs.handed)
		// a block source races with cancellation: it may still offer blocks until it
		// notices that the context is done
		for i := 0; i < sc.PostBlock; i++ {
			k := vsched.Choose(n+1, "late-block")
			if k == n {
				break
			}
			if vsched.Select(false, vsched.W(blocks, sc.Alphabet[k]), vsched.R(ctx.Done())) != 0 {
				break
			}
			obs.handed = append(obs.handed, sc.Alphabet[k])
			obs.postTaken++
		}
	}
}

func TestVerifC23(t *testing.T) {
	r := vrep.Start(t, "C23", "sched")
	defer r.Finish()
	type replay struct {
		Scenario c23Scenario `json:"scenario"`
		Choices  []int       `json:"choices"`
		Bound    int         `json:"bound"`
	}
	var obs c23Obs
	evaluate := func(sc c23Scenario, bound int, s *vsched.Sched) {
		r.Eval(1)
		rp := replay{sc, s.Choices(), bound}
		fail := func(kind, what string) {
			r.ViolationMin(kind, len(obs.handed)*100+len(s.Choices()), fmt.Sprintf("%s stream=%v cancel-after=%d", kind, obs.handed, obs.cancelAt),
				fmt.Sprintf("block stream %v (cancel() after %d blocks): %s [schedule %s]", obs.handed, obs.cancelAt, what, s.Trace()), rp)
		}
		spinning := false
		if p, stack := s.Failed(); p != nil {
			if _, spin := p.(vsched.LoopBudgetExceeded); spin && obs.closes > 0 {
				// the watcher keeps reading a closed channel; what it started so far is
				// still judged below
				spinning = true
			} else {
				fail("panic", fmt.Sprintf("panic: %v\n%s", p, stack))
				return
			}
		}
		if s.StepCapHit {
			r.Cap("step-cap")
			return
		}
		// dispatch order = order in which the watcher executed `go onWindowFn(window)`:
		// logical thread ids are handed out at spawn time
		disp := append([]c23Call{}, obs.calls...)
		sort.SliceStable(disp, func(i, j int) bool { return disp[i].thread < disp[j].thread })
		inOrder := true
		for i := range disp {
			if disp[i] != obs.calls[i] {
				inOrder = false
			}
		}
		offered := map[uint64]int{}
		for _, b := range obs.handed {
			offered[b]++
		}
		var last uint64
		var started []uint64
		for _, c := range disp {
			started = append(started, c.block)
		}
		for i, c := range disp {
			switch {
			case c.block == 0 || c.block%coordinationFrequencyBlocks != 0:
				fail("not-a-window", fmt.Sprintf("coordination started for block %d which is not a positive multiple of %d (started: %v)", c.block, coordinationFrequencyBlocks, started))
			case offered[c.block] == 0:
				fail("never-observed", fmt.Sprintf("coordination started for block %d which was never observed (started: %v)", c.block, started))
			case i > 0 && c.block == last:
				fail("twice", fmt.Sprintf("coordination started twice for window %d (started: %v)", c.block, started))
			case i > 0 && c.block < last:
				fail("earlier-window", fmt.Sprintf("coordination started for window %d after window %d had been started (started: %v)", c.block, last, started))
			}
			if i == 0 || c.block > last {
				last = c.block
			}
		}
		// states of the watcher as observable from outside: the newest window started
		// so far and whether it is running / cancelled / returned; one transition per
		// block taken plus cancellation and return
		st, di := uint64(0), 0
		r.State("last=0 running")
		for i, b := range obs.handed {
			if i == obs.cancelAt {
				r.State(fmt.Sprintf("last=%d cancelled", st))
			}
			if di < len(started) && started[di] == b && b%coordinationFrequencyBlocks == 0 && b > st {
				st = b
				di++
			}
			phase := "running"
			if i >= obs.cancelAt {
				phase = "cancelled"
			}
			r.State(fmt.Sprintf("last=%d %s", st, phase))
		}
		if obs.returned {
			r.State(fmt.Sprintf("last=%d returned", st))
		}
		r.Transition(len(obs.handed) + 2)
		nontrivial := 0
		for _, b := range obs.handed {
			if b > 0 && b%coordinationFrequencyBlocks == 0 {
				nontrivial++
			}
		}
		if nontrivial >= 2 {
			r.Distinct(fmt.Sprintf("%v|%d|%v", obs.handed, obs.cancelAt, s.Choices()))
		}
		cls := fmt.Sprintf("started=%d", len(started))
		if !inOrder {
			cls += " callbacks-ran-out-of-dispatch-order"
		}
		if obs.postTaken > 0 {
			cls += " block-taken-after-cancel"
		}
		if obs.closes > 0 {
			cls += fmt.Sprintf(" closes=%d resubscribed=%d", obs.closes, obs.subs-1)
		}
		if spinning {
			cls += " watcher-spins-on-closed-channel"
			r.Add("watcher_spins_on_closed_channel", 1)
		} else if !obs.returned {
			cls += " watcher-not-returned"
			r.Add("watcher_not_returned_after_cancel", 1)
		}
		r.Outcome(cls)
	}
	if rd := r.ReplayData(); rd != nil {
		var rp replay
		if json.Unmarshal(rd, &rp) == nil && len(rp.Scenario.Alphabet) > 0 {
			s := vsched.Replay(rp.Choices, vsched.Options{Bound: rp.Bound}, c23Body(rp.Scenario, &obs))
			evaluate(rp.Scenario, rp.Bound, s)
		}
		return
	}
	type run struct {
		sc    c23Scenario
		bound int
	}
	full := []uint64{899, 900, 901, 1800, 1799, 2700, 0, 450}
	small := []uint64{900, 899, 1800, 2700, 0, 1799}
	tiny := []uint64{900, 1800, 899, 0}
	runs := []run{
		{c23Scenario{small, 4, 1, 0}, 0},
		{c23Scenario{small, 3, 1, 0}, 1},
		{c23Scenario{tiny, 3, 1, 0}, 2},
		{c23Scenario{tiny, 4, 0, 1}, 1},
	}
	if r.Thorough() {
		runs = []run{
			{c23Scenario{full, 5, 1, 0}, 0},
			{c23Scenario{full, 4, 1, 0}, 1},
			{c23Scenario{small, 3, 2, 0}, 2},
			{c23Scenario{tiny, 3, 1, 0}, 3},
			{c23Scenario{small, 5, 1, 2}, 1},
			{c23Scenario{tiny, 4, 1, 1}, 2},
		}
	}
	shard, shards := r.Shard()
	if shard == 0 {
		// determinism gate: one non-default script twice
		sc := runs[0].sc
		// (first block of the alphabet three times, then a late block: all default choices
		// except that the stream continues)
		first := vsched.Replay(nil, vsched.Options{Bound: 9}, c23Body(sc, &obs))
		script := first.Choices()
		a := vsched.Replay(script, vsched.Options{Bound: 9}, c23Body(sc, &obs))
		oa := fmt.Sprintf("%+v", obs)
		b := vsched.Replay(script, vsched.Options{Bound: 9}, c23Body(sc, &obs))
		if !vsched.SameRun(a, b) || oa != fmt.Sprintf("%+v", obs) {
			t.Fatalf("NONDETERMINISM: two runs of the same script differ:\n%s\n%+v", oa, obs)
		}
		r.ReplayedTwice(1)
		r.Sample(map[string]any{"scenario": sc, "script": a.Choices(), "observed": oa})
	}
	maxBound := 0
	for _, ru := range runs {
		sc := ru.sc
		for bound := 0; bound <= ru.bound; bound++ {
			if bound < ru.bound && shard != 0 {
				continue // lower bounds are subsumed; shard 0 runs them for the iteration report
			}
			st := vsched.Explore(vsched.Options{Bound: bound, Shard: shard, Shards: shards, Stop: r.Expired},
				c23Body(sc, &obs), func(s *vsched.Sched) { evaluate(sc, bound, s) })
			r.Set(fmt.Sprintf("a%d.len%d.post%d.closes%d.bound%d_execs", len(sc.Alphabet), sc.MaxLen, sc.PostBlock, sc.Closes, bound), st.Execs)
			if st.Stopped {
				r.Cap(fmt.Sprintf("alphabet %d len %d bound %d not completed", len(sc.Alphabet), sc.MaxLen, bound))
			}
			if r.Violations() > 0 {
				break
			}
		}
		if ru.bound > maxBound {
			maxBound = ru.bound
		}
	}
	if shard == 0 {
		r.Set("max_preemption_bound", maxBound)
	}
}
