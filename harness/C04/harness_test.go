//go:build verif

package altbn128

import (
	"bytes"
	"encoding/hex"
	"encoding/json"
	"fmt"
	"math/big"
	"testing"

	bn256 "github.com/ethereum/go-ethereum/crypto/bn256/cloudflare"
	"github.com/keep-network/keep-core/pkg/verifshim/vrep"
	"github.com/keep-network/keep-core/pkg/verifshim/vsched"
)

// c04Budget is the iteration budget (summed over all `for` loops of altbn128.go) of one
// call into the code under test. A legitimate DecompressToG2 needs 2 (x^3) + <=508
// (x^((p^2+15)/32), one iteration per exponent bit) + 16*(1+2) (root search: hexRoot has
// multiplicative order 16, checked by c04SanityF2, so a search that has not succeeded
// after 16 steps revisits the same 16 candidates forever) ~ 560 iterations.
const c04Budget = 2048

// c04Case is one unit of work and the replay payload of a violation.
type c04Case struct {
	Leg string `json:"leg"`          // rt1 rt2 dec1 dec2 hash
	K   string `json:"k,omitempty"`  // scalar, base 10 (rt legs)
	In  string `json:"in,omitempty"` // input bytes, hex (dec / hash legs)
	Tag string `json:"tag,omitempty"`
}

func (c c04Case) key() string { return c.Leg + "|" + c.K + "|" + c.In }

// ---------- reference arithmetic (independent of the code under test) ----------

var (
	c04P = bn256.P
	c04Q = bn256.Order
)

type c04F2 struct{ re, im *big.Int } // re + im*i, i^2 = -1

func c04Mod(x *big.Int) *big.Int { return new(big.Int).Mod(x, c04P) }

func c04Mul(a, b c04F2) c04F2 {
	rr := new(big.Int).Mul(a.re, b.re)
	ii := new(big.Int).Mul(a.im, b.im)
	ri := new(big.Int).Mul(a.re, b.im)
	ir := new(big.Int).Mul(a.im, b.re)
	return c04F2{c04Mod(rr.Sub(rr, ii)), c04Mod(ri.Add(ri, ir))}
}

func c04Add(a, b c04F2) c04F2 {
	return c04F2{c04Mod(new(big.Int).Add(a.re, b.re)), c04Mod(new(big.Int).Add(a.im, b.im))}
}

func c04Pow(a c04F2, e *big.Int) c04F2 {
	res := c04F2{big.NewInt(1), big.NewInt(0)}
	for i := e.BitLen() - 1; i >= 0; i-- {
		res = c04Mul(res, res)
		if e.Bit(i) == 1 {
			res = c04Mul(res, a)
		}
	}
	return res
}

func c04Eq(a, b c04F2) bool { return a.re.Cmp(b.re) == 0 && a.im.Cmp(b.im) == 0 }
func c04IsOne(a c04F2) bool { return a.re.Cmp(big.NewInt(1)) == 0 && a.im.Sign() == 0 }
func c04IsZero(a c04F2) bool { return a.re.Sign() == 0 && a.im.Sign() == 0 }

// twist constant b' of y^2 = x^3 + b' (the same published constant the package holds in
// twistB; written out again so that the reference does not read the package's variable)
var c04TwistB = c04F2{
	c04Dec("19485874751759354771024239261021720505790618469301721065564631296452457478373"),
	c04Dec("266929791119991161246907387137283842545076965332900288569378510910307636690"),
}

func c04Dec(s string) *big.Int {
	n, ok := new(big.Int).SetString(s, 10)
	if !ok {
		panic("bad constant")
	}
	return n
}

// c04IsSquareFp: Euler criterion in Fp (v != 0).
func c04IsSquareFp(v *big.Int) bool {
	e := new(big.Int).Rsh(new(big.Int).Sub(c04P, big.NewInt(1)), 1)
	return new(big.Int).Exp(v, e, c04P).Cmp(big.NewInt(1)) == 0
}

// c04IsSquareF2: a != 0 is a square in Fp2 iff its norm re^2+im^2 is a square in Fp
// (a^((p^2-1)/2) = N(a)^((p-1)/2)).
func c04IsSquareF2(a c04F2) bool {
	n := new(big.Int).Mul(a.re, a.re)
	n.Add(n, new(big.Int).Mul(a.im, a.im))
	return c04IsSquareFp(c04Mod(n))
}

func c04Pad32(x *big.Int) []byte {
	b := x.Bytes()
	out := make([]byte, 32)
	copy(out[32-len(b):], b)
	return out
}

// c04ClassG1 classifies a 32-byte decompression input independently of the code.
// For canonical x (< P) with x^3+3 a square it also returns the unique G1 point with
// that x and the flagged parity, in bn256's uncompressed encoding.
func c04ClassG1(b []byte) (class string, ref []byte) {
	xb := append([]byte{b[0] & 0x7f}, b[1:]...)
	x := new(big.Int).SetBytes(xb)
	if x.Cmp(c04P) >= 0 {
		return "noncanonical", nil
	}
	v := new(big.Int).Exp(x, big.NewInt(3), c04P)
	v = c04Mod(v.Add(v, big.NewInt(3)))
	if v.Sign() == 0 {
		return "zero", nil // impossible: #E(Fp) is an odd prime, there is no point of order 2
	}
	if !c04IsSquareFp(v) {
		return "nonresidue", nil
	}
	y := new(big.Int).ModSqrt(v, c04P)
	if byte(y.Bit(0)) != b[0]>>7 {
		y = new(big.Int).Sub(c04P, y)
	}
	return "residue", append(c04Pad32(x), c04Pad32(y)...)
}

func c04G2X(b []byte) (x c04F2) {
	x.im = new(big.Int).SetBytes(append([]byte{b[0] & 0x7f}, b[1:32]...))
	x.re = new(big.Int).SetBytes(b[32:64])
	return
}

func c04ClassG2(b []byte) string {
	x := c04G2X(b)
	if x.im.Cmp(c04P) >= 0 || x.re.Cmp(c04P) >= 0 {
		return "noncanonical"
	}
	v := c04Add(c04Mul(c04Mul(x, x), x), c04TwistB)
	if c04IsZero(v) {
		return "zero"
	}
	if !c04IsSquareF2(v) {
		return "nonresidue"
	}
	return "residue"
}

// c04SanityF2 checks the facts the budget argument and the y-real construction rest on.
func c04SanityF2(t *testing.T) {
	hr := c04F2{new(big.Int).Set(hexRoot.x), new(big.Int).Set(hexRoot.y)}
	one := false
	for k := 1; k <= 16; k++ {
		if c04IsOne(c04Pow(hr, big.NewInt(int64(k)))) {
			if k != 16 {
				t.Fatalf("c04: hexRoot has order %d, expected 16", k)
			}
			one = true
		}
	}
	if !one {
		t.Fatalf("c04: hexRoot^16 != 1: budget argument does not hold")
	}
	if !c04Eq(c04TwistB, c04F2{twistB.x, twistB.y}) {
		t.Fatalf("c04: reference twist constant differs from the package's")
	}
}

// c04YRealInputs constructs 64-byte decompression inputs whose x satisfies
// x^3 + b' = r for a small r in Fp (r = 1..R): the square root y then lies on one of the
// two axes of Fp2 (imaginary part 0 when r is a square in Fp, real part 0 otherwise).
// Cube roots: p^2-1 = 9m, 3 does not divide m; for a cube c, c^(3^-1 mod m) is a cube
// root up to a 9th root of unity, which is found by trying the 9 candidates.
func c04YRealInputs(t *testing.T, R int) []c04Case {
	N := new(big.Int).Sub(new(big.Int).Mul(c04P, c04P), big.NewInt(1))
	m := new(big.Int).Div(N, big.NewInt(9))
	if new(big.Int).Mod(N, big.NewInt(9)).Sign() != 0 || new(big.Int).Mod(m, big.NewInt(3)).Sign() == 0 {
		t.Fatalf("c04: unexpected 3-adic structure of p^2-1")
	}
	third := new(big.Int).Div(N, big.NewInt(3))
	e := new(big.Int).ModInverse(big.NewInt(3), m)
	var g9 c04F2
	found := false
	for z := int64(2); z < 40 && !found; z++ {
		cand := c04F2{big.NewInt(z), big.NewInt(1)}
		if !c04IsOne(c04Pow(cand, third)) {
			g9 = c04Pow(cand, m)
			found = true
		}
	}
	if !found {
		t.Fatalf("c04: no cubic non-residue found")
	}
	omega := c04Mul(c04Mul(g9, g9), g9)
	var out []c04Case
	for r := 1; r <= R; r++ {
		c := c04F2{c04Mod(new(big.Int).Sub(big.NewInt(int64(r)), c04TwistB.re)), c04Mod(new(big.Int).Neg(c04TwistB.im))}
		if !c04IsOne(c04Pow(c, third)) {
			continue
		}
		x := c04Pow(c, e)
		ok := false
		for j := 0; j < 9; j++ {
			if c04Eq(c04Mul(c04Mul(x, x), x), c) {
				ok = true
				break
			}
			x = c04Mul(x, g9)
		}
		if !ok {
			t.Fatalf("c04: cube root construction failed for r=%d", r)
		}
		for w := 0; w < 3; w++ {
			for par := 0; par < 2; par++ {
				b := append(c04Pad32(x.im), c04Pad32(x.re)...)
				b[0] |= byte(par) << 7
				out = append(out, c04Case{Leg: "dec2", In: hex.EncodeToString(b), Tag: fmt.Sprintf("x^3+b'=%d", r)})
			}
			x = c04Mul(x, omega)
		}
	}
	return out
}

// ---------- work list ----------

func c04Scalars(th bool) []*big.Int {
	seen := map[string]bool{}
	var out []*big.Int
	add := func(k *big.Int) {
		k = new(big.Int).Set(k)
		if new(big.Int).Mod(k, c04Q).Sign() == 0 || k.Sign() <= 0 {
			return
		}
		if !seen[k.String()] {
			seen[k.String()] = true
			out = append(out, k)
		}
	}
	small, step := 384, 8
	if th {
		small, step = 4096, 1
	}
	for k := 1; k <= small; k++ {
		add(big.NewInt(int64(k)))
	}
	one := big.NewInt(1)
	for i := 2; i <= 253; i += step {
		p := new(big.Int).Lsh(one, uint(i))
		add(p)
		add(new(big.Int).Sub(p, one))
		add(new(big.Int).Add(p, one))
	}
	add(new(big.Int).Sub(c04Q, one))
	add(new(big.Int).Sub(c04Q, big.NewInt(2)))
	h := new(big.Int).Rsh(c04Q, 1)
	add(h)
	add(new(big.Int).Add(h, one))
	add(new(big.Int).Add(c04Q, one)) // not reduced: same point as 1
	return out
}

func c04Patterns32(parityToo bool) [][]byte {
	one := big.NewInt(1)
	var vals []*big.Int
	for d := int64(-2); d <= 2; d++ {
		vals = append(vals, new(big.Int).Add(c04P, big.NewInt(d)))
	}
	for _, sh := range []uint{64, 128, 253, 254, 255} {
		p := new(big.Int).Lsh(one, sh)
		vals = append(vals, new(big.Int).Sub(p, one))
		if sh < 255 {
			vals = append(vals, p, new(big.Int).Add(p, one))
		}
	}
	vals = append(vals, new(big.Int).Rsh(c04P, 1), new(big.Int).Add(new(big.Int).Rsh(c04P, 1), one))
	var out [][]byte
	for _, v := range vals {
		b := c04Pad32(v)
		out = append(out, b)
		if parityToo {
			b2 := append([]byte{}, b...)
			b2[0] |= 0x80
			out = append(out, b2)
		}
	}
	return out
}

func c04Cases(t *testing.T, th bool) []c04Case {
	var cs []c04Case
	for _, k := range c04Scalars(th) {
		cs = append(cs, c04Case{Leg: "rt1", K: k.String()}, c04Case{Leg: "rt2", K: k.String()})
	}
	// G1 decompression of arbitrary bytes: every small x with both parity flags, and
	// boundary patterns around P and the 254/255-bit limits
	g1max := 512
	if th {
		g1max = 2048
	}
	for x := 0; x <= g1max; x++ {
		for par := 0; par < 2; par++ {
			b := c04Pad32(big.NewInt(int64(x)))
			b[0] |= byte(par) << 7
			cs = append(cs, c04Case{Leg: "dec1", In: hex.EncodeToString(b)})
		}
	}
	for _, b := range c04Patterns32(true) {
		cs = append(cs, c04Case{Leg: "dec1", In: hex.EncodeToString(b), Tag: "pattern"})
	}
	// G2: grid of small (real, imaginary) x coordinates x parity flag
	g2max := 15
	if th {
		g2max = 48
	}
	for re := 0; re <= g2max; re++ {
		for im := 0; im <= g2max; im++ {
			for par := 0; par < 2; par++ {
				b := append(c04Pad32(big.NewInt(int64(im))), c04Pad32(big.NewInt(int64(re)))...)
				b[0] |= byte(par) << 7
				cs = append(cs, c04Case{Leg: "dec2", In: hex.EncodeToString(b)})
			}
		}
	}
	// G2 patterns: each half from the boundary values (imaginary half carries the flag)
	pats := c04Patterns32(false)
	pats = append(pats, c04Pad32(big.NewInt(0)), c04Pad32(big.NewInt(1)), bytes.Repeat([]byte{0xff}, 32))
	for i, im := range pats {
		for j, re := range pats {
			if !th && (i+j)%3 != 0 {
				continue
			}
			cs = append(cs, c04Case{Leg: "dec2", In: hex.EncodeToString(append(append([]byte{}, im...), re...)), Tag: "pattern"})
		}
	}
	R := 24
	if th {
		R = 96
	}
	cs = append(cs, c04YRealInputs(t, R)...)
	// hashing: every byte string of length <= 1 (quick) / <= 2 (thorough), 2-byte strings
	// with a boundary first byte, 256 structured 32-byte strings
	cs = append(cs, c04Case{Leg: "hash", In: ""})
	for a := 0; a < 256; a++ {
		cs = append(cs, c04Case{Leg: "hash", In: hex.EncodeToString([]byte{byte(a)})})
	}
	for a := 0; a < 256; a++ {
		if !th && a != 0 && a != 0x7f && a != 0x80 && a != 0xff {
			continue
		}
		for b := 0; b < 256; b++ {
			cs = append(cs, c04Case{Leg: "hash", In: hex.EncodeToString([]byte{byte(a), byte(b)})})
		}
	}
	for a := 0; a < 256; a++ {
		s := make([]byte, 32)
		switch a % 4 {
		case 0:
			s[31] = byte(a) // small big-endian integers
		case 1:
			s[0] = byte(a) // high byte only
		case 2:
			for i := range s {
				s[i] = byte(a) // repeated byte
			}
		case 3:
			for i := range s {
				s[i] = byte(a + i) // ramp
			}
		}
		cs = append(cs, c04Case{Leg: "hash", In: hex.EncodeToString(s), Tag: "32-byte"})
	}
	// messages whose digest needs many x candidates before x^3+3 is a square (found by an
	// offline search over "c04-hard-<k>", k < 2e6; the number of candidates is re-measured
	// by the loop hook on every run and reported as hash.x_candidates_tried.*): 13 … 23
	// increments. A try-and-increment loop with any small fixed cap fails on these.
	for _, k := range []int{1483, 39262, 32658, 57365, 60040, 140122, 1087473, 1109922, 1804789} {
		cs = append(cs, c04Case{Leg: "hash", In: hex.EncodeToString([]byte(fmt.Sprintf("c04-hard-%d", k))), Tag: "many-candidates"})
	}
	return cs
}

// ---------- execution ----------

type c04Run struct {
	r *vrep.R
	t *testing.T
	// single goroutine per process: the loop hook's counters are process-global
	maxLoops int
}

// call runs f (one call into the package) under the loop budget and reports what ended
// it: "" (returned), "nonterminating" or "panic".
func (h *c04Run) call(f func()) (end string, detail string, loops int) {
	vsched.ResetLoops(c04Budget)
	p, stack := vrep.Guard(f)
	loops = vsched.LoopCount()
	vsched.ResetLoops(0)
	if p == nil {
		return "", "", loops
	}
	if lb, ok := p.(vsched.LoopBudgetExceeded); ok {
		return "nonterminating", fmt.Sprintf("more than %d loop iterations, last in the loop at %s", c04Budget, lb.Site), loops
	}
	return "panic", fmt.Sprintf("panic: %v\n%s", p, c04Frames(stack)), loops
}

// c04Frames keeps the altbn128 frames of a stack (stable, short).
func c04Frames(stack string) string {
	var out []string
	for _, l := range bytes.Split([]byte(stack), []byte("\n")) {
		if bytes.Contains(l, []byte("pkg/altbn128.")) && !bytes.Contains(l, []byte("c04")) && !bytes.Contains(l, []byte("TestVerif")) {
			s := string(l)
			if i := bytes.LastIndexByte(l, '('); i > 0 {
				s = s[:i]
			}
			out = append(out, s)
		}
	}
	if len(out) > 4 {
		out = out[:4]
	}
	return fmt.Sprint(out)
}

func (h *c04Run) violate(kind string, c c04Case, what string) {
	size := len(c.In)*4 + len(c.K)
	if c.In != "" {
		v, _ := new(big.Int).SetString(c.In, 16)
		if v != nil {
			size = v.BitLen()
		}
	} else if c.K != "" {
		v, _ := new(big.Int).SetString(c.K, 10)
		size = v.BitLen()
	}
	var rr int
	if n, _ := fmt.Sscanf(c.Tag, "x^3+b'=%d", &rr); n == 1 {
		size = rr // constructed inputs: smallest r first, the same in both tiers
	}
	h.r.ViolationMin(c.Leg+":"+kind, size, c.Leg+" k="+c.K+" in="+c.In, what, c)
}

func c04OnCurveG1(m []byte) bool {
	if len(m) != 64 {
		return false
	}
	x := new(big.Int).SetBytes(m[:32])
	y := new(big.Int).SetBytes(m[32:])
	if x.Cmp(c04P) >= 0 || y.Cmp(c04P) >= 0 {
		return false
	}
	l := c04Mod(new(big.Int).Mul(y, y))
	rr := new(big.Int).Exp(x, big.NewInt(3), c04P)
	rr = c04Mod(rr.Add(rr, big.NewInt(3)))
	return l.Cmp(rr) == 0
}

// validG1: p is a usable point whose encoding bn256 accepts and that satisfies the curve
// equation over the integers mod P.
func c04ValidG1(p *bn256.G1) (m []byte, why string) {
	if p == nil {
		return nil, "nil point"
	}
	pv, _ := vrep.Guard(func() { m = p.Marshal() })
	if pv != nil {
		return nil, fmt.Sprintf("point cannot be marshalled: %v", pv)
	}
	if _, err := new(bn256.G1).Unmarshal(m); err != nil {
		return m, "bn256 rejects the returned point: " + err.Error()
	}
	if !c04OnCurveG1(m) {
		return m, "returned coordinates do not satisfy y^2 = x^3 + 3"
	}
	return m, ""
}

func c04ValidG2(p *bn256.G2) (m []byte, why string) {
	if p == nil {
		return nil, "nil point"
	}
	pv, _ := vrep.Guard(func() { m = p.Marshal() })
	if pv != nil {
		return nil, fmt.Sprintf("point cannot be marshalled: %v", pv)
	}
	if _, err := new(bn256.G2).Unmarshal(m); err != nil { // curve equation and subgroup membership
		return m, "bn256 rejects the returned point: " + err.Error()
	}
	return m, ""
}

// roundTrip1: Compress then Decompress the G1 point with encoding ref; returns a
// violation kind and text, or "".
func (h *c04Run) roundTrip1(ref []byte) (kind, what string, comp []byte) {
	p := new(bn256.G1)
	if _, err := p.Unmarshal(ref); err != nil {
		h.t.Fatalf("c04: reference G1 point rejected by bn256: %v", err)
	}
	end, det, _ := h.call(func() { comp = G1Point{p}.Compress() })
	if end != "" {
		return "compress-" + end, "G1 Compress: " + det, nil
	}
	if len(comp) != 32 {
		return "compress-size", fmt.Sprintf("G1 Compress returned %d bytes", len(comp)), comp
	}
	var p2 *bn256.G1
	var err error
	in := append([]byte{}, comp...)
	end, det, _ = h.call(func() { p2, err = DecompressToG1(in) })
	if end != "" {
		return "decompress-" + end, "DecompressToG1(Compress(P)): " + det, comp
	}
	if err != nil {
		return "roundtrip", fmt.Sprintf("DecompressToG1(Compress(P)) = error %q for %x", err, comp), comp
	}
	m, why := c04ValidG1(p2)
	if why != "" {
		return "roundtrip", "DecompressToG1(Compress(P)): " + why, comp
	}
	if !bytes.Equal(m, ref) {
		return "roundtrip", fmt.Sprintf("DecompressToG1(Compress(P)) = %x, P = %x, compressed %x", m, ref, comp), comp
	}
	// decoding is a function of the encoding: the caller's buffer is left as it was (the
	// same bytes are decoded again by whoever holds them: a retransmission, a stored record)
	if !bytes.Equal(in, comp) {
		return "roundtrip", fmt.Sprintf("DecompressToG1 modified the encoding it was given: %x became %x (decoding it again gives another point)", comp, in), comp
	}
	return "", "", comp
}

func (h *c04Run) roundTrip2(ref []byte) (kind, what string, comp []byte) {
	p := new(bn256.G2)
	if _, err := p.Unmarshal(ref); err != nil {
		h.t.Fatalf("c04: reference G2 point rejected by bn256: %v", err)
	}
	end, det, _ := h.call(func() { comp = G2Point{p}.Compress() })
	if end != "" {
		return "compress-" + end, "G2 Compress: " + det, nil
	}
	if len(comp) != 64 {
		return "compress-size", fmt.Sprintf("G2 Compress returned %d bytes", len(comp)), comp
	}
	var p2 *bn256.G2
	var err error
	in := append([]byte{}, comp...)
	end, det, _ = h.call(func() { p2, err = DecompressToG2(in) })
	if end != "" {
		return "decompress-" + end, "DecompressToG2(Compress(P)): " + det, comp
	}
	if err != nil {
		return "roundtrip", fmt.Sprintf("DecompressToG2(Compress(P)) = error %q for %x", err, comp), comp
	}
	m, why := c04ValidG2(p2)
	if why != "" {
		return "roundtrip", "DecompressToG2(Compress(P)): " + why, comp
	}
	if !bytes.Equal(m, ref) {
		return "roundtrip", fmt.Sprintf("DecompressToG2(Compress(P)) = %x, P = %x, compressed %x", m, ref, comp), comp
	}
	if !bytes.Equal(in, comp) {
		return "roundtrip", fmt.Sprintf("DecompressToG2 modified the encoding it was given: %x became %x (decoding it again gives another point)", comp, in), comp
	}
	return "", "", comp
}

// dec1: arbitrary 32 bytes into DecompressToG1.
func (h *c04Run) dec1(c c04Case, b []byte) {
	h.r.Eval(1)
	h.r.Distinct(c.key())
	class, ref := c04ClassG1(b)
	var p *bn256.G1
	var err error
	in := append([]byte{}, b...)
	end, det, _ := h.call(func() { p, err = DecompressToG1(in) })
	switch {
	case end != "":
		h.violate(end, c, fmt.Sprintf("DecompressToG1(%x) [%s x]: %s", b, class, det))
		h.r.Outcome("dec1:" + class + ":" + end)
		return
	case err != nil:
		h.r.Outcome("dec1:" + class + ":error")
	default:
		m, why := c04ValidG1(p)
		if why != "" {
			h.violate("invalid-point", c, fmt.Sprintf("DecompressToG1(%x) [%s x] returned no error but %s", b, class, why))
			return
		}
		h.r.Outcome("dec1:" + class + ":point")
		// whatever valid point came out must itself round-trip
		if k, w, _ := h.roundTrip1(m); k != "" {
			h.violate(k, c, "point returned by DecompressToG1("+c.In+"): "+w)
		}
	}
	// the round-trip clause applied to the G1 point that has this x and parity (every
	// curve point is in G1, the group has cofactor 1)
	if ref != nil {
		k, w, comp := h.roundTrip1(ref)
		if k != "" {
			h.violate(k, c, fmt.Sprintf("G1 point (x=%d, parity %d): %s", new(big.Int).SetBytes(ref[:32]), b[0]>>7, w))
		} else if bytes.Equal(comp, b) {
			// Compress(P) is exactly this input, so decompressing it must have given P
			var m []byte
			if err == nil {
				m, _ = c04ValidG1(p)
			}
			if err != nil || !bytes.Equal(m, ref) {
				h.violate("roundtrip", c, fmt.Sprintf("DecompressToG1(%x) = (%x, %v) although it is Compress of the G1 point %x", b, m, err, ref))
			}
		}
	}
}

func (h *c04Run) dec2(c c04Case, b []byte) {
	h.r.Eval(1)
	h.r.Distinct(c.key())
	class := c04ClassG2(b)
	if c.Tag != "" && c.Tag != "pattern" {
		class += "-axis" // constructed: the square root has a zero component
	}
	var p *bn256.G2
	var err error
	in := append([]byte{}, b...)
	end, det, loops := h.call(func() { p, err = DecompressToG2(in) })
	switch {
	case end != "":
		extra := ""
		if end == "nonterminating" {
			extra = " (x^3+b' is a " + class + " in Fp2; the root search multiplies by an element of order 16, so it cycles)"
		}
		h.violate(end, c, fmt.Sprintf("DecompressToG2(%x) %s: %s%s", b, c.Tag, det, extra))
		h.r.Outcome("dec2:" + class + ":" + end)
	case err != nil:
		h.r.Outcome("dec2:" + class + ":error")
	default:
		m, why := c04ValidG2(p)
		if why != "" {
			h.violate("invalid-point", c, fmt.Sprintf("DecompressToG2(%x) [%s] returned no error but %s", b, class, why))
			return
		}
		h.r.Outcome("dec2:" + class + ":point")
		if k, w, _ := h.roundTrip2(m); k != "" {
			h.violate(k, c, "point returned by DecompressToG2("+c.In+"): "+w)
		}
	}
	if end == "" && loops > h.maxLoops {
		h.maxLoops = loops
	}
}

var c04FlipNames = []string{"parity", "topx", "lowx"}

func c04Flip(comp []byte, which int) []byte {
	b := append([]byte{}, comp...)
	switch which {
	case 0:
		b[0] ^= 0x80
	case 1:
		b[0] ^= 0x40
	case 2:
		b[len(b)-1] ^= 0x01
	}
	return b
}

func (h *c04Run) run(c c04Case) {
	switch c.Leg {
	case "rt1":
		k, _ := new(big.Int).SetString(c.K, 10)
		ref := new(bn256.G1).ScalarBaseMult(k).Marshal()
		h.r.Eval(1)
		h.r.Distinct(c.key())
		kind, what, comp := h.roundTrip1(ref)
		if kind != "" {
			h.violate(kind, c, fmt.Sprintf("G1 point %s*G: %s", c.K, what))
			h.r.Outcome("rt1:" + kind)
			return
		}
		h.r.Outcome("rt1:ok")
		for w := range c04FlipNames {
			fb := c04Flip(comp, w)
			h.dec1(c04Case{Leg: "dec1", In: hex.EncodeToString(fb), Tag: "flip-" + c04FlipNames[w]}, fb)
		}
	case "rt2":
		k, _ := new(big.Int).SetString(c.K, 10)
		ref := new(bn256.G2).ScalarBaseMult(k).Marshal()
		h.r.Eval(1)
		h.r.Distinct(c.key())
		kind, what, comp := h.roundTrip2(ref)
		if kind != "" {
			h.violate(kind, c, fmt.Sprintf("G2 point %s*G: %s", c.K, what))
			h.r.Outcome("rt2:" + kind)
			return
		}
		h.r.Outcome("rt2:ok")
		for w := range c04FlipNames {
			fb := c04Flip(comp, w)
			h.dec2(c04Case{Leg: "dec2", In: hex.EncodeToString(fb), Tag: "pattern"}, fb)
		}
	case "dec1":
		b, err := hex.DecodeString(c.In)
		if err != nil || len(b) != 32 {
			h.t.Fatalf("c04: bad dec1 case %q", c.In)
		}
		h.dec1(c, b)
	case "dec2":
		b, err := hex.DecodeString(c.In)
		if err != nil || len(b) != 64 {
			h.t.Fatalf("c04: bad dec2 case %q", c.In)
		}
		h.dec2(c, b)
	case "hash":
		m, err := hex.DecodeString(c.In)
		if err != nil {
			h.t.Fatalf("c04: bad hash case %q", c.In)
		}
		h.hash(c, m)
	default:
		h.t.Fatalf("c04: unknown leg %q", c.Leg)
	}
}

func (h *c04Run) hash(c c04Case, m []byte) {
	h.r.Eval(1)
	h.r.Distinct(c.key())
	var p1, p2 *bn256.G1
	in := append([]byte{}, m...)
	end, det, loops := h.call(func() { p1 = G1HashToPoint(in) })
	if end != "" {
		h.violate(end, c, fmt.Sprintf("G1HashToPoint(%x): %s", m, det))
		h.r.Outcome("hash:" + end)
		return
	}
	if loops > 16 {
		h.r.Add("hash.x_candidates_tried.17+", 1)
	} else if loops > 8 {
		h.r.Add("hash.x_candidates_tried.9-16", 1)
	} else {
		h.r.Add(fmt.Sprintf("hash.x_candidates_tried.%d", loops), 1)
	}
	m1, why := c04ValidG1(p1)
	if why != "" {
		h.violate("invalid-point", c, fmt.Sprintf("G1HashToPoint(%x): %s", m, why))
		h.r.Outcome("hash:invalid")
		return
	}
	end, det, _ = h.call(func() { p2 = G1HashToPoint(append([]byte{}, m...)) })
	if end != "" {
		h.violate(end, c, fmt.Sprintf("G1HashToPoint(%x), second call: %s", m, det))
		return
	}
	m2, why := c04ValidG1(p2)
	if why != "" || !bytes.Equal(m1, m2) {
		h.violate("nondeterministic", c, fmt.Sprintf("G1HashToPoint(%x) returned %x, then %x %s", m, m1, m2, why))
		h.r.Outcome("hash:nondeterministic")
		return
	}
	if loops <= 1 {
		h.r.Outcome("hash:first-x")
	} else {
		h.r.Outcome("hash:incremented-x")
	}
}

func TestVerifC04(t *testing.T) {
	r := vrep.Start(t, "C04", "points")
	defer r.Finish()
	c04SanityF2(t)
	h := &c04Run{r: r, t: t}
	if rd := r.ReplayData(); rd != nil {
		var c c04Case
		if json.Unmarshal(rd, &c) == nil && c.Leg != "" {
			h.run(c)
		}
		return
	}
	cases := c04Cases(t, r.Thorough())
	n := map[string]int{}
	for i, c := range cases {
		n[c.Leg]++
		if !r.Mine(n[c.Leg]) { // dealt per leg: the legs differ in cost by orders of magnitude
			continue
		}
		if i%64 == 0 && r.Expired() {
			break
		}
		if n[c.Leg] <= 1 {
			r.Sample(c)
		}
		h.run(c)
	}
	if shard, _ := r.Shard(); shard == 0 {
		r.Set("work_items", len(cases))
		for leg, k := range n {
			r.Set("items."+leg, k)
		}
		// the identity has no affine coordinates and the format has no encoding for it:
		// outside the alphabet, behaviour recorded for the notes only
		for name, f := range map[string]func(){
			"identity.g1.compress": func() { G1Point{new(bn256.G1).ScalarBaseMult(big.NewInt(0))}.Compress() },
			"identity.g2.compress": func() { G2Point{new(bn256.G2).ScalarBaseMult(big.NewInt(0))}.Compress() },
		} {
			end, _, _ := h.call(f)
			if end == "" {
				end = "returns"
			}
			r.Set(name, end)
		}
	}
	r.Set("dec2.max_loop_iterations_of_a_returning_call", fmt.Sprintf("%d (budget %d)", h.maxLoops, c04Budget))
}
