//go:build verif

package tbtc

// C26: the four wallet transaction assemblers are run over an exhaustive small alphabet of
// main UTXOs, deposits, redemption requests, target wallets, fees and shapes on a fake
// bitcoin.Chain. The assembled transaction is completed with signatures of the wallet key
// (so that it can be read through the public API) and compared with a reference written
// in plain arithmetic: inputs == intended outpoints in the documented order,
// sum(inputs) - sum(outputs) == proposed fee, every output == (intended script, reference
// amount), fee shares add up to the total fee.

import (
	"bytes"
	"crypto/ecdsa"
	"crypto/sha256"
	"encoding/hex"
	"encoding/json"
	"fmt"
	"math/big"
	"testing"

	"github.com/btcsuite/btcd/btcec"
	"golang.org/x/crypto/ripemd160"

	"github.com/keep-network/keep-core/pkg/bitcoin"
	"github.com/keep-network/keep-core/pkg/chain"
	"github.com/keep-network/keep-core/pkg/verifshim/vrep"
)

// ---- scaffolding ------------------------------------------------------------------

type c26Chain struct {
	bitcoin.Chain // nil: no other method is expected to be called
	txs           map[bitcoin.Hash]*bitcoin.Transaction
	n             int
	failFor       *bitcoin.Hash // the lookup of this transaction fails (Bitcoin client trouble)
}

func (c *c26Chain) GetTransaction(h bitcoin.Hash) (*bitcoin.Transaction, error) {
	if c.failFor != nil && *c.failFor == h {
		return nil, fmt.Errorf("transaction lookup failed")
	}
	if tx, ok := c.txs[h]; ok {
		return tx, nil
	}
	return nil, fmt.Errorf("transaction not found")
}

func (c *c26Chain) fund(script []byte, value int64, idx uint32) *bitcoin.UnspentTransactionOutput {
	c.n++
	tx := &bitcoin.Transaction{
		Version: 1,
		Inputs: []*bitcoin.TransactionInput{{
			Outpoint:        &bitcoin.TransactionOutpoint{TransactionHash: bitcoin.Hash{0xc2, 0x6c, byte(c.n)}, OutputIndex: uint32(c.n)},
			SignatureScript: []byte{0x51},
			Sequence:        0xffffffff,
		}},
		Locktime: uint32(c.n),
	}
	for o := uint32(0); o <= idx+1; o++ {
		if o == idx {
			tx.Outputs = append(tx.Outputs, &bitcoin.TransactionOutput{Value: value, PublicKeyScript: script})
		} else {
			tx.Outputs = append(tx.Outputs, &bitcoin.TransactionOutput{Value: value + 13 + int64(o), PublicKeyScript: c26P2WPKH(bytes.Repeat([]byte{0x99}, 20))})
		}
	}
	c.txs[tx.Hash()] = tx
	return &bitcoin.UnspentTransactionOutput{
		Outpoint: &bitcoin.TransactionOutpoint{TransactionHash: tx.Hash(), OutputIndex: idx},
		Value:    value,
	}
}

var c26Curve = btcec.S256()

var c26Keys = func() []*ecdsa.PrivateKey {
	var ks []*ecdsa.PrivateKey
	for i := 0; i < 3; i++ {
		seed := sha256.Sum256([]byte(fmt.Sprintf("verif-c26-key-%d", i)))
		d := new(big.Int).SetBytes(seed[:])
		d.Mod(d, new(big.Int).Sub(c26Curve.N, big.NewInt(1)))
		d.Add(d, big.NewInt(1))
		x, y := c26Curve.ScalarBaseMult(d.Bytes())
		ks = append(ks, &ecdsa.PrivateKey{PublicKey: ecdsa.PublicKey{Curve: c26Curve, X: x, Y: y}, D: d})
	}
	return ks
}()

func c26Sign(priv *ecdsa.PrivateKey, digest *big.Int) (r, s *big.Int) {
	N := c26Curve.N
	z := new(big.Int).Mod(digest, N)
	for ctr := 0; ; ctr++ {
		h := sha256.Sum256([]byte(fmt.Sprintf("nonce|%x|%x|%d", priv.D, digest, ctr)))
		k := new(big.Int).SetBytes(h[:])
		k.Mod(k, N)
		if k.Sign() == 0 {
			continue
		}
		x, _ := c26Curve.ScalarBaseMult(k.Bytes())
		r = new(big.Int).Mod(x, N)
		if r.Sign() == 0 {
			continue
		}
		s = new(big.Int).Mul(r, priv.D)
		s.Add(s, z)
		s.Mul(s, new(big.Int).ModInverse(k, N))
		s.Mod(s, N)
		if s.Sign() != 0 {
			return r, s
		}
	}
}

// c26PKH: RIPEMD160(SHA256(compressed public key)), written out.
func c26PKH(pub *ecdsa.PublicKey) []byte {
	comp := make([]byte, 33)
	comp[0] = 2 + byte(pub.Y.Bit(0))
	pub.X.FillBytes(comp[1:])
	return c26Hash160(comp)
}
func c26Hash160(b []byte) []byte {
	s := sha256.Sum256(b)
	h := ripemd160.New()
	h.Write(s[:])
	return h.Sum(nil)
}
func c26P2PKH(h []byte) []byte {
	return append(append([]byte{0x76, 0xa9, 0x14}, h...), 0x88, 0xac)
}
func c26P2WPKH(h []byte) []byte { return append([]byte{0x00, 0x14}, h...) }
func c26P2SH(script []byte) []byte {
	return append(append([]byte{0xa9, 0x14}, c26Hash160(script)...), 0x87)
}
func c26P2WSH(script []byte) []byte {
	h := sha256.Sum256(script)
	return append([]byte{0x00, 0x20}, h[:]...)
}

// ---- cases ------------------------------------------------------------------------

type c26Utxo struct {
	Kind  int   `json:"kind"` // 1 P2WPKH, 2 P2PKH, 3 foreign script (P2SH: not a wallet UTXO)
	Value int64 `json:"value"`
}

type c26Dep struct {
	Value int64 `json:"value"`
	Kind  int   `json:"kind"` // 0 P2SH, 1 P2WSH
}

type c26Req struct {
	Amount   uint64 `json:"amount"`
	Treasury uint64 `json:"treasury"`
}

type c26Case struct {
	Action   string   `json:"action"` // sweep | redemption | moving | movedsweep
	Key      int      `json:"key"`
	Main     *c26Utxo `json:"main,omitempty"`
	Moved    *c26Utxo `json:"moved,omitempty"`
	Deposits []c26Dep `json:"deposits,omitempty"`
	Requests []c26Req `json:"requests,omitempty"`
	// redemption: main UTXO value = sum of redeemable amounts + MainDelta
	MainDelta int64   `json:"main_delta,omitempty"`
	Shares    []int64 `json:"shares,omitempty"` // explicit fee shares instead of Fee
	Shape     int     `json:"shape,omitempty"`  // 0 argument omitted, 1 change first, 2 change last
	Targets   int     `json:"targets,omitempty"`
	Fee       int64   `json:"fee"`
}

func (c c26Case) String() string {
	b, _ := json.Marshal(c)
	return string(b)
}

type c26Out struct {
	script []byte
	value  int64
}

// c26Reference: what the statement says the transaction must look like.
type c26Reference struct {
	inputs   []*bitcoin.UnspentTransactionOutput
	outputs  []c26Out
	fee      int64
	feasible bool // all reference amounts >= 0
	note     string
}

func c26RedeemerScript(i int) []byte {
	h := bytes.Repeat([]byte{0x40 + byte(i)}, 20)
	switch i % 4 {
	case 0:
		return c26P2PKH(h)
	case 1:
		return c26P2WPKH(h)
	case 2:
		return append(append([]byte{0xa9, 0x14}, h...), 0x87)
	default:
		return append([]byte{0x00, 0x20}, bytes.Repeat([]byte{0x50 + byte(i)}, 32)...)
	}
}

func c26Target(i int) (t [20]byte) {
	copy(t[:], bytes.Repeat([]byte{0x70 + byte(i)}, 20))
	return
}

func c26WalletUtxo(ch *c26Chain, u *c26Utxo, pkh []byte, idx uint32) *bitcoin.UnspentTransactionOutput {
	if u == nil {
		return nil
	}
	switch u.Kind {
	case 1:
		return ch.fund(c26P2WPKH(pkh), u.Value, idx)
	case 2:
		return ch.fund(c26P2PKH(pkh), u.Value, idx)
	default:
		return ch.fund(c26P2SH([]byte{0x51}), u.Value, idx)
	}
}

// c26Shares is the reference fee distribution: even split, remainder on the last.
func c26Shares(total int64, n int) []int64 {
	out := make([]int64, n)
	var given int64
	for i := 0; i < n; i++ {
		out[i] = total / int64(n)
		given += out[i]
	}
	out[n-1] += total - given
	return out
}

// c26Run executes one case; it returns true when the case reached the comparison with
// the reference (well-formed and feasible request).
func c26Run(r *vrep.R, c c26Case) (compared bool) {
	fp := c.String()
	size := 1000*(len(c.Deposits)+len(c.Requests)+c.Targets) + len(fp)
	report := func(kind, what string) { r.ViolationMin(c.Action+":"+kind, size, fp, what, c) }

	priv := c26Keys[c.Key]
	pkh := c26PKH(&priv.PublicKey)
	walletScript := c26P2WPKH(pkh)
	var pkh20, refund20 [20]byte
	copy(pkh20[:], pkh)
	copy(refund20[:], c26PKH(&c26Keys[(c.Key+1)%len(c26Keys)].PublicKey))
	ch := &c26Chain{txs: map[bitcoin.Hash]*bitcoin.Transaction{}}

	ref := c26Reference{feasible: true}
	degenerate := "" // non-empty: the request itself is malformed, any refusal is fine
	var builder *bitcoin.TransactionBuilder
	var err error
	var shares []int64

	p, stack := vrep.Guard(func() {
		switch c.Action {
		case "sweep":
			main := c26WalletUtxo(ch, c.Main, pkh, 1)
			if main != nil {
				ref.inputs = append(ref.inputs, main)
			}
			var deposits []*Deposit
			for i, dp := range c.Deposits {
				d := &Deposit{
					Depositor:           chain.Address("0x" + hex.EncodeToString(bytes.Repeat([]byte{0xa0 + byte(i)}, 20))),
					BlindingFactor:      [8]byte{9, 9, 9, 9, 9, 9, 9, byte(i)},
					WalletPublicKeyHash: pkh20,
					RefundPublicKeyHash: refund20,
					RefundLocktime:      [4]byte{0x30, 0x5a, 0x4e, 0x65},
				}
				if i%2 == 1 {
					x := [32]byte{0xee, byte(i)}
					d.ExtraData = &x
				}
				script, serr := d.Script()
				if serr != nil {
					err = fmt.Errorf("harness: Deposit.Script: %v", serr)
					return
				}
				if dp.Kind == 0 {
					d.Utxo = ch.fund(c26P2SH(script), dp.Value, uint32(i%3))
				} else {
					d.Utxo = ch.fund(c26P2WSH(script), dp.Value, uint32(i%3))
				}
				deposits = append(deposits, d)
				ref.inputs = append(ref.inputs, d.Utxo)
			}
			if len(deposits) == 0 {
				degenerate = "no deposits"
			}
			total := int64(0)
			for _, in := range ref.inputs {
				total += in.Value
			}
			ref.fee = c.Fee
			ref.outputs = []c26Out{{walletScript, total - c.Fee}}
			builder, err = assembleDepositSweepTransaction(ch, &priv.PublicKey, main, deposits, c.Fee)
			// the same proposal while the funding transaction of one deposit cannot be
			// fetched: a transaction that leaves a proposed deposit out (and charges the
			// whole fee to the rest) must not come out
			if err == nil && len(deposits) >= 2 {
				for k, d := range deposits {
					h := d.Utxo.Outpoint.TransactionHash
					ch.failFor = &h
					fb, ferr := assembleDepositSweepTransaction(ch, &priv.PublicKey, main, deposits, c.Fee)
					ch.failFor = nil
					if ferr == nil && fb != nil {
						report("sweep-incomplete-on-lookup-failure", fmt.Sprintf("the funding transaction of deposit %d of %d could not be fetched, yet a sweep transaction was assembled (it cannot spend every proposed deposit)", k, len(deposits)))
						break
					}
				}
			}

		case "redemption":
			redeemable := int64(0)
			var requests []*RedemptionRequest
			for i, q := range c.Requests {
				requests = append(requests, &RedemptionRequest{
					RedeemerOutputScript: c26RedeemerScript(i),
					RequestedAmount:      q.Amount,
					TreasuryFee:          q.Treasury,
				})
				redeemable += int64(q.Amount) - int64(q.Treasury)
			}
			var main *bitcoin.UnspentTransactionOutput
			if c.Main != nil {
				u := *c.Main
				u.Value = redeemable + c.MainDelta
				if u.Value < 0 {
					u.Value = 0
				}
				main = c26WalletUtxo(ch, &u, pkh, 0)
				ref.inputs = append(ref.inputs, main)
			} else {
				degenerate = "no main UTXO"
			}
			if len(requests) == 0 {
				degenerate = "no requests"
			}
			var dist redemptionFeeDistributionFn
			if c.Shares != nil {
				shares = c.Shares
				dist = func(rs []*RedemptionRequest) []int64 { return append([]int64(nil), c.Shares...) }
			} else if len(requests) > 0 {
				dist = withRedemptionTotalFee(c.Fee)
				shares = dist(requests)
				// the distribution clause of the statement
				want := c26Shares(c.Fee, len(requests))
				if fmt.Sprint(shares) != fmt.Sprint(want) {
					report("fee-shares", fmt.Sprintf("withRedemptionTotalFee(%d) over %d requests gives %v, even split with the remainder on the last is %v", c.Fee, len(requests), shares, want))
				}
				sum := int64(0)
				for _, s := range shares {
					sum += s
				}
				if sum != c.Fee {
					report("fee-shares-sum", fmt.Sprintf("fee shares %v add up to %d, proposed total fee is %d", shares, sum, c.Fee))
				}
			} else {
				dist = withRedemptionTotalFee(c.Fee)
			}
			if degenerate == "" {
				var outs []c26Out
				for i, q := range c.Requests {
					v := int64(q.Amount) - int64(q.Treasury) - shares[i]
					if v < 0 {
						ref.feasible, ref.note = false, "fee share exceeds the redeemable amount"
					}
					outs = append(outs, c26Out{c26RedeemerScript(i), v})
					ref.fee += shares[i]
				}
				change := main.Value - redeemable
				switch {
				case change < 0:
					ref.feasible, ref.note = false, "main UTXO smaller than the redeemable amounts"
				case change > 0 && c.Shape == 2:
					outs = append(outs, c26Out{walletScript, change})
				case change > 0:
					outs = append([]c26Out{{walletScript, change}}, outs...)
				}
				ref.outputs = outs
			}
			switch c.Shape {
			case 0:
				builder, err = assembleRedemptionTransaction(ch, &priv.PublicKey, main, requests, dist)
			case 1:
				builder, err = assembleRedemptionTransaction(ch, &priv.PublicKey, main, requests, dist, RedemptionChangeFirst)
			default:
				builder, err = assembleRedemptionTransaction(ch, &priv.PublicKey, main, requests, dist, RedemptionChangeLast)
			}

		case "moving":
			main := c26WalletUtxo(ch, c.Main, pkh, 2)
			if main == nil {
				degenerate = "no main UTXO"
			} else {
				ref.inputs = append(ref.inputs, main)
			}
			var targets [][20]byte
			for i := 0; i < c.Targets; i++ {
				targets = append(targets, c26Target(i))
			}
			if len(targets) == 0 {
				degenerate = "no target wallets"
			}
			ref.fee = c.Fee
			if degenerate == "" {
				total := main.Value - c.Fee
				if total < 0 {
					ref.feasible, ref.note = false, "fee exceeds the main UTXO value"
				}
				n := int64(len(targets))
				for i := range targets {
					v := total / n
					if i == len(targets)-1 {
						v = total - (n-1)*(total/n)
					}
					t := c26Target(i)
					ref.outputs = append(ref.outputs, c26Out{c26P2WPKH(t[:]), v})
				}
			}
			builder, err = assembleMovingFundsTransaction(ch, main, targets, c.Fee)

		case "movedsweep":
			moved := c26WalletUtxo(ch, c.Moved, pkh, 1)
			main := c26WalletUtxo(ch, c.Main, pkh, 0)
			if moved == nil {
				degenerate = "no moved funds UTXO"
			} else {
				ref.inputs = append(ref.inputs, moved)
			}
			if main != nil {
				ref.inputs = append(ref.inputs, main)
			}
			total := int64(0)
			for _, in := range ref.inputs {
				total += in.Value
			}
			ref.fee = c.Fee
			ref.outputs = []c26Out{{walletScript, total - c.Fee}}
			builder, err = assembleMovedFundsSweepTransaction(ch, &priv.PublicKey, moved, main, c.Fee)
		}
	})
	if p != nil {
		report("panic", fmt.Sprintf("panic while assembling: %v\n%s", p, stack))
		r.Outcome(c.Action + ":panic")
		return
	}
	foreign := (c.Main != nil && c.Main.Kind == 3) || (c.Moved != nil && c.Moved.Kind == 3)
	if foreign {
		degenerate = "UTXO not locked to the wallet key hash"
	}
	for _, o := range ref.outputs {
		if o.value < 0 && ref.feasible {
			ref.feasible, ref.note = false, "fee exceeds the input total"
		}
	}
	if err != nil {
		if len(err.Error()) > 8 && err.Error()[:8] == "harness:" {
			report("harness", err.Error())
			return
		}
		if degenerate != "" {
			r.Outcome(c.Action + ":refused:" + degenerate)
			return
		}
		if !ref.feasible {
			r.Outcome(c.Action + ":refused:infeasible")
			return
		}
		report("refused", "assembler refused a well-formed, feasible request: "+err.Error())
		return
	}
	if degenerate != "" {
		// the statement does not say a malformed request must be refused; nothing to compare
		r.Outcome(c.Action + ":assembled-despite:" + degenerate)
		return
	}
	if !ref.feasible {
		// no transaction can satisfy the request (some reference amount is negative):
		// outside the statement, recorded only
		r.Outcome(c.Action + ":infeasible-assembled:" + ref.note)
		return
	}

	// read the assembled transaction through the public API: sign it with the wallet key
	inTotal := int64(0)
	for _, in := range ref.inputs {
		inTotal += in.Value
	}
	if got := builder.TotalInputsValue(); got != inTotal {
		report("inputs-value", fmt.Sprintf("builder reports total input value %d, intended UTXOs hold %d", got, inTotal))
	}
	var tx *bitcoin.Transaction
	p, stack = vrep.Guard(func() {
		var hashes []*big.Int
		hashes, err = builder.ComputeSignatureHashes()
		if err != nil {
			return
		}
		sigs := make([]*bitcoin.SignatureContainer, len(hashes))
		for i, h := range hashes {
			rr, ss := c26Sign(priv, h)
			sigs[i] = &bitcoin.SignatureContainer{R: rr, S: ss, PublicKey: &priv.PublicKey}
		}
		tx, err = builder.AddSignatures(sigs)
	})
	if p != nil || err != nil || tx == nil {
		report("cannot-complete", fmt.Sprintf("assembled transaction cannot be completed with wallet signatures: err=%v panic=%v", err, p))
		return
	}
	// inputs: exactly the intended UTXOs, each once (the statement fixes no order; the
	// documented order is recorded as an outcome class only)
	ordered := len(tx.Inputs) == len(ref.inputs) && len(tx.Outputs) == len(ref.outputs)
	usedIn := make([]bool, len(ref.inputs))
	for i, in := range tx.Inputs {
		found := false
		for j, want := range ref.inputs {
			if !usedIn[j] && in.Outpoint.TransactionHash == want.Outpoint.TransactionHash && in.Outpoint.OutputIndex == want.Outpoint.OutputIndex {
				usedIn[j], found = true, true
				if i != j {
					ordered = false
				}
				break
			}
		}
		if !found {
			report("inputs", fmt.Sprintf("input %d spends %s:%d which is not one of the %d intended UTXOs (or spends it twice)", i, in.Outpoint.TransactionHash, in.Outpoint.OutputIndex, len(ref.inputs)))
			return
		}
	}
	for j, u := range usedIn {
		if !u {
			report("inputs", fmt.Sprintf("intended UTXO %d (%s:%d) is not spent; transaction has %d inputs", j, ref.inputs[j].Outpoint.TransactionHash, ref.inputs[j].Outpoint.OutputIndex, len(tx.Inputs)))
			return
		}
	}
	// conservation: measured on the funding transactions of the fake chain
	realIn := int64(0)
	for _, in := range tx.Inputs {
		realIn += ch.txs[in.Outpoint.TransactionHash].Outputs[in.Outpoint.OutputIndex].Value
	}
	outTotal := int64(0)
	for _, o := range tx.Outputs {
		outTotal += o.Value
	}
	if realIn-outTotal != ref.fee {
		report("fee", fmt.Sprintf("inputs %d - outputs %d = %d, proposed fee is %d", realIn, outTotal, realIn-outTotal, ref.fee))
	}
	// outputs: the multiset of (script, amount) pairs must be the reference one
	usedOut := make([]bool, len(ref.outputs))
	for i, o := range tx.Outputs {
		match, sameScript := -1, -1
		for j, want := range ref.outputs {
			if usedOut[j] || !bytes.Equal(o.PublicKeyScript, want.script) {
				continue
			}
			if sameScript < 0 {
				sameScript = j
			}
			if o.Value == want.value {
				match = j
				break
			}
		}
		switch {
		case match >= 0:
			usedOut[match] = true
			if match != i {
				ordered = false
			}
		case sameScript >= 0:
			usedOut[sameScript] = true
			report("output-value", fmt.Sprintf("output %d (script %x) pays %d, reference amount is %d (outputs %s, reference %s)", i, []byte(o.PublicKeyScript), o.Value, ref.outputs[sameScript].value, c26Render(tx.Outputs), c26RenderRef(ref.outputs)))
		default:
			report("output-script", fmt.Sprintf("output %d pays %d to script %x which is not an intended script (outputs %s, reference %s)", i, o.Value, []byte(o.PublicKeyScript), c26Render(tx.Outputs), c26RenderRef(ref.outputs)))
		}
	}
	for j, u := range usedOut {
		if !u {
			report("output-missing", fmt.Sprintf("intended output %d (%d to script %x) is missing (outputs %s, reference %s)", j, ref.outputs[j].value, ref.outputs[j].script, c26Render(tx.Outputs), c26RenderRef(ref.outputs)))
		}
	}
	if ordered {
		r.Outcome("order:documented")
	} else {
		r.Outcome("order:differs-from-documented")
	}
	cls := fmt.Sprintf("%s:ok:%din-%dout", c.Action, len(tx.Inputs), len(tx.Outputs))
	if c.Action == "redemption" {
		if len(tx.Outputs) == len(c.Requests) {
			cls += ":no-change"
		} else {
			cls += ":change"
		}
	}
	r.Outcome(cls)
	return true
}

func c26Render(outs []*bitcoin.TransactionOutput) string {
	s := "["
	for _, o := range outs {
		s += fmt.Sprintf("%d ", o.Value)
	}
	return s + "]"
}
func c26RenderRef(outs []c26Out) string {
	s := "["
	for _, o := range outs {
		s += fmt.Sprintf("%d ", o.value)
	}
	return s + "]"
}

func c26DedupFees(fs ...int64) []int64 {
	var out []int64
	seen := map[int64]bool{}
	for _, f := range fs {
		if f >= 0 && !seen[f] {
			seen[f] = true
			out = append(out, f)
		}
	}
	return out
}

func c26Cases(thorough bool) []c26Case {
	var cases []c26Case
	values := []int64{546, 100000, 2100000000000000}
	mains := []*c26Utxo{nil, {1, 100000}, {2, 546}, {1, 2100000000000000}}
	maxDeposits, maxRequests, maxTargets := 3, 3, 3
	amounts := []uint64{100000, 100001, 2100000000000000}
	treasuries := []uint64{0, 33}
	if thorough {
		values = []int64{546, 100000, 100001, 2100000000000000}
		mains = []*c26Utxo{nil, {1, 546}, {1, 100000}, {2, 546}, {2, 100003}, {1, 2100000000000000}, {2, 2100000000000000}}
		maxDeposits, maxTargets = 4, 5
		amounts = []uint64{100000, 100001, 5000000000, 2100000000000000}
		treasuries = []uint64{0, 1, 33}
	}
	key := 0
	add := func(c c26Case) {
		c.Key = key % 2
		key++
		cases = append(cases, c)
	}

	// deposit sweep
	var depAlphabet []c26Dep
	for _, v := range values {
		depAlphabet = append(depAlphabet, c26Dep{v, 0}, c26Dep{v, 1})
	}
	var depLists [][]c26Dep
	var gen func(prefix []c26Dep)
	gen = func(prefix []c26Dep) {
		depLists = append(depLists, append([]c26Dep(nil), prefix...))
		if len(prefix) == maxDeposits {
			return
		}
		for _, d := range depAlphabet {
			gen(append(prefix, d))
		}
	}
	gen(nil)
	for _, main := range mains {
		for _, deps := range depLists {
			total := int64(0)
			n := int64(len(deps))
			if main != nil {
				total += main.Value
				n++
			}
			for _, d := range deps {
				total += d.Value
			}
			for _, fee := range c26DedupFees(0, 1, n-1, n, n+1, total-1, total, total+1) {
				add(c26Case{Action: "sweep", Main: main, Deposits: deps, Fee: fee})
			}
		}
	}
	add(c26Case{Action: "sweep", Main: &c26Utxo{3, 100000}, Deposits: []c26Dep{{100000, 1}}, Fee: 10})

	// redemption
	var reqAlphabet []c26Req
	for _, a := range amounts {
		for _, t := range treasuries {
			reqAlphabet = append(reqAlphabet, c26Req{a, t})
		}
	}
	var reqLists [][]c26Req
	var genR func(prefix []c26Req)
	genR = func(prefix []c26Req) {
		reqLists = append(reqLists, append([]c26Req(nil), prefix...))
		if len(prefix) == maxRequests {
			return
		}
		for _, q := range reqAlphabet {
			genR(append(prefix, q))
		}
	}
	genR(nil)
	for _, reqs := range reqLists {
		n := int64(len(reqs))
		for _, delta := range []int64{-1, 0, 1, 100000} {
			for shape := 0; shape <= 2; shape++ {
				for _, fee := range c26DedupFees(0, 1, n-1, n, n+1, 10000, 400000) {
					add(c26Case{Action: "redemption", Main: &c26Utxo{Kind: 1 + int(fee%2)}, Requests: reqs, MainDelta: delta, Shape: shape, Fee: fee})
				}
			}
			// explicit, uneven fee shares
			if n > 0 {
				for _, pat := range [][]int64{{0, 0, 0}, {1, 2, 3}, {5000, 0, 7}} {
					add(c26Case{Action: "redemption", Main: &c26Utxo{Kind: 1}, Requests: reqs, MainDelta: delta, Shape: int(n) % 3, Shares: pat[:n]})
				}
			}
		}
	}
	add(c26Case{Action: "redemption", Main: nil, Requests: reqLists[1], Fee: 10})
	add(c26Case{Action: "redemption", Main: &c26Utxo{Kind: 3}, Requests: reqLists[1], MainDelta: 5, Fee: 10})

	// moving funds
	mfValues := []int64{546, 100000, 100001, 100002, 2100000000000000}
	if thorough {
		mfValues = append(mfValues, 1, 2, 3, 4, 5, 100003, 100004, 2099999999999999)
	}
	for _, v := range mfValues {
		for kind := 1; kind <= 2; kind++ {
			for targets := 0; targets <= maxTargets; targets++ {
				n := int64(targets)
				for _, fee := range c26DedupFees(0, 1, n-1, n, n+1, v-n, v-1, v, v+1) {
					add(c26Case{Action: "moving", Main: &c26Utxo{kind, v}, Targets: targets, Fee: fee})
				}
			}
		}
	}
	add(c26Case{Action: "moving", Main: nil, Targets: 2, Fee: 1})
	add(c26Case{Action: "moving", Main: &c26Utxo{3, 5000}, Targets: 2, Fee: 1})

	// moved funds sweep
	for _, mv := range values {
		for mk := 1; mk <= 2; mk++ {
			for _, main := range mains {
				total := mv
				if main != nil {
					total += main.Value
				}
				for _, fee := range c26DedupFees(0, 1, 2, total-1, total, total+1) {
					add(c26Case{Action: "movedsweep", Moved: &c26Utxo{mk, mv}, Main: main, Fee: fee})
				}
			}
		}
	}
	add(c26Case{Action: "movedsweep", Moved: nil, Main: mains[1], Fee: 1})
	add(c26Case{Action: "movedsweep", Moved: &c26Utxo{3, 777}, Main: mains[1], Fee: 1})
	return cases
}

func TestVerifC26(t *testing.T) {
	r := vrep.Start(t, "C26", "assemble")
	defer r.Finish()
	if rd := r.ReplayData(); rd != nil {
		var c c26Case
		if json.Unmarshal(rd, &c) == nil && c.Action != "" {
			c26Run(r, c)
			r.Eval(1)
		}
		return
	}
	cases := c26Cases(r.Thorough())
	r.Set("cases", len(cases))
	per := map[string]int{}
	for _, c := range cases {
		per[c.Action]++
	}
	for k, v := range per {
		r.Set("cases."+k, v)
	}
	r.Sample(cases[len(cases)/7])
	r.Sample(cases[len(cases)/2])
	r.Sample(cases[len(cases)-10])
	vrep.Parallel(vrep.Workers(), len(cases), func(i int) {
		if r.Expired() {
			return
		}
		if c26Run(r, cases[i]) {
			r.Distinct(cases[i].String())
		}
		r.Eval(1)
	})
}
