//go:build verif

package event

import (
	"encoding/hex"
	"fmt"
	"math/big"
	"sort"
	"strings"
)

// c06Req is one relay-entry-requested notification as the beacon node hands it to the
// deduplicator: start block and hex-encoded previous entry.
type c06Req struct {
	Block uint64 `json:"b"`
	Entry string `json:"e"`
}

func (q c06Req) String() string { return fmt.Sprintf("(%d,%s)", q.Block, q.Entry) }

// c06Ans is what the chain answers when it is consulted during one notification:
// the current request's previous entry and start block, or a failure of the first
// (Fail=1) or second (Fail=2) query.
type c06Ans struct {
	Entry string `json:"e"`
	Block uint64 `json:"b"`
	Fail  int    `json:"f"`
}

func (a c06Ans) String() string {
	if a.Fail != 0 {
		return fmt.Sprintf("fail%d", a.Fail)
	}
	return fmt.Sprintf("chain(%d,%s)", a.Block, a.Entry)
}

func (a c06Ans) confirms(q c06Req) bool {
	return a.Fail == 0 && a.Entry == q.Entry && a.Block == q.Block
}

// c06Op is one notification together with the chain answer it would get.
type c06Op struct {
	Req c06Req `json:"req"`
	Ans c06Ans `json:"ans"`
}

// c06Res is what NotifyRelayEntryStarted returned (OK = start signing) and whether
// the chain was consulted while deciding.
type c06Res struct {
	OK      bool `json:"ok"`
	Err     bool `json:"err"`
	Queried bool `json:"queried"`
}

// c06Ref is the summary of a history that the property statement talks about: the
// set of requests processed so far and the last processed one.
type c06Ref struct {
	accepted map[c06Req]bool
	has      bool
	last     c06Req
	max      uint64
}

func c06NewRef() *c06Ref { return &c06Ref{accepted: map[c06Req]bool{}} }

func (m *c06Ref) clone() *c06Ref {
	n := &c06Ref{accepted: map[c06Req]bool{}, has: m.has, last: m.last, max: m.max}
	for k := range m.accepted {
		n.accepted[k] = true
	}
	return n
}

func (m *c06Ref) key() string {
	var ks []string
	for k := range m.accepted {
		ks = append(ks, k.String())
	}
	sort.Strings(ks)
	return fmt.Sprintf("acc=%s last=%v/%s max=%d", strings.Join(ks, ""), m.has, m.last, m.max)
}

// judge decides whether the result of notification q (chain answer a, consulted or
// not) is allowed by the property statement after a history summarised by m. It
// returns the outcome class and, if the statement is violated, the violated clause
// (kind) and an explanation. Where the statement is silent every result is allowed:
//   - a request in the same block as the last processed one but with another previous
//     entry (not older, not the same request),
//   - a later request reusing the previous entry that the chain does confirm ("only
//     when" is a necessary condition).
func (m *c06Ref) judge(q c06Req, a c06Ans, res c06Res) (class, kind, problem string) {
	if res.OK && res.Err {
		return "accept+error", "accept-with-error", "returned true together with an error"
	}
	switch {
	case !m.has:
		if res.OK {
			return "accept:first", "", ""
		}
		return "reject:first", "new-not-processed", fmt.Sprintf("first request %v was not processed", q)
	case m.accepted[q]:
		if res.OK {
			return "accept:duplicate", "processed-twice", fmt.Sprintf("request %v was processed a second time", q)
		}
		return "reject:duplicate", "", ""
	case q.Block < m.max:
		if res.OK {
			return "accept:older", "older-processed", fmt.Sprintf("request %v processed although a request at block %d was already processed", q, m.max)
		}
		return "reject:older", "", ""
	case q.Block == m.max:
		// same block, other previous entry: statement silent
		if res.OK {
			return "accept:same-block", "", ""
		}
		return "reject:same-block", "", ""
	case q.Entry != m.last.Entry:
		if res.OK {
			return "accept:new-entry", "", ""
		}
		return "reject:new-entry", "new-not-processed", fmt.Sprintf("request %v is later than the last processed %v and has a new previous entry but was not processed (err=%v)", q, m.last, res.Err)
	default:
		// later request reusing the previous entry of the last processed one
		confirmed := res.Queried && a.confirms(q)
		if res.OK && !confirmed {
			how := "the chain was not consulted"
			if res.Queried {
				how = "the chain answered " + a.String()
			}
			return "accept:unconfirmed", "unconfirmed-processed", fmt.Sprintf("request %v reuses the previous entry of the last processed %v and was processed although %s", q, m.last, how)
		}
		switch {
		case res.OK:
			return "accept:confirmed", "", ""
		case res.Err:
			return "error:chain", "", ""
		case confirmed:
			return "reject:confirmed", "", ""
		}
		return "reject:unconfirmed", "", ""
	}
}

func (m *c06Ref) apply(q c06Req, res c06Res) {
	if !res.OK {
		return
	}
	m.accepted[q] = true
	m.has = true
	m.last = q
	if q.Block > m.max {
		m.max = q.Block
	}
}

func c06Answers(entries []string, blocks []uint64) []c06Ans {
	var out []c06Ans
	for _, e := range entries {
		for _, b := range blocks {
			out = append(out, c06Ans{Entry: e, Block: b})
		}
	}
	return append(out, c06Ans{Fail: 1}, c06Ans{Fail: 2})
}

func c06ChainAnswer(a c06Ans, second bool) (entry []byte, block *big.Int, err error) {
	if !second {
		if a.Fail == 1 {
			return nil, nil, fmt.Errorf("previous entry query failed")
		}
		b, derr := hex.DecodeString(a.Entry)
		if derr != nil {
			panic(derr)
		}
		return b, nil, nil
	}
	if a.Fail == 2 {
		return nil, nil, fmt.Errorf("start block query failed")
	}
	return nil, new(big.Int).SetUint64(a.Block), nil
}

// c06RealKey is the white-box state of the real deduplicator.
func c06RealKey(d *Deduplicator) string {
	return fmt.Sprintf("cur=%d/%s", d.currentRequestStartBlock, d.currentRequestPreviousEntry)
}
