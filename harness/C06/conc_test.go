//go:build verif

package event

import (
	"encoding/json"
	"fmt"
	"math/big"
	"sort"
	"strings"
	"testing"

	"github.com/keep-network/keep-core/pkg/verifshim/vrep"
	"github.com/keep-network/keep-core/pkg/verifshim/vsched"
)

// c06Scenario: a sequential prefix (delivered by the main thread, chain answers fixed)
// followed by one notification per concurrent thread (chain answers chosen by the
// explorer at the moment the chain is consulted).
type c06Scenario struct {
	Prefix  []c06Op  `json:"prefix"`
	Threads []c06Req `json:"threads"`
}

func (sc c06Scenario) String() string {
	var p, th []string
	for _, o := range sc.Prefix {
		p = append(p, o.Req.String())
	}
	for _, q := range sc.Threads {
		th = append(th, q.String())
	}
	return "prefix[" + strings.Join(p, "") + "] threads[" + strings.Join(th, "|") + "]"
}

type c06Call struct {
	Req       c06Req
	Ans       c06Ans
	Res       c06Res
	Call, Ret int
	Done      bool
	fixed     bool
}

type c06Obs struct {
	tick   int
	prefix []c06Call
	calls  []c06Call
	real   string
}

// c06ConcChain is the chain as seen by one Deduplicator shared by all threads. A
// consultation is a scheduling point (it is an RPC in production).
type c06ConcChain struct {
	answers []c06Ans
	cur     map[int]*c06Call
}

func (c *c06ConcChain) answer() c06Ans {
	call := c.cur[vsched.ThreadID()]
	if !call.Res.Queried {
		call.Res.Queried = true
		if !call.fixed {
			call.Ans = c.answers[vsched.Choose(len(c.answers), "chain")]
		}
	}
	vsched.Yield()
	return call.Ans
}

func (c *c06ConcChain) CurrentRequestPreviousEntry() ([]byte, error) {
	e, _, err := c06ChainAnswer(c.answer(), false)
	return e, err
}

func (c *c06ConcChain) CurrentRequestStartBlock() (*big.Int, error) {
	_, b, err := c06ChainAnswer(c.answer(), true)
	return b, err
}

func c06Body(sc c06Scenario, answers []c06Ans, obs *c06Obs) func() {
	return func() {
		*obs = c06Obs{}
		chain := &c06ConcChain{answers: answers, cur: map[int]*c06Call{}}
		d := NewDeduplicator(chain)
		obs.prefix = make([]c06Call, len(sc.Prefix))
		for i, op := range sc.Prefix {
			c := &obs.prefix[i]
			c.Req, c.Ans, c.fixed = op.Req, op.Ans, true
			chain.cur[vsched.ThreadID()] = c
			ok, err := d.NotifyRelayEntryStarted(op.Req.Block, op.Req.Entry)
			c.Res.OK, c.Res.Err, c.Done = ok, err != nil, true
		}
		obs.calls = make([]c06Call, len(sc.Threads))
		done := 0
		for i := range sc.Threads {
			i := i
			vsched.Go(func() {
				c := &obs.calls[i]
				c.Req = sc.Threads[i]
				chain.cur[vsched.ThreadID()] = c
				c.Call = obs.tick
				obs.tick++
				ok, err := d.NotifyRelayEntryStarted(c.Req.Block, c.Req.Entry)
				c.Res.OK, c.Res.Err = ok, err != nil
				c.Ret = obs.tick
				obs.tick++
				c.Done = true
				done++
			})
		}
		vsched.Block("all notifications returned", func() bool { return done == len(sc.Threads) })
		obs.real = c06RealKey(d)
	}
}

func c06CallString(c c06Call) string {
	s := c.Req.String()
	if c.Res.Queried {
		s += "?" + c.Ans.String()
	}
	switch {
	case c.Res.OK:
		s += "=start"
	case c.Res.Err:
		s += "=error"
	default:
		s += "=ignore"
	}
	return s
}

// c06Linearizable searches a serialisation of the completed concurrent calls that is
// consistent with their real-time order and allowed by the reference step by step.
func c06Linearizable(ref *c06Ref, calls []c06Call) (ok bool, tried int, why []string) {
	n := len(calls)
	idx := make([]int, n)
	for i := range idx {
		idx[i] = i
	}
	var perm func(k int) bool
	perm = func(k int) bool {
		if k == n {
			// real-time order
			for a := 0; a < n; a++ {
				for b := a + 1; b < n; b++ {
					if calls[idx[b]].Ret < calls[idx[a]].Call {
						return false // idx[b] returned before idx[a] was called but is ordered after it
					}
				}
			}
			tried++
			m := ref.clone()
			var order []string
			for _, i := range idx {
				c := calls[i]
				order = append(order, c06CallString(c))
				if _, _, problem := m.judge(c.Req, c.Ans, c.Res); problem != "" {
					why = append(why, strings.Join(order, " ; ")+": "+problem)
					return false
				}
				m.apply(c.Req, c.Res)
			}
			return true
		}
		for i := k; i < n; i++ {
			idx[k], idx[i] = idx[i], idx[k]
			if perm(k + 1) {
				return true
			}
			idx[k], idx[i] = idx[i], idx[k]
		}
		return false
	}
	return perm(0), tried, why
}

func TestVerifC06Conc(t *testing.T) {
	r := vrep.Start(t, "C06", "conc")
	defer r.Finish()
	type replay struct {
		Scenario c06Scenario `json:"scenario"`
		Choices  []int       `json:"choices"`
		Bound    int         `json:"bound"`
		Answers  []c06Ans    `json:"answers"`
	}
	var obs c06Obs
	evaluate := func(sc c06Scenario, answers []c06Ans, bound int, s *vsched.Sched) {
		r.Eval(1)
		r.Transition(len(s.Choices()) + 1)
		rp := replay{sc, s.Choices(), bound, answers}
		var hs []string
		for _, c := range obs.calls {
			hs = append(hs, fmt.Sprintf("%s@[%d,%d]", c06CallString(c), c.Call, c.Ret))
		}
		hist := strings.Join(hs, " ")
		fail := func(kind, what string) {
			r.ViolationMin("conc:"+kind, len(sc.Threads)*100000+len(sc.Prefix)*10000+len(s.Choices()), "conc "+kind+" "+sc.String(),
				what+" [scenario "+sc.String()+"; calls "+hist+"; schedule "+s.Trace()+"]", rp)
		}
		if p, stack := s.Failed(); p != nil {
			fail("panic", fmt.Sprintf("panic: %v\n%s", p, stack))
			return
		}
		if s.StepCapHit {
			r.Cap("step-cap")
			return
		}
		if len(s.Deadlock) > 0 {
			fail("deadlock", fmt.Sprintf("notifications never returned: %v", s.Deadlock))
			return
		}
		// the sequential prefix is judged like the sequential leg
		ref := c06NewRef()
		for _, c := range obs.prefix {
			if _, kind, problem := ref.judge(c.Req, c.Ans, c.Res); problem != "" {
				fail("prefix-"+kind, problem)
			}
			ref.apply(c.Req, c.Res)
		}
		var res []string
		for _, c := range obs.calls {
			res = append(res, c06CallString(c))
		}
		sort.Strings(res)
		key := sc.String() + " " + strings.Join(res, " ") + " " + obs.real
		r.State(key)
		accepted := 0
		for _, c := range obs.calls {
			if c.Res.OK {
				accepted++
			}
		}
		r.Outcome(fmt.Sprintf("threads=%d started=%d", len(obs.calls), accepted))
		if s.Trace() != "" {
			r.Distinct(fmt.Sprintf("%s|%v", sc.String(), s.Choices()))
		}
		ok, tried, why := c06Linearizable(ref, obs.calls)
		r.Add("serialisations_tried", int64(tried))
		if !ok {
			fail("not-linearizable", fmt.Sprintf("no serialisation of the concurrent notifications is allowed by the sequential rule: %s", strings.Join(why, " || ")))
		}
	}
	if rd := r.ReplayData(); rd != nil {
		var rp replay
		if json.Unmarshal(rd, &rp) == nil && len(rp.Scenario.Threads) > 0 {
			s := vsched.Replay(rp.Choices, vsched.Options{Bound: rp.Bound}, c06Body(rp.Scenario, rp.Answers, &obs))
			evaluate(rp.Scenario, rp.Answers, rp.Bound, s)
		}
		return
	}

	menu := []c06Req{{1, "0a"}, {2, "0a"}, {2, "0b"}, {3, "0a"}, {3, "0b"}}
	answers := c06Answers([]string{"0a", "0b"}, []uint64{2, 3})
	type c06Class struct {
		threads, bound int
		prefixes       [][]c06Op
	}
	p0, p1, p2 := []c06Op(nil), []c06Op{{Req: c06Req{1, "0a"}}}, []c06Op{{Req: c06Req{1, "0a"}}, {Req: c06Req{2, "0b"}}}
	classes := []c06Class{{2, 2, [][]c06Op{p0, p1}}}
	if r.Thorough() {
		// two threads deeper, three threads at the quick bound
		classes = []c06Class{{2, 3, [][]c06Op{p0, p1, p2}}, {3, 2, [][]c06Op{p0, p1}}}
	}
	var scenarios []c06Scenario
	var bounds []int
	for _, cl := range classes {
		// multisets of size k over the menu (threads are symmetric)
		var rec func(start int, cur []c06Req)
		rec = func(start int, cur []c06Req) {
			if len(cur) == cl.threads {
				for _, p := range cl.prefixes {
					scenarios = append(scenarios, c06Scenario{p, append([]c06Req{}, cur...)})
					bounds = append(bounds, cl.bound)
				}
				return
			}
			for i := start; i < len(menu); i++ {
				rec(i, append(cur, menu[i]))
			}
		}
		rec(0, nil)
	}
	shard, shards := r.Shard()
	if shard == 0 {
		// vcheck sums extra keys over shard processes
		r.Set("scenarios", len(scenarios))
		for _, cl := range classes {
			r.Set(fmt.Sprintf("preemption_bound_%d_threads", cl.threads), cl.bound)
		}
	}
	for si, sc := range scenarios {
		if si == 0 && shard == 0 {
			a := vsched.Replay(nil, vsched.Options{}, c06Body(sc, answers, &obs))
			oa := fmt.Sprintf("%+v", obs)
			b := vsched.Replay(nil, vsched.Options{}, c06Body(sc, answers, &obs))
			if !vsched.SameRun(a, b) || oa != fmt.Sprintf("%+v", obs) {
				t.Fatalf("NONDETERMINISM: two runs of the empty script differ")
			}
			r.ReplayedTwice(1)
			r.Sample(map[string]any{"scenario": sc.String(), "script": a.Choices(), "observed": oa})
		}
		maxBound := bounds[si]
		for bound := 0; bound <= maxBound; bound++ {
			if bound < maxBound && shard != 0 {
				continue
			}
			st := vsched.Explore(vsched.Options{Bound: bound, Shard: shard, Shards: shards, Stop: r.Expired},
				c06Body(sc, answers, &obs), func(s *vsched.Sched) { evaluate(sc, answers, bound, s) })
			if bound < maxBound {
				r.Add(fmt.Sprintf("bound%d_execs", bound), st.Execs)
			}
			if st.Stopped {
				r.Cap(fmt.Sprintf("%s bound %d not completed", sc.String(), bound))
			}
			if r.Violations() > 0 && bound < maxBound {
				break
			}
		}
	}
}
