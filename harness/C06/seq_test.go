//go:build verif

package event

import (
	"encoding/json"
	"fmt"
	"math/big"
	"testing"

	"github.com/keep-network/keep-core/pkg/verifshim/vrep"
)

// c06SeqChain answers every consultation of one notification with a fixed answer and
// remembers that it was consulted.
type c06SeqChain struct {
	ans     c06Ans
	queried bool
}

func (c *c06SeqChain) CurrentRequestPreviousEntry() ([]byte, error) {
	c.queried = true
	e, _, err := c06ChainAnswer(c.ans, false)
	return e, err
}

func (c *c06SeqChain) CurrentRequestStartBlock() (*big.Int, error) {
	c.queried = true
	_, b, err := c06ChainAnswer(c.ans, true)
	return b, err
}

// c06Run replays hist on a fresh Deduplicator and returns it together with the result
// of every operation. A panic is returned as such.
func c06Run(hist []c06Op) (d *Deduplicator, results []c06Res, panicked any, stack string) {
	chain := &c06SeqChain{}
	d = NewDeduplicator(chain)
	panicked, stack = vrep.Guard(func() {
		for _, op := range hist {
			chain.ans, chain.queried = op.Ans, false
			ok, err := d.NotifyRelayEntryStarted(op.Req.Block, op.Req.Entry)
			results = append(results, c06Res{OK: ok, Err: err != nil, Queried: chain.queried})
		}
	})
	return
}

type c06Node struct {
	hist []c06Op
	ref  *c06Ref
}

func c06HistString(h []c06Op, rs []c06Res) string {
	s := ""
	for i, op := range h {
		s += op.Req.String()
		if i < len(rs) {
			if rs[i].Queried {
				s += "?" + op.Ans.String()
			}
			switch {
			case rs[i].OK:
				s += "=start "
			case rs[i].Err:
				s += "=error "
			default:
				s += "=ignore "
			}
		}
	}
	return s
}

func TestVerifC06Seq(t *testing.T) {
	r := vrep.Start(t, "C06", "seq")
	defer r.Finish()

	// check one complete history step by step against the reference
	checkHistory := func(hist []c06Op) {
		_, results, p, stack := c06Run(hist)
		if p != nil {
			r.ViolationMin("seq:panic", len(hist), "seq panic "+c06HistString(hist, nil), fmt.Sprintf("panic: %v\n%s", p, stack), hist)
			return
		}
		ref := c06NewRef()
		for i, op := range hist {
			_, kind, problem := ref.judge(op.Req, op.Ans, results[i])
			if problem != "" {
				r.ViolationMin("seq:"+kind, i+1, "seq "+kind+" "+c06HistString(hist[:i+1], results), problem+" [history "+c06HistString(hist[:i+1], results)+"]", hist[:i+1])
			}
			ref.apply(op.Req, results[i])
		}
	}

	if rd := r.ReplayData(); rd != nil {
		var hist []c06Op
		if json.Unmarshal(rd, &hist) == nil && len(hist) > 0 {
			checkHistory(hist)
			r.Eval(1)
		}
		return
	}

	blocks := []uint64{1, 2, 3}
	entries := []string{"0a", "0b"}
	dfsLen := 4
	if r.Thorough() {
		blocks = []uint64{1, 2, 3, 4, 5}
		entries = []string{"0a", "0b", "0c"}
	}
	var reqs []c06Req
	for _, b := range blocks {
		for _, e := range entries {
			reqs = append(reqs, c06Req{b, e})
		}
	}
	answers := c06Answers(entries, blocks)
	r.Set("notifications", len(reqs))
	r.Set("chain_answers", len(answers))

	// ---- leg 1: explicit-state BFS to fixpoint ----
	root := c06Node{nil, c06NewRef()}
	d0, _, _, _ := c06Run(nil)
	r.State(c06RealKey(d0) + "|" + root.ref.key())
	frontier := []c06Node{root}
	depth := 0
	sampled := 0
	for len(frontier) > 0 && !r.Expired() {
		var next []c06Node
		for _, node := range frontier {
			for _, req := range reqs {
				// probe with the first answer: if the chain is not consulted the answer
				// is irrelevant and there is a single successor
				alts := answers[:1]
				for i := 0; i < len(alts); i++ {
					op := c06Op{req, alts[i]}
					hist := append(append([]c06Op{}, node.hist...), op)
					d, results, p, stack := c06Run(hist)
					r.Eval(1)
					r.Transition(1)
					if p != nil {
						r.ViolationMin("seq:panic", len(hist), "seq panic "+c06HistString(hist, nil), fmt.Sprintf("panic: %v\n%s", p, stack), hist)
						continue
					}
					res := results[len(results)-1]
					if i == 0 && res.Queried {
						alts = answers
					}
					class, kind, problem := node.ref.judge(req, op.Ans, res)
					r.Outcome(class)
					if node.ref.has {
						r.Distinct(fmt.Sprintf("%s|%v|%v|%v", node.ref.key(), req, res.Queried, op.Ans))
					}
					if problem != "" {
						r.ViolationMin("seq:"+kind, len(hist), "seq "+kind+" "+c06HistString(hist, results), problem+" [history "+c06HistString(hist, results)+"]", hist)
					}
					if sampled < 3 && res.Queried && len(hist) >= 2 {
						sampled++
						r.Sample(map[string]any{"history": c06HistString(hist, results), "class": class})
					}
					ref2 := node.ref.clone()
					ref2.apply(req, res)
					if r.State(c06RealKey(d) + "|" + ref2.key()) {
						next = append(next, c06Node{hist, ref2})
					}
				}
			}
		}
		frontier = next
		depth++
	}
	if len(frontier) > 0 {
		r.Cap("BFS stopped by the deadline before the fixpoint")
	} else {
		r.Set("bfs_fixpoint_depth", depth)
	}

	// ---- leg 2: every history up to dfsLen, no state merging (cross-check of the
	// merged search: the same step oracle applied along complete histories) ----
	if r.Thorough() {
		// one block less than the BFS alphabet keeps the unmerged tree near 10^6 histories
		reqs = reqs[:len(reqs)-len(entries)]
		answers = c06Answers(entries, blocks[:len(blocks)-1])
	}
	var histories int64
	var rec func(hist []c06Op, ref *c06Ref)
	rec = func(hist []c06Op, ref *c06Ref) {
		if len(hist) == dfsLen || r.Expired() {
			return
		}
		for _, req := range reqs {
			alts := answers[:1]
			for i := 0; i < len(alts); i++ {
				h := append(append([]c06Op{}, hist...), c06Op{req, alts[i]})
				_, results, p, stack := c06Run(h)
				r.Eval(1)
				histories++
				if p != nil {
					r.ViolationMin("seq:panic", len(h), "seq panic "+c06HistString(h, nil), fmt.Sprintf("panic: %v\n%s", p, stack), h)
					continue
				}
				res := results[len(results)-1]
				if i == 0 && res.Queried {
					alts = answers
				}
				_, kind, problem := ref.judge(req, alts[i], res)
				if problem != "" {
					r.ViolationMin("seq:"+kind, len(h), "seq "+kind+" "+c06HistString(h, results), problem+" [history "+c06HistString(h, results)+"]", h)
				}
				ref2 := ref.clone()
				ref2.apply(req, res)
				rec(h, ref2)
			}
		}
	}
	rec(nil, c06NewRef())
	r.Set("histories_unmerged", histories)
	r.Set("history_length", dfsLen)
	if r.Expired() {
		r.Cap("unmerged history enumeration stopped by the deadline")
	}
}
