//go:build verif

package event

import (
	"encoding/hex"
	"math/big"
	"sync"
	"testing"

	"github.com/keep-network/keep-core/pkg/verifshim/vrep"
)

// c06RaceChain always confirms request (3, 0a) as current.
type c06RaceChain struct{}

func (c06RaceChain) CurrentRequestPreviousEntry() ([]byte, error) {
	return hex.DecodeString("0a")
}

func (c06RaceChain) CurrentRequestStartBlock() (*big.Int, error) {
	return big.NewInt(3), nil
}

// Free-running pass under the race detector: one Deduplicator, one goroutine per
// notification exactly like the handler in pkg/beacon/beacon.go. Side condition of the
// scheduled leg (a cooperative scheduler cannot see unsynchronised accesses).
func TestVerifC06Race(t *testing.T) {
	r := vrep.Start(t, "C06", "race")
	defer r.Finish()
	if r.ReplayData() != nil {
		return
	}
	rounds := 50
	if r.Thorough() {
		rounds = 2000
	}
	reqs := []c06Req{{1, "0a"}, {2, "0b"}, {3, "0a"}, {3, "0a"}, {2, "0a"}, {3, "0b"}}
	for i := 0; i < rounds; i++ {
		d := NewDeduplicator(c06RaceChain{})
		var wg sync.WaitGroup
		var mu sync.Mutex
		started := map[c06Req]int{}
		for _, q := range reqs {
			q := q
			wg.Add(1)
			go func() {
				defer wg.Done()
				ok, _ := d.NotifyRelayEntryStarted(q.Block, q.Entry)
				if ok {
					mu.Lock()
					started[q]++
					mu.Unlock()
				}
			}()
		}
		wg.Wait()
		r.Eval(1)
		for q, n := range started {
			if n > 1 {
				r.Violation("race processed-twice "+q.String(), "free-running goroutines: request "+q.String()+" was processed more than once", nil)
			}
		}
		r.Distinct("round")
		r.Distinct(c06RealKey(d))
	}
	r.Outcome("completed")
	r.Sample("6 notifications (two identical) through one Deduplicator with real goroutines, under -race")
}
