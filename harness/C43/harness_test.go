//go:build verif

package btcdiff

import (
	"context"
	"encoding/json"
	"fmt"
	"math/big"
	"strings"
	"testing"

	"github.com/ipfs/go-log/v2"

	"github.com/keep-network/keep-core/pkg/bitcoin"
	"github.com/keep-network/keep-core/pkg/chain"
	"github.com/keep-network/keep-core/pkg/chain/local_v1"
	"github.com/keep-network/keep-core/pkg/operator"
	"github.com/keep-network/keep-core/pkg/verifshim/vctx"
	"github.com/keep-network/keep-core/pkg/verifshim/vrep"
	"github.com/keep-network/keep-core/pkg/verifshim/vsched"
)

// ---------------------------------------------------------------------------------
// Environment model. The real control loop (instrumented: time.After / select /
// context on the virtual clock) runs as the only logical thread; every answer of the
// Bitcoin chain and of the relay is an explorer choice made inside the fake at the
// moment of the query:
//
//	GetLatestBlockHeight   0, 1 or 2 new blocks were mined since the last poll (free
//	                       choice while the tip is near an epoch boundary); the
//	                       operator may cancel the context (deviation)
//	CurrentEpoch           default: an accepted submission is reflected at once;
//	                       deviations: the relay lags (still the old epoch), someone
//	                       else proved one / two more epochs, governance changed the
//	                       proof length, the context is cancelled
//	Ready / IsAuthorized*  yes (default) / no / error (deviations)
//	Retarget*              accepted (default) / fails (deviation)
//
// Truth (relay epoch, proof length, tip) only changes inside these queries, so the
// answers of one maintainer step are mutually consistent.
// ---------------------------------------------------------------------------------

const (
	c43EpochLen   = 2016
	c43StartEpoch = 299 // relay's proven epoch at the start
)

var (
	c43Signer chain.Signing
)

func c43Init() {
	if c43Signer == nil {
		key, _, err := operator.GenerateKeyPair(local_v1.DefaultCurve)
		if err != nil {
			panic(err)
		}
		c43Signer = local_v1.NewSigner(key)
		_ = log.SetLogLevel("keep-maintainer-btcdiff", "fatal")
	}
}

// c43Header is the canonical header of a height (pure function of the height).
func c43Header(height uint) *bitcoin.BlockHeader {
	var prev bitcoin.Hash
	prev[0], prev[1], prev[2], prev[3] = byte(height-1), byte((height-1)>>8), byte((height-1)>>16), 0x43
	return &bitcoin.BlockHeader{
		Version:                 0x20000000,
		PreviousBlockHeaderHash: prev,
		Time:                    1600000000 + uint32(height)*600,
		Bits:                    0x1d00ffff - uint32(height/c43EpochLen),
		Nonce:                   uint32(height),
	}
}

type c43Event struct {
	Kind     string // ready auth height epoch prooflen header submit
	Method   string // for auth / submit: which chain method
	Val      int64  // answer (height, epoch, proof length, header height) or 1/0 for booleans
	Err      bool
	Heights  []uint // submit: heights of the submitted headers (0 = not a canonical header)
	Addr     string
	Epoch    uint64 // truth at the time of the event (after the environment's move)
	Pending  uint64
	L        uint64
	Tip      uint
	Canceled bool
}

type c43Scenario struct {
	ProofLength  uint64 `json:"proof_length"`
	TipOffset    int    `json:"tip_offset_from_next_epoch_start"`
	DisableProxy bool   `json:"disable_proxy"`
	Growth       int    `json:"free_growth_per_poll"`      // 0..Growth blocks per height poll, free choice
	ExtraGrowth  bool   `json:"extra_block_as_deviation"` // one more block at the cost of a deviation
	Horizon      int    `json:"horizon_polls"`
}

type c43Env struct {
	sc      c43Scenario
	epoch   uint64 // relay's current (reported) epoch
	pending uint64 // epoch of an accepted submission the relay does not report yet (0 none)
	l       uint64
	tip     uint
	cancel  context.CancelFunc
	done    bool // context cancelled
	events  []c43Event
	states  []c43State
}

func (e *c43Env) boundary(epoch uint64) uint { return uint(epoch) * c43EpochLen }

func (e *c43Env) record(ev c43Event) {
	ev.Epoch, ev.Pending, ev.L, ev.Tip, ev.Canceled = e.epoch, e.pending, e.l, e.tip, e.done
	e.events = append(e.events, ev)
	clip := func(v int) int {
		if v < -6 {
			return -6
		}
		if v > 6 {
			return 6
		}
		return v
	}
	rel1 := clip(int(e.tip) - int(e.boundary(e.epoch+1)))
	rel2 := clip(int(e.tip) - int(e.boundary(e.epoch+2)))
	e.states = append(e.states, c43State{e.sc.ProofLength, e.sc.DisableProxy, ev.Kind, e.epoch - c43StartEpoch, e.pending, e.l, rel1, rel2, e.done})
}

// c43State is the canonical observable state after a query.
type c43State struct {
	l0       uint64
	noProxy  bool
	query    string
	epoch    uint64 // relative to the start epoch
	pending  uint64
	l        uint64
	rel1     int // tip relative to the first block of relay epoch+1, clipped to +-6
	rel2     int // ... of relay epoch+2
	canceled bool
}

func (e *c43Env) maybeCancel(where string) {
	if !e.done && vsched.Deviate(2, "cancel@"+where) == 1 {
		e.done = true
		e.cancel()
	}
}

// ---- bitcoin.Chain ----

type c43Btc struct {
	bitcoin.Chain
	e *c43Env
}

func (b *c43Btc) GetLatestBlockHeight() (uint, error) {
	e := b.e
	// growth only matters near an epoch boundary the maintainer may look at
	near := false
	for d := uint64(1); d <= 3; d++ {
		rel := int(e.tip) - int(e.boundary(e.epoch+d))
		if rel >= -6 && rel <= 4 {
			near = true
		}
	}
	if near {
		e.tip += uint(vsched.Choose(e.sc.Growth+1, "mined"))
	}
	e.maybeCancel("height")
	e.record(c43Event{Kind: "height", Val: int64(e.tip)})
	return e.tip, nil
}

func (b *c43Btc) GetBlockHeader(height uint) (*bitcoin.BlockHeader, error) {
	e := b.e
	if height > e.tip || height == 0 {
		e.record(c43Event{Kind: "header", Val: int64(height), Err: true})
		return nil, fmt.Errorf("block header at height %d does not exist", height)
	}
	e.record(c43Event{Kind: "header", Val: int64(height)})
	return c43Header(height), nil
}

// ---- btcdiff.Chain ----

type c43Relay struct {
	e *c43Env
}

func (r *c43Relay) tri(label string) (bool, error) {
	switch vsched.Deviate(3, label) {
	case 1:
		return false, nil
	case 2:
		return false, fmt.Errorf("%s: rpc error", label)
	}
	return true, nil
}

func (r *c43Relay) Ready() (bool, error) {
	ok, err := r.tri("ready")
	r.e.record(c43Event{Kind: "ready", Val: b2i(ok), Err: err != nil})
	return ok, err
}

func b2i(b bool) int64 {
	if b {
		return 1
	}
	return 0
}

func (r *c43Relay) auth(method string, address chain.Address) (bool, error) {
	ok, err := r.tri("authorized")
	r.e.record(c43Event{Kind: "auth", Method: method, Val: b2i(ok), Err: err != nil, Addr: string(address)})
	return ok, err
}

func (r *c43Relay) IsAuthorized(address chain.Address) (bool, error) {
	return r.auth("IsAuthorized", address)
}

func (r *c43Relay) IsAuthorizedForRefund(address chain.Address) (bool, error) {
	return r.auth("IsAuthorizedForRefund", address)
}

func (r *c43Relay) Signing() chain.Signing { return c43Signer }

func (r *c43Relay) submit(method string, headers []*bitcoin.BlockHeader) error {
	e := r.e
	var heights []uint
	for _, h := range headers {
		height := uint(0)
		if h != nil {
			height = uint(h.Nonce)
			if *h != *c43Header(height) {
				height = 0
			}
		}
		heights = append(heights, height)
	}
	failed := vsched.Deviate(2, "submission-fails") == 1
	e.record(c43Event{Kind: "submit", Method: method, Heights: heights, Err: failed})
	if failed {
		return fmt.Errorf("transaction reverted")
	}
	if e.pending < e.epoch+1 {
		e.pending = e.epoch + 1
	}
	return nil
}

func (r *c43Relay) Retarget(headers []*bitcoin.BlockHeader) error {
	return r.submit("Retarget", headers)
}

func (r *c43Relay) RetargetWithRefund(headers []*bitcoin.BlockHeader) error {
	return r.submit("RetargetWithRefund", headers)
}

func (r *c43Relay) CurrentEpoch() (uint64, error) {
	e := r.e
	// environment's move
	type move struct {
		name string
		do   func()
	}
	moves := []move{{"default", func() {
		if e.pending > e.epoch {
			e.epoch = e.pending
		}
	}}}
	if e.pending > e.epoch {
		moves = append(moves, move{"relay-lags", func() {}})
	}
	moves = append(moves,
		move{"other-maintainer+1", func() { e.epoch++ }},
		move{"other-maintainer+2", func() { e.epoch += 2 }},
		move{"proof-length-changes", func() {
			if e.l < 3 {
				e.l++
			} else {
				e.l--
			}
		}},
	)
	k := vsched.Deviate(len(moves), "relay")
	moves[k].do()
	if e.pending <= e.epoch {
		e.pending = 0
	}
	e.maybeCancel("epoch")
	e.record(c43Event{Kind: "epoch", Val: int64(e.epoch), Method: moves[k].name})
	return e.epoch, nil
}

func (r *c43Relay) ProofLength() (uint64, error) {
	r.e.record(c43Event{Kind: "prooflen", Val: int64(r.e.l)})
	return r.e.l, nil
}

func (r *c43Relay) GetCurrentAndPrevEpochDifficulty() (*big.Int, *big.Int, error) {
	panic("c43: unexpected query GetCurrentAndPrevEpochDifficulty")
}

// ---- one execution ----

func c43Body(sc c43Scenario, out **c43Env) func() {
	return func() {
		e := &c43Env{sc: sc, epoch: c43StartEpoch, l: sc.ProofLength}
		e.tip = uint(int(e.boundary(c43StartEpoch+1)) + sc.TipOffset)
		*out = e
		ctx, cancel := vctx.WithCancel(context.Background())
		e.cancel = cancel
		// zero back-off times: the defaults of Initialize (60 s / 120 s) apply
		cfg := Config{DisableProxy: sc.DisableProxy}
		if cfg.RestartBackOffTime == 0 {
			cfg.RestartBackOffTime = bitcoinDifficultyDefaultRestartBackoffTime
		}
		if cfg.IdleBackOffTime == 0 {
			cfg.IdleBackOffTime = bitcoinDifficultyDefaultIdleBackOffTime
		}
		bdm := &bitcoinDifficultyMaintainer{config: cfg, btcChain: &c43Btc{e: e}, chain: &c43Relay{e: e}}
		bdm.startControlLoop(ctx)
	}
}

// ---- oracle: an independent pass over the event log ----

type c43Finding struct{ kind, what string }

func c43Check(sc c43Scenario, evs []c43Event) (fs []c43Finding, outcomes []string) {
	add := func(kind, format string, a ...any) {
		fs = append(fs, c43Finding{kind, fmt.Sprintf(format, a...)})
	}
	wantMethod, wantAuth := "RetargetWithRefund", "IsAuthorizedForRefund"
	if sc.DisableProxy {
		wantMethod, wantAuth = "Retarget", "IsAuthorized"
	}
	var (
		readyOK, eligible bool
		awaiting          uint64 // accepted submission for this epoch; relay has not reported >= it yet
		submitted         = map[uint64]bool{}
		seen              = map[string]bool{}
	)
	out := func(s string) {
		if !seen[s] {
			seen[s] = true
			outcomes = append(outcomes, s)
		}
	}
	// step bookkeeping
	type step struct {
		height          int64
		epoch, l        int64
		haveE, haveL    bool
		headerReq       []int64
		submittedInStep bool
	}
	var cur *step
	closeStep := func(next string) {
		if cur == nil || !cur.haveE || !cur.haveL {
			cur = nil
			return
		}
		last := (cur.epoch+1)*c43EpochLen + cur.l - 1
		if cur.height >= last && !cur.submittedInStep && next != "end" {
			// all 2L headers exist (the chain never shrinks) yet the step ended without
			// a submission
			add("not-submitted", "a step saw height %d >= last needed header %d for epoch %d (proof length %d) but moved on to %q without submitting",
				cur.height, last, cur.epoch+1, cur.l, next)
		}
		if cur.height >= last {
			out("step:provable")
		} else if cur.height >= (cur.epoch+1)*c43EpochLen {
			out("step:epoch-started-headers-missing")
		} else {
			out("step:up-to-date")
		}
		cur = nil
	}
	for i, ev := range evs {
		// "waits for the relay to reach that epoch before moving on"
		if awaiting != 0 && ev.Kind != "epoch" {
			add("moved-on-early", "after the accepted submission for epoch %d the maintainer issued %q (event %d) although the relay has not reported epoch >= %d yet",
				awaiting, ev.Kind+ev.Method, i, awaiting)
			awaiting = 0
		}
		switch ev.Kind {
		case "ready":
			closeStep("ready")
			readyOK, eligible = ev.Val == 1 && !ev.Err, false
			if ev.Err {
				out("ready:error")
			} else {
				out(fmt.Sprintf("ready:%d", ev.Val))
			}
		case "auth":
			ok := ev.Val == 1 && !ev.Err
			if ev.Err {
				out("authorized:error")
			} else {
				out(fmt.Sprintf("authorized:%d", ev.Val))
			}
			if ok && ev.Method == wantAuth && ev.Addr == string(c43Signer.Address()) && readyOK {
				eligible = true
			}
		case "height":
			closeStep("height")
			cur = &step{height: ev.Val}
		case "epoch":
			if awaiting != 0 {
				if uint64(ev.Val) >= awaiting {
					awaiting = 0
					out("wait:relay-caught-up")
				} else {
					out("wait:relay-lags")
				}
				if ev.Canceled {
					awaiting = 0
				}
				break
			}
			if cur != nil && !cur.haveE {
				cur.epoch, cur.haveE = ev.Val, true
			}
		case "prooflen":
			if cur != nil {
				cur.l, cur.haveL = ev.Val, true
			}
		case "header":
			if cur != nil {
				cur.headerReq = append(cur.headerReq, ev.Val)
			}
		case "submit":
			if cur != nil {
				cur.submittedInStep = true
			}
			target := ev.Epoch + 1 // the epoch after the relay's current one (truth)
			first := uint(target)*c43EpochLen - uint(ev.L)
			last := uint(target)*c43EpochLen + uint(ev.L) - 1
			var want []uint
			for h := first; h <= last; h++ {
				want = append(want, h)
			}
			if !eligible {
				add("not-eligible", "%s called although the last eligibility check did not pass (ready and %s for the maintainer's address)", ev.Method, wantAuth)
			}
			if ev.Method != wantMethod {
				add("wrong-path", "submitted through %s with DisableProxy=%v", ev.Method, sc.DisableProxy)
			}
			if fmt.Sprint(ev.Heights) != fmt.Sprint(want) {
				kind := "wrong-range"
				if len(ev.Heights) > 0 && len(ev.Heights)%2 == 0 {
					mid := ev.Heights[len(ev.Heights)/2]
					if mid%c43EpochLen == 0 && uint64(mid/c43EpochLen) != target {
						kind = "wrong-epoch"
					}
				}
				add(kind, "submitted headers %v; the relay is at epoch %d with proof length %d, so exactly %v (epoch %d) is due", ev.Heights, ev.Epoch, ev.L, want, target)
			} else if ev.Tip < last {
				add("not-mined", "submitted up to %d but the chain tip is %d", last, ev.Tip)
			}
			if ev.Pending >= target && submitted[target] {
				add("submitted-twice", "second submission for epoch %d while the accepted first one is not yet reported by the relay (relay still at %d)", target, ev.Epoch)
			}
			if ev.Err {
				out("submit:failed")
			} else {
				out("submit:accepted")
				submitted[target] = true
				awaiting = target
			}
		}
		if ev.Canceled {
			out("cancelled")
			awaiting = 0
		}
	}
	closeStep("end")
	return
}

// ---- test ----

type c43Replay struct {
	Scenario c43Scenario `json:"scenario"`
	Choices  []int       `json:"choices"`
	Bound    int         `json:"bound"`
}

func c43Render(evs []c43Event) string {
	var b strings.Builder
	for _, ev := range evs {
		switch ev.Kind {
		case "submit":
			fmt.Fprintf(&b, "%s%v(err=%v) ", ev.Method, ev.Heights, ev.Err)
		case "epoch":
			fmt.Fprintf(&b, "epoch=%d[%s] ", ev.Val, ev.Method)
		case "header":
		default:
			fmt.Fprintf(&b, "%s=%d ", ev.Kind, ev.Val)
		}
	}
	return b.String()
}

func TestVerifC43(t *testing.T) {
	r := vrep.Start(t, "C43", "loop")
	defer r.Finish()
	c43Init()
	var env *c43Env
	statesSeen := map[c43State]bool{}

	evaluate := func(sc c43Scenario, bound int, s *vsched.Sched) {
		r.Eval(1)
		e := env
		for _, st := range e.states {
			if !statesSeen[st] {
				statesSeen[st] = true
				r.State(fmt.Sprintf("%+v", st))
			}
		}
		r.Transition(len(e.events))
		rp := c43Replay{sc, s.Choices(), bound}
		fp := fmt.Sprintf("L=%d offset=%+d proxyDisabled=%v %s", sc.ProofLength, sc.TipOffset, sc.DisableProxy, s.DevTrace())
		report := func(kind, what string) {
			r.ViolationMin(kind, len(s.Choices())*10+len(e.events), fp, what+" [trace: "+c43Render(e.events)+"]", rp)
		}
		if p, stack := s.Failed(); p != nil {
			if ps, ok := p.(string); ok && strings.HasPrefix(ps, "c43:") {
				t.Fatalf("harness failure: %v", p)
			}
			report("panic", fmt.Sprintf("panic: %v\n%s", p, stack))
			return
		}
		if s.StepCapHit {
			r.Cap("step-cap")
			return
		}
		fs, outs := c43Check(sc, e.events)
		for _, f := range fs {
			report(f.kind, f.what)
		}
		for _, o := range outs {
			r.Outcome(o)
		}
		nsub := 0
		for _, ev := range e.events {
			if ev.Kind == "submit" {
				nsub++
			}
		}
		if nsub > 0 || s.DevTrace() != "" {
			r.Distinct(fmt.Sprintf("%+v|%v", sc, s.Choices()))
		}
		if s.HorizonHit {
			r.Add("executions_cut_at_horizon", 1)
		} else {
			r.Add("executions_ended_by_cancel", 1)
		}
	}

	if rd := r.ReplayData(); rd != nil {
		var rp c43Replay
		if json.Unmarshal(rd, &rp) == nil && rp.Scenario.ProofLength > 0 {
			s := vsched.Replay(rp.Choices, vsched.Options{Bound: rp.Bound, Horizon: rp.Scenario.Horizon}, c43Body(rp.Scenario, &env))
			evaluate(rp.Scenario, rp.Bound, s)
		}
		return
	}

	// pass A: 0/1 blocks per poll as a free choice, a second block as a deviation
	// pass B (thorough only): 0/1/2 blocks per poll as a free choice, shorter horizon
	bound := 2
	type pass struct {
		horizon, growth int
		extra           bool
		offsets         []int
	}
	passes := []pass{{5, 1, true, []int{-3, -2, -1, 0, 1, 2, c43EpochLen - 1, c43EpochLen, c43EpochLen + 1}}}
	if r.Thorough() {
		wide := []int{-3, -2, -1, 0, 1, 2, 3, 4, 5, c43EpochLen - 2, c43EpochLen - 1, c43EpochLen, c43EpochLen + 1, c43EpochLen + 2}
		passes = []pass{{8, 1, true, wide}, {5, 2, false, wide}}
	}
	var scenarios []c43Scenario
	horizon := 0
	for _, ps := range passes {
		if ps.horizon > horizon {
			horizon = ps.horizon
		}
		for _, l := range []uint64{1, 2, 3} {
			for _, off := range ps.offsets {
				for _, dp := range []bool{true, false} {
					scenarios = append(scenarios, c43Scenario{l, off, dp, ps.growth, ps.extra, ps.horizon})
				}
			}
		}
	}
	shard, _ := r.Shard()
	if shard == 0 {
		r.Set("scenarios", len(scenarios))
		r.Set("deviation_bound", bound)
		r.Set("max_horizon_polls", horizon)
		// determinism gate: the same script twice observes the same event log
		sc := scenarios[len(scenarios)/2]
		a := vsched.Replay(nil, vsched.Options{Horizon: sc.Horizon}, c43Body(sc, &env))
		la := c43Render(env.events)
		b := vsched.Replay(nil, vsched.Options{Horizon: sc.Horizon}, c43Body(sc, &env))
		if !vsched.SameRun(a, b) || la != c43Render(env.events) {
			t.Fatalf("NONDETERMINISM: two runs of the empty script differ")
		}
		r.ReplayedTwice(1)
		r.Sample(map[string]any{"scenario": sc, "script": a.Choices(), "observed": la})
	}
	for i, sc := range scenarios {
		if !r.Mine(i) || r.Expired() {
			continue
		}
		sc := sc
		st := vsched.Explore(vsched.Options{Bound: bound, Horizon: sc.Horizon, Stop: r.Expired},
			c43Body(sc, &env), func(s *vsched.Sched) { evaluate(sc, bound, s) })
		if st.Stopped {
			r.Cap(fmt.Sprintf("scenario %+v not completed", sc))
		}
	}
}
