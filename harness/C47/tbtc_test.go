//go:build verif

package tbtc

import (
	"context"
	"crypto/ecdsa"
	"encoding/json"
	"fmt"
	"math/big"
	"sort"
	"testing"

	"github.com/keep-network/keep-core/internal/testutils"
	"github.com/keep-network/keep-core/pkg/chain"
	"github.com/keep-network/keep-core/pkg/internal/tecdsatest"
	"github.com/keep-network/keep-core/pkg/protocol/group"
	"github.com/keep-network/keep-core/pkg/protocol/inactivity"
	"github.com/keep-network/keep-core/pkg/subscription"
	"github.com/keep-network/keep-core/pkg/tecdsa"
	"github.com/keep-network/keep-core/pkg/tecdsa/dkg"
	"github.com/keep-network/keep-core/pkg/verifshim/vctx"
	"github.com/keep-network/keep-core/pkg/verifshim/vrep"
	"github.com/keep-network/keep-core/pkg/verifshim/vsched"
)

// tBTC legs of C47: DKG result submission (dkg_submit.go), inactivity claim submission
// (inactivity.go) and DKG result approval (dkg.go executeDkgValidation).

// ---- environment -------------------------------------------------------------------

type c47Call struct {
	what   string
	height uint64
	step   int
}

type c47Wait struct {
	block    uint64
	retStep  int
	retBlock uint64
}

// c47Env is the fake world: a block height driven by the chain thread, a logical clock
// ordering the observations, and the records of waits and submissions.
type c47Env struct {
	height     uint64
	clock      int
	waits      []*c47Wait
	calls      []c47Call
	cancelStep int // logical step at which the competing event was made observable
	firedTo    int // approvals: number of subscribed handlers the event was delivered to
}

func (e *c47Env) String() string {
	s := fmt.Sprintf("h=%d clock=%d cancel=%d/%d calls=%v waits=", e.height, e.clock, e.cancelStep, e.firedTo, e.calls)
	for _, w := range e.waits {
		s += fmt.Sprintf("%+v", *w)
	}
	return s
}

func (e *c47Env) tick() int { e.clock++; return e.clock }

// waitFn mirrors node.waitForBlockHeight: returns nil once the block is reached or the
// context is done.
func (e *c47Env) waitFn(ctx context.Context, block uint64) error {
	w := &c47Wait{block: block}
	e.waits = append(e.waits, w)
	vsched.Block("block", func() bool { return e.height >= block || ctx.Err() != nil })
	w.retStep, w.retBlock = e.tick(), e.height
	return nil
}

type c47BlockCounter struct{ e *c47Env }

func (b c47BlockCounter) WaitForBlockHeight(uint64) error                 { panic("c47: unused") }
func (b c47BlockCounter) BlockHeightWaiter(uint64) (<-chan uint64, error) { panic("c47: unused") }
func (b c47BlockCounter) CurrentBlock() (uint64, error)                   { return b.e.height, nil }
func (b c47BlockCounter) WatchBlocks(context.Context) <-chan uint64       { panic("c47: unused") }

// c47Chain implements the Chain methods the three submitters use; everything else
// panics through the nil embedded interface.
type c47Chain struct {
	Chain
	e        *c47Env
	state    DKGState
	nonce    *big.Int
	params   *DKGParameters
	handlers []*c47Handler
}

type c47Handler struct {
	fn     func(*DKGResultApprovedEvent)
	active bool
}

func (c *c47Chain) GetDKGState() (DKGState, error) { return c.state, nil }
func (c *c47Chain) AssembleDKGResult(submitter group.MemberIndex, _ *ecdsa.PublicKey, _ []group.MemberIndex, _ []group.MemberIndex, _ map[group.MemberIndex][]byte, gsr *GroupSelectionResult) (*DKGChainResult, error) {
	return &DKGChainResult{SubmitterMemberIndex: submitter, Members: gsr.OperatorsIDs}, nil
}
func (c *c47Chain) IsDKGResultValid(*DKGChainResult) (bool, error) { return true, nil }
func (c *c47Chain) BlockCounter() (chain.BlockCounter, error)      { return c47BlockCounter{c.e}, nil }
func (c *c47Chain) SubmitDKGResult(*DKGChainResult) error {
	c.e.calls = append(c.e.calls, c47Call{"submit-dkg-result", c.e.height, c.e.tick()})
	return nil
}
func (c *c47Chain) GetWallet([20]byte) (*WalletChainData, error) {
	return &WalletChainData{EcdsaWalletID: [32]byte{7}}, nil
}
func (c *c47Chain) GetInactivityClaimNonce([32]byte) (*big.Int, error) { return c.nonce, nil }
func (c *c47Chain) AssembleInactivityClaim(id [32]byte, inactive []group.MemberIndex, _ map[group.MemberIndex][]byte, hb bool) (*InactivityClaim, error) {
	return &InactivityClaim{WalletID: id, InactiveMembersIndices: inactive, HeartbeatFailed: hb}, nil
}
func (c *c47Chain) SubmitInactivityClaim(*InactivityClaim, *big.Int, []uint32) error {
	c.e.calls = append(c.e.calls, c47Call{"submit-inactivity-claim", c.e.height, c.e.tick()})
	return nil
}
func (c *c47Chain) DKGParameters() (*DKGParameters, error) { return c.params, nil }
func (c *c47Chain) OnDKGResultApproved(fn func(*DKGResultApprovedEvent)) subscription.EventSubscription {
	h := &c47Handler{fn, true}
	c.handlers = append(c.handlers, h)
	return subscription.NewEventSubscription(func() { h.active = false })
}
func (c *c47Chain) ApproveDKGResult(*DKGChainResult) error {
	c.e.calls = append(c.e.calls, c47Call{"approve-dkg-result", c.e.height, c.e.tick()})
	return nil
}

var c47Share *tecdsa.PrivateKeyShare

func c47Sigs(n int) map[group.MemberIndex][]byte {
	m := map[group.MemberIndex][]byte{}
	for i := 1; i <= n; i++ {
		m[group.MemberIndex(i)] = []byte{byte(i)}
	}
	return m
}

// ---- case --------------------------------------------------------------------------

// c47Case: one member (or, for approvals, one operator controlling Members) runs Kind
// while a competing event happens at the member's slot + EventRel.
type c47Case struct {
	Kind     string `json:"kind"` // "dkg-submit" | "claim-submit" | "approve"
	N        int    `json:"n"`
	Members  []int  `json:"members"`
	Start    uint64 `json:"start"`     // reference block (current block / submission block)
	Entry    string `json:"entry"`     // state at entry: "open" | "done" (no longer awaiting / nonce advanced)
	EventRel *int   `json:"event_rel"` // nil = no competing event
	// approvals only
	Submitter  int    `json:"submitter,omitempty"`
	Precedence uint64 `json:"precedence,omitempty"`
}

func (c c47Case) String() string {
	ev := "none"
	if c.EventRel != nil {
		ev = fmt.Sprintf("slot%+d", *c.EventRel)
	}
	s := fmt.Sprintf("%s n=%d members=%v start=%d entry=%s event=%s", c.Kind, c.N, c.Members, c.Start, c.Entry, ev)
	if c.Kind == "approve" {
		s += fmt.Sprintf(" submitter=%d precedence=%d", c.Submitter, c.Precedence)
	}
	return s
}

const c47Challenge = 10

type c47Obs struct {
	env      *c47Env
	returned bool
	err      string
}

func c47Body(c c47Case, obs *c47Obs) func() {
	return func() {
		e := &c47Env{height: c.Start}
		*obs = c47Obs{env: e}
		ch := &c47Chain{e: e, state: AwaitingResult, nonce: big.NewInt(5), params: &DKGParameters{ChallengePeriodBlocks: c47Challenge, ApprovePrecedencePeriodBlocks: c.Precedence}}
		gp := &GroupParameters{GroupSize: c.N, GroupQuorum: c.N/2 + 1, HonestThreshold: c.N/2 + 1}
		ctx, cancel := vctx.WithCancel(context.Background())
		defer cancel()

		// the competing event: fired by the chain thread at (first requested slot + rel)
		fire := func() {
			e.cancelStep = e.tick()
			if c.Kind == "approve" {
				for _, h := range ch.handlers {
					if h.active {
						e.firedTo++
						h.fn(&DKGResultApprovedEvent{BlockNumber: e.height})
					}
				}
			} else {
				cancel()
			}
		}
		horizon := c.Start + c47Challenge + 1 + c.Precedence + uint64(c.N)*dkgResultApprovalDelayStepBlocks + 3
		vsched.GoLow("chain", func() {
			fired := false
			finished := func() bool {
				if !obs.returned || c.Kind == "approve" && len(e.waits) < len(c.Members) {
					return false
				}
				for _, w := range e.waits {
					if w.retStep == 0 {
						return false
					}
				}
				return true
			}
			for e.height < horizon && !finished() {
				if !fired && c.EventRel != nil && len(e.waits) > 0 {
					slot := int64(e.waits[0].block)
					for _, w := range e.waits {
						if int64(w.block) < slot {
							slot = int64(w.block)
						}
					}
					if int64(e.height) >= slot+int64(*c.EventRel) {
						fired = true
						fire()
					}
				}
				next := e.height + 1
				if c.EventRel == nil {
					// nothing happens in between: mine straight to the next awaited block
					pending := func() (uint64, bool) {
						var best uint64
						found := false
						for _, w := range e.waits {
							if w.retStep == 0 && w.block > e.height && (!found || w.block < best) {
								best, found = w.block, true
							}
						}
						return best, found
					}
					vsched.Block("chain-idle", func() bool { _, ok := pending(); return ok || finished() })
					if finished() {
						break
					}
					next, _ = pending()
				} else {
					vsched.Yield()
				}
				e.height = next
			}
		})

		switch c.Kind {
		case "dkg-submit":
			if c.Entry == "done" {
				ch.state = Challenge
			}
			ids := make(chain.OperatorIDs, c.N)
			drs := newDkgResultSubmitter(&testutils.MockLogger{}, ch, gp, &GroupSelectionResult{OperatorsIDs: ids, OperatorsAddresses: make(chain.Addresses, c.N)}, e.waitFn)
			res := &dkg.Result{Group: group.NewGroup(gp.DishonestThreshold(), c.N), PrivateKeyShare: c47Share}
			if err := drs.SubmitResult(ctx, group.MemberIndex(c.Members[0]), res, c47Sigs(c.N)); err != nil {
				obs.err = err.Error()
			}
		case "claim-submit":
			claimNonce := big.NewInt(5)
			if c.Entry == "done" {
				ch.nonce = big.NewInt(6)
			}
			ics := newInactivityClaimSubmitter(&testutils.MockLogger{}, ch, gp, make([]uint32, c.N), e.waitFn)
			claim := inactivity.NewClaimPreimage(claimNonce, c47Share.PublicKey(), []group.MemberIndex{1}, true)
			if err := ics.SubmitClaim(ctx, group.MemberIndex(c.Members[0]), claim, c47Sigs(c.N)); err != nil {
				obs.err = err.Error()
			}
		case "approve":
			members := make(chain.OperatorIDs, c.N)
			for i := range members {
				members[i] = chain.OperatorID(1000 + i)
			}
			for _, m := range c.Members {
				members[m-1] = 7
			}
			de := &dkgExecutor{groupParameters: gp, operatorIDFn: func() (chain.OperatorID, error) { return 7, nil }, chain: ch, waitForBlockFn: e.waitFn}
			de.executeDkgValidation(big.NewInt(1), c.Start, &DKGChainResult{SubmitterMemberIndex: group.MemberIndex(c.Submitter), Members: members, GroupPublicKey: []byte{1}}, [32]byte{2})
		}
		obs.returned = true
	}
}

// c47Check: no submission before the awaited slot, none when the state at entry said
// the work was already done, none after the competing event was observable before the
// wait returned; at most one submission per member.
func c47Check(r *vrep.R, c c47Case, obs *c47Obs, s *vsched.Sched, bound int) {
	e := obs.env
	r.Eval(1)
	r.Transition(len(s.Choices()) + 1)
	outcome := fmt.Sprintf("%s: waits=%d submits=%d err=%v", c.Kind, len(e.waits), len(e.calls), obs.err != "")
	r.Outcome(outcome)
	r.State(fmt.Sprintf("%s|%s|%v", c, outcome, e.calls))
	rp := map[string]any{"leg": "tbtc-loop", "case": c, "choices": s.Choices(), "bound": bound}
	fail := func(kind, what string) {
		r.ViolationMin(c.Kind+"-"+kind, c.N*1000+len(s.Choices()), fmt.Sprintf("%s-%s %s", c.Kind, kind, c), what+" [case "+c.String()+"; schedule "+s.Trace()+"]", rp)
	}
	if p, stack := s.Failed(); p != nil {
		fail("panic", fmt.Sprintf("panic: %v\n%s", p, stack))
		return
	}
	if s.StepCapHit {
		r.Cap("step-cap")
		return
	}
	if len(s.Deadlock) > 0 || !obs.returned {
		fail("stuck", fmt.Sprintf("never returned (blocked: %v)", s.Deadlock))
		return
	}
	if obs.err != "" {
		fail("error", "unexpected error: "+obs.err)
		return
	}
	if c.Entry == "done" && len(e.calls) > 0 {
		fail("after-done", fmt.Sprintf("%s although the chain state at entry said the work was already done", e.calls[0].what))
	}
	if len(e.calls) > len(c.Members) {
		fail("too-many", fmt.Sprintf("%d submissions by %d member(s)", len(e.calls), len(c.Members)))
	}
	if len(e.waits) == 0 && len(e.calls) > 0 {
		fail("early", fmt.Sprintf("%s without waiting for any slot", e.calls[0].what))
		return
	}
	if len(c.Members) == 1 && len(e.waits) > 0 {
		w := e.waits[0]
		for _, call := range e.calls {
			if call.height < w.block {
				fail("early", fmt.Sprintf("%s at block %d, before the member's slot %d", call.what, call.height, w.block))
			}
			if e.cancelStep != 0 && c.Kind == "approve" && s.Trace() == "" && *c.EventRel < 0 && e.firedTo == 0 {
				// timely delivery (the all-default schedule): the member was already
				// waiting when the approval happened a block before its slot
				fail("ignored-event", fmt.Sprintf("the result was approved by someone else before this member's slot %d while the member was waiting, and the member still approved at block %d (it was not subscribed to the approval event)", w.block, call.height))
			}
			if e.cancelStep != 0 && e.cancelStep < w.retStep {
				fail("after-observed", fmt.Sprintf("%s at block %d although the competing event had been delivered before the member stopped waiting for its slot %d", call.what, call.height, w.block))
			}
		}
	} else {
		// several members of one operator: every submission needs its own elapsed slot
		var slots []uint64
		for _, w := range e.waits {
			slots = append(slots, w.block)
		}
		sort.Slice(slots, func(i, j int) bool { return slots[i] < slots[j] })
		calls := append([]c47Call{}, e.calls...)
		sort.Slice(calls, func(i, j int) bool { return calls[i].height < calls[j].height })
		for i, call := range calls {
			if i < len(slots) && call.height < slots[i] {
				fail("early", fmt.Sprintf("submission %d at block %d but the %d earliest slots are %v", i+1, call.height, i+1, slots[:i+1]))
			}
		}
		// an approval delivered before anybody's slot must silence everybody
		if e.cancelStep != 0 && len(e.calls) > 0 {
			all := true
			for _, w := range e.waits {
				if w.retStep != 0 && w.retStep < e.cancelStep {
					all = false
				}
			}
			if all && e.firedTo == len(c.Members) {
				fail("after-observed", fmt.Sprintf("%d approvals although the approval event had been delivered before any member stopped waiting", len(e.calls)))
			}
		}
	}
}

// c47Slot runs one member without competing events on the default schedule and returns
// the block it waited for.
func c47Slot(c c47Case, obs *c47Obs) (uint64, bool) {
	vsched.Replay(nil, vsched.Options{}, c47Body(c, obs))
	if len(obs.env.waits) != 1 {
		return 0, false
	}
	return obs.env.waits[0].block, true
}

func c47SlotTable(r *vrep.R, kind string, n int, start uint64, submitter int, precedence uint64, obs *c47Obs) {
	seen := map[uint64]int{}
	var rel []uint64
	fp := fmt.Sprintf("%s-slots n=%d start=%d submitter=%d precedence=%d", kind, n, start, submitter, precedence)
	base := c47Case{Kind: kind, N: n, Start: start, Entry: "open", Submitter: submitter, Precedence: precedence}
	for m := 1; m <= n; m++ {
		c := base
		c.Members = []int{m}
		r.Eval(1)
		s, ok := c47Slot(c, obs)
		if !ok {
			r.ViolationMin(kind+"-slot-missing", n, fp, fmt.Sprintf("member %d did not wait for exactly one block (%d waits)", m, len(obs.env.waits)), map[string]any{"leg": "tbtc-slots", "case": base})
			return
		}
		if s < start {
			r.ViolationMin(kind+"-slot-before-start", n, fp, fmt.Sprintf("member %d waits for block %d, before the reference block %d", m, s, start), map[string]any{"leg": "tbtc-slots", "case": base})
		}
		if other, dup := seen[s]; dup {
			r.ViolationMin(kind+"-slot-shared", n*10+int(precedence), fp, fmt.Sprintf("%s, group of %d: members %d and %d both wait for block reference+%d", kind, n, other, m, s-start), map[string]any{"leg": "tbtc-slots", "case": base})
		}
		seen[s] = m
		rel = append(rel, s-start)
	}
	// a slot is a window, not a single block: the step between the first two members is
	// the window length the code gives a member, and no other member's block may fall
	// into somebody's window (uniform tables only: an approval gives the submitter a
	// precedence period of its own)
	if kind != "approve" && n >= 2 {
		step := int64(rel[1]) - int64(rel[0])
		if step <= 0 {
			r.ViolationMin(kind+"-slot-order", n, fp, fmt.Sprintf("member 2 waits for block reference+%d, not after member 1 (reference+%d)", rel[1], rel[0]), map[string]any{"leg": "tbtc-slots", "case": base})
		} else {
			for i := 0; i < n; i++ {
				for j := i + 1; j < n; j++ {
					d := int64(rel[j]) - int64(rel[i])
					if d < 0 {
						d = -d
					}
					if d < step {
						r.ViolationMin(kind+"-slot-overlap", n*1000+j, fp, fmt.Sprintf("%s, group of %d: member %d waits for block reference+%d, inside the %d-block slot of member %d (reference+%d)", kind, n, j+1, rel[j], step, i+1, rel[i]), map[string]any{"leg": "tbtc-slots", "case": base})
						i, j = n, n // one report per table
					}
				}
			}
		}
	}
	r.Outcome(kind + "-slots: distinct")
	r.Distinct(fp)
	r.State(fmt.Sprintf("%s|%v", fp, rel))
	r.Transition(n)
}

func TestVerifC47Tbtc(t *testing.T) {
	r := vrep.Start(t, "C47", "tbtc")
	defer r.Finish()
	fixtures, err := tecdsatest.LoadPrivateKeyShareTestFixtures(1)
	if err != nil {
		t.Fatalf("fixtures: %v", err)
	}
	c47Share = tecdsa.NewPrivateKeyShare(fixtures[0])
	var obs c47Obs
	if rd := r.ReplayData(); rd != nil {
		var probe struct {
			Leg     string  `json:"leg"`
			Case    c47Case `json:"case"`
			Choices []int   `json:"choices"`
			Bound   int     `json:"bound"`
		}
		if json.Unmarshal(rd, &probe) != nil {
			return
		}
		switch probe.Leg {
		case "tbtc-slots":
			c := probe.Case
			c47SlotTable(r, c.Kind, c.N, c.Start, c.Submitter, c.Precedence, &obs)
		case "tbtc-loop":
			s := vsched.Replay(probe.Choices, vsched.Options{Bound: probe.Bound}, c47Body(probe.Case, &obs))
			c47Check(r, probe.Case, &obs, s, probe.Bound)
		}
		return
	}
	sizes := []int{3, 5, 100}
	starts := []uint64{0, 1000}
	bound := 2
	if r.Thorough() {
		sizes = []int{1, 2, 3, 4, 5, 6, 51, 100, 255}
		starts = []uint64{0, 1000, 1 << 40}
		bound = 3
	}
	shard, _ := r.Shard()
	idx := 0
	// slot tables
	for _, n := range sizes {
		for _, start := range starts {
			for _, kind := range []string{"dkg-submit", "claim-submit"} {
				idx++
				if r.Mine(idx) {
					c47SlotTable(r, kind, n, start, 0, 0, &obs)
				}
			}
			// approvals: precedence period >= 1 (with 0 the contract gives the submitter
			// no exclusive window, so a shared slot would not be a violation)
			for _, prec := range []uint64{1, 5, 20} {
				subs := []int{1, 2, n}
				for _, sub := range subs {
					if sub > n {
						continue
					}
					idx++
					if r.Mine(idx) {
						c47SlotTable(r, "approve", n, start, sub, prec, &obs)
					}
				}
			}
		}
	}
	// loops with competing events
	rels := []*int{nil}
	for _, v := range []int{-1, 0, 1} {
		v := v
		rels = append(rels, &v)
	}
	var cases []c47Case
	for _, n := range []int{3, 4} {
		for m := 1; m <= n; m++ {
			for _, kind := range []string{"dkg-submit", "claim-submit"} {
				cases = append(cases, c47Case{Kind: kind, N: n, Members: []int{m}, Start: 100, Entry: "done"})
				for _, rel := range rels {
					cases = append(cases, c47Case{Kind: kind, N: n, Members: []int{m}, Start: 100, Entry: "open", EventRel: rel})
				}
			}
			for _, sub := range []int{1, 2} {
				for _, rel := range rels {
					cases = append(cases, c47Case{Kind: "approve", N: n, Members: []int{m}, Start: 100, Entry: "open", EventRel: rel, Submitter: sub, Precedence: 5})
				}
			}
		}
		for _, rel := range rels {
			cases = append(cases, c47Case{Kind: "approve", N: n, Members: []int{1, 2, 3}, Start: 100, Entry: "open", EventRel: rel, Submitter: 2, Precedence: 5})
		}
	}
	gate := false
	for _, c := range cases {
		idx++
		if !r.Mine(idx) {
			continue
		}
		c := c
		if !gate {
			gate = true
			a := vsched.Replay(nil, vsched.Options{}, c47Body(c, &obs))
			oa := obs.env.String() + obs.err
			b := vsched.Replay(nil, vsched.Options{}, c47Body(c, &obs))
			if !vsched.SameRun(a, b) || oa != obs.env.String()+obs.err {
				t.Fatalf("NONDETERMINISM: two runs of the empty script differ")
			}
			r.ReplayedTwice(1)
			r.Sample(map[string]any{"case": c.String()})
		}
		r.Distinct("loop|" + c.String())
		b := bound
		if len(c.Members) > 1 && b > 2 {
			b = 2
		}
		st := vsched.Explore(vsched.Options{Bound: b, Stop: r.Expired}, c47Body(c, &obs), func(s *vsched.Sched) { c47Check(r, c, &obs, s, b) })
		r.Add("loop.execs", st.Execs)
		if st.Stopped {
			r.Cap("loop " + c.String() + " not completed")
		}
	}
	if shard == 0 {
		r.Set("max_preemption_bound", bound)
	}
}
