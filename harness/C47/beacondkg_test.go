//go:build verif

package result

import (
	"context"
	"encoding/json"
	"fmt"
	"testing"

	"github.com/keep-network/keep-core/internal/testutils"
	beaconchain "github.com/keep-network/keep-core/pkg/beacon/chain"
	"github.com/keep-network/keep-core/pkg/beacon/event"
	"github.com/keep-network/keep-core/pkg/protocol/group"
	"github.com/keep-network/keep-core/pkg/subscription"
	"github.com/keep-network/keep-core/pkg/verifshim/vrep"
	"github.com/keep-network/keep-core/pkg/verifshim/vsched"
)

// Beacon DKG result submission leg of C47 (SubmittingMember.SubmitDKGResult).

type c47Blocks struct {
	height    uint64
	requested []uint64
	waiters   []c47Waiter
}

type c47Waiter struct {
	at uint64
	ch chan uint64
}

func (b *c47Blocks) emit(ch chan uint64, h uint64) {
	if vsched.Active() {
		vsched.GoDaemon("waiter", func() { vsched.Send(ch, h) })
	}
}
func (b *c47Blocks) WaitForBlockHeight(uint64) error { panic("c47: unused") }
func (b *c47Blocks) BlockHeightWaiter(h uint64) (<-chan uint64, error) {
	b.requested = append(b.requested, h)
	ch := make(chan uint64)
	if h <= b.height {
		b.emit(ch, h)
	} else {
		b.waiters = append(b.waiters, c47Waiter{h, ch})
	}
	return ch, nil
}
func (b *c47Blocks) CurrentBlock() (uint64, error)             { return b.height, nil }
func (b *c47Blocks) WatchBlocks(context.Context) <-chan uint64 { panic("c47: unused") }
func (b *c47Blocks) mine() {
	b.height++
	var rest []c47Waiter
	for _, w := range b.waiters {
		if w.at <= b.height {
			b.emit(w.ch, b.height)
		} else {
			rest = append(rest, w)
		}
	}
	b.waiters = rest
}

type c47Call struct {
	height uint64
	step   int
}

type c47Chain struct {
	beaconchain.Interface
	cfg        *beaconchain.Config
	blocks     *c47Blocks
	registered bool
	regErr     error
	handler    func(*event.DKGResultSubmission)
	subscribed bool
	calls      []c47Call
	clock      *int
	// emitOnCheck: another member's result lands on the chain right after this member's
	// IsGroupRegistered query was answered "no" (the narrowest window there is)
	emitOnCheck func()
}

func (c *c47Chain) GetConfig() *beaconchain.Config { return c.cfg }
func (c *c47Chain) OnDKGResultSubmitted(h func(*event.DKGResultSubmission)) subscription.EventSubscription {
	c.handler, c.subscribed = h, true
	return subscription.NewEventSubscription(func() { c.subscribed = false })
}
func (c *c47Chain) IsGroupRegistered([]byte) (bool, error) {
	ans, err := c.registered, c.regErr
	if c.emitOnCheck != nil && !ans && err == nil {
		c.registered = true
		c.emitOnCheck()
		c.emitOnCheck = nil
	}
	return ans, err
}
func (c *c47Chain) SubmitDKGResult(beaconchain.GroupMemberIndex, *beaconchain.DKGResult, map[beaconchain.GroupMemberIndex][]byte) error {
	*c.clock++
	c.calls = append(c.calls, c47Call{c.blocks.height, *c.clock})
	return nil
}

func c47Sigs(n int) map[group.MemberIndex][]byte {
	m := map[group.MemberIndex][]byte{}
	for i := 1; i <= n; i++ {
		m[group.MemberIndex(i)] = []byte{byte(100 + i)}
	}
	return m
}

// ---- slot table --------------------------------------------------------------------

type c47SlotCase struct {
	Leg   string `json:"leg"`
	N     int    `json:"n"`
	Step  uint64 `json:"step"`
	Start uint64 `json:"start"`
}

func c47CheckSlots(r *vrep.R, c c47SlotCase) {
	r.Eval(1)
	fp := fmt.Sprintf("beacon-dkg n=%d step=%d", c.N, c.Step)
	seen := map[uint64]int{}
	var rel []uint64
	for m := 1; m <= c.N; m++ {
		blocks := &c47Blocks{height: c.Start}
		sm := NewSubmittingMember(&testutils.MockLogger{}, group.MemberIndex(m))
		if _, err := sm.waitForSubmissionEligibility(blocks, c.Start, c.Step); err != nil || len(blocks.requested) != 1 {
			r.ViolationMin("beacon-dkg-slot-error", c.N, fp, fmt.Sprintf("member %d: %v, %d waiters", m, err, len(blocks.requested)), c)
			return
		}
		s := blocks.requested[0]
		if s < c.Start {
			r.ViolationMin("beacon-dkg-slot-before-start", c.N*10+int(c.Step), fp, fmt.Sprintf("member %d waits for block %d, before the reference block %d", m, s, c.Start), c)
		}
		if other, dup := seen[s]; dup {
			r.ViolationMin("beacon-dkg-slot-shared", c.N*10+int(c.Step), fp, fmt.Sprintf("group of %d, block step %d: members %d and %d both wait for block start+%d", c.N, c.Step, other, m, s-c.Start), c)
		}
		seen[s] = m
		rel = append(rel, s-c.Start)
	}
	r.Outcome("slots: distinct")
	r.Distinct(fmt.Sprintf("slots|%d|%d|%d", c.N, c.Step, c.Start))
	r.State(fmt.Sprintf("slots|%d|%d|%v", c.N, c.Step, rel))
	r.Transition(c.N)
}

// ---- submission loop ---------------------------------------------------------------

type c47LoopCase struct {
	Leg        string `json:"leg"`
	N          int    `json:"n"`
	Member     int    `json:"member"`
	Registered string `json:"registered"` // "no" | "yes" | "error": answer to IsGroupRegistered
	Event      string `json:"event"`      // "none" | "submitted" | "submitted-at-check"
	EventRel   int    `json:"event_rel"`  // block of the competing submission relative to the slot
}

func (c c47LoopCase) String() string {
	return fmt.Sprintf("n=%d member=%d registered=%s event=%s@slot%+d", c.N, c.Member, c.Registered, c.Event, c.EventRel)
}

type c47LoopObs struct {
	returned     bool
	err          string
	slot         uint64
	hasSlot      bool
	calls        []c47Call
	observedStep int
	emittedAt    uint64 // block at which the chain emitted the competing submission (0 = never)
	clock        int
}

func c47LoopBody(c c47LoopCase, obs *c47LoopObs) func() {
	return func() {
		*obs = c47LoopObs{}
		const start, step = uint64(10), uint64(2)
		blocks := &c47Blocks{height: start}
		cfg := &beaconchain.Config{GroupSize: c.N, HonestThreshold: c.N/2 + 1, ResultPublicationBlockStep: step, RelayEntryTimeout: uint64(c.N) * step}
		ch := &c47Chain{cfg: cfg, blocks: blocks, clock: &obs.clock}
		switch c.Registered {
		case "yes":
			ch.registered = true
		case "error":
			ch.regErr = fmt.Errorf("unavailable")
		}
		end := start + uint64(c.N)*step + 2
		if c.Event == "submitted-at-check" {
			ch.emitOnCheck = func() {
				h := blocks.height
				obs.emittedAt = h
				if ch.subscribed {
					handler := ch.handler
					vsched.GoDaemon("submitted-event", func() {
						handler(&event.DKGResultSubmission{BlockNumber: h})
						obs.clock++
						obs.observedStep = obs.clock
					})
				}
			}
		}
		vsched.GoLow("chain", func() {
			for blocks.height < end {
				if len(blocks.requested) > 0 && c.Event == "submitted" && obs.emittedAt == 0 &&
					int64(blocks.height) == int64(blocks.requested[0])+int64(c.EventRel) {
					h := blocks.height
					obs.emittedAt = h
					if ch.subscribed { // the chain delivers to live subscriptions only
						handler := ch.handler
						vsched.GoDaemon("submitted-event", func() {
							handler(&event.DKGResultSubmission{BlockNumber: h})
							obs.clock++
							obs.observedStep = obs.clock
						})
					}
				}
				vsched.Yield()
				blocks.mine()
			}
		})
		sm := NewSubmittingMember(&testutils.MockLogger{}, group.MemberIndex(c.Member))
		err := sm.SubmitDKGResult(&beaconchain.DKGResult{GroupPublicKey: []byte{123, 45}}, c47Sigs(c.N), ch, blocks, start)
		obs.returned = true
		if err != nil {
			obs.err = err.Error()
		}
		if len(blocks.requested) > 0 {
			obs.slot, obs.hasSlot = blocks.requested[0], true
		}
		obs.calls = ch.calls
	}
}

func c47CheckLoop(r *vrep.R, c c47LoopCase, obs *c47LoopObs, s *vsched.Sched, bound int) {
	r.Eval(1)
	r.Transition(len(s.Choices()) + 1)
	outcome := fmt.Sprintf("loop: returned=%v err=%v submits=%d", obs.returned, obs.err != "", len(obs.calls))
	r.Outcome(outcome)
	r.State(fmt.Sprintf("%s|%s|%v", c, outcome, obs.calls))
	rp := map[string]any{"leg": "loop", "case": c, "choices": s.Choices(), "bound": bound}
	fail := func(kind, what string) {
		r.ViolationMin("beacon-dkg-loop-"+kind, c.N*1000+len(s.Choices()), fmt.Sprintf("beacon-dkg-loop-%s %s", kind, c), what+" [case "+c.String()+"; schedule "+s.Trace()+"]", rp)
	}
	if p, stack := s.Failed(); p != nil {
		fail("panic", fmt.Sprintf("panic: %v\n%s", p, stack))
		return
	}
	if s.StepCapHit {
		r.Cap("step-cap")
		return
	}
	if len(s.Deadlock) > 0 || !obs.returned {
		fail("stuck", fmt.Sprintf("the member never returned (blocked: %v)", s.Deadlock))
		return
	}
	if c.Registered == "yes" && len(obs.calls) > 0 {
		fail("after-registered", "DKG result submitted although the chain reported the group as already registered")
	}
	for _, call := range obs.calls {
		if !obs.hasSlot || call.height < obs.slot {
			fail("early", fmt.Sprintf("DKG result submitted at block %d, before the member's slot %d", call.height, obs.slot))
		}
		if obs.observedStep != 0 && call.step > obs.observedStep {
			fail("after-observed", fmt.Sprintf("DKG result submitted (block %d) after the member had received the notification that a result was already submitted", call.height))
		}
	}
	if len(obs.calls) > 1 {
		fail("twice", fmt.Sprintf("DKG result submitted %d times by one member", len(obs.calls)))
	}
	// timely delivery (the all-default schedule): a competing submission emitted a full
	// block before the member's slot, while the member was already waiting, must stop it
	if s.Trace() == "" && obs.hasSlot && obs.emittedAt != 0 && obs.emittedAt < obs.slot && len(obs.calls) > 0 {
		fail("ignored-event", fmt.Sprintf("another member's result was submitted at block %d, before this member's slot %d, and the member still submitted at block %d (schedule without any delay)", obs.emittedAt, obs.slot, obs.calls[0].height))
	}
}

func TestVerifC47BeaconDKG(t *testing.T) {
	r := vrep.Start(t, "C47", "beacondkg")
	defer r.Finish()
	var obs c47LoopObs
	if rd := r.ReplayData(); rd != nil {
		var probe struct {
			Leg     string      `json:"leg"`
			Case    c47LoopCase `json:"case"`
			Choices []int       `json:"choices"`
			Bound   int         `json:"bound"`
		}
		if json.Unmarshal(rd, &probe) != nil {
			return
		}
		switch probe.Leg {
		case "beacon-dkg-slots":
			var c c47SlotCase
			json.Unmarshal(rd, &c)
			c47CheckSlots(r, c)
		case "loop":
			s := vsched.Replay(probe.Choices, vsched.Options{Bound: probe.Bound}, c47LoopBody(probe.Case, &obs))
			c47CheckLoop(r, probe.Case, &obs, s, probe.Bound)
		}
		return
	}
	sizes := []int{3, 4, 5, 6, 64, 100}
	if r.Thorough() {
		sizes = []int{1, 2, 3, 4, 5, 6, 7, 8, 63, 64, 100, 255}
	}
	shard, _ := r.Shard()
	idx := 0
	for _, n := range sizes {
		for _, step := range []uint64{1, 3} {
			for _, start := range []uint64{0, 1000, 1 << 40} {
				idx++
				if r.Mine(idx) {
					c47CheckSlots(r, c47SlotCase{"beacon-dkg-slots", n, step, start})
				}
			}
		}
	}
	loopSizes, bound := []int{3, 4}, 2
	if r.Thorough() {
		loopSizes, bound = []int{3, 4, 5}, 3
	}
	gate := false
	for _, n := range loopSizes {
		for m := 1; m <= n; m++ {
			for _, reg := range []string{"no", "yes", "error"} {
				for _, ev := range []struct {
					kind string
					rel  int
				}{{"none", 0}, {"submitted", -1}, {"submitted", 0}, {"submitted", 1}, {"submitted-at-check", 0}} {
					if reg != "no" && ev.kind != "none" {
						continue
					}
					idx++
					if !r.Mine(idx) {
						continue
					}
					c := c47LoopCase{"loop", n, m, reg, ev.kind, ev.rel}
					if !gate {
						gate = true
						a := vsched.Replay(nil, vsched.Options{}, c47LoopBody(c, &obs))
						oa := fmt.Sprintf("%+v", obs)
						b := vsched.Replay(nil, vsched.Options{}, c47LoopBody(c, &obs))
						if !vsched.SameRun(a, b) || oa != fmt.Sprintf("%+v", obs) {
							t.Fatalf("NONDETERMINISM: two runs of the empty script differ")
						}
						r.ReplayedTwice(1)
						r.Sample(map[string]any{"case": c.String(), "observed": oa})
					}
					r.Distinct("loop|" + c.String())
					st := vsched.Explore(vsched.Options{Bound: bound, Stop: r.Expired}, c47LoopBody(c, &obs), func(s *vsched.Sched) { c47CheckLoop(r, c, &obs, s, bound) })
					r.Add("loop.execs", st.Execs)
					if st.Stopped {
						r.Cap("loop " + c.String() + " not completed")
					}
				}
			}
		}
	}
	if shard == 0 {
		r.Set("max_preemption_bound", bound)
	}
}
