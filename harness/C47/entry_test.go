//go:build verif

package entry

import (
	"context"
	"encoding/json"
	"fmt"
	"math/big"
	"sort"
	"testing"

	"github.com/keep-network/keep-core/internal/testutils"
	beaconchain "github.com/keep-network/keep-core/pkg/beacon/chain"
	"github.com/keep-network/keep-core/pkg/protocol/group"
	"github.com/keep-network/keep-core/pkg/verifshim/vrep"
	"github.com/keep-network/keep-core/pkg/verifshim/vsched"
)

// ---- fakes -------------------------------------------------------------------------

// c47Blocks is a block counter whose height is driven by the harness. Waiters emit the
// requested height once it is reached and are never closed (as the real counters do).
type c47Blocks struct {
	height    uint64
	requested []uint64
	waiters   []c47Waiter
}

type c47Waiter struct {
	at uint64
	ch chan uint64
}

func (b *c47Blocks) emit(ch chan uint64, h uint64) {
	if vsched.Active() {
		vsched.GoDaemon("waiter", func() { vsched.Send(ch, h) })
	}
}

func (b *c47Blocks) WaitForBlockHeight(uint64) error { panic("c47: unused") }
func (b *c47Blocks) BlockHeightWaiter(h uint64) (<-chan uint64, error) {
	b.requested = append(b.requested, h)
	ch := make(chan uint64)
	if h <= b.height {
		b.emit(ch, h)
	} else {
		b.waiters = append(b.waiters, c47Waiter{h, ch})
	}
	return ch, nil
}
func (b *c47Blocks) CurrentBlock() (uint64, error)             { return b.height, nil }
func (b *c47Blocks) WatchBlocks(context.Context) <-chan uint64 { panic("c47: unused") }
func (b *c47Blocks) mine() {
	b.height++
	var rest []c47Waiter
	for _, w := range b.waiters {
		if w.at <= b.height {
			b.emit(w.ch, b.height)
		} else {
			rest = append(rest, w)
		}
	}
	b.waiters = rest
}

type c47SubmitCall struct {
	height uint64
	step   int
}

// c47Chain implements the three methods submitRelayEntry uses.
type c47Chain struct {
	beaconchain.Interface
	cfg        *beaconchain.Config
	blocks     *c47Blocks
	submitErr  error
	inProgress bool
	statusErr  error
	calls      []c47SubmitCall
	clock      *int
}

func (c *c47Chain) GetConfig() *beaconchain.Config { return c.cfg }
func (c *c47Chain) SubmitRelayEntry([]byte) error {
	*c.clock++
	c.calls = append(c.calls, c47SubmitCall{c.blocks.height, *c.clock})
	return c.submitErr
}
func (c *c47Chain) IsEntryInProgress() (bool, error) { return c.inProgress, c.statusErr }

func c47Config(n int, step uint64) *beaconchain.Config {
	// RelayEntryTimeout as both chain implementations define it: groupSize * step
	return &beaconchain.Config{GroupSize: n, HonestThreshold: n/2 + 1, ResultPublicationBlockStep: step, RelayEntryTimeout: uint64(n) * step}
}

// ---- leg 1: slot table -------------------------------------------------------------

type c47SlotCase struct {
	Leg   string `json:"leg"`
	N     int    `json:"n"`
	Step  uint64 `json:"step"`
	Start uint64 `json:"start"`
	Entry string `json:"entry"` // hex
}

// c47Slots returns the block every member 1..n asks the block counter for.
func c47Slots(c c47SlotCase) ([]uint64, error) {
	entry, _ := new(big.Int).SetString(c.Entry, 16)
	slots := make([]uint64, c.N)
	for m := 1; m <= c.N; m++ {
		blocks := &c47Blocks{height: c.Start}
		res := &relayEntrySubmitter{logger: &testutils.MockLogger{}, blockCounter: blocks, index: group.MemberIndex(m)}
		if _, err := res.waitForSubmissionEligibility(entry.Bytes(), c.Start, c.N, c.Step); err != nil {
			return nil, err
		}
		if len(blocks.requested) != 1 {
			return nil, fmt.Errorf("member %d asked for %d block waiters", m, len(blocks.requested))
		}
		slots[m-1] = blocks.requested[0]
	}
	return slots, nil
}

func c47CheckSlots(r *vrep.R, c c47SlotCase) {
	r.Eval(1)
	slots, err := c47Slots(c)
	entry, _ := new(big.Int).SetString(c.Entry, 16)
	residue := new(big.Int).Mod(entry, big.NewInt(int64(c.N))).Uint64()
	fp := fmt.Sprintf("relay-entry n=%d step=%d entry mod n=%d", c.N, c.Step, residue)
	size := c.N*100000 + int(c.Step)*1000 + len(c.Entry)
	if err != nil {
		r.ViolationMin("relay-slot-error", size, fp, err.Error(), c)
		return
	}
	timeout := c.Start + uint64(c.N)*c.Step
	seen := map[uint64]int{}
	for i, s := range slots {
		m := i + 1
		if s < c.Start {
			r.ViolationMin("relay-slot-before-start", size, fp, fmt.Sprintf("member %d waits for block %d, before the reference block %d", m, s, c.Start), c)
		}
		if other, dup := seen[s]; dup {
			r.ViolationMin("relay-slot-shared", size, fp, fmt.Sprintf("group of %d, entry 0x%s (entry mod n = %d): members %d and %d both wait for block start+%d", c.N, c.Entry, residue, other, m, s-c.Start), c)
		}
		seen[s] = m
		if s >= timeout {
			r.ViolationMin("relay-slot-not-before-timeout", size, fp, fmt.Sprintf("group of %d, block step %d, entry 0x%s (entry mod n = %d): member %d waits for block start+%d but the relay entry times out at start+%d, so the member is never eligible in time; slots of members 1..%d: %v", c.N, c.Step, c.Entry, residue, m, s-c.Start, timeout-c.Start, c.N, c47Rel(slots, c.Start)), c)
		}
	}
	r.Outcome(fmt.Sprintf("slots: residue0=%v", residue == 0))
	r.Distinct(fmt.Sprintf("slots|%d|%d|%d|%s", c.N, c.Step, c.Start, c.Entry))
	r.State(fmt.Sprintf("slots|%d|%d|%v", c.N, c.Step, c47Rel(slots, c.Start)))
	r.Transition(c.N)
}

func c47Rel(slots []uint64, start uint64) []int64 {
	out := make([]int64, len(slots))
	for i, s := range slots {
		out[i] = int64(s) - int64(start)
	}
	return out
}

// ---- leg 2: the submission loop ----------------------------------------------------

// c47LoopCase: member m of a group of n waits for its slot while a competing
// submission (or the timeout) is signalled at block EventAt (0 = never).
type c47LoopCase struct {
	Leg      string `json:"leg"`
	N        int    `json:"n"`
	Member   int    `json:"member"`
	Entry    string `json:"entry"`
	Event    string `json:"event"`     // "none" | "submitted" | "timeout-only"
	EventRel int    `json:"event_rel"` // block of the competing submission relative to the slot
	Submit   string `json:"submit"`    // chain answer to SubmitRelayEntry: ok | err-done | err-inprogress | err-status
}

func (c c47LoopCase) String() string {
	return fmt.Sprintf("n=%d member=%d entry=0x%s event=%s@slot%+d submit=%s", c.N, c.Member, c.Entry, c.Event, c.EventRel, c.Submit)
}

type c47LoopObs struct {
	returned     bool
	err          string
	slot         uint64
	calls        []c47SubmitCall
	observedStep int // logical step at which the competing submission had been received
	clock        int
	horizon      uint64
}

func c47LoopBody(c c47LoopCase, obs *c47LoopObs) func() {
	return func() {
		*obs = c47LoopObs{}
		const start, step = uint64(10), uint64(1)
		blocks := &c47Blocks{height: start}
		cfg := c47Config(c.N, step)
		ch := &c47Chain{cfg: cfg, blocks: blocks, clock: &obs.clock}
		switch c.Submit {
		case "err-done":
			ch.submitErr = fmt.Errorf("rejected")
		case "err-inprogress":
			ch.submitErr, ch.inProgress = fmt.Errorf("rejected"), true
		case "err-status":
			ch.submitErr, ch.statusErr = fmt.Errorf("rejected"), fmt.Errorf("status unavailable")
		}
		entry, _ := new(big.Int).SetString(c.Entry, 16)
		res := &relayEntrySubmitter{logger: &testutils.MockLogger{}, chain: ch, blockCounter: blocks, index: group.MemberIndex(c.Member)}
		submitted := make(chan uint64)
		timeoutCh := make(chan uint64)
		timeoutBlock := start + cfg.RelayEntryTimeout
		obs.horizon = timeoutBlock

		vsched.GoLow("chain", func() {
			// one block at a time; by default only when the submitter is blocked
			for blocks.height < timeoutBlock {
				if len(blocks.requested) > 0 && c.Event == "submitted" {
					if int64(blocks.height) == int64(blocks.requested[0])+int64(c.EventRel) {
						h := blocks.height
						vsched.GoDaemon("submitted-event", func() {
							vsched.Send(submitted, h)
							obs.clock++
							obs.observedStep = obs.clock
						})
					}
				}
				vsched.Yield()
				blocks.mine()
			}
			vsched.GoDaemon("timeout-event", func() { vsched.Send(timeoutCh, timeoutBlock) })
		})

		err := res.submitRelayEntry(entry.Bytes(), []byte{1}, start, submitted, timeoutCh)
		obs.returned = true
		if err != nil {
			obs.err = err.Error()
		}
		if len(blocks.requested) > 0 {
			obs.slot = blocks.requested[0]
		}
		obs.calls = ch.calls
	}
}

func c47CheckLoop(r *vrep.R, c c47LoopCase, obs *c47LoopObs, s *vsched.Sched, bound int) {
	r.Eval(1)
	r.Transition(len(s.Choices()) + 1)
	outcome := fmt.Sprintf("loop: returned=%v err=%v submits=%d", obs.returned, obs.err != "", len(obs.calls))
	r.Outcome(outcome)
	r.State(fmt.Sprintf("%s|%s|%v", c, outcome, obs.calls))
	rp := map[string]any{"leg": "loop", "case": c, "choices": s.Choices(), "bound": bound}
	fail := func(kind, what string) {
		r.ViolationMin("relay-loop-"+kind, c.N*1000+len(s.Choices()), fmt.Sprintf("relay-loop-%s %s", kind, c), what+" [case "+c.String()+"; schedule "+s.Trace()+"]", rp)
	}
	if p, stack := s.Failed(); p != nil {
		fail("panic", fmt.Sprintf("panic: %v\n%s", p, stack))
		return
	}
	if s.StepCapHit {
		r.Cap("step-cap")
		return
	}
	if len(s.Deadlock) > 0 || !obs.returned {
		fail("stuck", fmt.Sprintf("submitter never returned although the timeout was signalled (blocked: %v)", s.Deadlock))
		return
	}
	for _, call := range obs.calls {
		if call.height < obs.slot {
			fail("early", fmt.Sprintf("relay entry submitted at block %d, before the member's slot %d", call.height, obs.slot))
		}
		if obs.observedStep != 0 && call.step > obs.observedStep {
			fail("after-observed", fmt.Sprintf("relay entry submitted (block %d) after the member had received the notification that the entry was already submitted", call.height))
		}
	}
	if len(obs.calls) > 1 {
		fail("twice", fmt.Sprintf("relay entry submitted %d times by one member", len(obs.calls)))
	}
}

// ---- driver ------------------------------------------------------------------------

func c47Entries(n int, thorough bool) []string {
	// every residue class mod n, as small values, multi-byte values and 32-byte values
	var out []string
	bigBase := new(big.Int).Lsh(big.NewInt(1), 255)
	bigBase.Sub(bigBase, new(big.Int).Mod(bigBase, big.NewInt(int64(n)))) // multiple of n
	for r := 0; r < n; r++ {
		ks := []int64{0, 1, 257}
		if !thorough {
			ks = []int64{1, 257}
		}
		for _, k := range ks {
			v := big.NewInt(k*int64(n) + int64(r))
			if v.Sign() == 0 {
				continue // the empty byte string is covered by k=1 (same residue)
			}
			out = append(out, v.Text(16))
		}
		out = append(out, new(big.Int).Add(bigBase, big.NewInt(int64(r))).Text(16))
	}
	sort.Strings(out)
	return out
}

func TestVerifC47Entry(t *testing.T) {
	r := vrep.Start(t, "C47", "entry")
	defer r.Finish()
	var obs c47LoopObs
	if rd := r.ReplayData(); rd != nil {
		var probe struct {
			Leg     string      `json:"leg"`
			Case    c47LoopCase `json:"case"`
			Choices []int       `json:"choices"`
			Bound   int         `json:"bound"`
		}
		if json.Unmarshal(rd, &probe) != nil {
			return
		}
		switch probe.Leg {
		case "slots":
			var c c47SlotCase
			json.Unmarshal(rd, &c)
			c47CheckSlots(r, c)
		case "loop":
			s := vsched.Replay(probe.Choices, vsched.Options{Bound: probe.Bound}, c47LoopBody(probe.Case, &obs))
			c47CheckLoop(r, probe.Case, &obs, s, probe.Bound)
		}
		return
	}
	sizes := []int{3, 4, 5, 6, 64, 100}
	steps := []uint64{1, 3}
	starts := []uint64{0, 1000}
	if r.Thorough() {
		sizes = []int{1, 2, 3, 4, 5, 6, 7, 8, 63, 64, 100, 255}
		starts = []uint64{0, 1000, 1 << 40}
	}
	shard, _ := r.Shard()
	idx := 0
	for _, n := range sizes {
		for _, step := range steps {
			for _, start := range starts {
				for _, e := range c47Entries(n, r.Thorough()) {
					idx++
					if r.Mine(idx) {
						c47CheckSlots(r, c47SlotCase{"slots", n, step, start, e})
					}
				}
			}
		}
	}
	if shard == 0 {
		r.Sample(c47SlotCase{"slots", 5, 1, 1000, "a"})
	}

	// loop leg
	loopSizes := []int{3, 4}
	bound := 2
	if r.Thorough() {
		loopSizes = []int{3, 4, 5}
		bound = 3
	}
	gate := false
	for _, n := range loopSizes {
		for m := 1; m <= n; m++ {
			for _, e := range []string{big.NewInt(int64(n)).Text(16), big.NewInt(int64(n + 1)).Text(16), big.NewInt(int64(2*n - 1)).Text(16)} {
				for _, ev := range []struct {
					kind string
					rel  int
				}{{"none", 0}, {"submitted", -1}, {"submitted", 0}, {"submitted", 1}} {
					for _, sub := range []string{"ok", "err-done", "err-inprogress", "err-status"} {
						if ev.kind != "none" && sub != "ok" && sub != "err-done" {
							continue
						}
						idx++
						if !r.Mine(idx) {
							continue
						}
						c := c47LoopCase{"loop", n, m, e, ev.kind, ev.rel, sub}
						if !gate {
							gate = true
							a := vsched.Replay(nil, vsched.Options{}, c47LoopBody(c, &obs))
							oa := fmt.Sprintf("%+v", obs)
							b := vsched.Replay(nil, vsched.Options{}, c47LoopBody(c, &obs))
							if !vsched.SameRun(a, b) || oa != fmt.Sprintf("%+v", obs) {
								t.Fatalf("NONDETERMINISM: two runs of the empty script differ")
							}
							r.ReplayedTwice(1)
						}
						r.Distinct("loop|" + c.String())
						st := vsched.Explore(vsched.Options{Bound: bound, Stop: r.Expired}, c47LoopBody(c, &obs), func(s *vsched.Sched) { c47CheckLoop(r, c, &obs, s, bound) })
						r.Add("loop.execs", st.Execs)
						if st.Stopped {
							r.Cap("loop " + c.String() + " not completed")
						}
					}
				}
			}
		}
	}
	if shard == 0 {
		r.Set("max_preemption_bound", bound)
	}
}
