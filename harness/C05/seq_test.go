//go:build verif

package dkg

import (
	"encoding/json"
	"fmt"
	"testing"

	"github.com/keep-network/keep-core/pkg/beacon/event"
	"github.com/keep-network/keep-core/pkg/chain"
	"github.com/keep-network/keep-core/pkg/protocol/group"
	"github.com/keep-network/keep-core/pkg/verifshim/venum"
	"github.com/keep-network/keep-core/pkg/verifshim/vrep"
)

// c05RunSeq executes one case on the uninstrumented code. Exactly one of the two
// channels is ready, so the real select is deterministic.
func c05RunSeq(c c05Case) (ops []chain.Address, err error, panicked any, stack string) {
	events := make(chan *event.DKGResultSubmission, 1)
	timeout := make(chan uint64, 1)
	if c.HasEvent {
		events <- c05Event(c)
	} else {
		timeout <- 100
	}
	bc := &c05BlockCounter{timeout: timeout}
	panicked, stack = vrep.Guard(func() { ops, err = c05Fate(c, events, bc) })
	return
}

type c05ResolveCase struct {
	Selected string  `json:"selected"`
	IDs      []uint8 `json:"ids"`
}

func c05RunResolve(r *vrep.R, rc c05ResolveCase) {
	sel := c05Selected(rc.Selected)
	ids := append([]group.MemberIndex{}, rc.IDs...)
	var got []chain.Address
	var err error
	fp := fmt.Sprintf("resolve selected=%s ids=%v", rc.Selected, rc.IDs)
	if p, stack := vrep.Guard(func() { got, err = resolveGroupOperators(sel, ids, c05Config()) }); p != nil {
		r.ViolationMin("seq:resolve-panic", len(rc.IDs), fp, fmt.Sprintf("panic: %v\n%s", p, stack), map[string]any{"resolve": rc})
		return
	}
	if err != nil {
		r.Outcome("resolve:error")
		return
	}
	in := map[uint8]bool{}
	for _, id := range rc.IDs {
		in[id] = true
	}
	var want []chain.Address
	orig := c05Selected(rc.Selected)
	for i := 1; i <= len(orig); i++ {
		if in[uint8(i)] {
			want = append(want, orig[i-1])
		}
	}
	r.Outcome(fmt.Sprintf("resolve:%d-operators", len(got)))
	// the selected operators list is shared by every member (seat) the node runs in this
	// group: the call must leave it as it was, and the same question asked again (the
	// node's next seat) must get the same answer, which must not change under the first
	if c05OpsString(sel) != c05OpsString(orig) {
		r.ViolationMin("seq:resolve-changed-selection", len(rc.IDs), fp,
			fmt.Sprintf("resolveGroupOperators(%s, %v) rewrote the selected operators list it was given: now %q", rc.Selected, rc.IDs, c05OpsString(sel)),
			map[string]any{"resolve": rc})
	} else {
		first := c05OpsString(got)
		again, err2 := resolveGroupOperators(sel, append([]group.MemberIndex{}, rc.IDs...), c05Config())
		if err2 != nil || c05OpsString(again) != first || c05OpsString(got) != first {
			r.ViolationMin("seq:resolve-not-repeatable", len(rc.IDs), fp,
				fmt.Sprintf("asked twice over the same selection, resolveGroupOperators(%s, %v) answered %q, then %q (err %v); the first answer now reads %q", rc.Selected, rc.IDs, first, c05OpsString(again), err2, c05OpsString(got)),
				map[string]any{"resolve": rc})
		}
	}
	if c05OpsString(got) != c05OpsString(want) {
		r.ViolationMin("seq:resolve-wrong-operators", len(rc.IDs), fp,
			fmt.Sprintf("resolveGroupOperators(%s, %v) = %q, the selected operators of those members in member-index order are %q", rc.Selected, rc.IDs, c05OpsString(got), c05OpsString(want)),
			map[string]any{"resolve": rc})
	}
}

func TestVerifC05Seq(t *testing.T) {
	r := vrep.Start(t, "C05", "seq")
	defer r.Finish()

	runCase := func(c c05Case) {
		ops, err, p, stack := c05RunSeq(c)
		report := func(kind, what string) {
			r.ViolationMin("seq:"+kind, len(c.Misbehaved)*10+len(c.LocalIA)+len(c.LocalDQ), "seq "+kind+" "+c.String(), what+" [case "+c.String()+"]", map[string]any{"case": c})
		}
		if p != nil {
			report("panic", fmt.Sprintf("panic: %v\n%s", p, stack))
			return
		}
		class, kind, problem := c05Judge(c, c.HasEvent, ops, err)
		r.Outcome(class)
		listed := false
		for _, m := range c.Misbehaved {
			listed = listed || m == c.Self
		}
		r.State(fmt.Sprintf("event=%v keyEqual=%v listed=%v -> %s", c.HasEvent, c.LocalKey == c.EventKey, listed, class))
		if c.HasEvent {
			r.Distinct(c.String())
		}
		if problem != "" {
			report(kind, problem)
		}
	}

	if rd := r.ReplayData(); rd != nil {
		var rp struct {
			Case    *c05Case        `json:"case"`
			Resolve *c05ResolveCase `json:"resolve"`
		}
		if json.Unmarshal(rd, &rp) == nil {
			if rp.Case != nil {
				runCase(*rp.Case)
				r.Eval(1)
			}
			if rp.Resolve != nil {
				c05RunResolve(r, *rp.Resolve)
				r.Eval(1)
			}
		}
		return
	}

	// ---- alphabets ----
	misUniverse := []uint8{1, 2, 3, 4}
	if r.Thorough() {
		misUniverse = []uint8{0, 1, 2, 3, 4, 5}
	}
	var misLists [][]uint8
	venum.Subsets(len(misUniverse), func(mask uint) bool {
		var l []uint8
		for i, m := range misUniverse {
			if mask>>uint(i)&1 == 1 {
				l = append(l, m)
			}
		}
		misLists = append(misLists, l)
		if len(l) >= 2 {
			// the same set reversed with its first element repeated: order and
			// duplicates in the event's list must not matter
			rev := []uint8{l[0]}
			for i := len(l) - 1; i >= 0; i-- {
				rev = append(rev, l[i])
			}
			misLists = append(misLists, rev)
		}
		return true
	})
	var selecteds []string
	venum.Tuples(c05GroupSize, 3, func(tp []int) bool {
		s := ""
		for _, x := range tp {
			s += string(rune('A' + x))
		}
		selecteds = append(selecteds, s)
		return true
	})
	// local marks of the three other members: quick = any subset disqualified,
	// thorough = each other member operating / inactive / disqualified
	type marks struct{ ia, dq []uint8 }
	localMarks := func(self uint8) []marks {
		var others []uint8
		for m := uint8(1); m <= c05GroupSize; m++ {
			if m != self {
				others = append(others, m)
			}
		}
		var out []marks
		base := 2
		if r.Thorough() {
			base = 3
		}
		venum.Tuples(len(others), base, func(tp []int) bool {
			var mk marks
			for i, x := range tp {
				switch x {
				case 1:
					mk.dq = append(mk.dq, others[i])
				case 2:
					mk.ia = append(mk.ia, others[i])
				}
			}
			out = append(out, mk)
			return true
		})
		return out
	}
	r.Set("misbehaved_lists", len(misLists))
	r.Set("selected_lists", len(selecteds))

	// ---- leg 1: the fate decision, event received ----
	type block struct {
		self               uint8
		localKey, eventKey int
		mis                []uint8
	}
	var blocks []block
	for self := uint8(1); self <= c05GroupSize; self++ {
		for lk := 0; lk < 2; lk++ {
			for ek := 0; ek < 2; ek++ {
				for _, mis := range misLists {
					blocks = append(blocks, block{self, lk, ek, mis})
				}
			}
		}
	}
	vrep.Parallel(vrep.Workers(), len(blocks), func(i int) {
		if r.Expired() {
			return
		}
		b := blocks[i]
		n := 0
		for _, mk := range localMarks(b.self) {
			for _, sel := range selecteds {
				runCase(c05Case{Self: b.self, LocalKey: b.localKey, EventKey: b.eventKey, Misbehaved: b.mis,
					LocalIA: mk.ia, LocalDQ: mk.dq, Selected: sel, HasEvent: true})
				n++
			}
		}
		// timeout only: nothing about the event matters, one run per local view
		for _, mk := range localMarks(b.self) {
			runCase(c05Case{Self: b.self, LocalKey: b.localKey, EventKey: b.eventKey, Misbehaved: b.mis,
				LocalIA: mk.ia, LocalDQ: mk.dq, Selected: "ABAC", HasTimeout: true})
			n++
		}
		r.Eval(n)
		r.Transition(n)
	})
	r.Sample(map[string]any{"case": c05Case{Self: 2, LocalKey: 0, EventKey: 0, Misbehaved: []uint8{4, 1}, LocalDQ: []uint8{3}, Selected: "ABAC", HasEvent: true}.String(),
		"expected": "member 2 stays, operators BA (seats 2,3)"})

	// ---- leg 2: resolveGroupOperators over every ordering of every subset ----
	var resolveCases []c05ResolveCase
	venum.Subsets(c05GroupSize, func(mask uint) bool {
		var ids []uint8
		for i := 0; i < c05GroupSize; i++ {
			if mask>>uint(i)&1 == 1 {
				ids = append(ids, uint8(i+1))
			}
		}
		venum.Perms(len(ids), func(p []int) bool {
			perm := make([]uint8, len(ids))
			for i, k := range p {
				perm[i] = ids[k]
			}
			for _, sel := range selecteds {
				resolveCases = append(resolveCases, c05ResolveCase{sel, perm})
			}
			for _, sel := range []string{"", "ABC", "ABCAB"} {
				resolveCases = append(resolveCases, c05ResolveCase{sel, perm})
			}
			return true
		})
		return true
	})
	vrep.Parallel(vrep.Workers(), len(resolveCases), func(i int) {
		rc := resolveCases[i]
		c05RunResolve(r, rc)
		r.Eval(1)
		if len(rc.IDs) >= 2 {
			r.Distinct(fmt.Sprintf("resolve|%s|%v", rc.Selected, rc.IDs))
		}
	})
	r.Set("resolve_cases", len(resolveCases))
	if r.Expired() {
		r.Cap("deadline")
	}
}
