//go:build verif

package dkg

import (
	"encoding/json"
	"fmt"
	"strings"
	"testing"

	"github.com/keep-network/keep-core/pkg/beacon/event"
	"github.com/keep-network/keep-core/pkg/chain"
	"github.com/keep-network/keep-core/pkg/verifshim/vrep"
	"github.com/keep-network/keep-core/pkg/verifshim/vsched"
)

type c05Obs struct {
	eventDelivered   bool
	timeoutDelivered bool
	done             bool
	ops              []chain.Address
	err              error
	requested        []uint64
}

func c05ObsString(o *c05Obs) string {
	return fmt.Sprintf("event=%v timeout=%v done=%v ops=%s err=%v waiter=%v", o.eventDelivered, o.timeoutDelivered, o.done, c05OpsString(o.ops), o.err, o.requested)
}

// c05Body: the member waits in the real waitForDkgResultEvent select (instrumented),
// an environment thread hands over the accepted result exactly like the
// OnDKGResultSubmitted handler of ExecuteDKG (unbuffered channel), another one fires
// the timeout block waiter.
func c05Body(c c05Case, obs *c05Obs) func() {
	return func() {
		*obs = c05Obs{}
		events := make(chan *event.DKGResultSubmission)
		timeout := make(chan uint64)
		bc := &c05BlockCounter{timeout: timeout}
		if c.HasEvent {
			vsched.GoDaemon("event", func() {
				vsched.Send(events, c05Event(c))
				obs.eventDelivered = true
			})
		}
		if c.HasTimeout {
			vsched.GoDaemon("timeout", func() {
				vsched.Send(timeout, uint64(100))
				obs.timeoutDelivered = true
			})
		}
		obs.ops, obs.err = c05Fate(c, events, bc)
		obs.requested = bc.requested
		obs.done = true
	}
}

func TestVerifC05Sched(t *testing.T) {
	r := vrep.Start(t, "C05", "sched")
	defer r.Finish()
	type replay struct {
		Case    c05Case `json:"case"`
		Choices []int   `json:"choices"`
		Bound   int     `json:"bound"`
	}
	var obs c05Obs
	evaluate := func(c c05Case, bound int, s *vsched.Sched) {
		r.Eval(1)
		r.Transition(len(s.Choices()) + 1)
		rp := replay{c, s.Choices(), bound}
		fail := func(kind, what string) {
			r.ViolationMin("sched:"+kind, len(c.Misbehaved)*100+len(s.Choices()), "sched "+kind+" "+c.String(), what+" [case "+c.String()+"; schedule "+s.Trace()+"]", rp)
		}
		if p, stack := s.Failed(); p != nil {
			fail("panic", fmt.Sprintf("panic: %v\n%s", p, stack))
			return
		}
		if s.StepCapHit {
			r.Cap("step-cap")
			return
		}
		if !obs.done {
			if c.HasEvent || c.HasTimeout {
				fail("stuck", fmt.Sprintf("the member never finished deciding: %v", s.Deadlock))
			}
			return
		}
		if obs.eventDelivered && obs.timeoutDelivered {
			fail("both-arms", "both the result event and the timeout were consumed by one wait")
		}
		class, kind, problem := c05Judge(c, obs.eventDelivered, obs.ops, obs.err)
		arm := "timeout"
		if obs.eventDelivered {
			arm = "event"
		}
		r.Outcome(arm + "/" + class)
		if strings.Contains(s.Trace(), ":select=") {
			// both senders were parked when the member reached the select and the
			// explorer took the non-default arm
			r.Add("select_both_ready_second_arm", 1)
		}
		listed := false
		for _, m := range c.Misbehaved {
			listed = listed || m == c.Self
		}
		r.State(fmt.Sprintf("arm=%s can=%v/%v keyEqual=%v listed=%v -> %s", arm, c.HasEvent, c.HasTimeout, c.LocalKey == c.EventKey, listed, class))
		if obs.eventDelivered {
			r.Distinct(fmt.Sprintf("%s|%v", c.String(), s.Choices()))
		}
		if problem != "" {
			fail(kind, problem)
		}
	}
	if rd := r.ReplayData(); rd != nil {
		var rp replay
		if json.Unmarshal(rd, &rp) == nil && rp.Case.Self != 0 {
			s := vsched.Replay(rp.Choices, vsched.Options{Bound: rp.Bound}, c05Body(rp.Case, &obs))
			evaluate(rp.Case, rp.Bound, s)
		}
		return
	}

	maxBound := 2
	selecteds := []string{"ABAC"}
	locals := [][2][]uint8{{nil, nil}}
	if r.Thorough() {
		maxBound = 3
		selecteds = []string{"ABAC", "AAAA", "CBAB"}
		locals = [][2][]uint8{{nil, nil}, {{2}, {3}}}
	}
	var cases []c05Case
	for self := uint8(1); self <= c05GroupSize; self++ {
		for eventKey := 0; eventKey < 2; eventKey++ {
			for mask := 0; mask < 1<<c05GroupSize; mask++ {
				var mis []uint8
				for m := 0; m < c05GroupSize; m++ {
					if mask>>uint(m)&1 == 1 {
						mis = append(mis, uint8(m+1))
					}
				}
				for _, kind := range [][2]bool{{true, false}, {false, true}, {true, true}} {
					for _, sel := range selecteds {
						for _, loc := range locals {
							var ia, dq []uint8
							for _, m := range loc[0] {
								if m != self {
									ia = append(ia, m)
								}
							}
							for _, m := range loc[1] {
								if m != self {
									dq = append(dq, m)
								}
							}
							cases = append(cases, c05Case{Self: self, LocalKey: 0, EventKey: eventKey, Misbehaved: mis,
								LocalIA: ia, LocalDQ: dq, Selected: sel, HasEvent: kind[0], HasTimeout: kind[1]})
						}
					}
				}
			}
		}
	}
	r.Set("cases", len(cases))
	for ci, c := range cases {
		if r.Expired() {
			r.Cap("deadline")
			break
		}
		if ci == len(cases)-1 {
			// determinism gate on a case where both arms can fire
			a := vsched.Replay(nil, vsched.Options{}, c05Body(c, &obs))
			oa := c05ObsString(&obs)
			b := vsched.Replay(nil, vsched.Options{}, c05Body(c, &obs))
			if !vsched.SameRun(a, b) || oa != c05ObsString(&obs) {
				t.Fatalf("NONDETERMINISM: two runs of the empty script differ: %v / %v\n%s\n%s", a.Choices(), b.Choices(), oa, c05ObsString(&obs))
			}
			r.ReplayedTwice(1)
			r.Sample(map[string]any{"case": c.String(), "script": a.Choices(), "observed": oa})
		}
		for bound := 0; bound <= maxBound; bound++ {
			st := vsched.Explore(vsched.Options{Bound: bound, Stop: r.Expired},
				c05Body(c, &obs), func(s *vsched.Sched) { evaluate(c, bound, s) })
			r.Add(fmt.Sprintf("bound%d_execs", bound), st.Execs)
			if st.Stopped {
				r.Cap(fmt.Sprintf("%s bound %d not completed", c.String(), bound))
			}
			if r.Violations() > 0 {
				break
			}
		}
	}
	r.Set("max_preemption_bound", maxBound)
}
