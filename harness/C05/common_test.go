//go:build verif

package dkg

import (
	"context"
	"fmt"
	"math/big"
	"strings"

	bn256 "github.com/ethereum/go-ethereum/crypto/bn256/cloudflare"
	beaconchain "github.com/keep-network/keep-core/pkg/beacon/chain"
	"github.com/keep-network/keep-core/pkg/beacon/event"
	"github.com/keep-network/keep-core/pkg/beacon/gjkr"
	"github.com/keep-network/keep-core/pkg/chain"
	"github.com/keep-network/keep-core/pkg/protocol/group"
)

const (
	c05GroupSize       = 4
	c05HonestThreshold = 3
)

var c05Keys = []*bn256.G2{
	new(bn256.G2).ScalarBaseMult(big.NewInt(10)),
	new(bn256.G2).ScalarBaseMult(big.NewInt(11)),
}

// c05Chain is a beacon chain that only knows its configuration: decideMemberFate
// asks for nothing else (any other call would nil-panic and be reported).
type c05Chain struct {
	beaconchain.Interface
	cfg *beaconchain.Config
}

func (c *c05Chain) GetConfig() *beaconchain.Config { return c.cfg }

func c05Config() *beaconchain.Config {
	return &beaconchain.Config{
		GroupSize:                  c05GroupSize,
		HonestThreshold:            c05HonestThreshold,
		ResultPublicationBlockStep: 3,
	}
}

// c05BlockCounter hands out the harness's timeout channel.
type c05BlockCounter struct {
	timeout   <-chan uint64
	requested []uint64
}

func (b *c05BlockCounter) WaitForBlockHeight(uint64) error { panic("not used") }
func (b *c05BlockCounter) BlockHeightWaiter(h uint64) (<-chan uint64, error) {
	b.requested = append(b.requested, h)
	return b.timeout, nil
}
func (b *c05BlockCounter) CurrentBlock() (uint64, error)           { panic("not used") }
func (b *c05BlockCounter) WatchBlocks(context.Context) <-chan uint64 { panic("not used") }

// c05Case is one complete input of the fate decision.
type c05Case struct {
	Self       uint8   `json:"self"`
	LocalKey   int     `json:"local_key"`
	EventKey   int     `json:"event_key"`
	Misbehaved []uint8 `json:"misbehaved"`
	LocalIA    []uint8 `json:"local_ia"`
	LocalDQ    []uint8 `json:"local_dq"`
	Selected   string  `json:"selected"` // one letter per seat
	HasEvent   bool    `json:"has_event"`
	HasTimeout bool    `json:"has_timeout"`
}

func (c c05Case) String() string {
	return fmt.Sprintf("self=%d localKey=K%d eventKey=K%d misbehaved=%v localIA=%v localDQ=%v selected=%s event=%v timeout=%v",
		c.Self, c.LocalKey, c.EventKey, c.Misbehaved, c.LocalIA, c.LocalDQ, c.Selected, c.HasEvent, c.HasTimeout)
}

func c05Selected(s string) []chain.Address {
	out := make([]chain.Address, len(s))
	for i := range s {
		out[i] = chain.Address("0x" + s[i:i+1])
	}
	return out
}

func c05OpsString(a []chain.Address) string {
	var b strings.Builder
	for _, x := range a {
		b.WriteString(strings.TrimPrefix(string(x), "0x"))
	}
	return b.String()
}

func c05LocalResult(c c05Case) *gjkr.Result {
	g := group.NewGroup(c05GroupSize-c05HonestThreshold, c05GroupSize)
	for _, m := range c.LocalIA {
		g.MarkMemberAsInactive(m)
	}
	for _, m := range c.LocalDQ {
		g.MarkMemberAsDisqualified(m)
	}
	return &gjkr.Result{Group: g, GroupPublicKey: c05Keys[c.LocalKey]}
}

func c05Event(c c05Case) *event.DKGResultSubmission {
	return &event.DKGResultSubmission{
		MemberIndex:    1,
		GroupPublicKey: c05Keys[c.EventKey].Marshal(),
		Misbehaved:     append([]uint8{}, c.Misbehaved...),
		BlockNumber:    20,
	}
}

// c05Fate is what ExecuteDKG does after its own publication failed: wait for the
// accepted result, decide, derive the operator list the ThresholdSigner will carry.
func c05Fate(
	c c05Case,
	events chan *event.DKGResultSubmission,
	bc chain.BlockCounter,
) (groupOperators []chain.Address, err error) {
	cfg := c05Config()
	bchain := &c05Chain{cfg: cfg}
	operating, err := decideMemberFate(c.Self, c05LocalResult(c), events, 10, bchain, bc)
	if err != nil {
		return nil, err
	}
	groupOperators, err = resolveGroupOperators(c05Selected(c.Selected), operating, cfg)
	if err != nil {
		return nil, fmt.Errorf("failed to resolve group operators: [%v]", err)
	}
	return groupOperators, nil
}

// c05Judge is the property statement. eventTaken says whether the member actually
// received the accepted result (as opposed to the timeout). Only the clauses of the
// statement are enforced: membership kept ONLY IF (event received, same key, not
// listed); operator list on success == selected operators of the non-misbehaving
// members in member-index order. Giving membership up is always allowed.
func c05Judge(c c05Case, eventTaken bool, ops []chain.Address, err error) (class, kind, problem string) {
	listed := false
	mis := map[uint8]bool{}
	for _, m := range c.Misbehaved {
		mis[m] = true
		if m == c.Self {
			listed = true
		}
	}
	keyEqual := c.LocalKey == c.EventKey
	var want []chain.Address
	sel := c05Selected(c.Selected)
	for i := 1; i <= c05GroupSize; i++ {
		if !mis[uint8(i)] {
			want = append(want, sel[i-1])
		}
	}
	stayed := err == nil
	switch {
	case !stayed && !eventTaken:
		return "left:timeout", "", ""
	case !stayed && !keyEqual:
		return "left:other-key", "", ""
	case !stayed && listed:
		return "left:listed", "", ""
	case !stayed && len(want) < c05HonestThreshold:
		return "left:too-few-operating", "", ""
	case !stayed:
		return "left:although-eligible", "", "" // statement is silent ("only if")
	case !eventTaken:
		return "stayed:timeout", "stayed-without-result", "member kept its membership although it never received an accepted result (timeout)"
	case !keyEqual:
		return "stayed:other-key", "stayed-other-key", "member kept its membership although the accepted result carries another group public key"
	case listed:
		return "stayed:listed", "stayed-listed", "member kept its membership although the accepted result lists it as misbehaving"
	}
	if c05OpsString(ops) != c05OpsString(want) {
		return "stayed:wrong-operators", "wrong-operators", fmt.Sprintf("group operators are %q, the selected operators of the non-misbehaving members in member-index order are %q", c05OpsString(ops), c05OpsString(want))
	}
	return fmt.Sprintf("stayed:%d-operators", len(ops)), "", ""
}
