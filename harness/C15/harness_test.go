//go:build verif

package state

// C15: the real AsyncMachine.Execute (async_machine.go + state.go recompiled for vsched)
// runs a toy message-driven protocol: state k can move on once it saw one "t<k>"
// message from each of the two peers. Threads: the machine, its per-state transition
// goroutines (spawned by the real code), a network thread delivering a scripted list of
// messages (current-state, future-state, duplicates, retransmissions) and optionally a
// canceller. The 100 ms transition check runs on the virtual clock.

import (
	"context"
	"encoding/json"
	"errors"
	"fmt"
	"strings"
	"testing"

	"github.com/keep-network/keep-core/internal/testutils"
	"github.com/keep-network/keep-core/pkg/net"
	"github.com/keep-network/keep-core/pkg/protocol/group"
	"github.com/keep-network/keep-core/pkg/verifshim/vctx"
	"github.com/keep-network/keep-core/pkg/verifshim/vrep"
	"github.com/keep-network/keep-core/pkg/verifshim/vsched"
)

type c15Msg struct {
	typ    string
	sender int
	id     int
}

func (m *c15Msg) TransportSenderID() net.TransportIdentifier { return nil }
func (m *c15Msg) SenderPublicKey() []byte                     { return nil }
func (m *c15Msg) Payload() interface{}                        { return m }
func (m *c15Msg) Type() string                                { return m.typ }
func (m *c15Msg) Seqno() uint64                               { return uint64(m.id) }

type c15Reg struct {
	ctx context.Context
	h   func(net.Message)
}

type c15Chan struct{ regs []*c15Reg }

func (c *c15Chan) Name() string { return "c15" }
func (c *c15Chan) Send(context.Context, net.TaggedMarshaler, ...net.RetransmissionStrategy) error {
	return nil
}
func (c *c15Chan) Recv(ctx context.Context, h func(net.Message)) {
	c.regs = append(c.regs, &c15Reg{ctx, h})
}
func (c *c15Chan) SetUnmarshaler(func() net.TaggedUnmarshaler) {}
func (c *c15Chan) SetFilter(net.BroadcastChannelFilter) error  { return nil }
func (c *c15Chan) deliver(m *c15Msg) int {
	live := 0
	for _, r := range c.regs {
		if r.ctx.Err() == nil {
			live++
			r.h(m)
		}
	}
	return live
}

type c15Obs struct {
	log        []string
	initDone   []bool
	canTrue    []bool // CanTransition returned true after Initiate finished
	nextCalled []int
	received   []int // message ids handed to Receive, in order
	visible    [][]int
}

type c15State struct {
	*BaseAsyncState
	idx, last  int
	initYields int
	initErrAt  int // state index whose Initiate fails (-1 none)
	obs        *c15Obs
}

func (s *c15State) need() string { return fmt.Sprintf("t%d", s.idx) }

func (s *c15State) CanTransition() bool {
	senders := map[int]bool{}
	for _, m := range s.GetAllReceivedMessages(s.need()) {
		senders[m.(*c15Msg).sender] = true
	}
	ok := len(senders) >= 2
	if ok && s.obs.initDone[s.idx] {
		s.obs.canTrue[s.idx] = true
	}
	return ok
}

func (s *c15State) Initiate(ctx context.Context) error {
	for i := 0; i < s.initYields; i++ {
		vsched.Yield()
	}
	if s.initErrAt >= 0 && s.idx == s.initErrAt%100 {
		// 1xx / 2xx: an operation inside Initiate ran into its OWN timeout or
		// cancellation (the machine's context is alive): the error wraps a context error
		switch s.initErrAt / 100 {
		case 1:
			return fmt.Errorf("initiate failed: inner operation: %w", context.Canceled)
		case 2:
			return fmt.Errorf("initiate failed: inner operation: %w", context.DeadlineExceeded)
		}
		return errors.New("initiate failed")
	}
	s.obs.initDone[s.idx] = true
	return nil
}

func (s *c15State) Receive(m net.Message) error {
	if s.obs.nextCalled[s.idx] != 0 || s.idx > 0 && s.obs.nextCalled[s.idx-1] != 1 {
		s.obs.log = append(s.obs.log, fmt.Sprintf("BUG: message %d handed to state %d which is not the current state", m.(*c15Msg).id, s.idx))
	}
	s.obs.received = append(s.obs.received, m.(*c15Msg).id)
	s.ReceiveToHistory(m)
	return nil
}

func (s *c15State) Next() (AsyncState, error) {
	s.obs.nextCalled[s.idx]++
	if !s.obs.initDone[s.idx] {
		s.obs.log = append(s.obs.log, fmt.Sprintf("BUG: Next of state %d before its Initiate finished", s.idx))
	}
	if !s.obs.canTrue[s.idx] {
		s.obs.log = append(s.obs.log, fmt.Sprintf("BUG: Next of state %d although CanTransition was never true after initiation", s.idx))
	}
	// what this state can see when it completes
	var vis []int
	for k := 0; k <= s.last; k++ {
		for _, m := range s.GetAllReceivedMessages(fmt.Sprintf("t%d", k)) {
			vis = append(vis, m.(*c15Msg).id)
		}
	}
	s.obs.visible[s.idx] = vis
	if s.idx == s.last {
		return nil, nil
	}
	return &c15State{s.BaseAsyncState, s.idx + 1, s.last, s.initYields, s.initErrAt, s.obs}, nil
}

func (s *c15State) MemberIndex() group.MemberIndex { return 1 }

type c15Scenario struct {
	States     int      `json:"states"`
	Script     []string `json:"script"` // e.g. "t1/1" = message of type t1 from peer 1
	InitYields int      `json:"init_yields"`
	Cancel     bool     `json:"cancel"`
	InitErrAt  int      `json:"init_err_at"`
	// Burst > 0: the script is preceded by Burst retransmissions of "t1/1" so that the
	// machine's receive buffer (512) fills up while the machine cannot drain it.
	Burst int `json:"burst,omitempty"`
	// MaxBound caps the exploration bound of this scenario (0 = the tier's bound).
	MaxBound int `json:"max_bound,omitempty"`
}

func (sc c15Scenario) String() string {
	return fmt.Sprintf("states=%d script=%s yields=%d cancel=%v initErr=%d burst=%d", sc.States, strings.Join(sc.Script, ","), sc.InitYields, sc.Cancel, sc.InitErrAt, sc.Burst)
}

type c15Result struct {
	obs       c15Obs
	final     AsyncState
	err       error
	returned  bool
	delivered []int // ids delivered to a live registration
	cancelled bool
	allSent   bool
}

func c15Body(sc c15Scenario, res *c15Result) func() {
	return func() {
		*res = c15Result{}
		n := sc.States
		res.obs = c15Obs{initDone: make([]bool, n), canTrue: make([]bool, n), nextCalled: make([]int, n), visible: make([][]int, n)}
		ch := &c15Chan{}
		ctx, cancel := vctx.WithCancel(context.Background())
		st := &c15State{NewBaseAsyncState(), 0, n - 1, sc.InitYields, sc.InitErrAt, &res.obs}
		m := NewAsyncMachine(&testutils.MockLogger{}, ctx, ch, st)
		vsched.GoDaemon("network", func() {
			script := sc.Script
			if sc.Burst > 0 {
				script = nil
				for i := 0; i < sc.Burst; i++ {
					script = append(script, "t1/1")
				}
				script = append(script, sc.Script...)
			}
			for i, spec := range script {
				var typ string
				var sender int
				fmt.Sscanf(strings.Replace(spec, "/", " ", 1), "%s %d", &typ, &sender)
				msg := &c15Msg{typ, sender, i}
				if ch.deliver(msg) > 0 {
					res.delivered = append(res.delivered, i)
				}
			}
			res.allSent = true
		})
		if sc.Cancel {
			vsched.GoLow("canceller", func() {
				cancel()
				res.cancelled = true
			})
		}
		res.final, res.err = m.Execute()
		res.returned = true
		_ = cancel
	}
}

type c15Replay struct {
	Scenario c15Scenario `json:"scenario"`
	Choices  []int       `json:"choices"`
	Bound    int         `json:"bound"`
}

func c15Evaluate(r *vrep.R, sc c15Scenario, bound int, s *vsched.Sched, res *c15Result) {
	r.Eval(1)
	r.Transition(len(s.Choices()) + 1)
	rp := c15Replay{sc, s.Choices(), bound}
	fail := func(kind, what string) {
		r.ViolationMin(kind, len(s.Choices()), fmt.Sprintf("%s %s", sc, kind), what+" [schedule "+s.Trace()+"]", rp)
	}
	if p, stack := s.Failed(); p != nil {
		fail("panic", fmt.Sprintf("panic: %v\n%s", p, stack))
		return
	}
	if s.StepCapHit {
		r.Cap("step-cap")
		return
	}
	for _, l := range res.obs.log {
		if strings.HasPrefix(l, "BUG") {
			fail("gate", l)
		}
	}
	for k, c := range res.obs.nextCalled {
		if c > 1 {
			fail("next-twice", fmt.Sprintf("Next of state %d was called %d times", k, c))
		}
		if c == 1 && k > 0 && res.obs.nextCalled[k-1] != 1 {
			fail("skipped-state", fmt.Sprintf("state %d completed although state %d did not", k, k-1))
		}
	}
	outcome := "?"
	switch {
	case !res.returned:
		outcome = "no-return"
		if s.HorizonHit {
			// the machine is still polling for messages that never come: legitimate
			outcome = "waiting-at-horizon"
		} else {
			fail("no-return", fmt.Sprintf("Execute never returned and nothing can make progress; blocked: %v", s.Deadlock))
		}
	case res.err == nil && res.final != nil:
		outcome = "final"
		fs, ok := res.final.(*c15State)
		if !ok || fs.idx != sc.States-1 {
			fail("wrong-final", fmt.Sprintf("Execute returned state %v without error, want the last state", res.final))
		}
		for k := 0; k < sc.States; k++ {
			if res.obs.nextCalled[k] != 1 {
				fail("skipped-state", fmt.Sprintf("Execute reported success but state %d never completed", k))
			}
		}
		if sc.InitErrAt >= 0 {
			fail("failed-initiate-ignored", fmt.Sprintf("Execute reported success although Initiate of state %d returned an error", sc.InitErrAt%100))
		}
	case res.err != nil && res.final == nil:
		if errors.Is(res.err, context.Canceled) && !(sc.InitErrAt >= 100 && strings.Contains(res.err.Error(), "failed to initiate")) {
			outcome = "cancelled"
			if !sc.Cancel {
				fail("spurious-cancel", "Execute returned context.Canceled although nobody cancelled")
			}
		} else {
			outcome = "error"
			if sc.InitErrAt < 0 {
				fail("spurious-error", fmt.Sprintf("Execute returned %v although no state failed", res.err))
			}
		}
	default:
		fail("bad-result", fmt.Sprintf("Execute returned (%v, %v)", res.final, res.err))
	}
	// every message handed over at most once, in delivery order, and nothing that was
	// delivered to a live registration is lost once the machine finished normally
	seen := map[int]int{}
	last := -1
	for _, id := range res.obs.received {
		seen[id]++
		if seen[id] > 1 {
			fail("handed-twice", fmt.Sprintf("message %d was handed to Receive twice", id))
		}
		if id < last {
			fail("reordered", fmt.Sprintf("message %d handed after message %d", id, last))
		}
		last = id
	}
	// early messages are kept: whatever was handed to Receive before a state completed
	// is visible to that state (history is shared across states)
	if outcome == "final" {
		lastVis := map[int]bool{}
		for _, id := range res.obs.visible[sc.States-1] {
			lastVis[id] = true
		}
		for k := 0; k < sc.States; k++ {
			for _, id := range res.obs.visible[k] {
				if !lastVis[id] {
					fail("history-lost", fmt.Sprintf("message %d was visible to state %d but no longer to the last state", id, k))
				}
			}
		}
	}
	// liveness inside the horizon: all messages sent, nothing failed, nobody cancelled
	// and the script contains what every state needs => the machine must finish
	if outcome == "waiting-at-horizon" && res.allSent && !sc.Cancel && sc.InitErrAt < 0 && c15Sufficient(sc) && len(res.delivered) == len(sc.Script)+sc.Burst {
		fail("stuck", "all needed messages were delivered but the machine is still waiting at the horizon")
	}
	r.Outcome(outcome)
	r.State(fmt.Sprintf("%s|%s|recv=%v|next=%v", sc, outcome, res.obs.received, res.obs.nextCalled))
	if s.Trace() != "" {
		r.Distinct(fmt.Sprintf("%s|%v", sc, s.Choices()))
	}
}

func c15Sufficient(sc c15Scenario) bool {
	have := map[string]bool{}
	if sc.Burst > 0 {
		have["t1/1"] = true
	}
	for _, m := range sc.Script {
		have[m] = true
	}
	for k := 0; k < sc.States; k++ {
		if !have[fmt.Sprintf("t%d/1", k)] || !have[fmt.Sprintf("t%d/2", k)] {
			return false
		}
	}
	return true
}

func TestVerifC15(t *testing.T) {
	r := vrep.Start(t, "C15", "async")
	defer r.Finish()
	var res c15Result
	opts := func(bound int) vsched.Options {
		return vsched.Options{Bound: bound, Horizon: 8, ClockPreempt: true, Stop: r.Expired}
	}
	if rd := r.ReplayData(); rd != nil {
		var rp c15Replay
		if json.Unmarshal(rd, &rp) == nil && rp.Scenario.States > 0 {
			s := vsched.Replay(rp.Choices, opts(rp.Bound), c15Body(rp.Scenario, &res))
			c15Evaluate(r, rp.Scenario, rp.Bound, s, &res)
		}
		return
	}
	scenarios := []c15Scenario{
		// in order
		{2, []string{"t0/1", "t0/2", "t1/1", "t1/2"}, 1, false, -1, 0, 0},
		// the member lags: all future-state messages first, duplicates and a retransmission
		{2, []string{"t1/1", "t1/2", "t1/1", "t0/1", "t0/2"}, 1, false, -1, 0, 0},
		// cancellation at any point
		{2, []string{"t0/1", "t1/1", "t0/2", "t1/2"}, 1, true, -1, 0, 0},
		// a state fails to initiate
		{2, []string{"t0/1", "t0/2", "t1/1", "t1/2"}, 0, false, 1, 0, 0},
		// a peer stays silent for state 1: the machine must keep waiting, not finish
		{2, []string{"t0/1", "t0/2", "t1/1"}, 0, false, -1, 0, 0},
		// a state fails to initiate because an operation inside it was cancelled / timed
		// out on its own; the member already holds every message (late member)
		{2, []string{"t1/1", "t1/2", "t0/1", "t0/2"}, 0, false, 101, 0, 1},
		{2, []string{"t0/1", "t0/2", "t1/1", "t1/2"}, 1, false, 200, 0, 1},
	}
	// a burst larger than the receive buffer while the machine is not draining: the
	// handler must exert back-pressure, not drop (bound 0/1 only: ~1300 points per run)
	scenarios = append(scenarios, c15Scenario{States: 2, Script: []string{"t0/1", "t0/2", "t1/2"}, InitYields: 0, InitErrAt: -1, Burst: asyncReceiveBuffer + 8, MaxBound: 1})
	maxBound := 2
	if r.Thorough() {
		scenarios = append(scenarios,
			c15Scenario{3, []string{"t2/1", "t2/2", "t1/1", "t1/2", "t0/1", "t0/2"}, 2, false, -1, 0, 0},
			c15Scenario{3, []string{"t0/1", "t2/2", "t1/1", "t0/2", "t1/2", "t2/1", "t0/1"}, 1, true, -1, 0, 0},
		)
		maxBound = 3
	}
	shard, shards := r.Shard()
	for i, sc := range scenarios {
		if i == 0 && shard == 0 {
			a := vsched.Replay(nil, opts(0), c15Body(sc, &res))
			ra := fmt.Sprint(res.obs.received, res.obs.nextCalled, res.err)
			b := vsched.Replay(nil, opts(0), c15Body(sc, &res))
			if !vsched.SameRun(a, b) || ra != fmt.Sprint(res.obs.received, res.obs.nextCalled, res.err) {
				t.Fatalf("NONDETERMINISM: two runs of the empty script differ")
			}
			r.ReplayedTwice(1)
			r.Sample(map[string]any{"scenario": sc, "script": a.Choices(), "handed": res.obs.received, "next_calls": res.obs.nextCalled})
		}
		scBound := maxBound
		if sc.MaxBound > 0 && sc.MaxBound < scBound {
			scBound = sc.MaxBound
		}
		for bound := 0; bound <= scBound; bound++ {
			if bound < scBound && shard != 0 {
				continue
			}
			o := opts(bound)
			o.Shard, o.Shards = shard, shards
			st := vsched.Explore(o, c15Body(sc, &res), func(s *vsched.Sched) { c15Evaluate(r, sc, bound, s, &res) })
			if bound < scBound {
				r.Set(fmt.Sprintf("sc%d.bound%d_execs", i, bound), st.Execs)
			}
			if st.Stopped {
				r.Cap(fmt.Sprintf("scenario %d bound %d not completed", i, bound))
			}
		}
	}
	r.Set("max_preemption_bound", maxBound)
}
