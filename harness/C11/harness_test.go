//go:build verif

package tbtc

import (
	"context"
	"encoding/json"
	"fmt"
	"math/big"
	"sort"
	"strings"
	"testing"
	"time"

	"github.com/keep-network/keep-core/internal/testutils"
	"github.com/keep-network/keep-core/pkg/chain"
	"github.com/keep-network/keep-core/pkg/protocol/group"
	"github.com/keep-network/keep-core/pkg/tecdsa"
	"github.com/keep-network/keep-core/pkg/tecdsa/dkg"
	"github.com/keep-network/keep-core/pkg/tecdsa/signing"
	"github.com/keep-network/keep-core/pkg/verifshim/vctx"
	"github.com/keep-network/keep-core/pkg/verifshim/venum"
	"github.com/keep-network/keep-core/pkg/verifshim/vrep"
	"github.com/keep-network/keep-core/pkg/verifshim/vsched"
	"github.com/keep-network/keep-core/pkg/verifshim/vtime"
)

// ---------------------------------------------------------------------------------
// Scenario
// ---------------------------------------------------------------------------------

// c11Cfg fixes everything that is not an environment answer: which loop, which member
// runs it, the start block all members share, the block the member's node is at when
// it enters the loop (Start+Late; negative = early) and the attempt bound.
type c11Cfg struct {
	Kind     string `json:"kind"` // signing | dkg
	Member   int    `json:"member"`
	Start    uint64 `json:"start"`
	Late     int64  `json:"late"`
	Attempts int    `json:"attempts"`
	Fine     bool   `json:"fine"` // every block is a possible return block (else: window boundaries +-1)
}

// 4 seats, 4 operators; signing threshold 3, dkg quorum 3 (a member that announces
// alone is below both).
var c11Operators = chain.Addresses{"0xA1", "0xB2", "0xC3", "0xD4"}

const c11Need = 3

func c11Window(kind string) uint64 {
	if kind == "dkg" {
		return uint64(dkgAttemptMaximumBlocks())
	}
	return uint64(signingAttemptMaximumBlocks())
}

// ---------------------------------------------------------------------------------
// Virtual block clock
// ---------------------------------------------------------------------------------

// c11Clock is the block counter of one execution. Threads wait on it through
// vsched.Block; a low-priority miner thread moves it to the next block somebody waits
// for, and only when no other thread can run (discrete-event time).
type c11Clock struct {
	now     uint64
	targets []uint64
}

func (c *c11Clock) next() (uint64, bool) {
	best, ok := uint64(0), false
	for _, t := range c.targets {
		if t > c.now && (!ok || t < best) {
			best, ok = t, true
		}
	}
	return best, ok
}

func (c *c11Clock) want(b uint64) {
	if b > c.now {
		c.targets = append(c.targets, b)
	}
}

func (c *c11Clock) sleepUntil(b uint64) {
	if b <= c.now {
		return
	}
	c.want(b)
	vsched.Block(fmt.Sprintf("clock>=%d", b), func() bool { return c.now >= b })
}

// ---------------------------------------------------------------------------------
// Observations
// ---------------------------------------------------------------------------------

// c11Att is what the seams saw of one attempt (0 / false = not observed).
type c11Att struct {
	N           uint   `json:"n"`
	Faults      int    `json:"faults,omitempty"` // chain-client failures injected in this attempt
	Start       uint64 `json:"start"`            // attemptStartBlock field when the attempt was entered
	EnteredAt   uint64 `json:"entered_at"`       // clock at the first seam call of the attempt
	WaitBlock   uint64 `json:"wait_block"`       // block the loop thread waited for before announcing
	Waited      bool   `json:"waited"`           //
	Announced   bool   `json:"announced"`        // announcer invoked
	AnnEntry    uint64 `json:"ann_entry"`        // clock when the announcer was invoked
	AnnExit     uint64 `json:"ann_exit"`         // clock when the announcement context was cancelled
	AnnWaited   bool   `json:"ann_waited"`       // the fake waited for that cancellation
	AnnCut      bool   `json:"ann_cut"`          // ... but it was the loop context that ended
	AnnEntryCut bool   `json:"ann_entry_cut"`    // the loop context was already over when the announcer was invoked
	Listened    bool   `json:"listened"`         // done check armed (signing)
	ListenTO    uint64 `json:"listen_to"`        // timeout block handed to the done check
	Executed    bool   `json:"executed"`         // attempt function invoked
	ExecAt      uint64 `json:"exec_at"`          //
	ParamsStart uint64 `json:"params_start"`     // attempt params
	ParamsTO    uint64 `json:"params_to"`        //
	DoneCtxEnd  uint64 `json:"done_ctx_end"`     // clock when the done-check context was cancelled while a fake waited on it
	DoneCtxSeen bool   `json:"done_ctx_seen"`
	DoneCut     bool   `json:"done_cut"`   // ... but it was the loop context that ended
	DoneEarly   bool   `json:"done_early"` // the done-check context was over before the timeout block it was announced with
	DoneEarlyAt uint64 `json:"done_early_at"`
	Outcome     string `json:"outcome"`
}

type c11Trace struct {
	Atts      []*c11Att
	EndKey    string // canonical state the execution stopped in
	EndN      uint
	Terminal  bool
	Result    string
	NewScript []int
	Labels    []string // outcome labels of all attempts (fingerprint)
	Panic     any
	Stack     string
	Deadlock  []string
	StepCap   bool
}

// ---------------------------------------------------------------------------------
// Environment of one execution
// ---------------------------------------------------------------------------------

type c11Env struct {
	cfg   c11Cfg
	clk   *c11Clock
	hist  [][]int  // decisions of attempts 1..len(hist)
	c     *venum.C // decisions of attempt len(hist)+1 (nil: stop there)
	pos   int
	cur   uint // attempt whose decisions are being consumed
	tr    *c11Trace
	att   *c11Att
	loopT int // logical thread running the loop

	counter func() uint   // attemptCounter of the loop under test
	startB  func() uint64 // attemptStartBlock of the loop under test
	doneCtx context.Context
	loopCtx context.Context // the context the loop runs under
}

func (e *c11Env) parentOver() bool { return e.loopCtx != nil && e.loopCtx.Err() != nil }

type c11Stop struct{}

// begin is called at the first seam of every loop iteration: it samples the state and
// either opens the record of the attempt or ends the execution when the scripted
// history is used up.
func (e *c11Env) begin() {
	n, start := e.counter(), e.startB()
	last := uint(len(e.hist))
	if e.c != nil {
		last++
	}
	if n > last {
		e.tr.EndKey = fmt.Sprintf("%s|m%d|s%d|n%d|start%+d|now%+d", e.cfg.Kind, e.cfg.Member, e.cfg.Start, n, int64(start-e.cfg.Start), int64(e.clk.now-e.cfg.Start))
		e.tr.EndN = n
		vsched.Stop()
		vsched.Block("stopped", func() bool { return false })
	}
	e.att = &c11Att{N: n, Start: start, EnteredAt: e.clk.now}
	e.tr.Atts = append(e.tr.Atts, e.att)
	e.cur, e.pos = n, 0
}

// sync opens the record of the attempt the loop is in if no seam of that attempt was
// seen yet (the first seam of an iteration is normally getCurrentBlockFn for the
// signing loop and the wait for the announcement start block for the dkg loop).
func (e *c11Env) sync() {
	if e.att == nil || e.att.N != e.counter() {
		e.begin()
	}
}

// choose asks the script of the current attempt (or the explorer for the attempt being
// expanded) for an environment answer.
func (e *c11Env) choose(n int, label string) int {
	if n <= 1 {
		return 0
	}
	if int(e.cur) <= len(e.hist) {
		s := e.hist[e.cur-1]
		if e.pos >= len(s) {
			panic(fmt.Sprintf("c11: history of attempt %d too short at %s", e.cur, label))
		}
		v := s[e.pos]
		e.pos++
		if v >= n {
			panic(fmt.Sprintf("c11: history of attempt %d: answer %d >= %d at %s", e.cur, v, n, label))
		}
		return v
	}
	v := e.c.Choose(n, label)
	e.tr.NewScript = append(e.tr.NewScript, v)
	return v
}

// c11MaxFaults bounds the chain-client failures injected while the loop stays in one
// attempt (the unchanged loops leave the attempt on every such failure, so they see at
// most two; a loop that retries in place would otherwise make the histories unbounded).
const c11MaxFaults = 2

// fault asks whether the chain client fails at this seam call.
func (e *c11Env) fault(label string) bool {
	if e.att != nil && e.att.Faults >= c11MaxFaults {
		return false
	}
	if e.choose(2, label) == 1 {
		if e.att != nil {
			e.att.Faults++
		}
		return true
	}
	return false
}

func (e *c11Env) label(s string) {
	if e.att != nil {
		if e.att.Outcome != "" {
			e.att.Outcome += ","
		}
		e.att.Outcome += s
	}
}

func (e *c11Env) onLoopThread() bool { return vsched.ThreadID() == e.loopT }

// waitForBlock is the waitForBlockFn seam: like node.waitForBlockHeight it returns nil
// when the block is reached or the context is done.
func (e *c11Env) waitForBlock(ctx context.Context, b uint64) error {
	if e.onLoopThread() {
		e.sync()
		e.att.WaitBlock, e.att.Waited = b, true
		if e.fault("wait") {
			e.label("wait-error")
			return fmt.Errorf("c11: block counter failure")
		}
	}
	if b > e.clk.now && ctx.Err() == nil {
		e.clk.want(b)
		vsched.Block(fmt.Sprintf("block>=%d", b), func() bool { return e.clk.now >= b || ctx.Err() != nil })
	}
	return nil
}

func (e *c11Env) getCurrentBlock() (uint64, error) {
	e.sync()
	if e.fault("gcb") {
		e.label("gcb-error")
		return 0, fmt.Errorf("c11: cannot get current block")
	}
	return e.clk.now, nil
}

// Announce is the announcer seam. Like the real announcer it fails at once (send
// error) or blocks until the announcement context is done; an announcement that ends
// in the block it began (the phase was over on entry) has heard nobody but the member.
func (e *c11Env) Announce(ctx context.Context, member group.MemberIndex, sessionID string) ([]group.MemberIndex, error) {
	e.sync()
	a := e.att
	a.Announced, a.AnnEntry, a.AnnEntryCut = true, e.clk.now, e.parentOver()
	k := e.choose(4, "announce")
	if k == 3 {
		e.label("announce-error")
		return nil, fmt.Errorf("c11: cannot send announcement")
	}
	vsched.Block("announce ctx", func() bool { return ctx.Err() != nil })
	a.AnnExit, a.AnnWaited, a.AnnCut = e.clk.now, true, e.parentOver()
	if a.AnnCut {
		e.label("loop-ctx-over")
		return []group.MemberIndex{member}, nil
	}
	if a.AnnExit == a.AnnEntry {
		e.label("announce-late")
		return []group.MemberIndex{member}, nil
	}
	switch k {
	case 0:
		e.label("all-ready")
		return []group.MemberIndex{1, 2, 3, 4}, nil
	case 1:
		e.label("alone")
		return []group.MemberIndex{member}, nil
	}
	e.label("just-enough")
	var out []group.MemberIndex
	for m := group.MemberIndex(1); m <= 4 && len(out) < c11Need-1; m++ {
		if m != member {
			out = append(out, m)
		}
	}
	out = append(out, member)
	sort.Slice(out, func(i, j int) bool { return out[i] < out[j] })
	return out, nil
}

// returnBlocks lists the blocks an attempt (or done check) may end at, from `from`
// on: every block up to two windows past the timeout (fine) or the boundaries of this
// and the next two windows, each +-1 (coarse).
func (e *c11Env) returnBlocks(from, annStart, annEnd, timeout uint64) []uint64 {
	L := c11Window(e.cfg.Kind)
	set := map[uint64]bool{from: true}
	if e.cfg.Fine {
		for b := from; b <= timeout+2*L+2; b++ {
			set[b] = true
		}
	} else {
		for j := uint64(0); j <= 2; j++ {
			for _, x := range []uint64{e.att.Start + j*L, annStart + j*L, annEnd + j*L, timeout + j*L} {
				for d := uint64(0); d <= 2; d++ {
					if x+d >= 1 && x+d-1 >= from {
						set[x+d-1] = true
					}
				}
			}
		}
	}
	out := make([]uint64, 0, len(set))
	for b := range set {
		out = append(out, b)
	}
	sort.Slice(out, func(i, j int) bool { return out[i] < out[j] })
	return out
}

// attempt answers an attempt function call: error at any return block, success at any
// return block up to the timeout.
func (e *c11Env) attempt(number uint, startBlock, timeoutBlock uint64) (ok bool, at uint64) {
	e.sync()
	a := e.att
	a.Executed, a.ExecAt, a.ParamsStart, a.ParamsTO = true, e.clk.now, startBlock, timeoutBlock
	blocks := e.returnBlocks(e.clk.now, a.WaitBlock, startBlock, timeoutBlock)
	nsucc := 0
	for _, b := range blocks {
		if b <= timeoutBlock {
			nsucc++
		}
	}
	k := e.choose(len(blocks)+nsucc, "attempt")
	if k < len(blocks) {
		e.clk.sleepUntil(blocks[k])
		e.label(fmt.Sprintf("attempt-error@%+d", int64(blocks[k]-timeoutBlock)))
		return false, blocks[k]
	}
	b := blocks[k-len(blocks)]
	e.clk.sleepUntil(b)
	e.label(fmt.Sprintf("attempt-ok@%+d", int64(b-timeoutBlock)))
	return true, b
}

// signing done check seams
func (e *c11Env) listen(ctx context.Context, message *big.Int, attemptNumber uint64, attemptTimeoutBlock uint64, members []group.MemberIndex) {
	e.sync()
	e.att.Listened, e.att.ListenTO = true, attemptTimeoutBlock
	e.doneCtx = ctx
}

func (e *c11Env) signalDone(ctx context.Context, memberIndex group.MemberIndex, message *big.Int, attemptNumber uint64, result *signing.Result, endBlock uint64) error {
	if e.choose(2, "signalDone") == 1 {
		e.label("signal-error")
		return fmt.Errorf("c11: cannot send done check")
	}
	return nil
}

func (e *c11Env) waitUntilAllDone(ctx context.Context) (*signing.Result, uint64, error) {
	a := e.att
	if !a.Executed {
		e.label("excluded")
	}
	if ctx.Err() != nil {
		if !e.parentOver() && e.clk.now < a.ListenTO {
			a.DoneEarly, a.DoneEarlyAt = true, e.clk.now
		}
		e.label("done-ctx-over")
		return nil, 0, fmt.Errorf("c11: done check context is over")
	}
	var blocks []uint64
	for _, b := range e.returnBlocks(e.clk.now, a.WaitBlock, a.WaitBlock, a.ListenTO) {
		if b < a.ListenTO {
			blocks = append(blocks, b)
		}
	}
	k := e.choose(len(blocks)+1, "allDone")
	if k == 0 {
		vsched.Block("done ctx", func() bool { return ctx.Err() != nil })
		a.DoneCtxEnd, a.DoneCtxSeen, a.DoneCut = e.clk.now, true, e.parentOver()
		e.label("done-timeout")
		return nil, 0, fmt.Errorf("c11: done checks missing")
	}
	b := blocks[k-1]
	e.clk.sleepUntil(b)
	if ctx.Err() != nil {
		// the context ended before the block the script picked (possible only if the
		// context is not the one announced through listen)
		a.DoneCtxEnd, a.DoneCtxSeen, a.DoneCut = e.clk.now, true, e.parentOver()
		e.label("done-timeout-early")
		return nil, 0, fmt.Errorf("c11: done check context is over")
	}
	e.label(fmt.Sprintf("all-done@%+d", int64(b-a.ListenTO)))
	return &signing.Result{Signature: &tecdsa.Signature{R: big.NewInt(1), S: big.NewInt(2)}}, b, nil
}

// c11Exec runs one execution: the loop of cfg against the scripted environment.
func c11Exec(cfg c11Cfg, hist [][]int, c *venum.C) *c11Trace {
	tr := &c11Trace{}
	body := func() {
		clk := &c11Clock{now: uint64(int64(cfg.Start) + cfg.Late)}
		e := &c11Env{cfg: cfg, clk: clk, hist: hist, c: c, tr: tr, loopT: vsched.ThreadID()}
		vsched.GoLow("miner", func() {
			for {
				vsched.Block("miner", func() bool { _, ok := clk.next(); return ok })
				// blocks take time: code that pauses for a second or two (a retry delay)
				// continues within the block it paused in, not windows later
				nb, _ := clk.next()
				vtime.Sleep(time.Duration(nb-clk.now) * 12 * time.Second)
				if nb2, ok := clk.next(); ok && nb2 < nb {
					nb = nb2 // somebody asked for an earlier block meanwhile
				}
				clk.now = nb
			}
		})
		root, cancelRoot := vctx.WithCancel(context.Background())
		gp := &GroupParameters{GroupSize: len(c11Operators), GroupQuorum: c11Need, HonestThreshold: c11Need}
		L := c11Window(cfg.Kind)
		if cfg.Kind == "signing" {
			loop := newSigningRetryLoop(&testutils.MockLogger{}, big.NewInt(100), cfg.Start, group.MemberIndex(cfg.Member),
				c11Operators, gp, e, e)
			e.counter = func() uint { return loop.attemptCounter }
			e.startB = func() uint64 { return loop.attemptStartBlock }
			// like signingExecutor.sign: the loop context ends after the attempts limit
			loopCtx, _ := withCancelOnBlock(root, cfg.Start+uint64(cfg.Attempts)*L, e.waitForBlock)
			e.loopCtx = loopCtx
			res, err := loop.start(loopCtx, e.waitForBlock, e.getCurrentBlock,
				func(p *signingAttemptParams) (*signing.Result, uint64, error) {
					ok, at := e.attempt(p.number, p.startBlock, p.timeoutBlock)
					if !ok {
						return nil, 0, fmt.Errorf("c11: signing attempt failed")
					}
					return &signing.Result{Signature: &tecdsa.Signature{R: big.NewInt(1), S: big.NewInt(2)}}, at, nil
				})
			tr.Terminal = true
			switch {
			case err == nil && res != nil:
				tr.Result = fmt.Sprintf("signed(timeout%+d)", int64(res.attemptTimeoutBlock-cfg.Start))
			case err == context.Canceled:
				tr.Result = "loop-context-over"
			default:
				tr.Result = "error"
			}
		} else {
			loop := newDkgRetryLoop(&testutils.MockLogger{}, big.NewInt(100), cfg.Start, group.MemberIndex(cfg.Member),
				c11Operators, gp, e, uint(cfg.Attempts))
			e.counter = func() uint { return loop.attemptCounter }
			e.startB = func() uint64 { return loop.attemptStartBlock }
			e.loopCtx = root
			res, err := loop.start(root, e.waitForBlock,
				func(p *dkgAttemptParams) (*dkg.Result, error) {
					ok, _ := e.attempt(p.number, p.startBlock, p.timeoutBlock)
					if !ok {
						return nil, fmt.Errorf("c11: dkg attempt failed")
					}
					return &dkg.Result{}, nil
				})
			tr.Terminal = true
			switch {
			case err == nil && res != nil:
				tr.Result = "generated"
			case err != nil && strings.Contains(err.Error(), "reached the limit"):
				tr.Result = "attempts-limit"
			case err != nil && strings.Contains(err.Error(), "cannot select members"):
				tr.Result = "selection-exhausted"
			default:
				tr.Result = "error"
			}
		}
		tr.EndKey = fmt.Sprintf("%s|m%d|s%d|returned:%s", cfg.Kind, cfg.Member, cfg.Start, tr.Result)
		// release the helper goroutines still waiting for a block
		cancelRoot()
	}
	s := vsched.Replay(nil, vsched.Options{MaxSteps: 200000, Horizon: 100000}, body)
	tr.Panic, tr.Stack = s.Failed()
	tr.Deadlock = s.Deadlock
	tr.StepCap = s.StepCapHit
	for _, a := range tr.Atts {
		if a.Outcome == "" {
			switch {
			case !a.Waited:
				a.Outcome = "skipped"
			case !a.Announced:
				a.Outcome = "not-announced"
			}
		}
		if cfg.Kind == "dkg" && a.Announced && !a.Executed && (strings.HasPrefix(a.Outcome, "all-ready") || strings.HasPrefix(a.Outcome, "just-enough")) {
			a.Outcome += ",excluded"
		}
		tr.Labels = append(tr.Labels, fmt.Sprintf("%d:%s", a.N, a.Outcome))
	}
	return tr
}

// ---------------------------------------------------------------------------------
// Oracle
// ---------------------------------------------------------------------------------

// c11Windows is the table "attempt n of a loop started at block S has this window",
// filled from whatever the seams observe; every later observation - other history,
// other member, other seam - must say the same.
type c11Entry struct {
	val  uint64
	from c11Replay
}

type c11Replay struct {
	Cfg   c11Cfg     `json:"cfg"`
	Hist  [][]int    `json:"hist"`
	Other *c11Replay `json:"other,omitempty"`
}

type c11Oracle struct {
	r     *vrep.R
	table map[string]c11Entry // kind|start|n|component
}

func (o *c11Oracle) observe(rp c11Replay, n uint, comp string, val uint64, size int, labels string) {
	key := fmt.Sprintf("%s|%d|%d|%s", rp.Cfg.Kind, rp.Cfg.Start, n, comp)
	if prev, ok := o.table[key]; ok {
		if prev.val != val {
			both := rp
			other := prev.from
			both.Other = &other
			o.r.ViolationMin(rp.Cfg.Kind+":window-differs:"+comp, size,
				fmt.Sprintf("%s start=%d attempt=%d %s member=%d late=%+d [%s]", rp.Cfg.Kind, rp.Cfg.Start, n, comp, rp.Cfg.Member, rp.Cfg.Late, labels),
				fmt.Sprintf("attempt %d of the %s loop started at block %d: %s is block %d here (member %d, entered at %+d, history %s) but block %d in another run (member %d, entered at %+d)",
					n, rp.Cfg.Kind, rp.Cfg.Start, comp, val, rp.Cfg.Member, rp.Cfg.Late, labels, prev.val, prev.from.Cfg.Member, prev.from.Cfg.Late), both)
		}
		return
	}
	o.table[key] = c11Entry{val, rp}
}

func (o *c11Oracle) lookup(cfg c11Cfg, n uint, comp string) (uint64, bool) {
	e, ok := o.table[fmt.Sprintf("%s|%d|%d|%s", cfg.Kind, cfg.Start, n, comp)]
	return e.val, ok
}

func c11Size(hist [][]int) int {
	n := 0
	for _, h := range hist {
		n += 100 + len(h)
		for _, v := range h {
			n += v
		}
	}
	return n
}

// check applies the property to one execution.
func (o *c11Oracle) check(cfg c11Cfg, hist [][]int, tr *c11Trace) {
	rp := c11Replay{Cfg: cfg, Hist: hist}
	size := c11Size(hist)
	labels := strings.Join(tr.Labels, " ")
	fp := func(kind string) string {
		return fmt.Sprintf("%s %s member=%d late=%+d [%s]", cfg.Kind, kind, cfg.Member, cfg.Late, labels)
	}
	if tr.Panic != nil {
		if msg := fmt.Sprint(tr.Panic); strings.HasPrefix(msg, "c11:") || strings.HasPrefix(msg, "venum:") {
			panic("harness failure: " + msg + "\n" + tr.Stack)
		}
		o.r.ViolationMin(cfg.Kind+":panic", size, fp("panic"), fmt.Sprintf("the loop panicked: %v\n%s", tr.Panic, tr.Stack), rp)
		return
	}
	if tr.StepCap {
		o.r.ViolationMin(cfg.Kind+":livelock", size, fp("livelock"), "the execution did not finish within 200000 scheduling steps", rp)
		return
	}
	if len(tr.Deadlock) > 0 {
		o.r.ViolationMin(cfg.Kind+":stuck", size, fp("stuck"),
			fmt.Sprintf("no block can ever wake the loop again; blocked threads: %v (a context the loop handed out is never cancelled)", tr.Deadlock), rp)
		return
	}
	var prev *c11Att
	for _, a := range tr.Atts {
		// --- same windows for everybody ---------------------------------------
		o.observe(rp, a.N, "start", a.Start, size, labels)
		if a.Waited {
			o.observe(rp, a.N, "announcement-start", a.WaitBlock, size, labels)
		}
		if a.AnnWaited && !a.AnnCut && a.AnnExit > a.AnnEntry {
			// the announcement context ended while the announcer was waiting: that
			// block is the end of the announcement phase
			o.observe(rp, a.N, "announcement-end", a.AnnExit, size, labels)
		}
		if a.Executed {
			o.observe(rp, a.N, "announcement-end", a.ParamsStart, size, labels)
			o.observe(rp, a.N, "timeout", a.ParamsTO, size, labels)
		}
		if a.Listened {
			o.observe(rp, a.N, "timeout", a.ListenTO, size, labels)
		}
		if a.DoneCtxSeen && !a.DoneCut {
			o.observe(rp, a.N, "timeout", a.DoneCtxEnd, size, labels)
		}
		if a.DoneEarly {
			o.r.ViolationMin(cfg.Kind+":window-differs:done-context", size, fp("done-context"),
				fmt.Sprintf("attempt %d: the done check was told the attempt times out at block %d but its context was already over at block %d", a.N, a.ListenTO, a.DoneEarlyAt), rp)
		}
		// --- attempt n+1 begins only after attempt n has timed out -------------
		if prev != nil && prev.N+1 == a.N {
			if to, ok := o.lookup(cfg, prev.N, "timeout"); ok && a.Start <= to {
				o.r.ViolationMin(cfg.Kind+":overlap", size, fp("overlap"),
					fmt.Sprintf("attempt %d begins at block %d but attempt %d times out at block %d", a.N, a.Start, prev.N, to), rp)
			}
		}
		if a.Announced && !a.AnnEntryCut && a.N > 1 {
			if to, ok := o.lookup(cfg, a.N-1, "timeout"); ok && a.AnnEntry <= to {
				o.r.ViolationMin(cfg.Kind+":overlap-announcement", size, fp("overlap-announcement"),
					fmt.Sprintf("the member announced for attempt %d at block %d, but attempt %d only times out at block %d", a.N, a.AnnEntry, a.N-1, to), rp)
			}
		}
		// --- only take part while the announcement phase has not passed --------
		if a.AnnWaited && !a.AnnCut && a.AnnExit == a.AnnEntry {
			if cfg.Kind == "signing" {
				o.r.ViolationMin("signing:late-announcement", size, fp("late-announcement"),
					fmt.Sprintf("attempt %d: the member announced at block %d although the announcement phase of that attempt was already over (its context ended in the same block)", a.N, a.AnnEntry), rp)
			}
			if a.Executed {
				o.r.ViolationMin(cfg.Kind+":late-execution", size, fp("late-execution"),
					fmt.Sprintf("attempt %d was executed although the member entered its announcement at block %d, after the phase was over", a.N, a.AnnEntry), rp)
			}
		}
		if a.Executed && a.Announced && a.AnnEntry >= a.ParamsStart {
			o.r.ViolationMin(cfg.Kind+":late-execution", size, fp("late-execution"),
				fmt.Sprintf("attempt %d was executed (start block %d) although the member entered its announcement only at block %d", a.N, a.ParamsStart, a.AnnEntry), rp)
		}
		prev = a
	}
}

// finish checks the non-overlap clause on the completed table as well (a timeout
// observed only in runs that did not reach the next attempt).
func (o *c11Oracle) finish() {
	var keys []string
	for k := range o.table {
		if strings.HasSuffix(k, "|timeout") {
			keys = append(keys, k)
		}
	}
	sort.Strings(keys)
	for _, k := range keys {
		var kind, comp string
		var start uint64
		var n uint
		p := strings.Split(k, "|")
		kind, comp = p[0], p[3]
		fmt.Sscan(p[1], &start)
		fmt.Sscan(p[2], &n)
		_ = comp
		to := o.table[k]
		next, ok := o.table[fmt.Sprintf("%s|%d|%d|start", kind, start, n+1)]
		if ok && next.val <= to.val {
			rp := next.from
			other := to.from
			rp.Other = &other
			o.r.ViolationMin(kind+":overlap", c11Size(rp.Hist), fmt.Sprintf("%s overlap attempt=%d start=%d", kind, n+1, start),
				fmt.Sprintf("attempt %d begins at block %d but attempt %d times out at block %d", n+1, next.val, n, to.val), rp)
		}
	}
}

// ---------------------------------------------------------------------------------
// Exploration: explicit-state breadth-first search over attempt histories
// ---------------------------------------------------------------------------------

type c11Node struct {
	cfg  c11Cfg
	hist [][]int
}

func TestVerifC11(t *testing.T) {
	r := vrep.Start(t, "C11", "loops")
	defer r.Finish()
	o := &c11Oracle{r: r, table: map[string]c11Entry{}}

	if rd := r.ReplayData(); rd != nil {
		var rp c11Replay
		if json.Unmarshal(rd, &rp) == nil && rp.Cfg.Kind != "" {
			if rp.Other != nil {
				o.check(rp.Other.Cfg, rp.Other.Hist, c11Exec(rp.Other.Cfg, rp.Other.Hist, nil))
			}
			tr := c11Exec(rp.Cfg, rp.Hist, nil)
			if b, err := json.Marshal(tr.Atts); err == nil {
				t.Logf("replayed %+v history %v: attempts %s result %q panic %v", rp.Cfg, rp.Hist, b, tr.Result, tr.Panic)
			}
			o.check(rp.Cfg, rp.Hist, tr)
			o.finish()
		}
		return
	}

	// determinism gate: the same history twice must observe the same thing
	{
		cfg := c11Cfg{Kind: "signing", Member: 1, Start: 200, Attempts: 3}
		hist := [][]int{{0, 0, 1}, {0, 0, 3}}
		a, _ := json.Marshal(c11Exec(cfg, hist, nil).Atts)
		b, _ := json.Marshal(c11Exec(cfg, hist, nil).Atts)
		if string(a) != string(b) {
			t.Fatalf("NONDETERMINISM: two runs of the same history differ:\n%s\n%s", a, b)
		}
		r.ReplayedTwice(1)
		r.Sample(map[string]any{"cfg": cfg, "history": hist, "observed": json.RawMessage(a)})
	}

	type c11Group struct {
		kind  string
		start uint64
	}
	groups := []c11Group{{"signing", 200}, {"dkg", 200}, {"signing", 1 << 40}, {"dkg", 1 << 40}}
	attempts := map[string]int{"signing": 4, "dkg": 3}
	members := []int{1, 2, 3}
	if r.Thorough() {
		attempts = map[string]int{"signing": 5, "dkg": 4}
		members = []int{1, 2, 3, 4}
	}
	for gi, g := range groups {
		if !r.Mine(gi / 2) { // one process per start block (both loops)
			continue
		}
		L := int64(c11Window(g.kind))
		for _, member := range members {
			fine := r.Thorough() && g.kind == "signing" && member == 1 && g.start == 200
			// the block the member's node is at when it enters the loop: early, on
			// time, inside / at the end of / after the first announcement, one and two
			// windows late
			lates := []int64{-3, 0, 1, 3}
			var annEnd int64
			if g.kind == "dkg" {
				annEnd = dkgAttemptAnnouncementDelayBlocks + dkgAttemptAnnouncementActiveBlocks
			} else {
				annEnd = signingAttemptAnnouncementDelayBlocks + signingAttemptAnnouncementActiveBlocks
			}
			lates = append(lates, annEnd-1, annEnd, annEnd+1, L, L+annEnd-1, L+annEnd, 2*L+2)
			if fine {
				lates = lates[:0]
				for x := int64(-3); x <= 2*L+2; x++ {
					lates = append(lates, x)
				}
			}
			var queue []c11Node
			for _, late := range lates {
				cfg := c11Cfg{Kind: g.kind, Member: member, Start: g.start, Late: late, Attempts: attempts[g.kind], Fine: fine}
				tr := c11Exec(cfg, nil, nil)
				r.Eval(1)
				o.check(cfg, nil, tr)
				if r.State(tr.EndKey) {
					queue = append(queue, c11Node{cfg, nil})
				}
			}
			for len(queue) > 0 && !r.Expired() {
				node := queue[0]
				queue = queue[1:]
				venum.Explore(venum.Options{Bound: 1 << 30, Stop: r.Expired}, func(c *venum.C) {
					tr := c11Exec(node.cfg, node.hist, c)
					hist := append(append([][]int{}, node.hist...), tr.NewScript)
					r.Eval(1)
					r.Transition(1)
					o.check(node.cfg, hist, tr)
					if len(tr.Atts) > 0 {
						last := tr.Atts[len(tr.Atts)-1]
						r.Outcome(g.kind + ":" + c11Class(last.Outcome))
						r.Distinct(fmt.Sprintf("%s|%d|%d|%s", g.kind, g.start, member, strings.Join(tr.Labels, " ")) + fmt.Sprintf("|%+d", node.cfg.Late))
					}
					if tr.Terminal {
						r.Outcome(g.kind + ":returned:" + tr.Result)
					}
					if tr.EndKey == "" {
						return // stuck / panicked: reported by check
					}
					if r.State(tr.EndKey) && !tr.Terminal {
						if int(tr.EndN) <= node.cfg.Attempts+1 {
							queue = append(queue, c11Node{node.cfg, hist})
						} else {
							r.Add("states_beyond_attempt_bound", 1)
						}
					}
				})
			}
		}
	}
	o.finish()
	r.Set("attempt_bounds", fmt.Sprintf("signing=%d dkg=%d", attempts["signing"], attempts["dkg"]))
	r.Add("window_table_entries", int64(len(o.table)))
}

// c11Class strips the block offsets from an outcome label.
func c11Class(outcome string) string {
	parts := strings.Split(outcome, ",")
	for i, p := range parts {
		if j := strings.Index(p, "@"); j >= 0 {
			parts[i] = p[:j]
		}
	}
	return strings.Join(parts, ",")
}
