//go:build verif

package tbtc

// C08 harness, unit "sign". Wallets: the 3-of-5 fixture group of pkg/internal/tecdsatest
// and every wallet the unit "wallets" generated (with and without excluded members).
// For each wallet the signers are built the way the production code does after a key
// generation: dkgExecutor.registerSigner (finalSigningGroup, newSigner, wallet registry,
// wallet storage with the signer's storage format), then a second registry is loaded
// from that storage (a restarted node) and the signers are taken from it, as
// node.getSigningExecutor does. For every honest-threshold subset of the final group
// and every message the real signing.Execute runs in one goroutine per participant with
// the arguments signingExecutor.sign passes (stored member index, stored key share,
// wallet.groupSize(), wallet.groupDishonestThreshold(), the other members excluded)
// over a live harness channel with a delivery policy.

import (
	"context"
	"crypto/ecdsa"
	"crypto/sha256"
	"encoding/hex"
	"encoding/json"
	"fmt"
	"math/big"
	"os"
	"path/filepath"
	"sort"
	"strings"
	"sync"
	"testing"
	"time"

	btcec_ecdsa "github.com/btcsuite/btcd/btcec/v2/ecdsa"
	"github.com/keep-network/keep-common/pkg/persistence"

	"github.com/keep-network/keep-core/internal/testutils"
	"github.com/keep-network/keep-core/pkg/bitcoin"
	"github.com/keep-network/keep-core/pkg/chain"
	"github.com/keep-network/keep-core/pkg/chain/local_v1"
	"github.com/keep-network/keep-core/pkg/generator"
	"github.com/keep-network/keep-core/pkg/internal/tecdsatest"
	"github.com/keep-network/keep-core/pkg/net"
	netlocal "github.com/keep-network/keep-core/pkg/net/local"
	"github.com/keep-network/keep-core/pkg/operator"
	"github.com/keep-network/keep-core/pkg/protocol/group"
	"github.com/keep-network/keep-core/pkg/tecdsa"
	"github.com/keep-network/keep-core/pkg/tecdsa/dkg"
	"github.com/keep-network/keep-core/pkg/tecdsa/signing"
	"github.com/keep-network/keep-core/pkg/verifshim/vrep"
)

// ---- environment fakes ----

type c08Signing struct{}

func (c08Signing) Address() chain.Address                           { return "" }
func (c08Signing) PublicKey() []byte                                { return nil }
func (c08Signing) Sign([]byte) ([]byte, error)                      { return nil, nil }
func (c08Signing) Verify([]byte, []byte) (bool, error)              { return false, nil }
func (c08Signing) VerifyWithPublicKey(_, _, _ []byte) (bool, error) { return false, nil }
func (c08Signing) PublicKeyToAddress(pk *operator.PublicKey) (chain.Address, error) {
	return "", fmt.Errorf("unused")
}
func (c08Signing) PublicKeyBytesToAddress(pk []byte) chain.Address {
	return chain.Address(hex.EncodeToString(pk))
}

func c08OperatorKey(seat int) []byte { return []byte{0xc8, byte(seat)} }

// c08Store is an in-memory persistence.ProtectedHandle.
type c08Desc struct {
	name, dir string
	content   []byte
}

func (d *c08Desc) Name() string             { return d.name }
func (d *c08Desc) Directory() string        { return d.dir }
func (d *c08Desc) Content() ([]byte, error) { return d.content, nil }

type c08Store struct {
	mu    sync.Mutex
	saved []*c08Desc
}

func (s *c08Store) Save(data []byte, directory string, name string) error {
	s.mu.Lock()
	defer s.mu.Unlock()
	s.saved = append(s.saved, &c08Desc{name: name, dir: directory, content: append([]byte{}, data...)})
	return nil
}
func (s *c08Store) Snapshot([]byte, string, string) error { return nil }
func (s *c08Store) Archive(string) error                  { return nil }
func (s *c08Store) Delete(string, string) error           { return nil }
func (s *c08Store) ReadAll() (<-chan persistence.DataDescriptor, <-chan error) {
	s.mu.Lock()
	defer s.mu.Unlock()
	out := make(chan persistence.DataDescriptor, len(s.saved))
	errs := make(chan error)
	// a directory listing is sorted by name, not by member index
	list := append([]*c08Desc{}, s.saved...)
	sort.SliceStable(list, func(a, b int) bool { return list[a].dir+list[a].name < list[b].dir+list[b].name })
	for _, d := range list {
		out <- d
	}
	close(out)
	close(errs)
	return out, errs
}

// ---- wallets (exchange format of the unit "wallets") ----

type c08WalletCfg struct {
	N        int   `json:"n"`
	H        int   `json:"honest_threshold"`
	Excluded []int `json:"excluded"`
	Seed     int64 `json:"seed"`
}

type c08WalletMember struct {
	DkgIndex     int    `json:"dkg_index"`
	Disqualified []int  `json:"disqualified"`
	Inactive     []int  `json:"inactive"`
	Share        string `json:"share"`
	PartyKey     string `json:"party_key"`
	PublicKey    string `json:"public_key"`
}

type c08WalletFile struct {
	Cfg     c08WalletCfg      `json:"cfg"`
	Members []c08WalletMember `json:"members"`
}

type c08Wallet struct {
	name    string
	fixture bool
	cfg     c08WalletCfg
	results map[int]*dkg.Result // DKG member index -> its result
	party   map[int]*big.Int    // DKG member index -> key of the tss party it ran
}

func c08FixtureWallet() (*c08Wallet, error) {
	shares, err := tecdsatest.LoadPrivateKeyShareTestFixtures(5)
	if err != nil {
		return nil, err
	}
	w := &c08Wallet{name: "fixture 3-of-5", fixture: true, cfg: c08WalletCfg{N: 5, H: 3, Seed: 200},
		results: map[int]*dkg.Result{}, party: map[int]*big.Int{}}
	for i, s := range shares {
		w.results[i+1] = &dkg.Result{Group: group.NewGroup(2, 5), PrivateKeyShare: tecdsa.NewPrivateKeyShare(s)}
		// the fixture group was generated with seed 200: party key = 200 + index
		w.party[i+1] = big.NewInt(int64(200 + i + 1))
	}
	return w, nil
}

func c08LoadWallet(path string) (*c08Wallet, error) {
	b, err := os.ReadFile(path)
	if err != nil {
		return nil, err
	}
	var wf c08WalletFile
	if err := json.Unmarshal(b, &wf); err != nil {
		return nil, err
	}
	w := &c08Wallet{name: fmt.Sprintf("dkg %d-of-%d excluded=%v seed=%d", wf.Cfg.H, wf.Cfg.N, wf.Cfg.Excluded, wf.Cfg.Seed),
		cfg: wf.Cfg, results: map[int]*dkg.Result{}, party: map[int]*big.Int{}}
	for _, m := range wf.Members {
		sb, err := hex.DecodeString(m.Share)
		if err != nil {
			return nil, err
		}
		share := &tecdsa.PrivateKeyShare{}
		if err := share.Unmarshal(sb); err != nil {
			return nil, fmt.Errorf("key share of member %d does not unmarshal: %v", m.DkgIndex, err)
		}
		g := group.NewGroup(wf.Cfg.N-wf.Cfg.H, wf.Cfg.N)
		for _, d := range m.Disqualified {
			g.MarkMemberAsDisqualified(group.MemberIndex(d))
		}
		for _, d := range m.Inactive {
			g.MarkMemberAsInactive(group.MemberIndex(d))
		}
		w.results[m.DkgIndex] = &dkg.Result{Group: g, PrivateKeyShare: share}
		k, ok := new(big.Int).SetString(m.PartyKey, 10)
		if !ok {
			return nil, fmt.Errorf("bad party key")
		}
		w.party[m.DkgIndex] = k
	}
	return w, nil
}

func (w *c08Wallet) dkgIndexes() []int {
	var is []int
	for i := range w.results {
		is = append(is, i)
	}
	sort.Ints(is)
	return is
}

// c08Signers: registerSigner for every member that finished the key generation, then
// the signers as a restarted node finds them in its storage.
func c08Signers(w *c08Wallet) (signers []*signer, dkgIndexOf map[group.MemberIndex]int, problem string) {
	return c08SignersLayout(w, func(seat int) int { return seat })
}

// c08SignersLayout is c08Signers for a wallet whose seat i is held by operator
// layout(i) (operators may hold several, also non-adjacent, seats).
func c08SignersLayout(w *c08Wallet, layout func(seat int) int) (signers []*signer, dkgIndexOf map[group.MemberIndex]int, problem string) {
	selected := make(chain.Addresses, w.cfg.N)
	for i := 1; i <= w.cfg.N; i++ {
		selected[i-1] = c08Signing{}.PublicKeyBytesToAddress(c08OperatorKey(layout(i)))
	}
	store := &c08Store{}
	walletID := func(*ecdsa.PublicKey) ([32]byte, error) { return [32]byte{}, nil }
	registry, err := newWalletRegistry(store, walletID)
	if err != nil {
		return nil, nil, "registry: " + err.Error()
	}
	de := &dkgExecutor{
		// the quorum is lowered to the honest threshold so that every wallet the key
		// generation can produce (>= honest threshold operating members) is registered
		groupParameters: &GroupParameters{GroupSize: w.cfg.N, GroupQuorum: w.cfg.H, HonestThreshold: w.cfg.H},
		walletRegistry:  registry,
	}
	registered := map[group.MemberIndex]int{}
	for _, di := range w.dkgIndexes() {
		var s *signer
		var rerr error
		if p, stack := vrep.Guard(func() {
			s, rerr = de.registerSigner(w.results[di], group.MemberIndex(di), selected)
		}); p != nil {
			return nil, nil, fmt.Sprintf("registerSigner(member %d) panicked: %v\n%s", di, p, stack)
		}
		if rerr != nil {
			return nil, nil, fmt.Sprintf("registerSigner(member %d): %v", di, rerr)
		}
		if prev, dup := registered[s.signingGroupMemberIndex]; dup {
			return nil, nil, fmt.Sprintf("DKG members %d and %d were both stored with signing group member index %d", prev, di, s.signingGroupMemberIndex)
		}
		registered[s.signingGroupMemberIndex] = di
	}
	// restart: a new registry over the same storage
	reloaded, err := newWalletRegistry(store, walletID)
	if err != nil {
		return nil, nil, "reloaded registry: " + err.Error()
	}
	pub := w.results[w.dkgIndexes()[0]].PrivateKeyShare.PublicKey()
	signers = reloaded.getSigners(pub)
	if len(signers) != len(registered) {
		return nil, nil, fmt.Sprintf("%d signers registered, %d found in the storage under the wallet key of member %d", len(registered), len(signers), w.dkgIndexes()[0])
	}
	sort.SliceStable(signers, func(a, b int) bool {
		return signers[a].signingGroupMemberIndex < signers[b].signingGroupMemberIndex
	})
	return signers, registered, ""
}

// ---- live broadcast channel with delivery policies ----

const c08TypePrefix = "tecdsa_signing/"

var c08Types = []string{
	"ephemeral_public_key_message", "tss_round_one_message", "tss_round_two_message", "tss_round_three_message",
	"tss_round_four_message", "tss_round_five_message", "tss_round_six_message", "tss_round_seven_message",
	"tss_round_eight_message", "tss_round_nine_message",
}

func c08Phase(typ string) int {
	for i, t := range c08Types {
		if c08TypePrefix+t == typ {
			return i + 1
		}
	}
	return 0
}

type c08Msg struct {
	payload interface{}
	key     []byte
	typ     string
	sender  group.MemberIndex
}

func (m *c08Msg) TransportSenderID() net.TransportIdentifier { return nil }
func (m *c08Msg) SenderPublicKey() []byte                    { return m.key }
func (m *c08Msg) Payload() interface{}                       { return m.payload }
func (m *c08Msg) Type() string                               { return m.typ }
func (m *c08Msg) Seqno() uint64                              { return 0 }

// c08Policy: inorder | dup (every message twice) | swap (the victim gets the messages
// of phase k, k of the given parity, only after those of phase k+1) | late (the victim's
// Execute starts after all others sent their first message; it then gets the backlog).
type c08Policy struct {
	Name   string `json:"name"`
	Victim int    `json:"victim,omitempty"` // position in the subset (0-based)
	Parity int    `json:"parity,omitempty"`
}

func (p c08Policy) String() string {
	switch p.Name {
	case "swap":
		return fmt.Sprintf("swap(victim#%d,parity=%d)", p.Victim, p.Parity)
	case "late":
		return fmt.Sprintf("late(victim#%d)", p.Victim)
	case "lag":
		return fmt.Sprintf("lag(victim#%d gets the first-phase messages %dms late)", p.Victim, p.Parity*100+20)
	}
	return p.Name
}

type c08Port struct {
	member    group.MemberIndex
	ctx       context.Context
	h         func(net.Message)
	held      []*c08Msg
	delivered map[string]bool
}

type c08Live struct {
	mu           sync.Mutex
	policy       c08Policy
	victim       group.MemberIndex
	others       int // participants other than the victim
	unmarshalers map[string]func() net.TaggedUnmarshaler
	ports        []*c08Port
	log          []*c08Msg
	firstSenders map[group.MemberIndex]bool
	problems     []string
}

// copyFor gives a receiver its own decoded copy, as the network does.
func (l *c08Live) copyFor(m *c08Msg, raw []byte) *c08Msg {
	f := l.unmarshalers[m.typ]
	if f == nil {
		l.problems = append(l.problems, "no unmarshaler registered for "+m.typ)
		return m
	}
	u := f()
	if err := u.Unmarshal(raw); err != nil {
		l.problems = append(l.problems, "message does not survive the wire format: "+err.Error())
		return m
	}
	return &c08Msg{payload: u, key: m.key, typ: m.typ, sender: m.sender}
}

// handOver applies the policy for one port; called with l.mu held.
func (l *c08Live) handOver(p *c08Port, m *c08Msg, raw []byte) {
	deliver := func(x *c08Msg) {
		if p.ctx.Err() == nil {
			p.h(x)
		}
		p.delivered[fmt.Sprintf("%d/%d", c08Phase(x.typ), x.sender)] = true
	}
	cp := l.copyFor(m, raw)
	k := c08Phase(m.typ)
	if l.policy.Name == "lag" && p.member == l.victim && m.sender != p.member && k == 1 {
		// the victim gets the first-phase messages of the others late (Parity*100+20 ms):
		// it completes the first exchange one or more transition check intervals after
		// them, so their round-one messages reach it while it sits in an earlier state -
		// for one of the delays in the message-less symmetric key state, whose window is
		// one check interval long
		delay := time.Duration(l.policy.Parity*100+20) * time.Millisecond
		go func() {
			time.Sleep(delay)
			l.mu.Lock()
			defer l.mu.Unlock()
			deliver(cp)
		}()
	} else if l.policy.Name == "swap" && p.member == l.victim && m.sender != p.member && k >= 1 && k < len(c08Types) && k%2 == l.policy.Parity {
		p.held = append(p.held, cp)
	} else {
		deliver(cp)
		if l.policy.Name == "dup" {
			deliver(l.copyFor(m, raw))
		}
	}
	// release what was held for a phase whose successor phase has arrived completely
	var still []*c08Msg
	for _, hm := range p.held {
		hk := c08Phase(hm.typ)
		got := 0
		for key := range p.delivered {
			if strings.HasPrefix(key, fmt.Sprintf("%d/", hk+1)) && key != fmt.Sprintf("%d/%d", hk+1, p.member) {
				got++
			}
		}
		if got >= l.others {
			deliver(hm)
		} else {
			still = append(still, hm)
		}
	}
	p.held = still
}

type c08Chan struct {
	live   *c08Live
	member group.MemberIndex
	key    []byte
}

func (c *c08Chan) Name() string { return "c08-live" }
func (c *c08Chan) Send(_ context.Context, m net.TaggedMarshaler, _ ...net.RetransmissionStrategy) error {
	raw, err := m.Marshal()
	if err != nil {
		return err
	}
	l := c.live
	l.mu.Lock()
	defer l.mu.Unlock()
	msg := &c08Msg{payload: m, key: c.key, typ: m.Type(), sender: c.member}
	l.log = append(l.log, msg)
	l.firstSenders[c.member] = true
	for _, p := range l.ports {
		l.handOver(p, msg, raw)
	}
	return nil
}
func (c *c08Chan) Recv(ctx context.Context, h func(net.Message)) {
	l := c.live
	l.mu.Lock()
	defer l.mu.Unlock()
	p := &c08Port{member: c.member, ctx: ctx, h: h, delivered: map[string]bool{}}
	l.ports = append(l.ports, p)
	for _, m := range l.log {
		raw, err := m.payload.(net.TaggedMarshaler).Marshal()
		if err != nil {
			continue
		}
		l.handOver(p, m, raw)
	}
}
func (c *c08Chan) SetUnmarshaler(f func() net.TaggedUnmarshaler) {
	c.live.mu.Lock()
	c.live.unmarshalers[f().Type()] = f
	c.live.mu.Unlock()
}
func (c *c08Chan) SetFilter(net.BroadcastChannelFilter) error { return nil }

// ---- one signing ----

type c08Case struct {
	Wallet    string        `json:"wallet"`
	DkgWallet *c08WalletCfg `json:"dkg_wallet,omitempty"` // nil: the fixture group
	Subset    []int         `json:"subset"`               // stored signing group member indexes
	Message   string        `json:"message"`              // hex
	Policy    c08Policy     `json:"policy"`
}

func (c c08Case) String() string {
	return fmt.Sprintf("%s subset=%v msg=%s %s", c.Wallet, c.Subset, c08MsgName(c.Message), c.Policy)
}

func c08MsgName(h string) string {
	if len(h) > 12 {
		return h[:6] + ".." + h[len(h)-4:]
	}
	return h
}

func c08Messages() []*big.Int {
	x := sha256.Sum256([]byte("x"))
	return []*big.Int{big.NewInt(1), new(big.Int).Lsh(big.NewInt(1), 255), new(big.Int).SetBytes(x[:])}
}

type c08SignOut struct {
	res *signing.Result
	err error
}

func c08Sign(r *vrep.R, cs c08Case, signers []*signer, honestThreshold int, timeout time.Duration) {
	msg, _ := new(big.Int).SetString(cs.Message, 16)
	byIndex := map[group.MemberIndex]*signer{}
	for _, s := range signers {
		byIndex[s.signingGroupMemberIndex] = s
	}
	// as node.getSigningExecutor: the wallet of the first signer
	wallet := signers[0].wallet
	validator := group.NewMembershipValidator(&testutils.MockLogger{}, wallet.signingGroupOperators, c08Signing{})
	inSubset := map[group.MemberIndex]bool{}
	for _, i := range cs.Subset {
		inSubset[group.MemberIndex(i)] = true
	}
	var excluded []group.MemberIndex
	for i := 1; i <= wallet.groupSize(); i++ {
		if !inSubset[group.MemberIndex(i)] {
			excluded = append(excluded, group.MemberIndex(i))
		}
	}
	live := &c08Live{policy: cs.Policy, others: len(cs.Subset) - 1, unmarshalers: map[string]func() net.TaggedUnmarshaler{},
		firstSenders: map[group.MemberIndex]bool{}}
	if cs.Policy.Name == "swap" || cs.Policy.Name == "late" || cs.Policy.Name == "lag" {
		live.victim = group.MemberIndex(cs.Subset[cs.Policy.Victim%len(cs.Subset)])
	}
	ctx, cancel := context.WithTimeout(context.Background(), timeout)
	defer cancel()
	sessionID := fmt.Sprintf("%v-%v", msg.Text(16), 1)
	outs := map[group.MemberIndex]*c08SignOut{}
	var mu sync.Mutex
	var wg sync.WaitGroup
	fp := cs.String()
	report := func(kind, what string) {
		r.ViolationMin(kind, len(cs.Subset)*10+len(cs.Policy.Name), fp, what, cs)
	}
	start := func(idx group.MemberIndex) {
		s := byIndex[idx]
		if s == nil {
			report("missing-signer", fmt.Sprintf("no stored signer has signing group member index %d (group size %d)", idx, wallet.groupSize()))
			return
		}
		addr := wallet.signingGroupOperators[idx-1]
		key, _ := hex.DecodeString(addr.String())
		ch := &c08Chan{live: live, member: idx, key: key}
		signing.RegisterUnmarshallers(ch)
		wg.Add(1)
		go func() {
			defer wg.Done()
			var o c08SignOut
			if p, stack := vrep.Guard(func() {
				// the call signingExecutor.sign makes
				o.res, o.err = signing.Execute(
					ctx,
					&testutils.MockLogger{},
					msg,
					sessionID,
					s.signingGroupMemberIndex,
					s.privateKeyShare,
					wallet.groupSize(),
					wallet.groupDishonestThreshold(honestThreshold),
					excluded,
					ch,
					validator,
				)
			}); p != nil {
				o.err = fmt.Errorf("panic: %v\n%s", p, stack)
			}
			mu.Lock()
			outs[idx] = &o
			mu.Unlock()
		}()
	}
	for _, i := range cs.Subset {
		if cs.Policy.Name == "late" && group.MemberIndex(i) == live.victim {
			continue
		}
		start(group.MemberIndex(i))
	}
	if cs.Policy.Name == "late" {
		for ctx.Err() == nil {
			live.mu.Lock()
			n := len(live.firstSenders)
			live.mu.Unlock()
			if n >= len(cs.Subset)-1 {
				break
			}
			time.Sleep(10 * time.Millisecond)
		}
		start(live.victim)
	}
	wg.Wait()
	timedOut := ctx.Err() != nil

	r.Eval(1)
	r.Distinct(cs.String())
	for _, p := range live.problems {
		report("wire-format", p)
	}
	pub := wallet.publicKey
	var sigs []*tecdsa.Signature
	var who []group.MemberIndex
	var errs []string
	for _, i := range cs.Subset {
		o := outs[group.MemberIndex(i)]
		if o == nil || o.err != nil || o.res == nil || o.res.Signature == nil {
			e := "no result"
			if o != nil && o.err != nil {
				e = o.err.Error()
			}
			errs = append(errs, fmt.Sprintf("member %d: %s", i, e))
			continue
		}
		sigs = append(sigs, o.res.Signature)
		who = append(who, group.MemberIndex(i))
	}
	if timedOut && len(errs) > 0 {
		// The statement demands a signature from every honest-threshold subset. A live
		// protocol that stalls can only be told from a slow one by a bound; it is two
		// orders of magnitude above the time a signing takes (seconds).
		r.Outcome("no signature: still running after " + timeout.String())
		report("no-signature", fmt.Sprintf("an honest-threshold subset of the final signing group did not produce a signature: still running after %s (all messages were delivered): %s", timeout, strings.Join(errs, "; ")))
		return
	}
	if len(errs) > 0 {
		e := errs[0]
		short := e
		if len(short) > 90 {
			short = short[:90]
		}
		r.Outcome("no signature: " + short)
		report("no-signature", fmt.Sprintf("an honest-threshold subset of the final signing group did not produce a signature: %s", strings.Join(errs, "; ")))
		return
	}
	hash := make([]byte, 32)
	msg.FillBytes(hash)
	halfN := new(big.Int).Rsh(pub.Curve.Params().N, 1)
	class := "signed"
	for k, sig := range sigs {
		if !sig.Equals(sigs[0]) {
			report("signature-disagreement", fmt.Sprintf("members %d and %d output different signatures: %s / %s", who[0], who[k], sigs[0], sig))
			class = "disagreement"
		}
		if sig.R.Sign() <= 0 || sig.S.Sign() <= 0 || !ecdsa.Verify(pub, hash, sig.R, sig.S) {
			report("signature-invalid", fmt.Sprintf("signature of member %d does not verify under the wallet public key: %s", who[k], sig))
			class = "invalid"
			continue
		}
		if sig.S.Cmp(halfN) > 0 {
			report("high-s", fmt.Sprintf("signature of member %d has S > N/2: %s", who[k], sig))
			class = "high-s"
		}
		if !c08Recovers(pub, hash, sig) {
			report("recovery-id", fmt.Sprintf("recovery id %d of member %d's signature does not recover the wallet public key", sig.RecoveryID, who[k]))
			class = "bad-recovery-id"
		}
	}
	r.Outcome(fmt.Sprintf("%s by %d of %d, recovery id %d", class, len(cs.Subset), wallet.groupSize(), sigs[0].RecoveryID))
	r.Add("signatures_checked", int64(len(sigs)))
}

func c08Recovers(pub *ecdsa.PublicKey, hash []byte, sig *tecdsa.Signature) (ok bool) {
	defer func() {
		if recover() != nil {
			ok = false
		}
	}()
	if sig.RecoveryID < 0 || sig.RecoveryID > 3 {
		return false
	}
	compact := make([]byte, 65)
	compact[0] = 27 + byte(sig.RecoveryID)
	sig.R.FillBytes(compact[1:33])
	sig.S.FillBytes(compact[33:65])
	rec, _, err := btcec_ecdsa.RecoverCompact(compact, hash)
	if err != nil {
		return false
	}
	return rec.X().Cmp(pub.X) == 0 && rec.Y().Cmp(pub.Y) == 0
}

// c08CheckIndexes: each stored member index maps to the key-generation party identity
// the member used: the identity converter of the signing protocol resolves index i to
// Ks[i-1] of the stored key share, which has to be the key of the tss party that
// produced this share (its ShareID), and the public share listed for it has to belong
// to the stored secret share.
func c08CheckIndexes(r *vrep.R, w *c08Wallet, signers []*signer, dkgIndexOf map[group.MemberIndex]int, replay c08Case) bool {
	ok := true
	report := func(kind, what string) {
		ok = false
		r.ViolationMin(kind, len(w.cfg.Excluded), w.name, what, replay)
	}
	pub := w.results[w.dkgIndexes()[0]].PrivateKeyShare.PublicKey()
	for _, s := range signers {
		data := s.privateKeyShare.Data()
		i := int(s.signingGroupMemberIndex)
		if s.wallet.publicKey.X.Cmp(pub.X) != 0 || s.wallet.publicKey.Y.Cmp(pub.Y) != 0 {
			report("wallet-key", fmt.Sprintf("stored signer %d carries another wallet public key than the key generation output", i))
		}
		if len(s.wallet.signingGroupOperators) != len(w.results) {
			report("final-group-size", fmt.Sprintf("stored wallet has %d signing group operators, %d members finished the key generation", len(s.wallet.signingGroupOperators), len(w.results)))
		}
		if i < 1 || i > len(data.Ks) {
			report("index-out-of-range", fmt.Sprintf("stored member index %d is outside the %d party keys of its key share", i, len(data.Ks)))
			continue
		}
		di := dkgIndexOf[s.signingGroupMemberIndex]
		want := w.party[di]
		if data.Ks[i-1].Cmp(data.ShareID) != 0 || data.Ks[i-1].Cmp(want) != 0 {
			report("index-party-mismatch", fmt.Sprintf("stored member index %d (key generation member %d) maps to party key %s, the member ran the key generation as party %s (share id %s)",
				i, di, data.Ks[i-1], want, data.ShareID))
			continue
		}
		x, y := pub.Curve.ScalarBaseMult(data.Xi.Bytes())
		if data.BigXj[i-1].X().Cmp(x) != 0 || data.BigXj[i-1].Y().Cmp(y) != 0 {
			report("index-share-mismatch", fmt.Sprintf("the public share listed for stored member index %d is not the one of its secret share", i))
		}
		// the operator stored for the seat is the one selected for the DKG seat
		if i <= len(s.wallet.signingGroupOperators) {
			wantOp := c08Signing{}.PublicKeyBytesToAddress(c08OperatorKey(di))
			if s.wallet.signingGroupOperators[i-1] != wantOp {
				report("index-operator-mismatch", fmt.Sprintf("stored member index %d belongs to key generation member %d but is assigned to the operator of another seat", i, di))
			}
		}
	}
	return ok
}

func c08Subsets(n, k int) [][]int {
	var out [][]int
	var rec func(start int, cur []int)
	rec = func(start int, cur []int) {
		if len(cur) == k {
			out = append(out, append([]int{}, cur...))
			return
		}
		for i := start; i <= n; i++ {
			rec(i+1, append(cur, i))
		}
	}
	rec(1, nil)
	return out
}

func c08WalletDir() string {
	s := os.Getenv("VERIF_SCRATCH")
	if s == "" {
		return ""
	}
	return filepath.Join(filepath.Dir(s), "u0")
}

type c08Work struct {
	w  *c08Wallet
	cs c08Case
}

func TestVerifC08Sign(t *testing.T) {
	r := vrep.Start(t, "C08", "sign")
	defer r.Finish()
	timeout := 90 * time.Second

	var wallets []*c08Wallet
	fx, err := c08FixtureWallet()
	if err != nil {
		t.Fatalf("fixtures: %v", err)
	}
	wallets = append(wallets, fx)
	files, _ := filepath.Glob(filepath.Join(c08WalletDir(), "wallet-*.json"))
	sort.Strings(files)
	for _, f := range files {
		w, err := c08LoadWallet(f)
		if err != nil {
			t.Fatalf("wallet %s: %v", f, err)
		}
		wallets = append(wallets, w)
	}
	r.Set("wallets", len(wallets))
	r.Set("wallets_from_key_generation", len(wallets)-1)

	var replay *c08Case
	if rd := r.ReplayData(); rd != nil {
		var cs c08Case
		if json.Unmarshal(rd, &cs) != nil || cs.Wallet == "" {
			return
		}
		replay = &cs
	}

	msgs := c08Messages()
	executorDone := false
	var work []c08Work
	prepared := map[string][]*signer{}
	for _, w := range wallets {
		var dw *c08WalletCfg
		if !w.fixture {
			c := w.cfg
			dw = &c
		}
		if replay != nil && replay.Wallet != w.name {
			continue
		}
		signers, dkgIndexOf, problem := c08Signers(w)
		wcase := c08Case{Wallet: w.name, DkgWallet: dw}
		if problem != "" {
			r.Eval(1)
			r.Outcome("signers not registered")
			r.ViolationMin("register-signer", len(w.cfg.Excluded), w.name, "the signers of a wallet produced by the key generation could not be stored / loaded: "+problem, wcase)
			continue
		}
		// shard 0 reports the index oracle of every wallet (it is cheap)
		if sh, _ := r.Shard(); sh == 0 || replay != nil {
			r.Eval(1)
			r.Distinct("indexes " + w.name)
			if c08CheckIndexes(r, w, signers, dkgIndexOf, wcase) {
				r.Outcome(fmt.Sprintf("stored indexes map to the key generation parties (final group %d of %d)", len(signers), w.cfg.N))
			} else {
				r.Outcome("stored indexes do not map to the key generation parties")
			}
		}
		// the same registration for wallets whose operators hold several seats: every
		// member must still get its own index, mapping to its own key generation party
		if sh, _ := r.Shard(); sh == 0 || replay != nil {
			for li, layout := range []func(int) int{
				func(seat int) int { return (seat + 1) / 2 },       // adjacent pairs: 1,1,2,2,3
				func(seat int) int { return 1 + (seat+1)%2 },       // alternating: 1,2,1,2,1
				func(seat int) int { return 1 },                    // one operator holds every seat
			} {
				ls, ldx, lp := c08SignersLayout(w, layout)
				r.Eval(1)
				r.Distinct(fmt.Sprintf("indexes %s layout %d", w.name, li))
				lcase := wcase
				if lp != "" {
					r.ViolationMin("register-signer-multi-seat", len(w.cfg.Excluded)*10+li, fmt.Sprintf("%s layout %d", w.name, li),
						fmt.Sprintf("wallet whose operators hold several seats (layout %d): %s", li, lp), lcase)
					continue
				}
				okL := true
				pubL := w.results[w.dkgIndexes()[0]].PrivateKeyShare.PublicKey()
				_ = pubL
				for _, sg := range ls {
					data := sg.privateKeyShare.Data()
					i := int(sg.signingGroupMemberIndex)
					di := ldx[sg.signingGroupMemberIndex]
					if i < 1 || i > len(data.Ks) || data.Ks[i-1].Cmp(w.party[di]) != 0 || data.Ks[i-1].Cmp(data.ShareID) != 0 {
						okL = false
						r.ViolationMin("index-party-mismatch-multi-seat", len(w.cfg.Excluded)*10+li, fmt.Sprintf("%s layout %d", w.name, li),
							fmt.Sprintf("operators holding several seats (layout %d): stored member index %d (key generation member %d) does not map to the party key that member used", li, i, di), lcase)
					}
				}
				if okL {
					r.Outcome("multi-seat layouts: stored indexes map to the key generation parties")
				}
			}
		}
		// the production signing executor itself (node -> signingExecutor.sign -> retry
		// loop -> signing.Execute) for one wallet whose final group is smaller than the
		// nominal group size: this executes the argument derivation of signing.go
		// (wallet.groupSize(), wallet.groupDishonestThreshold(...)) that the subset runs
		// below replicate. One node controls every seat, as in the repository's tests.
		if sh, _ := r.Shard(); (sh == 0 || replay != nil) && !w.fixture && len(signers) < w.cfg.N && !executorDone {
			executorDone = true
			r.Eval(1)
			r.Distinct("executor " + w.name)
			sig, problem := c08RunExecutor(t, w, signers)
			if problem != "" {
				r.ViolationMin("executor-no-signature", len(w.cfg.Excluded), "signingExecutor.sign "+w.name,
					fmt.Sprintf("wallet with a final group of %d (key generation group %d): the production signing executor produced no valid signature: %s", len(signers), w.cfg.N, problem), wcase)
				r.Outcome("executor: no signature")
			} else {
				_ = sig
				r.Outcome("executor: valid signature")
			}
		}
		prepared[w.name] = signers
		subsets := c08Subsets(len(signers), w.cfg.H)
		if len(subsets) > 10 {
			subsets = subsets[:10]
			r.Cap("more than 10 subsets")
		}
		for si, sub := range subsets {
			for mi, m := range msgs {
				pols := []c08Policy{{Name: "inorder"}}
				if r.Thorough() {
					// every policy for every (subset, message); the victim rotates
					pols = append(pols,
						c08Policy{Name: "dup"},
						c08Policy{Name: "swap", Victim: (si + mi) % w.cfg.H, Parity: 1},
						c08Policy{Name: "swap", Victim: (si + mi + 1) % w.cfg.H, Parity: 0},
						c08Policy{Name: "late", Victim: (si + 2*mi) % w.cfg.H},
						c08Policy{Name: "lag", Victim: (si + mi) % w.cfg.H, Parity: 1 + (si+mi)%4})
				} else {
					// quick: every subset signs one message; message and policy rotate
					if mi != si%len(msgs) {
						continue
					}
					if w.fixture && si > 2 {
						continue
					}
					if w.fixture && si == 1 {
						pols = []c08Policy{{Name: "lag", Victim: 1, Parity: 1}, {Name: "lag", Victim: 1, Parity: 2}, {Name: "lag", Victim: 1, Parity: 3}, {Name: "lag", Victim: 1, Parity: 4}}
					}
					if !w.fixture {
						switch (si + len(signers)) % 3 {
						case 1:
							pols = []c08Policy{{Name: "swap", Victim: 1, Parity: 1}}
						case 2:
							pols = []c08Policy{{Name: "late", Victim: 0}}
						case 0:
							pols = []c08Policy{{Name: "lag", Victim: si % w.cfg.H, Parity: 1 + si%4}}
						}
					}
				}
				for _, pol := range pols {
					work = append(work, c08Work{w, c08Case{Wallet: w.name, DkgWallet: dw, Subset: sub,
						Message: m.Text(16), Policy: pol}})
				}
			}
		}
	}
	if replay != nil {
		for _, w := range wallets {
			if signers := prepared[w.name]; w.name == replay.Wallet && signers != nil && len(replay.Subset) > 0 {
				c08Sign(r, *replay, signers, w.cfg.H, timeout)
			}
		}
		return
	}
	r.Set("signing_cases", len(work))
	for i, wk := range work {
		if !r.Mine(i) {
			continue
		}
		if r.Expired() {
			break
		}
		c08Sign(r, wk.cs, prepared[wk.w.name], wk.w.cfg.H, timeout)
	}
}

// c08RunExecutor signs one message with the production signing executor of a node that
// controls all signers of the wallet.
func c08RunExecutor(t *testing.T, w *c08Wallet, stored []*signer) (*tecdsa.Signature, string) {
	operatorPrivateKey, operatorPublicKey, err := operator.GenerateKeyPair(local_v1.DefaultCurve)
	if err != nil {
		return nil, "infra: " + err.Error()
	}
	localChain := ConnectWithKey(operatorPrivateKey)
	localProvider := netlocal.ConnectWithKey(operatorPublicKey)
	operatorAddress, err := localChain.Signing().PublicKeyToAddress(operatorPublicKey)
	if err != nil {
		return nil, "infra: " + err.Error()
	}
	operators := make([]chain.Address, len(stored))
	for i := range operators {
		operators[i] = operatorAddress
	}
	signers := make([]*signer, len(stored))
	for i, sg := range stored {
		signers[i] = &signer{
			wallet:                  wallet{publicKey: sg.wallet.publicKey, signingGroupOperators: operators},
			signingGroupMemberIndex: sg.signingGroupMemberIndex,
			privateKeyShare:         sg.privateKeyShare,
		}
	}
	walletPublicKeyHash := bitcoin.PublicKeyHash(signers[0].wallet.publicKey)
	walletID, err := localChain.CalculateWalletID(signers[0].wallet.publicKey)
	if err != nil {
		return nil, "infra: " + err.Error()
	}
	localChain.setWallet(walletPublicKeyHash, &WalletChainData{EcdsaWalletID: walletID, State: StateLive})
	node, err := newNode(
		&GroupParameters{GroupSize: w.cfg.N, GroupQuorum: w.cfg.H, HonestThreshold: w.cfg.H},
		localChain, newLocalBitcoinChain(), localProvider,
		createMockKeyStorePersistence(t, signers...), &mockPersistenceHandle{},
		generator.StartScheduler(), &mockCoordinationProposalGenerator{}, Config{},
	)
	if err != nil {
		return nil, "infra: newNode: " + err.Error()
	}
	executor, ok, err := node.getSigningExecutor(signers[0].wallet.publicKey)
	if err != nil || !ok {
		return nil, fmt.Sprintf("infra: getSigningExecutor: ok=%v err=%v", ok, err)
	}
	executor.signingAttemptsLimit = 2
	blockCounter, err := localChain.BlockCounter()
	if err != nil {
		return nil, "infra: " + err.Error()
	}
	start, err := blockCounter.CurrentBlock()
	if err != nil {
		return nil, "infra: " + err.Error()
	}
	ctx, cancel := context.WithTimeout(context.Background(), 240*time.Second)
	defer cancel()
	message := big.NewInt(424242)
	var sig *tecdsa.Signature
	var serr error
	if p, stack := vrep.Guard(func() { sig, _, _, serr = executor.sign(ctx, message, start) }); p != nil {
		return nil, fmt.Sprintf("panic: %v\n%s", p, stack)
	}
	if serr != nil {
		return nil, "sign returned: " + serr.Error()
	}
	if sig == nil || !ecdsa.Verify(signers[0].wallet.publicKey, message.Bytes(), sig.R, sig.S) {
		return sig, "the returned signature does not verify under the wallet key"
	}
	return sig, ""
}
