//go:build verif

package dkg

// C08 harness, unit "wallets": produces the wallets the unit "sign" (pkg/tbtc) signs
// with. For every configuration / exclusion set the real tECDSA DKG state objects of
// the operating members are driven to completion (in-order delivery; the delivery
// policies and injections of the DKG are C07's subject) with the fixture
// pre-parameters, and every member's outcome is written to the scratch directory the
// way the production code hands it on: the private key share in its storage format
// (tecdsa.PrivateKeyShare.Marshal), the group view of the result (disqualified /
// inactive members) and, as ground truth for the index oracle, the key of the tss
// party the member really ran during the key generation.

import (
	"context"
	"encoding/hex"
	"encoding/json"
	"fmt"
	"math/big"
	"os"
	"path/filepath"
	"sort"
	"strings"
	"sync"
	"testing"

	"github.com/bnb-chain/tss-lib/ecdsa/keygen"

	"github.com/keep-network/keep-core/internal/testutils"
	"github.com/keep-network/keep-core/pkg/chain"
	"github.com/keep-network/keep-core/pkg/internal/tecdsatest"
	"github.com/keep-network/keep-core/pkg/net"
	"github.com/keep-network/keep-core/pkg/operator"
	"github.com/keep-network/keep-core/pkg/protocol/group"
	"github.com/keep-network/keep-core/pkg/protocol/state"
	"github.com/keep-network/keep-core/pkg/verifshim/vrep"
)

const c08Session = "c08-dkg-session"

type c08Signing struct{}

func (c08Signing) Address() chain.Address                           { return "" }
func (c08Signing) PublicKey() []byte                                { return nil }
func (c08Signing) Sign([]byte) ([]byte, error)                      { return nil, nil }
func (c08Signing) Verify([]byte, []byte) (bool, error)              { return false, nil }
func (c08Signing) VerifyWithPublicKey(_, _, _ []byte) (bool, error) { return false, nil }
func (c08Signing) PublicKeyToAddress(pk *operator.PublicKey) (chain.Address, error) {
	return "", fmt.Errorf("unused")
}
func (c08Signing) PublicKeyBytesToAddress(pk []byte) chain.Address {
	return chain.Address(hex.EncodeToString(pk))
}

type c08Msg struct {
	payload interface{}
	key     []byte
	typ     string
}

func (m *c08Msg) TransportSenderID() net.TransportIdentifier { return nil }
func (m *c08Msg) SenderPublicKey() []byte                    { return m.key }
func (m *c08Msg) Payload() interface{}                       { return m.payload }
func (m *c08Msg) Type() string                               { return m.typ }
func (m *c08Msg) Seqno() uint64                              { return 0 }

type c08Sent struct {
	sender int
	msg    net.TaggedMarshaler
}

type c08Bus struct {
	mu  sync.Mutex
	out []c08Sent
}

type c08Chan struct {
	bus    *c08Bus
	sender int
}

func (c *c08Chan) Name() string { return "c08" }
func (c *c08Chan) Send(_ context.Context, m net.TaggedMarshaler, _ ...net.RetransmissionStrategy) error {
	c.bus.mu.Lock()
	c.bus.out = append(c.bus.out, c08Sent{c.sender, m})
	c.bus.mu.Unlock()
	return nil
}
func (c *c08Chan) Recv(context.Context, func(net.Message))     {}
func (c *c08Chan) SetUnmarshaler(func() net.TaggedUnmarshaler) {}
func (c *c08Chan) SetFilter(net.BroadcastChannelFilter) error  { return nil }

var (
	c08FixOnce sync.Once
	c08FixJSON [][]byte
	c08FixErr  error
)

func c08PreParams(i int) *PreParams {
	c08FixOnce.Do(func() {
		shares, err := tecdsatest.LoadPrivateKeyShareTestFixtures(5)
		if err != nil {
			c08FixErr = err
			return
		}
		for _, s := range shares {
			b, err := json.Marshal(&s.LocalPreParams)
			if err != nil {
				c08FixErr = err
				return
			}
			c08FixJSON = append(c08FixJSON, b)
		}
	})
	if c08FixErr != nil {
		panic(c08FixErr)
	}
	var pp keygen.LocalPreParams
	if err := json.Unmarshal(c08FixJSON[i], &pp); err != nil {
		panic(err)
	}
	return &PreParams{data: &pp}
}

// C08WalletCfg / C08WalletFile: the exchange format with the unit "sign" (it keeps its
// own copy of these declarations).
type c08WalletCfg struct {
	N        int   `json:"n"`
	H        int   `json:"honest_threshold"`
	Excluded []int `json:"excluded"`
	Seed     int64 `json:"seed"`
}

func (c c08WalletCfg) String() string {
	return fmt.Sprintf("dkg %d-of-%d excluded=%v seed=%d", c.H, c.N, c.Excluded, c.Seed)
}

func (c c08WalletCfg) fileName() string {
	e := "none"
	if len(c.Excluded) > 0 {
		var p []string
		for _, x := range c.Excluded {
			p = append(p, fmt.Sprint(x))
		}
		e = strings.Join(p, "_")
	}
	return fmt.Sprintf("wallet-%d-%d-x%s-s%d.json", c.N, c.H, e, c.Seed)
}

type c08WalletMember struct {
	DkgIndex     int    `json:"dkg_index"`
	Disqualified []int  `json:"disqualified"`
	Inactive     []int  `json:"inactive"`
	Share        string `json:"share"`     // hex of tecdsa.PrivateKeyShare.Marshal()
	PartyKey     string `json:"party_key"` // decimal key of the tss party this member ran
	PublicKey    string `json:"public_key"`
}

type c08WalletFile struct {
	Cfg     c08WalletCfg      `json:"cfg"`
	Members []c08WalletMember `json:"members"`
}

func (c c08WalletCfg) isExcluded(i int) bool {
	for _, x := range c.Excluded {
		if x == i {
			return true
		}
	}
	return false
}

type c08Member struct {
	idx       int
	st        state.AsyncState
	initiated bool
	done      bool
	err       error
}

// c08Generate runs one key generation and returns the wallet file (or an error text
// when some operating member did not complete - then there is no wallet to sign with).
func c08Generate(cfg c08WalletCfg) (*c08WalletFile, string) {
	bus := &c08Bus{}
	ops := make([]chain.Address, cfg.N)
	key := func(i int) []byte { return []byte{0xc8, byte(i)} }
	for i := 1; i <= cfg.N; i++ {
		ops[i-1] = c08Signing{}.PublicKeyBytesToAddress(key(i))
	}
	validator := group.NewMembershipValidator(&testutils.MockLogger{}, ops, c08Signing{})
	var members []*c08Member
	for i := 1; i <= cfg.N; i++ {
		if cfg.isExcluded(i) {
			continue
		}
		pp := c08PreParams(i - 1)
		// as Executor.Execute does
		m := newMember(&testutils.MockLogger{}, big.NewInt(cfg.Seed), group.MemberIndex(i), cfg.N, cfg.N-cfg.H,
			validator, c08Session, func() (*PreParams, error) { return pp, nil }, 2)
		for _, e := range cfg.Excluded {
			if group.MemberIndex(e) != m.id {
				m.group.MarkMemberAsDisqualified(group.MemberIndex(e))
			}
		}
		members = append(members, &c08Member{idx: i, st: &ephemeralKeyPairGenerationState{
			BaseAsyncState: state.NewBaseAsyncState(),
			channel:        &c08Chan{bus: bus, sender: i},
			member:         m.initializeEphemeralKeysGeneration(),
		}})
	}
	ctx := context.Background()
	for iter := 0; iter < 100; iter++ {
		progress := false
		var wg sync.WaitGroup
		for _, m := range members {
			if m.done || m.err != nil || m.initiated {
				continue
			}
			progress = true
			m.initiated = true
			wg.Add(1)
			go func(m *c08Member) {
				defer wg.Done()
				if p, stack := vrep.Guard(func() {
					if err := m.st.Initiate(ctx); err != nil {
						m.err = err
					}
				}); p != nil {
					m.err = fmt.Errorf("panic: %v\n%s", p, stack)
				}
			}(m)
		}
		wg.Wait()
		out := bus.out
		bus.out = nil
		sort.SliceStable(out, func(a, b int) bool { return out[a].sender < out[b].sender })
		for _, o := range out {
			progress = true
			for _, m := range members {
				if m.done || m.err != nil {
					continue
				}
				if err := m.st.Receive(&c08Msg{payload: o.msg, key: key(o.sender), typ: o.msg.Type()}); err != nil {
					m.err = err
				}
			}
		}
		for _, m := range members {
			if m.done || m.err != nil || !m.initiated || !m.st.CanTransition() {
				continue
			}
			next, err := m.st.Next()
			if err != nil {
				m.err = err
				continue
			}
			progress = true
			if next == nil {
				m.done = true
			} else {
				m.st, m.initiated = next, false
			}
		}
		if !progress {
			break
		}
	}
	wf := &c08WalletFile{Cfg: cfg}
	for _, m := range members {
		if m.err != nil {
			return nil, fmt.Sprintf("member %d: %v", m.idx, m.err)
		}
		fs, ok := m.st.(*finalizationState)
		if !m.done || !ok {
			return nil, fmt.Sprintf("member %d stalled in %T", m.idx, m.st)
		}
		res := fs.result()
		share, err := res.PrivateKeyShare.Marshal()
		if err != nil {
			return nil, fmt.Sprintf("member %d: share does not marshal: %v", m.idx, err)
		}
		pk, err := res.GroupPublicKeyBytes()
		if err != nil {
			return nil, fmt.Sprintf("member %d: %v", m.idx, err)
		}
		wm := c08WalletMember{DkgIndex: m.idx, Share: hex.EncodeToString(share), PublicKey: hex.EncodeToString(pk),
			PartyKey: fs.member.tssParameters.PartyID().KeyInt().Text(10), Disqualified: []int{}, Inactive: []int{}}
		for _, d := range res.Group.DisqualifiedMemberIndexes() {
			wm.Disqualified = append(wm.Disqualified, int(d))
		}
		for _, d := range res.Group.InactiveMemberIndexes() {
			wm.Inactive = append(wm.Inactive, int(d))
		}
		wf.Members = append(wf.Members, wm)
	}
	return wf, ""
}

func c08ExclusionSets(n, h int) [][]int {
	var out [][]int
	for mask := 0; mask < 1<<n; mask++ {
		var e []int
		for i := 0; i < n; i++ {
			if mask&(1<<i) != 0 {
				e = append(e, i+1)
			}
		}
		if n-len(e) >= h {
			out = append(out, e)
		}
	}
	sort.SliceStable(out, func(a, b int) bool { return len(out[a]) < len(out[b]) })
	return out
}

func c08WalletCfgs(thorough bool) []c08WalletCfg {
	if !thorough {
		return []c08WalletCfg{{N: 5, H: 3, Excluded: []int{2}, Seed: 200}, {N: 3, H: 2, Excluded: []int{2}, Seed: 7000}}
	}
	var cs []c08WalletCfg
	for _, e := range c08ExclusionSets(5, 3) {
		cs = append(cs, c08WalletCfg{N: 5, H: 3, Excluded: e, Seed: 200})
	}
	for _, e := range c08ExclusionSets(3, 2) {
		// another seed: the party keys are seed + index
		cs = append(cs, c08WalletCfg{N: 3, H: 2, Excluded: e, Seed: 7000})
	}
	return cs
}

func TestVerifC08Wallets(t *testing.T) {
	r := vrep.Start(t, "C08", "wallets")
	defer r.Finish()
	dir := os.Getenv("VERIF_SCRATCH")
	if dir == "" {
		t.Fatalf("VERIF_SCRATCH not set")
	}
	var cfgs []c08WalletCfg
	if rd := r.ReplayData(); rd != nil {
		// the replay of a signing case needs its wallet again (a fresh key: the key
		// generation is randomised, the configuration is what matters)
		b, err := os.ReadFile(os.Getenv("VERIF_REPLAY"))
		if err != nil {
			return
		}
		var f struct {
			Replay struct {
				Wallet *c08WalletCfg `json:"dkg_wallet"`
			} `json:"replay"`
		}
		if json.Unmarshal(b, &f) != nil || f.Replay.Wallet == nil {
			return
		}
		cfgs = []c08WalletCfg{*f.Replay.Wallet}
	} else {
		cfgs = c08WalletCfgs(r.Thorough())
	}
	r.Set("wallet_configurations", len(cfgs))
	for i, cfg := range cfgs {
		if !r.Mine(i) {
			continue
		}
		if r.Expired() {
			break
		}
		wf, problem := c08Generate(cfg)
		r.Eval(1)
		r.Distinct(cfg.String())
		if wf == nil {
			// no wallet, nothing to sign with; agreement of the DKG is C07's property
			r.Outcome("key generation did not complete: " + problem)
			r.Add("wallets_not_generated", 1)
			continue
		}
		same := true
		for _, m := range wf.Members {
			if m.PublicKey != wf.Members[0].PublicKey {
				same = false
			}
		}
		r.Outcome(fmt.Sprintf("wallet with %d members, same key=%v", len(wf.Members), same))
		b, _ := json.Marshal(wf)
		if err := os.WriteFile(filepath.Join(dir, cfg.fileName()), b, 0o644); err != nil {
			t.Fatalf("cannot store wallet: %v", err)
		}
		r.Add("wallets_generated", 1)
		r.Sample(map[string]any{"wallet": cfg.String(), "members": len(wf.Members), "public_key": wf.Members[0].PublicKey})
	}
}
