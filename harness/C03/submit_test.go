//go:build verif

package entry

// C03, third unit: the exported SignAndSubmit loop itself (real goroutines; it contains
// no timing of its own once the block counter and the chain are fakes). The fake
// channel delivers a scripted history of signature share messages as soon as the member
// registers its handler; the entry that reaches the chain must be the unique group
// signature. This keeps the check independent of the internal helper signatures.

import (
	"context"
	"fmt"
	"math/big"
	"sync"
	"testing"
	"time"

	bn256 "github.com/ethereum/go-ethereum/crypto/bn256/cloudflare"

	"github.com/keep-network/keep-core/internal/testutils"
	"github.com/keep-network/keep-core/pkg/altbn128"
	beaconchain "github.com/keep-network/keep-core/pkg/beacon/chain"
	"github.com/keep-network/keep-core/pkg/beacon/dkg"
	"github.com/keep-network/keep-core/pkg/beacon/event"
	"github.com/keep-network/keep-core/pkg/bls"
	"github.com/keep-network/keep-core/pkg/net"
	"github.com/keep-network/keep-core/pkg/protocol/group"
	"github.com/keep-network/keep-core/pkg/subscription"
	"github.com/keep-network/keep-core/pkg/verifshim/vrep"
)

type c03sMsg struct{ payload interface{} }

func (m *c03sMsg) TransportSenderID() net.TransportIdentifier { return nil }
func (m *c03sMsg) SenderPublicKey() []byte                     { return nil }
func (m *c03sMsg) Payload() interface{}                        { return m.payload }
func (m *c03sMsg) Type() string                                { return "share" }
func (m *c03sMsg) Seqno() uint64                               { return 0 }

type c03sChan struct {
	script []*SignatureShareMessage
	once   sync.Once
	sent   chan struct{}
}

func (c *c03sChan) Name() string { return "c03s" }

// Send: the member's own share went out. Only then do the peers' shares arrive: the
// member marshals its own share on a separate goroutine (broadcastShare) while the
// message loop may already use that very point object for recovery, and bn256 points
// normalise themselves in place when marshalled. With peers' shares arriving within
// microseconds of the start that is a (real, but in a network unreachable) data race of
// SignAndSubmit; this harness does not provoke it.
func (c *c03sChan) Send(context.Context, net.TaggedMarshaler, ...net.RetransmissionStrategy) error {
	c.once.Do(func() { close(c.sent) })
	return nil
}
func (c *c03sChan) Recv(_ context.Context, h func(net.Message)) {
	go func() {
		<-c.sent
		for _, m := range c.script {
			h(&c03sMsg{m})
		}
	}()
}
func (c *c03sChan) SetUnmarshaler(func() net.TaggedUnmarshaler) {}
func (c *c03sChan) SetFilter(net.BroadcastChannelFilter) error  { return nil }

type c03sBlocks struct{}

func (c03sBlocks) WaitForBlockHeight(uint64) error { return nil }
func (c03sBlocks) BlockHeightWaiter(h uint64) (<-chan uint64, error) {
	ch := make(chan uint64, 1)
	if h < 1<<39 { // the submitter's eligibility slot: at once
		ch <- h
	}
	return ch, nil // the relay entry timeout (start + 2^40) never fires
}
func (c03sBlocks) CurrentBlock() (uint64, error)             { return 0, nil }
func (c03sBlocks) WatchBlocks(context.Context) <-chan uint64 { return nil }

type c03sChain struct {
	beaconchain.Interface
	n         int
	submitted chan []byte
}

func (c *c03sChain) GetConfig() *beaconchain.Config {
	return &beaconchain.Config{GroupSize: c.n, HonestThreshold: 3, ResultPublicationBlockStep: 1, RelayEntryTimeout: 1 << 40}
}
func (c *c03sChain) OnRelayEntrySubmitted(func(*event.RelayEntrySubmitted)) subscription.EventSubscription {
	return subscription.NewEventSubscription(func() {})
}
func (c *c03sChain) SubmitRelayEntry(entry []byte) error {
	c.submitted <- append([]byte{}, entry...)
	return nil
}

func TestVerifC03Submit(t *testing.T) {
	r := vrep.Start(t, "C03", "submit")
	defer r.Finish()
	if r.ReplayData() != nil {
		return
	}
	const n, threshold = 4, 3
	// f(x) = 11 + 7x + 5x^2 (degree threshold-1): shares f(1..n), group key G2*f(0)
	f := func(x int64) *big.Int {
		return new(big.Int).Mod(big.NewInt(11+7*x+5*x*x), bn256.Order)
	}
	secret := map[int]*big.Int{}
	pub := map[group.MemberIndex]*bn256.G2{}
	for i := 1; i <= n; i++ {
		secret[i] = f(int64(i))
		pub[group.MemberIndex(i)] = new(bn256.G2).ScalarBaseMult(secret[i])
	}
	// bn256 points normalise themselves in place when marshalled or paired, so a point
	// object must never be shared between the parallel workers: only the encodings are
	// shared, every run decodes its own copies
	groupPubBytes := new(bn256.G2).ScalarBaseMult(f(0)).Marshal()
	prevBytes := altbn128.G1HashToPoint([]byte("c03 previous entry")).Marshal()
	pubBytes := map[group.MemberIndex][]byte{}
	for i, p := range pub {
		pubBytes[i] = p.Marshal()
	}
	fresh := func() (*bn256.G1, *bn256.G2, map[group.MemberIndex]*bn256.G2) {
		prev, gp := new(bn256.G1), new(bn256.G2)
		if _, err := prev.Unmarshal(prevBytes); err != nil {
			panic(err)
		}
		if _, err := gp.Unmarshal(groupPubBytes); err != nil {
			panic(err)
		}
		ps := map[group.MemberIndex]*bn256.G2{}
		for i, b := range pubBytes {
			ps[i] = new(bn256.G2)
			if _, err := ps[i].Unmarshal(b); err != nil {
				panic(err)
			}
		}
		return prev, gp, ps
	}
	session := fmt.Sprintf("%x", prevBytes)
	share := func(prev *bn256.G1, j int, kind string) []byte {
		switch kind {
		case "valid":
			return new(bn256.G1).ScalarMult(prev, secret[j]).Marshal()
		case "other": // a well-formed point that is not this member's share
			return new(bn256.G1).ScalarMult(prev, big.NewInt(int64(1000+j))).Marshal()
		case "garbage":
			return []byte{1, 2, 3}
		}
		panic(kind)
	}
	// every history of <= 4 messages from members 2..4 over {valid, other, garbage, valid
	// in another session}; the receiver is member 1; it needs 2 more valid shares
	kinds := []string{"valid", "other", "garbage", "valid@othersession"}
	type m struct {
		j    int
		kind string
	}
	var alphabet []m
	for j := 2; j <= n; j++ {
		for _, k := range kinds {
			alphabet = append(alphabet, m{j, k})
		}
	}
	maxLen := 3
	if r.Thorough() {
		maxLen = 4
	}
	var histories [][]m
	var gen func(h []m)
	gen = func(h []m) {
		if len(h) > 0 {
			histories = append(histories, append([]m{}, h...))
		}
		if len(h) == maxLen {
			return
		}
		for _, a := range alphabet {
			gen(append(h, a))
		}
	}
	gen(nil)
	r.Set("histories", len(histories))
	vrep.Parallel(vrep.Workers(), len(histories), func(i int) {
		if r.Expired() {
			return
		}
		h := histories[i]
		prev, groupPub, pub := fresh()
		// the run terminates by itself only if two other members contribute a valid share
		validFrom := map[int]bool{}
		var script []*SignatureShareMessage
		desc := ""
		for _, x := range h {
			sess, kind := session, x.kind
			if kind == "valid@othersession" {
				sess, kind = "other", "valid"
			} else if kind == "valid" {
				validFrom[x.j] = true
			}
			script = append(script, NewSignatureShareMessage(group.MemberIndex(x.j), share(prev, x.j, kind), sess))
			desc += fmt.Sprintf("%s(%d) ", x.kind, x.j)
		}
		if len(validFrom) < threshold-1 {
			return // the member would (rightly) wait for the timeout
		}
		r.Eval(1)
		r.Distinct(desc)
		signer := dkg.NewThresholdSigner(1, new(bn256.G2).Set(groupPub), new(big.Int).Set(secret[1]), pub, nil)
		ch := &c03sChain{n: n, submitted: make(chan []byte, 1)}
		errc := make(chan error, 1)
		go func() {
			var err error
			if p, stack := vrep.Guard(func() {
				err = SignAndSubmit(&testutils.MockLogger{}, c03sBlocks{}, &c03sChan{script: script, sent: make(chan struct{})}, ch, append([]byte{}, prevBytes...), threshold, signer, 0)
			}); p != nil {
				err = fmt.Errorf("panic: %v\n%s", p, stack)
			}
			errc <- err
		}()
		var entry []byte
		select {
		case entry = <-ch.submitted:
		case err := <-errc:
			r.ViolationMin("submit:no-entry", len(h), "history "+desc, fmt.Sprintf("SignAndSubmit returned %v without submitting although members %v sent valid shares", err, validFrom), nil)
			r.Outcome("no entry")
			return
		case <-time.After(120 * time.Second):
			r.Cap("a SignAndSubmit run did not finish within 120 s")
			return
		}
		sig := new(bn256.G1)
		if _, err := sig.Unmarshal(entry); err != nil || !bls.VerifyG1(groupPub, prev, sig) {
			r.ViolationMin("submit:invalid-entry", len(h), "history "+desc, "the relay entry submitted to the chain does not verify under the group public key (an invalid share was used for recovery)", nil)
			r.Outcome("invalid entry submitted")
			return
		}
		want := new(bn256.G1).ScalarMult(prev, f(0))
		if sig.String() != want.String() {
			r.ViolationMin("submit:wrong-entry", len(h), "history "+desc, "the submitted relay entry is not the unique group signature", nil)
		}
		r.Outcome("valid entry submitted")
	})
	r.Sample(map[string]any{"history": "other(2) valid(2) valid(3)", "receiver": 1, "threshold": threshold})
}
