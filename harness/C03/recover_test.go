//go:build verif

package bls

import (
	"bytes"
	"encoding/hex"
	"encoding/json"
	"fmt"
	"math/big"
	"strconv"
	"strings"
	"sync"
	"testing"

	bn256 "github.com/ethereum/go-ethereum/crypto/bn256/cloudflare"
	"github.com/keep-network/keep-core/pkg/verifshim/venum"
	"github.com/keep-network/keep-core/pkg/verifshim/vrep"
)

// Coefficient alphabet: 1, 2, q-1 and two fixed 254-bit constants below q.
var c03CoeffNames = []string{"1", "2", "q-1", "A", "B"}

func c03Coeff(name string) *big.Int {
	switch name {
	case "1":
		return big.NewInt(1)
	case "2":
		return big.NewInt(2)
	case "q-1":
		return new(big.Int).Sub(bn256.Order, big.NewInt(1))
	case "A":
		n, _ := new(big.Int).SetString("20224698692598347281873415287561237563094382041536276943582905215371402881357", 10)
		return n
	case "B":
		n, _ := new(big.Int).SetString("14159265358979323846264338327950288419716939937510582097494459230781640628620", 10)
		return n
	}
	panic("c03: unknown coefficient " + name)
}

// c03Case is one presentation of shares to one recovery function; it is also the replay
// payload. List is a comma separated token list: a number i = the correct share of
// member i; "n" = nil entry; "v" = entry with V == nil (I = N+1); "-" = entry with I = -1
// (V = member 1's correct share).
type c03Case struct {
	Fn     string   `json:"fn"`     // sig | pub
	Coeffs []string `json:"coeffs"` // a0..at, names from the alphabet; threshold = len
	N      int      `json:"n"`
	Msg    string   `json:"msg"` // hex
	List   string   `json:"list"`
}

func (c c03Case) fp() string {
	return fmt.Sprintf("%s coeffs=%s n=%d msg=%s list=[%s]", c.Fn, strings.Join(c.Coeffs, ","), c.N, c.Msg, c.List)
}

// c03Group is everything derived once per (polynomial, n, message) with the package's own
// key/share/sign functions.
type c03Group struct {
	coeffs    []string
	n         int
	msg       []byte
	threshold int
	sigShares []*bn256.G1 // index 1..n
	pubShares []*bn256.G2
	wantSig   []byte // Sign(f(0), msg)
	groupPub  *bn256.G2
	wantPub   []byte

	mu       sync.Mutex
	verified map[string]bool // result bytes -> Verify under groupPub
}

func c03NewGroup(coeffs []string, n int, msg []byte, withPub bool) *c03Group {
	g := &c03Group{coeffs: coeffs, n: n, msg: msg, threshold: len(coeffs), verified: map[string]bool{}}
	var master []*big.Int
	for _, c := range coeffs {
		master = append(master, c03Coeff(c))
	}
	g.sigShares = make([]*bn256.G1, n+1)
	g.pubShares = make([]*bn256.G2, n+1)
	for i := 1; i <= n; i++ {
		sk := GetSecretKeyShare(master, i)
		g.sigShares[i] = Sign(sk.V, msg)
		if withPub {
			g.pubShares[i] = sk.PublicKeyShare().V
		}
	}
	g.wantSig = Sign(master[0], msg).Marshal()
	g.groupPub = new(bn256.G2).ScalarBaseMult(master[0])
	g.wantPub = g.groupPub.Marshal()
	return g
}

func (g *c03Group) verifies(sig *bn256.G1) bool {
	key := string(sig.Marshal())
	g.mu.Lock()
	v, ok := g.verified[key]
	g.mu.Unlock()
	if ok {
		return v
	}
	v = Verify(g.groupPub, g.msg, sig)
	g.mu.Lock()
	g.verified[key] = v
	g.mu.Unlock()
	return v
}

// c03Run executes one presentation. verify forces the pairing check on the result even
// when it is byte-identical to the expected signature.
func c03Run(r *vrep.R, g *c03Group, fn, list string, verify bool) {
	c := c03Case{Fn: fn, Coeffs: g.coeffs, N: g.n, Msg: hex.EncodeToString(g.msg), List: list}
	toks := strings.Split(list, ",")
	skipsBefore, skips, valid := 0, 0, 0
	report := func(kind, what string) {
		r.ViolationMin(fn+":"+kind, len(toks)*1000+skips*100+g.threshold*10+g.n, c.fp(), what, c)
		r.Outcome(fn + ":" + kind)
	}
	var got []byte
	var gotSig *bn256.G1
	var err error
	var pv any
	var stack string
	if fn == "sig" {
		var shares []*SignatureShare
		for _, tk := range toks {
			switch tk {
			case "n":
				shares = append(shares, nil)
			case "v":
				shares = append(shares, &SignatureShare{I: g.n + 1, V: nil})
			case "-":
				shares = append(shares, &SignatureShare{I: -1, V: new(bn256.G1).Set(g.sigShares[1])})
			default:
				i, _ := strconv.Atoi(tk)
				shares = append(shares, &SignatureShare{I: i, V: new(bn256.G1).Set(g.sigShares[i])})
				valid++
			}
			if tk == "n" || tk == "v" || tk == "-" {
				skips++
				if valid < g.threshold {
					skipsBefore++
				}
			}
		}
		pv, stack = vrep.Guard(func() {
			gotSig, err = RecoverSignature(shares, g.threshold)
			if err == nil && gotSig != nil {
				got = gotSig.Marshal()
			}
		})
	} else {
		var shares []*PublicKeyShare
		for _, tk := range toks {
			switch tk {
			case "n":
				shares = append(shares, nil)
			case "v":
				shares = append(shares, &PublicKeyShare{I: g.n + 1, V: nil})
			case "-":
				shares = append(shares, &PublicKeyShare{I: -1, V: new(bn256.G2).Set(g.pubShares[1])})
			default:
				i, _ := strconv.Atoi(tk)
				shares = append(shares, &PublicKeyShare{I: i, V: new(bn256.G2).Set(g.pubShares[i])})
				valid++
			}
			if tk == "n" || tk == "v" || tk == "-" {
				skips++
				if valid < g.threshold {
					skipsBefore++
				}
			}
		}
		pv, stack = vrep.Guard(func() {
			var p *bn256.G2
			p, err = RecoverPublicKey(shares, g.threshold)
			if err == nil && p != nil {
				got = p.Marshal()
			}
		})
	}
	r.Eval(1)
	if valid < g.threshold {
		// fewer correct shares than the threshold: the statement is silent
		r.Outcome(fn + ":too-few(any outcome accepted)")
		return
	}
	if skips > 0 || valid > g.threshold || !c03Ascending(toks) {
		r.Distinct(c.fp())
	}
	switch {
	case pv != nil:
		report("panic", fmt.Sprintf("threshold %d, %d correct shares with distinct indices present: panic: %v %s", g.threshold, valid, pv, c03Frames(stack)))
		return
	case err != nil:
		report("error", fmt.Sprintf("threshold %d, %d correct shares with distinct indices present, but recovery failed: %v", g.threshold, valid, err))
		return
	case got == nil:
		report("error", "recovery returned neither a result nor an error")
		return
	}
	if fn == "sig" {
		same := bytes.Equal(got, g.wantSig)
		if !same || verify {
			if !g.verifies(gotSig) {
				report("wrong", fmt.Sprintf("recovered signature %x.. does not verify under the group public key G2*f(0) (other presentations of the same shares recover %x..)", got[:8], g.wantSig[:8]))
				return
			}
		}
		if !same {
			// unreachable for a sound Verify (BLS signatures are unique); kept so that the
			// "same signature" clause is checked literally
			report("differs", fmt.Sprintf("recovered signature %x.. differs from the one recovered from other presentations %x..", got[:8], g.wantSig[:8]))
			return
		}
	} else if !bytes.Equal(got, g.wantPub) {
		report("wrong", fmt.Sprintf("recovered public key %x.. is not the group public key G2*f(0) %x.. under which the group signature verifies", got[:8], g.wantPub[:8]))
		return
	}
	switch {
	case skipsBefore > 0:
		r.Outcome(fn + ":ok:skip-entries-before-last-needed-share")
	case skips > 0:
		r.Outcome(fn + ":ok:skip-entries-after")
	case valid > g.threshold:
		r.Outcome(fn + ":ok:more-than-threshold")
	default:
		r.Outcome(fn + ":ok:exactly-threshold")
	}
}

func c03Ascending(toks []string) bool {
	prev := 0
	for _, t := range toks {
		i, err := strconv.Atoi(t)
		if err != nil || i <= prev {
			return false
		}
		prev = i
	}
	return true
}

func c03Frames(stack string) string {
	var out []string
	for _, l := range strings.Split(stack, "\n") {
		if strings.Contains(l, "keep-core/pkg/bls.") && !strings.Contains(l, "c03") && !strings.Contains(l, "TestVerif") {
			if i := strings.LastIndexByte(l, '('); i > 0 {
				l = l[:i]
			}
			out = append(out, l[strings.LastIndexByte(l, '/')+1:])
		}
	}
	if len(out) > 3 {
		out = out[:3]
	}
	return fmt.Sprint(out)
}

// c03Presentations calls f with every list made of an ordering of every subset (size >=
// minSize) of 1..n with 0..maxSkips skip entries (each of the three kinds) inserted at
// every position. first is true for the first presentation of each subset.
func c03Presentations(n, minSize, maxSkips int, f func(list string, first bool)) {
	skipKinds := []string{"n", "v", "-"}
	venum.Subsets(n, func(mask uint) bool {
		var members []int
		for i := 0; i < n; i++ {
			if mask>>uint(i)&1 == 1 {
				members = append(members, i+1)
			}
		}
		if len(members) < minSize {
			return true
		}
		first := true
		venum.Perms(len(members), func(p []int) bool {
			base := make([]string, len(p))
			for i, k := range p {
				base[i] = strconv.Itoa(members[k])
			}
			f(strings.Join(base, ","), first)
			first = false
			if maxSkips >= 1 {
				for pos := 0; pos <= len(base); pos++ {
					for _, k := range skipKinds {
						l1 := c03Insert(base, pos, k)
						f(strings.Join(l1, ","), false)
						if maxSkips >= 2 {
							// second entry at a position >= the first one's (in the
							// extended list), so every multiset of positions once per
							// ordered pair of kinds
							for pos2 := pos + 1; pos2 <= len(l1); pos2++ {
								for _, k2 := range skipKinds {
									f(strings.Join(c03Insert(l1, pos2, k2), ","), false)
								}
							}
						}
					}
				}
			}
			return true
		})
		return true
	})
}

func c03Insert(l []string, pos int, tok string) []string {
	out := make([]string, 0, len(l)+1)
	out = append(out, l[:pos]...)
	out = append(out, tok)
	out = append(out, l[pos:]...)
	return out
}

// c03Tuples returns all coefficient tuples of the given length over the alphabet.
func c03Tuples(length int) [][]string {
	var out [][]string
	venum.Tuples(length, len(c03CoeffNames), func(t []int) bool {
		names := make([]string, length)
		for i, k := range t {
			names[i] = c03CoeffNames[k]
		}
		out = append(out, names)
		return true
	})
	return out
}

// c03Picked are the polynomials used for the (much larger) presentation sweep.
func c03Picked(threshold int) [][]string {
	base := [][]string{
		{"1", "1", "1", "1"},
		{"q-1", "A", "2", "B"},
		{"A", "B", "q-1", "q-1"},
	}
	var out [][]string
	for _, b := range base {
		out = append(out, b[:threshold])
	}
	return out
}

type c03Job struct {
	coeffs   []string
	n        int
	msg      []byte
	maxSkips int
	fns      []string
}

func TestVerifC03(t *testing.T) {
	r := vrep.Start(t, "C03", "recover")
	defer r.Finish()
	if rd := r.ReplayData(); rd != nil {
		var c c03Case
		if json.Unmarshal(rd, &c) == nil && c.Fn != "" {
			msg, _ := hex.DecodeString(c.Msg)
			g := c03NewGroup(c.Coeffs, c.N, msg, true)
			c03Run(r, g, c.Fn, c.List, true)
		}
		return
	}
	msgs := [][]byte{[]byte("a"), {}, make([]byte, 32)}
	var jobs []c03Job
	{
		// both tiers (the thorough alphabet contains the quick one, so the smallest
		// counterexample of a class is the same in both): polynomial sweep: every coefficient tuple, every ordering of every subset
		for _, th := range []int{2, 3} {
			for _, cs := range c03Tuples(th) {
				jobs = append(jobs, c03Job{cs, 4, msgs[0], 0, []string{"sig"}})
			}
		}
		// presentation sweep: picked polynomials, every message, 0..2 skip entries
		for _, th := range []int{2, 3} {
			for _, cs := range c03Picked(th) {
				for _, m := range msgs {
					jobs = append(jobs, c03Job{cs, 4, m, 2, []string{"sig"}})
				}
			}
			for _, cs := range c03Picked(th)[1:] {
				jobs = append(jobs, c03Job{cs, 4, msgs[0], 1, []string{"pub"}})
			}
		}
	}
	if r.Thorough() {
		for _, th := range []int{2, 3, 4} {
			for _, cs := range c03Tuples(th) {
				jobs = append(jobs, c03Job{cs, 5, msgs[0], 0, []string{"sig"}})
			}
		}
		for _, th := range []int{2, 3, 4} {
			for _, cs := range c03Picked(th) {
				for _, m := range msgs {
					jobs = append(jobs, c03Job{cs, 5, m, 2, []string{"sig"}})
				}
				jobs = append(jobs, c03Job{cs, 6, msgs[0], 1, []string{"sig"}})
			}
			for _, cs := range c03Picked(th) {
				jobs = append(jobs, c03Job{cs, 5, msgs[0], 1, []string{"pub"}})
				jobs = append(jobs, c03Job{cs, 6, msgs[0], 0, []string{"pub"}})
			}
		}
	}
	r.Set("jobs", len(jobs))
	r.Sample(c03Case{Fn: "sig", Coeffs: []string{"q-1", "A"}, N: 4, Msg: "61", List: "n,3,1"})
	r.Sample(c03Case{Fn: "sig", Coeffs: []string{"A", "B", "q-1"}, N: 4, Msg: "", List: "4,-,2,v,1,3"})
	r.Sample(c03Case{Fn: "pub", Coeffs: []string{"q-1", "A", "2"}, N: 4, Msg: "61", List: "2,4,n,1"})
	vrep.Parallel(vrep.Workers(), len(jobs), func(i int) {
		if r.Expired() {
			return
		}
		j := jobs[i]
		needPub := false
		for _, fn := range j.fns {
			needPub = needPub || fn == "pub"
		}
		g := c03NewGroup(j.coeffs, j.n, j.msg, needPub)
		for _, fn := range j.fns {
			c03Presentations(j.n, g.threshold, j.maxSkips, func(list string, first bool) {
				c03Run(r, g, fn, list, first)
			})
		}
	})
}
