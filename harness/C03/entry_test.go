//go:build verif

package entry

import (
	"bytes"
	"encoding/json"
	"fmt"
	"math/big"
	"strings"
	"testing"

	bn256 "github.com/ethereum/go-ethereum/crypto/bn256/cloudflare"
	"github.com/keep-network/keep-core/internal/testutils"
	"github.com/keep-network/keep-core/pkg/altbn128"
	"github.com/keep-network/keep-core/pkg/beacon/dkg"
	"github.com/keep-network/keep-core/pkg/bls"
	"github.com/keep-network/keep-core/pkg/protocol/group"
	"github.com/keep-network/keep-core/pkg/verifshim/venum"
	"github.com/keep-network/keep-core/pkg/verifshim/vrep"
)

// What a member other than the receiver can put into its SignatureShareMessage.
var c03Kinds = []string{
	"ok",        // its correct share x_j * previousEntry
	"other",     // the correct share of the next member (valid signature, wrong key)
	"wrongmsg",  // x_j * a different previous entry
	"garbage",   // 64 bytes that are not a curve point
	"neg",       // the negated correct share
	"identity",  // the point at infinity
	"truncated", // 63 bytes
}

// c03EntryCase is one receiver-side scenario and the replay payload.
type c03EntryCase struct {
	Coeffs  []string `json:"coeffs"` // group key polynomial a0..at; honest threshold = len
	N       int      `json:"n"`
	Prev    int      `json:"prev"`    // which previous entry
	Self    int      `json:"self"`    // receiving member
	Missing int      `json:"missing"` // member whose public key share is absent from the receiver's map (0 = none)
	Kinds   string   `json:"kinds"`   // comma separated kind per other member, ascending member index
}

func (c c03EntryCase) fp() string {
	return fmt.Sprintf("entry coeffs=%s n=%d prev=%d self=%d missing=%d kinds=[%s]", strings.Join(c.Coeffs, ","), c.N, c.Prev, c.Self, c.Missing, c.Kinds)
}

func c03EntryCoeff(name string) *big.Int {
	switch name {
	case "1":
		return big.NewInt(1)
	case "2":
		return big.NewInt(2)
	case "q-1":
		return new(big.Int).Sub(bn256.Order, big.NewInt(1))
	case "A":
		n, _ := new(big.Int).SetString("20224698692598347281873415287561237563094382041536276943582905215371402881357", 10)
		return n
	case "B":
		n, _ := new(big.Int).SetString("14159265358979323846264338327950288419716939937510582097494459230781640628620", 10)
		return n
	}
	panic("c03: unknown coefficient " + name)
}

func c03PrevEntry(which int) *bn256.G1 {
	switch which {
	case 0:
		return altbn128.G1HashToPoint([]byte{})
	case 1:
		return new(bn256.G1).ScalarBaseMult(big.NewInt(7))
	}
	return altbn128.G1HashToPoint(make([]byte, 32))
}

type c03EntryGroup struct {
	coeffs    []string
	n, k      int
	prev      *bn256.G1
	secret    []*big.Int // 1..n, group private key shares = f(i) as the DKG produces them
	pubShares map[group.MemberIndex]*bn256.G2
	groupPub  *bn256.G2
	wantSig   []byte
}

func c03NewEntryGroup(coeffs []string, n, prev int) *c03EntryGroup {
	g := &c03EntryGroup{coeffs: coeffs, n: n, k: len(coeffs), prev: c03PrevEntry(prev)}
	var master []*big.Int
	for _, c := range coeffs {
		master = append(master, c03EntryCoeff(c))
	}
	g.secret = make([]*big.Int, n+1)
	g.pubShares = map[group.MemberIndex]*bn256.G2{}
	for i := 1; i <= n; i++ {
		// keys of the form the DKG hands to ThresholdSigner: share reduced mod q, public
		// share = G2 * share
		v := new(big.Int).Mod(bls.GetSecretKeyShare(master, i).V, bn256.Order)
		g.secret[i] = v
		g.pubShares[group.MemberIndex(i)] = new(bn256.G2).ScalarBaseMult(v)
	}
	g.groupPub = new(bn256.G2).ScalarBaseMult(master[0])
	g.wantSig = bls.SignG1(master[0], g.prev).Marshal()
	return g
}

// shareBytes builds the payload of kind `kind` from member j and says whether it is a
// share that verifies under j's public key share (BLS signatures are unique: exactly
// x_j * previousEntry does).
func (g *c03EntryGroup) shareBytes(j int, kind string) (b []byte, valid bool) {
	correct := bls.SignG1(g.secret[j], g.prev)
	switch kind {
	case "ok":
		return correct.Marshal(), true
	case "other":
		o := j%g.n + 1
		return bls.SignG1(g.secret[o], g.prev).Marshal(), false
	case "wrongmsg":
		other := new(bn256.G1).Add(g.prev, new(bn256.G1).ScalarBaseMult(big.NewInt(1)))
		return bls.SignG1(g.secret[j], other).Marshal(), false
	case "garbage":
		b := make([]byte, 64)
		b[31], b[63] = 1, 1
		return b, false
	case "neg":
		return new(bn256.G1).Neg(correct).Marshal(), false
	case "identity":
		return make([]byte, 64), false
	case "truncated":
		return correct.Marshal()[:63], false
	}
	panic("c03: unknown kind " + kind)
}

func c03EntryRun(r *vrep.R, g *c03EntryGroup, c c03EntryCase) {
	kinds := strings.Split(c.Kinds, ",")
	report := func(kind, what string) {
		nonOK := 0
		for _, k := range kinds {
			if k != "ok" {
				nonOK++
			}
		}
		size := c.N*1000 + nonOK*10
		if c.Missing != 0 {
			size += 100
		}
		r.ViolationMin("entry:"+kind, size, c.fp(), what, c)
		r.Outcome("entry:" + kind)
	}
	// receiver's state, fresh per scenario
	pub := map[group.MemberIndex]*bn256.G2{}
	for i, v := range g.pubShares {
		if int(i) != c.Missing {
			pub[i] = new(bn256.G2).Set(v)
		}
	}
	self := group.MemberIndex(c.Self)
	signer := dkg.NewThresholdSigner(self, new(bn256.G2).Set(g.groupPub), new(big.Int).Set(g.secret[c.Self]), pub, nil)
	logger := &testutils.MockLogger{}
	accepted := map[group.MemberIndex]*bn256.G1{self: signer.CalculateSignatureShare(g.prev)}
	evals := 0
	ki := 0
	for j := 1; j <= g.n; j++ {
		if j == c.Self {
			continue
		}
		kind := kinds[ki]
		ki++
		payload, valid := g.shareBytes(j, kind)
		if j == c.Missing {
			valid = false // no public key share of the sender: nothing to verify against
		}
		msg := NewSignatureShareMessage(group.MemberIndex(j), append([]byte{}, payload...), "s")
		var share *bn256.G1
		var err error
		pv, _ := vrep.Guard(func() { share, err = extractAndValidateShare(msg, signer.GroupPublicKeyShares(), g.prev) })
		evals++
		switch {
		case pv != nil:
			report("validate-panic", fmt.Sprintf("extractAndValidateShare(member %d, %s share) panicked: %v", j, kind, pv))
		case err == nil && !valid:
			why := "does not verify under member " + fmt.Sprint(j) + "'s public key share"
			if j == c.Missing {
				why = "cannot be verified (the receiver has no public key share for member " + fmt.Sprint(j) + ")"
			}
			report("invalid-share-accepted", fmt.Sprintf("the %q share from member %d %s but was accepted for the relay entry", kind, j, why))
			r.Outcome("validate:" + kind + ":ACCEPTED")
			if share != nil {
				accepted[group.MemberIndex(j)] = share
			}
		case err == nil:
			if share == nil || !bytes.Equal(share.Marshal(), payload) {
				report("share-altered", fmt.Sprintf("extractAndValidateShare returned a different point than member %d sent", j))
			} else {
				accepted[group.MemberIndex(j)] = share
			}
			r.Outcome("validate:ok:accepted")
		case valid:
			report("valid-share-rejected", fmt.Sprintf("the correctly computed share of member %d was rejected: %v", j, err))
		default:
			if j == c.Missing {
				r.Outcome("validate:" + kind + ":rejected(no-key)")
			} else {
				r.Outcome("validate:" + kind + ":rejected")
			}
		}
	}
	// every honest-threshold-sized subset of the accepted shares that contains the
	// receiver's own share (SignAndSubmit completes with exactly that many), and the
	// whole accepted set
	var ids []group.MemberIndex
	for j := 1; j <= g.n; j++ {
		if _, ok := accepted[group.MemberIndex(j)]; ok && j != c.Self {
			ids = append(ids, group.MemberIndex(j))
		}
	}
	if len(ids)+1 < g.k {
		r.Outcome("complete:below-threshold(not attempted)")
		r.Eval(evals)
		return
	}
	venum.Subsets(len(ids), func(mask uint) bool {
		set := map[group.MemberIndex]*bn256.G1{self: accepted[self]}
		var names []string
		for i, id := range ids {
			if mask>>uint(i)&1 == 1 {
				set[id] = accepted[id]
				names = append(names, fmt.Sprint(id))
			}
		}
		if len(set) != g.k && len(set) != len(ids)+1 {
			return true
		}
		var sig *bn256.G1
		var err error
		pv, _ := vrep.Guard(func() { sig, err = completeSignature(logger, signer, set, g.k) })
		evals++
		desc := fmt.Sprintf("completeSignature over own share + members [%s], honest threshold %d", strings.Join(names, " "), g.k)
		switch {
		case pv != nil:
			report("complete-panic", desc+fmt.Sprintf(" panicked: %v", pv))
		case err != nil || sig == nil:
			report("complete-error", desc+fmt.Sprintf(" failed: %v", err))
		case !bls.VerifyG1(g.groupPub, g.prev, sig):
			report("complete-wrong", desc+" produced a signature that does not verify under the group public key")
		case !bytes.Equal(sig.Marshal(), g.wantSig):
			report("complete-differs", desc+" produced a signature different from the group signature")
		default:
			if len(set) > g.k {
				r.Outcome("complete:ok:more-than-threshold")
			} else {
				r.Outcome("complete:ok:exactly-threshold")
			}
		}
		return true
	})
	r.Eval(evals)
}

func TestVerifC03Entry(t *testing.T) {
	r := vrep.Start(t, "C03", "entry")
	defer r.Finish()
	if rd := r.ReplayData(); rd != nil {
		var c c03EntryCase
		if json.Unmarshal(rd, &c) == nil && c.N != 0 {
			c03EntryRun(r, c03NewEntryGroup(c.Coeffs, c.N, c.Prev), c)
		}
		return
	}
	type grp struct {
		coeffs []string
		n      int
	}
	groups := []grp{{[]string{"A", "q-1"}, 3}, {[]string{"q-1", "B", "2"}, 4}}
	prevs := []int{0, 1}
	nk := 4
	if r.Thorough() {
		groups = append(groups, grp{[]string{"1", "1"}, 4}, grp{[]string{"B", "A", "q-1"}, 5}, grp{[]string{"2", "q-1", "A", "B"}, 5})
		prevs = []int{0, 1, 2}
		nk = len(c03Kinds)
	}
	var cases []c03EntryCase
	gidx := map[string]*c03EntryGroup{}
	for _, g := range groups {
		for _, p := range prevs {
			gidx[fmt.Sprint(g.coeffs, g.n, p)] = c03NewEntryGroup(g.coeffs, g.n, p)
			if g.n >= 5 && p != 0 {
				continue // the largest groups: first previous entry only
			}
			for self := 1; self <= g.n; self++ {
				for missing := 0; missing <= g.n; missing++ {
					if missing == self || g.n >= 5 && missing != 0 && missing != self%g.n+1 {
						continue
					}
					venum.Tuples(g.n-1, nk, func(tp []int) bool {
						names := make([]string, len(tp))
						for i, k := range tp {
							names[i] = c03Kinds[k]
						}
						cases = append(cases, c03EntryCase{g.coeffs, g.n, p, self, missing, strings.Join(names, ",")})
						return true
					})
				}
			}
		}
	}
	r.Set("scenarios", len(cases))
	for i := 0; i < 3; i++ {
		r.Sample(cases[(i*len(cases)/3+i*7)%len(cases)])
	}
	vrep.Parallel(vrep.Workers(), len(cases), func(i int) {
		if r.Expired() {
			return
		}
		c := cases[i]
		r.Distinct(c.fp())
		c03EntryRun(r, gidx[fmt.Sprint(c.Coeffs, c.N, c.Prev)], c)
	})
}
