//go:build verif

package bitcoin

// C27, unit "builder": every mix of wallet (P2PKH / P2WPKH) and deposit (P2SH / P2WSH,
// with and without extra data) inputs up to the bound is assembled with the real
// TransactionBuilder, signed by the harness with the wallet key over
// ComputeSignatureHashes(), completed with AddSignatures and then every input is executed
// by btcd's script interpreter (txscript.NewEngine, StandardVerifyFlags) against the
// previous output script and amount the harness itself put on the fake chain.
// Corrupted signature lists (wrong key, flipped bit, swapped order, wrong count) must be
// refused with an error and no transaction.

import (
	"bytes"
	"crypto/ecdsa"
	"crypto/sha256"
	"encoding/json"
	"fmt"
	"math/big"
	"strings"
	"testing"

	"github.com/btcsuite/btcd/btcec"
	"github.com/btcsuite/btcd/txscript"
	"github.com/btcsuite/btcd/wire"
	"github.com/btcsuite/btcutil"

	"github.com/keep-network/keep-core/pkg/verifshim/vrep"
)

// ---- fake chain -------------------------------------------------------------------

type c27Chain struct {
	Chain // nil: every other method panics, none is expected to be called
	txs   map[Hash]*Transaction
}

func (c *c27Chain) GetTransaction(h Hash) (*Transaction, error) {
	if tx, ok := c.txs[h]; ok {
		return tx, nil
	}
	return nil, fmt.Errorf("transaction not found")
}

// ---- keys and signing -------------------------------------------------------------

var c27Curve = btcec.S256()

func c27Key(i int) *ecdsa.PrivateKey {
	seed := sha256.Sum256([]byte(fmt.Sprintf("verif-c27-key-%d", i)))
	d := new(big.Int).SetBytes(seed[:])
	d.Mod(d, new(big.Int).Sub(c27Curve.N, big.NewInt(1)))
	d.Add(d, big.NewInt(1))
	x, y := c27Curve.ScalarBaseMult(d.Bytes())
	return &ecdsa.PrivateKey{PublicKey: ecdsa.PublicKey{Curve: c27Curve, X: x, Y: y}, D: d}
}

// c27Sign is textbook ECDSA with a deterministic nonce (hash of key, digest and a
// counter). highS selects the s > N/2 representative of the signature.
func c27Sign(priv *ecdsa.PrivateKey, digest *big.Int, highS bool) (r, s *big.Int) {
	N := c27Curve.N
	z := new(big.Int).Mod(digest, N)
	for ctr := 0; ; ctr++ {
		h := sha256.Sum256([]byte(fmt.Sprintf("nonce|%x|%x|%d", priv.D, digest, ctr)))
		k := new(big.Int).SetBytes(h[:])
		k.Mod(k, N)
		if k.Sign() == 0 {
			continue
		}
		x, _ := c27Curve.ScalarBaseMult(k.Bytes())
		r = new(big.Int).Mod(x, N)
		if r.Sign() == 0 {
			continue
		}
		s = new(big.Int).Mul(r, priv.D)
		s.Add(s, z)
		s.Mul(s, new(big.Int).ModInverse(k, N))
		s.Mod(s, N)
		if s.Sign() == 0 {
			continue
		}
		half := new(big.Int).Rsh(N, 1)
		if (s.Cmp(half) > 0) != highS {
			s.Sub(N, s)
		}
		return r, s
	}
}

func c27Hash160(b []byte) []byte { return btcutil.Hash160(b) }

func c27PKH(pub *ecdsa.PublicKey) []byte {
	return c27Hash160((*btcec.PublicKey)(pub).SerializeCompressed())
}

// ---- scripts written out byte by byte (not through the code under test) -----------

func c27P2PKH(h []byte) []byte {
	return append(append([]byte{0x76, 0xa9, 0x14}, h...), 0x88, 0xac)
}
func c27P2WPKH(h []byte) []byte { return append([]byte{0x00, 0x14}, h...) }
func c27P2SH(script []byte) []byte {
	return append(append([]byte{0xa9, 0x14}, c27Hash160(script)...), 0x87)
}
func c27P2WSH(script []byte) []byte {
	h := sha256.Sum256(script)
	return append([]byte{0x00, 0x20}, h[:]...)
}

// c27DepositScript is the tBTC deposit script template (Deposit.sol): depositor DROP
// [extra DROP] blinding DROP DUP HASH160 walletPKH EQUAL IF CHECKSIG ELSE DUP HASH160
// refundPKH EQUALVERIFY locktime CLTV DROP CHECKSIG ENDIF.
func c27DepositScript(walletPKH, refundPKH []byte, extra bool, salt byte) []byte {
	var b []byte
	dep := bytes.Repeat([]byte{0xd0 + salt}, 20)
	b = append(b, 0x14)
	b = append(b, dep...)
	b = append(b, 0x75)
	if extra {
		b = append(b, 0x20)
		b = append(b, bytes.Repeat([]byte{0xe0 + salt}, 32)...)
		b = append(b, 0x75)
	}
	b = append(b, 0x08)
	b = append(b, bytes.Repeat([]byte{0xb0 + salt}, 8)...)
	b = append(b, 0x75, 0x76, 0xa9, 0x14)
	b = append(b, walletPKH...)
	b = append(b, 0x87, 0x63, 0xac, 0x67, 0x76, 0xa9, 0x14)
	b = append(b, refundPKH...)
	b = append(b, 0x88, 0x04, 0x30, 0x5a, 0x4e, 0x65, 0xb1, 0x75, 0xac, 0x68)
	return b
}

// ---- cases ------------------------------------------------------------------------

const (
	c27KindP2PKH = iota
	c27KindP2WPKH
	c27KindP2SH
	c27KindP2SHExtra
	c27KindP2WSH
	c27KindP2WSHExtra
	c27Kinds
)

var c27KindName = []string{"p2pkh", "p2wpkh", "p2sh", "p2sh+x", "p2wsh", "p2wsh+x"}

type c27Corrupt struct {
	Type string `json:"type"` // wrongkey | flipR | flipS | swap | short | long | foreign
	P    int    `json:"p"`
	Q    int    `json:"q"`
}

type c27Case struct {
	Kinds   []int       `json:"kinds"`
	Outs    int         `json:"outs"`
	Key     int         `json:"key"`
	Vals    int         `json:"vals"`
	HighS   int         `json:"high_s"` // bit i: input i signed with the high-S representative
	Corrupt *c27Corrupt `json:"corrupt,omitempty"`
	// Shared: all inputs spend different outputs of ONE previous transaction (a wallet
	// transaction with several outputs of different script types) instead of one
	// funding transaction per input.
	Shared bool `json:"shared,omitempty"`
}

func (c c27Case) String() string {
	var ks []string
	for _, k := range c.Kinds {
		ks = append(ks, c27KindName[k])
	}
	s := fmt.Sprintf("in=[%s] outs=%d key=%d vals=%d highS=%b", strings.Join(ks, ","), c.Outs, c.Key, c.Vals, c.HighS)
	if c.Shared {
		s += " shared-prev-tx"
	}
	if c.Corrupt != nil {
		s += fmt.Sprintf(" corrupt=%s(%d,%d)", c.Corrupt.Type, c.Corrupt.P, c.Corrupt.Q)
	}
	return s
}

var c27Values = []int64{546, 100000, 2100000000000000, 1, 12345678, 99999}

type c27SharedIn struct {
	idx    uint32
	value  int64
	redeem []byte
}

type c27Prev struct {
	script []byte
	value  int64
}

type c27Built struct {
	builder *TransactionBuilder
	prevs   []c27Prev
	hashes  []*big.Int
	wallet  *ecdsa.PrivateKey
	other   *ecdsa.PrivateKey
}

// c27Build puts one funding transaction per input on a fresh fake chain (the spent
// output sits at a varying index between decoy outputs of other value and script) and
// drives the real builder up to ComputeSignatureHashes.
func c27Build(c c27Case) (*c27Built, error) {
	wallet, other := c27Key(c.Key), c27Key(c.Key+1)
	wPKH, oPKH := c27PKH(&wallet.PublicKey), c27PKH(&other.PublicKey)
	chain := &c27Chain{txs: map[Hash]*Transaction{}}
	b := &c27Built{builder: NewTransactionBuilder(chain), wallet: wallet, other: other}
	total := int64(0)
	var shared *Transaction
	var sharedInputs []c27SharedIn
	for i, kind := range c.Kinds {
		var pk, redeem []byte
		switch kind {
		case c27KindP2PKH:
			pk = c27P2PKH(wPKH)
		case c27KindP2WPKH:
			pk = c27P2WPKH(wPKH)
		case c27KindP2SH, c27KindP2SHExtra:
			redeem = c27DepositScript(wPKH, oPKH, kind == c27KindP2SHExtra, byte(i))
			pk = c27P2SH(redeem)
		case c27KindP2WSH, c27KindP2WSHExtra:
			redeem = c27DepositScript(wPKH, oPKH, kind == c27KindP2WSHExtra, byte(i))
			pk = c27P2WSH(redeem)
		}
		value := c27Values[(i+c.Vals)%len(c27Values)]
		idx := uint32((i + c.Vals) % 3)
		var funding *Transaction
		if c.Shared {
			// one previous transaction for all inputs: output i belongs to input i
			if shared == nil {
				shared = &Transaction{
					Version: 1,
					Inputs: []*TransactionInput{{
						Outpoint:        &TransactionOutpoint{TransactionHash: Hash{0x77, 0xf0, byte(c.Vals)}, OutputIndex: 0},
						SignatureScript: []byte{0x51},
						Sequence:        0xffffffff,
					}},
				}
			}
			shared.Outputs = append(shared.Outputs, &TransactionOutput{Value: value, PublicKeyScript: pk})
			sharedInputs = append(sharedInputs, c27SharedIn{uint32(i), value, redeem})
			b.prevs = append(b.prevs, c27Prev{pk, value})
			total += value
			continue
		}
		funding = &Transaction{
			Version: 1,
			Inputs: []*TransactionInput{{
				Outpoint:        &TransactionOutpoint{TransactionHash: Hash{byte(i + 1), 0xf0, byte(c.Vals)}, OutputIndex: uint32(i)},
				SignatureScript: []byte{0x51},
				Sequence:        0xffffffff,
			}},
			Locktime: uint32(i),
		}
		for o := uint32(0); o < 3; o++ {
			if o == idx {
				funding.Outputs = append(funding.Outputs, &TransactionOutput{Value: value, PublicKeyScript: pk})
			} else {
				// decoys: another value, and a script that belongs to somebody else
				funding.Outputs = append(funding.Outputs, &TransactionOutput{Value: value + 1000 + int64(o), PublicKeyScript: c27P2WPKH(oPKH)})
			}
		}
		chain.txs[funding.Hash()] = funding
		utxo := &UnspentTransactionOutput{
			Outpoint: &TransactionOutpoint{TransactionHash: funding.Hash(), OutputIndex: idx},
			Value:    value,
		}
		var err error
		if redeem != nil {
			err = b.builder.AddScriptHashInput(utxo, redeem)
		} else {
			err = b.builder.AddPublicKeyHashInput(utxo)
		}
		if err != nil {
			return nil, fmt.Errorf("input %d (%s): %v", i, c27KindName[kind], err)
		}
		b.prevs = append(b.prevs, c27Prev{pk, value})
		total += value
	}
	if shared != nil {
		chain.txs[shared.Hash()] = shared
		for _, in := range sharedInputs {
			utxo := &UnspentTransactionOutput{
				Outpoint: &TransactionOutpoint{TransactionHash: shared.Hash(), OutputIndex: in.idx},
				Value:    in.value,
			}
			var err error
			if in.redeem != nil {
				err = b.builder.AddScriptHashInput(utxo, in.redeem)
			} else {
				err = b.builder.AddPublicKeyHashInput(utxo)
			}
			if err != nil {
				return nil, fmt.Errorf("input %d (shared previous transaction): %v", in.idx, err)
			}
		}
	}
	// a caller may look at the signature hashes before the transaction is complete (and
	// again afterwards, e.g. when signing is retried): the hashes that count are the ones
	// computed last. Every second case peeks before the outputs are added.
	if (len(c.Kinds)+c.Outs+c.Key+c.Vals)%2 == 0 {
		_, _ = b.builder.ComputeSignatureHashes()
	}
	// outputs: first to the wallet (P2WPKH), second to somebody else (P2PKH)
	fee := int64(len(c.Kinds)) * 40
	if fee >= total {
		fee = 0
	}
	if c.Outs == 1 {
		b.builder.AddOutput(&TransactionOutput{Value: total - fee, PublicKeyScript: c27P2WPKH(wPKH)})
	} else {
		first := (total - fee) / 3
		b.builder.AddOutput(&TransactionOutput{Value: first, PublicKeyScript: c27P2WPKH(wPKH)})
		b.builder.AddOutput(&TransactionOutput{Value: total - fee - first, PublicKeyScript: c27P2PKH(oPKH)})
	}
	hashes, err := b.builder.ComputeSignatureHashes()
	if err != nil {
		return nil, fmt.Errorf("ComputeSignatureHashes: %v", err)
	}
	if len(hashes) != len(c.Kinds) {
		return nil, fmt.Errorf("ComputeSignatureHashes returned %d hashes for %d inputs", len(hashes), len(c.Kinds))
	}
	b.hashes = hashes
	return b, nil
}

func (b *c27Built) honest(c c27Case) []*SignatureContainer {
	sigs := make([]*SignatureContainer, len(b.hashes))
	for i, h := range b.hashes {
		r, s := c27Sign(b.wallet, h, c.HighS>>uint(i)&1 == 1)
		sigs[i] = &SignatureContainer{R: r, S: s, PublicKey: &b.wallet.PublicKey}
	}
	return sigs
}

// c27Verify runs the script interpreter over every input of the signed transaction.
func c27Verify(tx *Transaction, prevs []c27Prev) (int, error) {
	var msg wire.MsgTx
	if err := msg.Deserialize(bytes.NewReader(tx.Serialize())); err != nil {
		return -1, fmt.Errorf("btcd cannot parse the serialized transaction: %v", err)
	}
	if len(msg.TxIn) != len(prevs) {
		return -1, fmt.Errorf("transaction has %d inputs, %d were added", len(msg.TxIn), len(prevs))
	}
	cache := txscript.NewTxSigHashes(&msg)
	for i, p := range prevs {
		vm, err := txscript.NewEngine(p.script, &msg, i, txscript.StandardVerifyFlags, nil, cache, p.value)
		if err != nil {
			return i, fmt.Errorf("engine setup: %v", err)
		}
		if err := vm.Execute(); err != nil {
			return i, err
		}
	}
	return -1, nil
}

func c27Run(r *vrep.R, c c27Case) {
	fp := c.String()
	size := len(c.Kinds)*100 + c.Outs*10 + c.Vals
	if c.Corrupt != nil {
		size += 5
	}
	var b *c27Built
	var berr error
	if p, stack := vrep.Guard(func() { b, berr = c27Build(c) }); p != nil {
		r.ViolationMin("build-panic", size, fp, fmt.Sprintf("panic while assembling: %v\n%s", p, stack), c)
		return
	}
	if berr != nil {
		r.ViolationMin("build-error", size, fp, "builder refused a well-formed input mix: "+berr.Error(), c)
		return
	}
	sigs := b.honest(c)
	if c.Corrupt == nil {
		var tx *Transaction
		var err error
		if p, stack := vrep.Guard(func() { tx, err = b.builder.AddSignatures(sigs) }); p != nil {
			r.ViolationMin("sign-panic", size, fp, fmt.Sprintf("panic in AddSignatures: %v\n%s", p, stack), c)
			return
		}
		if err != nil || tx == nil {
			r.ViolationMin("honest-rejected", size, fp, fmt.Sprintf("signatures made with the wallet key over the builder's sighashes were rejected: %v", err), c)
			r.Outcome("honest:rejected")
			return
		}
		if i, err := c27Verify(tx, b.prevs); err != nil {
			kind := "?"
			if i >= 0 {
				kind = c27KindName[c.Kinds[i]]
			}
			r.ViolationMin("script-rejects:"+kind, size, fp, fmt.Sprintf("script interpreter rejects input %d (%s): %v", i, kind, err), c)
			r.Outcome("honest:script-rejected")
			return
		}
		r.Outcome("honest:accepted")
		for _, h := range b.hashes {
			if len(h.Bytes()) < 32 {
				r.Add("sighashes_with_leading_zero_byte", 1)
			}
		}
		return
	}
	// corrupted signature list
	cor := *c.Corrupt
	mustReject := true
	switch cor.Type {
	case "wrongkey": // made by another key, presented under the wallet public key
		rr, ss := c27Sign(b.other, b.hashes[cor.P], false)
		sigs[cor.P] = &SignatureContainer{R: rr, S: ss, PublicKey: &b.wallet.PublicKey}
	case "flipR":
		sigs[cor.P].R = new(big.Int).Xor(sigs[cor.P].R, new(big.Int).Lsh(big.NewInt(1), uint(cor.Q)))
	case "flipS":
		sigs[cor.P].S = new(big.Int).Xor(sigs[cor.P].S, new(big.Int).Lsh(big.NewInt(1), uint(cor.Q)))
	case "swap":
		sigs[cor.P], sigs[cor.Q] = sigs[cor.Q], sigs[cor.P]
	case "short":
		sigs = sigs[:len(sigs)-1]
	case "long":
		sigs = append(sigs, sigs[0])
	case "foreign":
		// a valid signature of the sighash by a key that is not the wallet's, presented
		// under its own public key: the statement does not say what happens (the
		// signature does match the hash); outcome recorded only.
		rr, ss := c27Sign(b.other, b.hashes[cor.P], false)
		sigs[cor.P] = &SignatureContainer{R: rr, S: ss, PublicKey: &b.other.PublicKey}
		mustReject = false
	default:
		return
	}
	var tx *Transaction
	var err error
	if p, stack := vrep.Guard(func() { tx, err = b.builder.AddSignatures(sigs) }); p != nil {
		r.ViolationMin("corrupt-panic:"+cor.Type, size, fp, fmt.Sprintf("panic in AddSignatures: %v\n%s", p, stack), c)
		return
	}
	if !mustReject {
		if err != nil {
			r.Outcome("foreign-key:rejected")
		} else {
			r.Outcome("foreign-key:transaction-produced")
		}
		return
	}
	if err == nil || tx != nil {
		r.ViolationMin("corrupt-accepted:"+cor.Type, size, fp, fmt.Sprintf("signature list corrupted by %q at input %d was not rejected (err=%v, transaction=%v)", cor.Type, cor.P, err, tx != nil), c)
		r.Outcome("corrupt:accepted")
		return
	}
	r.Outcome("corrupt:rejected:" + cor.Type)
}

func c27Corruptions(n int) []c27Corrupt {
	var out []c27Corrupt
	for p := 0; p < n; p++ {
		out = append(out, c27Corrupt{"wrongkey", p, 0}, c27Corrupt{"flipR", p, 0}, c27Corrupt{"flipR", p, 200},
			c27Corrupt{"flipS", p, 0}, c27Corrupt{"flipS", p, 131}, c27Corrupt{"foreign", p, 0})
		for q := p + 1; q < n; q++ {
			out = append(out, c27Corrupt{"swap", p, q})
		}
	}
	out = append(out, c27Corrupt{"short", 0, 0}, c27Corrupt{"long", 0, 0})
	return out
}

func TestVerifC27Builder(t *testing.T) {
	r := vrep.Start(t, "C27", "builder")
	defer r.Finish()
	if rd := r.ReplayData(); rd != nil {
		var c c27Case
		if json.Unmarshal(rd, &c) == nil && len(c.Kinds) > 0 {
			c27Run(r, c)
			r.Eval(1)
		}
		return
	}
	maxIn, keys, vals := 3, 2, 2
	if r.Thorough() {
		maxIn, keys, vals = 4, 3, 3
	}
	var mixes [][]int
	var gen func(prefix []int)
	gen = func(prefix []int) {
		if len(prefix) > 0 {
			mixes = append(mixes, append([]int(nil), prefix...))
		}
		if len(prefix) == maxIn {
			return
		}
		for k := 0; k < c27Kinds; k++ {
			gen(append(prefix, k))
		}
	}
	gen(nil)
	r.Set("input_mixes", len(mixes))
	r.Sample(c27Case{Kinds: []int{1, 4, 2}, Outs: 2, Key: 0, Vals: 1, HighS: 2})
	r.Sample(c27Case{Kinds: []int{0, 5}, Outs: 1, Key: 1, Vals: 0, Corrupt: &c27Corrupt{"swap", 0, 1}})
	vrep.Parallel(vrep.Workers(), len(mixes), func(i int) {
		if r.Expired() {
			return
		}
		mix := mixes[i]
		evals := 0
		for outs := 1; outs <= 2; outs++ {
			for key := 0; key < keys; key++ {
				for v := 0; v < vals; v++ {
					// all-low, all-high and alternating S representatives
					for _, hs := range []int{0, 1<<uint(len(mix)) - 1, 0x5 & (1<<uint(len(mix)) - 1)} {
						if hs == 0x5&(1<<uint(len(mix))-1) && (len(mix) < 2) {
							continue
						}
						c := c27Case{Kinds: mix, Outs: outs, Key: key, Vals: v, HighS: hs}
						c27Run(r, c)
						evals++
						r.Distinct("h|" + c.String())
						if len(mix) >= 2 && hs == 0 {
							// the same mix spending different outputs of one previous transaction
							cs := c27Case{Kinds: mix, Outs: outs, Key: key, Vals: v, HighS: hs, Shared: true}
							c27Run(r, cs)
							evals++
							r.Distinct("h|" + cs.String())
						}
					}
				}
				for _, cor := range c27Corruptions(len(mix)) {
					cor := cor
					c := c27Case{Kinds: mix, Outs: outs, Key: key, Vals: 0, Corrupt: &cor}
					c27Run(r, c)
					evals++
					r.Distinct("c|" + c.String())
				}
			}
		}
		r.Eval(evals)
	})
}
