//go:build verif

package tbtc

// C27, unit "wallet": the four transaction assemblers of pkg/tbtc are run over their
// input shapes on a fake bitcoin.Chain, the result is signed through the real
// walletTransactionExecutor.signTransaction (the threshold signing executor is replaced
// by plain ECDSA with the wallet private key) and every input of the signed transaction
// is executed by btcd's script interpreter under StandardVerifyFlags. Deposit inputs use
// the real Deposit.Script().

import (
	"bytes"
	"context"
	"crypto/ecdsa"
	"crypto/sha256"
	"encoding/hex"
	"encoding/json"
	"fmt"
	"math/big"
	"testing"

	"github.com/btcsuite/btcd/btcec"
	"github.com/btcsuite/btcd/txscript"
	"github.com/btcsuite/btcd/wire"
	"github.com/btcsuite/btcutil"

	"github.com/keep-network/keep-core/pkg/bitcoin"
	"github.com/keep-network/keep-core/pkg/chain"
	"github.com/keep-network/keep-core/pkg/tecdsa"
	"github.com/keep-network/keep-core/pkg/verifshim/vrep"
)

type c27wChain struct {
	bitcoin.Chain // nil: no other method is expected to be called
	txs           map[bitcoin.Hash]*bitcoin.Transaction
	n             int
}

func (c *c27wChain) GetTransaction(h bitcoin.Hash) (*bitcoin.Transaction, error) {
	if tx, ok := c.txs[h]; ok {
		return tx, nil
	}
	return nil, fmt.Errorf("transaction not found")
}

// fund records a funding transaction whose output idx pays value to script; the other
// outputs are decoys with different values and scripts.
func (c *c27wChain) fund(script []byte, value int64, idx uint32) *bitcoin.UnspentTransactionOutput {
	c.n++
	tx := &bitcoin.Transaction{
		Version: 1,
		Inputs: []*bitcoin.TransactionInput{{
			Outpoint:        &bitcoin.TransactionOutpoint{TransactionHash: bitcoin.Hash{0xfe, byte(c.n)}, OutputIndex: uint32(c.n)},
			SignatureScript: []byte{0x51},
			Sequence:        0xffffffff,
		}},
		Locktime: uint32(c.n),
	}
	for o := uint32(0); o <= idx+1; o++ {
		if o == idx {
			tx.Outputs = append(tx.Outputs, &bitcoin.TransactionOutput{Value: value, PublicKeyScript: script})
		} else {
			tx.Outputs = append(tx.Outputs, &bitcoin.TransactionOutput{Value: value + 7 + int64(o), PublicKeyScript: c27wP2WPKH(bytes.Repeat([]byte{0x99}, 20))})
		}
	}
	c.txs[tx.Hash()] = tx
	return &bitcoin.UnspentTransactionOutput{
		Outpoint: &bitcoin.TransactionOutpoint{TransactionHash: tx.Hash(), OutputIndex: idx},
		Value:    value,
	}
}

var c27wCurve = btcec.S256()

func c27wKey(i int) *ecdsa.PrivateKey {
	seed := sha256.Sum256([]byte(fmt.Sprintf("verif-c27w-key-%d", i)))
	d := new(big.Int).SetBytes(seed[:])
	d.Mod(d, new(big.Int).Sub(c27wCurve.N, big.NewInt(1)))
	d.Add(d, big.NewInt(1))
	x, y := c27wCurve.ScalarBaseMult(d.Bytes())
	return &ecdsa.PrivateKey{PublicKey: ecdsa.PublicKey{Curve: c27wCurve, X: x, Y: y}, D: d}
}

func c27wSign(priv *ecdsa.PrivateKey, digest *big.Int, highS bool) (r, s *big.Int) {
	N := c27wCurve.N
	z := new(big.Int).Mod(digest, N)
	for ctr := 0; ; ctr++ {
		h := sha256.Sum256([]byte(fmt.Sprintf("nonce|%x|%x|%d", priv.D, digest, ctr)))
		k := new(big.Int).SetBytes(h[:])
		k.Mod(k, N)
		if k.Sign() == 0 {
			continue
		}
		x, _ := c27wCurve.ScalarBaseMult(k.Bytes())
		r = new(big.Int).Mod(x, N)
		if r.Sign() == 0 {
			continue
		}
		s = new(big.Int).Mul(r, priv.D)
		s.Add(s, z)
		s.Mul(s, new(big.Int).ModInverse(k, N))
		s.Mod(s, N)
		if s.Sign() == 0 {
			continue
		}
		half := new(big.Int).Rsh(N, 1)
		if (s.Cmp(half) > 0) != highS {
			s.Sub(N, s)
		}
		return r, s
	}
}

// c27wSigner stands in for the threshold signing executor.
type c27wSigner struct {
	priv  *ecdsa.PrivateKey
	highS bool
}

func (s *c27wSigner) signBatch(ctx context.Context, messages []*big.Int, startBlock uint64) ([]*tecdsa.Signature, error) {
	out := make([]*tecdsa.Signature, len(messages))
	for i, m := range messages {
		r, ss := c27wSign(s.priv, m, s.highS)
		out[i] = &tecdsa.Signature{R: r, S: ss}
	}
	return out, nil
}

func c27wPKH(pub *ecdsa.PublicKey) []byte {
	return btcutil.Hash160((*btcec.PublicKey)(pub).SerializeCompressed())
}
func c27wP2PKH(h []byte) []byte {
	return append(append([]byte{0x76, 0xa9, 0x14}, h...), 0x88, 0xac)
}
func c27wP2WPKH(h []byte) []byte { return append([]byte{0x00, 0x14}, h...) }
func c27wP2SH(script []byte) []byte {
	return append(append([]byte{0xa9, 0x14}, btcutil.Hash160(script)...), 0x87)
}
func c27wP2WSH(script []byte) []byte {
	h := sha256.Sum256(script)
	return append([]byte{0x00, 0x20}, h[:]...)
}

type c27wCase struct {
	Action   string `json:"action"` // sweep | redemption | moving | movedsweep
	Main     int    `json:"main"`   // 0 none, 1 P2WPKH, 2 P2PKH
	Deposits []int  `json:"deposits,omitempty"`
	Requests []int  `json:"requests,omitempty"`
	Targets  int    `json:"targets,omitempty"`
	Moved    int    `json:"moved,omitempty"`
	Shape    int    `json:"shape,omitempty"`
	Key      int    `json:"key"`
	HighS    bool   `json:"high_s"`
}

func (c c27wCase) String() string {
	return fmt.Sprintf("%s main=%d deposits=%v requests=%v targets=%d moved=%d shape=%d key=%d highS=%v",
		c.Action, c.Main, c.Deposits, c.Requests, c.Targets, c.Moved, c.Shape, c.Key, c.HighS)
}

// deposit kinds: 0 P2SH, 1 P2SH with extra data, 2 P2WSH, 3 P2WSH with extra data

func c27wWalletUtxo(ch *c27wChain, kind int, pkh []byte, value int64, idx uint32) *bitcoin.UnspentTransactionOutput {
	switch kind {
	case 1:
		return ch.fund(c27wP2WPKH(pkh), value, idx)
	case 2:
		return ch.fund(c27wP2PKH(pkh), value, idx)
	}
	return nil
}

func c27wRun(r *vrep.R, c c27wCase) {
	fp := c.String()
	size := 100*(len(c.Deposits)+len(c.Requests)+c.Targets) + 10*c.Main + c.Key
	priv, refund := c27wKey(c.Key), c27wKey(c.Key+1)
	pkh := c27wPKH(&priv.PublicKey)
	var pkh20, refund20 [20]byte
	copy(pkh20[:], pkh)
	copy(refund20[:], c27wPKH(&refund.PublicKey))
	ch := &c27wChain{txs: map[bitcoin.Hash]*bitcoin.Transaction{}}

	var builder *bitcoin.TransactionBuilder
	var err error
	p, stack := vrep.Guard(func() {
		switch c.Action {
		case "sweep":
			main := c27wWalletUtxo(ch, c.Main, pkh, 1500000, 1)
			var deposits []*Deposit
			for i, k := range c.Deposits {
				d := &Deposit{
					Depositor:           chain.Address("0x" + hex.EncodeToString(bytes.Repeat([]byte{0xa0 + byte(i)}, 20))),
					BlindingFactor:      [8]byte{1, 2, 3, 4, 5, 6, 7, byte(i)},
					WalletPublicKeyHash: pkh20,
					RefundPublicKeyHash: refund20,
					RefundLocktime:      [4]byte{0x30, 0x5a, 0x4e, 0x65},
				}
				if k == 1 || k == 3 {
					x := [32]byte{0xee, byte(i)}
					d.ExtraData = &x
				}
				script, serr := d.Script()
				if serr != nil {
					err = serr
					return
				}
				pk := c27wP2SH(script)
				if k >= 2 {
					pk = c27wP2WSH(script)
				}
				d.Utxo = ch.fund(pk, []int64{100000, 546, 2100000000000000, 31337}[i%4], uint32(i%2))
				deposits = append(deposits, d)
			}
			builder, err = assembleDepositSweepTransaction(ch, &priv.PublicKey, main, deposits, 1000)
		case "redemption":
			main := c27wWalletUtxo(ch, c.Main, pkh, 5000000, 0)
			var requests []*RedemptionRequest
			for i, k := range c.Requests {
				h := bytes.Repeat([]byte{0x40 + byte(i)}, 20)
				var script []byte
				switch k {
				case 0:
					script = c27wP2PKH(h)
				case 1:
					script = c27wP2WPKH(h)
				case 2:
					script = append(append([]byte{0xa9, 0x14}, h...), 0x87)
				case 3:
					script = append([]byte{0x00, 0x20}, bytes.Repeat([]byte{0x50 + byte(i)}, 32)...)
				}
				requests = append(requests, &RedemptionRequest{
					RedeemerOutputScript: script,
					RequestedAmount:      uint64(1000000 + 1000*i),
					TreasuryFee:          uint64(500 * i),
				})
			}
			shape := RedemptionChangeFirst
			if c.Shape == 1 {
				shape = RedemptionChangeLast
			}
			builder, err = assembleRedemptionTransaction(ch, &priv.PublicKey, main, requests, withRedemptionTotalFee(1001), shape)
		case "moving":
			main := c27wWalletUtxo(ch, c.Main, pkh, 777777, 2)
			var targets [][20]byte
			for i := 0; i < c.Targets; i++ {
				var t [20]byte
				copy(t[:], bytes.Repeat([]byte{0x70 + byte(i)}, 20))
				targets = append(targets, t)
			}
			builder, err = assembleMovingFundsTransaction(ch, main, targets, 999)
		case "movedsweep":
			moved := c27wWalletUtxo(ch, c.Moved, pkh, 424242, 1)
			main := c27wWalletUtxo(ch, c.Main, pkh, 1500000, 0)
			builder, err = assembleMovedFundsSweepTransaction(ch, &priv.PublicKey, moved, main, 555)
		default:
			err = fmt.Errorf("unknown action")
		}
	})
	if p != nil {
		r.ViolationMin("assemble-panic:"+c.Action, size, fp, fmt.Sprintf("panic while assembling: %v\n%s", p, stack), c)
		return
	}
	if err != nil || builder == nil {
		r.ViolationMin("assemble-error:"+c.Action, size, fp, fmt.Sprintf("assembler refused a well-formed request: %v", err), c)
		return
	}
	wte := newWalletTransactionExecutor(ch, wallet{publicKey: &priv.PublicKey}, &c27wSigner{priv, c.HighS},
		func(ctx context.Context, block uint64) error { return nil })
	var tx *bitcoin.Transaction
	p, stack = vrep.Guard(func() { tx, err = wte.signTransaction(logger, builder, 1, 100) })
	if p != nil {
		r.ViolationMin("sign-panic:"+c.Action, size, fp, fmt.Sprintf("panic in signTransaction: %v\n%s", p, stack), c)
		return
	}
	if err != nil || tx == nil {
		r.ViolationMin("honest-rejected:"+c.Action, size, fp, fmt.Sprintf("signatures by the wallet key were rejected: %v", err), c)
		r.Outcome(c.Action + ":rejected")
		return
	}
	// interpreter over every input; previous outputs are looked up in the harness chain
	var msg wire.MsgTx
	if derr := msg.Deserialize(bytes.NewReader(tx.Serialize())); derr != nil {
		r.ViolationMin("unparsable:"+c.Action, size, fp, "btcd cannot parse the signed transaction: "+derr.Error(), c)
		return
	}
	cache := txscript.NewTxSigHashes(&msg)
	for i, in := range msg.TxIn {
		prevTx, ok := ch.txs[bitcoin.Hash(in.PreviousOutPoint.Hash)]
		if !ok || int(in.PreviousOutPoint.Index) >= len(prevTx.Outputs) {
			r.ViolationMin("unknown-prevout:"+c.Action, size, fp, fmt.Sprintf("input %d spends an outpoint that was never funded", i), c)
			return
		}
		prev := prevTx.Outputs[in.PreviousOutPoint.Index]
		vm, eerr := txscript.NewEngine(prev.PublicKeyScript, &msg, i, txscript.StandardVerifyFlags, nil, cache, prev.Value)
		if eerr == nil {
			eerr = vm.Execute()
		}
		if eerr != nil {
			r.ViolationMin("script-rejects:"+c.Action, size, fp, fmt.Sprintf("script interpreter rejects input %d (prevout script %x): %v", i, prev.PublicKeyScript, eerr), c)
			r.Outcome(c.Action + ":script-rejected")
			return
		}
	}
	r.Outcome(fmt.Sprintf("%s:accepted:%d-inputs", c.Action, len(msg.TxIn)))
}

func c27wSeqs(alphabet, minLen, maxLen int) [][]int {
	var out [][]int
	var gen func(prefix []int)
	gen = func(prefix []int) {
		if len(prefix) >= minLen {
			out = append(out, append([]int(nil), prefix...))
		}
		if len(prefix) == maxLen {
			return
		}
		for k := 0; k < alphabet; k++ {
			gen(append(prefix, k))
		}
	}
	gen(nil)
	return out
}

func TestVerifC27Wallet(t *testing.T) {
	r := vrep.Start(t, "C27", "wallet")
	defer r.Finish()
	if rd := r.ReplayData(); rd != nil {
		var c c27wCase
		if json.Unmarshal(rd, &c) == nil && c.Action != "" {
			c27wRun(r, c)
			r.Eval(1)
		}
		return
	}
	maxDeposits, maxRequests, maxTargets, keys := 3, 2, 3, 2
	if r.Thorough() {
		maxDeposits, maxRequests, maxTargets, keys = 4, 3, 5, 3
	}
	var cases []c27wCase
	for key := 0; key < keys; key++ {
		for _, hs := range []bool{false, true} {
			for main := 0; main <= 2; main++ {
				for _, d := range c27wSeqs(4, 1, maxDeposits) {
					cases = append(cases, c27wCase{Action: "sweep", Main: main, Deposits: d, Key: key, HighS: hs})
				}
				for moved := 1; moved <= 2; moved++ {
					cases = append(cases, c27wCase{Action: "movedsweep", Main: main, Moved: moved, Key: key, HighS: hs})
				}
			}
			for main := 1; main <= 2; main++ {
				for _, q := range c27wSeqs(4, 1, maxRequests) {
					for shape := 0; shape <= 1; shape++ {
						cases = append(cases, c27wCase{Action: "redemption", Main: main, Requests: q, Shape: shape, Key: key, HighS: hs})
					}
				}
				for n := 1; n <= maxTargets; n++ {
					cases = append(cases, c27wCase{Action: "moving", Main: main, Targets: n, Key: key, HighS: hs})
				}
			}
		}
	}
	r.Set("cases", len(cases))
	r.Sample(cases[0])
	r.Sample(cases[len(cases)/2])
	vrep.Parallel(vrep.Workers(), len(cases), func(i int) {
		if r.Expired() {
			return
		}
		c27wRun(r, cases[i])
		r.Distinct(cases[i].String())
		r.Eval(1)
	})
}
