//go:build verif

package tbtc

import (
	"encoding/json"
	"fmt"
	"math/big"
	"strings"
	"testing"
	"time"

	"github.com/keep-network/keep-core/pkg/verifshim/vrep"
	"github.com/keep-network/keep-core/pkg/verifshim/vsched"
	"github.com/keep-network/keep-core/pkg/verifshim/vtime"
)

// ---- events ------------------------------------------------------------------------

// c37Event is one chain event as the deduplicator sees it. Kind selects the notifier.
type c37Event struct {
	Kind  string `json:"kind"`           // "started" | "submitted" | "closed"
	Seed  string `json:"seed,omitempty"` // hex
	Hash  string `json:"hash,omitempty"` // 64 hex digits
	Block uint64 `json:"block,omitempty"`
	ID    string `json:"id,omitempty"` // 64 hex digits
}

func (e c37Event) String() string {
	switch e.Kind {
	case "started":
		return "started(seed=0x" + e.Seed + ")"
	case "submitted":
		return fmt.Sprintf("submitted(seed=0x%s,hash=%s,block=%d)", e.Seed, c37Short(e.Hash), e.Block)
	}
	return "closed(id=" + c37Short(e.ID) + ")"
}

func c37Short(h string) string {
	if len(h) == 64 && strings.Count(h[1:63], h[1:2]) == 62 {
		return h[:1] + h[1:2] + "*62" + h[63:]
	}
	return h
}

func c37Hex32(s string) [32]byte {
	var out [32]byte
	b, ok := new(big.Int).SetString(s, 16)
	if !ok || len(s) != 64 {
		panic("c37: bad 32-byte hex " + s)
	}
	b.FillBytes(out[:])
	return out
}

func c37Notify(d *deduplicator, e c37Event) bool {
	switch e.Kind {
	case "started":
		seed, _ := new(big.Int).SetString(e.Seed, 16)
		return d.notifyDKGStarted(seed)
	case "submitted":
		seed, _ := new(big.Int).SetString(e.Seed, 16)
		return d.notifyDKGResultSubmitted(seed, DKGChainResultHash(c37Hex32(e.Hash)), e.Block)
	case "closed":
		return d.notifyWalletClosed(c37Hex32(e.ID))
	}
	panic("c37: unknown kind")
}

func c37Pat(x, m, y byte) string { return string(x) + strings.Repeat(string(m), 62) + string(y) }

// two distinct events per notifier for the schedule legs
func c37Pair(kind string) [2]c37Event {
	switch kind {
	case "started":
		return [2]c37Event{{Kind: kind, Seed: "1a2b"}, {Kind: kind, Seed: "1a2c"}}
	case "submitted":
		return [2]c37Event{
			{Kind: kind, Seed: "1a2b", Hash: c37Pat('9', 'a', '1'), Block: 500},
			{Kind: kind, Seed: "1a2b", Hash: c37Pat('9', 'a', '1'), Block: 501}}
	}
	return [2]c37Event{{Kind: kind, ID: c37Pat('9', 'b', '1')}, {Kind: kind, ID: c37Pat('9', 'b', '2')}}
}

// ---- concurrent deliveries ---------------------------------------------------------

// c37Conc: every thread delivers its list of events (indexes into the pair) in order.
type c37Conc struct {
	Kind    string  `json:"kind"`
	Threads [][]int `json:"threads"`
}

func (sc c37Conc) String() string { return fmt.Sprintf("%s threads=%v", sc.Kind, sc.Threads) }

type c37ConcObs struct {
	handled [2]int
	calls   [2]int
}

func c37ConcBody(sc c37Conc, obs *c37ConcObs) func() {
	return func() {
		*obs = c37ConcObs{}
		d := newDeduplicator()
		pair := c37Pair(sc.Kind)
		for _, evs := range sc.Threads {
			evs := evs
			vsched.Go(func() {
				for _, e := range evs {
					obs.calls[e]++
					if c37Notify(d, pair[e]) {
						obs.handled[e]++
					}
				}
			})
		}
	}
}

// ---- sequential histories around the caching period --------------------------------

type c37SeqObs struct {
	log      []string
	problem  string
	boundary bool
}

func c37Period(kind string) time.Duration {
	switch kind {
	case "started":
		return DKGSeedCachePeriod
	case "submitted":
		return DKGResultHashCachePeriod
	}
	return WalletClosedCachePeriod
}

func c37SeqBody(kind string, steps int, obs *c37SeqObs) func() {
	return func() {
		*obs = c37SeqObs{}
		d := newDeduplicator()
		pair := c37Pair(kind)
		period := c37Period(kind)
		c37Gaps := []time.Duration{0, period - time.Second, period, period + time.Second}
		handledAt := [2]time.Time{}
		has := [2]bool{}
		for i := 0; i < steps; i++ {
			g := vsched.Choose(len(c37Gaps), fmt.Sprintf("gap%d", i))
			e := vsched.Choose(2, fmt.Sprintf("event%d", i))
			if c37Gaps[g] > 0 {
				vtime.Sleep(c37Gaps[g])
			}
			now := vtime.Now()
			got := c37Notify(d, pair[e])
			obs.log = append(obs.log, fmt.Sprintf("+%v e%d=%v", c37Gaps[g], e, got))
			// reference: handled iff not handled within the last caching period; at the
			// exact boundary either answer is accepted
			var age time.Duration
			if has[e] {
				age = now.Sub(handledAt[e])
			}
			switch {
			case !has[e] || age > period:
				if !got && obs.problem == "" {
					obs.problem = fmt.Sprintf("step %d: delivery of event %d (last handled %v ago, caching period %v) was ignored", i, e, age, period)
				}
			case age < period:
				if got && obs.problem == "" {
					obs.problem = fmt.Sprintf("step %d: event %d handled again %v after it was handled (caching period %v)", i, e, age, period)
				}
			default:
				obs.boundary = true
			}
			if got {
				has[e], handledAt[e] = true, now
			}
		}
	}
}

// ---- key collisions ----------------------------------------------------------------

// c37Domain builds the structured event domain of the collision leg.
func c37Domain(kind string, nibbles string, maxBlock uint64) []c37Event {
	var seeds []string
	var gen func(p string)
	gen = func(p string) {
		if len(p) > 0 {
			seeds = append(seeds, p)
		}
		if len(p) == 3 {
			return
		}
		for i := 0; i < len(nibbles); i++ {
			if len(p) == 0 && nibbles[i] == '0' {
				continue
			}
			gen(p + nibbles[i:i+1])
		}
	}
	gen("")
	var out []c37Event
	switch kind {
	case "started":
		for _, s := range seeds {
			out = append(out, c37Event{Kind: kind, Seed: s})
		}
	case "closed":
		for i := 0; i < len(nibbles); i++ {
			for j := 0; j < len(nibbles); j++ {
				out = append(out, c37Event{Kind: kind, ID: c37Pat(nibbles[i], 'a', nibbles[j])})
			}
		}
	case "submitted":
		for _, s := range seeds {
			for i := 0; i < len(nibbles); i++ {
				for j := 0; j < len(nibbles); j++ {
					for b := uint64(0); b <= maxBlock; b++ {
						out = append(out, c37Event{Kind: kind, Seed: s, Hash: c37Pat(nibbles[i], 'a', nibbles[j]), Block: b})
					}
				}
			}
		}
	}
	return out
}

// c37Collisions delivers every (pairwise distinct) event of the domain once to one
// fresh deduplicator at one instant: each must be handled. An ignored one has been
// mistaken for an earlier one, which is then searched for with fresh deduplicators.
func c37Collisions(r *vrep.R, kind string, dom []c37Event) {
	// the instrumented notifiers contain scheduling points, so even this sequential
	// leg has to run as a (single-threaded) scheduled execution
	s := vsched.Replay(nil, vsched.Options{MaxSteps: 1 << 30}, func() { c37CollisionsBody(r, kind, dom) })
	if p, stack := s.Failed(); p != nil {
		r.ViolationMin("panic:"+kind, 0, "keys panic "+kind, fmt.Sprintf("panic: %v\n%s", p, stack), map[string]any{"leg": "keys", "first": dom[0], "second": dom[len(dom)-1]})
	}
}

func c37CollisionsBody(r *vrep.R, kind string, dom []c37Event) {
	d := newDeduplicator()
	collisions := 0
	for j, e := range dom {
		r.Eval(1)
		if c37Notify(d, e) {
			continue
		}
		collisions++
		if collisions > 3 {
			continue // the partner search is quadratic; a few written-out pairs suffice
		}
		partner := -1
		for i := 0; i < j; i++ {
			f := newDeduplicator()
			c37Notify(f, dom[i])
			if !c37Notify(f, e) {
				partner = i
				break
			}
		}
		what := fmt.Sprintf("%v was ignored as a duplicate although it was never delivered before", e)
		size := len(e.Seed)*1000 + int(e.Block)
		if partner >= 0 {
			what = fmt.Sprintf("after %v was handled, the different event %v is ignored as its duplicate", dom[partner], e)
		}
		first := dom[0]
		if partner >= 0 {
			first = dom[partner]
		}
		r.ViolationMin("key-collision:"+kind, size, fmt.Sprintf("key-collision %s %v", kind, e), what,
			map[string]any{"leg": "keys", "first": first, "second": e})
	}
	r.Add("keys."+kind+".events", int64(len(dom)))
	r.Add("keys."+kind+".ignored", int64(collisions))
	if collisions > 0 {
		r.Outcome("keys:" + kind + ":ignored")
	}
	r.Outcome("keys:" + kind + ":handled")
	if len(dom) >= 2 {
		r.Distinct("keys|" + kind)
	}
}

// ---- driver ------------------------------------------------------------------------

type c37Replay struct {
	Leg     string    `json:"leg"`
	Conc    *c37Conc  `json:"conc,omitempty"`
	Kind    string    `json:"kind,omitempty"`
	Steps   int       `json:"steps,omitempty"`
	Choices []int     `json:"choices,omitempty"`
	Bound   int       `json:"bound,omitempty"`
	First   *c37Event `json:"first,omitempty"`
	Second  *c37Event `json:"second,omitempty"`
}

func TestVerifC37(t *testing.T) {
	r := vrep.Start(t, "C37", "tbtc")
	defer r.Finish()
	var cobs c37ConcObs
	var sobs c37SeqObs

	evalConc := func(sc c37Conc, bound int, s *vsched.Sched) {
		r.Eval(1)
		r.Transition(len(s.Choices()) + 1)
		r.State(fmt.Sprintf("%s|%v", sc, cobs.handled))
		r.Outcome(fmt.Sprintf("conc:%s handled=%v of calls=%v", sc.Kind, cobs.handled, cobs.calls))
		rp := c37Replay{Leg: "conc", Conc: &sc, Choices: s.Choices(), Bound: bound}
		fail := func(kind, what string) {
			r.ViolationMin(kind+":"+sc.Kind, (cobs.calls[0]+cobs.calls[1])*1000+len(s.Choices()), fmt.Sprintf("%s %s", kind, sc), what+" [schedule "+s.Trace()+"]", rp)
		}
		if p, stack := s.Failed(); p != nil {
			fail("panic", fmt.Sprintf("panic: %v\n%s", p, stack))
			return
		}
		if s.StepCapHit {
			r.Cap("step-cap")
			return
		}
		if len(s.Deadlock) > 0 {
			fail("deadlock", fmt.Sprintf("threads blocked forever: %v", s.Deadlock))
			return
		}
		pair := c37Pair(sc.Kind)
		for e := 0; e < 2; e++ {
			if cobs.calls[e] == 0 {
				continue
			}
			if cobs.handled[e] > 1 {
				fail("handled-twice", fmt.Sprintf("%v was delivered %d times at the same instant and %d deliveries were told to proceed", pair[e], cobs.calls[e], cobs.handled[e]))
			}
			if cobs.handled[e] == 0 {
				fail("never-handled", fmt.Sprintf("%v was delivered %d times and no delivery was told to proceed", pair[e], cobs.calls[e]))
			}
		}
	}
	evalSeq := func(kind string, steps int, s *vsched.Sched) {
		r.Eval(1)
		r.Transition(len(s.Choices()) + 1)
		r.State(kind + "|" + strings.Join(sobs.log, ","))
		if sobs.boundary {
			r.Outcome("seq:" + kind + ":boundary")
		}
		for _, l := range sobs.log {
			r.Outcome("seq:" + kind + ":" + l[strings.LastIndex(l, "=")+1:])
		}
		rp := c37Replay{Leg: "seq", Kind: kind, Steps: steps, Choices: s.Choices()}
		if p, stack := s.Failed(); p != nil {
			r.ViolationMin("panic:"+kind, len(s.Choices()), "seq panic "+kind, fmt.Sprintf("panic: %v\n%s", p, stack), rp)
			return
		}
		if s.HorizonHit || s.StepCapHit {
			r.Cap("seq horizon/step cap")
			return
		}
		if sobs.problem != "" {
			r.ViolationMin("caching-period:"+kind, steps*100+len(sobs.log), fmt.Sprintf("caching-period %s %v", kind, sobs.log), sobs.problem+" [history "+strings.Join(sobs.log, ", ")+"]", rp)
		}
	}

	if rd := r.ReplayData(); rd != nil {
		var rp c37Replay
		if json.Unmarshal(rd, &rp) != nil {
			return
		}
		switch rp.Leg {
		case "conc":
			s := vsched.Replay(rp.Choices, vsched.Options{Bound: rp.Bound}, c37ConcBody(*rp.Conc, &cobs))
			evalConc(*rp.Conc, rp.Bound, s)
		case "seq":
			s := vsched.Replay(rp.Choices, vsched.Options{Horizon: 16}, c37SeqBody(rp.Kind, rp.Steps, &sobs))
			evalSeq(rp.Kind, rp.Steps, s)
		case "keys":
			kind := rp.Second.Kind
			if rp.First.Kind != kind {
				kind = "mixed"
			}
			c37Collisions(r, kind, []c37Event{*rp.First, *rp.Second})
		}
		return
	}

	kinds := []string{"started", "submitted", "closed"}
	shapes := [][][]int{{{0}, {0}}, {{0}, {0}, {0}}, {{0}, {0}, {1}}, {{0, 1}, {1, 0}}, {{0, 0}, {0}}}
	maxBound, steps, nibbles, maxBlock := 2, 3, "017a", uint64(120)
	if r.Thorough() {
		maxBound, steps, nibbles, maxBlock = 3, 4, "0179af", uint64(120)
	}
	shard, _ := r.Shard()

	// determinism gate
	if shard == 0 {
		sc := c37Conc{"submitted", shapes[2]}
		a := vsched.Replay(nil, vsched.Options{}, c37ConcBody(sc, &cobs))
		oa := cobs
		b := vsched.Replay(nil, vsched.Options{}, c37ConcBody(sc, &cobs))
		if !vsched.SameRun(a, b) || oa != cobs {
			t.Fatalf("NONDETERMINISM: two runs of the empty script differ")
		}
		r.ReplayedTwice(1)
		r.Sample(map[string]any{"leg": "conc", "scenario": sc.String(), "handled": fmt.Sprint(cobs.handled)})
	}

	idx := 0
	for _, kind := range kinds {
		for _, shape := range shapes {
			idx++
			if !r.Mine(idx) {
				continue
			}
			sc := c37Conc{kind, shape}
			r.Distinct("conc|" + sc.String())
			for bound := 0; bound <= maxBound; bound++ {
				if bound < maxBound && bound > 0 {
					continue // bound 0 for the iteration report, then the full bound
				}
				st := vsched.Explore(vsched.Options{Bound: bound, Stop: r.Expired}, c37ConcBody(sc, &cobs), func(s *vsched.Sched) { evalConc(sc, bound, s) })
				r.Add(fmt.Sprintf("conc.bound%d_execs", bound), st.Execs)
				if st.Stopped {
					r.Cap(fmt.Sprintf("conc %s bound %d not completed", sc, bound))
				}
			}
		}
		idx++
		if r.Mine(idx) {
			r.Distinct("seq|" + kind)
			st := vsched.Explore(vsched.Options{Bound: 0, Horizon: 16, Stop: r.Expired}, c37SeqBody(kind, steps, &sobs), func(s *vsched.Sched) { evalSeq(kind, steps, s) })
			r.Add("seq.execs", st.Execs)
			if st.Stopped {
				r.Cap("seq " + kind + " not completed")
			}
		}
		idx++
		if r.Mine(idx) {
			dom := c37Domain(kind, nibbles, maxBlock)
			c37Collisions(r, kind, dom)
			if kind == "submitted" {
				r.Sample(map[string]any{"leg": "keys", "events": len(dom), "first": dom[0].String(), "last": dom[len(dom)-1].String()})
			}
		}
	}
	// mixed: events of DIFFERENT kinds built from the same material (a 64-digit seed
	// that reads like a wallet ID / result hash) delivered to one deduplicator made by
	// newDeduplicator(): a started, a submitted and a closed event are three distinct
	// events whatever their fields, each must be handled (both delivery orders).
	idx++
	if r.Mine(idx) {
		var dom []c37Event
		for _, x := range "17a" {
			for _, y := range "01a" {
				p := c37Pat(byte(x), 'a', byte(y))
				dom = append(dom, c37Event{Kind: "started", Seed: p}, c37Event{Kind: "closed", ID: p},
					c37Event{Kind: "submitted", Seed: p, Hash: p, Block: 0}, c37Event{Kind: "submitted", Seed: p, Hash: p, Block: 7})
			}
		}
		c37Collisions(r, "mixed", dom)
		rev := make([]c37Event, len(dom))
		for i, e := range dom {
			rev[len(dom)-1-i] = e
		}
		c37Collisions(r, "mixed", rev)
	}
	if shard == 0 {
		r.Set("max_preemption_bound", maxBound)
	}
}
