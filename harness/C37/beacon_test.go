//go:build verif

package event

import (
	"encoding/json"
	"fmt"
	"math/big"
	"strings"
	"testing"
	"time"

	"github.com/keep-network/keep-core/pkg/verifshim/vrep"
	"github.com/keep-network/keep-core/pkg/verifshim/vsched"
	"github.com/keep-network/keep-core/pkg/verifshim/vtime"
)

// Beacon leg of C37: Deduplicator.NotifyDKGStarted, same three sub-legs as the tbtc unit.

var c37Seeds = [2]string{"1a2b", "1a2c"}

func c37Notify(d *Deduplicator, seedHex string) bool {
	seed, _ := new(big.Int).SetString(seedHex, 16)
	return d.NotifyDKGStarted(seed)
}

type c37Obs struct {
	handled, calls [2]int
}

func c37ConcBody(threads [][]int, obs *c37Obs) func() {
	return func() {
		*obs = c37Obs{}
		d := NewDeduplicator(nil)
		for _, evs := range threads {
			evs := evs
			vsched.Go(func() {
				for _, e := range evs {
					obs.calls[e]++
					if c37Notify(d, c37Seeds[e]) {
						obs.handled[e]++
					}
				}
			})
		}
	}
}

type c37SeqObs struct {
	log      []string
	problem  string
	boundary bool
}

func c37SeqBody(steps int, obs *c37SeqObs) func() {
	return func() {
		*obs = c37SeqObs{}
		d := NewDeduplicator(nil)
		period := time.Duration(DKGSeedCachePeriod)
		gaps := []time.Duration{0, period - time.Second, period, period + time.Second}
		handledAt := [2]time.Time{}
		has := [2]bool{}
		for i := 0; i < steps; i++ {
			g := vsched.Choose(len(gaps), fmt.Sprintf("gap%d", i))
			e := vsched.Choose(2, fmt.Sprintf("event%d", i))
			if gaps[g] > 0 {
				vtime.Sleep(gaps[g])
			}
			now := vtime.Now()
			got := c37Notify(d, c37Seeds[e])
			obs.log = append(obs.log, fmt.Sprintf("+%v e%d=%v", gaps[g], e, got))
			var age time.Duration
			if has[e] {
				age = now.Sub(handledAt[e])
			}
			switch {
			case !has[e] || age > period:
				if !got && obs.problem == "" {
					obs.problem = fmt.Sprintf("step %d: delivery of seed %d (last handled %v ago, caching period %v) was ignored", i, e, age, period)
				}
			case age < period:
				if got && obs.problem == "" {
					obs.problem = fmt.Sprintf("step %d: seed %d handled again %v after it was handled (caching period %v)", i, e, age, period)
				}
			default:
				obs.boundary = true
			}
			if got {
				has[e], handledAt[e] = true, now
			}
		}
	}
}

type c37Replay struct {
	Leg     string   `json:"leg"`
	Threads [][]int  `json:"threads,omitempty"`
	Steps   int      `json:"steps,omitempty"`
	Choices []int    `json:"choices,omitempty"`
	Bound   int      `json:"bound,omitempty"`
	Seeds   []string `json:"seeds,omitempty"`
}

func TestVerifC37Beacon(t *testing.T) {
	r := vrep.Start(t, "C37", "beacon")
	defer r.Finish()
	var cobs c37Obs
	var sobs c37SeqObs

	evalConc := func(threads [][]int, bound int, s *vsched.Sched) {
		r.Eval(1)
		r.Transition(len(s.Choices()) + 1)
		r.State(fmt.Sprintf("%v|%v", threads, cobs.handled))
		r.Outcome(fmt.Sprintf("conc: handled=%v of calls=%v", cobs.handled, cobs.calls))
		rp := c37Replay{Leg: "conc", Threads: threads, Choices: s.Choices(), Bound: bound}
		fail := func(kind, what string) {
			r.ViolationMin(kind+":beacon-started", (cobs.calls[0]+cobs.calls[1])*1000+len(s.Choices()), fmt.Sprintf("%s beacon-started threads=%v", kind, threads), what+" [schedule "+s.Trace()+"]", rp)
		}
		if p, stack := s.Failed(); p != nil {
			fail("panic", fmt.Sprintf("panic: %v\n%s", p, stack))
			return
		}
		if s.StepCapHit {
			r.Cap("step-cap")
			return
		}
		if len(s.Deadlock) > 0 {
			fail("deadlock", fmt.Sprintf("threads blocked forever: %v", s.Deadlock))
			return
		}
		for e := 0; e < 2; e++ {
			if cobs.calls[e] == 0 {
				continue
			}
			if cobs.handled[e] > 1 {
				fail("handled-twice", fmt.Sprintf("beacon DKG started event with seed 0x%s was delivered %d times at the same instant and %d deliveries were told to proceed", c37Seeds[e], cobs.calls[e], cobs.handled[e]))
			}
			if cobs.handled[e] == 0 {
				fail("never-handled", fmt.Sprintf("beacon DKG started event with seed 0x%s was delivered %d times and no delivery was told to proceed", c37Seeds[e], cobs.calls[e]))
			}
		}
	}
	evalSeq := func(steps int, s *vsched.Sched) {
		r.Eval(1)
		r.Transition(len(s.Choices()) + 1)
		r.State(strings.Join(sobs.log, ","))
		if sobs.boundary {
			r.Outcome("seq:boundary")
		}
		for _, l := range sobs.log {
			r.Outcome("seq:" + l[strings.LastIndex(l, "=")+1:])
		}
		rp := c37Replay{Leg: "seq", Steps: steps, Choices: s.Choices()}
		if p, stack := s.Failed(); p != nil {
			r.ViolationMin("panic:beacon-started", len(s.Choices()), "seq panic beacon-started", fmt.Sprintf("panic: %v\n%s", p, stack), rp)
			return
		}
		if s.HorizonHit || s.StepCapHit {
			r.Cap("seq horizon/step cap")
			return
		}
		if sobs.problem != "" {
			r.ViolationMin("caching-period:beacon-started", steps*100+len(sobs.log), fmt.Sprintf("caching-period beacon-started %v", sobs.log), sobs.problem+" [history "+strings.Join(sobs.log, ", ")+"]", rp)
		}
	}
	keysBody := func(seeds []string) {
		d := NewDeduplicator(nil)
		ignored := 0
		for _, s := range seeds {
			r.Eval(1)
			if !c37Notify(d, s) {
				ignored++
				r.ViolationMin("key-collision:beacon-started", len(s), "key-collision beacon-started 0x"+s, "beacon DKG started event with the never-delivered seed 0x"+s+" was ignored as a duplicate", c37Replay{Leg: "keys", Seeds: seeds})
			}
		}
		r.Add("keys.events", int64(len(seeds)))
		r.Add("keys.ignored", int64(ignored))
		r.Outcome("keys:handled")
		r.Distinct("keys")
	}
	// the instrumented notifier contains scheduling points, so even the sequential
	// collision leg has to run as a (single-threaded) scheduled execution
	keys := func(seeds []string) {
		s := vsched.Replay(nil, vsched.Options{MaxSteps: 1 << 30}, func() { keysBody(seeds) })
		if p, stack := s.Failed(); p != nil {
			r.ViolationMin("panic:beacon-started", 0, "keys panic beacon-started", fmt.Sprintf("panic: %v\n%s", p, stack), c37Replay{Leg: "keys", Seeds: seeds})
		}
	}

	if rd := r.ReplayData(); rd != nil {
		var rp c37Replay
		if json.Unmarshal(rd, &rp) != nil {
			return
		}
		switch rp.Leg {
		case "conc":
			evalConc(rp.Threads, rp.Bound, vsched.Replay(rp.Choices, vsched.Options{Bound: rp.Bound}, c37ConcBody(rp.Threads, &cobs)))
		case "seq":
			evalSeq(rp.Steps, vsched.Replay(rp.Choices, vsched.Options{Horizon: 16}, c37SeqBody(rp.Steps, &sobs)))
		case "keys":
			keys(rp.Seeds)
		}
		return
	}

	shapes := [][][]int{{{0}, {0}}, {{0}, {0}, {0}}, {{0}, {0}, {1}}, {{0, 1}, {1, 0}}, {{0, 0}, {0}}}
	maxBound, steps, nibbles := 2, 3, "017a"
	if r.Thorough() {
		maxBound, steps, nibbles = 3, 4, "0179af"
	}
	shard, _ := r.Shard()
	if shard == 0 {
		a := vsched.Replay(nil, vsched.Options{}, c37ConcBody(shapes[2], &cobs))
		oa := cobs
		b := vsched.Replay(nil, vsched.Options{}, c37ConcBody(shapes[2], &cobs))
		if !vsched.SameRun(a, b) || oa != cobs {
			t.Fatalf("NONDETERMINISM: two runs of the empty script differ")
		}
		r.ReplayedTwice(1)
		r.Sample(map[string]any{"leg": "conc", "threads": shapes[2], "handled": fmt.Sprint(cobs.handled)})
	}
	idx := 0
	for _, shape := range shapes {
		idx++
		if !r.Mine(idx) {
			continue
		}
		shape := shape
		r.Distinct(fmt.Sprintf("conc|%v", shape))
		for _, bound := range []int{0, maxBound} {
			bound := bound
			st := vsched.Explore(vsched.Options{Bound: bound, Stop: r.Expired}, c37ConcBody(shape, &cobs), func(s *vsched.Sched) { evalConc(shape, bound, s) })
			r.Add(fmt.Sprintf("conc.bound%d_execs", bound), st.Execs)
			if st.Stopped {
				r.Cap(fmt.Sprintf("conc %v bound %d not completed", shape, bound))
			}
		}
	}
	idx++
	if r.Mine(idx) {
		r.Distinct("seq")
		st := vsched.Explore(vsched.Options{Bound: 0, Horizon: 16, Stop: r.Expired}, c37SeqBody(steps, &sobs), func(s *vsched.Sched) { evalSeq(steps, s) })
		r.Add("seq.execs", st.Execs)
		if st.Stopped {
			r.Cap("seq not completed")
		}
	}
	idx++
	if r.Mine(idx) {
		var seeds []string
		var gen func(p string)
		gen = func(p string) {
			if len(p) > 0 {
				seeds = append(seeds, p)
			}
			if len(p) == 3 {
				return
			}
			for i := 0; i < len(nibbles); i++ {
				if len(p) == 0 && nibbles[i] == '0' {
					continue
				}
				gen(p + nibbles[i:i+1])
			}
		}
		gen("")
		keys(seeds)
	}
	if shard == 0 {
		r.Set("max_preemption_bound", maxBound)
	}
}
