//go:build verif

package tbtc

import (
	"sync"
	"testing"

	"github.com/keep-network/keep-core/pkg/verifshim/vrep"
)

// Free-running pass under the race detector (uninstrumented deduplicator and the real
// keep-common TimeCache). Side condition only; answers are tallied, not judged here.
func TestVerifC37RaceTbtc(t *testing.T) {
	r := vrep.Start(t, "C37", "race-tbtc")
	defer r.Finish()
	if r.ReplayData() != nil {
		return
	}
	rounds := 50
	if r.Thorough() {
		rounds = 2000
	}
	for _, kind := range []string{"started", "submitted", "closed"} {
		pair := c37Pair(kind)
		for i := 0; i < rounds; i++ {
			d := newDeduplicator()
			var wg sync.WaitGroup
			var mu sync.Mutex
			handled := 0
			for g := 0; g < 4; g++ {
				wg.Add(1)
				go func() {
					defer wg.Done()
					for k := 0; k < 2; k++ {
						if c37Notify(d, pair[k]) {
							mu.Lock()
							handled++
							mu.Unlock()
						}
					}
				}()
			}
			wg.Wait()
			r.Eval(1)
			if handled == 2 {
				r.Outcome(kind + ": each event handled once")
			} else {
				r.Outcome(kind + ": some event handled more than once")
			}
			r.Distinct("4 goroutines x 2 events " + kind)
		}
	}
	r.Sample("4 goroutines deliver the same 2 events concurrently to one deduplicator, per notifier, real goroutines under -race")
}
