//go:build verif

package event

import (
	"math/big"
	"sync"
	"testing"

	"github.com/keep-network/keep-core/pkg/verifshim/vrep"
)

// Free-running pass under the race detector (uninstrumented deduplicator and the real
// keep-common TimeCache): goroutines deliver the same and different seeds at once.
// Side condition only; the answers are tallied as outcomes, not judged here.
func TestVerifC37Race(t *testing.T) {
	r := vrep.Start(t, "C37", "race")
	defer r.Finish()
	if r.ReplayData() != nil {
		return
	}
	rounds := 50
	if r.Thorough() {
		rounds = 2000
	}
	for i := 0; i < rounds; i++ {
		d := NewDeduplicator(nil)
		var wg sync.WaitGroup
		var mu sync.Mutex
		handled := 0
		for g := 0; g < 4; g++ {
			wg.Add(1)
			go func(g int) {
				defer wg.Done()
				for k := 0; k < 8; k++ {
					if d.NotifyDKGStarted(big.NewInt(int64(100 + k))) {
						mu.Lock()
						handled++
						mu.Unlock()
					}
				}
			}(g)
		}
		wg.Wait()
		r.Eval(1)
		if handled == 8 {
			r.Outcome("each seed handled once")
		} else {
			r.Outcome("some seed handled more than once")
		}
		r.Distinct("4 goroutines x 8 seeds")
		r.Distinct("beacon NotifyDKGStarted")
	}
	r.Sample("4 goroutines deliver the same 8 seeds concurrently to one Deduplicator, real goroutines under -race")
}
