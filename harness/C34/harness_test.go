//go:build verif

package tbtc

import (
	"bytes"
	"crypto/sha256"
	"encoding/binary"
	"encoding/json"
	"fmt"
	"strings"
	"testing"

	"github.com/keep-network/keep-core/pkg/bitcoin"
	"github.com/keep-network/keep-core/pkg/verifshim/vrep"
)

// ---------------------------------------------------------------------------------
// World model: a wallet history is a sequence of transaction templates (letters),
// the last `Mempool` of them unconfirmed. Every transaction is a real
// bitcoin.Transaction with real scripts; who spends what follows from the inputs.
//
//	a  spam: third party pays the wallet (P2WPKH) at output 0
//	b  spam: third party pays someone else at output 0 and the wallet (P2PKH) at output 1
//	c  spam: third party pays the wallet twice (P2PKH at 0, P2WPKH at 1)
//	D  wallet's deposit sweep: inputs [main UTXO if any, revealed deposit], single output to wallet (P2WPKH)
//	M  wallet's moved-funds sweep: inputs [moved-funds sweep request, main UTXO if any], single output to wallet (P2PKH)
//	R  wallet's redemption: input [main UTXO], outputs [redeemer, change to wallet (P2WPKH) at 1]
//	F  wallet's moving funds: input [main UTXO], output [other wallet] (no wallet output)
//	x  (probe only) third party spends a revealed deposit through its refund branch and
//	   pays the wallet at output 0
//
// "main UTXO" during construction = the wallet output of the wallet's latest own
// transaction (the only output the wallet ever spends).
// ---------------------------------------------------------------------------------

var (
	c34Wallet = [20]byte{0xe6, 0xf9, 0xd7, 0x47, 0x26, 0xb1, 0x9b, 0x75, 0xf1, 0x6f, 0xe1, 0xe9, 0xfe, 0xae, 0xc0, 0x48, 0xaa, 0x4f, 0xa1, 0xd0}
	c34Other  = [20]byte{0x2c, 0xd6, 0x80, 0x31, 0x87, 0x47, 0xb7, 0x20, 0xd6, 0x7b, 0xf4, 0x24, 0x6e, 0xb7, 0x40, 0x3b, 0x47, 0x6a, 0xdb, 0x34}
)

type c34Tx struct {
	tx      *bitcoin.Transaction
	hash    bitcoin.Hash
	kind    byte
	mempool bool
	own     bool // produced by the wallet itself
	sweep   bool // own deposit sweep / moved funds sweep
}

type c34Out struct {
	utxo    bitcoin.UnspentTransactionOutput
	txIdx   int
	wallet  bool // pays the wallet (P2PKH or P2WPKH)
	mempool bool
}

type c34World struct {
	txs      []*c34Tx
	outs     []c34Out                           // every output of every tx, in order
	spent    map[bitcoin.TransactionOutpoint]bool // outpoints used as inputs (confirmed or mempool)
	deposits map[bitcoin.TransactionOutpoint]bool // revealed deposits
	requests map[bitcoin.TransactionOutpoint]bool // moved funds sweep requests
	ownTxs   int
	valid    bool
}

func c34Script(kind string, pkh [20]byte) bitcoin.Script {
	var s bitcoin.Script
	var err error
	if kind == "pkh" {
		s, err = bitcoin.PayToPublicKeyHash(pkh)
	} else {
		s, err = bitcoin.PayToWitnessPublicKeyHash(pkh)
	}
	if err != nil {
		panic(err)
	}
	return s
}

func c34External(serial int, tag byte) *bitcoin.TransactionOutpoint {
	var h bitcoin.Hash
	h[0], h[1], h[2] = tag, byte(serial), 0x34
	h[31] = 0xee
	return &bitcoin.TransactionOutpoint{TransactionHash: h, OutputIndex: uint32(serial % 3)}
}

const c34Value = 5000

// c34Build constructs the world for a history string; ok=false when the history is
// not constructible (R/F without a main UTXO).
func c34Build(history string, mempool int) *c34World {
	w := &c34World{
		spent:    map[bitcoin.TransactionOutpoint]bool{},
		deposits: map[bitcoin.TransactionOutpoint]bool{},
		requests: map[bitcoin.TransactionOutpoint]bool{},
		valid:    true,
	}
	var main *bitcoin.TransactionOutpoint
	in := func(op *bitcoin.TransactionOutpoint) *bitcoin.TransactionInput {
		return &bitcoin.TransactionInput{Outpoint: op, Sequence: 0xffffffff}
	}
	out := func(kind string, pkh [20]byte) *bitcoin.TransactionOutput {
		return &bitcoin.TransactionOutput{Value: c34Value, PublicKeyScript: c34Script(kind, pkh)}
	}
	for i := 0; i < len(history); i++ {
		k := history[i]
		t := &bitcoin.Transaction{Version: 1}
		ct := &c34Tx{kind: k, mempool: i >= len(history)-mempool}
		ownOut := -1
		switch k {
		case 'a':
			t.Inputs = []*bitcoin.TransactionInput{in(c34External(i, 0xa0))}
			t.Outputs = []*bitcoin.TransactionOutput{out("wpkh", c34Wallet)}
		case 'b':
			t.Inputs = []*bitcoin.TransactionInput{in(c34External(i, 0xb0))}
			t.Outputs = []*bitcoin.TransactionOutput{out("wpkh", c34Other), out("pkh", c34Wallet)}
		case 'c':
			t.Inputs = []*bitcoin.TransactionInput{in(c34External(i, 0xc0))}
			t.Outputs = []*bitcoin.TransactionOutput{out("pkh", c34Wallet), out("wpkh", c34Wallet)}
		case 'D':
			dep := c34External(i, 0xd0)
			w.deposits[*dep] = true
			if main != nil {
				t.Inputs = append(t.Inputs, in(main))
			}
			t.Inputs = append(t.Inputs, in(dep))
			t.Outputs = []*bitcoin.TransactionOutput{out("wpkh", c34Wallet)}
			ct.own, ct.sweep, ownOut = true, true, 0
		case 'M':
			req := c34External(i, 0xe0)
			w.requests[*req] = true
			t.Inputs = append(t.Inputs, in(req))
			if main != nil {
				t.Inputs = append(t.Inputs, in(main))
			}
			t.Outputs = []*bitcoin.TransactionOutput{out("pkh", c34Wallet)}
			ct.own, ct.sweep, ownOut = true, true, 0
		case 'R':
			if main == nil {
				w.valid = false
				return w
			}
			t.Inputs = []*bitcoin.TransactionInput{in(main)}
			t.Outputs = []*bitcoin.TransactionOutput{out("wpkh", c34Other), out("wpkh", c34Wallet)}
			ct.own, ownOut = true, 1
		case 'F':
			if main == nil {
				w.valid = false
				return w
			}
			t.Inputs = []*bitcoin.TransactionInput{in(main)}
			t.Outputs = []*bitcoin.TransactionOutput{out("wpkh", c34Other)}
			ct.own = true
		case 'x':
			dep := c34External(i, 0xf0)
			w.deposits[*dep] = true
			t.Inputs = []*bitcoin.TransactionInput{in(dep)}
			t.Inputs[0].Sequence = 0xfffffffe
			t.Locktime = 1700000000
			t.Outputs = []*bitcoin.TransactionOutput{out("wpkh", c34Wallet)}
		default:
			panic("c34: unknown template")
		}
		ct.tx, ct.hash = t, t.Hash()
		for _, ti := range t.Inputs {
			w.spent[*ti.Outpoint] = true
		}
		if ct.own {
			w.ownTxs++
			main = nil
			if ownOut >= 0 {
				main = &bitcoin.TransactionOutpoint{TransactionHash: ct.hash, OutputIndex: uint32(ownOut)}
			}
		}
		wp, ww := c34Script("pkh", c34Wallet), c34Script("wpkh", c34Wallet)
		for oi, o := range t.Outputs {
			w.outs = append(w.outs, c34Out{
				utxo: bitcoin.UnspentTransactionOutput{
					Outpoint: &bitcoin.TransactionOutpoint{TransactionHash: ct.hash, OutputIndex: uint32(oi)},
					Value:    o.Value,
				},
				txIdx:   len(w.txs),
				wallet:  bytes.Equal(o.PublicKeyScript, wp) || bytes.Equal(o.PublicKeyScript, ww),
				mempool: ct.mempool,
			})
		}
		w.txs = append(w.txs, ct)
	}
	return w
}

func c34Hash(u *bitcoin.UnspentTransactionOutput) [32]byte {
	var buf bytes.Buffer
	buf.Write(u.Outpoint.TransactionHash[:])
	binary.Write(&buf, binary.BigEndian, u.Outpoint.OutputIndex)
	binary.Write(&buf, binary.BigEndian, uint64(u.Value))
	return sha256.Sum256(buf.Bytes())
}

// ---- fakes over the world -------------------------------------------------------

type c34Btc struct {
	bitcoin.Chain
	w              *c34World
	reverseMempool bool
	// failTx: GetTransaction fails for this transaction (index into w.txs), -1 = none
	failTx int
}

func (b *c34Btc) touchesWallet(t *c34Tx, idx int) bool {
	for _, o := range b.w.outs {
		if o.txIdx == idx && o.wallet {
			return true
		}
	}
	// spends a wallet output (Electrum script histories list spending transactions too)
	for _, ti := range t.tx.Inputs {
		for _, o := range b.w.outs {
			if o.wallet && *o.utxo.Outpoint == *ti.Outpoint {
				return true
			}
		}
	}
	return false
}

func (b *c34Btc) GetTxHashesForPublicKeyHash(pkh [20]byte) ([]bitcoin.Hash, error) {
	var hs []bitcoin.Hash
	if pkh != c34Wallet {
		return hs, nil
	}
	for i, t := range b.w.txs {
		if !t.mempool && b.touchesWallet(t, i) {
			hs = append(hs, t.hash)
		}
	}
	return hs, nil
}

func (b *c34Btc) GetTransaction(h bitcoin.Hash) (*bitcoin.Transaction, error) {
	for i, t := range b.w.txs {
		if t.hash == h && i == b.failTx {
			return nil, fmt.Errorf("transaction lookup failed")
		}
		if t.hash == h {
			return t.tx, nil
		}
	}
	return nil, fmt.Errorf("transaction not found")
}

func (b *c34Btc) utxos(pkh [20]byte, mempool bool) []*bitcoin.UnspentTransactionOutput {
	var us []*bitcoin.UnspentTransactionOutput
	if pkh != c34Wallet {
		return us
	}
	for i := range b.w.outs {
		o := b.w.outs[i]
		if o.wallet && o.mempool == mempool && !b.w.spent[*o.utxo.Outpoint] {
			u := o.utxo
			us = append(us, &bitcoin.UnspentTransactionOutput{
				Outpoint: &bitcoin.TransactionOutpoint{TransactionHash: u.Outpoint.TransactionHash, OutputIndex: u.Outpoint.OutputIndex},
				Value:    u.Value,
			})
		}
	}
	return us
}

func (b *c34Btc) GetUtxosForPublicKeyHash(pkh [20]byte) ([]*bitcoin.UnspentTransactionOutput, error) {
	return b.utxos(pkh, false), nil
}

func (b *c34Btc) GetMempoolUtxosForPublicKeyHash(pkh [20]byte) ([]*bitcoin.UnspentTransactionOutput, error) {
	us := b.utxos(pkh, true)
	if b.reverseMempool {
		for i, j := 0, len(us)-1; i < j; i, j = i+1, j-1 {
			us[i], us[j] = us[j], us[i]
		}
	}
	return us, nil
}

type c34Bridge struct {
	BridgeChain
	w          *c34World
	registered [32]byte
}

func (b *c34Bridge) GetWallet(pkh [20]byte) (*WalletChainData, error) {
	if pkh != c34Wallet {
		return nil, fmt.Errorf("no wallet for given PKH")
	}
	return &WalletChainData{MainUtxoHash: b.registered, State: StateLive}, nil
}

func (b *c34Bridge) ComputeMainUtxoHash(u *bitcoin.UnspentTransactionOutput) [32]byte {
	return c34Hash(u)
}

func (b *c34Bridge) GetDepositRequest(h bitcoin.Hash, idx uint32) (*DepositChainRequest, bool, error) {
	if b.w.deposits[bitcoin.TransactionOutpoint{TransactionHash: h, OutputIndex: idx}] {
		return &DepositChainRequest{}, true, nil
	}
	return nil, false, nil
}

func (b *c34Bridge) GetMovedFundsSweepRequest(h bitcoin.Hash, idx uint32) (*MovedFundsSweepRequest, bool, error) {
	if b.w.requests[bitcoin.TransactionOutpoint{TransactionHash: h, OutputIndex: idx}] {
		return &MovedFundsSweepRequest{}, true, nil
	}
	return nil, false, nil
}

// ---- one case -------------------------------------------------------------------

type c34Case struct {
	History    string `json:"history"`
	Mempool    int    `json:"mempool"`    // the last n transactions are unconfirmed
	Registered int    `json:"registered"` // see c34Registered
	Reverse    bool   `json:"reverse_mempool_utxos"`
}

// c34Registered enumerates the registered main UTXO hashes for a world:
// 0 zero hash; 1..n hash of the n-th wallet output of a confirmed transaction;
// then: unrelated hash, first wallet output with a wrong value, first non-wallet
// output, first wallet output of a mempool transaction.
func c34Registered(w *c34World) (hashes [][32]byte, labels []string) {
	hashes = append(hashes, [32]byte{})
	labels = append(labels, "zero")
	var firstWallet, firstOther, firstMempool *bitcoin.UnspentTransactionOutput
	for i := range w.outs {
		o := w.outs[i]
		u := o.utxo
		switch {
		case o.wallet && !o.mempool:
			hashes = append(hashes, c34Hash(&u))
			labels = append(labels, fmt.Sprintf("wallet-output tx%d:%d", o.txIdx, u.Outpoint.OutputIndex))
			if firstWallet == nil {
				firstWallet = &u
			}
		case o.wallet && o.mempool && firstMempool == nil:
			firstMempool = &u
		case !o.wallet && !o.mempool && firstOther == nil:
			firstOther = &u
		}
	}
	hashes = append(hashes, [32]byte{0x77, 0x01})
	labels = append(labels, "unrelated")
	if firstWallet != nil {
		x := *firstWallet
		x.Value++
		hashes = append(hashes, c34Hash(&x))
		labels = append(labels, "wallet-output-wrong-value")
	}
	if firstOther != nil {
		hashes = append(hashes, c34Hash(firstOther))
		labels = append(labels, "non-wallet-output")
	}
	if firstMempool != nil {
		hashes = append(hashes, c34Hash(firstMempool))
		labels = append(labels, "mempool-wallet-output")
	}
	return
}

func c34SameUtxo(a, b *bitcoin.UnspentTransactionOutput) bool {
	return a.Outpoint.TransactionHash == b.Outpoint.TransactionHash &&
		a.Outpoint.OutputIndex == b.Outpoint.OutputIndex && a.Value == b.Value
}

type c34Result struct {
	determine, ensure string
	probeBlocked      bool
}

func c34Run(r *vrep.R, c c34Case, w *c34World, probe bool) (res c34Result) {
	hashes, labels := c34Registered(w)
	registered := hashes[c.Registered]
	btc := &c34Btc{w: w, reverseMempool: c.Reverse, failTx: -1}
	bridge := &c34Bridge{w: w, registered: registered}
	fp := fmt.Sprintf("history=%s mempool=%d registered=%s reverse=%v", c.History, c.Mempool, labels[c.Registered], c.Reverse)
	size := len(c.History)*100 + c.Mempool*10 + c.Registered
	report := func(kind, what string) {
		if probe {
			return
		}
		r.ViolationMin(kind, size, fp, what, c)
	}

	// --- reference: the wallet output of the confirmed history whose hash is registered
	var want *bitcoin.UnspentTransactionOutput
	if registered != ([32]byte{}) {
		for i := range w.outs {
			o := w.outs[i]
			if o.wallet && !o.mempool && c34Hash(&o.utxo) == registered {
				u := o.utxo
				want = &u
			}
		}
	}

	var got *bitcoin.UnspentTransactionOutput
	var err error
	if p, stack := vrep.Guard(func() {
		got, err = DetermineWalletMainUtxo(c34Wallet, bridge, btc)
	}); p != nil {
		report("determine:panic", fmt.Sprintf("DetermineWalletMainUtxo panicked: %v\n%s", p, stack))
		res.determine = "panic"
		return
	}
	switch {
	case registered == ([32]byte{}):
		res.determine = "none-registered"
		if got != nil || err != nil {
			report("determine:zero", fmt.Sprintf("nothing is registered but the lookup returned utxo=%v err=%v", got, err))
			return
		}
	case want != nil:
		res.determine = "found"
		if err != nil || got == nil {
			report("determine:missed", fmt.Sprintf("registered hash is the hash of wallet output %s:%d in the history, lookup returned utxo=%v err=%v",
				want.Outpoint.TransactionHash.Hex(bitcoin.ReversedByteOrder)[:8], want.Outpoint.OutputIndex, got, err))
			return
		}
		if !c34SameUtxo(got, want) {
			report("determine:wrong", fmt.Sprintf("lookup returned %s:%d value %d, the registered hash belongs to %s:%d value %d",
				got.Outpoint.TransactionHash.Hex(bitcoin.ReversedByteOrder)[:8], got.Outpoint.OutputIndex, got.Value,
				want.Outpoint.TransactionHash.Hex(bitcoin.ReversedByteOrder)[:8], want.Outpoint.OutputIndex, want.Value))
			return
		}
	default:
		// registered but no wallet output of the confirmed history has that hash: the
		// statement does not say what happens; returning some UTXO is wrong though
		res.determine = "not-in-history"
		if got != nil {
			report("determine:invented", fmt.Sprintf("no wallet output of the history has the registered hash, yet the lookup returned %s:%d",
				got.Outpoint.TransactionHash.Hex(bitcoin.ReversedByteOrder)[:8], got.Outpoint.OutputIndex))
		}
		return // callers stop on the error; without a main UTXO the sync clause does not apply
	}

	// --- sync check, called like the wallet actions do: with the determined UTXO
	if got == nil && w.ownTxs >= 2 {
		// unreachable: nothing registered although the wallet made two transactions (the
		// second one would itself have been stopped by this check)
		res.ensure = "skipped-unreachable"
		return
	}
	var serr error
	if p, stack := vrep.Guard(func() {
		serr = EnsureWalletSyncedBetweenChains(c34Wallet, got, bridge, btc)
	}); p != nil {
		report("sync:panic", fmt.Sprintf("EnsureWalletSyncedBetweenChains panicked: %v\n%s", p, stack))
		res.ensure = "panic"
		return
	}
	if got != nil {
		unspent := !w.spent[*want.Outpoint]
		if unspent {
			res.ensure = "main-unspent"
		} else {
			res.ensure = "main-spent"
		}
		if unspent && serr != nil {
			report("sync:false-alarm", fmt.Sprintf("the main UTXO is unspent (no confirmed or mempool transaction uses it) but the check failed: %v", serr))
		}
		if !unspent && serr == nil {
			report("sync:missed-spend", "the main UTXO is spent by a confirmed or mempool transaction but the check passed")
		}
		return
	}
	// fresh wallet: does an unspent wallet output come from an own sweep transaction?
	ownSweepUnspent := false
	anyUnspent := false
	for i := range w.outs {
		o := w.outs[i]
		if o.wallet && !w.spent[*o.utxo.Outpoint] {
			anyUnspent = true
			if w.txs[o.txIdx].sweep {
				ownSweepUnspent = true
			}
		}
	}
	switch {
	case ownSweepUnspent:
		res.ensure = "fresh-first-tx-made"
	case anyUnspent:
		res.ensure = "fresh-only-spam"
	default:
		res.ensure = "fresh-empty"
	}
	if probe {
		res.probeBlocked = !ownSweepUnspent && serr != nil
		return
	}
	if ownSweepUnspent && serr == nil {
		report("sync:fresh-missed", "an unspent wallet output comes from the wallet's own sweep transaction but the check passed")
	}
	if ownSweepUnspent {
		// the same question while the Bitcoin client cannot serve one of the
		// transactions: the check may fail for either reason but must not pass
		for k := range w.txs {
			fb := &c34Btc{w: w, reverseMempool: c.Reverse, failTx: k}
			var ferr error
			if p, stack := vrep.Guard(func() { ferr = EnsureWalletSyncedBetweenChains(c34Wallet, nil, bridge, fb) }); p != nil {
				report("sync:panic", fmt.Sprintf("EnsureWalletSyncedBetweenChains panicked when the lookup of transaction %d fails: %v\n%s", k, p, stack))
			} else if ferr == nil {
				report("sync:fresh-missed-on-lookup-failure", fmt.Sprintf("an unspent wallet output comes from the wallet's own sweep transaction; with the lookup of transaction %d (mempool=%v) failing the check passed", k, w.txs[k].mempool))
			}
		}
	}
	if !ownSweepUnspent && serr != nil {
		report("sync:fresh-false-alarm", fmt.Sprintf("no unspent wallet output comes from an own sweep transaction but the check failed: %v", serr))
	}
	return
}

func c34Histories(alphabet string, maxLen int) []string {
	out := []string{""}
	var gen func(p string)
	gen = func(p string) {
		if len(p) == maxLen {
			return
		}
		for i := 0; i < len(alphabet); i++ {
			q := p + alphabet[i:i+1]
			out = append(out, q)
			gen(q)
		}
	}
	gen("")
	return out
}

func TestVerifC34(t *testing.T) {
	r := vrep.Start(t, "C34", "wallet")
	defer r.Finish()
	if rd := r.ReplayData(); rd != nil {
		var c c34Case
		if json.Unmarshal(rd, &c) == nil {
			w := c34Build(c.History, c.Mempool)
			if w.valid {
				hs, _ := c34Registered(w)
				if c.Registered < len(hs) {
					r.Eval(1)
					res := c34Run(r, c, w, false)
					r.Outcome("determine:" + res.determine)
					r.Outcome("sync:" + res.ensure)
				}
			}
		}
		return
	}
	maxLen, maxMempool := 4, 2
	if r.Thorough() {
		maxLen = 5
	}
	histories := c34Histories("abcDMRF", maxLen)
	r.Set("histories", len(histories))
	r.Sample(map[string]any{"history": "aDcR", "mempool": 1, "registered": "hash of the sweep output (tx1:0)"})
	vrep.Parallel(vrep.Workers(), len(histories), func(i int) {
		if r.Expired() {
			return
		}
		h := histories[i]
		evals := 0
		outcomes := map[string]bool{}
		for mp := 0; mp <= maxMempool && mp <= len(h); mp++ {
			w := c34Build(h, mp)
			if !w.valid {
				r.Add("histories_not_constructible", 1)
				break
			}
			walletOuts := 0
			for _, o := range w.outs {
				if o.wallet {
					walletOuts++
				}
			}
			hashes, _ := c34Registered(w)
			for reg := range hashes {
				for _, rev := range []bool{false, true} {
					if rev && mp < 2 {
						continue
					}
					c := c34Case{h, mp, reg, rev}
					res := c34Run(r, c, w, false)
					evals++
					outcomes["determine:"+res.determine] = true
					if res.ensure != "" {
						outcomes["sync:"+res.ensure] = true
					}
					// non-trivial: the lookup / the check had to tell several wallet outputs apart
					if walletOuts >= 2 {
						r.Distinct(fmt.Sprintf("%s|%d|%d|%v", h, mp, reg, rev))
					}
				}
			}
		}
		r.Eval(evals)
		for k := range outcomes {
			r.Outcome(k)
		}
	})

	// Long histories: the wallet's main UTXO buried under many later transactions that
	// pay the wallet address (spam, dust): the lookup must still find it, however far back.
	for _, h := range []string{
		"D" + strings.Repeat("a", 11), "aD" + strings.Repeat("b", 12), "DR" + strings.Repeat("c", 15),
		"M" + strings.Repeat("abc", 8), "aDcR" + strings.Repeat("a", 40),
	} {
		for mp := 0; mp <= 1; mp++ {
			w := c34Build(h, mp)
			if !w.valid {
				r.Add("histories_not_constructible", 1)
				continue
			}
			hashes, _ := c34Registered(w)
			for reg := range hashes {
				c := c34Case{h, mp, reg, false}
				res := c34Run(r, c, w, false)
				r.Eval(1)
				r.Distinct(fmt.Sprintf("%s|%d|%d|long", h, mp, reg))
				r.Outcome("determine:" + res.determine)
			}
		}
	}

	// Probe (not part of the verdict, see NOTES.md): a third party refunds a revealed
	// deposit to the wallet address at output 0. Counted, never reported as violation.
	probeBlocked, probeCases := 0, 0
	for _, h := range c34Histories("ax", 2) {
		if !strings.Contains(h, "x") {
			continue
		}
		w := c34Build(h, 0)
		res := c34Run(r, c34Case{h, 0, 0, false}, w, true)
		probeCases++
		if res.probeBlocked {
			probeBlocked++
		}
	}
	r.Set("probe.refund_to_wallet_cases", probeCases)
	r.Set("probe.refund_to_wallet_blocks_fresh_wallet", probeBlocked)
}
