//go:build verif

package sortition

// C42, unit "moving": checkOperatorStatus against a chain that moves on while the code
// waits. sortition.go is recompiled with time.* routed to the virtual clock; every Sleep
// the code makes inside a check is reported to the fake chain, which then forgets all the
// answers it gave: the chain state after a wait is a new one (somebody else may have
// updated the operator, inserted it into the pool, the pool may have been unlocked ...),
// decided again when the code asks again. A request made after a wait is judged against
// the state at the time of the request: conditions the code read again after its last
// wait have the value it was given; conditions it did not read again can have either
// value - both are enumerated (choice points), so a request that relies on an answer
// from before the wait is reported for the history in which the answer is no longer true.
// A check that never waits is judged exactly as in unit "pool".

import (
	"encoding/json"
	"fmt"
	"strings"
	"testing"

	"github.com/keep-network/keep-core/internal/testutils"
	"github.com/keep-network/keep-core/pkg/chain"
	"github.com/keep-network/keep-core/pkg/verifshim/venum"
	"github.com/keep-network/keep-core/pkg/verifshim/vrep"
	"github.com/keep-network/keep-core/pkg/verifshim/vtime"
	"math/big"
)

// c42MaxWaits: after that many waits inside one check the pool is unlocked for good (the
// lock lasts for one group creation), which keeps the histories finite for code that
// polls the lock.
const c42MaxWaits = 6

type c42MovReq struct {
	kind   int
	view   c42View // chain state at the time of the request (completed, see above)
	waits  int
	stale  []string // conditions not read again after the last wait, with the value enumerated
}

type c42Moving struct {
	c     *venum.C
	q     [c42NQ]byte
	asked [c42NQ]bool
	waits int
	reqs  []c42MovReq
	log   []string
	other int
}

func (f *c42Moving) slept(vtime.Duration) {
	f.waits++
	f.log = append(f.log, "~wait")
	for i := range f.q {
		f.q[i], f.asked[i] = '?', false
	}
}

func (f *c42Moving) query(i int) (bool, error) {
	if f.q[i] == '?' {
		menu := "TFE"
		if i == c42QLocked && f.waits >= c42MaxWaits {
			menu = "FE"
		}
		f.q[i] = menu[f.c.Choose(len(menu), c42QNames[i])]
	}
	f.asked[i] = true
	f.log = append(f.log, fmt.Sprintf("%s=%c", c42QNames[i], f.q[i]))
	switch f.q[i] {
	case 'T':
		return true, nil
	case 'F':
		return false, nil
	}
	return false, c42ErrQuery
}

// relevant lists the conditions the permission of a request kind depends on.
func c42Relevant(kind int) []int {
	switch kind {
	case c42TJoin:
		return []int{c42QInPool, c42QUpToDate, c42QLocked, c42QChaosnet, c42QBeta}
	case c42TUpdate:
		return []int{c42QInPool, c42QUpToDate, c42QLocked}
	}
	return []int{c42QCanRestore}
}

func (f *c42Moving) request(kind int) error {
	rq := c42MovReq{kind: kind, view: c42View{q: f.q, asked: f.asked}, waits: f.waits}
	if f.waits > 0 {
		// the state at the time of the request: what was not read again after the last
		// wait may be true or false by now
		for _, i := range c42Relevant(kind) {
			if rq.view.q[i] == '?' {
				rq.view.q[i] = "TF"[f.c.Choose(2, "now:"+c42QNames[i])]
				rq.view.asked[i] = true
				rq.stale = append(rq.stale, fmt.Sprintf("%s=%c", c42QNames[i], rq.view.q[i]))
			}
		}
	}
	f.reqs = append(f.reqs, rq)
	ok := f.c.Choose(2, c42TNames[kind]) == 0
	f.log = append(f.log, fmt.Sprintf("%s!%v", c42TNames[kind], ok))
	if ok {
		return nil
	}
	return c42ErrTx
}

func (f *c42Moving) OperatorToStakingProvider() (chain.Address, bool, error) {
	f.other++
	return "0xprovider", true, nil
}
func (f *c42Moving) EligibleStake(chain.Address) (*big.Int, error) {
	f.other++
	return big.NewInt(0), nil
}
func (f *c42Moving) GetOperatorID(chain.Address) (chain.OperatorID, error) {
	f.other++
	return 0, nil
}
func (f *c42Moving) IsPoolLocked() (bool, error)         { return f.query(c42QLocked) }
func (f *c42Moving) IsOperatorInPool() (bool, error)     { return f.query(c42QInPool) }
func (f *c42Moving) IsOperatorUpToDate() (bool, error)   { return f.query(c42QUpToDate) }
func (f *c42Moving) IsEligibleForRewards() (bool, error) { return f.query(c42QEligible) }
func (f *c42Moving) CanRestoreRewardEligibility() (bool, error) {
	return f.query(c42QCanRestore)
}
func (f *c42Moving) IsChaosnetActive() (bool, error) { return f.query(c42QChaosnet) }
func (f *c42Moving) IsBetaOperator() (bool, error)   { return f.query(c42QBeta) }
func (f *c42Moving) JoinSortitionPool() error        { return f.request(c42TJoin) }
func (f *c42Moving) UpdateOperatorStatus() error     { return f.request(c42TUpdate) }
func (f *c42Moving) RestoreRewardEligibility() error { return f.request(c42TRestore) }

var _ Chain = (*c42Moving)(nil)

type c42MovReplay struct {
	Moving bool  `json:"moving"`
	Script []int `json:"script"`
	NPol   int   `json:"npol"`
}

func c42MovingBody(r *vrep.R, npol int) func(c *venum.C) {
	return func(c *venum.C) {
		policy := c.Choose(npol, "policy")
		spec := c42Policies[policy]
		f := &c42Moving{c: c}
		for i := range f.q {
			f.q[i] = '?'
		}
		lg := &testutils.MockLogger{}
		pol := spec.build(f, lg)
		vtime.SleepHook = f.slept
		var ret error
		p, stack := vrep.Guard(func() { ret = checkOperatorStatus(lg, f, pol) })
		vtime.SleepHook = nil
		hist := fmt.Sprintf("policy=%s: %s", spec.Name, strings.Join(f.log, " "))
		rp := c42MovReplay{Moving: true, Script: c.Script(), NPol: npol}
		r.Eval(1)
		r.Transition(len(f.log))
		if p != nil {
			r.ViolationMin("moving:panic", len(f.log), hist, fmt.Sprintf("panic: %v\n%s", p, stack), rp)
			return
		}
		for _, rq := range f.reqs {
			v := rq.view
			switch st := c42Permit(rq.kind, spec, &v); st {
			case c42Bad, c42Err:
				what := fmt.Sprintf("%s requested although %s", c42TNames[rq.kind], c42Why(rq.kind, spec, &v))
				if len(rq.stale) > 0 {
					what += fmt.Sprintf(" by the time of the request (after %d wait(s) the code did not read again: %s)", rq.waits, strings.Join(rq.stale, ", "))
				}
				r.ViolationMin("moving:"+c42TShort[rq.kind], len(f.log), hist, what+"; history: "+hist, rp)
			}
		}
		cls := fmt.Sprintf("moving: waits=%d requests=%d error=%v", c42Min(f.waits, 2), len(f.reqs), ret != nil)
		r.Outcome(cls)
		r.State(hist)
		if len(f.log) >= 2 {
			r.Distinct(hist)
		}
		if f.waits > 0 {
			r.Add("checks_that_waited", 1)
		}
	}
}

func c42Min(a, b int) int {
	if a < b {
		return a
	}
	return b
}

func TestVerifC42Moving(t *testing.T) {
	r := vrep.Start(t, "C42", "moving")
	defer r.Finish()
	if rd := r.ReplayData(); rd != nil {
		var rp c42MovReplay
		if json.Unmarshal(rd, &rp) == nil && rp.Moving {
			venum.Replay(rp.Script, 0, c42MovingBody(r, rp.NPol))
		}
		return
	}
	npol := 5
	if r.Thorough() {
		npol = len(c42Policies)
	}
	st := venum.Explore(venum.Options{Bound: 0, Workers: 1, Stop: r.Expired}, c42MovingBody(r, npol))
	r.Set("moving_histories", st.Runs)
	if st.Stopped {
		r.Cap("moving: enumeration not completed")
	}
}
