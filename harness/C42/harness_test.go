//go:build verif

package sortition

// C42 — Sortition pool status changes are only requested when permitted.
//
// The real checkOperatorStatus / checkRewardsEligibility / MonitorPool (initial,
// synchronous check only) and the real join policies run against a fake Chain whose
// answers are the enumerated ground-truth state of the chain. Every query and every
// transaction request is logged; the oracle judges every request against the chain
// state of the check it was made in. See NOTES.md.

import (
	"context"
	"encoding/json"
	"errors"
	"fmt"
	"math/big"
	"runtime/debug"
	"sort"
	"strconv"
	"strings"
	"sync"
	"testing"
	"time"

	"github.com/ipfs/go-log"

	"github.com/keep-network/keep-core/internal/testutils"
	"github.com/keep-network/keep-core/pkg/chain"
	"github.com/keep-network/keep-core/pkg/verifshim/venum"
	"github.com/keep-network/keep-core/pkg/verifshim/vrep"
)

// ---- alphabet ---------------------------------------------------------------------

const (
	c42QInPool = iota
	c42QUpToDate
	c42QLocked
	c42QEligible
	c42QCanRestore
	c42QChaosnet
	c42QBeta
	c42NQ
)

const (
	c42TJoin = iota
	c42TUpdate
	c42TRestore
	c42NT
)

var c42QNames = [c42NQ]string{"IsOperatorInPool", "IsOperatorUpToDate", "IsPoolLocked",
	"IsEligibleForRewards", "CanRestoreRewardEligibility", "IsChaosnetActive", "IsBetaOperator"}
var c42TNames = [c42NT]string{"JoinSortitionPool", "UpdateOperatorStatus", "RestoreRewardEligibility"}
var c42TShort = [c42NT]string{"join", "update", "restore"}

// c42Tick is the MonitorPool tick used by the "monitor" operation: it never fires, the
// context is cancelled before the call, so only the synchronous part of MonitorPool
// (registration lookup + the initial checkOperatorStatus) is exercised.
const c42Tick = 24 * 365 * time.Hour

var c42ErrQuery = errors.New("c42: chain query failed")
var c42ErrTx = errors.New("c42: transaction failed")

// c42Step is one check of a history: the operation and the chain state it ran against.
// Q: one char per query in c42QNames order: T, F, E (the query fails when asked) or
// ? (never asked in a lazily enumerated step: value immaterial for the execution).
// Tx: one char per transaction in c42TNames order: o (succeeds), f (fails), ?.
// Reg (monitor only): R registered, N not registered, E lookup fails, ? not asked.
type c42Step struct {
	Op  string `json:"op"` // status | rewards | monitor
	Q   string `json:"q"`
	Tx  string `json:"tx"`
	Reg string `json:"reg,omitempty"`
	// Log is the observed sequence of queries/answers and requests (informative; it is
	// compared when a prefix is re-executed to reconstruct a state).
	Log string `json:"log,omitempty"`
}

// c42Case is a whole history (and the replay payload).
type c42Case struct {
	Policy int       `json:"policy"`
	Name   string    `json:"policy_name"`
	Steps  []c42Step `json:"steps"`
}

func (c c42Case) String() string {
	var b strings.Builder
	fmt.Fprintf(&b, "policy=%s", c.Name)
	for i, s := range c.Steps {
		fmt.Fprintf(&b, " | %d:%s q=%s tx=%s", i, s.Op, s.Q, s.Tx)
		if s.Reg != "" {
			fmt.Fprintf(&b, " reg=%s", s.Reg)
		}
	}
	return b.String()
}

// ---- policies ---------------------------------------------------------------------

type c42PolSpec struct {
	Name string
	Kind byte // 'u' unconditional, 'b' beta operator, 'c' conjunction
	Subs []c42PolSpec
}

var (
	c42PolU = c42PolSpec{Name: "unconditional", Kind: 'u'}
	c42PolB = c42PolSpec{Name: "beta", Kind: 'b'}
)

var c42Policies = []c42PolSpec{
	c42PolU,
	c42PolB,
	{Name: "conj(unconditional,beta)", Kind: 'c', Subs: []c42PolSpec{c42PolU, c42PolB}},
	{Name: "conj(beta,unconditional)", Kind: 'c', Subs: []c42PolSpec{c42PolB, c42PolU}},
	{Name: "conj()", Kind: 'c'},
	{Name: "conj(beta,beta)", Kind: 'c', Subs: []c42PolSpec{c42PolB, c42PolB}},
	{Name: "conj(conj(unconditional),beta)", Kind: 'c', Subs: []c42PolSpec{
		{Name: "conj(unconditional)", Kind: 'c', Subs: []c42PolSpec{c42PolU}}, c42PolB}},
}

// build constructs the REAL policy objects of policy.go.
func (p c42PolSpec) build(ch Chain, lg log.StandardLogger) JoinPolicy {
	switch p.Kind {
	case 'u':
		return UnconditionalJoinPolicy
	case 'b':
		return NewBetaOperatorPolicy(ch, lg)
	}
	subs := make([]JoinPolicy, 0, len(p.Subs))
	for _, s := range p.Subs {
		subs = append(subs, s.build(ch, lg))
	}
	return NewConjunctionPolicy(subs...)
}

// ---- four-valued permission logic ---------------------------------------------------
//
// c42OK     the true chain state satisfies the condition
// c42Benign the true value is unknown and the code did not learn anything about it
//
//	(query would fail but was not asked / lazily enumerated step, not asked)
//
// c42Err    the code asked the query and RECEIVED an error
// c42Bad    the true chain state does not satisfy the condition
//
// AND = max, OR = min in this order. A request is a violation when its permission
// evaluates to c42Bad (not permitted) or c42Err (made after an erroring prerequisite).
const (
	c42OK = iota
	c42Benign
	c42Err
	c42Bad
)

func c42And(a ...int) int {
	m := c42OK
	for _, x := range a {
		if x > m {
			m = x
		}
	}
	return m
}

func c42Or(a, b int) int {
	if a < b {
		return a
	}
	return b
}

type c42View struct {
	q     [c42NQ]byte
	asked [c42NQ]bool
}

func (v *c42View) lit(i int, want byte) int {
	switch v.q[i] {
	case '?':
		return c42Benign
	case 'E':
		if v.asked[i] {
			return c42Err
		}
		return c42Benign
	}
	if v.q[i] == want {
		return c42OK
	}
	return c42Bad
}

// allow is the reference model of the join policies (doc comments of policy.go):
// unconditional: always; beta: chaosnet inactive OR beta operator; conjunction: all.
func (p c42PolSpec) allow(v *c42View) int {
	switch p.Kind {
	case 'u':
		return c42OK
	case 'b':
		return c42Or(v.lit(c42QChaosnet, 'F'), v.lit(c42QBeta, 'T'))
	}
	r := c42OK
	for _, s := range p.Subs {
		r = c42And(r, s.allow(v))
	}
	return r
}

// c42Permit is the property statement.
func c42Permit(kind int, pol c42PolSpec, v *c42View) int {
	switch kind {
	case c42TJoin:
		return c42And(v.lit(c42QInPool, 'F'), v.lit(c42QUpToDate, 'F'), v.lit(c42QLocked, 'F'), pol.allow(v))
	case c42TUpdate:
		return c42And(v.lit(c42QInPool, 'T'), v.lit(c42QUpToDate, 'F'), v.lit(c42QLocked, 'F'))
	}
	return v.lit(c42QCanRestore, 'T')
}

// c42Why names the conditions that fail (for messages).
func c42Why(kind int, pol c42PolSpec, v *c42View) string {
	var out []string
	add := func(i int, want byte) {
		switch v.lit(i, want) {
		case c42Bad:
			out = append(out, fmt.Sprintf("%s is %c", c42QNames[i], v.q[i]))
		case c42Err:
			out = append(out, fmt.Sprintf("%s returned an error", c42QNames[i]))
		}
	}
	switch kind {
	case c42TJoin:
		add(c42QInPool, 'F')
		add(c42QUpToDate, 'F')
		add(c42QLocked, 'F')
		if a := pol.allow(v); a == c42Bad || a == c42Err {
			out = append(out, fmt.Sprintf("policy %s does not allow it (IsChaosnetActive=%c asked=%v, IsBetaOperator=%c asked=%v)",
				pol.Name, v.q[c42QChaosnet], v.asked[c42QChaosnet], v.q[c42QBeta], v.asked[c42QBeta]))
		}
	case c42TUpdate:
		add(c42QInPool, 'T')
		add(c42QUpToDate, 'F')
		add(c42QLocked, 'F')
	default:
		add(c42QCanRestore, 'T')
	}
	return strings.Join(out, ", ")
}

// ---- fake chain ---------------------------------------------------------------------

type c42Req struct {
	kind  int
	asked [c42NQ]bool // which queries the code had asked when it made the request
}

type c42Chain struct {
	q     [c42NQ]byte
	tx    [c42NT]byte
	reg   byte
	lazy  *venum.C // non-nil: '?' entries are decided (and fixed for the step) when asked
	asked [c42NQ]bool
	reqs  []c42Req
	log   []byte
	miss  bool // a '?' entry was asked without a chooser: replay divergence
	other int  // calls outside the alphabet
}

func (f *c42Chain) begin(s c42Step) {
	copy(f.q[:], s.Q)
	copy(f.tx[:], s.Tx)
	f.reg = '?'
	if s.Reg != "" {
		f.reg = s.Reg[0]
	}
	f.asked = [c42NQ]bool{}
	f.reqs = f.reqs[:0]
	f.log = f.log[:0]
}

func (f *c42Chain) record(op string) c42Step {
	s := c42Step{Op: op, Q: string(f.q[:]), Tx: string(f.tx[:]), Log: string(f.log)}
	if op == "monitor" {
		s.Reg = string(f.reg)
	}
	return s
}

func (f *c42Chain) query(i int) (bool, error) {
	if f.q[i] == '?' {
		if f.lazy == nil {
			f.miss = true
			return false, c42ErrQuery
		}
		f.q[i] = "TFE"[f.lazy.Choose(3, c42QNames[i])]
	}
	f.asked[i] = true
	f.log = append(f.log, byte('a'+i), f.q[i])
	switch f.q[i] {
	case 'T':
		return true, nil
	case 'F':
		return false, nil
	}
	// the zero value accompanies the error, as in the generated contract bindings
	return false, c42ErrQuery
}

func (f *c42Chain) request(i int) error {
	if f.tx[i] == '?' {
		if f.lazy == nil {
			f.miss = true
			return c42ErrTx
		}
		f.tx[i] = "of"[f.lazy.Choose(2, c42TNames[i])]
	}
	f.reqs = append(f.reqs, c42Req{kind: i, asked: f.asked})
	f.log = append(f.log, byte('J'+i), f.tx[i])
	if f.tx[i] == 'o' {
		return nil
	}
	return c42ErrTx
}

func (f *c42Chain) OperatorToStakingProvider() (chain.Address, bool, error) {
	if f.reg == '?' {
		if f.lazy == nil {
			f.miss = true
			return "", false, c42ErrQuery
		}
		f.reg = "RNE"[f.lazy.Choose(3, "OperatorToStakingProvider")]
	}
	f.log = append(f.log, 'p', f.reg)
	switch f.reg {
	case 'R':
		return "0xprovider", true, nil
	case 'N':
		return "", false, nil
	}
	return "", false, c42ErrQuery
}

func (f *c42Chain) EligibleStake(chain.Address) (*big.Int, error) {
	f.other++
	return big.NewInt(0), nil
}
func (f *c42Chain) GetOperatorID(chain.Address) (chain.OperatorID, error) {
	f.other++
	return 0, nil
}
func (f *c42Chain) IsPoolLocked() (bool, error)       { return f.query(c42QLocked) }
func (f *c42Chain) IsOperatorInPool() (bool, error)   { return f.query(c42QInPool) }
func (f *c42Chain) IsOperatorUpToDate() (bool, error) { return f.query(c42QUpToDate) }
func (f *c42Chain) IsEligibleForRewards() (bool, error) {
	return f.query(c42QEligible)
}
func (f *c42Chain) CanRestoreRewardEligibility() (bool, error) {
	return f.query(c42QCanRestore)
}
func (f *c42Chain) IsChaosnetActive() (bool, error) { return f.query(c42QChaosnet) }
func (f *c42Chain) IsBetaOperator() (bool, error)   { return f.query(c42QBeta) }
func (f *c42Chain) JoinSortitionPool() error        { return f.request(c42TJoin) }
func (f *c42Chain) UpdateOperatorStatus() error     { return f.request(c42TUpdate) }
func (f *c42Chain) RestoreRewardEligibility() error { return f.request(c42TRestore) }

var _ Chain = (*c42Chain)(nil)

// ---- running and judging ------------------------------------------------------------

type c42H struct {
	r      *vrep.R
	mu     sync.Mutex
	ferr   string              // first infrastructure error (reported with t.Fatalf at the end)
	trans  map[string]struct{} // lazily enumerated steps already counted as transitions
	groups map[string]struct{} // (policy, requests so far) groups whose pre-states are recorded
}

func (h *c42H) fail(format string, a ...any) {
	h.mu.Lock()
	if h.ferr == "" {
		h.ferr = fmt.Sprintf(format, a...)
	}
	h.mu.Unlock()
}

func (h *c42H) failed() string {
	h.mu.Lock()
	defer h.mu.Unlock()
	return h.ferr
}

// c42World is one fresh chain + policy (the objects a client would hold for its life).
type c42World struct {
	ch     *c42Chain
	spec   c42PolSpec
	pol    JoinPolicy
	lg     *testutils.MockLogger
	counts [c42NT]int // requests made so far in this history
}

func c42NewWorld(policy int, lazy *venum.C) *c42World {
	w := &c42World{ch: &c42Chain{lazy: lazy, log: make([]byte, 0, 32), reqs: make([]c42Req, 0, 4)}, spec: c42Policies[policy], lg: &testutils.MockLogger{}}
	w.pol = w.spec.build(w.ch, w.lg)
	return w
}

// renew starts a new history on FRESH objects: new policy objects and a new fake chain
// (so that nothing keyed by object identity can leak from one history into the next);
// only the chain's log buffers are recycled (first touch of fresh memory is very
// expensive on the verification host, so the hot loop keeps its garbage small).
func (w *c42World) renew() {
	w.ch = &c42Chain{lazy: w.ch.lazy, log: w.ch.log[:0], reqs: w.ch.reqs[:0]}
	w.counts = [c42NT]int{}
	w.pol = w.spec.build(w.ch, w.lg)
}

func (w *c42World) sig() string {
	return fmt.Sprintf("j%du%dr%d", w.counts[0], w.counts[1], w.counts[2])
}

// run executes one step on the REAL code and returns the error it returned.
func (h *c42H) run(w *c42World, s c42Step) (ret error) {
	w.ch.begin(s)
	defer func() {
		// same as vrep.Guard, without a heap-allocated closure per step
		if p := recover(); p != nil {
			h.fail("panic in step %+v: %v\n%s", s, p, debug.Stack())
		}
	}()
	switch s.Op {
	case "status":
		ret = checkOperatorStatus(w.lg, w.ch, w.pol)
	case "rewards":
		ret = checkRewardsEligibility(w.lg, w.ch)
	case "monitor":
		ctx, cancel := context.WithCancel(context.Background())
		cancel()
		ret = MonitorPool(ctx, w.lg, w.ch, c42Tick, w.pol)
	default:
		panic("c42: unknown op " + s.Op)
	}
	return ret
}

// c42Tally collects outcome classes locally (the reporter's mutex is too hot to be
// taken several times per case); flush reports every class observed and its count.
const (
	c42CMade = iota
	c42CMadeTwice
	c42CPermittedNotMade
	c42CNotPermittedNotMade
	c42CMadeUnknown
	c42CViolNotPermitted
	c42CViolAfterError
	c42NC
)

var c42CNames = [c42NC]string{"made", "made-more-than-once", "permitted-but-not-made",
	"not-permitted-not-made", "made-on-unknown-state", "VIOLATION-not-permitted", "VIOLATION-after-query-error"}
var c42Ops = [3]string{"status", "rewards", "monitor"}

func c42OpIndex(op string) int {
	switch op {
	case "status":
		return 0
	case "rewards":
		return 1
	}
	return 2
}

type c42Tally struct {
	cls            [3][c42NT][c42NC]int64
	ret            [3][2]int64
	outside        int64 // calls to Chain methods outside the alphabet
	restoreOutside int64 // status/monitor: restore requested for an operator not (in pool and ineligible)
}

func (t *c42Tally) flush(r *vrep.R) {
	for o := range t.cls {
		for k := range t.cls[o] {
			for c, n := range t.cls[o][k] {
				if n > 0 {
					name := c42Ops[o] + " " + c42TShort[k] + ":" + c42CNames[c]
					r.Outcome(name)
					r.Add("n."+name, n)
				}
			}
		}
		for e, n := range t.ret[o] {
			if n > 0 {
				name := c42Ops[o] + " returns " + [2]string{"nil", "error"}[e]
				r.Outcome(name)
				r.Add("n."+name, n)
			}
		}
	}
	if t.outside > 0 {
		r.Outcome("call-outside-alphabet")
	}
	// DESIGN's stronger reading (restore only for an in-pool, ineligible operator); the
	// statement does not say so: counted, not a violation.
	r.Add("restore_outside_inpool_and_ineligible", t.restoreOutside)
	*t = c42Tally{}
}

// judge applies the oracle to the step that just ran on w.ch (step idx of the history
// that mk() renders) and adds the requests it made to w.counts.
func (h *c42H) judge(w *c42World, t *c42Tally, op string, idx int, ret error, mk func() c42Case) {
	ch := w.ch
	o := c42OpIndex(op)
	if ch.other > 0 {
		t.outside++
	}
	var made [c42NT]int
	for _, q := range ch.reqs {
		made[q.kind]++
		v := &c42View{q: ch.q, asked: q.asked}
		st := c42Permit(q.kind, w.spec, v)
		switch st {
		case c42Bad, c42Err:
			class, c := "not-permitted", c42CViolNotPermitted
			if st == c42Err {
				class, c = "after-query-error", c42CViolAfterError
			}
			cs := mk()
			what := fmt.Sprintf("step %d (%s, policy %s): %s requested although %s; chain state q=%s (order %s), observed: %s",
				idx, op, w.spec.Name, c42TNames[q.kind], c42Why(q.kind, w.spec, v), string(ch.q[:]),
				strings.Join(c42QNames[:], ","), c42LogString(ch.log))
			h.r.ViolationMin(c42TShort[q.kind]+":"+class+":"+op, len(cs.Steps)*100+cs.Policy, cs.String(), what, cs)
			t.cls[o][q.kind][c]++
		case c42Benign:
			t.cls[o][q.kind][c42CMadeUnknown]++
		}
		if q.kind == c42TRestore && op != "rewards" && !(ch.q[c42QInPool] == 'T' && ch.q[c42QEligible] == 'F') {
			t.restoreOutside++
		}
	}
	final := &c42View{q: ch.q, asked: ch.asked}
	for k := 0; k < c42NT; k++ {
		if op == "rewards" && k != c42TRestore && made[k] == 0 {
			continue
		}
		switch {
		case made[k] > 1:
			t.cls[o][k][c42CMadeTwice]++
		case made[k] == 1:
			t.cls[o][k][c42CMade]++
		case c42Permit(k, w.spec, final) == c42OK:
			t.cls[o][k][c42CPermittedNotMade]++
		default:
			t.cls[o][k][c42CNotPermittedNotMade]++
		}
		w.counts[k] += made[k]
	}
	if ret != nil {
		t.ret[o][1]++
	} else {
		t.ret[o][0]++
	}
}

func c42LogString(l []byte) string {
	var b strings.Builder
	for i := 0; i+1 < len(l); i += 2 {
		if i > 0 {
			b.WriteByte(' ')
		}
		switch c := l[i]; {
		case c == 'p':
			fmt.Fprintf(&b, "OperatorToStakingProvider=%c", l[i+1])
		case c >= 'a' && c < 'a'+c42NQ:
			fmt.Fprintf(&b, "%s=%c", c42QNames[c-'a'], l[i+1])
		default:
			fmt.Fprintf(&b, "%s!%c", c42TNames[c-'J'], l[i+1])
		}
	}
	return b.String()
}

// answered counts the queries of the last step that returned a value (no error).
func (f *c42Chain) answered() int {
	n := 0
	for i := 0; i < c42NQ; i++ {
		if f.asked[i] && f.q[i] != 'E' {
			n++
		}
	}
	return n
}

// ---- lazily enumerated histories ----------------------------------------------------

// c42Lazy explores every distinguishable history of `steps` checks: the chain answers
// are decided when the real code asks (venum choice points), so two chain states that
// the code cannot tell apart in a step are one execution. Every step is judged (queries
// never asked count as "unknown": no verdict depends on them). Returns the histories.
func (h *c42H) lazy(npol, steps int) []c42Case {
	r := h.r
	var mu sync.Mutex
	var out []c42Case
	venum.Explore(venum.Options{Bound: 0, Workers: vrep.Workers(), Stop: r.Expired}, func(c *venum.C) {
		policy := c.Choose(npol, "policy")
		w := c42NewWorld(policy, c)
		cs := c42Case{Policy: policy, Name: w.spec.Name}
		var tally c42Tally
		var key strings.Builder
		fmt.Fprintf(&key, "L|%d", policy)
		for s := 0; s < steps; s++ {
			ops := c42Ops[:2]
			if s == 0 {
				ops = c42Ops[:3]
			}
			op := ops[c.Choose(len(ops), "op")]
			before := w.sig()
			ret := h.run(w, c42Step{Op: op, Q: "???????", Tx: "???"})
			st := w.ch.record(op)
			cs.Steps = append(cs.Steps, st)
			fmt.Fprintf(&key, "|%s,%s,%s,%s", op, st.Q, st.Tx, st.Reg)
			h.mu.Lock()
			_, seen := h.trans[key.String()]
			if !seen {
				h.trans[key.String()] = struct{}{}
			}
			h.mu.Unlock()
			if seen {
				// shared prefix re-executed by the stateless search: already judged
				for _, q := range w.ch.reqs {
					w.counts[q.kind]++
				}
				continue
			}
			// state = (policy, requests so far, chain state as far as it is observable)
			r.State(fmt.Sprintf("%d|%s|%s%s%s", policy, before, st.Q, st.Tx, st.Reg))
			r.Transition(1)
			h.judge(w, &tally, op, s, ret, func() c42Case { return cs })
			r.State(fmt.Sprintf("%d|%s|end", policy, w.sig()))
			if w.ch.answered() >= 2 {
				r.Distinct(key.String())
			}
		}
		tally.flush(r)
		r.Eval(1)
		r.Sample(cs)
		mu.Lock()
		out = append(out, cs)
		mu.Unlock()
	})
	sort.Slice(out, func(i, j int) bool { return out[i].String() < out[j].String() })
	return out
}

// ---- full chain-state vectors for the last check --------------------------------------

// c42Full runs, for one prefix history and one final operation, the final check
// against EVERY chain state vector {T,F,E}^7 x {ok,fail}^3 (x {R,N,E} for monitor),
// each on fresh objects with the prefix re-executed first.
func (h *c42H) full(item int, prefix c42Case, op string) {
	r := h.r
	regs := []string{""}
	if op == "monitor" {
		regs = []string{"R", "N", "E"}
	}
	var tally c42Tally
	ends := map[[c42NT]int]struct{}{}
	evals := 0
	stateGroup := ""
	recordStates := false
	qb := make([]byte, c42NQ)
	var txs [1 << c42NT]string
	for txm := range txs {
		tb := make([]byte, c42NT)
		for i := 0; i < c42NT; i++ {
			tb[i] = "of"[txm>>uint(i)&1]
		}
		txs[txm] = string(tb)
	}
	w := c42NewWorld(prefix.Policy, nil)
	var st c42Step // the final step of the case being executed
	mk := func() c42Case {
		st.Log = string(w.ch.log)
		cs := c42Case{Policy: prefix.Policy, Name: prefix.Name}
		cs.Steps = append(append(cs.Steps, prefix.Steps...), st)
		return cs
	}
	venum.Tuples(c42NQ, 3, func(qt []int) bool {
		if r.Expired() {
			return false
		}
		for i, x := range qt {
			qb[i] = "TFE"[x]
		}
		qs := string(qb)
		nontrivial := false
		for _, ts := range txs {
			for _, reg := range regs {
				w.renew()
				for _, ps := range prefix.Steps {
					h.run(w, ps)
					if w.ch.miss || string(w.ch.log) != ps.Log {
						h.fail("NONDETERMINISM: prefix step %+v re-executed as %q (miss=%v)", ps, c42LogString(w.ch.log), w.ch.miss)
						return false
					}
					for _, q := range w.ch.reqs {
						w.counts[q.kind]++
					}
				}
				if stateGroup == "" {
					// the state before the final check is (policy, requests so far, chain
					// vector); only the first work item of a (policy, requests so far)
					// group records them, the others would only repeat the same keys
					stateGroup = fmt.Sprintf("%d|%s|", prefix.Policy, w.sig())
					h.mu.Lock()
					g := stateGroup + fmt.Sprint(op == "monitor")
					if _, done := h.groups[g]; !done {
						h.groups[g] = struct{}{}
						recordStates = true
					}
					h.mu.Unlock()
				}
				st = c42Step{Op: op, Q: qs, Tx: ts, Reg: reg}
				ret := h.run(w, st)
				if recordStates {
					r.State(stateGroup + qs + ts + reg)
				}
				h.judge(w, &tally, op, len(prefix.Steps), ret, mk)
				ends[w.counts] = struct{}{}
				if w.ch.answered() >= 2 {
					nontrivial = true
				}
				evals++
			}
		}
		if nontrivial {
			// distinct non-trivial case = (history, final operation, chain query vector)
			// for which the code received at least two answers it had to combine; the
			// transaction results / registration answers are variants of that case
			r.Distinct("F" + strconv.Itoa(item) + "|" + qs)
		}
		return true
	})
	for e := range ends {
		r.State(fmt.Sprintf("%d|j%du%dr%d|end", prefix.Policy, e[0], e[1], e[2]))
	}
	tally.flush(r)
	r.Transition(evals)
	r.Eval(evals)
}

// ---- entry point ----------------------------------------------------------------------

func TestVerifC42(t *testing.T) {
	r := vrep.Start(t, "C42", "pool")
	defer r.Finish()
	h := &c42H{r: r, trans: map[string]struct{}{}, groups: map[string]struct{}{}}
	defer func() {
		if e := h.failed(); e != "" {
			t.Fatalf("%s", e)
		}
	}()

	if rd := r.ReplayData(); rd != nil {
		var cs c42Case
		if json.Unmarshal(rd, &cs) != nil || len(cs.Steps) == 0 {
			return
		}
		if cs.Policy < 0 || cs.Policy >= len(c42Policies) {
			t.Fatalf("c42: bad policy index in replay")
		}
		w := c42NewWorld(cs.Policy, nil)
		cs.Name = w.spec.Name
		var tally c42Tally
		for i, s := range cs.Steps {
			ret := h.run(w, s)
			if w.ch.miss {
				t.Fatalf("c42: replay asked a query the recorded step did not answer: %+v", s)
			}
			t.Logf("replay step %d %s q=%s tx=%s reg=%s: %s -> returned %v", i, s.Op, s.Q, s.Tx, s.Reg, c42LogString(w.ch.log), ret)
			r.Transition(1)
			h.judge(w, &tally, s.Op, i, ret, func() c42Case { return cs })
		}
		tally.flush(r)
		r.Eval(1)
		return
	}

	npol := 5
	if r.Thorough() {
		npol = len(c42Policies)
	}
	r.Set("policies", npol)

	type item struct {
		prefix c42Case
		op     string
	}
	var items []item
	// depth 1: every chain state vector, every operation, every policy
	for p := 0; p < npol; p++ {
		for _, op := range c42Ops {
			items = append(items, item{c42Case{Policy: p, Name: c42Policies[p].Name}, op})
		}
	}
	// depth 2: every distinguishable first status check x every chain state vector for a
	// second status check (thorough: first check also direct rewards / MonitorPool, second
	// check also a direct rewards check)
	pre1 := h.lazy(npol, 1)
	r.Set("lazy_histories_len1", len(pre1))
	for _, pc := range pre1 {
		if r.Thorough() {
			items = append(items, item{pc, "status"}, item{pc, "rewards"})
		} else if pc.Steps[0].Op == "status" {
			items = append(items, item{pc, "status"})
		}
	}
	// every distinguishable history of 2 checks (judged on the answers received)
	pre2 := h.lazy(npol, 2)
	r.Set("lazy_histories_len2", len(pre2))
	if r.Thorough() {
		// depth 3: every distinguishable pair of status checks x every chain state vector
		// for a third status check, for conj(unconditional,beta) (the policy that uses
		// all three policy types); and every distinguishable history of 3 checks for
		// all policies
		for _, pc := range pre2 {
			if pc.Policy == 2 && pc.Steps[0].Op == "status" && pc.Steps[1].Op == "status" {
				items = append(items, item{pc, "status"})
			}
		}
		l3 := h.lazy(npol, 3)
		r.Set("lazy_histories_len3", len(l3))
	}
	r.Set("full_vector_work_items", len(items))
	vrep.Parallel(vrep.Workers(), len(items), func(i int) {
		if r.Expired() || h.failed() != "" {
			return
		}
		h.full(i, items[i].prefix, items[i].op)
	})
}
