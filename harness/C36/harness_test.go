//go:build verif

package tbtc

import (
	"context"
	"encoding/hex"
	"encoding/json"
	"fmt"
	"math/big"
	"sort"
	"strings"
	"testing"

	"github.com/keep-network/keep-core/internal/testutils"
	"github.com/keep-network/keep-core/pkg/chain"
	"github.com/keep-network/keep-core/pkg/protocol/group"
	"github.com/keep-network/keep-core/pkg/tecdsa"
	"github.com/keep-network/keep-core/pkg/verifshim/vrep"
)

// ---- alphabet -------------------------------------------------------------------

// One heartbeat outcome. The environment of one heartbeatAction.execute() call is
// fully described by: is the operator unstaking, does the chain accept the proposal,
// does signing error out, and which members were active / inactive during signing.
type c36Outcome struct {
	name      string
	unstaking bool
	stakeErr  bool // the chain read of the eligible stake fails (RPC fault)
	invalid   bool
	signErr   bool
	active    int  // members 1..active announced readiness
	listed    bool // the activity report lists the remaining members as inactive
}

// Non-default environment answers always come with a *low activity* signing result, so
// that code which wrongly proceeds past the unstaking / validation gate is observable.
var c36Outcomes = []c36Outcome{
	{name: "S70", active: heartbeatSigningMinimumActiveMembers, listed: true},
	{name: "S100", active: 100, listed: true},
	{name: "L69", active: heartbeatSigningMinimumActiveMembers - 1, listed: true},
	{name: "L69e", active: heartbeatSigningMinimumActiveMembers - 1, listed: false},
	{name: "E", signErr: true, active: heartbeatSigningMinimumActiveMembers - 1, listed: true},
	{name: "U", unstaking: true, active: heartbeatSigningMinimumActiveMembers - 1, listed: true},
	{name: "I", invalid: true, active: heartbeatSigningMinimumActiveMembers - 1, listed: true},
	// the operator is unstaking and, on top of that, its stake cannot be read
	{name: "Uf", unstaking: true, stakeErr: true, active: heartbeatSigningMinimumActiveMembers - 1, listed: true},
}

// c36FailingStake is the local chain with a failing eligible-stake read.
type c36FailingStake struct{ *localChain }

func (c c36FailingStake) EligibleStake(chain.Address) (*big.Int, error) {
	return nil, fmt.Errorf("eligible stake cannot be read")
}

func (o c36Outcome) low() bool {
	return !o.unstaking && !o.invalid && !o.signErr && o.active < heartbeatSigningMinimumActiveMembers
}
func (o c36Outcome) success() bool {
	return !o.unstaking && !o.invalid && !o.signErr && o.active >= heartbeatSigningMinimumActiveMembers
}

const c36GroupSize = 100

type c36Step struct {
	W int `json:"w"` // wallet 0/1
	O int `json:"o"` // index into c36Outcomes
}

func c36HistString(h []c36Step) string {
	var b strings.Builder
	for _, s := range h {
		fmt.Fprintf(&b, "%d%s ", s.W, c36Outcomes[s.O].name)
	}
	return strings.TrimSpace(b.String())
}

// ---- fakes ----------------------------------------------------------------------

type c36Signer struct {
	o     c36Outcome
	calls int
}

func (s *c36Signer) sign(ctx context.Context, message *big.Int, startBlock uint64) (*tecdsa.Signature, *signingActivityReport, uint64, error) {
	s.calls++
	if s.o.signErr {
		return nil, nil, 0, fmt.Errorf("c36: signing failed")
	}
	rep := &signingActivityReport{}
	for i := 1; i <= c36GroupSize; i++ {
		if i <= s.o.active {
			rep.activeMembers = append(rep.activeMembers, group.MemberIndex(i))
		} else if s.o.listed {
			rep.inactiveMembers = append(rep.inactiveMembers, group.MemberIndex(i))
		}
	}
	return &tecdsa.Signature{R: big.NewInt(1), S: big.NewInt(2)}, rep, startBlock + 1, nil
}

type c36Claim struct {
	members []group.MemberIndex
	failed  bool
}

type c36Claimer struct{ claims []c36Claim }

func (c *c36Claimer) claimInactivity(ctx context.Context, inactive []group.MemberIndex, heartbeatFailed bool, sessionID *big.Int) error {
	c.claims = append(c.claims, c36Claim{append([]group.MemberIndex{}, inactive...), heartbeatFailed})
	return nil
}

var c36WalletKeys = func() [2]wallet {
	b, err := hex.DecodeString("0471e30bca60f6548d7b42582a478ea37ada63b402af7b3ddd57f0c95bb6843175" +
		"aa0d2053a91a050a6797d85c38f2909cb7027f2344a01986aa2f9f8ca7a0c289")
	if err != nil {
		panic(err)
	}
	k0 := unmarshalPublicKey(b)
	x, y := k0.Curve.Double(k0.X, k0.Y)
	k1 := *k0
	k1.X, k1.Y = x, y
	return [2]wallet{{publicKey: k0}, {publicKey: &k1}}
}()

func c36WalletKey(w int) string {
	b, err := marshalPublicKey(c36WalletKeys[w].publicKey)
	if err != nil {
		panic(err)
	}
	return hex.EncodeToString(b)
}

// c36Node is the part of a node that survives between heartbeats: the shared failure
// counter. Everything else is rebuilt per heartbeat exactly as node.go does.
type c36Node struct {
	counter *heartbeatFailureCounter
}

type c36StepResult struct {
	err    error
	claims []c36Claim
	signed int
	panic  any
	stack  string
}

func (n *c36Node) step(s c36Step) c36StepResult {
	o := c36Outcomes[s.O]
	// a distinct proposal per wallet, so that a validation answer cannot leak
	proposal := &HeartbeatProposal{Message: [16]byte{0xff, 0xff, 0xff, 0xff, 0xff, 0xff, 0xff, 0xff, 0, 0, 0, 0, 0, 0, 0, byte(1 + s.W)}}
	lc := &localChain{
		heartbeatProposalValidations: map[[16]byte]bool{},
		eligibleStakes:               map[chain.Address]*big.Int{},
	}
	if o.unstaking {
		lc.setOperatorsEligibleStake(big.NewInt(0))
	} else {
		lc.setOperatorsEligibleStake(big.NewInt(100000))
	}
	lc.setHeartbeatProposalValidationResult(proposal, !o.invalid)
	signer := &c36Signer{o: o}
	claimer := &c36Claimer{}
	startBlock := uint64(10)
	var hc Chain = lc
	if o.stakeErr {
		hc = c36FailingStake{lc}
	}
	action := newHeartbeatAction(
		&testutils.MockLogger{}, hc, c36WalletKeys[s.W], signer, proposal, n.counter, claimer,
		startBlock, startBlock+heartbeatTotalProposalValidityBlocks,
		func(ctx context.Context, blockHeight uint64) error { return nil },
	)
	var res c36StepResult
	res.panic, res.stack = vrep.Guard(func() { res.err = action.execute() })
	res.claims, res.signed = claimer.claims, signer.calls
	return res
}

// real counter state, canonical
func (n *c36Node) key() string {
	n.counter.mutex.Lock()
	defer n.counter.mutex.Unlock()
	names := map[string]string{c36WalletKey(0): "w0", c36WalletKey(1): "w1"}
	var parts []string
	for k, v := range n.counter.counters {
		nm, ok := names[k]
		if !ok {
			nm = "?" + k
		}
		if v != 0 || !ok {
			parts = append(parts, fmt.Sprintf("%s=%d", nm, v))
		}
	}
	sort.Strings(parts)
	return strings.Join(parts, ",")
}

// ---- reference model ------------------------------------------------------------

// c36Ref is the statement written out: per wallet the length of the current run of
// low-activity outcomes. A success ends the run. Signing errors, unstaking and an
// invalid proposal are not heartbeat results for the wallet: they neither extend nor end
// the run (the statement only names "a successful heartbeat" as what resets it).
type c36Ref struct{ run [2]int }

// apply returns whether a claim is permitted on this step and with which members.
func (m *c36Ref) apply(s c36Step) (claimAllowed bool, members []group.MemberIndex) {
	o := c36Outcomes[s.O]
	switch {
	case o.success():
		m.run[s.W] = 0
	case o.low():
		m.run[s.W]++
		if m.run[s.W] >= heartbeatConsecutiveFailureThreshold {
			claimAllowed = true
			if o.listed {
				for i := o.active + 1; i <= c36GroupSize; i++ {
					members = append(members, group.MemberIndex(i))
				}
			}
		}
	}
	return
}

func (m *c36Ref) key() string { return fmt.Sprintf("r%d/%d", m.run[0], m.run[1]) }

func c36SameMembers(a, b []group.MemberIndex) bool {
	if len(a) != len(b) {
		return false
	}
	x := append([]group.MemberIndex{}, a...)
	y := append([]group.MemberIndex{}, b...)
	sort.Slice(x, func(i, j int) bool { return x[i] < x[j] })
	sort.Slice(y, func(i, j int) bool { return y[i] < y[j] })
	for i := range x {
		if x[i] != y[i] {
			return false
		}
	}
	return true
}

// c36Run replays a history on a fresh node and checks every step against the
// reference. It returns the product state key reached and whether a violation was
// reported.
func c36Run(r *vrep.R, h []c36Step, checkFrom int) (state string, bad bool) {
	n := &c36Node{counter: newHeartbeatFailureCounter()}
	ref := &c36Ref{}
	for i, s := range h {
		o := c36Outcomes[s.O]
		res := n.step(s)
		allowed, members := ref.apply(s)
		if i < checkFrom {
			continue // prefix already checked when it was explored itself
		}
		report := func(kind, what string) {
			bad = true
			hist := h[:i+1]
			r.ViolationMin(kind, len(hist), kind+" after "+c36HistString(hist),
				fmt.Sprintf("history [%s] (wallet+outcome per heartbeat): %s; real counters {%s}, reference runs %s", c36HistString(hist), what, n.key(), ref.key()),
				append([]c36Step{}, hist...))
		}
		if res.panic != nil {
			report("panic", fmt.Sprintf("execute panicked: %v\n%s", res.panic, res.stack))
			continue
		}
		switch {
		case len(res.claims) > 1:
			report("claim-twice", fmt.Sprintf("%d inactivity claims in one heartbeat", len(res.claims)))
		case len(res.claims) == 1:
			c := res.claims[0]
			r.Outcome("claim")
			switch {
			case o.unstaking:
				report("claim-while-unstaking", "inactivity claimed although the operator is unstaking")
			case o.invalid:
				report("claim-on-invalid-proposal", "inactivity claimed although the proposal is invalid")
			case o.signErr:
				report("claim-on-signing-error", "inactivity claimed although signing did not succeed")
			case !o.low():
				report("claim-on-success", fmt.Sprintf("inactivity claimed although %d >= %d members were active", o.active, heartbeatSigningMinimumActiveMembers))
			case !allowed:
				report("claim-too-early", fmt.Sprintf("inactivity claimed on wallet %d after a run of only %d consecutive low-activity heartbeats (threshold %d)", s.W, ref.run[s.W], heartbeatConsecutiveFailureThreshold))
			default:
				if !c.failed {
					report("claim-not-marked-failed", "inactivity claim is not marked as a heartbeat failure")
				}
				if !c36SameMembers(c.members, members) {
					report("claim-wrong-members", fmt.Sprintf("claim names %v but the members that did not announce readiness are %v", c.members, members))
				}
			}
		default:
			switch {
			case allowed && o.listed:
				// the statement is an "only" statement: not claiming is never a violation;
				// counted so that the evidence shows how often escalation was due and skipped
				r.Outcome("due-but-no-claim")
				r.Add("escalation_due_but_not_claimed", 1)
			case allowed:
				r.Outcome("due-with-empty-inactive-set:no-claim")
			case o.low():
				r.Outcome("low:no-claim-yet")
			case o.success():
				r.Outcome("success")
			case o.unstaking:
				r.Outcome("unstaking:no-claim")
			case o.invalid:
				r.Outcome("invalid:no-claim")
			default:
				r.Outcome("signing-error:no-claim")
			}
		}
		if (o.unstaking || o.invalid) && res.signed > 0 {
			r.Add("signed_despite_gate", 1) // not part of the statement; informational
		}
	}
	return n.key() + "|" + ref.key(), bad
}

func TestVerifC36(t *testing.T) {
	r := vrep.Start(t, "C36", "escalation")
	defer r.Finish()
	if rd := r.ReplayData(); rd != nil {
		var h []c36Step
		if json.Unmarshal(rd, &h) == nil && len(h) > 0 {
			c36Run(r, h, 0)
			r.Eval(1)
		}
		return
	}
	seqLen, depth := 4, 9
	if r.Thorough() {
		seqLen, depth = 5, 14
	}
	var ops []c36Step
	for w := 0; w < 2; w++ {
		for o := range c36Outcomes {
			ops = append(ops, c36Step{w, o})
		}
	}

	// determinism gate: the same history on fresh objects twice must reach the same state
	{
		h := []c36Step{{0, 2}, {1, 2}, {0, 2}, {0, 4}, {0, 2}, {1, 0}, {0, 2}}
		a, _ := c36Run(r, h, len(h))
		b, _ := c36Run(r, h, len(h))
		if a != b {
			t.Fatalf("NONDETERMINISM: history %s reached %q and %q", c36HistString(h), a, b)
		}
		r.ReplayedTwice(1)
	}

	// (1) explicit-state BFS. State = (real counters, reference runs). The failure
	// counter is the only object that survives a heartbeat (node.go builds a fresh
	// action per heartbeat), and the oracle depends on the reference runs only, so
	// equal product keys have equal futures and a state needs expanding once.
	type node struct{ hist []c36Step }
	init, _ := c36Run(r, nil, 0)
	r.State(init)
	frontier := []node{{}}
	maxDepthReached := 0
	for d := 0; d < depth && len(frontier) > 0 && !r.Expired(); d++ {
		var next []node
		for _, nd := range frontier {
			for _, op := range ops {
				h := append(append([]c36Step{}, nd.hist...), op)
				key, _ := c36Run(r, h, len(h)-1)
				r.Eval(1)
				r.Transition(1)
				if r.State(key) {
					next = append(next, node{h})
				}
			}
		}
		frontier = next
		maxDepthReached = d + 1
	}
	r.Set("bfs_depth", maxDepthReached)
	if len(frontier) > 0 {
		r.Set("bfs_frontier_at_depth_bound", len(frontier))
	}

	// (2) every outcome sequence up to seqLen without state merging (does not rely on
	// the equal-futures argument). Work list = first two steps, dealt to workers.
	var prefixes [][]c36Step
	for _, a := range ops {
		prefixes = append(prefixes, []c36Step{a})
		for _, b := range ops {
			prefixes = append(prefixes, []c36Step{a, b})
		}
	}
	r.Sample(map[string]any{"history": c36HistString([]c36Step{{0, 2}, {1, 2}, {0, 2}, {0, 4}, {0, 2}}), "meaning": "wallet index + outcome per heartbeat; S70/S100 success, L69 low activity (31 inactive listed), L69e low activity with empty inactive set, E signing error, U unstaking, I invalid proposal, Uf unstaking and the stake read fails"})
	vrep.Parallel(vrep.Workers(), len(prefixes), func(i int) {
		p := prefixes[i]
		var rec func(h []c36Step)
		rec = func(h []c36Step) {
			if r.Expired() {
				return
			}
			c36Run(r, h, len(h)-1)
			r.Eval(1)
			lows := 0
			for _, s := range h {
				if c36Outcomes[s.O].low() {
					lows++
				}
			}
			if lows >= 2 {
				r.Distinct(c36HistString(h))
			}
			if len(h) == 1 && len(p) == 1 || len(h) >= seqLen {
				return
			}
			for _, op := range ops {
				rec(append(append([]c36Step{}, h...), op))
			}
		}
		if len(p) == 1 {
			rec(p) // length-1 histories: evaluated, not extended (the length-2 prefixes cover that)
		} else if seqLen >= 2 {
			rec(p)
		}
	})
	r.Set("sequence_length", seqLen)
}
