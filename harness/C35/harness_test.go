//go:build verif

package tbtc

import (
	"context"
	"encoding/json"
	"fmt"
	"math/big"
	"sort"
	"strings"
	"testing"
	"time"

	"github.com/keep-network/keep-core/internal/testutils"
	"github.com/keep-network/keep-core/pkg/chain"
	"github.com/keep-network/keep-core/pkg/net"
	"github.com/keep-network/keep-core/pkg/operator"
	"github.com/keep-network/keep-core/pkg/protocol/group"
	"github.com/keep-network/keep-core/pkg/tecdsa"
	"github.com/keep-network/keep-core/pkg/verifshim/vctx"
	"github.com/keep-network/keep-core/pkg/verifshim/vrep"
	"github.com/keep-network/keep-core/pkg/verifshim/vsched"
	"github.com/keep-network/keep-core/pkg/verifshim/vtime"
)

// ---- fakes -------------------------------------------------------------------------

// c35Signing maps a public key to an address one-to-one; nothing else is used by
// group.MembershipValidator.IsValidMembership.
type c35Signing struct{}

func (c35Signing) Address() chain.Address              { return "" }
func (c35Signing) PublicKey() []byte                   { return nil }
func (c35Signing) Sign([]byte) ([]byte, error)         { return nil, nil }
func (c35Signing) Verify([]byte, []byte) (bool, error) { return false, nil }
func (c35Signing) VerifyWithPublicKey([]byte, []byte, []byte) (bool, error) {
	return false, nil
}
func (c35Signing) PublicKeyToAddress(*operator.PublicKey) (chain.Address, error) {
	return "", fmt.Errorf("unused")
}
func (c35Signing) PublicKeyBytesToAddress(pk []byte) chain.Address {
	return chain.Address("op-" + string(pk))
}

func c35Key(member int) []byte { return []byte(fmt.Sprintf("k%d", member)) }

type c35NetMsg struct {
	pk      []byte
	payload interface{}
	seq     uint64
}

func (m *c35NetMsg) TransportSenderID() net.TransportIdentifier { return nil }
func (m *c35NetMsg) SenderPublicKey() []byte                    { return m.pk }
func (m *c35NetMsg) Payload() interface{}                       { return m.payload }
func (m *c35NetMsg) Type() string                               { return "tbtc/signing_done_message" }
func (m *c35NetMsg) Seqno() uint64                              { return m.seq }

// c35Chan is the broadcast channel handed to the done check: Recv stores the handler,
// the harness' network thread calls it.
type c35Chan struct {
	ctx     context.Context
	handler func(net.Message)
	sent    int
}

func (c *c35Chan) Name() string { return "c35" }
func (c *c35Chan) Send(context.Context, net.TaggedMarshaler, ...net.RetransmissionStrategy) error {
	c.sent++
	return nil
}
func (c *c35Chan) Recv(ctx context.Context, h func(net.Message)) { c.ctx, c.handler = ctx, h }
func (c *c35Chan) SetUnmarshaler(func() net.TaggedUnmarshaler)   {}
func (c *c35Chan) SetFilter(net.BroadcastChannelFilter) error    { return nil }

// ---- scenario ----------------------------------------------------------------------

const (
	c35GroupSize    = 4
	c35Attempt      = uint64(2)
	c35TimeoutBlock = uint64(1000)
)

var c35Message = big.NewInt(100)

// c35M is one completion message of a history.
//
//	ok    all fields right, signature A, end block 500+sender
//	edge  like ok but end block == attempt timeout block (still within the timeout)
//	sigB  like ok but a different signature
//	msg   other message; att: other attempt number; late: end block timeout+1;
//	nil   no signature; imp: sender id claimed with another member's public key;
//	junk  payload of another type
type c35M struct {
	Sender  int    `json:"s"`
	Variant string `json:"v"`
}

func (m c35M) String() string { return fmt.Sprintf("%s(%d)", m.Variant, m.Sender) }

type c35Scenario struct {
	Excluded int    `json:"excluded"` // the one member not included in the attempt
	History  []c35M `json:"history"`
	Timeouts []int  `json:"timeouts_ms"` // context expiry alternatives (check interval: 100 ms)
	// Prelude: members that confirmed the PREVIOUS attempt (attempt number - 1, same
	// message, same member set) on the same done-check instance before that attempt
	// timed out; the instance is then reused for this attempt, as the signing retry loop
	// does. Their old confirmations must not count for this attempt.
	Prelude []int `json:"prelude,omitempty"`
}

func (sc c35Scenario) String() string {
	var p []string
	for _, m := range sc.History {
		p = append(p, m.String())
	}
	pre := ""
	if len(sc.Prelude) > 0 {
		pre = fmt.Sprintf(" after-attempt-with-confirmations-from=%v", sc.Prelude)
	}
	return fmt.Sprintf("excluded=%d [%s]%s", sc.Excluded, strings.Join(p, " "), pre)
}

func (sc c35Scenario) included() []group.MemberIndex {
	var in []group.MemberIndex
	for i := 1; i <= c35GroupSize; i++ {
		if i != sc.Excluded {
			in = append(in, group.MemberIndex(i))
		}
	}
	return in
}

func c35SigA() *tecdsa.Signature {
	return &tecdsa.Signature{R: big.NewInt(200), S: big.NewInt(300), RecoveryID: 2}
}
func c35SigB() *tecdsa.Signature {
	return &tecdsa.Signature{R: big.NewInt(201), S: big.NewInt(300), RecoveryID: 2}
}

func c35Build(m c35M, seq int) net.Message {
	d := &signingDoneMessage{
		senderID:      group.MemberIndex(m.Sender),
		message:       new(big.Int).Set(c35Message),
		attemptNumber: c35Attempt,
		signature:     c35SigA(),
		endBlock:      500 + uint64(m.Sender),
	}
	pk := c35Key(m.Sender)
	var payload interface{} = d
	switch m.Variant {
	case "ok":
	case "edge":
		d.endBlock = c35TimeoutBlock
	case "sigB":
		d.signature = c35SigB()
	case "msg":
		d.message = big.NewInt(101)
	case "att":
		d.attemptNumber = c35Attempt + 1
	case "late":
		d.endBlock = c35TimeoutBlock + 1
	case "nil":
		d.signature = nil
	case "imp":
		pk = c35Key(m.Sender%c35GroupSize + 1)
	case "junk":
		payload = "not a done message"
	default:
		panic("c35: unknown variant " + m.Variant)
	}
	return &c35NetMsg{pk: pk, payload: payload, seq: uint64(seq)}
}

// c35Confirms reports whether the message is a confirmation in the sense of the
// property statement (same message and attempt, a signature, end block within the
// attempt timeout, really sent by the member it names) and returns its signature name
// and end block.
func c35Confirms(m c35M) (sig string, endBlock uint64, ok bool) {
	switch m.Variant {
	case "ok":
		return "A", 500 + uint64(m.Sender), true
	case "edge":
		return "A", c35TimeoutBlock, true
	case "sigB":
		return "B", 500 + uint64(m.Sender), true
	}
	return "", 0, false
}

type c35Obs struct {
	handed       []int // history positions handed to the receive handler, in order
	handedAtRet  int
	returned     bool
	sig          string // "A", "B", "nil", "?"
	endBlock     uint64
	errText      string
	timeoutMs    int
	signersAtRet string
}

func c35Body(sc c35Scenario, obs *c35Obs) func() {
	return func() {
		*obs = c35Obs{}
		ch := &c35Chan{}
		operators := make([]chain.Address, c35GroupSize)
		for i := range operators {
			operators[i] = chain.Address("op-" + string(c35Key(i+1)))
		}
		mv := group.NewMembershipValidator(&testutils.MockLogger{}, operators, c35Signing{})
		sdc := newSigningDoneCheck(c35GroupSize, ch, mv)

		if len(sc.Prelude) > 0 {
			ctx0, cancel0 := vctx.WithCancel(context.Background())
			sdc.listen(ctx0, c35Message, c35Attempt-1, c35TimeoutBlock, sc.included())
			for i, sender := range sc.Prelude {
				d := &signingDoneMessage{
					senderID:      group.MemberIndex(sender),
					message:       new(big.Int).Set(c35Message),
					attemptNumber: c35Attempt - 1,
					signature:     c35SigA(),
					endBlock:      400 + uint64(sender),
				}
				ch.handler(&c35NetMsg{pk: c35Key(sender), payload: d, seq: uint64(1000 + i)})
			}
			cancel0() // the previous attempt timed out
		}
		obs.timeoutMs = sc.Timeouts[vsched.Choose(len(sc.Timeouts), "ctxTimeout")]
		ctx, cancel := vctx.WithTimeout(context.Background(), time.Duration(obs.timeoutMs)*time.Millisecond)
		defer cancel()

		sdc.listen(ctx, c35Message, c35Attempt, c35TimeoutBlock, sc.included())

		vsched.GoNamed("net", func() {
			for i, m := range sc.History {
				// arrival time: optionally one check interval after the previous message
				if vsched.Choose(2, fmt.Sprintf("gap%d", i)) == 1 {
					vtime.Sleep(100 * time.Millisecond)
				}
				if ch.ctx.Err() != nil {
					return // the real channel unregisters the handler with its context
				}
				obs.handed = append(obs.handed, i)
				ch.handler(c35Build(m, i))
			}
		})

		res, endBlock, err := sdc.waitUntilAllDone(ctx)
		obs.returned = true
		obs.handedAtRet = len(obs.handed)
		obs.endBlock = endBlock
		if err != nil {
			obs.errText = err.Error()
		} else {
			switch {
			case res == nil || res.Signature == nil:
				obs.sig = "nil"
			case res.Signature.Equals(c35SigA()):
				obs.sig = "A"
			case res.Signature.Equals(c35SigB()):
				obs.sig = "B"
			default:
				obs.sig = "?"
			}
		}
		var ids []int
		for id := range sdc.doneSigners {
			ids = append(ids, int(id))
		}
		sort.Ints(ids)
		obs.signersAtRet = fmt.Sprint(ids)
	}
}

// c35Check is the oracle: success only if every included member has confirmed (in a
// message handed over before the result) with the reported signature, and the reported
// end block is the latest of the included members' end blocks. Errors and timeouts
// are always allowed (the statement only restricts when a signature is reported).
func c35Check(sc c35Scenario, obs *c35Obs) (kind, what string) {
	if !obs.returned {
		return "", ""
	}
	if obs.errText != "" {
		return "", ""
	}
	if obs.sig != "A" && obs.sig != "B" {
		return "bad-signature", fmt.Sprintf("a result was reported with signature %q", obs.sig)
	}
	// candidate end blocks per included member among confirmations with the reported signature
	possible := map[uint64]bool{0: true}
	first := true
	for _, in := range sc.included() {
		var ebs []uint64
		var otherSig, invalid []string
		for _, pos := range obs.handed[:obs.handedAtRet] {
			m := sc.History[pos]
			if m.Sender != int(in) {
				continue
			}
			sig, eb, ok := c35Confirms(m)
			switch {
			case !ok:
				invalid = append(invalid, m.String())
			case sig != obs.sig:
				otherSig = append(otherSig, m.String())
			default:
				ebs = append(ebs, eb)
			}
		}
		if len(ebs) == 0 {
			var who []string
			for _, pos := range obs.handed[:obs.handedAtRet] {
				who = append(who, sc.History[pos].String())
			}
			why := "sent nothing"
			if len(otherSig) > 0 {
				why = "confirmed a different signature " + strings.Join(otherSig, ",")
			} else if len(invalid) > 0 {
				why = "only sent " + strings.Join(invalid, ",") + " which is not a confirmation for this attempt"
			}
			kind := "missing-included-confirmation"
			if len(otherSig) > 0 {
				kind = "mismatching-signature-accepted"
			}
			return kind, fmt.Sprintf("signature %s reported (end block %d, confirmations counted from members %s) although included member %d %s; messages handed over before the result: [%s]",
				obs.sig, obs.endBlock, obs.signersAtRet, in, why, strings.Join(who, " "))
		}
		next := map[uint64]bool{}
		for p := range possible {
			for _, eb := range ebs {
				mx := p
				if eb > mx {
					mx = eb
				}
				next[mx] = true
			}
		}
		if first {
			next = map[uint64]bool{}
			for _, eb := range ebs {
				next[eb] = true
			}
			first = false
		}
		possible = next
	}
	if !possible[obs.endBlock] {
		var ps []int
		for p := range possible {
			ps = append(ps, int(p))
		}
		sort.Ints(ps)
		return "end-block", fmt.Sprintf("reported end block %d is not the latest of the included members' end blocks (possible: %v; confirmations counted from members %s)", obs.endBlock, ps, obs.signersAtRet)
	}
	return "", ""
}

// ---- enumeration -------------------------------------------------------------------

func c35Histories(alphabet []c35M, minLen, maxLen int) [][]c35M {
	var out [][]c35M
	var gen func(prefix []c35M)
	gen = func(prefix []c35M) {
		if len(prefix) >= minLen {
			out = append(out, append([]c35M{}, prefix...))
		}
		if len(prefix) == maxLen {
			return
		}
		for _, a := range alphabet {
			gen(append(prefix, a))
		}
	}
	gen(nil)
	return out
}

// c35Odd counts the messages that are not plain "ok" ones (to prefer the plainest
// counterexample among equally long ones).
func c35Odd(sc c35Scenario) int {
	n := 0
	for _, m := range sc.History {
		if m.Variant != "ok" {
			n++
		}
	}
	return n
}

type c35Replay struct {
	Scenario c35Scenario `json:"scenario"`
	Choices  []int       `json:"choices"`
	Bound    int         `json:"bound"`
}

func TestVerifC35(t *testing.T) {
	r := vrep.Start(t, "C35", "sched")
	defer r.Finish()
	var obs c35Obs
	opts := func(bound int) vsched.Options {
		return vsched.Options{Bound: bound, Horizon: 12, Stop: r.Expired}
	}
	evaluate := func(sc c35Scenario, bound int, s *vsched.Sched) {
		r.Eval(1)
		r.Transition(len(s.Choices()) + 1)
		outcome := "timeout"
		switch {
		case !obs.returned:
			outcome = "no-return"
		case obs.errText == "":
			outcome = "signature"
		case strings.Contains(obs.errText, "not matching"):
			outcome = "mismatch-error"
		case obs.errText != errWaitDoneTimedOut.Error():
			outcome = "other-error"
		}
		r.Outcome(outcome)
		r.State(fmt.Sprintf("%s|t=%d|handed=%v|%s|%s|%d|%s", sc, obs.timeoutMs, obs.handed[:obs.handedAtRet], outcome, obs.sig, obs.endBlock, obs.signersAtRet))
		rp := c35Replay{sc, s.Choices(), bound}
		fail := func(kind, what string) {
			r.ViolationMin(kind, len(sc.History)*10000+c35Odd(sc)*1000+len(s.Choices()), fmt.Sprintf("%s %s", kind, sc), what+" [scenario "+sc.String()+"; choices "+s.Trace()+"]", rp)
		}
		if p, stack := s.Failed(); p != nil {
			fail("panic", fmt.Sprintf("panic: %v\n%s", p, stack))
			return
		}
		if s.StepCapHit {
			r.Cap("step-cap")
			return
		}
		if s.HorizonHit {
			r.Cap("clock-horizon")
		}
		if len(s.Deadlock) > 0 {
			fail("deadlock", fmt.Sprintf("threads blocked forever: %v", s.Deadlock))
			return
		}
		if kind, what := c35Check(sc, &obs); kind != "" {
			fail(kind, what)
		}
	}
	if rd := r.ReplayData(); rd != nil {
		var rp c35Replay
		if json.Unmarshal(rd, &rp) == nil && rp.Scenario.Excluded != 0 {
			s := vsched.Replay(rp.Choices, opts(rp.Bound), c35Body(rp.Scenario, &obs))
			evaluate(rp.Scenario, rp.Bound, s)
			t.Logf("replayed %s: %+v", rp.Scenario, obs)
		}
		return
	}

	variants := []string{"ok", "edge", "sigB", "msg", "att", "late", "nil", "imp", "junk"}
	var full []c35M
	for s := 1; s <= c35GroupSize; s++ {
		for _, v := range variants {
			full = append(full, c35M{s, v})
		}
	}
	// reduced alphabet for the longer histories / deeper schedule bounds (excluded = 4)
	reduced := []c35M{{1, "ok"}, {2, "ok"}, {3, "ok"}, {4, "ok"}, {3, "sigB"}, {1, "edge"}, {2, "late"}, {4, "edge"}}

	small := []c35M{{1, "ok"}, {2, "ok"}, {3, "ok"}, {4, "ok"}, {3, "sigB"}}
	// twoOk: two included members' confirmations plus any one message at any position
	twoOkFor := func(excluded int) [][]c35M {
		var in []int
		for i := 1; i <= c35GroupSize; i++ {
			if i != excluded {
				in = append(in, i)
			}
		}
		var out [][]c35M
		for _, pair := range [][2]int{{in[0], in[1]}, {in[0], in[2]}, {in[1], in[2]}} {
			for _, m := range full {
				for pos := 0; pos < 3; pos++ {
					h := []c35M{{pair[0], "ok"}, {pair[1], "ok"}}
					h = append(h[:pos], append([]c35M{m}, h[pos:]...)...)
					out = append(out, h)
				}
			}
		}
		return out
	}

	type leg struct {
		name     string
		excluded []int
		hist     [][]c35M
		bound    int
	}
	var legs []leg
	timeouts := []int{50, 250}
	if r.Thorough() {
		timeouts = []int{50, 250, 450}
		legs = []leg{
			{"full<=3", []int{4}, c35Histories(full, 0, 3), 0},
			{"full<=2", []int{2}, c35Histories(full, 0, 2), 1},
			{"twoOk+any/4", []int{4}, twoOkFor(4), 2},
			{"twoOk+any/2", []int{2}, twoOkFor(2), 1},
			{"oks=3", []int{4}, c35Histories(small[:4], 3, 3), 3},
			{"small<=3", []int{4}, c35Histories(small, 1, 3), 2},
			{"reduced=3", []int{4}, c35Histories(reduced, 3, 3), 1},
			{"small=4", []int{4}, c35Histories(small, 4, 4), 1},
			{"small=5", []int{4}, c35Histories(small, 5, 5), 0},
		}
	} else {
		legs = []leg{
			{"full<=2", []int{4}, c35Histories(full, 0, 2), 0},
			{"twoOk+any/4", []int{4}, twoOkFor(4), 0},
			{"twoOk+any/2", []int{2}, twoOkFor(2), 0},
			{"oks=3", []int{4}, c35Histories(small[:4], 3, 3), 2},
			{"small=3", []int{4}, c35Histories(small, 3, 3), 1},
			{"small=4", []int{4}, c35Histories(small, 4, 4), 0},
		}
	}

	// determinism gate
	shard, _ := r.Shard()
	if shard == 0 {
		sc := c35Scenario{4, []c35M{{1, "ok"}, {2, "ok"}, {4, "ok"}, {3, "ok"}}, timeouts, nil}
		a := vsched.Replay(nil, opts(0), c35Body(sc, &obs))
		oa := fmt.Sprintf("%+v", obs)
		b := vsched.Replay(nil, opts(0), c35Body(sc, &obs))
		if !vsched.SameRun(a, b) || oa != fmt.Sprintf("%+v", obs) {
			t.Fatalf("NONDETERMINISM: two runs of the empty script differ: %s vs %+v", oa, obs)
		}
		r.ReplayedTwice(1)
		r.Sample(map[string]any{"scenario": sc.String(), "script": a.Choices(), "observed": oa})
	}

	idx := 0
	maxBound := 0
	for _, lg := range legs {
		if lg.bound > maxBound {
			maxBound = lg.bound
		}
		var execs int64
		for _, ex := range lg.excluded {
			for _, h := range lg.hist {
				idx++
				if !r.Mine(idx) || r.Expired() {
					continue
				}
				sc := c35Scenario{ex, h, timeouts, nil}
				if len(h) <= 2 {
					// short histories also run on an instance that already served the
					// previous, timed-out attempt with two confirmations
					var pre []int
					for m := 1; m <= c35GroupSize && len(pre) < 2; m++ {
						if m != ex {
							pre = append(pre, m)
						}
					}
					scp := c35Scenario{ex, h, timeouts, pre}
					stp := vsched.Explore(opts(lg.bound), c35Body(scp, &obs), func(s *vsched.Sched) { evaluate(scp, lg.bound, s) })
					execs += stp.Execs
					if stp.Stopped {
						r.Cap("leg " + lg.name + " not completed")
					}
				}
				confirms := 0
				for _, m := range h {
					if _, _, ok := c35Confirms(m); ok {
						confirms++
					}
				}
				if confirms >= 2 {
					r.Distinct(lg.name + "|" + sc.String())
				}
				st := vsched.Explore(opts(lg.bound), c35Body(sc, &obs), func(s *vsched.Sched) { evaluate(sc, lg.bound, s) })
				execs += st.Execs
				if st.Stopped {
					r.Cap("leg " + lg.name + " not completed")
				}
			}
		}
		r.Add("leg."+lg.name+".execs", execs)
		if shard == 0 { // numeric extras are summed over shards by vcheck
			r.Set("leg."+lg.name+".histories", len(lg.hist)*len(lg.excluded))
			r.Set("leg."+lg.name+".bound", lg.bound)
		}
	}
	if r.Expired() {
		r.Cap("deadline")
	}
	if shard == 0 {
		r.Set("max_preemption_bound", maxBound)
	}
}
