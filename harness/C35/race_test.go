//go:build verif

package tbtc

import (
	"context"
	"math/big"
	"sync"
	"testing"
	"time"

	"github.com/keep-network/keep-core/internal/testutils"
	"github.com/keep-network/keep-core/pkg/chain"
	"github.com/keep-network/keep-core/pkg/net"
	"github.com/keep-network/keep-core/pkg/protocol/group"
	"github.com/keep-network/keep-core/pkg/verifshim/vrep"
)

// c35RaceChan is a goroutine-safe variant of the fake channel for the free-running pass.
type c35RaceChan struct {
	mu      sync.Mutex
	ctx     context.Context
	handler func(net.Message)
}

func (c *c35RaceChan) Name() string { return "c35race" }
func (c *c35RaceChan) Send(context.Context, net.TaggedMarshaler, ...net.RetransmissionStrategy) error {
	return nil
}
func (c *c35RaceChan) Recv(ctx context.Context, h func(net.Message)) {
	c.mu.Lock()
	c.ctx, c.handler = ctx, h
	c.mu.Unlock()
}
func (c *c35RaceChan) SetUnmarshaler(func() net.TaggedUnmarshaler) {}
func (c *c35RaceChan) SetFilter(net.BroadcastChannelFilter) error  { return nil }
func (c *c35RaceChan) deliver(m net.Message) {
	c.mu.Lock()
	ctx, h := c.ctx, c.handler
	c.mu.Unlock()
	if ctx.Err() == nil {
		h(m)
	}
}

// Free-running pass under the race detector: the included members' confirmations
// arrive from a network goroutine spread over several check intervals while the member
// sits in waitUntilAllDone. Side condition of the scheduled unit (unsynchronised
// accesses are invisible to a cooperative scheduler), not the deciding enumeration.
func TestVerifC35Race(t *testing.T) {
	r := vrep.Start(t, "C35", "race")
	defer r.Finish()
	if r.ReplayData() != nil {
		return
	}
	rounds := 6
	if r.Thorough() {
		rounds = 60
	}
	operators := make([]chain.Address, c35GroupSize)
	for i := range operators {
		operators[i] = chain.Address("op-" + string(c35Key(i+1)))
	}
	for i := 0; i < rounds; i++ {
		ch := &c35RaceChan{}
		mv := group.NewMembershipValidator(&testutils.MockLogger{}, operators, c35Signing{})
		sdc := newSigningDoneCheck(c35GroupSize, ch, mv)
		ctx, cancel := context.WithTimeout(context.Background(), 2*time.Second)
		sc := c35Scenario{Excluded: 4}
		sdc.listen(ctx, big.NewInt(100), c35Attempt, c35TimeoutBlock, sc.included())
		// a stream of (mostly filtered-out) messages that keeps the listener busy across
		// the checks, with the three confirmations spread over it; built before the
		// network goroutine starts so that message construction happens-before every
		// reader and only the done check's own accesses can race
		msgs := make([]net.Message, 300)
		for k := range msgs {
			switch k {
			case 40:
				msgs[k] = c35Build(c35M{1, "ok"}, k)
			case 140:
				msgs[k] = c35Build(c35M{2, "ok"}, k)
			case 240:
				msgs[k] = c35Build(c35M{3, "ok"}, k)
			default:
				msgs[k] = c35Build(c35M{1 + k%3, "att"}, k)
			}
		}
		var wg sync.WaitGroup
		wg.Add(1)
		go func() {
			defer wg.Done()
			for _, m := range msgs {
				ch.deliver(m)
				time.Sleep(time.Millisecond)
			}
		}()
		res, _, err := sdc.waitUntilAllDone(ctx)
		cancel()
		wg.Wait()
		r.Eval(1)
		if err != nil || res == nil {
			r.Outcome("timeout")
		} else {
			r.Outcome("signature")
		}
		r.Distinct("round-shape-3-confirmations-over-300-messages")
		r.Distinct("listener-vs-check")
	}
	r.Sample("3 confirmations spread over 300 messages (1 ms apart) from a network goroutine while waitUntilAllDone checks every 100 ms, real goroutines under -race")
}
