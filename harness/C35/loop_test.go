//go:build verif

package tbtc

// C35, unit "loop": the real signingRetryLoop.start (signing_loop.go) drives the real
// signingDoneCheck (signing_done.go) - both recompiled for the cooperative scheduler,
// with withCancelOnBlock of node.go - on a virtual block clock (one block per 250 virtual
// milliseconds, so the done check's 100 ms ticker runs two or three times per block). The attempt
// timeout block the done check judges end blocks against is handed to it by the loop:
// unit "sched" fixes it by hand, this unit lets the loop compute it. Member 1 of a
// 3-seat wallet signs in the first attempt; members 2 and 3 confirm with the same
// signature and end blocks around the attempt timeout block.

import (
	"context"
	"encoding/json"
	"fmt"
	"math/big"
	"testing"
	"time"

	"github.com/keep-network/keep-core/internal/testutils"
	"github.com/keep-network/keep-core/pkg/chain"
	"github.com/keep-network/keep-core/pkg/net"
	"github.com/keep-network/keep-core/pkg/protocol/group"
	"github.com/keep-network/keep-core/pkg/tecdsa/signing"
	"github.com/keep-network/keep-core/pkg/verifshim/vctx"
	"github.com/keep-network/keep-core/pkg/verifshim/vrep"
	"github.com/keep-network/keep-core/pkg/verifshim/vsched"
	"github.com/keep-network/keep-core/pkg/verifshim/vtime"
)

type c35lEnv struct {
	now  uint64
	stop bool
}

func (e *c35lEnv) waitForBlock(ctx context.Context, b uint64) error {
	if b > e.now && ctx.Err() == nil {
		vsched.Block(fmt.Sprintf("block>=%d", b), func() bool { return e.now >= b || ctx.Err() != nil })
	}
	return nil
}
func (e *c35lEnv) currentBlock() (uint64, error) { return e.now, nil }

// c35lChan: Recv stores the (latest) handler; the member's own completion message comes
// back to it, as on the real channel.
type c35lChan struct {
	ctx     context.Context
	handler func(net.Message)
	own     []*signingDoneMessage
	seq     uint64
}

func (c *c35lChan) Name() string { return "c35-loop" }
func (c *c35lChan) Send(_ context.Context, m net.TaggedMarshaler, _ ...net.RetransmissionStrategy) error {
	vsched.Yield()
	if d, ok := m.(*signingDoneMessage); ok {
		c.own = append(c.own, d)
		c.deliver(1, d)
	}
	return nil
}
func (c *c35lChan) deliver(sender int, d *signingDoneMessage) {
	if c.handler != nil && c.ctx.Err() == nil {
		c.seq++
		c.handler(&c35NetMsg{pk: c35Key(sender), payload: d, seq: c.seq})
	}
}
func (c *c35lChan) Recv(ctx context.Context, h func(net.Message)) { c.ctx, c.handler = ctx, h }
func (c *c35lChan) SetUnmarshaler(func() net.TaggedUnmarshaler)   {}
func (c *c35lChan) SetFilter(net.BroadcastChannelFilter) error    { return nil }

type c35lAnnouncer struct{}

func (c35lAnnouncer) Announce(context.Context, group.MemberIndex, string) ([]group.MemberIndex, error) {
	return []group.MemberIndex{1, 2, 3}, nil
}

type c35lScenario struct {
	Start uint64 `json:"start"`
	// Delta2 / Delta3: end blocks of the confirmations of members 2 and 3, relative to
	// the attempt timeout block (announcement end + maximum protocol blocks).
	Delta2 int `json:"delta2"`
	Delta3 int `json:"delta3"`
}

func (sc c35lScenario) String() string {
	return fmt.Sprintf("loop start=%d end-blocks(member 2, 3)=timeout%+d, timeout%+d", sc.Start, sc.Delta2, sc.Delta3)
}

func (sc c35lScenario) timeout() uint64 {
	return sc.Start + signingAttemptAnnouncementDelayBlocks + signingAttemptAnnouncementActiveBlocks + signingAttemptMaximumProtocolBlocks
}

type c35lObs struct {
	returned  bool
	res       *signingRetryLoopResult
	err       error
	delivered int
}

func c35lBody(sc c35lScenario, obs *c35lObs) func() {
	return func() {
		*obs = c35lObs{}
		env := &c35lEnv{now: sc.Start - 1}
		end := sc.Start + 2*uint64(signingAttemptMaximumBlocks()) + 10
		vsched.GoLow("miner", func() {
			for env.now < end && !env.stop {
				vtime.Sleep(250 * time.Millisecond)
				env.now++
			}
		})
		ch := &c35lChan{}
		operators := make([]chain.Address, 3)
		for i := range operators {
			operators[i] = chain.Address("op-" + string(c35Key(i+1)))
		}
		mv := group.NewMembershipValidator(&testutils.MockLogger{}, operators, c35Signing{})
		sdc := newSigningDoneCheck(3, ch, mv)
		loop := newSigningRetryLoop(&testutils.MockLogger{}, c35Message, sc.Start, 1, operators,
			&GroupParameters{GroupSize: 3, GroupQuorum: 3, HonestThreshold: 3}, c35lAnnouncer{}, sdc)
		root, cancelRoot := vctx.WithCancel(context.Background())
		// like signingExecutor.sign: two attempts at most
		loopCtx, cancelLoop := withCancelOnBlock(root, sc.Start+2*uint64(signingAttemptMaximumBlocks()), env.waitForBlock)
		// the other members: they confirm the first attempt once this member has
		// signalled its own completion
		vsched.GoDaemon("net", func() {
			vsched.Block("own completion sent", func() bool { return len(ch.own) > 0 })
			for i, delta := range []int{sc.Delta2, sc.Delta3} {
				d := &signingDoneMessage{
					senderID:      group.MemberIndex(i + 2),
					message:       new(big.Int).Set(c35Message),
					attemptNumber: 1,
					signature:     c35SigA(),
					endBlock:      uint64(int64(sc.timeout()) + int64(delta)),
				}
				ch.deliver(i+2, d)
				obs.delivered++
				vsched.Yield()
			}
		})
		obs.res, obs.err = loop.start(loopCtx, env.waitForBlock, env.currentBlock,
			func(p *signingAttemptParams) (*signing.Result, uint64, error) {
				return &signing.Result{Signature: c35SigA()}, env.now, nil
			})
		obs.returned = true
		env.stop = true
		cancelLoop()
		cancelRoot()
	}
}

type c35lReplay struct {
	Loop    c35lScenario `json:"loop"`
	Choices []int        `json:"choices"`
	Bound   int          `json:"bound"`
}

func TestVerifC35Loop(t *testing.T) {
	r := vrep.Start(t, "C35", "loop")
	defer r.Finish()
	var obs c35lObs
	opts := func(bound int) vsched.Options {
		return vsched.Options{Bound: bound, Horizon: 100000, MaxSteps: 2000000, Stop: r.Expired}
	}
	evaluate := func(sc c35lScenario, bound int, s *vsched.Sched) {
		r.Eval(1)
		r.Transition(len(s.Choices()) + 1)
		rp := c35lReplay{sc, s.Choices(), bound}
		fail := func(kind, what string) {
			r.ViolationMin("loop-"+kind, len(s.Choices()), fmt.Sprintf("%s %s", sc, kind), what+" [schedule "+s.Trace()+"]", rp)
		}
		if p, stack := s.Failed(); p != nil {
			fail("panic", fmt.Sprintf("panic: %v\n%s", p, stack))
			return
		}
		if s.StepCapHit || s.HorizonHit {
			r.Cap("loop step-cap / horizon")
			return
		}
		if !obs.returned {
			fail("no-return", fmt.Sprintf("the retry loop never returned: %v", s.Deadlock))
			return
		}
		timeout := sc.timeout()
		within := sc.Delta2 <= 0 && sc.Delta3 <= 0
		switch {
		case obs.err == nil && obs.res != nil && obs.res.attemptTimeoutBlock == timeout:
			// a signature was reported for the first attempt
			if !within {
				fail("late-end-block-counted", fmt.Sprintf("a signature was reported for the attempt with timeout block %d although the confirmations of members 2 and 3 carry the end blocks %d and %d: not every included member confirmed with an end block within the attempt timeout",
					timeout, int64(timeout)+int64(sc.Delta2), int64(timeout)+int64(sc.Delta3)))
			}
			if obs.res.latestEndBlock > timeout {
				fail("end-block", fmt.Sprintf("reported end block %d is after the attempt timeout block %d", obs.res.latestEndBlock, timeout))
			}
			r.Outcome("loop: signature reported for attempt 1")
		case obs.err == nil && obs.res != nil:
			fail("other-attempt", fmt.Sprintf("a signature was reported for an attempt with timeout block %d although only the first attempt (timeout %d) was ever confirmed by members 2 and 3", obs.res.attemptTimeoutBlock, timeout))
		default:
			r.Outcome("loop: no signature")
		}
		r.State(fmt.Sprintf("%s|%v", sc, obs.err == nil))
		if s.Trace() != "" {
			r.Distinct(fmt.Sprintf("%s|%v", sc, s.Choices()))
		}
	}
	if rd := r.ReplayData(); rd != nil {
		var rp c35lReplay
		if json.Unmarshal(rd, &rp) == nil && rp.Loop.Start > 0 {
			s := vsched.Replay(rp.Choices, opts(rp.Bound), c35lBody(rp.Loop, &obs))
			evaluate(rp.Loop, rp.Bound, s)
		}
		return
	}
	deltas := [][2]int{{0, 0}, {-3, 1}, {0, 5}, {1, -1}, {0, 6}, {-1, -2}}
	maxBound := 0
	if r.Thorough() {
		deltas = append(deltas, [2]int{2, 0}, [2]int{0, 3}, [2]int{5, 5}, [2]int{0, 40}, [2]int{-30, 0})
		maxBound = 1
	}
	for i, dl := range deltas {
		if !r.Mine(i) {
			continue
		}
		sc := c35lScenario{Start: 100, Delta2: dl[0], Delta3: dl[1]}
		if i == 0 {
			a := vsched.Replay(nil, opts(0), c35lBody(sc, &obs))
			ea := fmt.Sprint(obs.err, obs.res != nil)
			b := vsched.Replay(nil, opts(0), c35lBody(sc, &obs))
			if !vsched.SameRun(a, b) || ea != fmt.Sprint(obs.err, obs.res != nil) {
				t.Fatalf("NONDETERMINISM: two runs of the empty script differ")
			}
			if obs.err != nil || obs.res == nil {
				t.Fatalf("loop unit: the all-within-timeout scenario does not produce a signature (err=%v): harness broken", obs.err)
			}
			r.ReplayedTwice(1)
			r.Sample(map[string]any{"scenario": sc.String(), "reported_end_block": obs.res.latestEndBlock, "attempt_timeout": obs.res.attemptTimeoutBlock})
		}
		for bound := 0; bound <= maxBound; bound++ {
			st := vsched.Explore(opts(bound), c35lBody(sc, &obs), func(s *vsched.Sched) { evaluate(sc, bound, s) })
			if bound == maxBound {
				r.Add("loop_execs_at_max_bound", st.Execs)
			}
			if st.Stopped {
				r.Cap(fmt.Sprintf("%s bound %d not completed", sc, bound))
			}
		}
	}
	r.Set("loop_max_preemption_bound", maxBound)
}
