//go:build verif

package cmd

// C44, unit "e2e": end-to-end Config.ReadConfig runs driven through a cobra command
// tree built with the production flag initialisers (initGlobalFlags / initFlags), a
// generated config file under VERIF_SCRATCH and/or command-line flags.
//
// viper is process-global: every run starts with viper.Reset(), a fresh command tree
// and a fresh Config. Parallelism is by process shards only.

import (
	"encoding/json"
	"fmt"
	"os"
	"path/filepath"
	"reflect"
	"sort"
	"strconv"
	"strings"
	"testing"

	"github.com/ethereum/go-ethereum/common"
	"github.com/ipfs/go-log"
	"github.com/spf13/cobra"
	"github.com/spf13/viper"

	commonEthereum "github.com/keep-network/keep-common/pkg/chain/ethereum"
	"github.com/keep-network/keep-core/config"
	"github.com/keep-network/keep-core/pkg/bitcoin"
	chainEthereum "github.com/keep-network/keep-core/pkg/chain/ethereum"
	ethereumBeacon "github.com/keep-network/keep-core/pkg/chain/ethereum/beacon/gen"
	ethereumEcdsa "github.com/keep-network/keep-core/pkg/chain/ethereum/ecdsa/gen"
	ethereumTbtc "github.com/keep-network/keep-core/pkg/chain/ethereum/tbtc/gen"
	ethereumThreshold "github.com/keep-network/keep-core/pkg/chain/ethereum/threshold/gen"
	"github.com/keep-network/keep-core/pkg/verifshim/vrep"
)

// c44E2E is one end-to-end run (also the replay payload).
type c44E2E struct {
	// Shape: "start" = root command with the global flags + sub-command with
	// StartCmdCategories (as `keep-client start`), "maintainer" = same with
	// MaintainerCategories (no peers / contract flags exist there), "flat" = one command
	// with all categories (the shape the repo's own flag tests use).
	Shape string `json:"shape"`
	// NetFlags: bit 0 --mainnet, bit 1 --testnet, bit 2 --developer.
	NetFlags int `json:"net_flags"`
	// NetPos: 0 network flag after the sub-command name, 1 before it.
	NetPos int `json:"net_pos"`
	// Build: 0 contract defaults as embedded in this tree (empty), 1 populated.
	Build int `json:"build"`
	// Base: where the mandatory settings (ethereum.url, ethereum.keyFile, storage.dir)
	// come from: 0 config file, 1 flags (then there is no config file at all unless
	// another value is file-sourced).
	Base   int    `json:"base"`
	Format string `json:"format"` // toml | yaml | json
	// Peers / Electrum / Contracts[i]: 0 unset, 1 config file, 2 flag, 3 both with
	// different values.
	Peers     int    `json:"peers"`
	Electrum  int    `json:"electrum"`
	Contracts string `json:"contracts"`
	// NetKey: 0 none; 1..3 the file carries `[ethereum] Network = k`; 4..6 the file
	// carries `[bitcoin] Network = k-3`.
	NetKey int `json:"net_key"`
}

type c44Contract struct {
	name string
	def  *string
}

var c44Contracts = []c44Contract{
	{chainEthereum.RandomBeaconContractName, &ethereumBeacon.RandomBeaconAddress},
	{chainEthereum.WalletRegistryContractName, &ethereumEcdsa.WalletRegistryAddress},
	{chainEthereum.TokenStakingContractName, &ethereumThreshold.TokenStakingAddress},
	{chainEthereum.BridgeContractName, &ethereumTbtc.BridgeAddress},
	{chainEthereum.MaintainerProxyContractName, &ethereumTbtc.MaintainerProxyAddress},
	{chainEthereum.LightRelayContractName, &ethereumTbtc.LightRelayAddress},
	{chainEthereum.LightRelayMaintainerProxyContractName, &ethereumTbtc.LightRelayMaintainerProxyAddress},
	{chainEthereum.WalletProposalValidatorContractName, &ethereumTbtc.WalletProposalValidatorAddress},
}

func c44PopulatedDefault(i int) string {
	return "0x" + strings.Repeat(fmt.Sprintf("%02x", 0xd0+i), 20)
}
func c44FileAddr(i int) string { return "0x" + strings.Repeat(fmt.Sprintf("%02x", 0x11+i), 20) }
func c44FlagAddr(i int) string {
	return "0x" + strings.Repeat(fmt.Sprintf("%XaB%x", 1+i, 1+i), 10)
}

var (
	// a single bootstrap peer in the file, two through the flag
	c44FilePeers = []string{
		"/ip4/10.44.0.1/tcp/3919/ipfs/16Uiu2HAmC44FilePeerAAAAAAAAAAAAAAAAAAAAAAAAAAAAAAAAAAA",
	}
	c44FlagPeers = []string{
		"/ip4/10.44.0.2/tcp/3919/ipfs/16Uiu2HAmC44FlagPeerAAAAAAAAAAAAAAAAAAAAAAAAAAAAAAAAAAA",
		"/dns4/flag.c44.example.org/tcp/3920/ipfs/16Uiu2HAmC44FlagPeerBBBBBBBBBBBBBBBBBBBBBBBBBBBBBBBBBBB",
	}
	c44FileElectrum = "tcp://file.electrum.c44.example.org:50001"
	c44FlagElectrum = "ssl://flag.electrum.c44.example.org:50002"
)

type c44Net struct {
	name     string
	eth      commonEthereum.Network
	btc      bitcoin.Network
	defaults string
}

var c44Nets = map[int]c44Net{
	1: {"mainnet", commonEthereum.Mainnet, bitcoin.Mainnet, "mainnet"},
	2: {"testnet", commonEthereum.Sepolia, bitcoin.Testnet, "testnet"},
	4: {"developer", commonEthereum.Developer, bitcoin.Regtest, ""},
}

func c44Lines(b []byte) []string {
	var out []string
	for _, l := range strings.Split(string(b), "\n") {
		l = strings.TrimSpace(l)
		if l != "" && !strings.HasPrefix(l, "#") {
			out = append(out, l)
		}
	}
	return out
}

type c44Env struct {
	peers, electrum map[string][]string
	scratch         string
	shard           int
	orig            []string
	unexpected      []string
}

// ---- config file generation -------------------------------------------------------

type c44KV struct {
	k string
	v any // string | int | []string | []c44KV
}

func c44Lit(v any) string {
	switch x := v.(type) {
	case string:
		return strconv.Quote(x)
	case int:
		return strconv.Itoa(x)
	case []string:
		q := make([]string, len(x))
		for i, s := range x {
			q[i] = strconv.Quote(s)
		}
		return "[" + strings.Join(q, ", ") + "]"
	}
	panic("c44Lit")
}

func c44Toml(path string, t []c44KV, b *strings.Builder) {
	header := false
	for _, kv := range t {
		if _, sub := kv.v.([]c44KV); !sub {
			if !header && path != "" {
				fmt.Fprintf(b, "[%s]\n", path)
				header = true
			}
			fmt.Fprintf(b, "%s = %s\n", kv.k, c44Lit(kv.v))
		}
	}
	for _, kv := range t {
		if sub, ok := kv.v.([]c44KV); ok {
			p := kv.k
			if path != "" {
				p = path + "." + kv.k
			}
			c44Toml(p, sub, b)
		}
	}
}

func c44Yaml(ind string, t []c44KV, b *strings.Builder) {
	for _, kv := range t {
		if sub, ok := kv.v.([]c44KV); ok {
			fmt.Fprintf(b, "%s%s:\n", ind, kv.k)
			c44Yaml(ind+"  ", sub, b)
		} else {
			fmt.Fprintf(b, "%s%s: %s\n", ind, kv.k, c44Lit(kv.v))
		}
	}
}

func c44JSON(t []c44KV) map[string]any {
	m := map[string]any{}
	for _, kv := range t {
		if sub, ok := kv.v.([]c44KV); ok {
			m[kv.k] = c44JSON(sub)
		} else {
			m[kv.k] = kv.v
		}
	}
	return m
}

func c44FileTree(c c44E2E) []c44KV {
	var eth, btc, dev, tree []c44KV
	if c.Base == 0 {
		eth = append(eth, c44KV{"URL", "ws://ethereum.c44.example.org:8546"}, c44KV{"KeyFile", "/c44/keyfile"})
	}
	if c.NetKey >= 1 && c.NetKey <= 3 {
		eth = append(eth, c44KV{"Network", c.NetKey})
	}
	if c.NetKey >= 4 {
		btc = append(btc, c44KV{"Network", c.NetKey - 3})
	}
	if c.Electrum&1 == 1 {
		btc = append(btc, c44KV{"electrum", []c44KV{{"URL", c44FileElectrum}}})
	}
	for i, ct := range c44Contracts {
		if (c.Contracts[i]-'0')&1 == 1 {
			dev = append(dev, c44KV{ct.name + "Address", c44FileAddr(i)})
		}
	}
	if len(eth) > 0 {
		tree = append(tree, c44KV{"ethereum", eth})
	}
	if len(btc) > 0 {
		tree = append(tree, c44KV{"bitcoin", btc})
	}
	if c.Peers&1 == 1 {
		tree = append(tree, c44KV{"network", []c44KV{{"Peers", c44FilePeers}}})
	}
	if c.Base == 0 {
		tree = append(tree, c44KV{"storage", []c44KV{{"Dir", "/c44/storage"}}})
	}
	if len(dev) > 0 {
		tree = append(tree, c44KV{"developer", dev})
	}
	return tree
}

func c44Render(format string, tree []c44KV) string {
	var b strings.Builder
	switch format {
	case "toml":
		c44Toml("", tree, &b)
	case "yaml":
		c44Yaml("", tree, &b)
	case "json":
		j, _ := json.MarshalIndent(c44JSON(tree), "", " ")
		b.Write(j)
	default:
		panic("c44Render: " + format)
	}
	return b.String()
}

// ---- one run ------------------------------------------------------------------------

func c44Categories(shape string) []config.Category {
	switch shape {
	case "start":
		return config.StartCmdCategories
	case "maintainer":
		return config.MaintainerCategories
	}
	return config.AllCategories
}

// c44Valid: the maintainer command has no peers / contract address flags.
func c44Valid(c c44E2E) bool {
	if c.Shape == "maintainer" {
		if c.Peers >= 2 {
			return false
		}
		for i := range c.Contracts {
			if c.Contracts[i] >= '2' {
				return false
			}
		}
	}
	if c.Shape == "flat" && c.NetPos != 0 {
		return false
	}
	return true
}

func c44Args(c c44E2E, cfgPath string) []string {
	var nets, rest []string
	for b, n := range []string{"mainnet", "testnet", "developer"} {
		if c.NetFlags>>uint(b)&1 == 1 {
			nets = append(nets, "--"+n)
		}
	}
	if c.Base == 1 {
		rest = append(rest, "--ethereum.url", "ws://ethereum.c44.example.org:8546", "--ethereum.keyFile", "/c44/keyfile")
		if c.Shape != "maintainer" {
			rest = append(rest, "--storage.dir", "/c44/storage")
		}
	}
	if c.Peers&2 == 2 {
		rest = append(rest, "--network.peers", strings.Join(c44FlagPeers, ","))
	}
	if c.Electrum&2 == 2 {
		rest = append(rest, "--bitcoin.electrum.url", c44FlagElectrum)
	}
	for i, ct := range c44Contracts {
		if (c.Contracts[i]-'0')&2 == 2 {
			rest = append(rest, "--"+config.GetDeveloperContractAddressKey(ct.name), c44FlagAddr(i))
		}
	}
	if cfgPath != "" {
		rest = append(rest, "--config", cfgPath)
	}
	var args []string
	if c.Shape == "flat" {
		return append(nets, rest...)
	}
	if c.NetPos == 1 {
		args = append(args, nets...)
		args = append(args, "sub")
	} else {
		args = append(args, "sub")
		args = append(args, nets...)
	}
	return append(args, rest...)
}

// c44Exec builds a fresh command tree with the production flag initialisers and runs
// ReadConfig from PreRun exactly like cmd/start.go and cmd/maintainer.go do.
func c44Exec(c c44E2E, args []string) (cfg *config.Config, ran bool, rerr, xerr error) {
	viper.Reset()
	cfg = &config.Config{}
	var path string
	cats := c44Categories(c.Shape)
	pre := func(cmd *cobra.Command, _ []string) {
		ran = true
		rerr = cfg.ReadConfig(path, cmd.Flags(), cats...)
	}
	var root *cobra.Command
	if c.Shape == "flat" {
		root = &cobra.Command{Use: "c44", PreRun: pre, Run: func(*cobra.Command, []string) {}}
		initGlobalFlags(root, &path)
		initFlags(root, &path, cfg, cats...)
	} else {
		root = &cobra.Command{Use: "c44", TraverseChildren: true}
		initGlobalFlags(root, &path)
		sub := &cobra.Command{Use: "sub", PreRun: pre, Run: func(*cobra.Command, []string) {}}
		initFlags(sub, &path, cfg, cats...)
		root.AddCommand(sub)
	}
	root.SilenceErrors, root.SilenceUsage = true, true
	root.SetArgs(args)
	xerr = root.Execute()
	return
}

func c44SetBuild(build int, orig []string) {
	for i, c := range c44Contracts {
		if build == 1 {
			*c.def = c44PopulatedDefault(i)
		} else {
			*c.def = orig[i]
		}
	}
}

func c44SameSet(a, b []string) bool {
	x := append([]string{}, a...)
	y := append([]string{}, b...)
	sort.Strings(x)
	sort.Strings(y)
	return reflect.DeepEqual(x, y)
}

func c44Bits(m int) int {
	n := 0
	for ; m != 0; m &= m - 1 {
		n++
	}
	return n
}

func c44Src(mode int) string { return []string{"unset", "file", "flag", "file+flag"}[mode] }

func c44RunE2E(r *vrep.R, e *c44Env, c c44E2E) {
	fp := fmt.Sprintf("e2e shape=%s net=%03b pos=%d build=%d base=%d fmt=%s peers=%d electrum=%d contracts=%s netkey=%d",
		c.Shape, c.NetFlags, c.NetPos, c.Build, c.Base, c.Format, c.Peers, c.Electrum, c.Contracts, c.NetKey)
	size := 0
	needFile := c.Base == 0 || c.NetKey != 0 || c.Peers&1 == 1 || c.Electrum&1 == 1
	for _, m := range append([]int{c.Peers, c.Electrum}, func() (d []int) {
		for i := range c.Contracts {
			d = append(d, int(c.Contracts[i]-'0'))
		}
		return
	}()...) {
		if m != 0 {
			size += 100
		}
		if m == 3 {
			size += 10
		}
	}
	for i := range c.Contracts {
		if (c.Contracts[i]-'0')&1 == 1 {
			needFile = true
		}
	}
	if c.Shape != "start" {
		size += 5
	}
	if c.Format != "toml" {
		size += 3
	}
	size += c.NetPos + c.Base + c44Bits(c.NetFlags)
	if c.NetFlags == 0 {
		size += 2 // prefer a counterexample with an explicit network selection
	}
	if c.NetKey != 0 {
		size += 50
	}
	report := func(kind, what string) {
		if c.NetKey != 0 {
			// the config file carries an ethereum/bitcoin network entry: kept apart
			// from the classes of the plain alphabet
			kind = "network-entry-in-file:" + kind
		}
		r.ViolationMin("e2e:"+kind, size, fp, what, c)
	}

	c44SetBuild(c.Build, e.orig)
	cfgPath := ""
	if needFile {
		cfgPath = filepath.Join(e.scratch, fmt.Sprintf("c44-shard%d.%s", e.shard, c.Format))
		if err := os.WriteFile(cfgPath, []byte(c44Render(c.Format, c44FileTree(c))), 0o600); err != nil {
			panic(err)
		}
	}
	args := c44Args(c, cfgPath)

	var (
		cfg        *config.Config
		ran        bool
		rerr, xerr error
	)
	if p, stack := vrep.Guard(func() { cfg, ran, rerr, xerr = c44Exec(c, args) }); p != nil {
		report("panic", fmt.Sprintf("ReadConfig panicked: %v\n%s", p, stack))
		return
	}

	selected, single := c44Nets[c.NetFlags]
	if c44Bits(c.NetFlags) > 1 {
		// the statement is silent about several network flags (cobra rejects them)
		if xerr != nil {
			r.Outcome("execute:several-network-flags-rejected(accepted)")
		} else {
			r.Outcome("execute:several-network-flags-accepted(accepted)")
		}
		return
	}
	if xerr != nil || !ran {
		e.unexpected = append(e.unexpected, fmt.Sprintf("%s: execute error %v (ran=%v) args=%q", fp, xerr, ran, args))
		return
	}
	if rerr != nil {
		msg := rerr.Error()
		if strings.Contains(msg, "validation failed") && strings.Count(msg, "missing value") == 1 &&
			strings.Contains(msg, "missing value for bitcoin.electrum.url") && c.Electrum == 0 && (c.NetFlags == 4 || c.NetKey == 6) {
			// developer network (regtest) has no Electrum defaults; the validation
			// then refuses the configuration: there is no resulting Config.
			r.Outcome("readconfig:electrum-missing-on-regtest(error, accepted)")
			return
		}
		e.unexpected = append(e.unexpected, fmt.Sprintf("%s: ReadConfig error %v args=%q", fp, rerr, args))
		return
	}
	r.Outcome("readconfig:ok")

	// --- networks
	if single {
		if cfg.Ethereum.Network != selected.eth || cfg.Bitcoin.Network != selected.btc {
			report("networks", fmt.Sprintf("--%s selected but the resulting Config has Ethereum network %v and Bitcoin network %v",
				selected.name, cfg.Ethereum.Network, cfg.Bitcoin.Network))
		} else {
			r.Outcome("networks:selected-pair")
		}
	} else {
		found := false
		for _, k := range []int{1, 2, 4} {
			if n := c44Nets[k]; n.eth == cfg.Ethereum.Network && n.btc == cfg.Bitcoin.Network {
				selected, found = n, true
			}
		}
		if !found {
			report("networks", fmt.Sprintf("no network flag: Ethereum network %v and Bitcoin network %v do not belong to the same network",
				cfg.Ethereum.Network, cfg.Bitcoin.Network))
			return
		}
		r.Outcome("networks:no-flag-consistent-pair")
	}

	// --- peers
	got := cfg.LibP2P.Peers
	switch c.Peers {
	case 1, 2, 3:
		okFile := reflect.DeepEqual(got, c44FilePeers) && c.Peers&1 == 1
		okFlag := reflect.DeepEqual(got, c44FlagPeers) && c.Peers&2 == 2
		if !okFile && !okFlag {
			report("peers-explicit", fmt.Sprintf("peers set explicitly (%s) but the resulting Config has %q", c44Src(c.Peers), got))
		}
		r.Outcome("peers:explicit-kept(" + c44Src(c.Peers) + ")")
	default:
		if selected.defaults != "" {
			if !c44SameSet(got, e.peers[selected.defaults]) {
				report("peers-default", fmt.Sprintf("peers unset on %s: got %q, embedded defaults are %q", selected.name, got, e.peers[selected.defaults]))
			}
			r.Outcome("peers:default-filled")
		} else {
			if len(got) != 0 {
				report("peers-default", fmt.Sprintf("peers unset on %s (no embedded defaults): got %q", selected.name, got))
			}
			r.Outcome("peers:left-empty")
		}
	}

	// --- electrum
	url := cfg.Bitcoin.Electrum.URL
	switch c.Electrum {
	case 1, 2, 3:
		if !(url == c44FileElectrum && c.Electrum&1 == 1) && !(url == c44FlagElectrum && c.Electrum&2 == 2) {
			report("electrum-explicit", fmt.Sprintf("Electrum URL set explicitly (%s) but the resulting Config has %q", c44Src(c.Electrum), url))
		}
		r.Outcome("electrum:explicit-kept(" + c44Src(c.Electrum) + ")")
	default:
		if selected.defaults != "" {
			in := false
			for _, u := range e.electrum[selected.defaults] {
				in = in || u == url
			}
			if !in {
				report("electrum-default", fmt.Sprintf("Electrum URL unset on %s: got %q, embedded defaults are %q", selected.name, url, e.electrum[selected.defaults]))
			}
			r.Outcome("electrum:default-filled")
		} else {
			// (only reachable for commands that do not validate the URL)
			if url != "" {
				report("electrum-default", fmt.Sprintf("Electrum URL unset on %s (no embedded defaults): got %q", selected.name, url))
			}
			r.Outcome("electrum:left-empty")
		}
	}

	// --- contracts
	for i, ct := range c44Contracts {
		mode := int(c.Contracts[i] - '0')
		raw := cfg.Ethereum.ContractAddresses[strings.ToLower(ct.name)]
		addr, aerr := cfg.Ethereum.ContractAddress(ct.name)
		if mode != 0 {
			okFile := mode&1 == 1 && raw == c44FileAddr(i) && aerr == nil && addr == common.HexToAddress(c44FileAddr(i))
			okFlag := mode&2 == 2 && raw == c44FlagAddr(i) && aerr == nil && addr == common.HexToAddress(c44FlagAddr(i))
			if !okFile && !okFlag {
				report("contract-explicit", fmt.Sprintf("%s address set explicitly (%s) but the resulting Config has %q (ContractAddress: %v, %v)", ct.name, c44Src(mode), raw, addr, aerr))
			}
			r.Outcome("contracts:explicit-kept(" + c44Src(mode) + ")")
			continue
		}
		def := *ct.def
		if def == "" {
			if raw != "" {
				report("contract-default", fmt.Sprintf("%s address unset and no embedded default: got %q", ct.name, raw))
			}
			r.Outcome("contracts:left-empty")
			continue
		}
		if aerr != nil || addr != common.HexToAddress(def) {
			report("contract-default", fmt.Sprintf("%s address unset: got %q (%v), embedded default is %q", ct.name, raw, aerr, def))
		}
		r.Outcome("contracts:default-filled")
	}
}

// ---- enumeration ----------------------------------------------------------------------

func c44Digits(mask int, digit byte) string {
	b := []byte("00000000")
	for i := range b {
		if mask>>uint(i)&1 == 1 {
			b[i] = digit
		}
	}
	return string(b)
}

// c44Enumerate emits every case of the tier exactly once. The thorough tier starts
// with the complete quick enumeration (so a deadline cap can only cut the deepening).
func c44Enumerate(thorough bool, emit func(c44E2E)) {
	seen := map[c44E2E]bool{}
	out := func(c c44E2E) {
		if !c44Valid(c) || seen[c] {
			return
		}
		seen[c] = true
		emit(c)
	}
	c44EnumQuick(out)
	if thorough {
		c44EnumDeep(out)
	}
}

var c44NetSel = []int{0, 1, 2, 4}

func c44EnumQuick(out func(c44E2E)) {
	nets := c44NetSel
	nc := len(c44Contracts)
	all := 1<<uint(nc) - 1

	// C. the config file also carries an ethereum/bitcoin network entry
	for _, nf := range nets {
		for key := 1; key <= 6; key++ {
			for p := 0; p <= 1; p++ {
				for el := 0; el <= 1; el++ {
					out(c44E2E{Shape: "start", NetFlags: nf, Build: 1, Format: "toml", Peers: p, Electrum: el,
						Contracts: c44Digits(0, '0'), NetKey: key})
				}
			}
		}
	}

	// E. several network flags at once (outcome recorded, nothing demanded)
	for _, nf := range []int{3, 5, 6, 7} {
		for _, shape := range []string{"start", "flat"} {
			out(c44E2E{Shape: shape, NetFlags: nf, Build: 1, Format: "toml", Contracts: c44Digits(0, '0')})
			out(c44E2E{Shape: shape, NetFlags: nf, Build: 1, Format: "toml", Peers: 1, Electrum: 2, Contracts: c44Digits(5, '1')})
		}
	}

	// B. every command shape / flag position / flags-only base / build: nothing set,
	//    every single value from each source, everything from each source
	for _, shape := range []string{"start", "maintainer", "flat"} {
		for base := 0; base <= 1; base++ {
			for build := 0; build <= 1; build++ {
				for pos := 0; pos <= 1; pos++ {
					for _, nf := range nets {
						c := c44E2E{Shape: shape, NetFlags: nf, NetPos: pos, Build: build, Base: base, Format: "toml"}
						c.Contracts = c44Digits(0, '0')
						out(c)
						for src := 1; src <= 2; src++ {
							d := byte('0' + src)
							s := c
							s.Peers = src
							out(s)
							s = c
							s.Electrum = src
							out(s)
							for i := 0; i < nc; i++ {
								s = c
								s.Contracts = c44Digits(1<<uint(i), d)
								out(s)
							}
							s = c
							s.Electrum, s.Contracts = src, c44Digits(all, d)
							if shape == "maintainer" {
								s.Peers = 1
								s.Contracts = c44Digits(all, '1')
							} else {
								s.Peers = src
							}
							out(s)
						}
					}
				}
			}
		}
	}

	// D. YAML / JSON config files: nothing, each single contract, all contracts
	for _, f := range []string{"yaml", "json"} {
		for _, nf := range nets {
			for p := 0; p <= 1; p++ {
				for el := 0; el <= 1; el++ {
					c := c44E2E{Shape: "start", NetFlags: nf, Build: 1, Format: f, Peers: p, Electrum: el}
					c.Contracts = c44Digits(0, '0')
					out(c)
					c.Contracts = c44Digits(all, '1')
					out(c)
					for i := 0; i < nc; i++ {
						c.Contracts = c44Digits(1<<uint(i), '1')
						out(c)
					}
				}
			}
		}
	}

	// A. `start` shape, populated build, mandatory settings in a TOML file
	for _, nf := range nets {
		for p := 0; p <= 2; p++ {
			for el := 0; el <= 2; el++ {
				c := c44E2E{Shape: "start", NetFlags: nf, Build: 1, Format: "toml", Peers: p, Electrum: el}
				// peers/Electrum sources mixed freely; contracts: none, each single
				// one, all of them - from the file and from flags
				for _, d := range []byte{'1', '2'} {
					c.Contracts = c44Digits(0, d)
					out(c)
					c.Contracts = c44Digits(all, d)
					out(c)
					for i := 0; i < nc; i++ {
						c.Contracts = c44Digits(1<<uint(i), d)
						out(c)
					}
				}
				// every subset of the ten values, the whole subset from one source
				for _, d := range []byte{'1', '2'} {
					src := int(d - '0')
					if (p != 0 && p != src) || (el != 0 && el != src) {
						continue
					}
					for mask := 0; mask <= all; mask++ {
						c.Contracts = c44Digits(mask, d)
						out(c)
					}
				}
			}
		}
	}
}

func c44EnumDeep(out func(c44E2E)) {
	nets := c44NetSel
	nc := len(c44Contracts)
	all := 1<<uint(nc) - 1

	// C'. network entries in the file for the flat shape as well
	for _, nf := range nets {
		for key := 1; key <= 6; key++ {
			for p := 0; p <= 1; p++ {
				for el := 0; el <= 1; el++ {
					out(c44E2E{Shape: "flat", NetFlags: nf, Build: 1, Format: "toml", Peers: p, Electrum: el,
						Contracts: c44Digits(0, '0'), NetKey: key})
				}
			}
		}
	}

	// A'. peers/Electrum in all four source modes with contracts none / each single /
	//     all, from the file, from flags, from both
	for _, nf := range nets {
		for p := 0; p <= 3; p++ {
			for el := 0; el <= 3; el++ {
				c := c44E2E{Shape: "start", NetFlags: nf, Build: 1, Format: "toml", Peers: p, Electrum: el}
				for _, d := range []byte{'1', '2', '3'} {
					c.Contracts = c44Digits(0, d)
					out(c)
					c.Contracts = c44Digits(all, d)
					out(c)
					for i := 0; i < nc; i++ {
						c.Contracts = c44Digits(1<<uint(i), d)
						out(c)
					}
				}
				// every subset of contracts set in both places
				if (p == 0 || p == 3) && (el == 0 || el == 3) {
					for mask := 1; mask <= all; mask++ {
						c.Contracts = c44Digits(mask, '3')
						out(c)
					}
				}
			}
		}
	}

	// D'. every file-sourced subset in YAML and JSON
	for _, f := range []string{"yaml", "json"} {
		for _, nf := range nets {
			for p := 0; p <= 1; p++ {
				for el := 0; el <= 1; el++ {
					c := c44E2E{Shape: "start", NetFlags: nf, Build: 1, Format: f, Peers: p, Electrum: el}
					for mask := 0; mask <= all; mask++ {
						c.Contracts = c44Digits(mask, '1')
						out(c)
					}
				}
			}
		}
	}

	// B'. every uniform-source subset of contracts, with peers/Electrum unset or from the
	//     same source, for every shape / base / build / flag position
	for _, shape := range []string{"flat", "start", "maintainer"} {
		for base := 0; base <= 1; base++ {
			for build := 0; build <= 1; build++ {
				for pos := 0; pos <= 1; pos++ {
					for _, nf := range nets {
						c := c44E2E{Shape: shape, NetFlags: nf, NetPos: pos, Build: build, Base: base, Format: "toml"}
						for _, d := range []byte{'1', '2'} {
							src := int(d - '0')
							for _, pe := range [][2]int{{0, 0}, {src, src}, {0, src}, {src, 0}} {
								for mask := 0; mask <= all; mask++ {
									s := c
									s.Peers, s.Electrum = pe[0], pe[1]
									s.Contracts = c44Digits(mask, d)
									if shape == "maintainer" {
										// no contract flags there (peers from a flag are
										// filtered by c44Valid): contracts from the file
										s.Contracts = c44Digits(mask, '1')
									}
									out(s)
								}
							}
						}
					}
				}
			}
		}
	}

	// A''. every assignment unset/file/flag per contract (3^8) x peers/Electrum
	//      {both unset, file+flag, flag+file}
	for _, nf := range nets {
		for _, pe := range [][2]int{{0, 0}, {1, 2}, {2, 1}} {
			c := c44E2E{Shape: "start", NetFlags: nf, Build: 1, Format: "toml", Peers: pe[0], Electrum: pe[1]}
			t := make([]byte, nc)
			for k := 0; ; k++ {
				x := k
				for i := 0; i < nc; i++ {
					t[i] = byte('0' + x%3)
					x /= 3
				}
				if x != 0 {
					break
				}
				c.Contracts = string(t)
				out(c)
			}
		}
	}
}

func TestVerifC44E2E(t *testing.T) {
	r := vrep.Start(t, "C44", "e2e")
	defer r.Finish()
	log.SetAllLoggers(log.LevelError)
	// fixed environment: the password comes from the environment (never prompts)
	if err := os.Setenv(config.EthereumPasswordEnvVariable, "c44 password"); err != nil {
		t.Fatalf("setenv: %v", err)
	}
	shard, _ := r.Shard()
	e := &c44Env{peers: map[string][]string{}, electrum: map[string][]string{}, scratch: os.Getenv("VERIF_SCRATCH"), shard: shard}
	if e.scratch == "" {
		t.Fatalf("VERIF_SCRATCH not set")
	}
	for _, n := range []string{"mainnet", "testnet"} {
		b, err := os.ReadFile("../config/_peers/" + n)
		if err != nil {
			t.Fatalf("default peers of %s: %v", n, err)
		}
		e.peers[n] = c44Lines(b)
		b, err = os.ReadFile("../config/_electrum_urls/" + n)
		if err != nil {
			t.Fatalf("default electrum urls of %s: %v", n, err)
		}
		e.electrum[n] = c44Lines(b)
		if len(e.peers[n]) == 0 || len(e.electrum[n]) == 0 {
			t.Fatalf("defaults of %s are empty", n)
		}
	}
	for _, c := range c44Contracts {
		e.orig = append(e.orig, *c.def)
	}
	defer c44SetBuild(0, e.orig)
	defer viper.Reset()

	if rd := r.ReplayData(); rd != nil {
		var c c44E2E
		if string(rd) != "null" && json.Unmarshal(rd, &c) == nil && len(c.Contracts) == len(c44Contracts) {
			c44RunE2E(r, e, c)
			r.Eval(1)
			if len(e.unexpected) > 0 {
				t.Fatalf("unexpected error: %s", e.unexpected[0])
			}
		}
		return
	}

	k, evals := 0, 0
	stop := false
	c44Enumerate(r.Thorough(), func(c c44E2E) {
		k++
		if stop || !r.Mine(k-1) {
			return
		}
		if evals%200 == 0 && r.Expired() {
			stop = true
			return
		}
		c44RunE2E(r, e, c)
		evals++
		explicit := c.Peers != 0 || c.Electrum != 0 || c.Contracts != "00000000"
		if explicit && (c.NetFlags == 0 || c.NetFlags == 1 || c.NetFlags == 2) {
			b, _ := json.Marshal(c)
			r.Distinct(string(b))
		}
		if explicit && c.NetFlags == 2 && c.Contracts[3] != '0' && c.Electrum == 0 {
			r.Sample(c)
		}
	})
	r.Eval(evals)
	if shard == 0 {
		r.Set("cases_all_shards", k)
	}
	if len(e.unexpected) > 0 {
		t.Fatalf("INFRASTRUCTURE: %d runs on well-formed input ended with an unexpected error, first: %s", len(e.unexpected), e.unexpected[0])
	}
}
