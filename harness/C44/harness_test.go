//go:build verif

package config

// C44, unit "resolve": exhaustive enumeration of the default-resolution seam
// (resolveNetworks / resolveContractsAddresses / resolvePeers / resolveElectrum) on
// Config values, called in the order ReadConfig calls them.

import (
	"time"
	"encoding/json"
	"fmt"
	"math/rand"
	"reflect"
	"sort"
	"strings"
	"testing"

	"github.com/ethereum/go-ethereum/common"
	"github.com/ipfs/go-log"
	"github.com/spf13/pflag"

	commonEthereum "github.com/keep-network/keep-common/pkg/chain/ethereum"
	"github.com/keep-network/keep-core/config/network"
	"github.com/keep-network/keep-core/pkg/bitcoin"
	chainEthereum "github.com/keep-network/keep-core/pkg/chain/ethereum"
	ethereumBeacon "github.com/keep-network/keep-core/pkg/chain/ethereum/beacon/gen"
	ethereumEcdsa "github.com/keep-network/keep-core/pkg/chain/ethereum/ecdsa/gen"
	ethereumTbtc "github.com/keep-network/keep-core/pkg/chain/ethereum/tbtc/gen"
	ethereumThreshold "github.com/keep-network/keep-core/pkg/chain/ethereum/threshold/gen"
	"github.com/keep-network/keep-core/pkg/verifshim/vrep"
)

// c44Case is one evaluation of the resolve seam (also the replay payload).
type c44Case struct {
	// NetFlags: bit 0 --mainnet, bit 1 --testnet, bit 2 --developer.
	NetFlags int `json:"net_flags"`
	// Build: 0 = contract defaults as embedded in this source tree (all empty: they are
	// filled from NPM packages at release build time), 1 = populated (what a release
	// build embeds; set through the exported gen variables like the repo's own tests do).
	Build int `json:"build"`
	// Peers: 0 unset (nil), 1 unset (empty slice, the flag default), 2 one custom peer,
	// 3 two custom peers, 4 a default peer of the selected network followed by a custom
	// one, 5 exactly the default list of another network.
	Peers int `json:"peers"`
	// Electrum: 0 unset, 1 custom URL, 2 a default URL of another network.
	Electrum int `json:"electrum"`
	// Contracts: bit i = contract i (c44Contracts order) explicitly set.
	Contracts int `json:"contracts"`
	// UnsetRepr: how an unset contract address looks after unmarshalling: 0 key absent
	// (nil map when none is set), 1 key present with "" (what viper produces for the
	// --developer.*Address flags left at their default).
	UnsetRepr int `json:"unset_repr"`
	// AddrVariant: 0 lower-case custom address, 1 mixed-case custom address, 2 the
	// (populated) default address of the next contract.
	AddrVariant int `json:"addr_variant"`
	// Rng: 0..7 math/rand seed; 8+k a constant source that yields index k.
	Rng int `json:"rng"`
}

type c44Contract struct {
	name string
	def  *string
}

var c44Contracts = []c44Contract{
	{chainEthereum.RandomBeaconContractName, &ethereumBeacon.RandomBeaconAddress},
	{chainEthereum.WalletRegistryContractName, &ethereumEcdsa.WalletRegistryAddress},
	{chainEthereum.TokenStakingContractName, &ethereumThreshold.TokenStakingAddress},
	{chainEthereum.BridgeContractName, &ethereumTbtc.BridgeAddress},
	{chainEthereum.MaintainerProxyContractName, &ethereumTbtc.MaintainerProxyAddress},
	{chainEthereum.LightRelayContractName, &ethereumTbtc.LightRelayAddress},
	{chainEthereum.LightRelayMaintainerProxyContractName, &ethereumTbtc.LightRelayMaintainerProxyAddress},
	{chainEthereum.WalletProposalValidatorContractName, &ethereumTbtc.WalletProposalValidatorAddress},
}

func c44PopulatedDefault(i int) string {
	return "0x" + strings.Repeat(fmt.Sprintf("%02x", 0xd0+i), 20)
}

func c44ExplicitAddr(i, variant int) string {
	switch variant {
	case 1:
		return "0x" + strings.Repeat(fmt.Sprintf("%XaB%x", 1+i, 1+i), 10)
	case 2:
		return c44PopulatedDefault((i + 1) % len(c44Contracts))
	case 3:
		// explicit but malformed (39 hex digits): it has to be kept as configured and be
		// refused where it is used, not silently replaced by a default
		return "0x" + strings.Repeat(fmt.Sprintf("%02x", 0x21+i), 20)[1:]
	}
	return "0x" + strings.Repeat(fmt.Sprintf("%02x", 0x11+i), 20)
}

// c44Net is the harness' own table of what a selected network means.
type c44Net struct {
	name string
	eth  commonEthereum.Network
	btc  bitcoin.Network
	// embedded default files (empty name: the network has no defaults)
	defaults string
}

var c44Nets = map[int]c44Net{
	1: {"mainnet", commonEthereum.Mainnet, bitcoin.Mainnet, "mainnet"},
	2: {"testnet", commonEthereum.Sepolia, bitcoin.Testnet, "testnet"},
	4: {"developer", commonEthereum.Developer, bitcoin.Regtest, ""},
}

// c44Lines is the harness' own reading of an embedded defaults file: non-empty,
// non-comment lines, trimmed.
func c44Lines(b []byte) []string {
	var out []string
	for _, l := range strings.Split(string(b), "\n") {
		l = strings.TrimSpace(l)
		if l != "" && !strings.HasPrefix(l, "#") {
			out = append(out, l)
		}
	}
	return out
}

type c44Env struct {
	peers    map[string][]string
	electrum map[string][]string
}

func c44LoadEnv(t *testing.T) *c44Env {
	e := &c44Env{map[string][]string{}, map[string][]string{}}
	for _, n := range []string{"mainnet", "testnet"} {
		b, err := peersData.ReadFile("_peers/" + n)
		if err != nil {
			t.Fatalf("embedded peers of %s: %v", n, err)
		}
		e.peers[n] = c44Lines(b)
		b, err = electrumURLs.ReadFile("_electrum_urls/" + n)
		if err != nil {
			t.Fatalf("embedded electrum urls of %s: %v", n, err)
		}
		e.electrum[n] = c44Lines(b)
		if len(e.peers[n]) == 0 || len(e.electrum[n]) == 0 {
			t.Fatalf("embedded defaults of %s are empty", n)
		}
	}
	return e
}

func c44Other(n string) string {
	if n == "mainnet" {
		return "testnet"
	}
	return "mainnet"
}

func (e *c44Env) explicitPeers(mode int, selected string) []string {
	if selected == "" {
		selected = "mainnet"
	}
	switch mode {
	case 2:
		return []string{"/ip4/10.44.0.1/tcp/3919/ipfs/16Uiu2HAmC44CustomPeerAAAAAAAAAAAAAAAAAAAAAAAAAAAAAAAAA"}
	case 3:
		return []string{
			"/ip4/10.44.0.2/tcp/3919/ipfs/16Uiu2HAmC44CustomPeerBBBBBBBBBBBBBBBBBBBBBBBBBBBBBBBBB",
			"/dns4/c44.example.org/tcp/3920/ipfs/16Uiu2HAmC44CustomPeerCCCCCCCCCCCCCCCCCCCCCCCCCCCCCCCCC",
		}
	case 4:
		return []string{e.peers[selected][0], "/ip4/10.44.0.3/tcp/3919/ipfs/16Uiu2HAmC44CustomPeerDDDDDDDDDDDDDDDDDDDDDDDDDDDDDDDDD"}
	case 5:
		return append([]string{}, e.peers[c44Other(selected)]...)
	}
	return nil
}

func (e *c44Env) explicitElectrum(mode int, selected string) string {
	if selected == "" {
		selected = "mainnet"
	}
	switch mode {
	case 1:
		return "tcp://electrum.c44.example.org:50001"
	case 2:
		return e.electrum[c44Other(selected)][0]
	}
	return ""
}

type c44ConstSource struct{ v int64 }

func (s *c44ConstSource) Int63() int64 { return s.v << 32 }
func (s *c44ConstSource) Seed(int64)   {}

func c44Rng(k int) *rand.Rand {
	if k < 8 {
		return rand.New(rand.NewSource(int64(k)))
	}
	return rand.New(&c44ConstSource{int64(k - 8)})
}

func c44SetBuild(build int, orig []string) {
	for i, c := range c44Contracts {
		if build == 1 {
			*c.def = c44PopulatedDefault(i)
		} else {
			*c.def = orig[i]
		}
	}
}

func c44In(list []string, s string) bool {
	for _, x := range list {
		if x == s {
			return true
		}
	}
	return false
}

func c44SameSet(a, b []string) bool {
	x := append([]string{}, a...)
	y := append([]string{}, b...)
	sort.Strings(x)
	sort.Strings(y)
	return reflect.DeepEqual(x, y)
}

func c44Bits(m int) int {
	n := 0
	for ; m != 0; m &= m - 1 {
		n++
	}
	return n
}

// c44Run executes one case. The gen default variables must already be set for c.Build.
func c44Run(r *vrep.R, e *c44Env, c c44Case, reached map[string]bool) {
	fp := fmt.Sprintf("resolve net=%03b build=%d peers=%d electrum=%d contracts=%08b unset=%d addr=%d rng=%d",
		c.NetFlags, c.Build, c.Peers, c.Electrum, c.Contracts, c.UnsetRepr, c.AddrVariant, c.Rng)
	nExplicit := c44Bits(c.Contracts)
	if c.Peers >= 2 {
		nExplicit++
	}
	if c.Electrum >= 1 {
		nExplicit++
	}
	size := nExplicit*100 + c44Bits(c.NetFlags)*10 + c.Rng
	report := func(kind, what string) {
		r.ViolationMin("resolve:"+kind, size, fp, what, c)
	}

	// network selection exactly as the commands define it: three boolean flags
	fs := pflag.NewFlagSet("c44", pflag.ContinueOnError)
	fs.Bool("mainnet", false, "")
	fs.Bool("testnet", false, "")
	fs.Bool("developer", false, "")
	var args []string
	for b, n := range []string{"mainnet", "testnet", "developer"} {
		if c.NetFlags>>uint(b)&1 == 1 {
			args = append(args, "--"+n)
		}
	}
	if err := fs.Parse(args); err != nil {
		panic(err)
	}

	cfg := &Config{}
	var clientNetwork = c44ResolveNetworks(cfg, fs, report)

	// which network is selected (reference)
	selected, single := c44Nets[c.NetFlags]
	multi := c44Bits(c.NetFlags) > 1
	switch {
	case single:
		if cfg.Ethereum.Network != selected.eth || cfg.Bitcoin.Network != selected.btc {
			report("networks", fmt.Sprintf("--%s selected but Ethereum network is %v and Bitcoin network is %v",
				selected.name, cfg.Ethereum.Network, cfg.Bitcoin.Network))
		}
		r.Outcome("networks:selected-pair")
	case c.NetFlags == 0:
		// the statement does not say which network is the default one; it must be a
		// matching pair, and defaults must come from that network
		found := false
		for _, k := range []int{1, 2, 4} {
			if n := c44Nets[k]; n.eth == cfg.Ethereum.Network && n.btc == cfg.Bitcoin.Network {
				selected, found = n, true
			}
		}
		if !found {
			report("networks", fmt.Sprintf("no network flag: Ethereum network %v and Bitcoin network %v do not belong to the same network",
				cfg.Ethereum.Network, cfg.Bitcoin.Network))
			return
		}
		r.Outcome("networks:no-flag-consistent-pair")
	default:
		r.Outcome("networks:several-flags(accepted)")
	}

	// explicit values, placed where unmarshalling puts them
	exPeers := e.explicitPeers(c.Peers, selected.defaults)
	switch c.Peers {
	case 0:
	case 1:
		cfg.LibP2P.Peers = []string{}
	default:
		cfg.LibP2P.Peers = append([]string{}, exPeers...)
	}
	exElectrum := e.explicitElectrum(c.Electrum, selected.defaults)
	cfg.Bitcoin.Electrum.URL = exElectrum
	// the other Electrum connection parameters are explicit in every case: filling in a
	// default URL must not touch them
	exParams := [5]time.Duration{7 * time.Second, 11 * time.Second, 13 * time.Second, 17 * time.Second, 19 * time.Minute}
	cfg.Bitcoin.Electrum.ConnectTimeout = exParams[0]
	cfg.Bitcoin.Electrum.ConnectRetryTimeout = exParams[1]
	cfg.Bitcoin.Electrum.RequestTimeout = exParams[2]
	cfg.Bitcoin.Electrum.RequestRetryTimeout = exParams[3]
	cfg.Bitcoin.Electrum.KeepAliveInterval = exParams[4]
	exAddr := map[int]string{}
	for i, ct := range c44Contracts {
		key := strings.ToLower(ct.name)
		if c.Contracts>>uint(i)&1 == 1 {
			exAddr[i] = c44ExplicitAddr(i, c.AddrVariant)
			if cfg.Ethereum.ContractAddresses == nil {
				cfg.Ethereum.ContractAddresses = map[string]string{}
			}
			cfg.Ethereum.ContractAddresses[key] = exAddr[i]
		} else if c.UnsetRepr == 1 {
			if cfg.Ethereum.ContractAddresses == nil {
				cfg.Ethereum.ContractAddresses = map[string]string{}
			}
			cfg.Ethereum.ContractAddresses[key] = ""
		}
	}

	var errPeers, errElectrum error
	if p, stack := vrep.Guard(func() {
		cfg.resolveContractsAddresses()
		errPeers = cfg.resolvePeers(clientNetwork)
		errElectrum = cfg.resolveElectrum(c44Rng(c.Rng))
	}); p != nil {
		report("panic", fmt.Sprintf("resolution panicked: %v\n%s", p, stack))
		return
	}
	if errPeers != nil || errElectrum != nil {
		// no malformed value is in the alphabet: a default that cannot be read means
		// an unset value was not filled in
		report("error", fmt.Sprintf("resolvePeers: %v, resolveElectrum: %v", errPeers, errElectrum))
		return
	}

	// --- peers
	switch {
	case c.Peers >= 2:
		if !reflect.DeepEqual(cfg.LibP2P.Peers, exPeers) {
			report("peers-explicit", fmt.Sprintf("explicit peers %q became %q", exPeers, cfg.LibP2P.Peers))
		}
		r.Outcome("peers:explicit-kept")
	case multi:
	case selected.defaults != "":
		if !c44SameSet(cfg.LibP2P.Peers, e.peers[selected.defaults]) {
			report("peers-default", fmt.Sprintf("peers unset on %s: got %q, embedded defaults are %q", selected.name, cfg.LibP2P.Peers, e.peers[selected.defaults]))
		}
		r.Outcome("peers:default-filled")
	default:
		if len(cfg.LibP2P.Peers) != 0 {
			report("peers-default", fmt.Sprintf("peers unset on %s (no embedded defaults): got %q", selected.name, cfg.LibP2P.Peers))
		}
		r.Outcome("peers:left-empty")
	}

	// --- electrum
	if got := [5]time.Duration{cfg.Bitcoin.Electrum.ConnectTimeout, cfg.Bitcoin.Electrum.ConnectRetryTimeout, cfg.Bitcoin.Electrum.RequestTimeout,
		cfg.Bitcoin.Electrum.RequestRetryTimeout, cfg.Bitcoin.Electrum.KeepAliveInterval}; got != exParams {
		report("electrum-params", fmt.Sprintf("explicit Electrum connection parameters %v became %v", exParams, got))
	}
	switch {
	case c.Electrum >= 1:
		if cfg.Bitcoin.Electrum.URL != exElectrum {
			report("electrum-explicit", fmt.Sprintf("explicit Electrum URL %q became %q", exElectrum, cfg.Bitcoin.Electrum.URL))
		}
		r.Outcome("electrum:explicit-kept")
	case multi:
	case selected.defaults != "":
		if !c44In(e.electrum[selected.defaults], cfg.Bitcoin.Electrum.URL) {
			report("electrum-default", fmt.Sprintf("Electrum URL unset on %s: got %q, embedded defaults are %q", selected.name, cfg.Bitcoin.Electrum.URL, e.electrum[selected.defaults]))
		} else if reached != nil {
			reached[selected.defaults+" "+cfg.Bitcoin.Electrum.URL] = true
		}
		r.Outcome("electrum:default-filled")
	default:
		if cfg.Bitcoin.Electrum.URL != "" {
			report("electrum-default", fmt.Sprintf("Electrum URL unset on %s (no embedded defaults): got %q", selected.name, cfg.Bitcoin.Electrum.URL))
		}
		r.Outcome("electrum:left-empty")
	}

	// --- contracts (one set of defaults per build, not per network)
	for i, ct := range c44Contracts {
		got := cfg.Ethereum.ContractAddresses[strings.ToLower(ct.name)]
		addr, aerr := cfg.Ethereum.ContractAddress(ct.name)
		if want, ok := exAddr[i]; ok {
			if c.AddrVariant == 3 {
				// malformed explicit value: kept verbatim, and ContractAddress reports it
				if got != want || aerr == nil {
					report("contract-explicit-malformed", fmt.Sprintf("explicit (malformed) %s address %q became %q (ContractAddress: %v, %v)", ct.name, want, got, addr, aerr))
				}
				r.Outcome("contracts:explicit-malformed-kept")
				continue
			}
			if got != want || aerr != nil || addr != common.HexToAddress(want) {
				report("contract-explicit", fmt.Sprintf("explicit %s address %q became %q (ContractAddress: %v, %v)", ct.name, want, got, addr, aerr))
			}
			r.Outcome("contracts:explicit-kept")
			continue
		}
		def := *ct.def
		if def == "" {
			if got != "" {
				report("contract-default", fmt.Sprintf("%s address unset and no embedded default: got %q", ct.name, got))
			}
			r.Outcome("contracts:left-empty")
			continue
		}
		if aerr != nil || addr != common.HexToAddress(def) {
			report("contract-default", fmt.Sprintf("%s address unset: got %q (%v), embedded default is %q", ct.name, got, aerr, def))
		}
		r.Outcome("contracts:default-filled")
	}
}

func c44ResolveNetworks(cfg *Config, fs *pflag.FlagSet, report func(kind, what string)) (n network.Type) {
	var err error
	if p, stack := vrep.Guard(func() { n, err = cfg.resolveNetworks(fs) }); p != nil {
		report("panic", fmt.Sprintf("resolveNetworks panicked: %v\n%s", p, stack))
	}
	if err != nil {
		report("error", fmt.Sprintf("resolveNetworks: %v", err))
	}
	return n
}

func TestVerifC44(t *testing.T) {
	r := vrep.Start(t, "C44", "resolve")
	defer r.Finish()
	log.SetAllLoggers(log.LevelError)
	e := c44LoadEnv(t)
	orig := make([]string, len(c44Contracts))
	for i, c := range c44Contracts {
		orig[i] = *c.def
	}
	defer c44SetBuild(0, orig)

	if rd := r.ReplayData(); rd != nil {
		var c c44Case
		if string(rd) != "null" && json.Unmarshal(rd, &c) == nil {
			c44SetBuild(c.Build, orig)
			c44Run(r, e, c, nil)
			r.Eval(1)
		}
		return
	}

	netFlags := []int{0, 1, 2, 4, 3, 5, 6, 7}
	addrVariants := []int{0, 3}
	rngs := []int{0, 1, 2, 3, 8, 9, 10, 11}
	if r.Thorough() {
		addrVariants = []int{0, 1, 2, 3}
		rngs = []int{0, 1, 2, 3, 4, 5, 6, 7, 8, 9, 10, 11}
	}
	type outer struct{ net, peers, electrum, rng int }
	var work []outer
	for _, nf := range netFlags {
		for p := 0; p <= 5; p++ {
			for el := 0; el <= 2; el++ {
				rs := []int{0}
				if el == 0 {
					rs = rngs // the rng only matters when a default URL is picked
				}
				for _, k := range rs {
					work = append(work, outer{nf, p, el, k})
				}
			}
		}
	}
	r.Set("resolve.outer_tuples", len(work))
	reachedAll := map[string]bool{}
	for build := 0; build <= 1; build++ {
		c44SetBuild(build, orig) // package-level variables: one build at a time
		reachedPer := make([]map[string]bool, len(work))
		vrep.Parallel(vrep.Workers(), len(work), func(i int) {
			if r.Expired() {
				return
			}
			w := work[i]
			reachedPer[i] = map[string]bool{}
			n := 0
			for mask := 0; mask < 1<<uint(len(c44Contracts)); mask++ {
				for unset := 0; unset <= 1; unset++ {
					for _, av := range addrVariants {
						if mask == 0 && av != addrVariants[0] {
							continue // no explicit address: the variant changes nothing
						}
						if av == 3 && mask&(mask-1) != 0 {
							continue // the malformed variant is tried with one explicit contract at a time
						}
						if mask == 1<<uint(len(c44Contracts))-1 && unset == 1 {
							continue // nothing unset: the representation changes nothing
						}
						c := c44Case{NetFlags: w.net, Build: build, Peers: w.peers, Electrum: w.electrum,
							Contracts: mask, UnsetRepr: unset, AddrVariant: av, Rng: w.rng}
						c44Run(r, e, c, reachedPer[i])
						n++
						explicit := mask != 0 || w.peers >= 2 || w.electrum >= 1
						if explicit && (w.net == 0 || w.net == 1 || w.net == 2) {
							b, _ := json.Marshal(c)
							r.Distinct(string(b))
						}
						if i == 7 && build == 1 && mask == 0x25 && unset == 0 {
							r.Sample(c)
						}
					}
				}
			}
			r.Eval(n)
		})
		for _, m := range reachedPer {
			for k := range m {
				reachedAll[k] = true
			}
		}
	}
	for _, n := range []string{"mainnet", "testnet"} {
		cnt := 0
		for k := range reachedAll {
			if strings.HasPrefix(k, n+" ") {
				cnt++
			}
		}
		r.Set("electrum."+n+".default_urls_reached", fmt.Sprintf("%d/%d", cnt, len(e.electrum[n])))
	}
}
