//go:build verif

package dkg

import (
	"context"
	"crypto/sha256"
	"fmt"
	"testing"

	"github.com/keep-network/keep-core/internal/testutils"
	"github.com/keep-network/keep-core/pkg/chain"
	"github.com/keep-network/keep-core/pkg/net"
	"github.com/keep-network/keep-core/pkg/protocol/group"
	"github.com/keep-network/keep-core/pkg/protocol/state"
	"github.com/keep-network/keep-core/pkg/verifshim/c13"
	"github.com/keep-network/keep-core/pkg/verifshim/vrep"
)

// c13Signer does what pkg/tbtc's dkgResultSigner does (the production ResultSigner,
// which this package cannot import): sign the result hash with the operator's chain
// key, verify with Signing.VerifyWithPublicKey. The tbtc unit of this check ties the
// real dkgResultSigner.VerifySignature to the same reference.
type c13Signer struct {
	signing chain.Signing
	hash    ResultSignatureHash
}

func (s *c13Signer) SignResult(*Result) (*SignedResult, error) {
	sig, err := s.signing.Sign(s.hash[:])
	if err != nil {
		return nil, err
	}
	return &SignedResult{PublicKey: s.signing.PublicKey(), Signature: sig, ResultHash: s.hash}, nil
}

func (s *c13Signer) VerifySignature(r *SignedResult) (bool, error) {
	return s.signing.VerifyWithPublicKey(r.ResultHash[:], r.Signature, r.PublicKey)
}

// c13Submitter records the map handed to the ResultSubmitter (the threshold gate of
// this leg lives in pkg/tbtc and is explored by the tbtc unit).
type c13Submitter struct{ got []map[uint8][]byte }

func (s *c13Submitter) SubmitResult(_ context.Context, _ group.MemberIndex, _ *Result, signatures map[group.MemberIndex][]byte) error {
	s.got = append(s.got, c13.CloneMap(signatures))
	return nil
}

type c13Channel struct {
	net.BroadcastChannel
	sent []net.TaggedMarshaler
}

func (c *c13Channel) Send(_ context.Context, m net.TaggedMarshaler, _ ...net.RetransmissionStrategy) error {
	c.sent = append(c.sent, m)
	return nil
}

type c13NetMsg struct {
	net.Message
	payload interface{}
	key     []byte
	typ     string
}

func (m *c13NetMsg) Payload() interface{}    { return m.payload }
func (m *c13NetMsg) SenderPublicKey() []byte { return m.key }
func (m *c13NetMsg) Type() string            { return m.typ }
func (m *c13NetMsg) Seqno() uint64           { return 0 }

func c13TecdsaRun(w *c13.World, cfg c13.Config, hist []c13.Wire) c13.Obs {
	ctx := context.Background()
	grp := group.NewGroup(cfg.N()-cfg.Honest, cfg.N())
	cfg.Mark(grp)
	member := newSigningMember(&testutils.MockLogger{}, c13.Self, grp, w.Validator(cfg), c13.RightSession)
	ch := &c13Channel{}
	sub := &c13Submitter{}
	rss := &resultSigningState{
		BaseAsyncState:  state.NewBaseAsyncState(),
		channel:         ch,
		resultSigner:    &c13Signer{signing: w.Signing["A"], hash: ResultSignatureHash(w.Good)},
		resultSubmitter: sub,
		member:          member,
		result:          &Result{Group: grp},
	}
	if err := rss.Initiate(ctx); err != nil {
		panic(fmt.Sprintf("c13 infrastructure: signing state Initiate: %v", err))
	}
	if len(ch.sent) != 1 {
		panic("c13 infrastructure: the member did not broadcast exactly one message")
	}
	typ := (&resultSignatureMessage{}).Type()
	pos := map[net.Message]int{}
	for i, x := range hist {
		var payload *resultSignatureMessage
		if x.Sig == "own" {
			own := *(ch.sent[0].(*resultSignatureMessage))
			payload = &own
		} else {
			payload = &resultSignatureMessage{
				senderID:   group.MemberIndex(x.Idx),
				resultHash: ResultSignatureHash(x.HashBytes),
				signature:  append([]byte{}, x.SigBytes...),
				publicKey:  append([]byte{}, x.PubKey...),
				sessionID:  x.Session,
			}
		}
		nm := &c13NetMsg{payload: payload, key: append([]byte{}, x.NetKey...), typ: typ}
		pos[nm] = i
		if err := rss.Receive(nm); err != nil {
			panic(fmt.Sprintf("c13 infrastructure: Receive returned %v", err))
		}
	}
	var obs c13.Obs
	for _, m := range rss.GetAllReceivedMessages(typ) {
		p, ok := pos[m]
		if !ok {
			p = -1
		}
		obs.Admitted = append(obs.Admitted, p)
	}
	next, err := rss.Next()
	if err != nil {
		panic(fmt.Sprintf("c13 infrastructure: Next: %v", err))
	}
	svs := next.(*signaturesVerificationState)
	if err := svs.Initiate(ctx); err != nil {
		panic(fmt.Sprintf("c13 infrastructure: verification Initiate: %v", err))
	}
	obs.Map = c13.CloneMap(svs.validSignatures)
	last, err := svs.Next()
	if err != nil {
		panic(fmt.Sprintf("c13 infrastructure: Next: %v", err))
	}
	s := c13.Submit{Gate: "ResultSubmitter"}
	if err := last.Initiate(ctx); err != nil {
		s.Err = err.Error()
	}
	if len(sub.got) > 1 {
		panic("c13 infrastructure: more than one submission")
	}
	if len(sub.got) == 1 {
		s.Reached = true
		s.Map = sub.got[0]
	}
	obs.Submits = append(obs.Submits, s)
	return obs
}

func TestVerifC13Tecdsa(t *testing.T) {
	r := vrep.Start(t, "C13", "tecdsa")
	defer r.Finish()
	w := c13.NewWorld(sha256.Sum256([]byte("c13 tecdsa result")), sha256.Sum256([]byte("c13 tecdsa other result")))
	leg := c13.Leg{ID: "C13", Unit: "tecdsa", World: w,
		Run: func(cfg c13.Config, hist []c13.Wire) c13.Obs { return c13TecdsaRun(w, cfg, hist) }}
	c13.Explore(t, r, leg, c13.DefaultBounds(r.Thorough()))
}
