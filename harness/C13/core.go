//go:build verif

// Package c13 is the shared part of the C13 harness (result / claim support counts only
// valid, distinct, matching signatures). It is injected as pkg/verifshim/c13 and used by
// one white-box unit per protocol package. A unit supplies an adapter that builds FRESH
// real protocol objects (signing state -> signature verification state -> submission
// state), delivers a history of signature messages to them and reports what the real
// code admitted, which signature map it produced and what reached the submitter. This
// package owns the alphabet (operators, keys, message menu), the enumeration (explicit
// state BFS over histories merged on the real admitted-message list, plus the unmerged
// enumeration of every history up to a length bound), the reference (the property
// statement, in boring Go) and the reporting.
package c13

import (
	"bytes"
	"crypto/ecdsa"
	"crypto/elliptic"
	"crypto/sha256"
	"encoding/asn1"
	"encoding/json"
	"fmt"
	"math/big"
	"sort"
	"strings"
	"sync"
	"testing"

	"github.com/keep-network/keep-core/internal/testutils"
	"github.com/keep-network/keep-core/pkg/chain"
	"github.com/keep-network/keep-core/pkg/chain/local_v1"
	"github.com/keep-network/keep-core/pkg/operator"
	"github.com/keep-network/keep-core/pkg/protocol/group"
	"github.com/keep-network/keep-core/pkg/verifshim/vrep"
)

// The receiver is always seat 1, held by operator A. X never holds a seat.
const (
	Self         = 1
	RightSession = "session-right"
	OtherSession = "session-other"
)

var OperatorNames = []string{"A", "B", "C", "D", "X"}

// Config is the receiver's view of the group: one operator letter per seat (an
// operator may hold several seats) and the members it has marked inactive or
// disqualified before the signing phase.
type Config struct {
	Name         string  `json:"name"`
	Seats        string  `json:"seats"`
	Inactive     []uint8 `json:"inactive,omitempty"`
	Disqualified []uint8 `json:"disqualified,omitempty"`
	Honest       int     `json:"honest"` // honest threshold of the group
}

func (c Config) N() int { return len(c.Seats) }

// Holder returns the operator letter holding seat j ("" when j is not a seat).
func (c Config) Holder(j uint8) string {
	if j < 1 || int(j) > len(c.Seats) {
		return ""
	}
	return string(c.Seats[j-1])
}

func (c Config) Operating(j uint8) bool {
	if c.Holder(j) == "" {
		return false
	}
	for _, x := range c.Inactive {
		if x == j {
			return false
		}
	}
	for _, x := range c.Disqualified {
		if x == j {
			return false
		}
	}
	return true
}

// Msg describes one signature message of the alphabet.
//
//	Net   operator whose key the network layer reports as the sender key
//	Idx   member index claimed in the payload
//	PK    operator whose public key is carried inside the payload
//	Hash  0 = the hash the receiver prefers, 1 = another hash
//	Sig   "ok"      signature by PK over the claimed hash
//	      "ok2"     a second, different signature by PK over the claimed hash
//	      "oh"      signature by PK over the OTHER hash (does not verify for the claimed one)
//	      "net"     signature by the network key over the claimed hash (PK differs)
//	      "garbage" one byte, "empty" no bytes
//	      "own"     the receiver's own broadcast echoed back (adapter substitutes the
//	                message the real member sent)
//	Sess  0 = the receiver's session, 1 = another session
type Msg struct {
	Name string `json:"name"`
	Net  string `json:"net"`
	Idx  uint8  `json:"idx"`
	PK   string `json:"pk"`
	Hash int    `json:"hash"`
	Sig  string `json:"sig"`
	Sess int    `json:"sess"`
}

// Wire is a materialised message: real key bytes and a real signature.
type Wire struct {
	Msg
	NetKey    []byte
	PubKey    []byte
	HashBytes [32]byte
	SigBytes  []byte
	Session   string
	// Verifies: SigBytes is a valid signature over HashBytes under PubKey (computed
	// with crypto/ecdsa directly, cross-checked against local_v1 at start-up).
	Verifies bool
}

// World holds the deterministic operator keys and the signature material.
type World struct {
	Good, Other [32]byte
	Priv        map[string]*operator.PrivateKey
	Signing     map[string]chain.Signing
	Pub         map[string][]byte
	mu          sync.Mutex
	sigs        map[string][]byte
}

func NewWorld(good, other [32]byte) *World {
	w := &World{Good: good, Other: other, Priv: map[string]*operator.PrivateKey{},
		Signing: map[string]chain.Signing{}, Pub: map[string][]byte{}, sigs: map[string][]byte{}}
	curve := local_v1.DefaultCurve
	for _, name := range OperatorNames {
		h := sha256.Sum256([]byte("verif-c13-operator-" + name))
		d := new(big.Int).SetBytes(h[:])
		d.Mod(d, new(big.Int).Sub(curve.Params().N, big.NewInt(1)))
		d.Add(d, big.NewInt(1))
		x, y := curve.ScalarBaseMult(d.Bytes())
		priv := &operator.PrivateKey{PublicKey: operator.PublicKey{Curve: operator.Secp256k1, X: x, Y: y}, D: d}
		w.Priv[name] = priv
		s := local_v1.NewSigner(priv)
		w.Signing[name] = s
		w.Pub[name] = s.PublicKey()
	}
	return w
}

func (w *World) hash(i int) [32]byte {
	if i == 0 {
		return w.Good
	}
	return w.Other
}

// sig returns the cached signature of operator op over hash h (variant distinguishes
// several signatures over the same hash).
func (w *World) sig(op string, h [32]byte, variant string) []byte {
	key := op + "|" + string(h[:]) + "|" + variant
	w.mu.Lock()
	defer w.mu.Unlock()
	if s, ok := w.sigs[key]; ok {
		return s
	}
	s, err := w.Signing[op].Sign(h[:])
	if err != nil {
		panic(fmt.Sprintf("c13: signing failed: %v", err))
	}
	w.sigs[key] = s
	return s
}

// RefVerify is the reference signature check: ASN.1 (r,s) ECDSA over sha256(message)
// on the chain curve, with the uncompressed public key bytes.
func RefVerify(pub []byte, message []byte, sig []byte) bool {
	curve := local_v1.DefaultCurve
	x, y := elliptic.Unmarshal(curve, pub)
	if x == nil {
		return false
	}
	var rs struct{ R, S *big.Int }
	rest, err := asn1.Unmarshal(sig, &rs)
	if err != nil || len(rest) != 0 || rs.R == nil || rs.S == nil {
		return false
	}
	h := sha256.Sum256(message)
	return ecdsa.Verify(&ecdsa.PublicKey{Curve: curve, X: x, Y: y}, h[:], rs.R, rs.S)
}

// Wire materialises a message description.
func (w *World) Wire(m Msg) Wire {
	x := Wire{Msg: m, NetKey: w.Pub[m.Net], PubKey: w.Pub[m.PK], HashBytes: w.hash(m.Hash), Session: RightSession}
	if m.Sess != 0 {
		x.Session = OtherSession
	}
	switch m.Sig {
	case "ok":
		x.SigBytes = w.sig(m.PK, x.HashBytes, "1")
	case "ok2":
		x.SigBytes = w.sig(m.PK, x.HashBytes, "2")
	case "oh":
		x.SigBytes = w.sig(m.PK, w.hash(1-m.Hash), "1")
	case "net":
		x.SigBytes = w.sig(m.Net, x.HashBytes, "1")
	case "garbage":
		x.SigBytes = []byte{99}
	case "empty":
		x.SigBytes = []byte{}
	case "own":
		// substituted by the adapter
	default:
		panic("c13: unknown signature kind " + m.Sig)
	}
	if m.Sig != "own" {
		x.Verifies = RefVerify(x.PubKey, x.HashBytes[:], x.SigBytes)
	}
	return x
}

// Validator builds the real membership validator for a configuration, the way the
// packages' own tests do (addresses derived by the local_v1 signer).
func (w *World) Validator(cfg Config) *group.MembershipValidator {
	addrs := make([]chain.Address, 0, cfg.N())
	for i := 0; i < cfg.N(); i++ {
		op := string(cfg.Seats[i])
		a, err := w.Signing["A"].PublicKeyToAddress(&w.Priv[op].PublicKey)
		if err != nil {
			panic(fmt.Sprintf("c13: address: %v", err))
		}
		addrs = append(addrs, a)
	}
	return group.NewMembershipValidator(&testutils.MockLogger{}, addrs, w.Signing["A"])
}

// Mark applies the receiver's inactive / disqualified marks to a real group.
func (cfg Config) Mark(g *group.Group) {
	for _, j := range cfg.Inactive {
		g.MarkMemberAsInactive(group.MemberIndex(j))
	}
	for _, j := range cfg.Disqualified {
		g.MarkMemberAsDisqualified(group.MemberIndex(j))
	}
}

// Submit is one call of the submission step observed by the adapter.
type Submit struct {
	Gate      string           // name of the gate configuration
	Threshold int              // required number of signatures (0 = no gate at this layer)
	Reached   bool             // the signature map reached the submitter (chain / submitter interface)
	Map       map[uint8][]byte // the map that reached it
	Err       string
}

// Obs is what the adapter observed for one history.
type Obs struct {
	// Admitted: positions (in the history) of the messages the real signing state
	// holds after the history, in the order it holds them.
	Admitted []int
	// Map: the signature map the real verification produced and handed on.
	Map map[uint8][]byte
	// Submits: what the submission step did, one entry per gate configuration.
	Submits []Submit
}

// Problem is one contradiction of the statement.
type Problem struct{ Kind, What string }

// CloneMap copies a member-index keyed signature map (adapters use it to snapshot).
func CloneMap[K ~uint8](m map[K][]byte) map[uint8][]byte {
	if m == nil {
		return nil
	}
	c := make(map[uint8][]byte, len(m))
	for k, v := range m {
		c[uint8(k)] = append([]byte{}, v...)
	}
	return c
}

// qualifies: message m entitles seat j to one entry, per the statement:
// (a) sent with the network key that holds seat j, (b) carries that key as its public
// key, (c) signs exactly the receiver's hash, (d) the signature verifies; j is another
// operating member.
func qualifies(cfg Config, m Wire, j uint8) bool {
	return m.Sig != "own" && m.Idx == j && j != Self && cfg.Operating(j) &&
		cfg.Holder(j) == m.Net && m.PK == m.Net && m.Hash == 0 && m.Verifies
}

// judgeMap checks one signature map against the statement. ownOK caches the (costly)
// verification of own signatures by their bytes within one observation.
func judgeMap(w *World, cfg Config, hist []Wire, where string, m map[uint8][]byte, ownOK map[string]bool) []Problem {
	var ps []Problem
	if m == nil {
		return nil
	}
	own, ok := m[Self]
	if !ok {
		ps = append(ps, Problem{"own-missing", where + ": the map has no entry for the member itself"})
	} else {
		good, seen := ownOK[string(own)]
		if !seen {
			good = RefVerify(w.Pub["A"], w.Good[:], own)
			ownOK[string(own)] = good
		}
		if !good {
			ps = append(ps, Problem{"own-invalid", where + ": the member's own entry is not its signature over its result hash"})
		}
	}
	keys := make([]int, 0, len(m))
	for j := range m {
		keys = append(keys, int(j))
	}
	sort.Ints(keys)
	for _, k := range keys {
		j := uint8(k)
		if j == Self {
			continue
		}
		justified := false
		why := ""
		for _, x := range hist {
			if qualifies(cfg, x, j) && bytes.Equal(x.SigBytes, m[j]) {
				justified = true
				break
			}
			if x.Sig != "own" && bytes.Equal(x.SigBytes, m[j]) && why == "" {
				var miss []string
				if x.Idx != j {
					miss = append(miss, fmt.Sprintf("it claims index %d", x.Idx))
				}
				if !cfg.Operating(j) {
					miss = append(miss, fmt.Sprintf("member %d is not operating", j))
				}
				if cfg.Holder(j) != x.Net {
					miss = append(miss, fmt.Sprintf("network key %s does not hold seat %d (holder %q)", x.Net, j, cfg.Holder(j)))
				}
				if x.PK != x.Net {
					miss = append(miss, fmt.Sprintf("public key in the message is %s's, network key is %s's", x.PK, x.Net))
				}
				if x.Hash != 0 {
					miss = append(miss, "it signs another hash")
				}
				if !x.Verifies {
					miss = append(miss, "the signature does not verify")
				}
				why = fmt.Sprintf("entry is the signature of message %s: %s", x.Name, strings.Join(miss, "; "))
			}
		}
		if !justified {
			if why == "" {
				why = "no message of the history carries this signature"
			}
			ps = append(ps, Problem{"entry-unjustified", fmt.Sprintf("%s: entry for member %d is not backed by a valid matching signature of that member (%s)", where, j, why)})
		}
	}
	return ps
}

// Judge checks an observation against the statement.
func Judge(w *World, cfg Config, hist []Wire, o Obs) []Problem {
	ownOK := map[string]bool{}
	ps := judgeMap(w, cfg, hist, "verified map", o.Map, ownOK)
	if o.Map == nil {
		ps = append(ps, Problem{"no-map", "the verification step produced no signature map"})
	}
	for _, s := range o.Submits {
		if !s.Reached {
			continue
		}
		for _, p := range judgeMap(w, cfg, hist, "map submitted (gate "+s.Gate+")", s.Map, ownOK) {
			p.Kind = "submitted-" + p.Kind
			ps = append(ps, p)
		}
		if s.Threshold > 0 && len(s.Map) < s.Threshold {
			ps = append(ps, Problem{"submit-below-threshold", fmt.Sprintf("gate %s: submitted with %d signatures, required threshold %d", s.Gate, len(s.Map), s.Threshold)})
		}
	}
	return ps
}

// ---------------------------------------------------------------------------------
// alphabet

var (
	// CfgBase: A(self) B C C D, seat 5 marked inactive by the receiver.
	CfgBase = Config{Name: "ABCCD-ia5", Seats: "ABCCD", Inactive: []uint8{5}, Honest: 3}
	// CfgDQ: seat 5 disqualified, seat 2 inactive (B's messages must be refused).
	CfgDQ = Config{Name: "ABCCD-dq5-ia2", Seats: "ABCCD", Inactive: []uint8{2}, Disqualified: []uint8{5}, Honest: 3}
	// CfgAll: everybody operating, B holds two seats as well.
	CfgAll = Config{Name: "ABBCD-all", Seats: "ABBCD", Honest: 3}
)

// Menu returns the message alphabet. The quick menu has one representative per class of
// the quantifier; the thorough menu adds variants.
func Menu(thorough bool) []Msg {
	m := []Msg{
		{Name: "v2", Net: "B", Idx: 2, PK: "B", Sig: "ok"},             // valid, member 2
		{Name: "v2b", Net: "B", Idx: 2, PK: "B", Sig: "ok2"},           // second valid signature of member 2 (duplicate, other bytes)
		{Name: "v3", Net: "C", Idx: 3, PK: "C", Sig: "ok"},             // valid, member 3 (operator C)
		{Name: "v4", Net: "C", Idx: 4, PK: "C", Sig: "ok"},             // valid, member 4: SAME signature bytes as v3 (C holds both seats)
		{Name: "h2", Net: "B", Idx: 2, PK: "B", Hash: 1, Sig: "ok"},    // valid signature over another hash
		{Name: "bad3", Net: "C", Idx: 3, PK: "C", Sig: "garbage"},      // invalid signature
		{Name: "oh4", Net: "C", Idx: 4, PK: "C", Sig: "oh"},            // claims the right hash, signature is over the other one
		{Name: "swapX2", Net: "B", Idx: 2, PK: "X", Sig: "ok"},         // key inside differs from network key; verifies under the inner key
		{Name: "swapB3", Net: "C", Idx: 3, PK: "B", Sig: "ok"},         // member 3 presents member 2's key and signature
		{Name: "outX2", Net: "X", Idx: 2, PK: "X", Sig: "ok"},          // sent by a non-member
		{Name: "steal3", Net: "B", Idx: 3, PK: "B", Sig: "ok"},         // B claims seat 3 it does not hold
		{Name: "self1", Net: "B", Idx: 1, PK: "B", Sig: "ok"},          // claims the receiver's own index
		{Name: "echo", Net: "A", Idx: 1, PK: "A", Sig: "own"},          // the receiver's own broadcast
		{Name: "ia5", Net: "D", Idx: 5, PK: "D", Sig: "ok"},            // member the receiver marked inactive / disqualified
		{Name: "sess2", Net: "B", Idx: 2, PK: "B", Sig: "ok", Sess: 1}, // other session id
	}
	if thorough {
		m = append(m,
			Msg{Name: "v4b", Net: "C", Idx: 4, PK: "C", Sig: "ok2"},        // member 4 with different bytes than v3
			Msg{Name: "h3", Net: "C", Idx: 3, PK: "C", Hash: 1, Sig: "ok"}, // member 3 over another hash
			Msg{Name: "empty2", Net: "B", Idx: 2, PK: "B", Sig: "empty"},   // empty signature
			Msg{Name: "net2", Net: "B", Idx: 2, PK: "X", Sig: "net"},       // B's genuine signature but X's key inside
			Msg{Name: "relay2", Net: "C", Idx: 2, PK: "B", Sig: "ok"},      // C relays B's genuine content under index 2
			Msg{Name: "idx0", Net: "B", Idx: 0, PK: "B", Sig: "ok"},        // index 0
			Msg{Name: "idx6", Net: "B", Idx: 6, PK: "B", Sig: "ok"},        // index beyond the group
			Msg{Name: "selfA1", Net: "A", Idx: 1, PK: "A", Sig: "ok"},      // own key, own index, fresh signature
			Msg{Name: "selfA2", Net: "A", Idx: 2, PK: "A", Sig: "ok"},      // own key under another member's index
		)
	}
	return m
}

// ---------------------------------------------------------------------------------
// exploration

// Leg describes one protocol leg to the shared driver.
type Leg struct {
	ID, Unit string
	World    *World
	// Run executes one history on fresh real objects.
	Run func(cfg Config, hist []Wire) Obs
}

type replay struct {
	Unit string   `json:"unit"`
	Cfg  string   `json:"cfg"`
	Hist []string `json:"hist"`
}

type explorer struct {
	r     *vrep.R
	leg   Leg
	menu  []Msg
	wires []Wire
}

func (e *explorer) names(hist []int) []string {
	out := make([]string, len(hist))
	for i, k := range hist {
		out[i] = e.menu[k].Name
	}
	return out
}

// result of one executed history
type evalResult struct {
	stateKey string
	obs      Obs
	problems []Problem
	panicked any
	stack    string
}

func (e *explorer) eval(cfg Config, hist []int) evalResult {
	ws := make([]Wire, len(hist))
	for i, k := range hist {
		ws[i] = e.wires[k]
	}
	var res evalResult
	res.panicked, res.stack = vrep.Guard(func() { res.obs = e.leg.Run(cfg, ws) })
	if res.panicked != nil {
		return res
	}
	res.problems = Judge(e.leg.World, cfg, ws, res.obs)
	adm := make([]string, len(res.obs.Admitted))
	for i, p := range res.obs.Admitted {
		if p < 0 || p >= len(hist) {
			adm[i] = "?"
			res.problems = append(res.problems, Problem{"admitted-unknown", "the signing state holds a message that was not delivered"})
			continue
		}
		adm[i] = e.menu[hist[p]].Name
	}
	res.stateKey = cfg.Name + "|" + strings.Join(adm, ",")
	return res
}

// report records violations and outcome classes of one executed history.
func (e *explorer) report(cfg Config, hist []int, res evalResult, prevAdmitted int) {
	r := e.r
	names := e.names(hist)
	fp := fmt.Sprintf("%s %s [%s]", e.leg.Unit, cfg.Name, strings.Join(names, " "))
	rp := replay{Unit: e.leg.Unit, Cfg: cfg.Name, Hist: names}
	if res.panicked != nil {
		r.ViolationMin(e.leg.Unit+":panic", len(hist), "panic "+fp, fmt.Sprintf("panic: %v\n%s", res.panicked, res.stack), rp)
		return
	}
	for _, p := range res.problems {
		r.ViolationMin(e.leg.Unit+":"+p.Kind, len(hist), p.Kind+" "+fp, p.What+" [history "+fp+"]", rp)
	}
	// outcome classes
	if len(hist) > 0 && prevAdmitted >= 0 {
		last := e.menu[hist[len(hist)-1]].Name
		if len(res.obs.Admitted) > prevAdmitted {
			r.Outcome("msg " + last + ": admitted")
		} else {
			r.Outcome("msg " + last + ": refused")
		}
	}
	others := 0
	for j := range res.obs.Map {
		if j != Self {
			others++
		}
	}
	// did some seat send a qualifying message that is not counted? (allowed; class only)
	dropped := false
	for j := uint8(2); int(j) <= cfg.N(); j++ {
		if _, in := res.obs.Map[j]; in {
			continue
		}
		for _, k := range hist {
			if qualifies(cfg, e.wires[k], j) {
				dropped = true
			}
		}
	}
	if dropped {
		r.Outcome("a member with a qualifying message is not counted")
	}
	for _, s := range res.obs.Submits {
		cls := "not-submitted"
		if s.Reached {
			cls = "submitted"
		}
		if s.Threshold > 0 {
			rel := "below"
			if len(res.obs.Map) >= s.Threshold {
				rel = "at-or-above"
			}
			r.Outcome(fmt.Sprintf("gate: %s threshold -> %s", rel, cls))
		} else {
			r.Outcome("handed to submitter: " + cls)
		}
	}
	r.Outcome(fmt.Sprintf("map: self + %d others", others))
}

// nontrivial: the history makes two messages collide (same claimed index, same
// network key, or the same signature bytes twice).
func (e *explorer) nontrivial(hist []int) bool {
	for i := 0; i < len(hist); i++ {
		for j := i + 1; j < len(hist); j++ {
			a, b := e.wires[hist[i]], e.wires[hist[j]]
			if a.Idx == b.Idx || a.Net == b.Net || (len(a.SigBytes) > 0 && bytes.Equal(a.SigBytes, b.SigBytes)) {
				return true
			}
		}
	}
	return false
}

// Bounds of the exploration.
type Bounds struct {
	Configs  []Config
	BFSDepth int // merged search: histories up to this length ...
	BFSDeep  int // ... on the first BFSDeep configurations, one less on the others
	FlatLen  int // unmerged search: every history up to this length
	FlatCfgs int // unmerged search runs on the first FlatCfgs configurations
}

// Explore runs both searches of one leg and reports into r.
func Explore(t *testing.T, r *vrep.R, leg Leg, b Bounds) {
	menu := Menu(r.Thorough())
	e := &explorer{r: r, leg: leg, menu: menu}
	for _, m := range menu {
		e.wires = append(e.wires, leg.World.Wire(m))
	}
	sanity(t, leg.World, e.wires)

	if rd := r.ReplayData(); rd != nil {
		var rp replay
		if json.Unmarshal(rd, &rp) != nil || rp.Unit != leg.Unit {
			return
		}
		// replay may use any message of the thorough menu
		e.menu = Menu(true)
		e.wires = nil
		for _, m := range e.menu {
			e.wires = append(e.wires, leg.World.Wire(m))
		}
		var cfg *Config
		for _, c := range []Config{CfgBase, CfgDQ, CfgAll} {
			if c.Name == rp.Cfg {
				cc := c
				cfg = &cc
			}
		}
		if cfg == nil {
			t.Fatalf("replay: unknown configuration %q", rp.Cfg)
		}
		var hist []int
		for _, n := range rp.Hist {
			found := -1
			for k, m := range e.menu {
				if m.Name == n {
					found = k
				}
			}
			if found < 0 {
				t.Fatalf("replay: unknown message %q", n)
			}
			hist = append(hist, found)
		}
		res := e.eval(*cfg, hist)
		e.report(*cfg, hist, res, -1)
		r.Eval(1)
		return
	}

	r.Set(leg.Unit+".menu", len(menu))
	r.Set(leg.Unit+".flat_len", b.FlatLen)

	sampled := 0
	// ---- search 1: explicit-state BFS, merged on the real admitted-message list ----
	type node struct {
		hist     []int
		admitted int
	}
	for ci, cfg := range b.Configs {
		root := e.eval(cfg, nil)
		r.Eval(1)
		e.report(cfg, nil, root, -1)
		if root.panicked == nil {
			r.State(root.stateKey)
		}
		frontier := []node{{nil, 0}}
		maxDepth := b.BFSDepth
		if ci >= b.BFSDeep {
			maxDepth--
		}
		r.Set(leg.Unit+".bfs_depth."+cfg.Name, maxDepth)
		for depth := 1; depth <= maxDepth && len(frontier) > 0 && !r.Expired(); depth++ {
			type cand struct {
				hist []int
				prev int
				res  evalResult
				done bool
			}
			cands := make([]cand, 0, len(frontier)*len(menu))
			for _, nd := range frontier {
				for k := range menu {
					h := append(append(make([]int, 0, len(nd.hist)+1), nd.hist...), k)
					cands = append(cands, cand{hist: h, prev: nd.admitted})
				}
			}
			vrep.Parallel(vrep.Workers(), len(cands), func(i int) {
				if r.Expired() {
					return
				}
				cands[i].res = e.eval(cfg, cands[i].hist)
				cands[i].done = true
			})
			var next []node
			for i := range cands {
				c := &cands[i]
				if !c.done {
					continue
				}
				r.Eval(1)
				r.Transition(1)
				e.report(cfg, c.hist, c.res, c.prev)
				if e.nontrivial(c.hist) {
					r.Distinct(cfg.Name + "|" + strings.Join(e.names(c.hist), ","))
				}
				if c.res.panicked != nil {
					continue
				}
				if sampled < 3 && len(c.hist) >= 3 && len(c.res.obs.Map) >= 3 && len(c.res.obs.Admitted) < len(c.hist) {
					sampled++
					r.Sample(map[string]any{"unit": leg.Unit, "config": cfg.Name, "history": e.names(c.hist),
						"admitted_state": c.res.stateKey, "map_size": len(c.res.obs.Map)})
				}
				if r.State(c.res.stateKey) {
					next = append(next, node{c.hist, len(c.res.obs.Admitted)})
				}
			}
			frontier = next
		}
		if r.Expired() {
			r.Cap("merged search stopped by the deadline")
		}
	}

	// ---- search 2: every history up to FlatLen, no merging ----
	flatCfgs := b.Configs
	if b.FlatCfgs < len(flatCfgs) {
		flatCfgs = flatCfgs[:b.FlatCfgs]
	}
	var flat int64
	var flatMu sync.Mutex
	for _, cfg := range flatCfgs {
		cfg := cfg
		// work list: every prefix of length min(2, FlatLen); shorter histories are
		// evaluated once by the block that owns their lexicographically first extension
		pre := 2
		if b.FlatLen < pre {
			pre = b.FlatLen
		}
		var prefixes [][]int
		var gen func(h []int)
		gen = func(h []int) {
			if len(h) == pre {
				prefixes = append(prefixes, append([]int{}, h...))
				return
			}
			for k := range menu {
				gen(append(h, k))
			}
		}
		gen(nil)
		// histories shorter than the prefix length
		var shorts [][]int
		var genShort func(h []int)
		genShort = func(h []int) {
			if len(h) >= pre {
				return
			}
			shorts = append(shorts, append([]int{}, h...))
			for k := range menu {
				genShort(append(h, k))
			}
		}
		genShort(nil)
		one := func(h []int) {
			res := e.eval(cfg, h)
			e.report(cfg, h, res, -1)
			if e.nontrivial(h) {
				r.Distinct(cfg.Name + "|" + strings.Join(e.names(h), ","))
			}
		}
		vrep.Parallel(vrep.Workers(), len(prefixes), func(i int) {
			n := 0
			var rec func(h []int)
			rec = func(h []int) {
				if r.Expired() {
					return
				}
				one(h)
				n++
				if len(h) == b.FlatLen {
					return
				}
				for k := range menu {
					rec(append(append(make([]int, 0, len(h)+1), h...), k))
				}
			}
			rec(prefixes[i])
			r.Eval(n)
			flatMu.Lock()
			flat += int64(n)
			flatMu.Unlock()
		})
		for _, h := range shorts {
			one(h)
			r.Eval(1)
			flat++
		}
	}
	r.Set(leg.Unit+".histories_unmerged", flat)
	if r.Expired() {
		r.Cap("unmerged enumeration stopped by the deadline")
	}
}

// sanity cross-checks the reference verification against the chain signing used by the
// code under test and the intended meaning of every menu entry. A failure is an
// infrastructure error, not a verdict.
func sanity(t *testing.T, w *World, wires []Wire) {
	for _, x := range wires {
		if x.Sig == "own" {
			continue
		}
		ok, err := w.Signing["A"].VerifyWithPublicKey(x.HashBytes[:], x.SigBytes, x.PubKey)
		if (err == nil && ok) != x.Verifies {
			t.Fatalf("c13 sanity: message %s: reference verification %v, local_v1 %v/%v", x.Name, x.Verifies, ok, err)
		}
		want := x.Sig == "ok" || x.Sig == "ok2"
		if x.Verifies != want {
			t.Fatalf("c13 sanity: message %s (sig %s) verifies=%v, expected %v", x.Name, x.Sig, x.Verifies, want)
		}
	}
}

// DefaultBounds are the bounds every leg uses.
func DefaultBounds(thorough bool) Bounds {
	if thorough {
		return Bounds{Configs: []Config{CfgBase, CfgDQ, CfgAll}, BFSDepth: 5, BFSDeep: 1, FlatLen: 3, FlatCfgs: 3}
	}
	return Bounds{Configs: []Config{CfgBase, CfgDQ, CfgAll}, BFSDepth: 4, BFSDeep: 3, FlatLen: 3, FlatCfgs: 3}
}
