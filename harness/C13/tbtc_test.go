//go:build verif

package tbtc

import (
	"bytes"
	"context"
	"crypto/ecdsa"
	"crypto/sha256"
	"encoding/json"
	"fmt"
	"math/big"
	"sort"
	"testing"

	"github.com/keep-network/keep-core/internal/testutils"
	"github.com/keep-network/keep-core/pkg/bitcoin"
	"github.com/keep-network/keep-core/pkg/chain"
	"github.com/keep-network/keep-core/pkg/internal/tecdsatest"
	"github.com/keep-network/keep-core/pkg/protocol/group"
	"github.com/keep-network/keep-core/pkg/protocol/inactivity"
	"github.com/keep-network/keep-core/pkg/tecdsa"
	"github.com/keep-network/keep-core/pkg/tecdsa/dkg"
	"github.com/keep-network/keep-core/pkg/verifshim/c13"
	"github.com/keep-network/keep-core/pkg/verifshim/vrep"
)

// c13TbtcChain is the package's own local chain double with recorders in front of
// the assembling / submitting calls.
type c13TbtcChain struct {
	*localChain
	assembledDKG    []map[uint8][]byte
	submittedDKG    int
	assembledClaim  []map[uint8][]byte
	submittedClaims int
}

func (c *c13TbtcChain) AssembleDKGResult(
	submitterMemberIndex group.MemberIndex,
	groupPublicKey *ecdsa.PublicKey,
	operatingMembersIndexes []group.MemberIndex,
	misbehavedMembersIndexes []group.MemberIndex,
	signatures map[group.MemberIndex][]byte,
	groupSelectionResult *GroupSelectionResult,
) (*DKGChainResult, error) {
	c.assembledDKG = append(c.assembledDKG, c13.CloneMap(signatures))
	return c.localChain.AssembleDKGResult(submitterMemberIndex, groupPublicKey, operatingMembersIndexes,
		misbehavedMembersIndexes, signatures, groupSelectionResult)
}

func (c *c13TbtcChain) SubmitDKGResult(r *DKGChainResult) error {
	c.submittedDKG++
	return c.localChain.SubmitDKGResult(r)
}

func (c *c13TbtcChain) AssembleInactivityClaim(
	walletID [32]byte,
	inactiveMembersIndices []group.MemberIndex,
	signatures map[group.MemberIndex][]byte,
	heartbeatFailed bool,
) (*InactivityClaim, error) {
	c.assembledClaim = append(c.assembledClaim, c13.CloneMap(signatures))
	return c.localChain.AssembleInactivityClaim(walletID, inactiveMembersIndices, signatures, heartbeatFailed)
}

func (c *c13TbtcChain) SubmitInactivityClaim(claim *InactivityClaim, nonce *big.Int, groupMembers []uint32) error {
	c.submittedClaims++
	return c.localChain.SubmitInactivityClaim(claim, nonce, groupMembers)
}

// c13GateCase is one call of a threshold gate.
type c13GateCase struct {
	Gate      string  `json:"gate"`      // "dkg" or "claim"
	Members   []uint8 `json:"members"`   // member indexes present in the signature map
	Threshold int     `json:"threshold"` // GroupQuorum (dkg) / HonestThreshold (claim)
	Open      bool    `json:"open"`      // chain still awaits the result / claim nonce not used yet
	Valid     bool    `json:"valid"`     // dkg only: chain says the assembled result is valid
}

func (c c13GateCase) String() string {
	return fmt.Sprintf("%s members=%v threshold=%d open=%v valid=%v", c.Gate, c.Members, c.Threshold, c.Open, c.Valid)
}

func c13SameMap(a, b map[uint8][]byte) bool {
	if len(a) != len(b) {
		return false
	}
	for k, v := range a {
		w, ok := b[k]
		if !ok || !bytes.Equal(v, w) {
			return false
		}
	}
	return true
}

type c13TbtcEnv struct {
	chain     *c13TbtcChain
	share     *tecdsa.PrivateKeyShare
	walletPKH [20]byte
	walletID  [32]byte
}

func (e *c13TbtcEnv) run(r *vrep.R, c c13GateCase) {
	sigs := map[group.MemberIndex][]byte{}
	for _, m := range c.Members {
		sigs[group.MemberIndex(m)] = []byte(fmt.Sprintf("signature %d", m))
	}
	want := c13.CloneMap(sigs)
	lc := e.chain.localChain
	e.chain.assembledDKG, e.chain.submittedDKG, e.chain.assembledClaim, e.chain.submittedClaims = nil, 0, nil, 0
	wait := func(context.Context, uint64) error { return nil }
	var err error
	var reached bool
	var assembled []map[uint8][]byte
	report := func(kind, what string) {
		r.ViolationMin("tbtc:"+c.Gate+":"+kind, len(c.Members), "tbtc "+kind+" "+c.String(), what+" [case "+c.String()+"]", c)
	}
	p, stack := vrep.Guard(func() {
		switch c.Gate {
		case "dkg":
			lc.dkgMutex.Lock()
			lc.dkgState, lc.dkgResult, lc.dkgResultValid = AwaitingResult, nil, c.Valid
			if !c.Open {
				lc.dkgState = Challenge
			}
			lc.dkgMutex.Unlock()
			params := &GroupParameters{GroupSize: 5, GroupQuorum: c.Threshold, HonestThreshold: 3}
			sel := &GroupSelectionResult{OperatorsIDs: chain.OperatorIDs{1, 2, 3, 3, 4},
				OperatorsAddresses: chain.Addresses{"a", "b", "c", "c", "d"}}
			sub := newDkgResultSubmitter(&testutils.MockLogger{}, e.chain, params, sel, wait)
			result := &dkg.Result{Group: group.NewGroup(2, 5), PrivateKeyShare: e.share}
			err = sub.SubmitResult(context.Background(), 1, result, sigs)
			reached, assembled = e.chain.submittedDKG > 0, e.chain.assembledDKG
		case "claim":
			lc.inactivityNonceMutex.Lock()
			lc.inactivityNonces[e.walletID] = 0
			if !c.Open {
				lc.inactivityNonces[e.walletID] = 1
			}
			lc.inactivityNonceMutex.Unlock()
			params := &GroupParameters{GroupSize: 5, GroupQuorum: 4, HonestThreshold: c.Threshold}
			sub := newInactivityClaimSubmitter(&testutils.MockLogger{}, e.chain, params, []uint32{1, 2, 3, 3, 4}, wait)
			claim := inactivity.NewClaimPreimage(big.NewInt(0), e.share.PublicKey(), []group.MemberIndex{5}, true)
			err = sub.SubmitClaim(context.Background(), 1, claim, sigs)
			reached, assembled = e.chain.submittedClaims > 0, e.chain.assembledClaim
		}
	})
	if p != nil {
		report("panic", fmt.Sprintf("panic: %v\n%s", p, stack))
		return
	}
	rel := "below"
	if len(c.Members) >= c.Threshold {
		rel = "at-or-above"
	}
	cls := "not-submitted"
	if reached {
		cls = "submitted"
	}
	if err != nil {
		cls += "+error"
	}
	r.Outcome(fmt.Sprintf("%s gate: %s threshold, open=%v -> %s", c.Gate, rel, c.Open, cls))
	r.State(fmt.Sprintf("tbtc|%s|n=%d|t=%d|open=%v|valid=%v", c.Gate, len(c.Members), c.Threshold, c.Open, c.Valid))
	if len(c.Members) >= c.Threshold-1 && len(c.Members) <= c.Threshold {
		r.Distinct("tbtc|" + c.String())
	}
	if reached && len(c.Members) < c.Threshold {
		report("submit-below-threshold", fmt.Sprintf("%s submitted with %d signatures, required threshold %d", c.Gate, len(c.Members), c.Threshold))
	}
	if reached {
		if len(assembled) != 1 || !c13SameMap(assembled[0], want) {
			report("submitted-map-differs", fmt.Sprintf("%s: the signatures assembled for the chain %v are not the map given to the submitter", c.Gate, assembled))
		}
	}
}

// c13Subsets lists every subset of {1..n} as a sorted member list.
func c13Subsets(n int) [][]uint8 {
	var out [][]uint8
	for mask := 0; mask < 1<<uint(n); mask++ {
		var l []uint8
		for i := 0; i < n; i++ {
			if mask>>uint(i)&1 == 1 {
				l = append(l, uint8(i+1))
			}
		}
		out = append(out, l)
	}
	sort.SliceStable(out, func(i, j int) bool { return len(out[i]) < len(out[j]) })
	return out
}

func TestVerifC13Tbtc(t *testing.T) {
	r := vrep.Start(t, "C13", "tbtc")
	defer r.Finish()

	good, other := sha256.Sum256([]byte("c13 tbtc hash")), sha256.Sum256([]byte("c13 tbtc other hash"))
	w := c13.NewWorld(good, other)
	testData, err := tecdsatest.LoadPrivateKeyShareTestFixtures(1)
	if err != nil {
		t.Fatalf("failed to load test data: [%v]", err)
	}
	share := tecdsa.NewPrivateKeyShare(testData[0])
	env := &c13TbtcEnv{chain: &c13TbtcChain{localChain: ConnectWithKey(w.Priv["A"])}, share: share,
		walletPKH: bitcoin.PublicKeyHash(share.PublicKey()), walletID: [32]byte{1, 2, 3}}
	env.chain.setWallet(env.walletPKH, &WalletChainData{EcdsaWalletID: env.walletID})

	if rd := r.ReplayData(); rd != nil {
		var c c13GateCase
		if json.Unmarshal(rd, &c) == nil && c.Gate != "" {
			if c.Gate == "dkg" || c.Gate == "claim" {
				env.run(r, c)
			} else {
				c13TbtcSigners(t, r, w, env)
			}
			r.Eval(1)
		}
		return
	}

	// ---- the production signers against the reference verification ----
	c13TbtcSigners(t, r, w, env)

	// ---- the threshold gates: every signature map over 5 (thorough 6) members x every
	// threshold x chain state ----
	n := 5
	if r.Thorough() {
		n = 6
	}
	subsets := c13Subsets(n)
	for _, members := range subsets {
		for th := 0; th <= n+1; th++ {
			for _, open := range []bool{true, false} {
				for _, valid := range []bool{true, false} {
					env.run(r, c13GateCase{Gate: "dkg", Members: members, Threshold: th, Open: open, Valid: valid})
					r.Eval(1)
					r.Transition(1)
				}
				env.run(r, c13GateCase{Gate: "claim", Members: members, Threshold: th, Open: open})
				r.Eval(1)
				r.Transition(1)
			}
		}
	}
	r.Set("tbtc.signature_maps", len(subsets))
}

// c13TbtcSigners runs the real dkgResultSigner and inactivityClaimSigner over the
// signature material of the message menu: VerifySignature must not accept anything the
// reference verification rejects, and SignResult / SignClaim must produce the
// operator's own valid signature under its network key.
func c13TbtcSigners(t *testing.T, r *vrep.R, w *c13.World, env *c13TbtcEnv) {
	ds := newDkgResultSigner(env.chain, 100)
	cs := newInactivityClaimSigner(env.chain)
	type sigCase struct {
		Gate string `json:"gate"`
		Name string `json:"name"`
	}
	for _, m := range c13.Menu(true) {
		if m.Sig == "own" {
			continue
		}
		x := w.Wire(m)
		for _, which := range []string{"dkg-signer", "claim-signer"} {
			var ok bool
			var verr error
			p, stack := vrep.Guard(func() {
				if which == "dkg-signer" {
					ok, verr = ds.VerifySignature(&dkg.SignedResult{PublicKey: x.PubKey, Signature: x.SigBytes, ResultHash: dkg.ResultSignatureHash(x.HashBytes)})
				} else {
					ok, verr = cs.VerifySignature(&inactivity.SignedClaimHash{PublicKey: x.PubKey, Signature: x.SigBytes, ClaimHash: inactivity.ClaimHash(x.HashBytes)})
				}
			})
			r.Eval(1)
			fp := fmt.Sprintf("tbtc %s message %s", which, m.Name)
			if p != nil {
				r.ViolationMin("tbtc:signer-panic", 1, fp, fmt.Sprintf("panic: %v\n%s", p, stack), sigCase{which, m.Name})
				continue
			}
			accepted := ok && verr == nil
			r.Outcome(fmt.Sprintf("%s: reference verifies=%v -> accepted=%v", which, x.Verifies, accepted))
			r.Distinct("tbtc|" + which + "|" + m.Name)
			if accepted && !x.Verifies {
				r.ViolationMin("tbtc:signer-accepts-invalid", 1, fp,
					fmt.Sprintf("%s.VerifySignature accepts the signature of message %s (%s by %s over hash %d) which does not verify", which, m.Name, m.Sig, m.PK, m.Hash), sigCase{which, m.Name})
			}
		}
	}
	// own signatures
	result := &dkg.Result{Group: group.NewGroup(2, 5), PrivateKeyShare: env.share}
	if sr, err := ds.SignResult(result); err != nil {
		t.Fatalf("SignResult: %v", err)
	} else if !bytes.Equal(sr.PublicKey, w.Pub["A"]) || !c13.RefVerify(sr.PublicKey, sr.ResultHash[:], sr.Signature) {
		r.ViolationMin("tbtc:own-invalid", 1, "tbtc dkg-signer own", "SignResult does not return the operator's valid signature under its network key", sigCase{"dkg-signer", "own"})
	}
	claim := inactivity.NewClaimPreimage(big.NewInt(0), env.share.PublicKey(), []group.MemberIndex{5}, true)
	if sc, err := cs.SignClaim(claim); err != nil {
		t.Fatalf("SignClaim: %v", err)
	} else if !bytes.Equal(sc.PublicKey, w.Pub["A"]) || !c13.RefVerify(sc.PublicKey, sc.ClaimHash[:], sc.Signature) {
		r.ViolationMin("tbtc:own-invalid", 1, "tbtc claim-signer own", "SignClaim does not return the operator's valid signature under its network key", sigCase{"claim-signer", "own"})
	}
	r.Eval(2)
}
