//go:build verif

package result

import (
	"context"
	"fmt"
	"testing"

	"golang.org/x/crypto/sha3"

	"github.com/keep-network/keep-core/internal/testutils"
	beaconchain "github.com/keep-network/keep-core/pkg/beacon/chain"
	"github.com/keep-network/keep-core/pkg/beacon/event"
	"github.com/keep-network/keep-core/pkg/chain"
	"github.com/keep-network/keep-core/pkg/net"
	"github.com/keep-network/keep-core/pkg/protocol/group"
	"github.com/keep-network/keep-core/pkg/subscription"
	"github.com/keep-network/keep-core/pkg/verifshim/c13"
	"github.com/keep-network/keep-core/pkg/verifshim/vrep"
)

// c13Chain is the beacon chain seen by the member under test: real local_v1 signing
// with the member's operator key, the local chain's result hash, a configurable group
// configuration, and a recorder for SubmitDKGResult. Every other method of the
// interface panics (nil embedded interface) - the code under test must not need them.
type c13Chain struct {
	beaconchain.Interface
	signing   chain.Signing
	config    *beaconchain.Config
	submitted []map[uint8][]byte
}

func (c *c13Chain) GetConfig() *beaconchain.Config { return c.config }
func (c *c13Chain) Signing() chain.Signing         { return c.signing }

func (c *c13Chain) CalculateDKGResultHash(r *beaconchain.DKGResult) (beaconchain.DKGResultHash, error) {
	return c13BeaconHash(r), nil
}

// same construction as pkg/chain/local_v1
func c13BeaconHash(r *beaconchain.DKGResult) beaconchain.DKGResultHash {
	return beaconchain.DKGResultHash(sha3.Sum256([]byte(fmt.Sprint(r))))
}

func (c *c13Chain) OnDKGResultSubmitted(func(*event.DKGResultSubmission)) subscription.EventSubscription {
	return subscription.NewEventSubscription(func() {})
}

func (c *c13Chain) IsGroupRegistered([]byte) (bool, error) { return false, nil }

func (c *c13Chain) SubmitDKGResult(
	_ beaconchain.GroupMemberIndex,
	_ *beaconchain.DKGResult,
	signatures map[beaconchain.GroupMemberIndex][]byte,
) error {
	c.submitted = append(c.submitted, c13.CloneMap(signatures))
	return nil
}

// c13Blocks: every block height has already been reached.
type c13Blocks struct{ chain.BlockCounter }

func (c13Blocks) BlockHeightWaiter(h uint64) (<-chan uint64, error) {
	ch := make(chan uint64, 1)
	ch <- h
	return ch, nil
}
func (c13Blocks) CurrentBlock() (uint64, error) { return 100, nil }

// c13Channel records what the member broadcasts.
type c13Channel struct {
	net.BroadcastChannel
	sent []net.TaggedMarshaler
}

func (c *c13Channel) Send(_ context.Context, m net.TaggedMarshaler, _ ...net.RetransmissionStrategy) error {
	c.sent = append(c.sent, m)
	return nil
}

type c13NetMsg struct {
	net.Message
	payload interface{}
	key     []byte
}

func (m *c13NetMsg) Payload() interface{}    { return m.payload }
func (m *c13NetMsg) SenderPublicKey() []byte { return m.key }
func (m *c13NetMsg) Type() string            { return "beacon_dkg/result_hash_signature_message" }
func (m *c13NetMsg) Seqno() uint64           { return 0 }

var (
	c13Result      = &beaconchain.DKGResult{GroupPublicKey: []byte{10, 11, 12}}
	c13OtherResult = &beaconchain.DKGResult{GroupPublicKey: []byte{20, 21, 22}}
)

// gate configurations: (group size, honest threshold) -> required signatures
// honest + (size-honest)/2, the "25% safety margin" the submission step documents.
type c13Gate struct {
	name         string
	size, honest int
	required     int
}

var c13Gates = []c13Gate{
	{"5/3", 5, 3, 4},
	{"5/2", 5, 2, 3},
	{"5/4", 5, 4, 4},
	{"5/1", 5, 1, 3},
}

func c13BeaconRun(w *c13.World, cfg c13.Config, hist []c13.Wire) c13.Obs {
	ctx := context.Background()
	grp := group.NewGroup(cfg.N()-cfg.Honest, cfg.N())
	cfg.Mark(grp)
	member := NewSigningMember(&testutils.MockLogger{}, c13.Self, grp, w.Validator(cfg), c13.RightSession)
	bc := &c13Chain{signing: w.Signing["A"], config: &beaconchain.Config{GroupSize: 5, HonestThreshold: 3, ResultPublicationBlockStep: 3}}
	ch := &c13Channel{}
	rss := &resultSigningState{
		channel:           ch,
		beaconChain:       bc,
		blockCounter:      c13Blocks{},
		member:            member,
		result:            c13Result,
		signatureMessages: make([]*DKGResultHashSignatureMessage, 0),
	}
	if err := rss.Initiate(ctx); err != nil {
		panic(fmt.Sprintf("c13 infrastructure: signing state Initiate: %v", err))
	}
	if len(ch.sent) != 1 {
		panic("c13 infrastructure: the member did not broadcast exactly one message")
	}
	pos := map[*DKGResultHashSignatureMessage]int{}
	for i, x := range hist {
		var payload *DKGResultHashSignatureMessage
		if x.Sig == "own" {
			own := *(ch.sent[0].(*DKGResultHashSignatureMessage))
			payload = &own
		} else {
			payload = &DKGResultHashSignatureMessage{
				senderIndex: group.MemberIndex(x.Idx),
				resultHash:  beaconchain.DKGResultHash(x.HashBytes),
				signature:   append([]byte{}, x.SigBytes...),
				publicKey:   append([]byte{}, x.PubKey...),
				sessionID:   x.Session,
			}
		}
		pos[payload] = i
		if err := rss.Receive(&c13NetMsg{payload: payload, key: append([]byte{}, x.NetKey...)}); err != nil {
			panic(fmt.Sprintf("c13 infrastructure: Receive returned %v", err))
		}
	}
	var obs c13.Obs
	for _, m := range rss.signatureMessages {
		p, ok := pos[m]
		if !ok {
			p = -1
		}
		obs.Admitted = append(obs.Admitted, p)
	}
	next, err := rss.Next()
	if err != nil {
		panic(fmt.Sprintf("c13 infrastructure: Next: %v", err))
	}
	svs := next.(*signaturesVerificationState)
	if err := svs.Initiate(ctx); err != nil {
		panic(fmt.Sprintf("c13 infrastructure: verification Initiate: %v", err))
	}
	obs.Map = c13.CloneMap(svs.validSignatures)
	for _, g := range c13Gates {
		bc.config = &beaconchain.Config{GroupSize: g.size, HonestThreshold: g.honest, ResultPublicationBlockStep: 3}
		bc.submitted = nil
		last, err := svs.Next()
		if err != nil {
			panic(fmt.Sprintf("c13 infrastructure: Next: %v", err))
		}
		s := c13.Submit{Gate: g.name, Threshold: g.required}
		if err := last.Initiate(ctx); err != nil {
			s.Err = err.Error()
		}
		if len(bc.submitted) > 1 {
			panic("c13 infrastructure: more than one chain submission")
		}
		if len(bc.submitted) == 1 {
			s.Reached = true
			s.Map = bc.submitted[0]
		}
		obs.Submits = append(obs.Submits, s)
	}
	return obs
}

func TestVerifC13Beacon(t *testing.T) {
	r := vrep.Start(t, "C13", "beacon")
	defer r.Finish()
	w := c13.NewWorld(c13BeaconHash(c13Result), c13BeaconHash(c13OtherResult))
	leg := c13.Leg{ID: "C13", Unit: "beacon", World: w,
		Run: func(cfg c13.Config, hist []c13.Wire) c13.Obs { return c13BeaconRun(w, cfg, hist) }}
	c13.Explore(t, r, leg, c13.DefaultBounds(r.Thorough()))
}
