//go:build verif

package tbtc

import (
	"crypto/ecdsa"
	"crypto/sha256"
	"encoding/binary"
	"encoding/json"
	"fmt"
	"math/big"
	"math/rand"
	"sort"
	"strings"
	"testing"

	"github.com/keep-network/keep-core/pkg/chain"
	"github.com/keep-network/keep-core/pkg/tecdsa"
	"github.com/keep-network/keep-core/pkg/verifshim/vrep"
)

// c22Chain is a host chain that only knows block hashes; every other method of the
// embedded (nil) interface panics, which would show that getSeed started to depend on
// something outside the alphabet.
type c22Chain struct {
	Chain
	hashes map[uint64][32]byte
}

func (c *c22Chain) GetBlockHashByNumber(n uint64) ([32]byte, error) {
	h, ok := c.hashes[n]
	if !ok {
		return [32]byte{}, fmt.Errorf("no hash for block %d", n)
	}
	return h, nil
}

// c22Names are the operator addresses (mixed case and different lengths on purpose:
// ordering is by raw string).
var c22Names = []chain.Address{
	"957ECF59507a6A74b8d98747f07a74De270D3CC3",
	"5E14c0f27612fbfB7A6FE40b5A6Ec997fA62fc04",
	"d2662604f8b4540336fBd3c1F48d7e9cdFbD079",
	"7CBD87ABC182216A7Aa0E8d19aA21abFA2511383a",
}

var c22Keys = func() []*ecdsa.PublicKey {
	var out []*ecdsa.PublicKey
	for k := 0; k < 4; k++ {
		x, y := tecdsa.Curve.ScalarBaseMult(big.NewInt(int64(k) + 1).Bytes())
		out = append(out, &ecdsa.PublicKey{Curve: tecdsa.Curve, X: x, Y: y})
	}
	return out
}()

func c22Key(k int) *ecdsa.PublicKey { return c22Keys[k] }

func c22Hash(h, w int) [32]byte {
	return sha256.Sum256([]byte(fmt.Sprintf("c22-safe-block-%d-%d", h, w)))
}

// c22Case identifies one (wallet key, safe block hash, window) triple.
type c22Case struct {
	Key    int    `json:"key"`
	Hash   int    `json:"hash"`
	Window uint64 `json:"window"`
	ViewA  string `json:"view_a,omitempty"`
	ViewB  string `json:"view_b,omitempty"`
}

func c22View(s string) []chain.Address {
	out := make([]chain.Address, len(s))
	for i := range s {
		out[i] = c22Names[s[i]-'A']
	}
	return out
}

func c22Executor(c c22Case, view string) *coordinationExecutor {
	v := c22View(view)
	return &coordinationExecutor{
		chain: &c22Chain{hashes: map[uint64][32]byte{
			c.Window*coordinationFrequencyBlocks - coordinationSafeBlockShift: c22Hash(c.Hash, int(c.Window)),
		}},
		coordinatedWallet: wallet{publicKey: c22Key(c.Key), signingGroupOperators: v},
		operatorAddress:   v[0],
	}
}

// c22Expected is the reference checklist of the property statement: redemption first,
// the three sweep / moving funds actions on every fourth window in the documented
// order, a heartbeat by the draw seeded with the first 8 bytes of the seed.
func c22Expected(window uint64, seed [32]byte) []WalletActionType {
	want := []WalletActionType{ActionRedemption}
	if window%4 == 0 {
		want = append(want, ActionDepositSweep, ActionMovedFundsSweep, ActionMovingFunds)
	}
	rng := rand.New(rand.NewSource(int64(binary.BigEndian.Uint64(seed[:8]))))
	if rng.Float64() < 0.0625 {
		want = append(want, ActionHeartbeat)
	}
	return want
}

func c22List(a []WalletActionType) string {
	s := make([]string, len(a))
	for i, x := range a {
		s[i] = x.String()
	}
	return strings.Join(s, ",")
}

func c22Mask(view string) int {
	m := 0
	for i := range view {
		m |= 1 << uint(view[i]-'A')
	}
	return m
}

type c22Held struct {
	c    c22Case
	got  []WalletActionType
	want string
}

func TestVerifC22(t *testing.T) {
	r := vrep.Start(t, "C22", "coord")
	defer r.Finish()

	// seedOf obtains the seed of a case through the real getSeed of two members with
	// different views (and different operator addresses).
	seedOf := func(c c22Case) [32]byte {
		sa, errA := c22Executor(c, "A").getSeed(c.Window * coordinationFrequencyBlocks)
		sb, errB := c22Executor(c, "DCBA").getSeed(c.Window * coordinationFrequencyBlocks)
		if errA != nil || errB != nil {
			t.Fatalf("getSeed failed on the fake chain: %v %v", errA, errB)
		}
		if sa != sb {
			r.ViolationMin("seed-differs", int(c.Window), fmt.Sprintf("key=%d hash=%d window=%d", c.Key, c.Hash, c.Window),
				"two members with the same wallet key, window and safe block hash computed different seeds", c)
		}
		return sa
	}
	leaderOf := func(c c22Case, seed [32]byte, view string) chain.Address {
		e := &coordinationExecutor{coordinatedWallet: wallet{publicKey: c22Key(c.Key), signingGroupOperators: c22View(view)}}
		var leader chain.Address
		if p, stack := vrep.Guard(func() { leader = e.getLeader(seed) }); p != nil {
			rp := c
			rp.ViewA, rp.ViewB = view, view
			r.ViolationMin("leader-panic", len(view), fmt.Sprintf("key=%d hash=%d window=%d view=%s", c.Key, c.Hash, c.Window, view),
				fmt.Sprintf("getLeader panicked on view %s: %v\n%s", view, p, stack), rp)
		}
		// A member whose executor already ran an earlier election (another seed) must
		// elect the same leader as a member with a fresh executor (e.g. one restarted in
		// the meantime): the statement quantifies over every member.
		warm := &coordinationExecutor{coordinatedWallet: wallet{publicKey: c22Key(c.Key), signingGroupOperators: c22View(view)}}
		other := seed
		other[0] ^= 0x5a
		other[31] ^= 0xa5
		var again chain.Address
		if p, _ := vrep.Guard(func() { warm.getLeader(other); again = warm.getLeader(seed) }); p == nil && again != leader {
			rp := c
			rp.ViewA, rp.ViewB = view, view
			r.ViolationMin("leader-history", len(view), fmt.Sprintf("key=%d hash=%d window=%d view=%s", c.Key, c.Hash, c.Window, view),
				fmt.Sprintf("view %s: a fresh executor elects %s, an executor that ran an earlier election elects %s", view, leader, again), rp)
		}
		return leader
	}
	// leaderCheck compares the leader elected through viewB with the one elected
	// through viewA (same operator set) and checks membership; returns the leader's
	// index in c22Names (-1 = not an operator name at all).
	leaderCheck := func(c c22Case, seed [32]byte, viewA string, la chain.Address, viewB string) int {
		lb := leaderOf(c, seed, viewB)
		rp := c
		rp.ViewA, rp.ViewB = viewA, viewB
		fp := fmt.Sprintf("key=%d hash=%d window=%d", c.Key, c.Hash, c.Window)
		if la != lb {
			r.ViolationMin("leader-differs", len(viewA)*10+len(viewB), fp+" views="+viewA+"/"+viewB,
				fmt.Sprintf("view %s elects %s but view %s (same operator set) elects %s", viewA, la, viewB, lb), rp)
		}
		idx := -1
		for i, n := range c22Names {
			if n == lb {
				idx = i
			}
		}
		if idx < 0 || c22Mask(viewB)&(1<<uint(idx)) == 0 {
			r.ViolationMin("leader-not-operator", len(viewB), fp+" view="+viewB,
				fmt.Sprintf("leader %q is not one of the wallet's operators (view %s)", lb, viewB), rp)
		}
		return idx
	}

	checklistCheck := func(c c22Case, view string) ([]WalletActionType, string) {
		e := c22Executor(c, view)
		seed, err := e.getSeed(c.Window * coordinationFrequencyBlocks)
		if err != nil {
			t.Fatalf("getSeed failed on the fake chain: %v", err)
		}
		got := e.getActionsChecklist(c.Window, seed)
		want := c22List(c22Expected(c.Window, seed))
		if c22List(got) != want {
			rp := c
			rp.ViewA = view
			r.ViolationMin("checklist", int(c.Window), fmt.Sprintf("key=%d hash=%d window=%d", c.Key, c.Hash, c.Window),
				fmt.Sprintf("window %d: checklist [%s], the statement demands [%s]", c.Window, c22List(got), want), rp)
		}
		r.Outcome("checklist " + want)
		return got, want
	}

	// A member that cannot read the safe block hash must not come up with a seed of its
	// own (it would elect another leader than everybody else): getSeed has to fail.
	for _, w := range []uint64{1, 4} {
		e := c22Executor(c22Case{Key: 0, Hash: 0, Window: w}, "AB")
		e.chain = &c22Chain{hashes: map[uint64][32]byte{}} // every hash lookup fails
		var seed [32]byte
		var err error
		if p, stack := vrep.Guard(func() { seed, err = e.getSeed(w * coordinationFrequencyBlocks) }); p != nil {
			r.ViolationMin("seed-panic", int(w), fmt.Sprintf("window=%d hash lookup fails", w), fmt.Sprintf("getSeed panicked: %v\n%s", p, stack), nil)
		} else if err == nil {
			r.ViolationMin("seed-without-hash", int(w), fmt.Sprintf("window=%d hash lookup fails", w),
				fmt.Sprintf("the safe block hash could not be read but getSeed returned seed %x without an error", seed), nil)
		}
		r.Eval(1)
		r.Outcome("seed: lookup failure reported")
	}
	if rd := r.ReplayData(); rd != nil {
		var c c22Case
		if json.Unmarshal(rd, &c) == nil && c.Window != 0 {
			if c.ViewB != "" {
				seed := seedOf(c)
				leaderCheck(c, seed, c.ViewA, leaderOf(c, seed, c.ViewA), c.ViewB)
			} else {
				// a checklist violation may need the history of earlier calls (shared
				// state): replay every window up to the failing one, then re-check
				var held []c22Held
				for w := uint64(1); w <= c.Window; w++ {
					cc := c22Case{Key: c.Key, Hash: c.Hash, Window: w}
					got, want := checklistCheck(cc, "AB")
					held = append(held, c22Held{cc, got, want})
				}
				for _, h := range held {
					if c22List(h.got) != h.want {
						r.ViolationMin("checklist-unstable", int(h.c.Window), fmt.Sprintf("key=%d hash=%d window=%d", h.c.Key, h.c.Hash, h.c.Window),
							fmt.Sprintf("the checklist returned for window %d changed to [%s] after later calls (was [%s])", h.c.Window, c22List(h.got), h.want), h.c)
					}
				}
			}
		}
		return
	}

	maxLen, keys, hashes, windows := 5, 2, 16, 32
	if r.Thorough() {
		maxLen, keys, hashes, windows = 6, 3, 24, 48
	}
	// every list over the four names up to maxLen, grouped by operator set
	groups := map[int][]string{}
	var gen func(p string)
	gen = func(p string) {
		if len(p) > 0 {
			groups[c22Mask(p)] = append(groups[c22Mask(p)], p)
		}
		if len(p) == maxLen {
			return
		}
		for o := 0; o < len(c22Names); o++ {
			gen(p + string(rune('A'+o)))
		}
	}
	gen("")
	var masks []int
	nviews := 0
	for m, g := range groups {
		masks = append(masks, m)
		nviews += len(g)
	}
	sort.Ints(masks)
	r.Set("views", nviews)
	r.Set("operator_sets", len(masks))

	var cases []c22Case
	for k := 0; k < keys; k++ {
		for h := 0; h < hashes; h++ {
			for w := 1; w <= windows; w++ {
				cases = append(cases, c22Case{Key: k, Hash: h, Window: uint64(w)})
			}
		}
	}
	r.Set("seeds", len(cases))
	r.Sample(map[string]any{"case": cases[0], "views_of_set_ABC": groups[7][:6], "all_views": nviews})

	// pass 1 (sequential, results retained): the checklist of every case through three
	// members with different views; pass 3 re-reads the retained slices.
	var held []c22Held
	for _, c := range cases {
		var first string
		for i, view := range []string{"A", "BA", "DCBA"} {
			got, want := checklistCheck(c, view)
			r.Eval(1)
			if i == 0 {
				first = c22List(got)
				held = append(held, c22Held{c, got, want})
			} else if c22List(got) != first {
				rp := c
				rp.ViewA = view
				r.ViolationMin("checklist-differs", int(c.Window), fmt.Sprintf("key=%d hash=%d window=%d", c.Key, c.Hash, c.Window),
					fmt.Sprintf("members with views A and %s computed different checklists: [%s] vs [%s]", view, first, c22List(got)), rp)
			}
		}
		r.Distinct(fmt.Sprintf("cl|%d|%d|%d", c.Key, c.Hash, c.Window))
	}

	// pass 1b (sequential): one node coordinating many wallets in the same window - the
	// checklists of all seeds of a window are computed one right after the other, in both
	// orders (whatever the process remembers about a window must not leak between wallets)
	for w := 1; w <= windows; w++ {
		for _, rev := range []bool{false, true} {
			for i := 0; i < keys*hashes; i++ {
				j := i
				if rev {
					j = keys*hashes - 1 - i
				}
				c := c22Case{Key: j / hashes, Hash: j % hashes, Window: uint64(w)}
				got, want := checklistCheck(c, "AB")
				held = append(held, c22Held{c, got, want})
				r.Eval(1)
			}
		}
	}

	// pass 2 (parallel): the leader of every case through every view
	vrep.Parallel(vrep.Workers(), len(cases), func(i int) {
		if r.Expired() {
			return
		}
		c := cases[i]
		evals := 2
		seed := seedOf(c)
		for _, m := range masks {
			g := groups[m]
			la := leaderOf(c, seed, g[0])
			evals++
			idx := -1
			for _, view := range g {
				idx = leaderCheck(c, seed, g[0], la, view)
				evals++
			}
			if len(g) > 1 && m&(m-1) != 0 {
				r.Distinct(fmt.Sprintf("ld|%d|%d|%d|%d", c.Key, c.Hash, c.Window, m))
				// rank of the elected operator inside its set: shows the election moves
				rank, size := 0, 0
				for b := 0; b < len(c22Names); b++ {
					if m&(1<<uint(b)) != 0 {
						size++
						if idx >= 0 && c22Names[b] < c22Names[idx] {
							rank++
						}
					}
				}
				r.Outcome(fmt.Sprintf("leader rank %d of %d", rank, size))
			}
		}
		r.Eval(evals)
	})

	// pass 3: a checklist handed out earlier must still be what it was
	for _, h := range held {
		if c22List(h.got) != h.want {
			r.ViolationMin("checklist-unstable", int(h.c.Window), fmt.Sprintf("key=%d hash=%d window=%d", h.c.Key, h.c.Hash, h.c.Window),
				fmt.Sprintf("the checklist returned for window %d changed to [%s] after later calls (was [%s])", h.c.Window, c22List(h.got), h.want), h.c)
		}
	}
}
